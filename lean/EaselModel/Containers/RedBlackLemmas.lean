import EaselModel.Containers.RedBlack

/-! # esl_red_black.c — proofs about the executable model `EaselModel.Containers.RedBlack`

Key type `Int` throughout (as in the driver). Core Lean only.

* `toLinkedDesc_eq`, `linked_sorted` — `convert_to_sorted_linked` yields the reverse in-order list;
* `lookup_iff`                      — lookup on a BST-ordered tree is membership;
* `ins_ord` / `insert_order`        — order/membership half of insertion (colour independent);
* `ins_bal` / `insert_balanced`     — colour / black-height half, including "never `fatal`";
* `insert_spec`, `insertAll_spec`   — the combined statements;
* `Balanced.size_ge`, `Balanced.height_le`, `WF.height_le` — the logarithmic height bound. -/
namespace EaselModel.Containers.RedBlack

namespace Tree

/-! ## 1. `toList`, `toLinkedDesc`, `lookup` -/

@[simp] theorem toList_nil : toList (.nil : Tree Int) = [] := rfl
@[simp] theorem toList_node (c : Color) (a : Tree Int) (x : Int) (b : Tree Int) :
    toList (.node c a x b) = toList a ++ x :: toList b := rfl

@[simp] theorem toList_setColor (c : Color) (t : Tree Int) : toList (t.setColor c) = toList t := by
  cases t <;> rfl

/-- `convert_to_sorted_linked`: following `small` links from `head` visits the keys in descending order:
    the reverse of the in-order list -/
theorem toLinkedDesc_eq (t : Tree Int) (acc : List Int) :
    toLinkedDesc t acc = acc ++ (toList t).reverse := by
  induction t generalizing acc with
  | nil => simp [toLinkedDesc]
  | node c a x b iha ihb => simp [toLinkedDesc, iha, ihb, List.append_assoc]

theorem lookup_iff (t : Tree Int) (h : (toList t).Pairwise (· < ·)) (k : Int) :
    lookup k t = true ↔ k ∈ toList t := by
  induction t with
  | nil => simp [lookup]
  | node c a x b iha ihb =>
    simp only [toList_node, List.pairwise_append, List.pairwise_cons, List.mem_cons] at h
    obtain ⟨ha, ⟨hxb, hb⟩, hab⟩ := h
    have iha := iha ha
    have ihb := ihb hb
    simp only [lookup, toList_node, List.mem_append, List.mem_cons]
    by_cases hxk : x = k
    · simp [hxk]
    · by_cases hlt : x < k
      · simp only [hxk, hlt, if_true, if_false, ihb]
        constructor
        · intro hk; exact Or.inr (Or.inr hk)
        · rintro (hk | hk | hk)
          · have := hab k hk x (Or.inl rfl); omega
          · exact absurd hk.symm hxk
          · exact hk
      · simp only [hxk, hlt, if_false, iha]
        constructor
        · intro hk; exact Or.inl hk
        · rintro (hk | hk | hk)
          · exact hk
          · exact absurd hk.symm hxk
          · have := hxb k hk; omega

/-! ## 2. Order / membership half of insertion (independent of colours) -/

theorem rotate_toList {gs : Tree Int} {gk : Int} {gl : Tree Int} {sp sn : Side} {t' : Tree Int}
    (h : rotate gs gk gl sp sn = some t') : toList t' = toList gs ++ gk :: toList gl := by
  unfold rotate at h
  split at h
  · split at h
    · cases h; simp [List.append_assoc]
    · cases h
  · split at h
    · cases h; simp [List.append_assoc]
    · cases h
  · split at h
    · cases h; simp [List.append_assoc]
    · cases h
  · split at h
    · cases h; simp [List.append_assoc]
    · cases h

end Tree

/-- the tree carried by a result (`dup`, `fatal` carry none) -/
def Res.tree? : Res Int → Option (Tree Int)
  | .dup => none
  | .fatal => none
  | .done t => some t
  | .check t => some t
  | .viol t _ => some t

namespace Tree

/-- replace the `s`-child -/
def withChild (c : Color) (a : Tree Int) (x : Int) (b : Tree Int) (s : Side) (t : Tree Int) : Tree Int :=
  match s with
  | .small => .node c t x b
  | .large => .node c a x t

/-- whatever `up` answers (unless `fatal`), its tree has the in-order list of the node with the `s`-child replaced -/
theorem up_tree (c : Color) (a : Tree Int) (x : Int) (b : Tree Int) (s : Side) (r : Res Int)
    (t : Tree Int) (hr : r.tree? = some t) :
    up c a x b s r = .fatal ∨
      ∃ t', (up c a x b s r).tree? = some t' ∧ toList t' = toList (withChild c a x b s t) := by
  cases r with
  | dup => cases hr
  | fatal => cases hr
  | done t0 =>
    cases hr
    cases s <;> exact Or.inr ⟨_, rfl, rfl⟩
  | check t0 =>
    cases hr
    cases s <;> (simp only [up]; split) <;> exact Or.inr ⟨_, rfl, rfl⟩
  | viol t0 sn =>
    cases hr
    cases s
    · simp only [up]
      split
      · exact Or.inr ⟨_, rfl, by simp [withChild]⟩
      · cases hrot : rotate t x b .small sn with
        | none => exact Or.inl rfl
        | some t' => exact Or.inr ⟨_, rfl, by simp [withChild, rotate_toList hrot]⟩
    · simp only [up]
      split
      · exact Or.inr ⟨_, rfl, by simp [withChild]⟩
      · cases hrot : rotate a x t .large sn with
        | none => exact Or.inl rfl
        | some t' => exact Or.inr ⟨_, rfl, by simp [withChild, rotate_toList hrot]⟩

@[simp] theorem up_dup (c : Color) (a : Tree Int) (x : Int) (b : Tree Int) (s : Side) :
    up c a x b s .dup = .dup := rfl
@[simp] theorem up_fatal (c : Color) (a : Tree Int) (x : Int) (b : Tree Int) (s : Side) :
    up c a x b s .fatal = .fatal := rfl

/-- what the order half says about a result of `ins k` on a tree with in-order list `l` -/
def OrdInv (k : Int) (l : List Int) (r : Res Int) : Prop :=
  r = .fatal ∨ (r = .dup ∧ k ∈ l) ∨
    ∃ t', r.tree? = some t' ∧ k ∉ l ∧ (toList t').Pairwise (· < ·) ∧ ∀ x, x ∈ toList t' ↔ x = k ∨ x ∈ l

theorem ins_ord (k : Int) (t : Tree Int) (h : (toList t).Pairwise (· < ·)) :
    OrdInv k (toList t) (ins k t) := by
  induction t with
  | nil =>
    refine Or.inr (Or.inr ⟨_, rfl, ?_⟩)
    simp
  | node c a x b iha ihb =>
    simp only [toList_node, List.pairwise_append, List.pairwise_cons, List.mem_cons] at h
    obtain ⟨ha, ⟨hxb, hb⟩, hab⟩ := h
    have hax : ∀ y ∈ toList a, y < x := fun y hy => hab y hy x (Or.inl rfl)
    have iha := iha ha
    have ihb := ihb hb
    simp only [ins]
    split
    next hlt =>
      -- descend into `large`
      rcases ihb with hf | ⟨hd, hk⟩ | ⟨t', ht', hk, hp, hm⟩
      · rw [hf]; exact Or.inl rfl
      · rw [hd]; exact Or.inr (Or.inl ⟨rfl, by simp [hk]⟩)
      · rcases up_tree c a x b .large _ t' ht' with hf | ⟨t'', ht'', hl⟩
        · exact Or.inl hf
        · refine Or.inr (Or.inr ⟨t'', ht'', ?_, ?_, ?_⟩)
          · simp only [toList_node, List.mem_append, List.mem_cons, not_or]
            exact ⟨fun hka => by have := hax k hka; omega, by omega, hk⟩
          · rw [hl]
            simp only [withChild, toList_node, List.pairwise_append, List.pairwise_cons, List.mem_cons]
            refine ⟨ha, ⟨?_, hp⟩, ?_⟩
            · intro y hy
              rcases (hm y).1 hy with rfl | hy
              · exact hlt
              · exact hxb y hy
            · intro y hy z hz
              rcases hz with rfl | hz
              · exact hax y hy
              · rcases (hm z).1 hz with rfl | hz
                · have := hax y hy; omega
                · exact hab y hy z (Or.inr hz)
          · intro y
            rw [hl]
            simp only [withChild, toList_node, List.mem_append, List.mem_cons, hm]
            constructor
            · rintro (h | h | h | h) <;> simp [h]
            · rintro (h | h | h | h) <;> simp [h]
    next hnlt =>
      split
      next hlt =>
        rcases iha with hf | ⟨hd, hk⟩ | ⟨t', ht', hk, hp, hm⟩
        · rw [hf]; exact Or.inl rfl
        · rw [hd]; exact Or.inr (Or.inl ⟨rfl, by simp [hk]⟩)
        · rcases up_tree c a x b .small _ t' ht' with hf | ⟨t'', ht'', hl⟩
          · exact Or.inl hf
          · refine Or.inr (Or.inr ⟨t'', ht'', ?_, ?_, ?_⟩)
            · simp only [toList_node, List.mem_append, List.mem_cons, not_or]
              exact ⟨hk, by omega, fun hkb => by have := hxb k hkb; omega⟩
            · rw [hl]
              simp only [withChild, toList_node, List.pairwise_append, List.pairwise_cons, List.mem_cons]
              refine ⟨hp, ⟨hxb, hb⟩, ?_⟩
              intro y hy z hz
              rcases (hm y).1 hy with rfl | hy
              · rcases hz with rfl | hz
                · exact hlt
                · have := hxb z hz; omega
              · exact hab y hy z hz
            · intro y
              rw [hl]
              simp only [withChild, toList_node, List.mem_append, List.mem_cons, hm]
              constructor
              · rintro ((h | h) | h | h) <;> simp [h]
              · rintro (h | h | h | h) <;> simp [h]
      next hnlt' =>
        have : x = k := by omega
        exact Or.inr (Or.inl ⟨rfl, by simp [this]⟩)

/-! ## 3. Colour / black-height half -/

/-- red-black shape: no red node has a red child, and every root-to-nil path has `n` black nodes.
    `Balanced t c n`: `c` is the root colour, `n` the black height. -/
inductive Balanced : Tree Int → Color → Nat → Prop
  | nil : Balanced .nil .black 0
  | red {a x b n} : Balanced a .black n → Balanced b .black n → Balanced (.node .red a x b) .red n
  | black {a x b c₁ c₂ n} : Balanced a c₁ n → Balanced b c₂ n → Balanced (.node .black a x b) .black (n+1)

theorem Balanced.color_eq {t : Tree Int} {c : Color} {n : Nat} (h : Balanced t c n) : t.color = c := by
  cases h <;> rfl

/-- a proper red-rooted tree, blackened: black height goes up by one -/
theorem Balanced.blacken {t : Tree Int} {n : Nat} (h : Balanced t .red n) :
    Balanced (t.setColor .black) .black (n+1) := by
  cases h with
  | red ha hb => exact .black ha hb

theorem Balanced.setColor_red {t : Tree Int} {n : Nat} (h : Balanced t .red n) : t.setColor .red = t := by
  cases h; rfl

/-- a subtree whose root is red (as read by `color`) is a proper red node -/
theorem Balanced.of_color_red {t : Tree Int} {c : Color} {n : Nat} (h : Balanced t c n)
    (hc : t.color = .red) : Balanced t .red n := by
  have := h.color_eq
  rw [hc] at this
  subst this
  exact h

theorem Balanced.of_color_ne_red {t : Tree Int} {c : Color} {n : Nat} (h : Balanced t c n)
    (hc : ¬ t.color = .red) : Balanced t .black n := by
  have := h.color_eq
  cases c with
  | red => exact absurd this hc
  | black => exact h

/-- what the colour half says about a result of `ins k` on a `Balanced t c n` tree -/
def BalInv (c : Color) (n : Nat) : Res Int → Prop
  | .dup => True
  | .fatal => False
  | .done t' => Balanced t' c n
  | .check t' => c = .black ∧ Balanced t' .red n
  | .viol t' s => c = .red ∧ ∃ a x b, t' = .node .red a x b ∧
      match s with
      | .small => Balanced a .red n ∧ Balanced b .black n
      | .large => Balanced a .black n ∧ Balanced b .red n

/-- the uncle-is-black rotations, parent on the small side -/
theorem rotate_small_bal {p : Tree Int} {x : Int} {u : Tree Int} {sn : Side} {n : Nat} {pa pb : Tree Int} {px : Int}
    (hp : p = .node .red pa px pb)
    (hch : match sn with
      | .small => Balanced pa .red n ∧ Balanced pb .black n
      | .large => Balanced pa .black n ∧ Balanced pb .red n)
    (hu : Balanced u .black n) :
    ∃ t', rotate p x u .small sn = some t' ∧ Balanced t' .black (n+1) := by
  subst hp
  cases sn with
  | small =>
    obtain ⟨h1, h2⟩ := hch
    refine ⟨_, rfl, ?_⟩
    rw [h1.setColor_red]
    exact .black h1 (.red h2 hu)
  | large =>
    obtain ⟨h1, h2⟩ := hch
    cases h2 with
    | red hns hnl => exact ⟨_, rfl, .black (.red h1 hns) (.red hnl hu)⟩

/-- the uncle-is-black rotations, parent on the large side -/
theorem rotate_large_bal {p : Tree Int} {x : Int} {u : Tree Int} {sn : Side} {n : Nat} {pa pb : Tree Int} {px : Int}
    (hp : p = .node .red pa px pb)
    (hch : match sn with
      | .small => Balanced pa .red n ∧ Balanced pb .black n
      | .large => Balanced pa .black n ∧ Balanced pb .red n)
    (hu : Balanced u .black n) :
    ∃ t', rotate u x p .large sn = some t' ∧ Balanced t' .black (n+1) := by
  subst hp
  cases sn with
  | small =>
    obtain ⟨h1, h2⟩ := hch
    cases h1 with
    | red hns hnl => exact ⟨_, rfl, .black (.red hu hns) (.red hnl h2)⟩
  | large =>
    obtain ⟨h1, h2⟩ := hch
    refine ⟨_, rfl, ?_⟩
    rw [h2.setColor_red]
    exact .black (.red hu h1) h2

/-- `up` at a red node: both children are black-rooted of height `n` -/
theorem up_bal_red {a b : Tree Int} {x : Int} {n : Nat} (s : Side) (r : Res Int)
    (ha : Balanced a .black n) (hb : Balanced b .black n) (hr : BalInv .black n r) :
    BalInv .red n (up .red a x b s r) := by
  cases r with
  | dup => trivial
  | fatal => exact hr
  | done t' =>
    cases s
    · exact Balanced.red hr hb
    · exact Balanced.red ha hr
  | check t' =>
    obtain ⟨_, ht⟩ := hr
    cases s
    · exact ⟨rfl, _, _, _, rfl, ht, hb⟩
    · exact ⟨rfl, _, _, _, rfl, ha, ht⟩
  | viol t' sn => exact absurd hr.1 (by decide)

/-- `up` at a black node whose small child was descended into -/
theorem up_bal_black_small {a b : Tree Int} {x : Int} {c₁ c₂ : Color} {n : Nat} (r : Res Int)
    (hb : Balanced b c₂ n) (hr : BalInv c₁ n r) :
    BalInv .black (n+1) (up .black a x b .small r) := by
  cases r with
  | dup => trivial
  | fatal => exact hr
  | done t' => exact Balanced.black hr hb
  | check t' => exact Balanced.black hr.2 hb
  | viol t' sn =>
    obtain ⟨_, pa, px, pb, hp, hch⟩ := hr
    simp only [up]
    split
    next hred => exact ⟨rfl, .red (by subst hp; cases sn <;> exact .black hch.1 hch.2) (hb.of_color_red hred).blacken⟩
    next hblk =>
      obtain ⟨t'', hrot, hbal⟩ := rotate_small_bal (x := x) hp hch (hb.of_color_ne_red hblk)
      simp only [hrot]
      exact hbal

/-- `up` at a black node whose large child was descended into -/
theorem up_bal_black_large {a b : Tree Int} {x : Int} {c₁ c₂ : Color} {n : Nat} (r : Res Int)
    (ha : Balanced a c₁ n) (hr : BalInv c₂ n r) :
    BalInv .black (n+1) (up .black a x b .large r) := by
  cases r with
  | dup => trivial
  | fatal => exact hr
  | done t' => exact Balanced.black ha hr
  | check t' => exact Balanced.black ha hr.2
  | viol t' sn =>
    obtain ⟨_, pa, px, pb, hp, hch⟩ := hr
    simp only [up]
    split
    next hred => exact ⟨rfl, .red (ha.of_color_red hred).blacken (by subst hp; cases sn <;> exact .black hch.1 hch.2)⟩
    next hblk =>
      obtain ⟨t'', hrot, hbal⟩ := rotate_large_bal (x := x) hp hch (ha.of_color_ne_red hblk)
      simp only [hrot]
      exact hbal

/-- colour half of `ins`; in particular `ins` never answers `fatal` on a balanced tree -/
theorem ins_bal (k : Int) {t : Tree Int} {c : Color} {n : Nat} (h : Balanced t c n) :
    BalInv c n (ins k t) := by
  induction h with
  | nil => exact ⟨rfl, .red .nil .nil⟩
  | @red a x b n ha hb iha ihb =>
    simp only [ins]
    split
    · exact up_bal_red .large _ ha hb ihb
    · split
      · exact up_bal_red .small _ ha hb iha
      · trivial
  | @black a x b c₁ c₂ n ha hb iha ihb =>
    simp only [ins]
    split
    · exact up_bal_black_large _ ha ihb
    · split
      · exact up_bal_black_small _ hb iha
      · trivial

/-! ## 4. `insert`, `insertAll`, `toLinkedDesc` -/

/-- order half of `insert` (no colour hypothesis): unless the model hits `esl_fatal` (excluded by `insert_balanced`),
    BST order is preserved, duplicates are detected exactly, and exactly the key is added -/
theorem insert_order (t : Tree Int) (k : Int) (h : (toList t).Pairwise (· < ·)) :
    insert t k = none ∨
    ∃ t' b, insert t k = some (t', b) ∧ (toList t').Pairwise (· < ·) ∧
      (b = false ↔ k ∈ toList t) ∧ (k ∈ toList t → t' = t) ∧
      (∀ x, x ∈ toList t' ↔ x = k ∨ x ∈ toList t) := by
  have ho := ins_ord k t h
  unfold insert
  cases hr : ins k t with
  | fatal => exact Or.inl rfl
  | viol t' s => exact Or.inl rfl
  | dup =>
    rw [hr] at ho
    rcases ho with hf | ⟨_, hk⟩ | ⟨t', ht', _⟩
    · cases hf
    · refine Or.inr ⟨t, false, rfl, h, by simp [hk], fun _ => rfl, ?_⟩
      intro x
      constructor
      · exact Or.inr
      · rintro (rfl | hx)
        · exact hk
        · exact hx
    · cases ht'
  | done t' =>
    rw [hr] at ho
    rcases ho with hf | ⟨hd, _⟩ | ⟨t'', ht', hk, hp, hm⟩
    · cases hf
    · cases hd
    · cases ht'
      exact Or.inr ⟨t', true, rfl, hp, by simp [hk], fun hk' => absurd hk' hk, hm⟩
  | check t' =>
    rw [hr] at ho
    rcases ho with hf | ⟨hd, _⟩ | ⟨t'', ht', hk, hp, hm⟩
    · cases hf
    · cases hd
    · cases ht'
      refine Or.inr ⟨t'.setColor .black, true, rfl, ?_, by simp [hk], fun hk' => absurd hk' hk, ?_⟩
      · rw [toList_setColor]; exact hp
      · intro x; rw [toList_setColor]; exact hm x

/-- colour half of `insert`: on a black-rooted balanced tree insertion never hits the `esl_fatal` branches and
    the result is again black-rooted and balanced (black height unchanged or one more) -/
theorem insert_balanced (t : Tree Int) (k : Int) {n : Nat} (h : Balanced t .black n) :
    ∃ t' b, insert t k = some (t', b) ∧ (Balanced t' .black n ∨ Balanced t' .black (n+1)) := by
  have hb := ins_bal k h
  unfold insert
  cases hr : ins k t with
  | fatal => rw [hr] at hb; exact hb.elim
  | viol t' s => rw [hr] at hb; exact absurd hb.1 (by decide)
  | dup => exact ⟨t, false, rfl, Or.inl h⟩
  | done t' => rw [hr] at hb; exact ⟨t', true, rfl, Or.inl hb⟩
  | check t' => rw [hr] at hb; exact ⟨_, true, rfl, Or.inr hb.2.blacken⟩

/-- the whole invariant of a tree built by insertions: BST order (in-order list strictly increasing), root black,
    no red-red, equal black height -/
def WF (t : Tree Int) : Prop := (toList t).Pairwise (· < ·) ∧ ∃ n, Balanced t .black n

theorem wf_nil : WF (.nil : Tree Int) := ⟨List.Pairwise.nil, 0, .nil⟩

/-- MAIN: insertion never hits the `esl_fatal` branches, preserves the invariant, and adds exactly the key -/
theorem insert_spec (t : Tree Int) (k : Int) (h : WF t) :
    ∃ t' b, insert t k = some (t', b) ∧ WF t' ∧
      (b = false ↔ k ∈ toList t) ∧
      (k ∈ toList t → t' = t) ∧
      (∀ x, x ∈ toList t' ↔ x = k ∨ x ∈ toList t) := by
  obtain ⟨hp, n, hbal⟩ := h
  obtain ⟨t', b, hins, hb'⟩ := insert_balanced t k hbal
  rcases insert_order t k hp with hnone | ⟨t'', b'', hins', hp', hdup, hsame, hmem⟩
  · rw [hnone] at hins; cases hins
  · rw [hins] at hins'
    cases hins'
    refine ⟨t', b, hins, ⟨hp', ?_⟩, hdup, hsame, hmem⟩
    rcases hb' with hb' | hb'
    · exact ⟨_, hb'⟩
    · exact ⟨_, hb'⟩

/-- generalisation of `insertAll_spec` to a non-empty start tree -/
theorem insertAll_spec' (ks : List Int) (t : Tree Int) (h : WF t) :
    ∃ t', insertAll t ks = some t' ∧ WF t' ∧ ∀ x, x ∈ toList t' ↔ x ∈ ks ∨ x ∈ toList t := by
  induction ks generalizing t with
  | nil => exact ⟨t, rfl, h, by simp⟩
  | cons k ks ih =>
    obtain ⟨t1, b, hins, hwf1, _, _, hmem1⟩ := insert_spec t k h
    obtain ⟨t2, hall, hwf2, hmem2⟩ := ih t1 hwf1
    refine ⟨t2, ?_, hwf2, ?_⟩
    · simp only [insertAll, hins]; exact hall
    · intro x
      rw [hmem2, hmem1, List.mem_cons]
      constructor
      · rintro (h | h | h)
        · exact Or.inl (Or.inr h)
        · exact Or.inl (Or.inl h)
        · exact Or.inr h
      · rintro ((h | h) | h)
        · exact Or.inr (Or.inl h)
        · exact Or.inl h
        · exact Or.inr (Or.inr h)

theorem insertAll_spec (ks : List Int) :
    ∃ t, insertAll .nil ks = some t ∧ WF t ∧ ∀ x, x ∈ toList t ↔ x ∈ ks := by
  obtain ⟨t, h1, h2, h3⟩ := insertAll_spec' ks .nil wf_nil
  exact ⟨t, h1, h2, by simpa using h3⟩

/-- so for a WF tree the linked list is the strictly descending list of the distinct inserted keys -/
theorem linked_sorted (t : Tree Int) (h : WF t) :
    (toLinkedDesc t []).Pairwise (· > ·) ∧ ∀ x, x ∈ toLinkedDesc t [] ↔ x ∈ toList t := by
  rw [toLinkedDesc_eq]
  refine ⟨?_, fun x => ?_⟩
  · rw [List.nil_append, List.pairwise_reverse]
    exact h.1
  · rw [List.nil_append, List.mem_reverse]

/-- end to end: inserting `ks` into the empty tree and converting to the linked list gives a strictly descending
    list with exactly the (distinct) keys of `ks` -/
theorem insertAll_linked (ks : List Int) :
    ∃ t, insertAll .nil ks = some t ∧ (toLinkedDesc t []).Pairwise (· > ·) ∧
      ∀ x, x ∈ toLinkedDesc t [] ↔ x ∈ ks := by
  obtain ⟨t, h1, h2, h3⟩ := insertAll_spec ks
  obtain ⟨h4, h5⟩ := linked_sorted t h2
  exact ⟨t, h1, h4, fun x => (h5 x).trans (h3 x)⟩

/-! ## 5. Balance consequence: logarithmic height -/

def size : Tree Int → Nat
  | .nil => 0
  | .node _ a _ b => size a + size b + 1

def height : Tree Int → Nat
  | .nil => 0
  | .node _ a _ b => max (height a) (height b) + 1

theorem size_eq_length (t : Tree Int) : size t = (toList t).length := by
  induction t with
  | nil => rfl
  | node c a x b iha ihb => simp [size, iha, ihb]; omega

theorem Balanced.size_ge {t : Tree Int} {c : Color} {n : Nat} (h : Balanced t c n) : 2 ^ n ≤ size t + 1 := by
  induction h with
  | nil => simp [size]
  | red ha hb iha ihb => simp only [size]; omega
  | black ha hb iha ihb => simp only [size, Nat.pow_succ]; omega

theorem Balanced.height_le {t : Tree Int} {c : Color} {n : Nat} (h : Balanced t c n) :
    height t ≤ 2 * n + (if c = .red then 1 else 0) := by
  induction h with
  | nil => simp [height]
  | red ha hb iha ihb =>
    simp only [height] at *
    simp at iha ihb ⊢
    omega
  | @black a x b c₁ c₂ n ha hb iha ihb =>
    simp only [height]
    have h1 : height a ≤ 2 * n + 1 := by split at iha <;> omega
    have h2 : height b ≤ 2 * n + 1 := by split at ihb <;> omega
    simp
    omega

/-- a tree built by insertions with `size t` keys has height at most `2·log₂(size t + 1)` -/
theorem WF.height_le {t : Tree Int} (h : WF t) : 2 ^ ((height t + 1) / 2) ≤ size t + 1 := by
  obtain ⟨_, n, hb⟩ := h
  have h1 := hb.height_le
  have h2 := hb.size_ge
  simp at h1
  have h3 : (height t + 1) / 2 ≤ n := by omega
  exact Nat.le_trans (Nat.pow_le_pow_right (by decide) h3) h2

end Tree
end EaselModel.Containers.RedBlack
