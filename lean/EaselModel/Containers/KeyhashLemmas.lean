import EaselModel.Containers.Keyhash
/-! # Lemmas: the chained hash table refines the insertion-ordered list of distinct keys
Everything is generic in the hash function `H`; the only hypothesis used is `H k sz < sz` for `0 < sz`. -/
namespace EaselModel.Containers.Keyhash

/-! ## the arena -/

/-- key `k` (NUL-free) sits at offset `off` of the arena and is followed by a NUL -/
def KeyAt (m : Array UInt8) (off : Nat) (k : Key) : Prop :=
  (∀ j c, k[j]? = some c → m[off + j]? = some c) ∧ m[off + k.length]? = some 0 ∧ (0 : UInt8) ∉ k

theorem keyAt_append {m : Array UInt8} {off : Nat} {k : Key} (x : Array UInt8) (h : KeyAt m off k) :
    KeyAt (m ++ x) off k := by
  obtain ⟨h1, h2, h3⟩ := h
  have lift : ∀ (i : Nat) (c : UInt8), m[i]? = some c → (m ++ x)[i]? = some c := by
    intro i c hc
    have : i < m.size := by
      apply Classical.byContradiction; intro hn
      rw [Array.getElem?_eq_none (by omega)] at hc; cases hc
    rw [Array.getElem?_append_left this]; exact hc
  exact ⟨fun j c hj => lift _ _ (h1 j c hj), lift _ _ h2, h3⟩

theorem keyAt_new (m : Array UInt8) (k : Key) (h0 : (0 : UInt8) ∉ k) :
    KeyAt (m ++ k.toArray ++ #[0]) m.size k := by
  refine ⟨?_, ?_, h0⟩
  · intro j c hj
    have hjl : j < k.length := by
      apply Classical.byContradiction; intro hn
      rw [List.getElem?_eq_none (by omega)] at hj; cases hj
    rw [Array.getElem?_append_left (by simp; omega), Array.getElem?_append]
    simp [hj]
  · rw [Array.getElem?_append]
    simp

theorem keyAt_tail {m : Array UInt8} {off : Nat} {a : UInt8} {k : Key} (h : KeyAt m off (a :: k)) :
    m[off]? = some a ∧ a ≠ 0 ∧ KeyAt m (off + 1) k := by
  obtain ⟨h1, h2, h3⟩ := h
  refine ⟨by simpa using h1 0 a (by simp), ?_, ?_, ?_, ?_⟩
  · intro h; subst h; exact h3 (by simp)
  · intro j c hj
    have := h1 (j+1) c (by simpa using hj)
    rw [← this]; congr 1; omega
  · rw [← h2]; congr 1; simp; omega
  · intro h; exact h3 (by simp [h])

theorem memstrcmpAt_of_keyAt (p : Key) (m : Array UInt8) (off : Nat) (k : Key) (h : KeyAt m off k) :
    memstrcmpAt p m off = some (decide (p = k)) := by
  induction p generalizing off k with
  | nil =>
    cases k with
    | nil =>
      have := h.2.1; simp at this
      simp [memstrcmpAt, this]
    | cons a k =>
      obtain ⟨h1, h2, _⟩ := keyAt_tail h
      simp [memstrcmpAt, h1, h2]
  | cons c rest ih =>
    cases k with
    | nil =>
      have := h.2.1; simp at this
      simp [memstrcmpAt, this]
    | cons a k =>
      obtain ⟨h1, h2, h3⟩ := keyAt_tail h
      simp only [memstrcmpAt, h1]
      have : (a == 0) = false := by simpa using h2
      simp only [this, Bool.false_eq_true, ↓reduceIte]
      by_cases hca : c = a
      · subst hca
        simp [ih _ _ h3]
      · have : (c != a) = true := by simpa using hca
        simp [this, hca]

theorem cstrLoop_of_keyAt (m : Array UInt8) (k : Key) (off f : Nat) (h : KeyAt m off k) (hf : k.length < f) :
    cstrLoop m f off = some k := by
  induction k generalizing off f with
  | nil =>
    have := h.2.1; simp at this
    cases f with
    | zero => omega
    | succ f => simp [cstrLoop, this]
  | cons a k ih =>
    obtain ⟨h1, h2, h3⟩ := keyAt_tail h
    cases f with
    | zero => omega
    | succ f =>
      have : (a == 0) = false := by simpa using h2
      simp only [cstrLoop, h1, this, Bool.false_eq_true, ↓reduceIte]
      rw [ih (off+1) f h3 (by simp at hf; omega)]; rfl

theorem cstrAt_of_keyAt (m : Array UInt8) (off : Nat) (k : Key) (h : KeyAt m off k) : cstrAt m off = some k := by
  have hsz : off + k.length < m.size := by
    apply Classical.byContradiction; intro hn
    have h2 := h.2.1
    rw [Array.getElem?_eq_none (by omega)] at h2; cases h2
  exact cstrLoop_of_keyAt m k off _ h (by omega)

/-! ## chains -/

/-- `l` = the indices visited from `start` following `nxt`; each is smaller than the previous one and than `b` -/
inductive Chain (nxt : Array (Option Nat)) : Option Nat → Nat → List Nat → Prop
  | nil (b : Nat) : Chain nxt none b []
  | cons (i b : Nat) (l : List Nat) (nx : Option Nat) :
      i < b → nxt[i]? = some nx → Chain nxt nx i l → Chain nxt (some i) b (i :: l)

theorem Chain.mem_lt {nxt s b l} (h : Chain nxt s b l) : ∀ i ∈ l, i < b := by
  induction h with
  | nil b => intro i hi; cases hi
  | cons i b l nx hib _ _ ih =>
    intro j hj
    cases hj with
    | head => exact hib
    | tail _ hj => have := ih j hj; omega

theorem Chain.mono {nxt s b l} (h : Chain nxt s b l) {b' : Nat} (hb : b ≤ b') : Chain nxt s b' l := by
  cases h with
  | nil b => exact .nil _
  | cons i b l nx hib hn hc => exact .cons i b' l nx (by omega) hn hc

theorem Chain.length_le {nxt s b l} (h : Chain nxt s b l) : l.length ≤ b := by
  induction h with
  | nil b => simp
  | cons i b l nx hib _ _ ih => simp; omega

/-- a chain only depends on `nxt[i]` for `i < b` -/
theorem Chain.congr {nxt nxt' s b l} (h : Chain nxt s b l) (he : ∀ i, i < b → nxt'[i]? = nxt[i]?) :
    Chain nxt' s b l := by
  induction h with
  | nil b => exact .nil _
  | cons i b l nx hib hn _ ih =>
    exact .cons i b l nx hib (by rw [he i hib]; exact hn) (ih (fun j hj => he j (by omega)))

theorem Chain.set {nxt s b l} (h : Chain nxt s b l) (m : Nat) (v : Option Nat) (hm : b ≤ m) :
    Chain (nxt.set! m v) s b l :=
  h.congr (fun i hi => by
    rw [Array.set!_eq_setIfInBounds, Array.getElem?_setIfInBounds]
    have : m ≠ i := by omega
    simp [this])

theorem Chain.nxt_size {nxt s b l} (h : Chain nxt s b l) : ∀ i ∈ l, i < nxt.size := by
  induction h with
  | nil b => intro i hi; cases hi
  | cons i b l nx hib hn _ ih =>
    intro j hj
    cases hj with
    | head =>
      apply Classical.byContradiction; intro hc
      rw [Array.getElem?_eq_none (by omega)] at hn; cases hn
    | tail _ hj => exact ih j hj

/-! ## the table -/

/-- the first `m` keys are linked into the buckets of a table of `size` slots according to `H` -/
def Linked (H : Key → Nat → Nat) (keys : List Key) (size : Nat) (ht nxt : Array (Option Nat)) (m : Nat) : Prop :=
  ht.size = size ∧
  ∀ b, b < size → ∃ head l, ht[b]? = some head ∧ Chain nxt head m l ∧
    ∀ j, j ∈ l ↔ (j < m ∧ ∃ k, keys[j]? = some k ∧ H k size = b)

theorem linked_empty (H : Key → Nat → Nat) (keys : List Key) (size : Nat) (nxt : Array (Option Nat)) :
    Linked H keys size (Array.replicate size none) nxt 0 := by
  refine ⟨by simp, fun b hb => ⟨none, [], by simp [Array.getElem?_replicate, hb], .nil _, ?_⟩⟩
  intro j; simp

theorem linked_step {H : Key → Nat → Nat} {keys : List Key} {size : Nat} {ht nxt : Array (Option Nat)} {m : Nat}
    (h : Linked H keys size ht nxt m) (k : Key) (hk : keys[m]? = some k) (head : Option Nat)
    (hhead : ht[H k size]? = some head) (hm : m < nxt.size) :
    Linked H keys size (ht.set! (H k size) (some m)) (nxt.set! m head) (m+1) := by
  obtain ⟨hsz, hb⟩ := h
  have hv : H k size < size := by
    apply Classical.byContradiction; intro hn
    rw [Array.getElem?_eq_none (by omega)] at hhead; cases hhead
  refine ⟨by simp [hsz], ?_⟩
  intro b hbs
  obtain ⟨hd, l, h1, h2, h3⟩ := hb b hbs
  by_cases hbv : b = H k size
  · subst hbv
    rw [hhead] at h1; cases h1
    refine ⟨some m, m :: l, ?_, ?_, ?_⟩
    · rw [Array.set!_eq_setIfInBounds, Array.getElem?_setIfInBounds]; simp [hsz, hbs]
    · refine .cons m (m+1) l head (by omega) ?_ (h2.set m head (Nat.le_refl _))
      rw [Array.set!_eq_setIfInBounds, Array.getElem?_setIfInBounds]; simp [hm]
    · intro j
      simp only [List.mem_cons, h3]
      constructor
      · rintro (rfl | ⟨hj, hk'⟩)
        · exact ⟨by omega, k, hk, rfl⟩
        · exact ⟨by omega, hk'⟩
      · rintro ⟨hj, hk'⟩
        by_cases hjm : j = m
        · exact Or.inl hjm
        · exact Or.inr ⟨by omega, hk'⟩
  · refine ⟨hd, l, ?_, (h2.set m head (Nat.le_refl _)).mono (by omega), ?_⟩
    · rw [Array.set!_eq_setIfInBounds, Array.getElem?_setIfInBounds]
      have : H k size ≠ b := fun h => hbv h.symm
      simp [this, h1]
    · intro j
      rw [h3]
      constructor
      · rintro ⟨hj, hk'⟩; exact ⟨by omega, hk'⟩
      · rintro ⟨hj, k', hk', hH⟩
        refine ⟨?_, k', hk', hH⟩
        apply Classical.byContradiction; intro hn
        have : j = m := by omega
        subst this
        rw [hk] at hk'; cases hk'
        exact hbv hH.symm

theorem linked_keys_append {H : Key → Nat → Nat} {keys : List Key} {size : Nat} {ht nxt : Array (Option Nat)} {m : Nat}
    (h : Linked H keys size ht nxt m) (hm : m ≤ keys.length) (extra : List Key) :
    Linked H (keys ++ extra) size ht nxt m := by
  obtain ⟨hsz, hb⟩ := h
  refine ⟨hsz, fun b hbs => ?_⟩
  obtain ⟨hd, l, h1, h2, h3⟩ := hb b hbs
  refine ⟨hd, l, h1, h2, fun j => ?_⟩
  rw [h3]
  constructor
  · rintro ⟨hj, k, hk, hH⟩
    exact ⟨hj, k, by rw [List.getElem?_append_left (by omega)]; exact hk, hH⟩
  · rintro ⟨hj, k, hk, hH⟩
    exact ⟨hj, k, by rw [List.getElem?_append_left (by omega)] at hk; exact hk, hH⟩

/-! ## the abstraction invariant -/
structure Inv (H : Key → Nat → Nat) (kh : KH) (keys : List Key) : Prop where
  nkeys : kh.nkeys = keys.length
  size_pos : 0 < kh.hashsize
  ko_size : kh.keyOffset.size = kh.kalloc
  nxt_size : kh.nxt.size = kh.kalloc
  kalloc_ge : kh.nkeys ≤ kh.kalloc
  kalloc_pos : 0 < kh.kalloc
  salloc_pos : 0 < kh.salloc
  sn_le : kh.smem.size ≤ kh.salloc
  sn_eq : kh.smem.size = (keys.map (fun k => k.length + 1)).sum
  keyAt : ∀ (i : Nat) (k : Key), keys[i]? = some k → ∃ off, kh.keyOffset[i]? = some off ∧ KeyAt kh.smem off k
  nodup : keys.Nodup
  linked : Linked H keys kh.hashsize kh.hashtable kh.nxt kh.nkeys

/-- hash functions into `[0, size)` -/
def HashOK (H : Key → Nat → Nat) : Prop := ∀ k sz, 0 < sz → H k sz < sz

theorem inv_create (H : Key → Nat → Nat) (size kalloc salloc : Nat) (h1 : 0 < size) (h2 : 0 < kalloc) (h3 : 0 < salloc) :
    Inv H (create size kalloc salloc) [] where
  nkeys := rfl
  size_pos := h1
  ko_size := by simp [create]
  nxt_size := by simp [create]
  kalloc_ge := Nat.zero_le _
  kalloc_pos := h2
  salloc_pos := h3
  sn_le := by simp [create]
  sn_eq := by simp [create]
  keyAt := by intro i k h; simp at h
  nodup := List.nodup_nil
  linked := linked_empty H [] size _

theorem walk_none (kh : KH) (key : Key) (fuel : Nat) : walk kh key fuel none = some none := by
  cases fuel <;> rfl

theorem walk_chain (kh : KH) (keys : List Key) (key : Key)
    (hk : ∀ (i : Nat) (k : Key), keys[i]? = some k → ∃ off, kh.keyOffset[i]? = some off ∧ KeyAt kh.smem off k)
    {start : Option Nat} {b : Nat} {l : List Nat} (hc : Chain kh.nxt start b l) (hl : ∀ i ∈ l, i < keys.length)
    (fuel : Nat) (hf : l.length ≤ fuel) :
    walk kh key fuel start = some (l.find? (fun i => decide (keys[i]? = some key))) := by
  induction hc generalizing fuel with
  | nil b => simp [walk_none]
  | cons i b l nx hib hn _ ih =>
    cases fuel with
    | zero => simp at hf
    | succ f =>
      have hil : i < keys.length := hl i (by simp)
      obtain ⟨off, ho, hka⟩ := hk i keys[i] (by simp [hil])
      simp only [walk, ho, memstrcmpAt_of_keyAt key _ _ _ hka]
      by_cases hkey : key = keys[i]
      · subst hkey
        simp [hil]
      · have hd : decide (key = keys[i]) = false := by simpa using hkey
        simp only [hd, hn]
        rw [ih (fun j hj => hl j (by simp [hj])) f (by simp at hf; omega)]
        have : decide (keys[i]? = some key) = false := by
          simp [hil]; exact fun h => hkey h.symm
        simp [List.find?_cons, this]

theorem find_spec (H : Key → Nat → Nat) (keys : List Key) (key : Key) (size : Nat) (l : List Nat) (hnd : keys.Nodup)
    (hl : ∀ j, j ∈ l ↔ (j < keys.length ∧ ∃ k, keys[j]? = some k ∧ H k size = H key size)) :
    l.find? (fun i => decide (keys[i]? = some key)) = if key ∈ keys then some (keys.idxOf key) else none := by
  by_cases hm : key ∈ keys
  · simp only [hm, ↓reduceIte]
    have hj0 : keys.idxOf key < keys.length := List.idxOf_lt_length_iff.mpr hm
    have hk0 : keys[keys.idxOf key]? = some key := by simp [hj0]
    have hin : keys.idxOf key ∈ l := (hl _).mpr ⟨hj0, key, hk0, rfl⟩
    cases hf : l.find? (fun i => decide (keys[i]? = some key)) with
    | none =>
      have := List.find?_eq_none.mp hf _ hin
      simp [hk0] at this
    | some x =>
      have hp := List.find?_some hf
      simp only [decide_eq_true_eq] at hp
      have : keys[x]? = keys[keys.idxOf key]? := by rw [hp, hk0]
      have hx : x < keys.length := by
        apply Classical.byContradiction; intro hn
        rw [List.getElem?_eq_none (by omega)] at hp; cases hp
      rw [(List.getElem?_inj hx hnd).mp this]
  · simp only [hm, ↓reduceIte]
    apply List.find?_eq_none.mpr
    intro x _ hp
    simp only [decide_eq_true_eq] at hp
    exact hm (List.mem_of_getElem? hp)

theorem walk_inv {H : Key → Nat → Nat} {kh : KH} {keys : List Key} (hi : Inv H kh keys) (hH : HashOK H) (key : Key) :
    ∃ head, kh.hashtable[H key kh.hashsize]? = some head ∧
      walk kh key kh.nkeys head = some (if key ∈ keys then some (keys.idxOf key) else none) := by
  obtain ⟨hd, l, h1, h2, h3⟩ := hi.linked.2 (H key kh.hashsize) (hH _ _ hi.size_pos)
  refine ⟨hd, h1, ?_⟩
  have hlt : ∀ i ∈ l, i < keys.length := fun i h => by have := h2.mem_lt i h; rw [hi.nkeys] at this; exact this
  rw [walk_chain kh keys key hi.keyAt h2 hlt kh.nkeys h2.length_le]
  rw [find_spec H keys key kh.hashsize l hi.nodup]
  intro j; rw [h3, hi.nkeys]

theorem lookup_spec {H : Key → Nat → Nat} {kh : KH} {keys : List Key} (hi : Inv H kh keys) (hH : HashOK H) (key : Key) :
    lookup H kh key = some (if key ∈ keys then (.ok, keys.idxOf key) else (.enotfound, 0)) := by
  obtain ⟨hd, h1, h2⟩ := walk_inv hi hH key
  unfold lookup
  simp only [h1, h2]
  by_cases hm : key ∈ keys <;> simp [hm]

theorem get_spec {H : Key → Nat → Nat} {kh : KH} {keys : List Key} (hi : Inv H kh keys) (i : Nat) :
    get kh i = keys[i]? := by
  unfold get
  by_cases h : i < kh.nkeys
  · have hl : i < keys.length := by rw [← hi.nkeys]; exact h
    obtain ⟨off, ho, hka⟩ := hi.keyAt i keys[i] (by simp [hl])
    simp [h, ho, cstrAt_of_keyAt _ _ _ hka, hl]
  · have hl : keys.length ≤ i := by rw [← hi.nkeys]; omega
    simp [h, List.getElem?_eq_none hl]

/-! ## growth of the table -/
theorem rehashLoop_spec (H : Key → Nat → Nat) (hH : HashOK H) (keys : List Key) (c i : Nat) (kh : KH)
    (hn : i + c = keys.length) (hpos : 0 < kh.hashsize)
    (hk : ∀ (i : Nat) (k : Key), keys[i]? = some k → ∃ off, kh.keyOffset[i]? = some off ∧ KeyAt kh.smem off k)
    (hnx : keys.length ≤ kh.nxt.size) (hl : Linked H keys kh.hashsize kh.hashtable kh.nxt i) :
    ∃ ht nx, rehashLoop H c i kh = some { kh with hashtable := ht, nxt := nx } ∧ nx.size = kh.nxt.size ∧
      Linked H keys kh.hashsize ht nx (i + c) := by
  induction c generalizing i kh with
  | zero => exact ⟨kh.hashtable, kh.nxt, rfl, rfl, hl⟩
  | succ c ih =>
    have hil : i < keys.length := by omega
    obtain ⟨off, ho, hka⟩ := hk i keys[i] (by simp [hil])
    have hv := hH keys[i] kh.hashsize hpos
    obtain ⟨head, _, hh, _, _⟩ := hl.2 _ hv
    have hin : i < kh.nxt.size := by omega
    have hstep : rehashStep H kh i = some { kh with
        nxt := kh.nxt.set! i head, hashtable := kh.hashtable.set! (H keys[i] kh.hashsize) (some i) } := by
      simp [rehashStep, ho, cstrAt_of_keyAt _ _ _ hka, hh, hin]
    have hl' := linked_step hl keys[i] (by simp [hil]) head hh hin
    obtain ⟨ht, nx, h1, h2, h3⟩ := ih (i+1) { kh with
        nxt := kh.nxt.set! i head, hashtable := kh.hashtable.set! (H keys[i] kh.hashsize) (some i) }
      (by omega) hpos hk (by simpa using hnx) hl'
    refine ⟨ht, nx, ?_, by simpa using h2, ?_⟩
    · simp only [rehashLoop, hstep]; exact h1
    · have : i + (c + 1) = i + 1 + c := by omega
      rw [this]; exact h3

/-- what `key_upsize` leaves alone, and how far the table size can go -/
def SameAlloc (kh kh' : KH) : Prop :=
  kh'.salloc = kh.salloc ∧ kh'.kalloc = kh.kalloc ∧ kh'.smem = kh.smem ∧ kh'.nkeys = kh.nkeys ∧
  (kh'.hashsize = kh.hashsize ∨ (kh.hashsize < 2^28 ∧ kh'.hashsize = kh.hashsize * 8))

theorem upsize_spec_full {H : Key → Nat → Nat} {kh : KH} {keys : List Key} (hi : Inv H kh keys) (hH : HashOK H) :
    ∃ kh', upsize H kh = some kh' ∧ Inv H kh' keys ∧ SameAlloc kh kh' := by
  unfold upsize
  by_cases hbig : kh.hashsize ≥ 2^28
  · exact ⟨kh, by simp [hbig], hi, rfl, rfl, rfl, rfl, Or.inl rfl⟩
  · simp only [hbig, ↓reduceIte]
    have hnk := hi.nkeys
    obtain ⟨ht, nx, h1, h2, h3⟩ := rehashLoop_spec H hH keys kh.nkeys 0
      { kh with hashsize := kh.hashsize * 8, hashtable := Array.replicate (kh.hashsize * 8) none }
      (by omega) (by have := hi.size_pos; show 0 < kh.hashsize * 8; omega) hi.keyAt
      (by show keys.length ≤ kh.nxt.size; rw [hi.nxt_size, ← hi.nkeys]; exact hi.kalloc_ge)
      (linked_empty H keys _ _)
    refine ⟨_, h1, ?_, rfl, rfl, rfl, rfl, Or.inr ⟨by omega, rfl⟩⟩
    exact {
      nkeys := hi.nkeys
      size_pos := by have := hi.size_pos; show 0 < kh.hashsize * 8; omega
      ko_size := hi.ko_size
      nxt_size := by show nx.size = kh.kalloc; rw [h2]; exact hi.nxt_size
      kalloc_ge := hi.kalloc_ge
      kalloc_pos := hi.kalloc_pos
      salloc_pos := hi.salloc_pos
      sn_le := hi.sn_le
      sn_eq := hi.sn_eq
      keyAt := hi.keyAt
      nodup := hi.nodup
      linked := by simpa using h3 }

theorem upsize_spec {H : Key → Nat → Nat} {kh : KH} {keys : List Key} (hi : Inv H kh keys) (hH : HashOK H) :
    ∃ kh', upsize H kh = some kh' ∧ Inv H kh' keys := by
  obtain ⟨kh', h1, h2, _⟩ := upsize_spec_full hi hH
  exact ⟨kh', h1, h2⟩

/-- the doubling loop never overshoots: the result is the old allocation, or less than twice what is needed -/
theorem growTo_le (need f a r : Nat) (h : growTo need f a = some r) : r = a ∨ r < 2 * need := by
  induction f generalizing a with
  | zero =>
    by_cases hn : need ≤ a
    · simp [growTo, hn] at h; exact Or.inl h.symm
    · simp [growTo, hn] at h
  | succ f ih =>
    by_cases hn : need ≤ a
    · simp [growTo, hn] at h; exact Or.inl h.symm
    · simp only [growTo, hn, ↓reduceIte] at h
      rcases ih (2*a) h with h1 | h1
      · right; omega
      · exact Or.inr h1

theorem growTo_spec (need f a : Nat) (ha : 1 ≤ a) (hf : need ≤ a + f) :
    ∃ r, growTo need f a = some r ∧ need ≤ r ∧ a ≤ r := by
  induction f generalizing a with
  | zero => exact ⟨a, by simp [growTo]; omega, by omega, Nat.le_refl _⟩
  | succ f ih =>
    by_cases h : need ≤ a
    · exact ⟨a, by simp [growTo, h], h, Nat.le_refl _⟩
    · obtain ⟨r, h1, h2, h3⟩ := ih (2*a) (by omega) (by omega)
      exact ⟨r, by simp [growTo, h, h1], h2, by omega⟩

/-! ## Store -/
/-- the key-index reallocation of `Store` -/
def growK (kh : KH) : KH :=
  if kh.nkeys == kh.kalloc then
    { kh with keyOffset := kh.keyOffset ++ Array.replicate kh.kalloc 0,
              nxt := kh.nxt ++ Array.replicate kh.kalloc none, kalloc := kh.kalloc * 2 }
  else kh

/-- copy the key, assign its index, link it at the head of its bucket -/
def linkNew (kh : KH) (key : Key) (val : Nat) (head : Option Nat) (salloc : Nat) : KH :=
  { kh with salloc := salloc, keyOffset := kh.keyOffset.set! kh.nkeys kh.smem.size,
            smem := kh.smem ++ key.toArray ++ #[0], nkeys := kh.nkeys + 1,
            nxt := kh.nxt.set! kh.nkeys head, hashtable := kh.hashtable.set! val (some kh.nkeys) }

theorem store_new_unfold (H : Key → Nat → Nat) (kh : KH) (key : Key) (head : Option Nat)
    (hh : kh.hashtable[H key kh.hashsize]? = some head) (hw : walk kh key kh.nkeys head = some none) :
    store H kh key =
      match growTo ((growK kh).smem.size + key.length + 1) ((growK kh).smem.size + key.length + 1) (growK kh).salloc with
      | none => none
      | some salloc =>
        if ¬ ((growK kh).nkeys < (growK kh).keyOffset.size ∧ (growK kh).nkeys < (growK kh).nxt.size ∧
              (growK kh).smem.size + key.length + 1 ≤ salloc) then none
        else
          if (linkNew (growK kh) key (H key kh.hashsize) head salloc).nkeys >
              3 * (linkNew (growK kh) key (H key kh.hashsize) head salloc).hashsize then
            match upsize H (linkNew (growK kh) key (H key kh.hashsize) head salloc) with
            | none => none
            | some kh' => some (kh', .ok, (growK kh).nkeys)
          else some (linkNew (growK kh) key (H key kh.hashsize) head salloc, .ok, (growK kh).nkeys) := by
  unfold store
  simp only [hh, hw]
  rfl

theorem growK_inv {H : Key → Nat → Nat} {kh : KH} {keys : List Key} (hi : Inv H kh keys) :
    Inv H (growK kh) keys ∧ (growK kh).nkeys < (growK kh).kalloc ∧ (growK kh).hashsize = kh.hashsize ∧
      (growK kh).hashtable = kh.hashtable ∧ (growK kh).nkeys = kh.nkeys := by
  unfold growK
  by_cases he : kh.nkeys = kh.kalloc
  · have e : (kh.nkeys == kh.kalloc) = true := by simpa using he
    rw [if_pos e]
    have hkp := hi.kalloc_pos
    refine ⟨?_, by show kh.nkeys < kh.kalloc * 2; omega, rfl, rfl, rfl⟩
    exact {
      nkeys := hi.nkeys
      size_pos := hi.size_pos
      ko_size := by show (kh.keyOffset ++ Array.replicate kh.kalloc 0).size = kh.kalloc * 2; simp [hi.ko_size]; omega
      nxt_size := by show (kh.nxt ++ Array.replicate kh.kalloc none).size = kh.kalloc * 2; simp [hi.nxt_size]; omega
      kalloc_ge := by show kh.nkeys ≤ kh.kalloc * 2; omega
      kalloc_pos := by show 0 < kh.kalloc * 2; omega
      salloc_pos := hi.salloc_pos
      sn_le := hi.sn_le
      sn_eq := hi.sn_eq
      keyAt := by
        intro i k hk
        obtain ⟨off, ho, hka⟩ := hi.keyAt i k hk
        refine ⟨off, ?_, hka⟩
        show (kh.keyOffset ++ Array.replicate kh.kalloc 0)[i]? = some off
        have : i < kh.keyOffset.size := by
          apply Classical.byContradiction; intro hn
          rw [Array.getElem?_eq_none (by omega)] at ho; cases ho
        rw [Array.getElem?_append_left this]; exact ho
      nodup := hi.nodup
      linked := by
        obtain ⟨hsz, hb⟩ := hi.linked
        refine ⟨hsz, fun b hbs => ?_⟩
        obtain ⟨hd, l, h1, h2, h3⟩ := hb b hbs
        refine ⟨hd, l, h1, h2.congr (fun i hil => ?_), h3⟩
        show (kh.nxt ++ Array.replicate kh.kalloc none)[i]? = kh.nxt[i]?
        rw [Array.getElem?_append_left (by rw [hi.nxt_size]; have := hi.kalloc_ge; omega)] }
  · have e : (kh.nkeys == kh.kalloc) = false := by simpa using he
    rw [if_neg (by simp [e])]
    have := hi.kalloc_ge
    exact ⟨hi, by show kh.nkeys < kh.kalloc; omega, rfl, rfl, rfl⟩

theorem linkNew_inv {H : Key → Nat → Nat} {kh : KH} {keys : List Key} (hi : Inv H kh keys) (key : Key)
    (hlt : kh.nkeys < kh.kalloc) (hnew : key ∉ keys) (h0 : (0 : UInt8) ∉ key) (head : Option Nat)
    (hh : kh.hashtable[H key kh.hashsize]? = some head) (salloc : Nat) (hs : kh.smem.size + key.length + 1 ≤ salloc) :
    Inv H (linkNew kh key (H key kh.hashsize) head salloc) (keys ++ [key]) where
  nkeys := by show kh.nkeys + 1 = (keys ++ [key]).length; simp [hi.nkeys]
  size_pos := hi.size_pos
  ko_size := by show (kh.keyOffset.set! kh.nkeys kh.smem.size).size = kh.kalloc; simp [hi.ko_size]
  nxt_size := by show (kh.nxt.set! kh.nkeys head).size = kh.kalloc; simp [hi.nxt_size]
  kalloc_ge := by show kh.nkeys + 1 ≤ kh.kalloc; omega
  kalloc_pos := hi.kalloc_pos
  salloc_pos := by show 0 < salloc; omega
  sn_le := by show (kh.smem ++ key.toArray ++ #[0]).size ≤ salloc; simp; omega
  sn_eq := by
    show (kh.smem ++ key.toArray ++ #[0]).size = ((keys ++ [key]).map (fun k => k.length + 1)).sum
    simp [hi.sn_eq]
  keyAt := by
    intro i k hk
    show ∃ off, (kh.keyOffset.set! kh.nkeys kh.smem.size)[i]? = some off ∧ KeyAt (kh.smem ++ key.toArray ++ #[0]) off k
    rw [Array.set!_eq_setIfInBounds, Array.getElem?_setIfInBounds]
    by_cases hil : i < keys.length
    · rw [List.getElem?_append_left hil] at hk
      obtain ⟨off, ho, hka⟩ := hi.keyAt i k hk
      have : kh.nkeys ≠ i := by rw [hi.nkeys]; omega
      exact ⟨off, by simp [this, ho], keyAt_append _ (keyAt_append _ hka)⟩
    · have hie : i = keys.length := by
        have : i < (keys ++ [key]).length := by
          apply Classical.byContradiction; intro hn
          rw [List.getElem?_eq_none (by omega)] at hk; cases hk
        simp at this; omega
      subst hie
      simp at hk; subst hk
      refine ⟨kh.smem.size, ?_, keyAt_new _ _ h0⟩
      simp [hi.nkeys, hi.ko_size]; rw [← hi.nkeys]; exact hlt
  nodup := by
    rw [List.nodup_append]
    refine ⟨hi.nodup, by simp, ?_⟩
    intro a ha b hb
    simp at hb; subst hb
    intro h; subst h; exact hnew ha
  linked := by
    show Linked H (keys ++ [key]) kh.hashsize (kh.hashtable.set! (H key kh.hashsize) (some kh.nkeys))
      (kh.nxt.set! kh.nkeys head) (kh.nkeys + 1)
    have hl := linked_keys_append hi.linked (by rw [hi.nkeys]; exact Nat.le_refl _) [key]
    exact linked_step hl key (by rw [hi.nkeys]; simp) head hh (by rw [hi.nxt_size]; exact hlt)

theorem growK_fields (kh : KH) :
    (growK kh).salloc = kh.salloc ∧ (growK kh).smem = kh.smem ∧
    ((growK kh).kalloc = kh.kalloc ∨ ((growK kh).kalloc = 2 * kh.nkeys ∧ kh.nkeys = kh.kalloc)) := by
  unfold growK
  by_cases he : kh.nkeys = kh.kalloc
  · have e : (kh.nkeys == kh.kalloc) = true := by simpa using he
    rw [if_pos e]
    exact ⟨rfl, rfl, Or.inr ⟨by show kh.kalloc * 2 = 2 * kh.nkeys; omega, he⟩⟩
  · have e : (kh.nkeys == kh.kalloc) = false := by simpa using he
    rw [if_neg (by simp [e])]
    exact ⟨rfl, rfl, Or.inl rfl⟩

/-- how the allocations and the table size of a Store's result relate to the old ones: they stay, or are less than twice
    what the new content needs; the table grows 8-fold only from below `2^28` -/
def AllocStep (kh kh' : KH) (key : Key) : Prop :=
  (kh'.salloc = kh.salloc ∨ kh'.salloc < 2 * (kh.smem.size + key.length + 1)) ∧
  (kh'.kalloc = kh.kalloc ∨ kh'.kalloc = 2 * kh.nkeys) ∧
  (kh'.hashsize = kh.hashsize ∨ (kh.hashsize < 2^28 ∧ kh'.hashsize = kh.hashsize * 8))

theorem store_spec_full {H : Key → Nat → Nat} {kh : KH} {keys : List Key} (hi : Inv H kh keys) (hH : HashOK H) (key : Key)
    (h0 : (0 : UInt8) ∉ key) :
    (key ∈ keys → store H kh key = some (kh, .edup, keys.idxOf key)) ∧
    (key ∉ keys → ∃ kh', store H kh key = some (kh', .ok, keys.length) ∧ Inv H kh' (keys ++ [key]) ∧ AllocStep kh kh' key) := by
  obtain ⟨head, hh, hw⟩ := walk_inv hi hH key
  constructor
  · intro hm
    simp only [hm, ↓reduceIte] at hw
    unfold store
    simp only [hh, hw]
  · intro hm
    simp only [hm, ↓reduceIte] at hw
    rw [store_new_unfold H kh key head hh hw]
    obtain ⟨hi1, hlt, hsz, hht, hnk⟩ := growK_inv hi
    obtain ⟨salloc, hg, hneed, _⟩ := growTo_spec ((growK kh).smem.size + key.length + 1)
      ((growK kh).smem.size + key.length + 1) (growK kh).salloc hi1.salloc_pos (by omega)
    have hle := growTo_le _ _ _ _ hg
    obtain ⟨gf1, gf2, gf3⟩ := growK_fields kh
    rw [gf1, gf2] at hle
    have hka : (growK kh).kalloc = kh.kalloc ∨ (growK kh).kalloc = 2 * kh.nkeys := by
      rcases gf3 with h | ⟨h, _⟩
      · exact Or.inl h
      · exact Or.inr h
    simp only [hg]
    have hc : (growK kh).nkeys < (growK kh).keyOffset.size ∧ (growK kh).nkeys < (growK kh).nxt.size ∧
        (growK kh).smem.size + key.length + 1 ≤ salloc := by
      rw [hi1.ko_size, hi1.nxt_size]; exact ⟨hlt, hlt, hneed⟩
    simp only [hc, and_self, not_true_eq_false, ↓reduceIte]
    have hi2 := linkNew_inv hi1 key hlt hm h0 head (by rw [hht, hsz]; exact hh) salloc hneed
    rw [hsz] at hi2
    have hidx : (growK kh).nkeys = keys.length := by rw [hnk]; exact hi.nkeys
    rw [hidx]
    split
    · obtain ⟨kh', hu, hi3, a1, a2, _, _, a5⟩ := upsize_spec_full hi2 hH
      refine ⟨kh', by simp only [hu], hi3, ?_, ?_, ?_⟩
      · rw [a1]; exact hle
      · rw [a2]; exact hka
      · rcases a5 with h | ⟨h1, h2⟩
        · left; rw [h]; exact hsz
        · right; exact ⟨by rw [← hsz]; exact h1, by rw [h2]; congr 1⟩
    · exact ⟨_, rfl, hi2, hle, hka, Or.inl hsz⟩

theorem store_spec {H : Key → Nat → Nat} {kh : KH} {keys : List Key} (hi : Inv H kh keys) (hH : HashOK H) (key : Key)
    (h0 : (0 : UInt8) ∉ key) :
    (key ∈ keys → store H kh key = some (kh, .edup, keys.idxOf key)) ∧
    (key ∉ keys → ∃ kh', store H kh key = some (kh', .ok, keys.length) ∧ Inv H kh' (keys ++ [key])) := by
  obtain ⟨h1, h2⟩ := store_spec_full hi hH key h0
  refine ⟨h1, fun hm => ?_⟩
  obtain ⟨kh', a, b, _⟩ := h2 hm
  exact ⟨kh', a, b⟩

/-! ## Reuse, Clone -/
theorem reuse_inv {H : Key → Nat → Nat} {kh : KH} {keys : List Key} (hi : Inv H kh keys) : Inv H (reuse kh) [] where
  nkeys := rfl
  size_pos := hi.size_pos
  ko_size := hi.ko_size
  nxt_size := hi.nxt_size
  kalloc_ge := Nat.zero_le _
  kalloc_pos := hi.kalloc_pos
  salloc_pos := hi.salloc_pos
  sn_le := by show (#[] : Array UInt8).size ≤ kh.salloc; simp
  sn_eq := by show (#[] : Array UInt8).size = _; simp
  keyAt := by intro i k h; simp at h
  nodup := List.nodup_nil
  linked := linked_empty H [] _ _

theorem clone_inv {H : Key → Nat → Nat} {kh : KH} {keys : List Key} (hi : Inv H kh keys) : Inv H (clone kh) keys where
  nkeys := hi.nkeys
  size_pos := hi.size_pos
  ko_size := by
    show ((kh.keyOffset.extract 0 kh.nkeys) ++ ((Array.replicate kh.kalloc 0).extract kh.nkeys (Array.replicate kh.kalloc 0).size)).size = kh.kalloc
    have := hi.kalloc_ge; have := hi.ko_size
    simp; omega
  nxt_size := by
    show ((kh.nxt.extract 0 kh.nkeys) ++ ((Array.replicate kh.kalloc none).extract kh.nkeys (Array.replicate kh.kalloc none).size)).size = kh.kalloc
    have := hi.kalloc_ge; have := hi.nxt_size
    simp; omega
  kalloc_ge := hi.kalloc_ge
  kalloc_pos := hi.kalloc_pos
  salloc_pos := hi.salloc_pos
  sn_le := hi.sn_le
  sn_eq := hi.sn_eq
  keyAt := by
    intro i k hk
    obtain ⟨off, ho, hka⟩ := hi.keyAt i k hk
    refine ⟨off, ?_, hka⟩
    show ((kh.keyOffset.extract 0 kh.nkeys) ++ _)[i]? = some off
    have hil : i < kh.nkeys := by
      rw [hi.nkeys]
      apply Classical.byContradiction; intro hn
      rw [List.getElem?_eq_none (by omega)] at hk; cases hk
    have := hi.kalloc_ge; have := hi.ko_size
    rw [Array.getElem?_append_left (by simp; omega), Array.getElem?_extract]
    simp [ho]; omega
  nodup := hi.nodup
  linked := by
    obtain ⟨hsz, hb⟩ := hi.linked
    refine ⟨hsz, fun b hbs => ?_⟩
    obtain ⟨hd, l, h1, h2, h3⟩ := hb b hbs
    refine ⟨hd, l, h1, h2.congr (fun i hil => ?_), h3⟩
    show ((kh.nxt.extract 0 kh.nkeys) ++ _)[i]? = kh.nxt[i]?
    have := hi.kalloc_ge; have := hi.nxt_size
    rw [Array.getElem?_append_left (by simp; omega), Array.getElem?_extract]
    simp; omega

/-! ## histories -/
/-- keys given by explicit length must not contain a NUL (known finding); C strings (`storeStr`, `lookupStr`) are free -/
def Op.NulFree : Op → Prop
  | .store k => (0 : UInt8) ∉ k
  | .lookup k => (0 : UInt8) ∉ k
  | _ => True

theorem cstrOf_nulfree (k : Key) : (0 : UInt8) ∉ cstrOf k := by
  unfold cstrOf
  induction k with
  | nil => simp
  | cons a t ih =>
    by_cases ha : a = 0
    · subst ha; simp
    · simp only [List.takeWhile_cons, bne_iff_ne, ne_eq, ha, not_false_eq_true, decide_true, ↓reduceIte,
        List.mem_cons, not_or]
      exact ⟨fun h => ha h.symm, ih⟩

theorem cstrOf_eq_self (k : Key) (h : (0 : UInt8) ∉ k) : cstrOf k = k := by
  unfold cstrOf
  induction k with
  | nil => rfl
  | cons a t ih =>
    have ha : a ≠ 0 := by intro h0; subst h0; exact h (by simp)
    have ht : (0 : UInt8) ∉ t := by intro h0; exact h (by simp [h0])
    simp [ha, ih ht]

theorem step_spec {H : Key → Nat → Nat} {kh : KH} {keys : List Key} (hi : Inv H kh keys) (hH : HashOK H) (op : Op)
    (hop : op.NulFree) :
    match specStep keys op with
    | none => step H kh op = none
    | some (keys', o) => ∃ kh', step H kh op = some (kh', o) ∧ Inv H kh' keys' := by
  cases op with
  | store k =>
    obtain ⟨h1, h2⟩ := store_spec hi hH k hop
    by_cases hm : k ∈ keys
    · simp only [specStep, hm, ↓reduceIte]
      exact ⟨kh, by simp [step, h1 hm], hi⟩
    · simp only [specStep, hm, ↓reduceIte]
      obtain ⟨kh', h3, h4⟩ := h2 hm
      exact ⟨kh', by simp [step, h3], h4⟩
  | lookup k =>
    have h1 := lookup_spec hi hH k
    by_cases hm : k ∈ keys
    · simp only [specStep, hm, ↓reduceIte]
      exact ⟨kh, by simp [step, h1, hm], hi⟩
    · simp only [specStep, hm, ↓reduceIte]
      exact ⟨kh, by simp [step, h1, hm], hi⟩
  | get i =>
    have h1 := get_spec hi i
    cases hk : keys[i]? with
    | none => simp [specStep, step, hk, h1]
    | some k => simp only [specStep, hk, Option.map_some]; exact ⟨kh, by simp [step, h1, hk], hi⟩
  | number => exact ⟨kh, by simp [step, hi.nkeys], hi⟩
  | reuse => exact ⟨reuse kh, rfl, reuse_inv hi⟩
  | clone => exact ⟨clone kh, rfl, clone_inv hi⟩
  | storeStr k =>
    obtain ⟨h1, h2⟩ := store_spec hi hH (cstrOf k) (cstrOf_nulfree k)
    by_cases hm : cstrOf k ∈ keys
    · simp only [specStep, hm, ↓reduceIte]
      exact ⟨kh, by simp [step, h1 hm], hi⟩
    · simp only [specStep, hm, ↓reduceIte]
      obtain ⟨kh', h3, h4⟩ := h2 hm
      exact ⟨kh', by simp [step, h3], h4⟩
  | lookupStr k =>
    have h1 := lookup_spec hi hH (cstrOf k)
    by_cases hm : cstrOf k ∈ keys
    · simp only [specStep, hm, ↓reduceIte]
      exact ⟨kh, by simp [step, h1, hm], hi⟩
    · simp only [specStep, hm, ↓reduceIte]
      exact ⟨kh, by simp [step, h1, hm], hi⟩

theorem run_spec {H : Key → Nat → Nat} (hH : HashOK H) (ops : List Op) (kh : KH) (keys : List Key) (hi : Inv H kh keys)
    (hops : ∀ op ∈ ops, op.NulFree) : run H kh ops = specRun keys ops := by
  induction ops generalizing kh keys with
  | nil => rfl
  | cons op rest ih =>
    have hs := step_spec hi hH op (hops op (by simp))
    simp only [run, specRun]
    cases hsp : specStep keys op with
    | none => simp only [hsp] at hs; simp [hs]
    | some r =>
      obtain ⟨keys', o⟩ := r
      simp only [hsp] at hs
      obtain ⟨kh', h1, h2⟩ := hs
      simp only [h1]
      rw [ih kh' keys' h2 (fun op h => hops op (by simp [h]))]

/-- the abstract type is defined on every history whose `Get`s ask for assigned indices; in particular on every
    history without `Get` -/
theorem specRun_isSome_of_no_get (ops : List Op) (keys : List Key) (h : ∀ op ∈ ops, ∀ i, op ≠ .get i) :
    (specRun keys ops).isSome = true := by
  induction ops generalizing keys with
  | nil => rfl
  | cons op rest ih =>
    have hr : ∀ op ∈ rest, ∀ i, op ≠ .get i := fun o ho => h o (by simp [ho])
    cases op with
    | store k =>
      by_cases hk : k ∈ keys <;> simp [specRun, specStep, hk, ih _ hr]
    | lookup k =>
      by_cases hk : k ∈ keys <;> simp [specRun, specStep, hk, ih _ hr]
    | get i => exact absurd rfl (h (.get i) (by simp) i)
    | number => simp [specRun, specStep, ih _ hr]
    | reuse => simp [specRun, specStep, ih _ hr]
    | clone => simp [specRun, specStep, ih _ hr]
    | storeStr k =>
      by_cases hk : cstrOf k ∈ keys <;> simp [specRun, specStep, hk, ih _ hr]
    | lookupStr k =>
      by_cases hk : cstrOf k ∈ keys <;> simp [specRun, specStep, hk, ih _ hr]

/-- Jenkins' one-at-a-time hash masked with `hashsize - 1` is a hash function into `[0, hashsize)` (any `hashsize > 0`) -/
theorem jenkins_ok : HashOK jenkins := by
  intro k sz hsz
  unfold jenkins
  have := @Nat.and_le_right (jenkinsFinal (List.foldl jenkinsStep 0 k)).toNat (sz - 1)
  omega

end EaselModel.Containers.Keyhash
