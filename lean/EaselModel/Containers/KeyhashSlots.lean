import EaselModel.Containers.KeyhashFixed
/-! # The raw state of `hashtable[]` (core Lean only; used by the driver op `kh_slots`)

What a direct walk over `kh->hashtable[0..hashsize)` and the `nxt[]` chains sees, independent of which hash function filled
the table: how many slots are non-empty, how many records hang on the chains in total, how many chain pointers leave the
range `[0, nkeys)` (`bad`), how many chains are longer than `nkeys` (`cyc`: a cycle). -/
namespace EaselModel.Containers.Keyhash

structure SlotStats where
  used : Nat
  chained : Nat
  bad : Nat
  cyc : Nat
deriving DecidableEq, Repr

def SlotStats.zero : SlotStats := ⟨0, 0, 0, 0⟩
def SlotStats.add (a b : SlotStats) : SlotStats := ⟨a.used + b.used, a.chained + b.chained, a.bad + b.bad, a.cyc + b.cyc⟩

/-- the walk along one chain: `(steps, bad, cyc)`; at most `nkeys` steps are allowed -/
def chainWalk (kh : KH) : Nat → Option Nat → Nat → Nat × Nat × Nat
  | _, none, steps => (steps, 0, 0)
  | 0, some _, steps => (steps, 0, 1)
  | f+1, some idx, steps =>
    if idx < kh.nkeys then
      match kh.nxt[idx]? with
      | some nx => chainWalk kh f nx (steps + 1)
      | none => (steps, 1, 0)
    else (steps, 1, 0)

def slotStat (kh : KH) (head : Option Nat) : SlotStats :=
  match head with
  | none => SlotStats.zero
  | some _ => let r := chainWalk kh kh.nkeys head 0; ⟨1, r.1, r.2.1, r.2.2⟩

def slotStats (kh : KH) : SlotStats :=
  (kh.hashtable.toList.map (slotStat kh)).foldl SlotStats.add SlotStats.zero

end EaselModel.Containers.Keyhash
