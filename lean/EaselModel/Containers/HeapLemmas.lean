import EaselModel.Containers.Heap
/-! # esl_heap.c — functional correctness of the executable model

Proved here (core Lean only, no axioms beyond the kernel's): every operation of the binary-heap model
keeps the heap order and the allocation invariant, never faults on a well-formed heap, preserves the
multiset of stored values, and `extractTop` returns an optimum; hence "insert all, then drain" sorts. -/
namespace EaselModel.Containers.Heap

/-! ## `better` is a strict total order (in either direction) -/

theorem better_irrefl (mx : Bool) (a : Int) : ¬ better mx a a = true := by
  cases mx <;> simp [better]

theorem better_trans (mx : Bool) {a b c : Int} (h1 : better mx a b = true)
    (h2 : better mx b c = true) : better mx a c = true := by
  cases mx <;> simp [better] at * <;> omega

theorem better_asymm (mx : Bool) {a b : Int} (h1 : better mx a b = true) :
    ¬ better mx b a = true := by
  cases mx <;> simp [better] at * <;> omega

theorem not_better_trans (mx : Bool) {a b c : Int} (h1 : ¬ better mx a b = true)
    (h2 : ¬ better mx b c = true) : ¬ better mx a c = true := by
  cases mx <;> simp [better] at * <;> omega

/-- `a` better than `b`, `c` not better than `b`  ⟹ `c` not better than `a` -/
theorem not_better_of_better_of_not (mx : Bool) {a b c : Int} (h1 : better mx a b = true)
    (h2 : ¬ better mx c b = true) : ¬ better mx c a = true := by
  cases mx <;> simp [better] at * <;> omega

theorem better_total (mx : Bool) (a b : Int) :
    better mx a b = true ∨ a = b ∨ better mx b a = true := by
  cases mx <;> simp [better] <;> omega

/-! ## array access / update facts -/

theorem getElem?_eq_some_iff' (d : Array Int) (i : Nat) (p : Int) :
    d[i]? = some p ↔ i < d.size ∧ d[i]! = p := by
  constructor
  · intro h
    obtain ⟨hlt, he⟩ := Array.getElem?_eq_some_iff.1 h
    refine ⟨hlt, ?_⟩
    simp [hlt, he]
  · rintro ⟨hlt, he⟩
    simp [hlt] at he
    simp [hlt, he]

theorem get_set! (d : Array Int) (i j : Nat) (v : Int) :
    (d.set! i v)[j]! = if i = j ∧ i < d.size then v else d[j]! := by
  simp only [Array.getElem!_eq_getD, Array.getD_eq_getD_getElem?, Array.set!_eq_setIfInBounds,
    Array.getElem?_setIfInBounds]
  by_cases h1 : i = j
  · subst h1
    by_cases h2 : i < d.size
    · simp [h2]
    · simp [h2]
  · simp [h1]

theorem get_set!_eq (d : Array Int) (i : Nat) (v : Int) (h : i < d.size) :
    (d.set! i v)[i]! = v := by
  rw [get_set!]; simp [h]

theorem get_set!_ne (d : Array Int) (i j : Nat) (v : Int) (h : i ≠ j) :
    (d.set! i v)[j]! = d[j]! := by
  rw [get_set!]; simp [h]

theorem size_set! (d : Array Int) (i : Nat) (v : Int) : (d.set! i v).size = d.size := by
  simp

theorem count_cons' (a : Int) (l : List Int) (x : Int) :
    (a :: l).count x = l.count x + [a].count x := by
  simp [List.count_cons]

theorem list_count_set (l : List Int) (i : Nat) (v : Int) (hi : i < l.length) (x : Int) :
    (l.set i v).count x + [l[i]].count x = l.count x + [v].count x := by
  induction l generalizing i with
  | nil => simp at hi
  | cons a t ih =>
    cases i with
    | zero => simp [List.count_cons]; omega
    | succ i =>
      have := ih i (by simpa using hi)
      simp [List.count_cons] at this ⊢
      omega

/-- multiset effect of an in-bounds `set!`: the old cell content is traded for the new value -/
theorem count_set! (d : Array Int) (i : Nat) (v : Int) (hi : i < d.size) (x : Int) :
    (d.set! i v).toList.count x + [d[i]!].count x = d.toList.count x + [v].count x := by
  have := list_count_set d.toList i v (by simpa using hi) x
  simpa [hi] using this

/-! ## heap order -/

/-- heap order of an array: no element is strictly better than its parent -/
def HO (mx : Bool) (d : Array Int) : Prop :=
  ∀ i, 0 < i → i < d.size → ¬ better mx (d[i]!) (d[parent i]!) = true

theorem parent_lt {i : Nat} (h : 0 < i) : parent i < i := by
  unfold parent; omega

/-- in a heap-ordered array nothing is better than the root -/
theorem HO_root {mx : Bool} {d : Array Int} (h : HO mx d) :
    ∀ i, i < d.size → ¬ better mx (d[i]!) (d[0]!) = true := by
  intro i
  induction i using Nat.strongRecOn with
  | _ i ih =>
    intro hi
    by_cases h0 : i = 0
    · subst h0; exact better_irrefl _ _
    · have hp := parent_lt (Nat.pos_of_ne_zero h0)
      exact not_better_trans mx (h i (Nat.pos_of_ne_zero h0) hi) (ih _ hp (by omega))

/-! ## sift-up -/

theorem siftUp_spec (mx : Bool) (val : Int) (fuel : Nat) (d : Array Int) (idx : Nat)
    (hf : idx < fuel) (hidx : idx < d.size)
    (ha : ∀ i, 0 < i → i < d.size → i ≠ idx → ¬ better mx (d[i]!) (d[parent i]!) = true)
    (hb : ∀ c, 0 < c → c < d.size → parent c = idx → ¬ better mx (d[c]!) val = true)
    (hd : ∀ c, 0 < c → c < d.size → parent c = idx → 0 < idx →
      ¬ better mx (d[c]!) (d[parent idx]!) = true) :
    ∃ d', siftUp mx val fuel d idx = some d' ∧ HO mx d' ∧ d'.size = d.size ∧
      ∀ x, d'.toList.count x + [d[idx]!].count x = d.toList.count x + [val].count x := by
  induction fuel generalizing d idx with
  | zero => omega
  | succ fuel ih =>
    unfold siftUp
    by_cases h0 : idx = 0
    · subst h0
      refine ⟨d.set! 0 val, by simp [hidx], ?_, size_set! _ _ _, count_set! d 0 val hidx⟩
      intro i hi0 hi
      rw [size_set!] at hi
      rw [get_set!_ne _ _ _ _ (by omega)]
      by_cases hp : parent i = 0
      · rw [hp, get_set!_eq _ _ _ hidx]; exact hb i hi0 hi hp
      · rw [get_set!_ne _ _ _ _ (by omega)]; exact ha i hi0 hi (by omega)
    · have hpos : 0 < idx := Nat.pos_of_ne_zero h0
      have hpl := parent_lt hpos
      have hps : parent idx < d.size := by omega
      have hp : d[parent idx]? = some (d[parent idx]!) :=
        (getElem?_eq_some_iff' _ _ _).2 ⟨hps, rfl⟩
      simp only [h0, if_false, hp, hidx, if_true]
      by_cases hbt : better mx val (d[parent idx]!) = true
      · simp only [hbt, if_true]
        obtain ⟨d', he, hho, hsz, hcnt⟩ := ih (d.set! idx (d[parent idx]!)) (parent idx)
          (by omega) (by rw [size_set!]; exact hps)
          (by
            intro i hi0 hi hne
            rw [size_set!] at hi
            by_cases hii : i = idx
            · subst hii
              rw [get_set!_eq _ _ _ hidx, get_set!_ne _ _ _ _ (by omega)]
              exact better_irrefl _ _
            · rw [get_set!_ne _ _ _ _ (Ne.symm hii)]
              by_cases hpi : parent i = idx
              · rw [hpi, get_set!_eq _ _ _ hidx]; exact hd i hi0 hi hpi hpos
              · rw [get_set!_ne _ _ _ _ (Ne.symm hpi)]; exact ha i hi0 hi hii)
          (by
            intro c hc0 hc hpc
            rw [size_set!] at hc
            by_cases hci : c = idx
            · subst hci
              rw [get_set!_eq _ _ _ hidx]; exact better_asymm mx hbt
            · rw [get_set!_ne _ _ _ _ (Ne.symm hci)]
              have := ha c hc0 hc hci
              rw [hpc] at this
              exact not_better_of_better_of_not mx hbt this)
          (by
            intro c hc0 hc hpc hj
            rw [size_set!] at hc
            have hpp := parent_lt hj
            rw [get_set!_ne _ _ (parent (parent idx)) _ (by omega)]
            have h2 := ha (parent idx) hj hps (by omega)
            by_cases hci : c = idx
            · subst hci
              rw [get_set!_eq _ _ _ hidx]; exact h2
            · rw [get_set!_ne _ _ _ _ (Ne.symm hci)]
              have h1 := ha c hc0 hc hci
              rw [hpc] at h1
              exact not_better_trans mx h1 h2)
        refine ⟨d', he, hho, by rw [hsz, size_set!], ?_⟩
        intro x
        have h1 := hcnt x
        rw [get_set!_ne _ _ _ _ (by omega)] at h1
        have h2 := count_set! d idx (d[parent idx]!) hidx x
        omega
      · simp only [hbt]
        refine ⟨d.set! idx val, by simp, ?_, size_set! _ _ _, count_set! d idx val hidx⟩
        intro i hi0 hi
        rw [size_set!] at hi
        by_cases hii : i = idx
        · subst hii
          rw [get_set!_eq _ _ _ hidx, get_set!_ne _ _ _ _ (by omega)]
          exact hbt
        · rw [get_set!_ne _ _ _ _ (Ne.symm hii)]
          by_cases hpi : parent i = idx
          · rw [hpi, get_set!_eq _ _ _ hidx]; exact hb i hi0 hi hpi
          · rw [get_set!_ne _ _ _ _ (Ne.symm hpi)]; exact ha i hi0 hi hii

/-! ## the invariant, `create`, `insert` -/

/-- heap order + allocation invariant -/
def Inv (h : Heap) : Prop :=
  (∀ i, 0 < i → i < h.data.size →
    ¬ better h.isMax (h.data[i]!) (h.data[parent i]!) = true) ∧
  h.data.size ≤ h.nalloc ∧ 0 < h.nalloc

theorem inv_create (mx : Bool) : Inv (create mx) := by
  refine ⟨?_, ?_, ?_⟩ <;> simp [create]

theorem get_push_lt (d : Array Int) (v : Int) (i : Nat) (h : i < d.size) :
    (d.push v)[i]! = d[i]! := by
  simp [Array.getElem!_eq_getD, Array.getD_eq_getD_getElem?, Array.getElem?_push, Nat.ne_of_lt h]

theorem get_push_eq (d : Array Int) (v : Int) : (d.push v)[d.size]! = v := by
  simp

theorem insert_spec (h : Heap) (v : Int) (hi : Inv h) :
    ∃ h', insert h v = some h' ∧ Inv h' ∧ h'.isMax = h.isMax ∧
      h'.data.toList.Perm (v :: h.data.toList) := by
  obtain ⟨hho, hsz, hpos⟩ := hi
  have hna : ¬ (h.data.size + 1 > if (h.data.size == h.nalloc) = true then h.nalloc * 2 else h.nalloc) := by
    by_cases he : h.data.size = h.nalloc
    · simp [he]; omega
    · simp [he]; omega
  obtain ⟨d', he, hho', hsz', hcnt⟩ := siftUp_spec h.isMax v ((h.data.push v).size + 1) (h.data.push v)
    ((h.data.push v).size - 1) (by omega) (by simp)
    (by
      intro i hi0 hi hne
      simp at hi hne
      have h1 : i < h.data.size := by omega
      rw [get_push_lt _ _ _ h1, get_push_lt _ _ _ (by have := parent_lt hi0; omega)]
      exact hho i hi0 h1)
    (by
      intro c hc0 hc hpc
      have := parent_lt hc0
      simp at hc hpc
      omega)
    (by
      intro c hc0 hc hpc
      have := parent_lt hc0
      simp at hc hpc
      omega)
  unfold insert
  simp only [hna, if_false, he]
  refine ⟨_, rfl, ⟨hho', ?_, ?_⟩, rfl, ?_⟩
  · simp only [hsz', Array.size_push]
    by_cases he : h.data.size = h.nalloc
    · simp [he]; omega
    · simp [he]; omega
  · by_cases he : h.data.size = h.nalloc
    · simp [he]; omega
    · simp [he]; omega
  · refine List.perm_iff_count.2 fun x => ?_
    have h1 := hcnt x
    simp only [Array.size_push, Nat.add_sub_cancel, get_push_eq, Array.toList_push,
      List.count_append] at h1
    show d'.toList.count x = _
    rw [count_cons']
    omega

/-! ## sift-down (`iheapify`) -/

/-- the "best of node and its two children" selection of `iheapify`, over abstract child reads -/
def pick (mx : Bool) (idx l r : Nat) (x : Int) (ol or : Option Int) : Nat × Int :=
  let (best, bestv) := match ol with
    | some y => if better mx y x then (l, y) else (idx, x)
    | none => (idx, x)
  match or with
    | some z => if better mx z bestv then (r, z) else (best, bestv)
    | none => (best, bestv)

theorem heapify_succ (mx : Bool) (fuel : Nat) (d : Array Int) (idx : Nat) :
    heapify mx (fuel+1) d idx =
      match d[idx]? with
      | none => if d.size = 0 ∧ idx = 0 then some d else none
      | some x =>
        let p := pick mx idx (left idx) (left idx + 1) x d[left idx]? d[left idx + 1]?
        if p.1 = idx then some d else heapify mx fuel ((d.set! idx p.2).set! p.1 x) p.1 := by
  rfl

theorem pick_spec (mx : Bool) (idx l r : Nat) (x : Int) (ol or : Option Int) :
    (pick mx idx l r x ol or = (idx, x) ∨
      ((pick mx idx l r x ol or).1 = l ∧ ol = some (pick mx idx l r x ol or).2 ∧
        better mx (pick mx idx l r x ol or).2 x = true) ∨
      ((pick mx idx l r x ol or).1 = r ∧ or = some (pick mx idx l r x ol or).2 ∧
        better mx (pick mx idx l r x ol or).2 x = true)) ∧
    (∀ y, ol = some y → ¬ better mx y (pick mx idx l r x ol or).2 = true) ∧
    (∀ z, or = some z → ¬ better mx z (pick mx idx l r x ol or).2 = true) := by
  rcases ol with _ | y <;> rcases or with _ | z
  · simp [pick]
  · by_cases h : better mx z x = true
    · simp [pick, h, better_irrefl]
    · simp [pick, h]
  · by_cases h : better mx y x = true
    · simp [pick, h, better_irrefl]
    · simp [pick, h]
  · by_cases h : better mx y x = true
    · by_cases h2 : better mx z y = true
      · simp [pick, h, h2, better_irrefl, better_trans mx h2 h, better_asymm mx h2]
      · simp [pick, h, h2, better_irrefl]
    · by_cases h2 : better mx z x = true
      · simp [pick, h, h2, better_irrefl]
        simpa using not_better_of_better_of_not mx h2 h
      · simp [pick, h, h2]

theorem child_of_parent_eq {c idx : Nat} (hc : 0 < c) (h : parent c = idx) :
    c = left idx ∨ c = left idx + 1 := by
  unfold parent at h; unfold left; omega

theorem parent_left (idx : Nat) : parent (left idx) = idx := by
  unfold parent left; omega

theorem parent_left_succ (idx : Nat) : parent (left idx + 1) = idx := by
  unfold parent left; omega

/-- one swap step of sift-down re-establishes the sift-down precondition one level lower -/
theorem heapify_step (mx : Bool) (d : Array Int) (idx b : Nat) (bv : Int)
    (hidx : idx < d.size) (hb_lt : b < d.size) (hpb : parent b = idx) (hb0 : 0 < b)
    (hbv : d[b]! = bv) (hbt : better mx bv (d[idx]!) = true)
    (hsib : ∀ c, 0 < c → c < d.size → parent c = idx → ¬ better mx (d[c]!) bv = true)
    (ha : ∀ i, 0 < i → i < d.size → parent i ≠ idx →
      ¬ better mx (d[i]!) (d[parent i]!) = true)
    (hb : ∀ c, 0 < c → c < d.size → parent c = idx → 0 < idx →
      ¬ better mx (d[c]!) (d[parent idx]!) = true) :
    (∀ i, 0 < i → i < ((d.set! idx bv).set! b (d[idx]!)).size → parent i ≠ b →
      ¬ better mx (((d.set! idx bv).set! b (d[idx]!))[i]!)
        (((d.set! idx bv).set! b (d[idx]!))[parent i]!) = true) ∧
    (∀ c, 0 < c → c < ((d.set! idx bv).set! b (d[idx]!)).size → parent c = b → 0 < b →
      ¬ better mx (((d.set! idx bv).set! b (d[idx]!))[c]!)
        (((d.set! idx bv).set! b (d[idx]!))[parent b]!) = true) ∧
    (∀ x, ((d.set! idx bv).set! b (d[idx]!)).toList.count x = d.toList.count x) := by
  have hib : idx < b := by have := parent_lt hb0; omega
  have hget : ∀ k, ((d.set! idx bv).set! b (d[idx]!))[k]! =
      if k = b then d[idx]! else if k = idx then bv else d[k]! := by
    intro k
    rw [get_set!, get_set!, size_set!]
    by_cases h1 : k = b
    · subst h1; simp [hb_lt]
    · by_cases h2 : k = idx
      · subst h2; simp [hidx, h1, Ne.symm h1]
      · simp [h1, h2, Ne.symm h1, Ne.symm h2]
  have hsz : ((d.set! idx bv).set! b (d[idx]!)).size = d.size := by
    rw [size_set!, size_set!]
  refine ⟨?_, ?_, ?_⟩
  · intro i hi0 hi hpi
    rw [hsz] at hi
    have hpl := parent_lt hi0
    rw [hget i, hget (parent i)]
    simp only [hpi, if_false]
    by_cases h1 : i = b
    · subst h1
      simp only [hpb, if_true]
      exact better_asymm mx hbt
    · simp only [h1, if_false]
      by_cases h2 : parent i = idx
      · have h3 : i ≠ idx := by omega
        simp only [h2, h3, if_true, if_false]
        exact hsib i hi0 hi h2
      · simp only [h2, if_false]
        by_cases h3 : i = idx
        · subst h3
          simp only [if_true]
          rw [← hbv]
          exact hb b hb0 hb_lt hpb hi0
        · simp only [h3, if_false]
          exact ha i hi0 hi h2
  · intro c hc0 hc hpc _
    rw [hsz] at hc
    have hpl := parent_lt hc0
    rw [hget c, hget (parent b)]
    have h1 : c ≠ b := by omega
    have h2 : c ≠ idx := by omega
    have h3 : idx ≠ b := by omega
    simp only [h1, h2, h3, hpb, if_true, if_false]
    have := ha c hc0 hc (by omega)
    rw [hpc, hbv] at this
    exact this
  · intro x
    have h1 := count_set! d idx bv hidx x
    have h2 := count_set! (d.set! idx bv) b (d[idx]!) (by rw [size_set!]; exact hb_lt) x
    rw [get_set!_ne _ _ _ _ (by omega), hbv] at h2
    omega

theorem heapify_spec (mx : Bool) (fuel : Nat) (d : Array Int) (idx : Nat)
    (hidx : idx < d.size) (hf : d.size ≤ fuel + idx)
    (ha : ∀ i, 0 < i → i < d.size → parent i ≠ idx →
      ¬ better mx (d[i]!) (d[parent i]!) = true)
    (hb : ∀ c, 0 < c → c < d.size → parent c = idx → 0 < idx →
      ¬ better mx (d[c]!) (d[parent idx]!) = true) :
    ∃ d', heapify mx fuel d idx = some d' ∧ HO mx d' ∧ d'.size = d.size ∧
      ∀ x, d'.toList.count x = d.toList.count x := by
  induction fuel generalizing d idx with
  | zero => omega
  | succ fuel ih =>
    rw [heapify_succ]
    have hx : d[idx]? = some (d[idx]!) := (getElem?_eq_some_iff' _ _ _).2 ⟨hidx, rfl⟩
    simp only [hx]
    obtain ⟨hcase, hl, hr⟩ :=
      pick_spec mx idx (left idx) (left idx + 1) (d[idx]!) d[left idx]? d[left idx + 1]?
    generalize pick mx idx (left idx) (left idx + 1) (d[idx]!) d[left idx]? d[left idx + 1]? = p
      at hcase hl hr
    obtain ⟨b, bv⟩ := p
    simp only at hcase hl hr ⊢
    have hsib : ∀ c, 0 < c → c < d.size → parent c = idx → ¬ better mx (d[c]!) bv = true := by
      intro c hc0 hc hpc
      rcases child_of_parent_eq hc0 hpc with h | h
      · exact hl _ (by rw [← h]; exact (getElem?_eq_some_iff' _ _ _).2 ⟨hc, rfl⟩)
      · exact hr _ (by rw [← h]; exact (getElem?_eq_some_iff' _ _ _).2 ⟨hc, rfl⟩)
    have hrec : ∀ (hb_lt : b < d.size) (hpb : parent b = idx) (hb0 : 0 < b) (hbv : d[b]! = bv)
        (hbt : better mx bv (d[idx]!) = true),
        ∃ d', (if b = idx then some d else
            heapify mx fuel ((d.set! idx bv).set! b (d[idx]!)) b) = some d' ∧ HO mx d' ∧
          d'.size = d.size ∧ ∀ x, d'.toList.count x = d.toList.count x := by
      intro hb_lt hpb hb0 hbv hbt
      have hib : idx < b := by have := parent_lt hb0; omega
      obtain ⟨h1, h2, h3⟩ := heapify_step mx d idx b bv hidx hb_lt hpb hb0 hbv hbt hsib ha hb
      have hsz : ((d.set! idx bv).set! b (d[idx]!)).size = d.size := by
        rw [size_set!, size_set!]
      obtain ⟨d', he, hho, hsz', hcnt⟩ := ih ((d.set! idx bv).set! b (d[idx]!)) b
        (by rw [hsz]; exact hb_lt) (by rw [hsz]; omega) h1 h2
      refine ⟨d', ?_, hho, by rw [hsz', hsz], fun x => by rw [hcnt x, h3 x]⟩
      rw [if_neg (by omega)]; exact he
    rcases hcase with h | ⟨h1, h2, h3⟩ | ⟨h1, h2, h3⟩
    · obtain ⟨rfl, rfl⟩ := Prod.mk.inj h
      refine ⟨d, by simp, ?_, rfl, fun _ => rfl⟩
      intro i hi0 hi
      by_cases hpi : parent i = b
      · rw [hpi]; exact hsib i hi0 hi hpi
      · exact ha i hi0 hi hpi
    · obtain ⟨hlt, hv⟩ := (getElem?_eq_some_iff' _ _ _).1 h2
      subst h1
      exact hrec hlt (parent_left idx) (by unfold left; omega) hv h3
    · obtain ⟨hlt, hv⟩ := (getElem?_eq_some_iff' _ _ _).1 h2
      subst h1
      exact hrec hlt (parent_left_succ idx) (by omega) hv h3

/-- sift-down from the root of an array that is heap-ordered below the root (possibly empty) -/
theorem heapify_root_spec (mx : Bool) (d : Array Int)
    (ha : ∀ i, 0 < i → i < d.size → parent i ≠ 0 →
      ¬ better mx (d[i]!) (d[parent i]!) = true) :
    ∃ d', heapify mx (d.size + 1) d 0 = some d' ∧ HO mx d' ∧ d'.size = d.size ∧
      ∀ x, d'.toList.count x = d.toList.count x := by
  by_cases h0 : d.size = 0
  · refine ⟨d, ?_, ?_, rfl, fun _ => rfl⟩
    · rw [heapify_succ]
      simp [h0]
    · intro i _ hi; omega
  · exact heapify_spec mx (d.size + 1) d 0 (by omega) (by omega) ha
      (fun _ _ _ _ h => absurd h (by omega))

/-! ## `extractTop` -/

theorem pop_push_last (e : Array Int) (h : 0 < e.size) : e.pop.push (e[e.size-1]!) = e := by
  apply Array.ext
  · simp; omega
  · intro i h1 h2
    simp [Array.getElem_push]
    split
    · rfl
    · have : i = e.size - 1 := by simp at h1; omega
      subst this
      exact getElem!_pos e _ h2

theorem count_pop (e : Array Int) (h : 0 < e.size) (x : Int) :
    e.toList.count x = e.pop.toList.count x + [e[e.size-1]!].count x := by
  conv => lhs; rw [← pop_push_last e h]
  rw [Array.toList_push, List.count_append]

theorem get_pop_lt (e : Array Int) (i : Nat) (h : i < e.size - 1) : e.pop[i]! = e[i]! := by
  simp only [Array.getElem!_eq_getD, Array.getD_eq_getD_getElem?, Array.getElem?_pop, h, if_true]

theorem mem_toList_iff_get (d : Array Int) (x : Int) :
    x ∈ d.toList ↔ ∃ i, i < d.size ∧ d[i]! = x := by
  rw [← Array.mem_def, Array.mem_iff_getElem]
  constructor
  · rintro ⟨i, h, he⟩; exact ⟨i, h, by rw [getElem!_pos d i h]; exact he⟩
  · rintro ⟨i, h, he⟩; exact ⟨i, h, by rw [getElem!_pos d i h] at he; exact he⟩

theorem extractTop_empty (h : Heap) (he : h.data.size = 0) :
    extractTop h = some (h, false, 0) := by
  simp [extractTop, he]

theorem extractTop_spec (h : Heap) (hi : Inv h) (hne : 0 < h.data.size) :
    ∃ h' v, extractTop h = some (h', true, v) ∧ Inv h' ∧ h'.isMax = h.isMax ∧
      (v :: h'.data.toList).Perm h.data.toList ∧
      (∀ x ∈ h.data.toList, ¬ better h.isMax x v = true) := by
  obtain ⟨hho, hsz, hpos⟩ := hi
  have h0 : h.data[0]? = some (h.data[0]!) := (getElem?_eq_some_iff' _ _ _).2 ⟨hne, rfl⟩
  have hl : h.data[h.data.size - 1]? = some (h.data[h.data.size - 1]!) :=
    (getElem?_eq_some_iff' _ _ _).2 ⟨by omega, rfl⟩
  have hesz : (h.data.set! 0 (h.data[h.data.size - 1]!)).size = h.data.size := size_set! _ _ _
  have hdsz : ((h.data.set! 0 (h.data[h.data.size - 1]!)).pop).size = h.data.size - 1 := by
    rw [Array.size_pop, hesz]
  obtain ⟨d', he, hho', hsz', hcnt⟩ := heapify_root_spec h.isMax
    ((h.data.set! 0 (h.data[h.data.size - 1]!)).pop)
    (by
      intro i hi0 hi hpi
      rw [hdsz] at hi
      have hpl := parent_lt hi0
      rw [get_pop_lt _ _ (by rw [hesz]; exact hi), get_pop_lt _ _ (by rw [hesz]; omega),
        get_set!_ne _ _ _ _ (by omega), get_set!_ne _ _ _ _ (by omega)]
      exact hho i hi0 (by omega))
  refine ⟨{ h with data := d' }, h.data[0]!, ?_, ⟨hho', ?_, hpos⟩, rfl, ?_, ?_⟩
  · unfold extractTop
    simp only [Nat.ne_of_gt hne, if_false, h0, hl, he]
  · show d'.size ≤ h.nalloc
    rw [hsz', hdsz]; omega
  · refine List.perm_iff_count.2 fun x => ?_
    show (h.data[0]! :: d'.toList).count x = _
    rw [count_cons', hcnt x]
    have h1 := count_pop (h.data.set! 0 (h.data[h.data.size - 1]!)) (by rw [hesz]; exact hne) x
    have h2 := count_set! h.data 0 (h.data[h.data.size - 1]!) hne x
    have h3 : (h.data.set! 0 (h.data[h.data.size - 1]!))[
        (h.data.set! 0 (h.data[h.data.size - 1]!)).size - 1]! = h.data[h.data.size - 1]! := by
      rw [hesz, get_set!]
      by_cases hc : 0 = h.data.size - 1
      · simp [hc]
      · simp [hc]
    rw [h3] at h1
    omega
  · intro x hx
    obtain ⟨i, hi, rfl⟩ := (mem_toList_iff_get _ _).1 hx
    exact HO_root hho i hi

/-! ## `drain`, `insertAll`, heap sort -/

/-- sortedness in the heap's direction: no later element is strictly better than an earlier one -/
def SortedBy (mx : Bool) (l : List Int) : Prop :=
  l.Pairwise (fun a b => ¬ better mx b a = true)

theorem drain_spec_aux (n : Nat) (h : Heap) (hi : Inv h) (hn : h.data.size = n) :
    ∃ l, drain n h = some l ∧ l.Perm h.data.toList ∧ SortedBy h.isMax l := by
  induction n generalizing h with
  | zero =>
    refine ⟨[], by simp [drain, hn], ?_, List.Pairwise.nil⟩
    have : h.data.toList = [] := by
      apply List.eq_nil_of_length_eq_zero; simpa using hn
    rw [this]
  | succ n ih =>
    obtain ⟨h', v, he, hi', hmx, hperm, htop⟩ := extractTop_spec h hi (by omega)
    have hlen := hperm.length_eq
    simp only [List.length_cons, Array.length_toList] at hlen
    obtain ⟨l, hd, hp, hs⟩ := ih h' hi' (by omega)
    refine ⟨v :: l, ?_, ?_, ?_⟩
    · simp [drain, he, hd]
    · exact (List.Perm.cons v hp).trans hperm
    · refine List.Pairwise.cons ?_ (hmx ▸ hs)
      intro b hb
      exact htop b (hperm.subset (List.mem_cons_of_mem _ (hp.subset hb)))

theorem drain_spec (h : Heap) (hi : Inv h) :
    ∃ l, drain h.data.size h = some l ∧ l.Perm h.data.toList ∧ SortedBy h.isMax l :=
  drain_spec_aux _ h hi rfl

theorem insertAll_spec (h : Heap) (vs : List Int) (hi : Inv h) :
    ∃ h', insertAll h vs = some h' ∧ Inv h' ∧ h'.isMax = h.isMax ∧
      h'.data.toList.Perm (vs.reverse ++ h.data.toList) := by
  induction vs generalizing h with
  | nil => exact ⟨h, rfl, hi, rfl, by simp⟩
  | cons v vs ih =>
    obtain ⟨h1, he1, hi1, hmx1, hp1⟩ := insert_spec h v hi
    obtain ⟨h2, he2, hi2, hmx2, hp2⟩ := ih h1 hi1
    refine ⟨h2, by simp [insertAll, he1, he2], hi2, hmx2.trans hmx1, ?_⟩
    refine hp2.trans ?_
    rw [List.reverse_cons, List.append_assoc]
    exact List.Perm.append_left _ hp1

/-- the headline: inserting any list of values into a fresh heap and extracting everything
    yields the sorted multiset -/
theorem heapsort_spec (mx : Bool) (vs : List Int) :
    ∃ h l, insertAll (create mx) vs = some h ∧ drain h.data.size h = some l ∧ l.Perm vs ∧
      SortedBy mx l := by
  obtain ⟨h, he, hi, hmx, hp⟩ := insertAll_spec (create mx) vs (inv_create mx)
  obtain ⟨l, hd, hpl, hs⟩ := drain_spec h hi
  refine ⟨h, l, he, hd, ?_, ?_⟩
  · refine hpl.trans (hp.trans ?_)
    simp [create]
  · rw [hmx] at hs; exact hs

theorem sortedBy_min (l : List Int) : SortedBy false l ↔ l.Pairwise (· ≤ ·) := by
  unfold SortedBy
  constructor <;> intro h <;> refine h.imp ?_ <;> intro a b hab <;> simp [better] at * <;> omega

theorem sortedBy_max (l : List Int) : SortedBy true l ↔ l.Pairwise (· ≥ ·) := by
  unfold SortedBy
  constructor <;> intro h <;> refine h.imp ?_ <;> intro a b hab <;> simp [better] at * <;> omega

/-! ## `validate` -/

theorem validate_child (mx : Bool) (d : Array Int) (c : Nat) (x : Int) :
    (match d[c]? with | some y => !(better mx y x) | none => true) = true ↔
      (c < d.size → ¬ better mx (d[c]!) x = true) := by
  by_cases hc : c < d.size
  · have : d[c]? = some (d[c]!) := (getElem?_eq_some_iff' _ _ _).2 ⟨hc, rfl⟩
    rw [this]; simp [hc]
  · have : d[c]? = none := by simp; omega
    rw [this]; simp [hc]

/-- `esl_heap_Validate` accepts exactly the heap-ordered arrays -/
theorem validate_iff (h : Heap) :
    validate h = true ↔
      (∀ i, 0 < i → i < h.data.size →
        ¬ better h.isMax (h.data[i]!) (h.data[parent i]!) = true) := by
  unfold validate
  simp only [List.all_eq_true, List.mem_range, Bool.and_eq_true]
  constructor
  · intro hv i hi0 hi
    have hpl := parent_lt hi0
    obtain ⟨h1, h2⟩ := hv (parent i) (by omega)
    have h1 := (validate_child h.isMax h.data _ _).1 h1
    have h2 := (validate_child h.isMax h.data _ _).1 h2
    rcases child_of_parent_eq hi0 rfl with hc | hc
    · rw [← hc] at h1; exact h1 hi
    · rw [← hc] at h2; exact h2 hi
  · intro hh idx _
    refine ⟨(validate_child h.isMax h.data _ _).2 fun hc => ?_,
      (validate_child h.isMax h.data _ _).2 fun hc => ?_⟩
    · have := hh (left idx) (by unfold left; omega) hc
      rw [parent_left] at this; exact this
    · have := hh (left idx + 1) (by omega) hc
      rw [parent_left_succ] at this; exact this

end EaselModel.Containers.Heap
