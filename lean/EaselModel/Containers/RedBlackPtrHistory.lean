import EaselModel.Containers.RedBlackPtrRefine
/-! # Histories of `esl_red_black_doublekey_insert` on the pointer structure refine the inductive tree -/
namespace EaselModel.Containers.RedBlackPtr
open EaselModel.Containers.RedBlack

/-- `insert_refines` phrased with `Tree.insert` (the function the order/balance theorems are about) -/
theorem insert_refines_insert {st : Store} {t : Shape} {root node : Nat} {nn : Node}
    (hrep : ReprP st t (some root) none) (hnd : t.ids.Nodup) (hnode : node ∉ t.ids) (hr : rd st node = some nn) :
    (Tree.insert (absTree st t) nn.key = none → insert st (some root) node = none) ∧
    (∀ T', Tree.insert (absTree st t) nn.key = some (T', false) →
      T' = absTree st t ∧ ∃ st', insert st (some root) node = some (st', none) ∧ (∀ j, j ≠ node → rd st' j = rd st j)) ∧
    (∀ T', Tree.insert (absTree st t) nn.key = some (T', true) →
      ∃ st' root' t', insert st (some root) node = some (st', some root') ∧ ReprP st' t' (some root') none ∧
        absTree st' t' = T' ∧ t'.ids.Perm (node :: t.ids) ∧ (∀ j, j ∉ node :: t.ids → rd st' j = rd st j)) := by
  obtain ⟨hA, hB⟩ := insert_refines hrep hnd hnode hr
  cases hins : Tree.ins nn.key (absTree st t) with
  | dup =>
    simp only [Tree.insert, hins]
    refine ⟨fun h => (by cases h), fun T' h => ?_, fun T' h => (by cases h)⟩
    simp only [Option.some.injEq, Prod.mk.injEq, and_true] at h
    exact ⟨h.symm, hA hins⟩
  | done t1 =>
    obtain ⟨_, hB2⟩ := hB (by rw [hins]; simp)
    simp only [Tree.insert, hins]
    refine ⟨fun h => (by cases h), fun T' h => (by simp at h), fun T' h => ?_⟩
    simp only [Option.some.injEq, Prod.mk.injEq, and_true] at h
    exact hB2 T' (by rw [hins]; simp [finish, h])
  | check t1 =>
    obtain ⟨_, hB2⟩ := hB (by rw [hins]; simp)
    simp only [Tree.insert, hins]
    refine ⟨fun h => (by cases h), fun T' h => (by simp at h), fun T' h => ?_⟩
    simp only [Option.some.injEq, Prod.mk.injEq, and_true] at h
    exact hB2 T' (by rw [hins]; simp [finish, h])
  | viol t1 sd =>
    obtain ⟨hB1, _⟩ := hB (by rw [hins]; simp)
    simp only [Tree.insert, hins]
    exact ⟨fun _ => hB1 (by rw [hins]; rfl), fun T' h => (by cases h), fun T' h => (by cases h)⟩
  | fatal =>
    obtain ⟨hB1, _⟩ := hB (by rw [hins]; simp)
    simp only [Tree.insert, hins]
    exact ⟨fun _ => hB1 (by rw [hins]; rfl), fun T' h => (by cases h), fun T' h => (by cases h)⟩

/-- the caller's loop: `ret = insert(tree, node); if (ret != NULL) tree = ret;` for each offered record in turn -/
def insertAllPtr (st : Store) (tree : Ptr) : List Nat → Option (Store × Ptr)
  | [] => some (st, tree)
  | n :: ns =>
    match insert st tree n with
    | none => none
    | some (st', none) => insertAllPtr st' tree ns
    | some (st', some r) => insertAllPtr st' (some r) ns

/-- the keys the offered records carry -/
def keysOf (st : Store) (nodes : List Nat) : List Int :=
  nodes.map fun n => match rd st n with
    | some nd => nd.key
    | none => 0

theorem keysOf_congr {st st' : Store} {nodes : List Nat} (h : ∀ n ∈ nodes, rd st' n = rd st n) :
    keysOf st' nodes = keysOf st nodes := by
  unfold keysOf
  exact List.map_congr_left (fun n hn => by rw [h n hn])

/-- EVERY HISTORY: offering any distinct, fresh records (as `esl_red_black_doublekey_Create` / the pool hand them out:
    `parent == NULL`) one after the other to a well-formed tree laid out in the store never fails, and the store then lays out
    — with correct `small`/`large`/`parent` pointers, over distinct records taken from the old tree and the offered ones —
    exactly the tree `Tree.insertAll` computes from the keys; no other record is written -/
theorem insertAllPtr_refines : ∀ (nodes : List Nat) (st : Store) (tree : Ptr) (t : Shape),
    ReprP st t tree none → t.ids.Nodup → Tree.WF (absTree st t) → nodes.Nodup → (∀ n ∈ nodes, n ∉ t.ids) →
    (∀ n ∈ nodes, ∃ nd, rd st n = some nd ∧ nd.parent = none) →
    ∃ st' tree' t', insertAllPtr st tree nodes = some (st', tree') ∧ ReprP st' t' tree' none ∧ t'.ids.Nodup ∧
      Tree.insertAll (absTree st t) (keysOf st nodes) = some (absTree st' t') ∧ Tree.WF (absTree st' t') ∧
      (∀ j ∈ t'.ids, j ∈ t.ids ∨ j ∈ nodes) ∧ (∀ j, j ∉ t.ids → j ∉ nodes → rd st' j = rd st j)
  | [], st, tree, t, hrep, hnd, hwf, _, _, _ =>
    ⟨st, tree, t, rfl, hrep, hnd, rfl, hwf, fun j hj => Or.inl hj, fun _ _ _ => rfl⟩
  | n :: ns, st, tree, t, hrep, hnd, hwf, hnodes, hfresh, hread => by
    obtain ⟨nd, hr, hpar⟩ := hread n List.mem_cons_self
    have hnt : n ∉ t.ids := hfresh n List.mem_cons_self
    obtain ⟨hnns, hns⟩ := List.nodup_cons.mp hnodes
    obtain ⟨T1, b, hins, hwf1, hb1, hb2, _⟩ := Tree.insert_spec (absTree st t) nd.key hwf
    have hkeys : keysOf st (n :: ns) = nd.key :: keysOf st ns := by simp only [keysOf, List.map_cons, hr]
    -- one step, in a common form
    have step : ∃ st1 tree1 t1, (insertAllPtr st tree (n :: ns) = insertAllPtr st1 tree1 ns) ∧ ReprP st1 t1 tree1 none ∧
        t1.ids.Nodup ∧ absTree st1 t1 = T1 ∧ (∀ j ∈ t1.ids, j ∈ t.ids ∨ j = n) ∧ (∀ j, j ∉ t.ids → j ≠ n → rd st1 j = rd st j) := by
      cases tree with
      | none =>
        have ht : t = .nil := by cases t with
          | nil => rfl
          | node a i b => obtain ⟨h, _⟩ := hrep; cases h
        subst ht
        obtain ⟨st1, h1, h2, h3⟩ := insert_empty hr
        refine ⟨st1, some n, .node .nil n .nil, by simp only [insertAllPtr, h1], ⟨rfl, _, h3, hpar, rfl, rfl⟩,
          by simp [Shape.ids], ?_, fun j hj => Or.inr (by simpa [Shape.ids] using hj), fun j _ hj => h2 j hj⟩
        have : Tree.insert (absTree st .nil) nd.key = some (.node .black .nil nd.key .nil, true) := rfl
        rw [this] at hins
        simp only [Option.some.injEq, Prod.mk.injEq] at hins
        rw [← hins.1]
        simp only [absTree, h3]
      | some root =>
        obtain ⟨_, hdupc, hnewc⟩ := insert_refines_insert hrep hnd hnt hr
        cases b with
        | false =>
          obtain ⟨hT, st1, h1, h2⟩ := hdupc T1 hins
          have hids : ∀ i ∈ t.ids, rd st1 i = rd st i := fun i hi => h2 i (fun e => hnt (e ▸ hi))
          exact ⟨st1, some root, t, by simp only [insertAllPtr, h1], ReprP.congr hids hrep, hnd,
            by rw [absTree_congr hids, hT], fun j hj => Or.inl hj, fun j _ hj => h2 j hj⟩
        | true =>
          obtain ⟨st1, root1, t1, h1, h2, h3, h4, h5⟩ := hnewc T1 hins
          refine ⟨st1, some root1, t1, by simp only [insertAllPtr, h1], h2,
            h4.nodup_iff.mpr (List.nodup_cons.mpr ⟨hnt, hnd⟩), h3, fun j hj => ?_, fun j h6 h7 => h5 j ?_⟩
          · rcases List.mem_cons.mp (h4.mem_iff.mp hj) with h | h
            · exact Or.inr h
            · exact Or.inl h
          · simp only [List.mem_cons, not_or]; exact ⟨h7, h6⟩
    obtain ⟨st1, tree1, t1, e1, hrep1, hnd1, habs1, hsub1, hsame1⟩ := step
    have hsame_ns : ∀ m ∈ ns, rd st1 m = rd st m := fun m hm =>
      hsame1 m (hfresh m (List.mem_cons_of_mem _ hm)) (fun e => hnns (e ▸ hm))
    obtain ⟨st', tree', t', k1, k2, k3, k4, k5, k6, k7⟩ := insertAllPtr_refines ns st1 tree1 t1 hrep1 hnd1 (habs1 ▸ hwf1) hns
      (fun m hm hmt => by
        rcases hsub1 m hmt with h | h
        · exact hfresh m (List.mem_cons_of_mem _ hm) h
        · exact hnns (h ▸ hm))
      (fun m hm => by
        obtain ⟨md, hmr, hmp⟩ := hread m (List.mem_cons_of_mem _ hm)
        exact ⟨md, by rw [hsame_ns m hm]; exact hmr, hmp⟩)
    refine ⟨st', tree', t', e1.trans k1, k2, k3, ?_, k5, fun j hj => ?_, fun j h1 h2 => ?_⟩
    · rw [hkeys]
      simp only [Tree.insertAll, hins]
      rw [← habs1, ← keysOf_congr hsame_ns]
      exact k4
    · rcases k6 j hj with h | h
      · rcases hsub1 j h with h' | h'
        · exact Or.inl h'
        · exact Or.inr (by simp [h'])
      · exact Or.inr (List.mem_cons_of_mem _ h)
    · have h3 : j ≠ n := fun e => h2 (by simp [e])
      have h4 : j ∉ ns := fun h => h2 (List.mem_cons_of_mem _ h)
      have h5 : j ∉ t1.ids := fun h => by
        rcases hsub1 j h with h' | h'
        · exact h1 h'
        · exact h3 h'
      rw [k7 j h5 h4, hsame1 j h1 h3]


/-! ## from the pool to the tree: `pool_Create(n)`, the caller's `node->key = k`, then the insertions -/

/-- the caller writes the keys into the records it took: `node->key = k` -/
def setKeys (st : Store) : List Nat → List Int → Store
  | n :: ns, k :: ks =>
    setKeys (match wr st n (fun nd => { nd with key := k }) with
             | some st' => st'
             | none => st) ns ks
  | _, _ => st

theorem rd_setKeys_notin : ∀ (l : List Nat) (ks : List Int) (st : Store) (j : Nat), j ∉ l → rd (setKeys st l ks) j = rd st j
  | [], _, _, _, _ => by simp [setKeys]
  | _ :: _, [], _, _, _ => by simp [setKeys]
  | n :: ns, k :: ks, st, j, hj => by
    simp only [List.mem_cons, not_or] at hj
    simp only [setKeys]
    rw [rd_setKeys_notin ns ks _ j hj.2]
    cases hw : wr st n (fun nd => { nd with key := k }) with
    | none => rfl
    | some st' => exact rd_wr_ne hw hj.1

/-- after the caller wrote the keys, the records carry them and are otherwise as handed out -/
theorem setKeys_spec : ∀ (l : List Nat) (ks : List Int) (st : Store), l.Nodup → l.length = ks.length →
    (∀ n ∈ l, ∃ nd, rd st n = some nd ∧ nd.parent = none) →
    keysOf (setKeys st l ks) l = ks ∧ ∀ n ∈ l, ∃ nd, rd (setKeys st l ks) n = some nd ∧ nd.parent = none
  | [], [], _, _, _, _ => ⟨rfl, fun _ h => by cases h⟩
  | [], _ :: _, _, _, h, _ => by simp at h
  | _ :: _, [], _, _, h, _ => by simp at h
  | n :: ns, k :: ks, st, hnd, hlen, hread => by
    obtain ⟨hn, hns⟩ := List.nodup_cons.mp hnd
    obtain ⟨nd, hr, hp⟩ := hread n List.mem_cons_self
    have hw := wr_of_rd (fun nd => { nd with key := k }) hr
    have hrn : rd (st.setIfInBounds n { nd with key := k }) n = some { nd with key := k } := rd_set_same _ hr
    have hother : ∀ m, m ≠ n → rd (st.setIfInBounds n { nd with key := k }) m = rd st m := fun m hm => rd_set_ne st _ hm
    obtain ⟨ih1, ih2⟩ := setKeys_spec ns ks (st.setIfInBounds n { nd with key := k }) hns (by simpa using hlen)
      (fun m hm => by
        obtain ⟨md, h1, h2⟩ := hread m (List.mem_cons_of_mem _ hm)
        exact ⟨md, by rw [hother m (fun e => hn (e ▸ hm))]; exact h1, h2⟩)
    have hfin : rd (setKeys st (n :: ns) (k :: ks)) n = some { nd with key := k } := by
      simp only [setKeys, hw]
      rw [rd_setKeys_notin ns ks _ n hn]; exact hrn
    refine ⟨?_, fun m hm => ?_⟩
    · have : keysOf (setKeys st (n :: ns) (k :: ks)) (n :: ns) = k :: keysOf (setKeys st (n :: ns) (k :: ks)) ns := by
        simp only [keysOf, List.map_cons, hfin]
      rw [this]
      congr 1
      simp only [setKeys, hw]
      exact ih1
    · rcases List.mem_cons.mp hm with rfl | h
      · exact ⟨_, hfin, hp⟩
      · simp only [setKeys, hw]; exact ih2 m h

/-- END TO END: `esl_red_black_doublekey_pool_Create(|ks|)`, the keys `ks` written into the block's records in address order,
    the records offered one after the other: for EVERY key list the insertions never fail and the store then lays out exactly
    the tree `Tree.insertAll .nil ks` — ordered, balanced, holding every key of `ks` -/
theorem pool_history (st : Store) (ks : List Int) :
    ∃ st' tree' t', insertAllPtr (setKeys (poolCreate st ks.length).1 (List.range' st.size ks.length) ks) none
        (List.range' st.size ks.length) = some (st', tree') ∧ ReprP st' t' tree' none ∧ t'.ids.Nodup ∧
      Tree.insertAll .nil ks = some (absTree st' t') ∧ Tree.WF (absTree st' t') ∧
      (∀ x, x ∈ Tree.toList (absTree st' t') ↔ x ∈ ks) ∧ (∀ j, j < st.size → rd st' j = rd st j) := by
  have hnd : (List.range' st.size ks.length).Nodup := List.nodup_range'
  have hread : ∀ n ∈ List.range' st.size ks.length, ∃ nd, rd (poolCreate st ks.length).1 n = some nd ∧ nd.parent = none := by
    intro n hn
    obtain ⟨h1, h2⟩ := List.mem_range'_1.mp hn
    have := rd_poolCreate_new st ks.length (n - st.size) (by omega)
    rw [show st.size + (n - st.size) = n by omega] at this
    exact ⟨_, this, rfl⟩
  obtain ⟨e1, e2⟩ := setKeys_spec _ ks (poolCreate st ks.length).1 hnd (by simp) hread
  obtain ⟨st', tree', t', h1, h2, h3, h4, h5, h6, h7⟩ :=
    insertAllPtr_refines _ (setKeys (poolCreate st ks.length).1 (List.range' st.size ks.length) ks) none .nil rfl List.nodup_nil
      Tree.wf_nil hnd (fun _ _ h => by cases h) e2
  rw [e1] at h4
  have h4' : Tree.insertAll .nil ks = some (absTree st' t') := h4
  obtain ⟨T, f1, _, f3⟩ := Tree.insertAll_spec ks
  have hT : T = absTree st' t' := by rw [f1] at h4'; exact Option.some.inj h4'
  refine ⟨st', tree', t', h1, h2, h3, h4', h5, hT ▸ f3, fun j hj => ?_⟩
  have hjn : j ∉ List.range' st.size ks.length := fun h => by
    have := (List.mem_range'_1.mp h).1; omega
  rw [h7 j (fun h => by cases h) hjn, rd_setKeys_notin _ _ _ j hjn, rd_poolCreate_old st _ j hj]

end EaselModel.Containers.RedBlackPtr
