import EaselModel.Random.Model
/-! # esl_stack.c — executable model (core Lean only)

One model for the three element types (int / char / pointer stacks differ only in the array they use): `data[0..n)`
is the array `data` (its size is `n`), `nalloc` mirrors the doubling reallocation (`ESL_STACK_INITALLOC = 128`).
`none` = fault (out-of-bounds access) or, in `shuffle`, the rejection loop of `esl_rnd_Roll` running out of fuel. -/
namespace EaselModel.Containers.Stack
open EaselModel.Random

structure Stack (α : Type) where
  data : Array α
  nalloc : Nat
deriving Repr

variable {α : Type}

instance : Inhabited (Stack α) := ⟨⟨#[], 128⟩⟩

/-- `esl_stack_{I,C,P}Create` -/
def create : Stack α := { data := #[], nalloc := 128 }

/-- `esl_stack_{I,C,P}Push`: `if (n == nalloc) realloc(2*nalloc); data[n] = x; n++` -/
def push (s : Stack α) (x : α) : Option (Stack α) :=
  let nalloc := if s.data.size == s.nalloc then s.nalloc + s.nalloc else s.nalloc
  if s.data.size < nalloc then some { data := s.data.push x, nalloc := nalloc } else none

/-- `esl_stack_{I,C,P}Pop`: `(eslOK, x)` or `eslEOD` -/
def pop (s : Stack α) : Stack α × Option α :=
  match s.data.back? with
  | none => (s, none)
  | some x => ({ s with data := s.data.pop }, some x)

/-- `esl_stack_ObjectCount` -/
def count (s : Stack α) : Nat := s.data.size

/-- `esl_stack_Reuse` -/
def reuse (s : Stack α) : Stack α := { s with data := #[] }

/-- `esl_stack_DiscardTopN(s, n)`, `n ≥ 0`: `if (n <= s->n) s->n -= n; else s->n = 0;` -/
def discardTopN (s : Stack α) (n : Nat) : Stack α :=
  if n ≤ s.data.size then { s with data := s.data.extract 0 (s.data.size - n) } else { s with data := #[] }

/-- the compaction loop of `esl_stack_DiscardSelected`:
    `for (opos = 0, npos = 0; opos < n; opos++) if (!discard(data[opos])) data[npos++] = data[opos];  n = npos;` -/
def discardLoop (discard : α → Bool) : Nat → Array α → Nat → Nat → Option (Array α × Nat)
  | 0, d, _, npos => some (d, npos)
  | todo+1, d, opos, npos =>
    match d[opos]? with
    | none => none
    | some x =>
      if discard x then discardLoop discard todo d (opos+1) npos
      else if npos < d.size then discardLoop discard todo (d.set! npos x) (opos+1) (npos+1) else none

def discardSelected (s : Stack α) (discard : α → Bool) : Option (Stack α) :=
  match discardLoop discard s.data.size s.data 0 0 with
  | none => none
  | some (d, npos) => some { s with data := d.extract 0 npos }

/-- `ESL_SWAP(data[w], data[n-1])` -/
def swapAt (d : Array α) (i j : Nat) : Option (Array α) :=
  match d[i]?, d[j]? with
  | some x, some y => some ((d.set! i y).set! j x)
  | _, _ => none

/-- `esl_stack_Shuffle`: `while (n > 1) { w = esl_rnd_Roll(r, n); swap(data[w], data[n-1]); n--; }`
    (`rollFuel` bounds the rejection loop of each Roll) -/
def shuffleLoop (rollFuel : Nat) : Nat → Rng → Array α → Option (Array α × Rng)
  | 0, r, d => some (d, r)
  | 1, r, d => some (d, r)
  | n+1, r, d =>
    match r.roll (n+1) rollFuel with
    | none => none
    | some (w, r') =>
      match swapAt d w n with
      | none => none
      | some d' => shuffleLoop rollFuel n r' d'

def shuffle (rollFuel : Nat) (r : Rng) (s : Stack α) : Option (Stack α × Rng) :=
  match shuffleLoop rollFuel s.data.size r s.data with
  | none => none
  | some (d, r') => some ({ s with data := d }, r')

/-- `esl_stack_Convert2String` read back as a C string: the chars in push order up to the first NUL -/
def convert2String (s : Stack UInt8) : List UInt8 := s.data.toList.takeWhile (· != 0)

def pushAll : Stack α → List α → Option (Stack α)
  | s, [] => some s
  | s, x :: xs => match push s x with | none => none | some s' => pushAll s' xs

/-- pop until empty -/
def popAll (s : Stack α) : List α := s.data.toList.reverse

end EaselModel.Containers.Stack
