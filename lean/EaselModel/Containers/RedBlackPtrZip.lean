import EaselModel.Containers.RedBlackPtrInsert
/-! # The pointer tree with its `parent` pointers, and the path from a record up to the root

`Repr` (RedBlackPtrLemmas) follows `small`/`large` only. `esl_red_black_doublekey_rebalance` climbs the `parent` pointers,
so here the layout predicate `ReprP` also fixes every record's `parent`, and the part of the tree ABOVE a record is a list
of frames (`Frame`, innermost first: the record's parent, its grandparent, …) laid out by `ReprCtx`. `zip` puts a subtree
back into its path; `upPath` is the unwinding of `RedBlack.Tree.ins` along the path (one `up` per frame). -/
namespace EaselModel.Containers.RedBlackPtr
open EaselModel.Containers.RedBlack

/-- `Repr` + parent pointers: the root record of the (sub)tree has `parent = par`, every other record points at the record
    it hangs under -/
def ReprP (st : Store) : Shape → Ptr → Ptr → Prop
  | .nil, p, _ => p = none
  | .node a i b, p, par => p = some i ∧ ∃ nd, rd st i = some nd ∧ nd.parent = par ∧
      ReprP st a nd.small (some i) ∧ ReprP st b nd.large (some i)

theorem ReprP.toRepr {st : Store} : ∀ {t : Shape} {p par : Ptr}, ReprP st t p par → Repr st t p
  | .nil, _, _, h => h
  | .node _ _ _, _, _, ⟨hp, nd, hr, _, ha, hb⟩ => ⟨hp, nd, hr, ha.toRepr, hb.toRepr⟩

theorem ReprP.congr {st st' : Store} : ∀ {t : Shape} {p par : Ptr}, (∀ i ∈ t.ids, rd st' i = rd st i) →
    ReprP st t p par → ReprP st' t p par
  | .nil, _, _, _, h => h
  | .node a i b, _, _, hc, ⟨hp, nd, hr, hpar, ha, hb⟩ => by
    refine ⟨hp, nd, ?_, hpar, ?_, ?_⟩
    · rw [hc i (by simp [Shape.ids])]; exact hr
    · exact ReprP.congr (fun j hj => hc j (by simp [Shape.ids, hj])) ha
    · exact ReprP.congr (fun j hj => hc j (by simp [Shape.ids, hj])) hb

theorem ReprP.root_mem {st : Store} {t : Shape} {x : Nat} {par : Ptr} (h : ReprP st t (some x) par) : x ∈ t.ids := by
  cases t with
  | nil => cases h
  | node a i b =>
    obtain ⟨hp, _⟩ := h
    cases hp
    simp [Shape.ids]

/-- the root record gets a new `parent`, nothing else of the subtree changes -/
theorem ReprP.reparent {st st' : Store} {t : Shape} {q par par' : Ptr} (hn : t.ids.Nodup) (h : ReprP st t q par)
    (hc : ∀ j ∈ t.ids, rd st' j = if q = some j then (rd st j).map (fun nd => { nd with parent := par' }) else rd st j) :
    ReprP st' t q par' := by
  cases t with
  | nil => exact h
  | node a i b =>
    obtain ⟨hp, nd, hr, _, ha, hb⟩ := h
    subst hp
    simp only [Shape.ids, List.nodup_append, List.nodup_cons] at hn
    obtain ⟨_, ⟨hib, _⟩, hdisj⟩ := hn
    have hia : i ∉ a.ids := fun h => hdisj i h i (List.mem_cons_self) rfl
    have hi := hc i (by simp [Shape.ids])
    simp only [↓reduceIte, hr, Option.map_some] at hi
    refine ⟨rfl, _, hi, rfl, ?_, ?_⟩
    · refine ReprP.congr (fun j hj => ?_) ha
      have hji : j ≠ i := fun e => hia (e ▸ hj)
      have := hc j (by simp [Shape.ids, hj])
      simpa [Option.some.injEq, Ne.symm hji] using this
    · refine ReprP.congr (fun j hj => ?_) hb
      have hji : j ≠ i := fun e => hib (e ▸ hj)
      have := hc j (by simp [Shape.ids, hj])
      simpa [Option.some.injEq, Ne.symm hji] using this

/-- one step of the path: the hole is the `small` child of record `i` (whose `large` subtree is `b`), or the `large` child -/
inductive Frame
  | L (i : Nat) (b : Shape)
  | R (a : Shape) (i : Nat)

namespace Frame
def id : Frame → Nat
  | L i _ => i
  | R _ i => i
def sib : Frame → Shape
  | L _ b => b
  | R a _ => a
def fill : Frame → Shape → Shape
  | L i b, s => .node s i b
  | R a i, s => .node a i s
def ids (f : Frame) : List Nat := f.id :: f.sib.ids
def side : Frame → Side
  | L _ _ => .small
  | R _ _ => .large
end Frame

def pathIds : List Frame → List Nat
  | [] => []
  | f :: fs => f.ids ++ pathIds fs

def zip : Shape → List Frame → Shape
  | s, [] => s
  | s, f :: fs => zip (f.fill s) fs

theorem fill_ids_perm (f : Frame) (s : Shape) : (f.fill s).ids.Perm (s.ids ++ f.ids) := by
  cases f with
  | L i b => simp only [Frame.fill, Shape.ids, Frame.ids, Frame.id, Frame.sib]; exact List.Perm.refl _
  | R a i =>
    simp only [Frame.fill, Shape.ids, Frame.ids, Frame.id, Frame.sib]
    exact List.perm_middle.trans ((List.Perm.cons i List.perm_append_comm).trans List.perm_middle.symm)

theorem zip_ids_perm : ∀ (fs : List Frame) (s : Shape), (zip s fs).ids.Perm (s.ids ++ pathIds fs)
  | [], s => by simp [zip, pathIds]
  | f :: fs, s => by
    simp only [zip, pathIds]
    refine (zip_ids_perm fs (f.fill s)).trans ?_
    rw [← List.append_assoc]
    exact List.Perm.append_right _ (fill_ids_perm f s)

/-- the layout of the path above a hole: `hp` = the pointer stored where the hole is, `par` = what the `parent` field of the
    record in the hole must be, `root` = the tree's root pointer (`hp` itself when the path is empty) -/
def ReprCtx (st : Store) : List Frame → Ptr → Ptr → Ptr → Prop
  | [], hp, par, root => par = none ∧ root = hp
  | .L i b :: fs, hp, par, root => par = some i ∧ ∃ nd, rd st i = some nd ∧ nd.small = hp ∧
      ReprP st b nd.large (some i) ∧ ReprCtx st fs (some i) nd.parent root
  | .R a i :: fs, hp, par, root => par = some i ∧ ∃ nd, rd st i = some nd ∧ nd.large = hp ∧
      ReprP st a nd.small (some i) ∧ ReprCtx st fs (some i) nd.parent root

theorem ReprCtx.congr {st st' : Store} : ∀ {fs : List Frame} {hp par root : Ptr}, (∀ i ∈ pathIds fs, rd st' i = rd st i) →
    ReprCtx st fs hp par root → ReprCtx st' fs hp par root
  | [], _, _, _, _, h => h
  | .L i b :: fs, _, _, _, hc, ⟨hp, nd, hr, hs, hb, hrest⟩ => by
    refine ⟨hp, nd, ?_, hs, ?_, ?_⟩
    · rw [hc i (by simp [pathIds, Frame.ids, Frame.id])]; exact hr
    · exact ReprP.congr (fun j hj => hc j (by simp [pathIds, Frame.ids, Frame.sib, hj])) hb
    · exact ReprCtx.congr (fun j hj => hc j (by simp [pathIds, hj])) hrest
  | .R a i :: fs, _, _, _, hc, ⟨hp, nd, hr, hs, hb, hrest⟩ => by
    refine ⟨hp, nd, ?_, hs, ?_, ?_⟩
    · rw [hc i (by simp [pathIds, Frame.ids, Frame.id])]; exact hr
    · exact ReprP.congr (fun j hj => hc j (by simp [pathIds, Frame.ids, Frame.sib, hj])) hb
    · exact ReprCtx.congr (fun j hj => hc j (by simp [pathIds, hj])) hrest

/-- a subtree and the path above it make the whole tree -/
theorem zip_repr {st : Store} : ∀ {fs : List Frame} {s : Shape} {hp par root : Ptr},
    ReprP st s hp par → ReprCtx st fs hp par root → ReprP st (zip s fs) root none
  | [], _, _, _, _, hs, ⟨hpar, hroot⟩ => by subst hpar; subst hroot; exact hs
  | .L i b :: fs, s, _, _, _, hs, ⟨hpar, nd, hr, hsm, hb, hrest⟩ => by
    subst hpar
    exact zip_repr (s := .node s i b) ⟨rfl, nd, hr, rfl, hsm ▸ hs, hb⟩ hrest
  | .R a i :: fs, s, _, _, _, hs, ⟨hpar, nd, hr, hsm, hb, hrest⟩ => by
    subst hpar
    exact zip_repr (s := .node a i s) ⟨rfl, nd, hr, rfl, hb, hsm ▸ hs⟩ hrest

/-- only the pointer in the hole changes (the record of the innermost frame gets a new child on the hole's side) -/
theorem ReprCtx.rehole {st st' : Store} {f : Frame} {fs : List Frame} {hp hp' par root : Ptr}
    (h : ReprCtx st (f :: fs) hp par root) (hnd : (pathIds (f :: fs)).Nodup)
    (hc : ∀ j ∈ pathIds (f :: fs), j ≠ f.id → rd st' j = rd st j)
    (hf : ∀ nd, rd st f.id = some nd → rd st' f.id = some (match f with
      | .L _ _ => { nd with small := hp' } | .R _ _ => { nd with large := hp' })) :
    ReprCtx st' (f :: fs) hp' par root := by
  simp only [pathIds, Frame.ids, List.cons_append, List.nodup_cons, List.mem_append, not_or] at hnd
  obtain ⟨⟨hsib, hrest⟩, _⟩ := hnd
  cases f with
  | L i b =>
    obtain ⟨hpar, nd, hr, hs, hb, hrst⟩ := h
    refine ⟨hpar, _, hf nd hr, rfl, ?_, ?_⟩
    · exact ReprP.congr (fun j hj => hc j (by simp [pathIds, Frame.ids, Frame.sib, hj]) (fun e => hsib (e ▸ hj))) hb
    · exact ReprCtx.congr (fun j hj => hc j (by simp [pathIds, hj]) (fun e => hrest (e ▸ hj))) hrst
  | R a i =>
    obtain ⟨hpar, nd, hr, hs, hb, hrst⟩ := h
    refine ⟨hpar, _, hf nd hr, rfl, ?_, ?_⟩
    · exact ReprP.congr (fun j hj => hc j (by simp [pathIds, Frame.ids, Frame.sib, hj]) (fun e => hsib (e ▸ hj))) hb
    · exact ReprCtx.congr (fun j hj => hc j (by simp [pathIds, hj]) (fun e => hrest (e ▸ hj))) hrst

/-! ## the abstract side: `ins` unwinds along the path -/

/-- what the record of frame `f` does with the result coming up from the hole (`RedBlack.Tree.up`) -/
def upFrame (st : Store) (f : Frame) (r : Res Int) : Res Int :=
  match f with
  | .L i b => match rd st i with
    | some nd => Tree.up nd.color .nil nd.key (absTree st b) .small r
    | none => .fatal
  | .R a i => match rd st i with
    | some nd => Tree.up nd.color (absTree st a) nd.key .nil .large r
    | none => .fatal

def upPath (st : Store) : List Frame → Res Int → Res Int
  | [], r => r
  | f :: fs, r => upPath st fs (upFrame st f r)

theorem up_small_indep (c : Color) (a a' : Tree Int) (x : Int) (b : Tree Int) (r : Res Int) :
    Tree.up c a x b .small r = Tree.up c a' x b .small r := by
  cases r <;> rfl

theorem up_large_indep (c : Color) (a : Tree Int) (x : Int) (b b' : Tree Int) (r : Res Int) :
    Tree.up c a x b .large r = Tree.up c a x b' .large r := by
  cases r <;> rfl

/-- the key's descent follows the path: at an `L` frame the key is smaller than the record's, at an `R` frame larger -/
def PathDir (st : Store) (key : Int) : List Frame → Prop
  | [] => True
  | .L i _ :: fs => (∃ nd, rd st i = some nd ∧ key < nd.key) ∧ PathDir st key fs
  | .R _ i :: fs => (∃ nd, rd st i = some nd ∧ nd.key < key) ∧ PathDir st key fs

theorem ins_zip {st : Store} {key : Int} : ∀ {fs : List Frame} {s : Shape}, PathDir st key fs →
    Tree.ins key (absTree st (zip s fs)) = upPath st fs (Tree.ins key (absTree st s))
  | [], _, _ => rfl
  | .L i b :: fs, s, ⟨⟨nd, hr, hlt⟩, hrest⟩ => by
    simp only [zip, upPath]
    rw [ins_zip hrest]
    congr 1
    have h1 : ¬ nd.key < key := by omega
    simp only [Frame.fill, absTree, hr, Tree.ins, h1, hlt, ↓reduceIte, upFrame]
    exact up_small_indep _ _ _ _ _ _
  | .R a i :: fs, s, ⟨⟨nd, hr, hlt⟩, hrest⟩ => by
    simp only [zip, upPath]
    rw [ins_zip hrest]
    congr 1
    simp only [Frame.fill, absTree, hr, Tree.ins, hlt, ↓reduceIte, upFrame]
    exact up_large_indep _ _ _ _ _ _

theorem PathDir.congr {st st' : Store} {key : Int} : ∀ {fs : List Frame},
    (∀ f ∈ fs, ∀ nd, rd st f.id = some nd → ∃ nd', rd st' f.id = some nd' ∧ nd'.key = nd.key) →
    PathDir st key fs → PathDir st' key fs
  | [], _, _ => trivial
  | .L i _ :: fs, hc, ⟨⟨nd, hr, hlt⟩, hrest⟩ => by
    obtain ⟨nd', hr', hk⟩ := hc (.L i _) (List.mem_cons_self) nd hr
    exact ⟨⟨nd', hr', hk ▸ hlt⟩, PathDir.congr (fun f hf => hc f (List.mem_cons_of_mem _ hf)) hrest⟩
  | .R _ i :: fs, hc, ⟨⟨nd, hr, hlt⟩, hrest⟩ => by
    obtain ⟨nd', hr', hk⟩ := hc (.R _ i) (List.mem_cons_self) nd hr
    exact ⟨⟨nd', hr', hk ▸ hlt⟩, PathDir.congr (fun f hf => hc f (List.mem_cons_of_mem _ hf)) hrest⟩

/-- `up` passes a finished subtree upwards unchanged: the result is the zipped tree -/
theorem upPath_done {st : Store} : ∀ {fs : List Frame} {s : Shape} {hp par root : Ptr}, ReprCtx st fs hp par root →
    upPath st fs (.done (absTree st s)) = .done (absTree st (zip s fs))
  | [], _, _, _, _, _ => rfl
  | .L i b :: fs, s, _, _, _, ⟨_, nd, hr, _, _, hrest⟩ => by
    simp only [upPath, zip, upFrame, hr, Tree.up]
    have : Tree.node nd.color (absTree st s) nd.key (absTree st b) = absTree st (Frame.fill (.L i b) s) := by
      simp only [Frame.fill, absTree, hr]
    rw [this]
    exact upPath_done hrest
  | .R a i :: fs, s, _, _, _, ⟨_, nd, hr, _, _, hrest⟩ => by
    simp only [upPath, zip, upFrame, hr, Tree.up]
    have : Tree.node nd.color (absTree st a) nd.key (absTree st s) = absTree st (Frame.fill (.R a i) s) := by
      simp only [Frame.fill, absTree, hr]
    rw [this]
    exact upPath_done hrest

theorem upPath_dup (st : Store) : ∀ (fs : List Frame), (∀ f ∈ fs, (rd st f.id).isSome = true) → upPath st fs .dup = .dup
  | [], _ => rfl
  | .L i b :: fs, h => by
    have := h (.L i b) List.mem_cons_self
    simp only [Frame.id] at this
    obtain ⟨nd, hr⟩ := Option.isSome_iff_exists.mp this
    simp only [upPath, upFrame, hr, Tree.up_dup]
    exact upPath_dup st fs (fun f hf => h f (List.mem_cons_of_mem _ hf))
  | .R a i :: fs, h => by
    have := h (.R a i) List.mem_cons_self
    simp only [Frame.id] at this
    obtain ⟨nd, hr⟩ := Option.isSome_iff_exists.mp this
    simp only [upPath, upFrame, hr, Tree.up_dup]
    exact upPath_dup st fs (fun f hf => h f (List.mem_cons_of_mem _ hf))

/-- `upPath` reads, of the store, only key and colour of the frame records and the sibling subtrees -/
theorem upPath_congr {st st' : Store} : ∀ {fs : List Frame} (r : Res Int),
    (∀ i ∈ pathIds fs, ∃ nd nd', rd st i = some nd ∧ rd st' i = some nd' ∧ nd'.key = nd.key ∧ nd'.color = nd.color) →
    (∀ f ∈ fs, absTree st' f.sib = absTree st f.sib) →
    upPath st' fs r = upPath st fs r
  | [], _, _, _ => rfl
  | .L i b :: fs, r, h, hs => by
    obtain ⟨nd, nd', hr, hr', hk, hcol⟩ := h i (by simp [pathIds, Frame.ids, Frame.id])
    have hb := hs (.L i b) List.mem_cons_self
    simp only [Frame.sib] at hb
    simp only [upPath, upFrame, hr, hr', hk, hcol, hb]
    exact upPath_congr _ (fun j hj => h j (by simp [pathIds, hj])) (fun f hf => hs f (List.mem_cons_of_mem _ hf))
  | .R a i :: fs, r, h, hs => by
    obtain ⟨nd, nd', hr, hr', hk, hcol⟩ := h i (by simp [pathIds, Frame.ids, Frame.id])
    have hb := hs (.R a i) List.mem_cons_self
    simp only [Frame.sib] at hb
    simp only [upPath, upFrame, hr, hr', hk, hcol, hb]
    exact upPath_congr _ (fun j hj => h j (by simp [pathIds, hj])) (fun f hf => hs f (List.mem_cons_of_mem _ hf))

theorem sib_ids_sub {f : Frame} {fs : List Frame} (hf : f ∈ fs) : ∀ j ∈ f.sib.ids, j ∈ pathIds fs := by
  induction fs with
  | nil => cases hf
  | cons g gs ih =>
    intro j hj
    simp only [pathIds, List.mem_append]
    rcases List.mem_cons.mp hf with rfl | h
    · exact Or.inl (by simp [Frame.ids, hj])
    · exact Or.inr (ih h j hj)

/-- if the stores agree on the path's records, `upPath` agrees -/
theorem upPath_congr_eq {st st' : Store} {fs : List Frame} {hp par root : Ptr} (r : Res Int)
    (hctx : ReprCtx st fs hp par root) (h : ∀ i ∈ pathIds fs, rd st' i = rd st i) : upPath st' fs r = upPath st fs r := by
  induction fs generalizing hp par r with
  | nil => rfl
  | cons f fs ih =>
    cases f with
    | L i b =>
      obtain ⟨_, nd, hr, _, _, hrest⟩ := hctx
      have hi := h i (by simp [pathIds, Frame.ids, Frame.id])
      have hb : absTree st' b = absTree st b := absTree_congr (fun j hj => h j (by simp [pathIds, Frame.ids, Frame.sib, hj]))
      simp only [upPath, upFrame, hi, hr, hb]
      exact ih _ hrest (fun j hj => h j (by simp [pathIds, hj]))
    | R a i =>
      obtain ⟨_, nd, hr, _, _, hrest⟩ := hctx
      have hi := h i (by simp [pathIds, Frame.ids, Frame.id])
      have hb : absTree st' a = absTree st a := absTree_congr (fun j hj => h j (by simp [pathIds, Frame.ids, Frame.sib, hj]))
      simp only [upPath, upFrame, hi, hr, hb]
      exact ih _ hrest (fun j hj => h j (by simp [pathIds, hj]))

end EaselModel.Containers.RedBlackPtr
