import EaselModel.Containers.KeyhashApi
import EaselModel.Containers.KeyhashLemmas
/-! # Lemmas for the complete key hash API: the `n = -1` paths are the buffer paths on the bytes before the first NUL;
histories mixing both APIs; which calls the embedded-NUL finding affects; the observers never fault. -/
namespace EaselModel.Containers.Keyhash

/-! ## the string paths -/
theorem take_strlen (k : Key) : k.take (strlen k) = cstrOf k := by
  unfold cstrOf
  induction k with
  | nil => rfl
  | cons a t ih =>
    by_cases ha : a = 0
    · subst ha; simp [strlen]
    · have : (a == 0) = false := by simp [ha]
      simp [strlen, this, ha, ih]

theorem strlen_eq (k : Key) : strlen k = (cstrOf k).length := by
  unfold cstrOf
  induction k with
  | nil => rfl
  | cons a t ih =>
    by_cases ha : a = 0
    · subst ha; simp [strlen]
    · have : (a == 0) = false := by simp [ha]
      simp [strlen, this, ha, ih]

theorem jenkinsStrLoop_eq (v : UInt32) (k : Key) : jenkinsStrLoop v k = (cstrOf k).foldl jenkinsStep v := by
  unfold cstrOf
  induction k generalizing v with
  | nil => rfl
  | cons a t ih =>
    by_cases ha : a = 0
    · subst ha; simp [jenkinsStrLoop]
    · have : (a == 0) = false := by simp [ha]
      simp [jenkinsStrLoop, this, ha, ih]

/-- the string version of `jenkins_hash` is the buffer version on the bytes before the first NUL -/
theorem jenkinsStr_eq (k : Key) (sz : Nat) : jenkinsStr k sz = jenkins (cstrOf k) sz := by
  unfold jenkinsStr jenkins
  rw [jenkinsStrLoop_eq]

/-- `strcmp(key, s) == 0` is `esl_memstrcmp(key, strlen(key), s)` -/
theorem strcmpAt_eq (k : Key) (m : Array UInt8) (pos : Nat) : strcmpAt k m pos = memstrcmpAt (cstrOf k) m pos := by
  unfold cstrOf
  induction k generalizing pos with
  | nil => rfl
  | cons a t ih =>
    by_cases ha : a = 0
    · subst ha
      simp only [strcmpAt, List.takeWhile_cons, bne_self_eq_false, Bool.false_eq_true, ↓reduceIte, memstrcmpAt, beq_self_eq_true]
      cases m[pos]? <;> rfl
    · have h1 : (a == 0) = false := by simp [ha]
      have h2 : (a != 0) = true := by simp [ha]
      simp only [strcmpAt, List.takeWhile_cons, h2, ↓reduceIte, memstrcmpAt, h1, Bool.false_eq_true]
      cases hm : m[pos]? with
      | none => rfl
      | some s =>
        simp only
        by_cases hs : s = 0
        · subst hs; simp [ha]
        · have : (s == 0) = false := by simp [hs]
          simp only [this, Bool.false_eq_true, ↓reduceIte]
          rw [ih]

theorem walkStr_eq (kh : KH) (k : Key) (f : Nat) (s : Option Nat) : walkStr kh k f s = walk kh (cstrOf k) f s := by
  induction f generalizing s with
  | zero => cases s <;> rfl
  | succ f ih =>
    cases s with
    | none => rfl
    | some idx =>
      simp only [walkStr, walk, strcmpAt_eq]
      cases kh.keyOffset[idx]? with
      | none => rfl
      | some off =>
        simp only
        cases memstrcmpAt (cstrOf k) kh.smem off with
        | none => rfl
        | some b =>
          cases b with
          | true => rfl
          | false =>
            simp only
            cases kh.nxt[idx]? with
            | none => rfl
            | some nx => exact ih nx

/-- `esl_keyhash_Lookup(kh, key, -1, …)` as written = the buffer lookup of the bytes before the first NUL, whenever the
    string hash loop agrees with the buffer hash on those bytes (as `jenkins_hash` does: `jenkinsStr_eq`) -/
theorem lookupStrC_eq (H Hs : Key → Nat → Nat) (hs : ∀ k sz, Hs k sz = H (cstrOf k) sz) (kh : KH) (k : Key) :
    lookupStrC Hs kh k = lookup H kh (cstrOf k) := by
  unfold lookupStrC lookup
  simp only [hs, walkStr_eq]
  rfl

theorem storeStrC_eq (H Hs : Key → Nat → Nat) (hs : ∀ k sz, Hs k sz = H (cstrOf k) sz) (kh : KH) (k : Key) :
    storeStrC Hs H kh k = store H kh (cstrOf k) := by
  unfold storeStrC
  rw [take_strlen]
  congr 1
  funext k' sz
  split
  · next h => rw [hs, h.1]
  · rfl

theorem lookupStrC_jenkins (kh : KH) (k : Key) : lookupStrC jenkinsStr kh k = lookup jenkins kh (cstrOf k) :=
  lookupStrC_eq jenkins jenkinsStr jenkinsStr_eq kh k

theorem storeStrC_jenkins (kh : KH) (k : Key) : storeStrC jenkinsStr jenkins kh k = store jenkins kh (cstrOf k) :=
  storeStrC_eq jenkins jenkinsStr jenkinsStr_eq kh k

/-! ## histories mixing both APIs; what the embedded-NUL finding affects -/

/-- only a `Store` BY LENGTH of a key containing a NUL is excluded; lookups by length may carry any bytes -/
def Op.StoreNulFree : Op → Prop
  | .store k => (0 : UInt8) ∉ k
  | _ => True

theorem inv_keys_nulfree {H : Key → Nat → Nat} {kh : KH} {keys : List Key} (hi : Inv H kh keys) :
    ∀ k ∈ keys, (0 : UInt8) ∉ k := by
  intro k hk
  obtain ⟨i, hil, rfl⟩ := List.getElem_of_mem hk
  obtain ⟨off, _, h⟩ := hi.keyAt i keys[i] (by simp [hil])
  exact h.2.2

theorem step_spec_mixed {H : Key → Nat → Nat} {kh : KH} {keys : List Key} (hi : Inv H kh keys) (hH : HashOK H) (op : Op)
    (hop : op.StoreNulFree) :
    match specStep keys op with
    | none => step H kh op = none
    | some (keys', o) => ∃ kh', step H kh op = some (kh', o) ∧ Inv H kh' keys' := by
  cases op with
  | lookup k =>
    have h1 := lookup_spec hi hH k
    by_cases hm : k ∈ keys
    · simp only [specStep, hm, ↓reduceIte]
      exact ⟨kh, by simp [step, h1, hm], hi⟩
    · simp only [specStep, hm, ↓reduceIte]
      exact ⟨kh, by simp [step, h1, hm], hi⟩
  | store k => exact step_spec hi hH (.store k) hop
  | get i => exact step_spec hi hH (.get i) trivial
  | number => exact step_spec hi hH .number trivial
  | reuse => exact step_spec hi hH .reuse trivial
  | clone => exact step_spec hi hH .clone trivial
  | storeStr k => exact step_spec hi hH (.storeStr k) trivial
  | lookupStr k => exact step_spec hi hH (.lookupStr k) trivial

theorem run_spec_mixed {H : Key → Nat → Nat} (hH : HashOK H) (ops : List Op) (kh : KH) (keys : List Key) (hi : Inv H kh keys)
    (hops : ∀ op ∈ ops, op.StoreNulFree) : run H kh ops = specRun keys ops := by
  induction ops generalizing kh keys with
  | nil => rfl
  | cons op rest ih =>
    have hs := step_spec_mixed hi hH op (hops op (by simp))
    simp only [run, specRun]
    cases hsp : specStep keys op with
    | none => simp only [hsp] at hs; simp [hs]
    | some r =>
      obtain ⟨keys', o⟩ := r
      simp only [hsp] at hs
      obtain ⟨kh', h1, h2⟩ := hs
      simp only [h1]
      rw [ih kh' keys' h2 (fun op h => hops op (by simp [h]))]

/-- the FIRST by-length `Store` of a key with an embedded NUL still answers as the abstract type does (a new key, the
    next index) whenever it returns: the key cannot be among the stored ones, which are NUL-free. What it damages is the
    state — the arena then holds a string that reads back as a proper prefix. -/
theorem store_nul_answer {H : Key → Nat → Nat} {kh : KH} {keys : List Key} (hi : Inv H kh keys) (hH : HashOK H) (key : Key)
    (h0 : (0 : UInt8) ∈ key) (r : KH × Status × Nat) (hr : store H kh key = some r) :
    key ∉ keys ∧ r.2 = (.ok, keys.length) := by
  have hm : key ∉ keys := fun hk => inv_keys_nulfree hi key hk h0
  refine ⟨hm, ?_⟩
  obtain ⟨head, hh, hw⟩ := walk_inv hi hH key
  simp only [hm, ↓reduceIte] at hw
  rw [store_new_unfold H kh key head hh hw] at hr
  obtain ⟨_, _, _, _, hnk⟩ := growK_inv hi
  have hidx : (growK kh).nkeys = keys.length := by rw [hnk]; exact hi.nkeys
  split at hr
  · cases hr
  · split at hr
    · cases hr
    · split at hr
      · split at hr
        · cases hr
        · cases hr; simp [hidx]
      · cases hr; simp [hidx]

/-! ## the observers -/
theorem chainLen_chain (kh : KH) {s : Option Nat} {b : Nat} {l : List Nat} (h : Chain kh.nxt s b l) (f : Nat) (hf : l.length ≤ f) :
    chainLen kh f s = some l.length := by
  induction h generalizing f with
  | nil => cases f <;> rfl
  | cons i b l nx hi hn _ ih =>
    cases f with
    | zero => simp at hf
    | succ f =>
      simp only [chainLen, hn, List.length_cons]
      rw [ih f (by simpa using hf)]
      rfl

theorem dumpLoop_isSome {H : Key → Nat → Nat} {kh : KH} {keys : List Key} (hi : Inv H kh keys) (c h nempty : Nat) (mx mn : Int)
    (hc : h + c ≤ kh.hashsize) : (dumpLoop kh c h nempty mx mn).isSome = true := by
  induction c generalizing h nempty mx mn with
  | zero => rfl
  | succ c ih =>
    obtain ⟨hd, l, h1, h2, _⟩ := hi.linked.2 h (by omega)
    simp only [dumpLoop, h1, chainLen_chain kh h2 kh.nkeys h2.length_le]
    exact ih _ _ _ _ (by omega)

/-- `esl_keyhash_Dump` on any reachable table: every chain walk ends, no index is out of bounds, and the reported
    number of keys is the abstract one -/
theorem dump_spec {H : Key → Nat → Nat} {kh : KH} {keys : List Key} (hi : Inv H kh keys) :
    ∃ d, dump kh = some d ∧ d.nkeys = keys.length ∧ d.hashsize = kh.hashsize ∧ d.sn = (keys.map (fun k => k.length + 1)).sum := by
  unfold dump
  have := dumpLoop_isSome hi kh.hashsize 0 0 (-1) 2147483647 (by omega)
  cases hd : dumpLoop kh kh.hashsize 0 0 (-1) 2147483647 with
  | none => rw [hd] at this; cases this
  | some r =>
    obtain ⟨a, b, c⟩ := r
    exact ⟨_, rfl, hi.nkeys, rfl, hi.sn_eq⟩

end EaselModel.Containers.Keyhash
