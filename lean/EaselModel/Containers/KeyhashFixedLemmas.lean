import EaselModel.Containers.KeyhashFixed
import EaselModel.Containers.KeyhashLemmas
import EaselModel.Containers.KeyhashApiLemmas
import EaselModel.Containers.KeyhashBounds
/-! # Lemmas: the repaired chained hash table refines the insertion-ordered list of distinct keys — for ARBITRARY byte
strings (embedded NULs included), any hash function into `[0, size)`, any history. -/
namespace EaselModel.Containers.Keyhash

/-! ## the arena is the concatenation of the keys, each followed by one NUL -/
def flat (keys : List Key) : List UInt8 := keys.flatMap (fun k => k ++ [0])

/-- where key `i` starts -/
def offOf (keys : List Key) (i : Nat) : Nat := (flat (keys.take i)).length

theorem flat_append (a b : List Key) : flat (a ++ b) = flat a ++ flat b := by simp [flat]

theorem flat_length (keys : List Key) : (flat keys).length = (keys.map (fun k => k.length + 1)).sum := by
  induction keys with
  | nil => rfl
  | cons k t ih =>
    have : flat (k :: t) = k ++ [0] ++ flat t := by simp [flat]
    rw [this]; simp [ih]; omega

theorem flat_split (keys : List Key) (i : Nat) (k : Key) (h : keys[i]? = some k) :
    flat keys = flat (keys.take i) ++ (k ++ ([0] ++ flat (keys.drop (i+1)))) := by
  have hil : i < keys.length := by
    apply Classical.byContradiction; intro hn; rw [List.getElem?_eq_none (by omega)] at h; cases h
  have hk : keys[i] = k := by simpa [hil] using h
  have h1 : keys = keys.take i ++ k :: keys.drop (i+1) := by
    rw [← hk, ← List.drop_eq_getElem_cons hil, List.take_append_drop]
  conv => lhs; rw [h1]
  rw [flat_append]
  simp [flat]

theorem offOf_succ (keys : List Key) (i : Nat) (k : Key) (h : keys[i]? = some k) :
    offOf keys (i+1) = offOf keys i + k.length + 1 := by
  unfold offOf
  rw [List.take_add_one, h, flat_append]
  simp [flat]; omega

theorem offOf_length (keys : List Key) : offOf keys keys.length = (flat keys).length := by
  unfold offOf; rw [List.take_length]

theorem offOf_append (keys more : List Key) (i : Nat) (h : i ≤ keys.length) : offOf (keys ++ more) i = offOf keys i := by
  unfold offOf; rw [List.take_append_of_le_length h]

theorem offOf_bound (keys : List Key) (i : Nat) (k : Key) (h : keys[i]? = some k) :
    offOf keys i + k.length + 1 ≤ (flat keys).length := by
  have := congrArg List.length (flat_split keys i k h)
  simp only [List.length_append, List.length_cons, List.length_nil] at this
  unfold offOf; omega

/-- the `k.length` bytes at `offOf keys i` are the key -/
theorem flat_slice (keys : List Key) (i : Nat) (k : Key) (h : keys[i]? = some k) :
    ((flat keys).drop (offOf keys i)).take k.length = k := by
  rw [flat_split keys i k h]
  unfold offOf
  rw [List.drop_left', List.take_left']
  · rfl
  · rfl

/-! ## the abstraction invariant of the repaired code -/
structure InvF (H : Key → Nat → Nat) (kh : KH) (keys : List Key) : Prop where
  nkeys : kh.nkeys = keys.length
  size_pos : 0 < kh.hashsize
  ko_size : kh.keyOffset.size = kh.kalloc
  nxt_size : kh.nxt.size = kh.kalloc
  kalloc_ge : kh.nkeys ≤ kh.kalloc
  kalloc_pos : 0 < kh.kalloc
  salloc_pos : 0 < kh.salloc
  sn_le : kh.smem.size ≤ kh.salloc
  arena : kh.smem.toList = flat keys
  off : ∀ i, i < keys.length → kh.keyOffset[i]? = some (offOf keys i)
  nodup : keys.Nodup
  linked : Linked H keys kh.hashsize kh.hashtable kh.nxt kh.nkeys

theorem InvF.sn_eq {H : Key → Nat → Nat} {kh : KH} {keys : List Key} (hi : InvF H kh keys) :
    kh.smem.size = (keys.map (fun k => k.length + 1)).sum := by
  rw [← flat_length, ← hi.arena]; simp

theorem invF_create (H : Key → Nat → Nat) (size kalloc salloc : Nat) (h1 : 0 < size) (h2 : 0 < kalloc) (h3 : 0 < salloc) :
    InvF H (create size kalloc salloc) [] where
  nkeys := rfl
  size_pos := h1
  ko_size := by simp [create]
  nxt_size := by simp [create]
  kalloc_ge := Nat.zero_le _
  kalloc_pos := h2
  salloc_pos := h3
  sn_le := by simp [create]
  arena := by simp [create, flat]
  off := by intro i h; simp at h
  nodup := List.nodup_nil
  linked := linked_empty H [] size _

/-- the facts about the arena and the offsets that `key_length` / `key_matches` / the re-hash use -/
structure ArenaOK (kh : KH) (keys : List Key) : Prop where
  nkeys : kh.nkeys = keys.length
  arena : kh.smem.toList = flat keys
  off : ∀ i, i < keys.length → kh.keyOffset[i]? = some (offOf keys i)

theorem InvF.arenaOK {H : Key → Nat → Nat} {kh : KH} {keys : List Key} (hi : InvF H kh keys) : ArenaOK kh keys :=
  ⟨hi.nkeys, hi.arena, hi.off⟩

theorem keyLen_inv {kh : KH} {keys : List Key} (hi : ArenaOK kh keys) (i : Nat) (k : Key)
    (h : keys[i]? = some k) : keyLen kh i = some (offOf keys i, (k.length : Int)) := by
  have hil : i < keys.length := by
    apply Classical.byContradiction; intro hn; rw [List.getElem?_eq_none (by omega)] at h; cases h
  have hs := offOf_succ keys i k h
  unfold keyLen
  rw [hi.off i hil]
  by_cases hn : i + 1 < kh.nkeys
  · have hn' : i + 1 < keys.length := by rw [← hi.nkeys]; exact hn
    simp only [hn, ↓reduceIte, hi.off (i+1) hn', hs]
    congr 2; omega
  · have he : i + 1 = keys.length := by rw [hi.nkeys] at hn; omega
    have hsz : kh.smem.size = offOf keys (i+1) := by
      rw [he, offOf_length, ← hi.arena]; simp
    simp only [hn, ↓reduceIte, hsz, hs]
    congr 2; omega

theorem slice_inv {kh : KH} {keys : List Key} (hi : ArenaOK kh keys) (i : Nat) (k : Key)
    (h : keys[i]? = some k) :
    offOf keys i + k.length ≤ kh.smem.size ∧ (kh.smem.extract (offOf keys i) (offOf keys i + k.length)).toList = k := by
  have hb := offOf_bound keys i k h
  have hsz : kh.smem.size = (flat keys).length := by rw [← hi.arena]; simp
  refine ⟨by omega, ?_⟩
  rw [Array.toList_extract, List.extract_eq_take_drop, hi.arena]
  have : offOf keys i + k.length - offOf keys i = k.length := by omega
  rw [this]
  exact flat_slice keys i k h

theorem keyMatches_inv {kh : KH} {keys : List Key} (hi : ArenaOK kh keys) (i : Nat) (k : Key)
    (h : keys[i]? = some k) (key : Key) : keyMatches kh i key = some (decide (key = k)) := by
  unfold keyMatches
  rw [keyLen_inv hi i k h]
  obtain ⟨hle, hsl⟩ := slice_inv hi i k h
  by_cases hlen : (k.length : Int) = (key.length : Int)
  · have hlen' : k.length = key.length := by omega
    simp only [hlen, ne_eq, not_true_eq_false, ↓reduceIte]
    by_cases hz : key.length = 0
    · have hk0 : key = [] := List.length_eq_zero_iff.mp hz
      have hk1 : k = [] := List.length_eq_zero_iff.mp (by omega)
      simp [hz, hk0, hk1]
    · rw [← hlen']
      simp only [show ¬ k.length = 0 by omega, ↓reduceIte, hle, hsl]
      congr 1
      by_cases he : key = k
      · subst he; simp
      · have : (k == key) = false := by simpa using fun h => he h.symm
        simp [this, he]
  · have hne : key ≠ k := by intro he; subst he; exact hlen rfl
    simp [hlen, hne]

theorem keyBytes_inv {kh : KH} {keys : List Key} (hi : ArenaOK kh keys) (i : Nat) (k : Key)
    (h : keys[i]? = some k) : keyBytes kh i = some k := by
  unfold keyBytes
  rw [keyLen_inv hi i k h]
  obtain ⟨hle, hsl⟩ := slice_inv hi i k h
  have h1 : ¬ ((k.length : Int) = -1) := by omega
  have h2 : ¬ ((k.length : Int) < 0) := by omega
  simp only [h1, h2, ↓reduceIte, Int.toNat_natCast, hle, hsl]

theorem getF_spec {H : Key → Nat → Nat} {kh : KH} {keys : List Key} (hi : InvF H kh keys) (i : Nat) :
    getF kh i = keys[i]? := by
  unfold getF
  by_cases h : i < kh.nkeys
  · have hl : i < keys.length := by rw [← hi.nkeys]; exact h
    have hk : keys[i]? = some keys[i] := by simp [hl]
    obtain ⟨hle, hsl⟩ := slice_inv hi.arenaOK i keys[i] hk
    rw [keyLen_inv hi.arenaOK i keys[i] hk]
    have h0 : (0 : Int) ≤ (keys[i].length : Int) := by omega
    simp only [h, ↓reduceIte, h0, Int.toNat_natCast, hle, and_self, hsl]
    simp [hl]
  · have hl : keys.length ≤ i := by rw [← hi.nkeys]; omega
    simp [h, List.getElem?_eq_none hl]

/-! ## chain walk -/
theorem walkF_none (kh : KH) (key : Key) (fuel : Nat) : walkF kh key fuel none = some none := by
  cases fuel <;> rfl

theorem walkF_chain (kh : KH) (keys : List Key) (key : Key) (hk : ArenaOK kh keys)
    {start : Option Nat} {b : Nat} {l : List Nat} (hc : Chain kh.nxt start b l) (hl : ∀ i ∈ l, i < keys.length)
    (fuel : Nat) (hf : l.length ≤ fuel) :
    walkF kh key fuel start = some (l.find? (fun i => decide (keys[i]? = some key))) := by
  induction hc generalizing fuel with
  | nil b => simp [walkF_none]
  | cons i b l nx hib hn _ ih =>
    cases fuel with
    | zero => simp at hf
    | succ f =>
      have hil : i < keys.length := hl i (by simp)
      have hm := keyMatches_inv hk i keys[i] (by simp [hil]) key
      simp only [walkF, hm]
      by_cases hkey : key = keys[i]
      · subst hkey
        simp [hil]
      · have hd : decide (key = keys[i]) = false := by simpa using hkey
        simp only [hd, hn]
        rw [ih (fun j hj => hl j (by simp [hj])) f (by simp at hf; omega)]
        have : decide (keys[i]? = some key) = false := by
          simp [hil]; exact fun h => hkey h.symm
        simp [List.find?_cons, this]

theorem walkF_inv {H : Key → Nat → Nat} {kh : KH} {keys : List Key} (hi : InvF H kh keys) (hH : HashOK H) (key : Key) :
    ∃ head, kh.hashtable[H key kh.hashsize]? = some head ∧
      walkF kh key kh.nkeys head = some (if key ∈ keys then some (keys.idxOf key) else none) := by
  obtain ⟨hd, l, h1, h2, h3⟩ := hi.linked.2 (H key kh.hashsize) (hH _ _ hi.size_pos)
  refine ⟨hd, h1, ?_⟩
  have hlt : ∀ i ∈ l, i < keys.length := fun i h => by have := h2.mem_lt i h; rw [hi.nkeys] at this; exact this
  rw [walkF_chain kh keys key hi.arenaOK h2 hlt kh.nkeys h2.length_le]
  rw [find_spec H keys key kh.hashsize l hi.nodup]
  intro j; rw [h3, hi.nkeys]

theorem lookupF_spec {H : Key → Nat → Nat} {kh : KH} {keys : List Key} (hi : InvF H kh keys) (hH : HashOK H) (key : Key) :
    lookupF H kh key = some (if key ∈ keys then (.ok, keys.idxOf key) else (.enotfound, 0)) := by
  obtain ⟨hd, h1, h2⟩ := walkF_inv hi hH key
  unfold lookupF
  simp only [h1, h2]
  by_cases hm : key ∈ keys <;> simp [hm]

/-! ## growth of the table -/
theorem rehashLoopF_spec (H : Key → Nat → Nat) (hH : HashOK H) (keys : List Key) (c i : Nat) (kh : KH)
    (hn : i + c = keys.length) (hpos : 0 < kh.hashsize) (hk : ArenaOK kh keys)
    (hnx : keys.length ≤ kh.nxt.size) (hl : Linked H keys kh.hashsize kh.hashtable kh.nxt i) :
    ∃ ht nx, rehashLoopF H c i kh = some { kh with hashtable := ht, nxt := nx } ∧ nx.size = kh.nxt.size ∧
      Linked H keys kh.hashsize ht nx (i + c) := by
  induction c generalizing i kh with
  | zero => exact ⟨kh.hashtable, kh.nxt, rfl, rfl, hl⟩
  | succ c ih =>
    have hil : i < keys.length := by omega
    have hb := keyBytes_inv hk i keys[i] (by simp [hil])
    have hv := hH keys[i] kh.hashsize hpos
    obtain ⟨head, _, hh, _, _⟩ := hl.2 _ hv
    have hin : i < kh.nxt.size := by omega
    have hstep : rehashStepF H kh i = some { kh with
        nxt := kh.nxt.set! i head, hashtable := kh.hashtable.set! (H keys[i] kh.hashsize) (some i) } := by
      simp [rehashStepF, hb, hh, hin]
    have hl' := linked_step hl keys[i] (by simp [hil]) head hh hin
    obtain ⟨ht, nx, h1, h2, h3⟩ := ih (i+1) { kh with
        nxt := kh.nxt.set! i head, hashtable := kh.hashtable.set! (H keys[i] kh.hashsize) (some i) }
      (by omega) hpos ⟨hk.nkeys, hk.arena, hk.off⟩ (by simpa using hnx) hl'
    refine ⟨ht, nx, ?_, by simpa using h2, ?_⟩
    · simp only [rehashLoopF, hstep]; exact h1
    · have : i + (c + 1) = i + 1 + c := by omega
      rw [this]; exact h3

theorem upsizeF_spec_full {H : Key → Nat → Nat} {kh : KH} {keys : List Key} (hi : InvF H kh keys) (hH : HashOK H) :
    ∃ kh', upsizeF H kh = some kh' ∧ InvF H kh' keys ∧ SameAlloc kh kh' := by
  unfold upsizeF
  by_cases hbig : kh.hashsize ≥ 2^28
  · exact ⟨kh, by simp [hbig], hi, rfl, rfl, rfl, rfl, Or.inl rfl⟩
  · simp only [hbig, ↓reduceIte]
    have hnk := hi.nkeys
    obtain ⟨ht, nx, h1, h2, h3⟩ := rehashLoopF_spec H hH keys kh.nkeys 0
      { kh with hashsize := kh.hashsize * 8, hashtable := Array.replicate (kh.hashsize * 8) none }
      (by omega) (by have := hi.size_pos; show 0 < kh.hashsize * 8; omega) ⟨hi.nkeys, hi.arena, hi.off⟩
      (by show keys.length ≤ kh.nxt.size; rw [hi.nxt_size, ← hi.nkeys]; exact hi.kalloc_ge)
      (linked_empty H keys _ _)
    refine ⟨_, h1, ?_, rfl, rfl, rfl, rfl, Or.inr ⟨by omega, rfl⟩⟩
    exact {
      nkeys := hi.nkeys
      size_pos := by have := hi.size_pos; show 0 < kh.hashsize * 8; omega
      ko_size := hi.ko_size
      nxt_size := by show nx.size = kh.kalloc; rw [h2]; exact hi.nxt_size
      kalloc_ge := hi.kalloc_ge
      kalloc_pos := hi.kalloc_pos
      salloc_pos := hi.salloc_pos
      sn_le := hi.sn_le
      arena := hi.arena
      off := hi.off
      nodup := hi.nodup
      linked := by simpa using h3 }

/-! ## Store -/
theorem storeF_new_unfold (H : Key → Nat → Nat) (kh : KH) (key : Key) (head : Option Nat)
    (hh : kh.hashtable[H key kh.hashsize]? = some head) (hw : walkF kh key kh.nkeys head = some none) :
    storeF H kh key =
      match growTo ((growK kh).smem.size + key.length + 1) ((growK kh).smem.size + key.length + 1) (growK kh).salloc with
      | none => none
      | some salloc =>
        if ¬ ((growK kh).nkeys < (growK kh).keyOffset.size ∧ (growK kh).nkeys < (growK kh).nxt.size ∧
              (growK kh).smem.size + key.length + 1 ≤ salloc) then none
        else
          if (linkNew (growK kh) key (H key kh.hashsize) head salloc).nkeys >
              3 * (linkNew (growK kh) key (H key kh.hashsize) head salloc).hashsize then
            match upsizeF H (linkNew (growK kh) key (H key kh.hashsize) head salloc) with
            | none => none
            | some kh' => some (kh', .ok, (growK kh).nkeys)
          else some (linkNew (growK kh) key (H key kh.hashsize) head salloc, .ok, (growK kh).nkeys) := by
  unfold storeF
  simp only [hh, hw]
  rfl

theorem growK_invF {H : Key → Nat → Nat} {kh : KH} {keys : List Key} (hi : InvF H kh keys) :
    InvF H (growK kh) keys ∧ (growK kh).nkeys < (growK kh).kalloc ∧ (growK kh).hashsize = kh.hashsize ∧
      (growK kh).hashtable = kh.hashtable ∧ (growK kh).nkeys = kh.nkeys := by
  unfold growK
  by_cases he : kh.nkeys = kh.kalloc
  · have e : (kh.nkeys == kh.kalloc) = true := by simpa using he
    rw [if_pos e]
    have hkp := hi.kalloc_pos
    refine ⟨?_, by show kh.nkeys < kh.kalloc * 2; omega, rfl, rfl, rfl⟩
    exact {
      nkeys := hi.nkeys
      size_pos := hi.size_pos
      ko_size := by show (kh.keyOffset ++ Array.replicate kh.kalloc 0).size = kh.kalloc * 2; simp [hi.ko_size]; omega
      nxt_size := by show (kh.nxt ++ Array.replicate kh.kalloc none).size = kh.kalloc * 2; simp [hi.nxt_size]; omega
      kalloc_ge := by show kh.nkeys ≤ kh.kalloc * 2; omega
      kalloc_pos := by show 0 < kh.kalloc * 2; omega
      salloc_pos := hi.salloc_pos
      sn_le := hi.sn_le
      arena := hi.arena
      off := by
        intro i hil
        have ho := hi.off i hil
        show (kh.keyOffset ++ Array.replicate kh.kalloc 0)[i]? = some (offOf keys i)
        have : i < kh.keyOffset.size := by rw [hi.ko_size]; have := hi.kalloc_ge; have := hi.nkeys; omega
        rw [Array.getElem?_append_left this]; exact ho
      nodup := hi.nodup
      linked := by
        obtain ⟨hsz, hb⟩ := hi.linked
        refine ⟨hsz, fun b hbs => ?_⟩
        obtain ⟨hd, l, h1, h2, h3⟩ := hb b hbs
        refine ⟨hd, l, h1, h2.congr (fun i hil => ?_), h3⟩
        show (kh.nxt ++ Array.replicate kh.kalloc none)[i]? = kh.nxt[i]?
        rw [Array.getElem?_append_left (by rw [hi.nxt_size]; have := hi.kalloc_ge; omega)] }
  · have e : (kh.nkeys == kh.kalloc) = false := by simpa using he
    rw [if_neg (by simp [e])]
    have := hi.kalloc_ge
    exact ⟨hi, by show kh.nkeys < kh.kalloc; omega, rfl, rfl, rfl⟩

theorem linkNew_invF {H : Key → Nat → Nat} {kh : KH} {keys : List Key} (hi : InvF H kh keys) (key : Key)
    (hlt : kh.nkeys < kh.kalloc) (hnew : key ∉ keys) (head : Option Nat)
    (hh : kh.hashtable[H key kh.hashsize]? = some head) (salloc : Nat) (hs : kh.smem.size + key.length + 1 ≤ salloc) :
    InvF H (linkNew kh key (H key kh.hashsize) head salloc) (keys ++ [key]) where
  nkeys := by show kh.nkeys + 1 = (keys ++ [key]).length; simp [hi.nkeys]
  size_pos := hi.size_pos
  ko_size := by show (kh.keyOffset.set! kh.nkeys kh.smem.size).size = kh.kalloc; simp [hi.ko_size]
  nxt_size := by show (kh.nxt.set! kh.nkeys head).size = kh.kalloc; simp [hi.nxt_size]
  kalloc_ge := by show kh.nkeys + 1 ≤ kh.kalloc; omega
  kalloc_pos := hi.kalloc_pos
  salloc_pos := by show 0 < salloc; omega
  sn_le := by show (kh.smem ++ key.toArray ++ #[0]).size ≤ salloc; simp; omega
  arena := by
    show (kh.smem ++ key.toArray ++ #[0]).toList = flat (keys ++ [key])
    rw [flat_append]; simp [hi.arena, flat]
  off := by
    intro i hil
    show (kh.keyOffset.set! kh.nkeys kh.smem.size)[i]? = some (offOf (keys ++ [key]) i)
    rw [Array.set!_eq_setIfInBounds, Array.getElem?_setIfInBounds]
    by_cases hi' : i < keys.length
    · have : kh.nkeys ≠ i := by rw [hi.nkeys]; omega
      rw [offOf_append keys [key] i (by omega)]
      simp [this, hi.off i hi']
    · have hie : i = keys.length := by simp at hil; omega
      subst hie
      have hsz : kh.smem.size = offOf (keys ++ [key]) keys.length := by
        rw [offOf_append keys [key] keys.length (Nat.le_refl _), offOf_length, ← hi.arena]; simp
      have hlt' : keys.length < kh.keyOffset.size := by rw [hi.ko_size, ← hi.nkeys]; exact hlt
      simp [hi.nkeys, hlt', hsz]
  nodup := by
    rw [List.nodup_append]
    refine ⟨hi.nodup, by simp, ?_⟩
    intro a ha b hb
    simp at hb; subst hb
    intro h; subst h; exact hnew ha
  linked := by
    show Linked H (keys ++ [key]) kh.hashsize (kh.hashtable.set! (H key kh.hashsize) (some kh.nkeys))
      (kh.nxt.set! kh.nkeys head) (kh.nkeys + 1)
    have hl := linked_keys_append hi.linked (by rw [hi.nkeys]; exact Nat.le_refl _) [key]
    exact linked_step hl key (by rw [hi.nkeys]; simp) head hh (by rw [hi.nxt_size]; exact hlt)

/-- repaired `Store` of ANY byte string: a known key is refused with its original index, a new key gets the next index -/
theorem storeF_spec_full {H : Key → Nat → Nat} {kh : KH} {keys : List Key} (hi : InvF H kh keys) (hH : HashOK H) (key : Key) :
    (key ∈ keys → storeF H kh key = some (kh, .edup, keys.idxOf key)) ∧
    (key ∉ keys → ∃ kh', storeF H kh key = some (kh', .ok, keys.length) ∧ InvF H kh' (keys ++ [key]) ∧ AllocStep kh kh' key) := by
  obtain ⟨head, hh, hw⟩ := walkF_inv hi hH key
  constructor
  · intro hm
    simp only [hm, ↓reduceIte] at hw
    unfold storeF
    simp only [hh, hw]
  · intro hm
    simp only [hm, ↓reduceIte] at hw
    rw [storeF_new_unfold H kh key head hh hw]
    obtain ⟨hi1, hlt, hsz, hht, hnk⟩ := growK_invF hi
    obtain ⟨salloc, hg, hneed, _⟩ := growTo_spec ((growK kh).smem.size + key.length + 1)
      ((growK kh).smem.size + key.length + 1) (growK kh).salloc hi1.salloc_pos (by omega)
    have hle := growTo_le _ _ _ _ hg
    obtain ⟨gf1, gf2, gf3⟩ := growK_fields kh
    rw [gf1, gf2] at hle
    have hka : (growK kh).kalloc = kh.kalloc ∨ (growK kh).kalloc = 2 * kh.nkeys := by
      rcases gf3 with h | ⟨h, _⟩
      · exact Or.inl h
      · exact Or.inr h
    simp only [hg]
    have hc : (growK kh).nkeys < (growK kh).keyOffset.size ∧ (growK kh).nkeys < (growK kh).nxt.size ∧
        (growK kh).smem.size + key.length + 1 ≤ salloc := by
      rw [hi1.ko_size, hi1.nxt_size]; exact ⟨hlt, hlt, hneed⟩
    simp only [hc, and_self, not_true_eq_false, ↓reduceIte]
    have hi2 := linkNew_invF hi1 key hlt hm head (by rw [hht, hsz]; exact hh) salloc hneed
    rw [hsz] at hi2
    have hidx : (growK kh).nkeys = keys.length := by rw [hnk]; exact hi.nkeys
    rw [hidx]
    split
    · obtain ⟨kh', hu, hi3, a1, a2, _, _, a5⟩ := upsizeF_spec_full hi2 hH
      refine ⟨kh', by simp only [hu], hi3, ?_, ?_, ?_⟩
      · rw [a1]; exact hle
      · rw [a2]; exact hka
      · rcases a5 with h | ⟨h1, h2⟩
        · left; rw [h]; exact hsz
        · right; exact ⟨by rw [← hsz]; exact h1, by rw [h2]; congr 1⟩
    · exact ⟨_, rfl, hi2, hle, hka, Or.inl hsz⟩

/-! ## Reuse, Clone -/
theorem reuse_invF {H : Key → Nat → Nat} {kh : KH} {keys : List Key} (hi : InvF H kh keys) : InvF H (reuse kh) [] where
  nkeys := rfl
  size_pos := hi.size_pos
  ko_size := hi.ko_size
  nxt_size := hi.nxt_size
  kalloc_ge := Nat.zero_le _
  kalloc_pos := hi.kalloc_pos
  salloc_pos := hi.salloc_pos
  sn_le := by show (#[] : Array UInt8).size ≤ kh.salloc; simp
  arena := by show (#[] : Array UInt8).toList = _; simp [flat]
  off := by intro i h; simp at h
  nodup := List.nodup_nil
  linked := linked_empty H [] _ _

theorem clone_invF {H : Key → Nat → Nat} {kh : KH} {keys : List Key} (hi : InvF H kh keys) : InvF H (clone kh) keys where
  nkeys := hi.nkeys
  size_pos := hi.size_pos
  ko_size := by
    show ((kh.keyOffset.extract 0 kh.nkeys) ++ ((Array.replicate kh.kalloc 0).extract kh.nkeys (Array.replicate kh.kalloc 0).size)).size = kh.kalloc
    have := hi.kalloc_ge; have := hi.ko_size
    simp; omega
  nxt_size := by
    show ((kh.nxt.extract 0 kh.nkeys) ++ ((Array.replicate kh.kalloc none).extract kh.nkeys (Array.replicate kh.kalloc none).size)).size = kh.kalloc
    have := hi.kalloc_ge; have := hi.nxt_size
    simp; omega
  kalloc_ge := hi.kalloc_ge
  kalloc_pos := hi.kalloc_pos
  salloc_pos := hi.salloc_pos
  sn_le := hi.sn_le
  arena := hi.arena
  off := by
    intro i hil
    have ho := hi.off i hil
    show ((kh.keyOffset.extract 0 kh.nkeys) ++ _)[i]? = some (offOf keys i)
    have hil' : i < kh.nkeys := by rw [hi.nkeys]; exact hil
    have := hi.kalloc_ge; have := hi.ko_size
    rw [Array.getElem?_append_left (by simp; omega), Array.getElem?_extract]
    simp [ho]; omega
  nodup := hi.nodup
  linked := by
    obtain ⟨hsz, hb⟩ := hi.linked
    refine ⟨hsz, fun b hbs => ?_⟩
    obtain ⟨hd, l, h1, h2, h3⟩ := hb b hbs
    refine ⟨hd, l, h1, h2.congr (fun i hil => ?_), h3⟩
    show ((kh.nxt.extract 0 kh.nkeys) ++ _)[i]? = kh.nxt[i]?
    have := hi.kalloc_ge; have := hi.nxt_size
    rw [Array.getElem?_append_left (by simp; omega), Array.getElem?_extract]
    simp; omega

/-! ## histories: no hypothesis on the key bytes -/
theorem stepF_spec {H : Key → Nat → Nat} {kh : KH} {keys : List Key} (hi : InvF H kh keys) (hH : HashOK H) (op : Op) :
    match specStep keys op with
    | none => stepF H kh op = none
    | some (keys', o) => ∃ kh', stepF H kh op = some (kh', o) ∧ InvF H kh' keys' := by
  cases op with
  | store k =>
    obtain ⟨h1, h2⟩ := storeF_spec_full hi hH k
    by_cases hm : k ∈ keys
    · simp only [specStep, hm, ↓reduceIte]
      exact ⟨kh, by simp [stepF, h1 hm], hi⟩
    · simp only [specStep, hm, ↓reduceIte]
      obtain ⟨kh', h3, h4, _⟩ := h2 hm
      exact ⟨kh', by simp [stepF, h3], h4⟩
  | lookup k =>
    have h1 := lookupF_spec hi hH k
    by_cases hm : k ∈ keys
    · simp only [specStep, hm, ↓reduceIte]
      exact ⟨kh, by simp [stepF, h1, hm], hi⟩
    · simp only [specStep, hm, ↓reduceIte]
      exact ⟨kh, by simp [stepF, h1, hm], hi⟩
  | get i =>
    have h1 := getF_spec hi i
    cases hk : keys[i]? with
    | none => simp [specStep, stepF, hk, h1]
    | some k => simp only [specStep, hk, Option.map_some]; exact ⟨kh, by simp [stepF, h1, hk], hi⟩
  | number => exact ⟨kh, by simp [stepF, hi.nkeys], hi⟩
  | reuse => exact ⟨reuse kh, rfl, reuse_invF hi⟩
  | clone => exact ⟨clone kh, rfl, clone_invF hi⟩
  | storeStr k =>
    obtain ⟨h1, h2⟩ := storeF_spec_full hi hH (cstrOf k)
    by_cases hm : cstrOf k ∈ keys
    · simp only [specStep, hm, ↓reduceIte]
      exact ⟨kh, by simp [stepF, h1 hm], hi⟩
    · simp only [specStep, hm, ↓reduceIte]
      obtain ⟨kh', h3, h4, _⟩ := h2 hm
      exact ⟨kh', by simp [stepF, h3], h4⟩
  | lookupStr k =>
    have h1 := lookupF_spec hi hH (cstrOf k)
    by_cases hm : cstrOf k ∈ keys
    · simp only [specStep, hm, ↓reduceIte]
      exact ⟨kh, by simp [stepF, h1, hm], hi⟩
    · simp only [specStep, hm, ↓reduceIte]
      exact ⟨kh, by simp [stepF, h1, hm], hi⟩

theorem runF_spec {H : Key → Nat → Nat} (hH : HashOK H) (ops : List Op) (kh : KH) (keys : List Key) (hi : InvF H kh keys) :
    runF H kh ops = specRun keys ops := by
  induction ops generalizing kh keys with
  | nil => rfl
  | cons op rest ih =>
    have hs := stepF_spec hi hH op
    simp only [runF, specRun]
    cases hsp : specStep keys op with
    | none => simp only [hsp] at hs; simp [hs]
    | some r =>
      obtain ⟨keys', o⟩ := r
      simp only [hsp] at hs
      obtain ⟨kh', h1, h2⟩ := hs
      simp only [h1]
      rw [ih kh' keys' h2]

theorem upsizeF_spec {H : Key → Nat → Nat} {kh : KH} {keys : List Key} (hi : InvF H kh keys) (hH : HashOK H) :
    ∃ kh', upsizeF H kh = some kh' ∧ InvF H kh' keys := by
  obtain ⟨kh', h1, h2, _⟩ := upsizeF_spec_full hi hH
  exact ⟨kh', h1, h2⟩

/-! ## the `n = -1` calls -/
theorem lookupStrCF_eq (H Hs : Key → Nat → Nat) (hs : ∀ k sz, Hs k sz = H (cstrOf k) sz) (kh : KH) (k : Key) :
    lookupStrCF Hs kh k = lookupF H kh (cstrOf k) := by
  unfold lookupStrCF lookupF
  simp only [hs, take_strlen]

theorem storeStrCF_eq (H Hs : Key → Nat → Nat) (hs : ∀ k sz, Hs k sz = H (cstrOf k) sz) (kh : KH) (k : Key) :
    storeStrCF Hs H kh k = storeF H kh (cstrOf k) := by
  unfold storeStrCF
  rw [take_strlen]
  congr 1
  funext k' sz
  split
  · next h => rw [hs, h.1]
  · rfl

/-! ## the observers -/
theorem dumpLoop_isSomeF {H : Key → Nat → Nat} {kh : KH} {keys : List Key} (hi : InvF H kh keys) (c h nempty : Nat) (mx mn : Int)
    (hc : h + c ≤ kh.hashsize) : (dumpLoop kh c h nempty mx mn).isSome = true := by
  induction c generalizing h nempty mx mn with
  | zero => rfl
  | succ c ih =>
    obtain ⟨hd, l, h1, h2, _⟩ := hi.linked.2 h (by omega)
    simp only [dumpLoop, h1, chainLen_chain kh h2 kh.nkeys h2.length_le]
    exact ih _ _ _ _ (by omega)

theorem dumpF_spec {H : Key → Nat → Nat} {kh : KH} {keys : List Key} (hi : InvF H kh keys) :
    ∃ d, dump kh = some d ∧ d.nkeys = keys.length ∧ d.hashsize = kh.hashsize ∧ d.sn = (keys.map (fun k => k.length + 1)).sum := by
  unfold dump
  have := dumpLoop_isSomeF hi kh.hashsize 0 0 (-1) 2147483647 (by omega)
  cases hd : dumpLoop kh kh.hashsize 0 0 (-1) 2147483647 with
  | none => rw [hd] at this; cases this
  | some r =>
    obtain ⟨a, b, c⟩ := r
    exact ⟨_, rfl, hi.nkeys, rfl, hi.sn_eq⟩

/-! ## the C `int` / `uint32_t` fields stay in range (as `KeyhashBounds`, for the repaired code, no hypothesis on key bytes) -/
theorem invF_counts_fit {H : Key → Nat → Nat} {kh : KH} {keys : List Key} (hi : InvF H kh keys) (hf : Fits keys) :
    kh.nkeys ≤ B30 ∧ kh.smem.size ≤ B30 := by
  rw [hi.nkeys, hi.sn_eq]; exact hf

theorem storeF_within {H : Key → Nat → Nat} {kh : KH} {keys : List Key} (hi : InvF H kh keys) (hH : HashOK H) (key : Key)
    (hw : Within kh) (hm : key ∉ keys) (hf' : Fits (keys ++ [key])) :
    ∃ kh', storeF H kh key = some (kh', .ok, keys.length) ∧ InvF H kh' (keys ++ [key]) ∧ Within kh' := by
  obtain ⟨kh', h1, h2, a1, a2, a3⟩ := (storeF_spec_full hi hH key).2 hm
  refine ⟨kh', h1, h2, ?_, ?_, ?_⟩
  · rcases a1 with h | h
    · rw [h]; exact hw.1
    · have hs := hf'.2
      simp only [List.map_append, List.sum_append, List.map_cons, List.map_nil, List.sum_cons, List.sum_nil] at hs
      rw [hi.sn_eq] at h
      simp only [B30] at hs; simp only [M31]; omega
  · rcases a2 with h | h
    · rw [h]; exact hw.2.1
    · have hl := hf'.1
      simp only [List.length_append, List.length_cons, List.length_nil] at hl
      rw [h, hi.nkeys]; simp only [B30] at hl; simp only [M31]; omega
  · rcases a3 with h | ⟨h, h'⟩
    · rw [h]; exact hw.2.2
    · rw [h']; simp only [M31]; omega

theorem stepF_within {H : Key → Nat → Nat} {kh : KH} {keys : List Key} (hi : InvF H kh keys) (hH : HashOK H) (op : Op)
    (hw : Within kh) :
    match specStep keys op with
    | none => stepF H kh op = none
    | some (keys', o) => Fits keys' → ∃ kh', stepF H kh op = some (kh', o) ∧ InvF H kh' keys' ∧ Within kh' := by
  cases op with
  | store k =>
    by_cases hm : k ∈ keys
    · simp only [specStep, hm, ↓reduceIte]
      intro _
      exact ⟨kh, by simp [stepF, (storeF_spec_full hi hH k).1 hm], hi, hw⟩
    · simp only [specStep, hm, ↓reduceIte]
      intro hf
      obtain ⟨kh', h3, h4, h5⟩ := storeF_within hi hH k hw hm hf
      exact ⟨kh', by simp [stepF, h3], h4, h5⟩
  | storeStr k =>
    by_cases hm : cstrOf k ∈ keys
    · simp only [specStep, hm, ↓reduceIte]
      intro _
      exact ⟨kh, by simp [stepF, (storeF_spec_full hi hH (cstrOf k)).1 hm], hi, hw⟩
    · simp only [specStep, hm, ↓reduceIte]
      intro hf
      obtain ⟨kh', h3, h4, h5⟩ := storeF_within hi hH (cstrOf k) hw hm hf
      exact ⟨kh', by simp [stepF, h3], h4, h5⟩
  | lookup k =>
    have h1 := lookupF_spec hi hH k
    by_cases hm : k ∈ keys <;> simp only [specStep, hm, ↓reduceIte] <;> intro _ <;>
      exact ⟨kh, by simp [stepF, h1, hm], hi, hw⟩
  | lookupStr k =>
    have h1 := lookupF_spec hi hH (cstrOf k)
    by_cases hm : cstrOf k ∈ keys <;> simp only [specStep, hm, ↓reduceIte] <;> intro _ <;>
      exact ⟨kh, by simp [stepF, h1, hm], hi, hw⟩
  | get i =>
    have h1 := getF_spec hi i
    cases hk : keys[i]? with
    | none => simp [specStep, stepF, hk, h1]
    | some k => simp only [specStep, hk, Option.map_some]; intro _; exact ⟨kh, by simp [stepF, h1, hk], hi, hw⟩
  | number => intro _; exact ⟨kh, by simp [stepF, hi.nkeys], hi, hw⟩
  | reuse => intro _; exact ⟨reuse kh, rfl, reuse_invF hi, hw⟩
  | clone => intro _; exact ⟨clone kh, rfl, clone_invF hi, hw⟩

theorem runF_within {H : Key → Nat → Nat} (hH : HashOK H) (ops : List Op) (kh : KH) (keys : List Key) (hi : InvF H kh keys)
    (hw : Within kh) (hf : FitsRun keys ops) (kh' : KH) (h : finalKhF H kh ops = some kh') :
    Within kh' ∧ kh'.nkeys ≤ B30 ∧ kh'.smem.size ≤ B30 := by
  induction ops generalizing kh keys with
  | nil =>
    simp only [finalKhF, Option.some.injEq] at h; subst h
    exact ⟨hw, invF_counts_fit hi hf⟩
  | cons op rest ih =>
    have hs := stepF_within hi hH op hw
    obtain ⟨_, hf2⟩ := hf
    cases hsp : specStep keys op with
    | none =>
      simp only [hsp] at hs
      simp [finalKhF, hs] at h
    | some r =>
      obtain ⟨keys', o⟩ := r
      simp only [hsp] at hs hf2
      have hfk : Fits keys' := by
        cases rest with
        | nil => exact hf2
        | cons _ _ => exact hf2.1
      obtain ⟨kh1, h1, h2, h3⟩ := hs hfk
      simp only [finalKhF, h1] at h
      exact ih kh1 keys' h2 h3 hf2 h

/-! ## `esl_keyhash_Get` read as a C string (what a caller without the length sees): the bytes of the key before its first
NUL; the read never leaves the key's own `length + 1` bytes of the arena -/
theorem cstrLoop_prefix (m : Array UInt8) (pos : Nat) (k rest : List UInt8) (f : Nat)
    (hm : m.toList.drop pos = k ++ 0 :: rest) (hf : k.length < f) : cstrLoop m f pos = some (cstrOf k) := by
  induction k generalizing pos f with
  | nil =>
    cases f with
    | zero => simp at hf
    | succ f =>
      have h0 : m[pos]? = some 0 := by
        have := congrArg (fun l => l[0]?) hm
        simpa [List.getElem?_drop] using this
      simp [cstrLoop, h0, cstrOf]
  | cons a k ih =>
    cases f with
    | zero => simp at hf
    | succ f =>
      have h0 : m[pos]? = some a := by
        have := congrArg (fun l => l[0]?) hm
        simpa [List.getElem?_drop] using this
      have hm' : m.toList.drop (pos + 1) = k ++ 0 :: rest := by
        have := congrArg (fun l => l.drop 1) hm
        simpa [List.drop_drop, Nat.add_comm] using this
      simp only [cstrLoop, h0]
      by_cases ha : a = 0
      · subst ha; simp [cstrOf]
      · have : (a == 0) = false := by simpa using ha
        simp only [this, Bool.false_eq_true, ↓reduceIte]
        rw [ih (pos+1) f hm' (by simp at hf; omega)]
        simp [cstrOf, ha]

theorem get_cstr_spec {H : Key → Nat → Nat} {kh : KH} {keys : List Key} (hi : InvF H kh keys) (i : Nat) :
    get kh i = (keys[i]?).map cstrOf := by
  unfold get
  by_cases h : i < kh.nkeys
  · have hl : i < keys.length := by rw [← hi.nkeys]; exact h
    have hk : keys[i]? = some keys[i] := by simp [hl]
    have hb := offOf_bound keys i keys[i] hk
    have hsz : kh.smem.size = (flat keys).length := by rw [← hi.arena]; simp
    have hm : kh.smem.toList.drop (offOf keys i) = keys[i] ++ 0 :: flat (keys.drop (i+1)) := by
      rw [hi.arena, flat_split keys i keys[i] hk]
      unfold offOf
      rw [List.drop_left']
      · rfl
      · rfl
    simp only [h, ↓reduceIte, hi.off i hl, cstrAt]
    rw [cstrLoop_prefix kh.smem (offOf keys i) keys[i] _ _ hm (by omega)]
    simp [hl]
  · have hl : keys.length ≤ i := by rw [← hi.nkeys]; omega
    simp [h, List.getElem?_eq_none hl]

end EaselModel.Containers.Keyhash
