import EaselModel.Containers.KeyhashLemmas
/-! # The C `int` / `uint32_t` fields of ESL_KEYHASH stay in range

The model computes in `Nat`; the C code keeps `nkeys`, `kalloc`, `salloc`, `sn` in `int` and `hashsize` in `uint32_t`.
This file discharges the "no overflow" assumption to an explicit hypothesis on the ABSTRACT content: as long as the table
never holds more than `2^30 - 1` keys nor more than `2^30 - 1` arena bytes (Σ (length + 1)), every field stays `≤ 2^31 - 1`
(so `kalloc *= 2`, `salloc *= 2`, `sn += n+1`, `hashsize << 3`, `3*hashsize` never overflow), for every history. -/
namespace EaselModel.Containers.Keyhash

def B30 : Nat := 2^30 - 1
def M31 : Nat := 2^31 - 1

/-- the abstract content fits: at most `2^30-1` keys and at most `2^30-1` arena bytes -/
def Fits (keys : List Key) : Prop := keys.length ≤ B30 ∧ (keys.map (fun k => k.length + 1)).sum ≤ B30

/-- every abstract state along the history fits -/
def FitsRun : List Key → List Op → Prop
  | keys, [] => Fits keys
  | keys, op :: rest =>
    Fits keys ∧ (match specStep keys op with | none => True | some (keys', _) => FitsRun keys' rest)

/-- the allocation and table-size fields are representable -/
def Within (kh : KH) : Prop := kh.salloc ≤ M31 ∧ kh.kalloc ≤ M31 ∧ kh.hashsize ≤ M31

/-- state after a history (`none` = fault) -/
def finalKh (H : Key → Nat → Nat) : KH → List Op → Option KH
  | kh, [] => some kh
  | kh, op :: rest => match step H kh op with | none => none | some (kh', _) => finalKh H kh' rest

theorem inv_counts_fit {H : Key → Nat → Nat} {kh : KH} {keys : List Key} (hi : Inv H kh keys) (hf : Fits keys) :
    kh.nkeys ≤ B30 ∧ kh.smem.size ≤ B30 := by
  rw [hi.nkeys, hi.sn_eq]; exact hf

theorem store_within {H : Key → Nat → Nat} {kh : KH} {keys : List Key} (hi : Inv H kh keys) (hH : HashOK H) (key : Key)
    (h0 : (0 : UInt8) ∉ key) (hw : Within kh) (hm : key ∉ keys) (hf' : Fits (keys ++ [key])) :
    ∃ kh', store H kh key = some (kh', .ok, keys.length) ∧ Inv H kh' (keys ++ [key]) ∧ Within kh' := by
  obtain ⟨kh', h1, h2, a1, a2, a3⟩ := (store_spec_full hi hH key h0).2 hm
  refine ⟨kh', h1, h2, ?_, ?_, ?_⟩
  · rcases a1 with h | h
    · rw [h]; exact hw.1
    · have hs := hf'.2
      simp only [List.map_append, List.sum_append, List.map_cons, List.map_nil, List.sum_cons, List.sum_nil] at hs
      rw [hi.sn_eq] at h
      simp only [B30] at hs; simp only [M31]; omega
  · rcases a2 with h | h
    · rw [h]; exact hw.2.1
    · have hl := hf'.1
      simp only [List.length_append, List.length_cons, List.length_nil] at hl
      rw [h, hi.nkeys]; simp only [B30] at hl; simp only [M31]; omega
  · rcases a3 with h | ⟨h, h'⟩
    · rw [h]; exact hw.2.2
    · rw [h']; simp only [M31]; omega

theorem step_within {H : Key → Nat → Nat} {kh : KH} {keys : List Key} (hi : Inv H kh keys) (hH : HashOK H) (op : Op)
    (hop : op.NulFree) (hw : Within kh) :
    match specStep keys op with
    | none => step H kh op = none
    | some (keys', o) => Fits keys' → ∃ kh', step H kh op = some (kh', o) ∧ Inv H kh' keys' ∧ Within kh' := by
  cases op with
  | store k =>
    by_cases hm : k ∈ keys
    · simp only [specStep, hm, ↓reduceIte]
      intro _
      exact ⟨kh, by simp [step, (store_spec hi hH k hop).1 hm], hi, hw⟩
    · simp only [specStep, hm, ↓reduceIte]
      intro hf
      obtain ⟨kh', h3, h4, h5⟩ := store_within hi hH k hop hw hm hf
      exact ⟨kh', by simp [step, h3], h4, h5⟩
  | storeStr k =>
    by_cases hm : cstrOf k ∈ keys
    · simp only [specStep, hm, ↓reduceIte]
      intro _
      exact ⟨kh, by simp [step, (store_spec hi hH (cstrOf k) (cstrOf_nulfree k)).1 hm], hi, hw⟩
    · simp only [specStep, hm, ↓reduceIte]
      intro hf
      obtain ⟨kh', h3, h4, h5⟩ := store_within hi hH (cstrOf k) (cstrOf_nulfree k) hw hm hf
      exact ⟨kh', by simp [step, h3], h4, h5⟩
  | lookup k =>
    have h1 := lookup_spec hi hH k
    by_cases hm : k ∈ keys <;> simp only [specStep, hm, ↓reduceIte] <;> intro _ <;>
      exact ⟨kh, by simp [step, h1, hm], hi, hw⟩
  | lookupStr k =>
    have h1 := lookup_spec hi hH (cstrOf k)
    by_cases hm : cstrOf k ∈ keys <;> simp only [specStep, hm, ↓reduceIte] <;> intro _ <;>
      exact ⟨kh, by simp [step, h1, hm], hi, hw⟩
  | get i =>
    have h1 := get_spec hi i
    cases hk : keys[i]? with
    | none => simp [specStep, step, hk, h1]
    | some k => simp only [specStep, hk, Option.map_some]; intro _; exact ⟨kh, by simp [step, h1, hk], hi, hw⟩
  | number => intro _; exact ⟨kh, by simp [step, hi.nkeys], hi, hw⟩
  | reuse => intro _; exact ⟨reuse kh, rfl, reuse_inv hi, hw⟩
  | clone => intro _; exact ⟨clone kh, rfl, clone_inv hi, hw⟩

/-- for every history whose abstract content always fits, every reachable state keeps all fields representable -/
theorem run_within {H : Key → Nat → Nat} (hH : HashOK H) (ops : List Op) (kh : KH) (keys : List Key) (hi : Inv H kh keys)
    (hops : ∀ op ∈ ops, op.NulFree) (hw : Within kh) (hf : FitsRun keys ops) (kh' : KH) (h : finalKh H kh ops = some kh') :
    Within kh' ∧ kh'.nkeys ≤ B30 ∧ kh'.smem.size ≤ B30 := by
  induction ops generalizing kh keys with
  | nil =>
    simp only [finalKh, Option.some.injEq] at h; subst h
    exact ⟨hw, inv_counts_fit hi hf⟩
  | cons op rest ih =>
    have hs := step_within hi hH op (hops op (by simp)) hw
    obtain ⟨_, hf2⟩ := hf
    cases hsp : specStep keys op with
    | none =>
      simp only [hsp] at hs
      simp [finalKh, hs] at h
    | some r =>
      obtain ⟨keys', o⟩ := r
      simp only [hsp] at hs hf2
      have hfk : Fits keys' := by
        cases rest with
        | nil => exact hf2
        | cons _ _ => exact hf2.1
      obtain ⟨kh1, h1, h2, h3⟩ := hs hfk
      simp only [finalKh, h1] at h
      exact ih kh1 keys' h2 (fun op h => hops op (by simp [h])) h3 hf2 h

end EaselModel.Containers.Keyhash
