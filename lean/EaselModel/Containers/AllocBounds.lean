import EaselModel.Containers.StackLemmas
import EaselModel.Containers.HeapLemmas
/-! # `nalloc` of stacks and heaps stays representable: it is the initial 128 or at most twice the largest element count -/
namespace EaselModel.Containers

theorem Stack.push_nalloc_le {α : Type} (s s' : Stack.Stack α) (x : α) (B : Nat) (h : Stack.push s x = some s')
    (hs : s.data.size ≤ B) (hn : s.nalloc ≤ max 128 (2 * B)) : s'.nalloc ≤ max 128 (2 * B) := by
  unfold Stack.push at h
  by_cases he : s.data.size = s.nalloc
  · have e : (s.data.size == s.nalloc) = true := by simpa using he
    simp only [e, ↓reduceIte] at h
    split at h
    · cases h; show s.nalloc + s.nalloc ≤ _; omega
    · cases h
  · have e : (s.data.size == s.nalloc) = false := by simpa using he
    simp only [e, Bool.false_eq_true, ↓reduceIte] at h
    split at h
    · cases h; exact hn
    · cases h

theorem Heap.insert_nalloc_le (h h' : Heap.Heap) (v : Int) (B : Nat) (hi : Heap.insert h v = some h')
    (hs : h.data.size ≤ B) (hn : h.nalloc ≤ max 128 (2 * B)) : h'.nalloc ≤ max 128 (2 * B) := by
  obtain ⟨d', hd⟩ : ∃ d', h' = { h with data := d', nalloc := if h.data.size == h.nalloc then h.nalloc * 2 else h.nalloc } := by
    unfold Heap.insert at hi
    simp only at hi
    by_cases hgt : h.data.size + 1 > (if h.data.size == h.nalloc then h.nalloc * 2 else h.nalloc)
    · rw [if_pos hgt] at hi; cases hi
    · rw [if_neg hgt] at hi
      cases hsu : Heap.siftUp h.isMax v ((h.data.push v).size + 1) (h.data.push v) ((h.data.push v).size - 1) with
      | none => rw [hsu] at hi; cases hi
      | some d' => rw [hsu] at hi; exact ⟨d', (Option.some.inj hi).symm⟩
  subst hd
  show (if (h.data.size == h.nalloc) = true then h.nalloc * 2 else h.nalloc) ≤ _
  by_cases he : h.data.size = h.nalloc
  · have e : (h.data.size == h.nalloc) = true := by simpa using he
    simp only [e, ↓reduceIte]; omega
  · have e : (h.data.size == h.nalloc) = false := by simpa using he
    simp only [e, Bool.false_eq_true, ↓reduceIte]; exact hn

end EaselModel.Containers
