import EaselModel.Containers.RedBlackPtrRotate
/-! # The pointer-level `esl_red_black_doublekey_insert` (descent, linking, `rebalance` with its recursion up the `parent`
pointers, recolouring, the four rotations) refines `RedBlack.Tree.insert` on the inductive tree — for every tree laid out
in the store, every key, every path into `rebalance`. -/
namespace EaselModel.Containers.RedBlackPtr
open EaselModel.Containers.RedBlack

/-- what `insert` / the recolouring branch of `rebalance` do once record `g` is red and linked: nothing above it (`g` is the
    root: colour it black), a black parent (done), or a red parent (`rebalance(tree, g)`) -/
def fixup (fuel : Nat) (st : Store) (tree g : Nat) : Option (Store × Nat) :=
  match rd st g with
  | none => none
  | some gn =>
    match gn.parent with
    | none => (wr st g (fun nd => { nd with color := .black })).map fun st => (st, tree)
    | some gg =>
      match rd st gg with
      | none => none
      | some ggn => if ggn.color = .red then rebalance fuel st tree g else some (st, tree)

/-- how `insert` turns the result of the unwinding into the new tree -/
def finish : Res Int → Option (Tree Int)
  | .done t => some t
  | .check t => some (t.setColor .black)
  | _ => none

/-- the recolouring branch (red uncle): parent and uncle black, grandparent red, then go on from the grandparent -/
theorem recolour {st : Store} {fuel tree n p g u : Nat} {nn pn gn un : Node}
    (hn : rd st n = some nn) (hp : rd st p = some pn) (hg : rd st g = some gn) (hu : rd st u = some un)
    (hnpar : nn.parent = some p) (hppar : pn.parent = some g)
    (hunc : (if gn.large = some p then gn.small else gn.large) = some u) (hured : un.color = .red)
    (hpu : p ≠ u) (hpg : p ≠ g) (hug : u ≠ g) :
    ∃ st3, rebalance (fuel+1) st tree n = fixup fuel st3 tree g ∧
      ∀ j, rd st3 j = if j = g then some { gn with color := .red } else if j = u then some { un with color := .black }
        else if j = p then some { pn with color := .black } else rd st j := by
  obtain ⟨s1, w1, R1⟩ := wr_ex (st := st) (i := p) (fun nd => { nd with color := .black }) (by simp [hp])
  obtain ⟨s2, w2, R2⟩ := wr_ex (st := s1) (i := u) (fun nd => { nd with color := .black }) (by
    simp [R1, Ne.symm hpu, hu])
  obtain ⟨s3, w3, R3⟩ := wr_ex (st := s2) (i := g) (fun nd => { nd with color := .red }) (by
    simp [R2, R1, Ne.symm hug, Ne.symm hpg, hg])
  have F : ∀ j, rd s3 j = if j = g then some { gn with color := .red } else if j = u then some { un with color := .black }
        else if j = p then some { pn with color := .black } else rd st j := by
    intro j
    by_cases h1 : j = g
    · subst h1; simp [R3, R2, R1, Ne.symm hug, Ne.symm hpg, hg]
    · by_cases h2 : j = u
      · subst h2; simp [R3, R2, R1, h1, Ne.symm hpu, hu]
      · by_cases h3 : j = p
        · subst h3; simp [R3, R2, R1, h1, h2, hp]
        · simp [R3, R2, R1, h1, h2, h3]
  refine ⟨s3, ?_, F⟩
  have Fg : rd s3 g = some { gn with color := .red } := by rw [F]; simp
  simp only [rebalance, hn, hnpar, hp, hppar, hg, hunc, hu, Option.map_some, hured, w1, w2, w3, fixup, Fg]
  rcases hgp : gn.parent with _ | gg
  · rfl
  · simp only
    cases rd s3 gg <;> rfl

/-- records whose pointers are unchanged lay out the same shapes -/
theorem ReprP.congr_ptr {st st' : Store} : ∀ {t : Shape} {p par : Ptr},
    (∀ i ∈ t.ids, ∀ nd, rd st i = some nd → ∃ nd', rd st' i = some nd' ∧ nd'.parent = nd.parent ∧ nd'.small = nd.small ∧
      nd'.large = nd.large) → ReprP st t p par → ReprP st' t p par
  | .nil, _, _, _, h => h
  | .node a i b, _, _, hc, ⟨hp, nd, hr, hpar, ha, hb⟩ => by
    obtain ⟨nd', hr', e1, e2, e3⟩ := hc i (by simp [Shape.ids]) nd hr
    refine ⟨hp, nd', hr', e1 ▸ hpar, ?_, ?_⟩
    · rw [e2]; exact ReprP.congr_ptr (fun j hj => hc j (by simp [Shape.ids, hj])) ha
    · rw [e3]; exact ReprP.congr_ptr (fun j hj => hc j (by simp [Shape.ids, hj])) hb

/-- recolouring the root record of a laid-out subtree recolours the root of the abstract tree -/
theorem absTree_recolour_root {st st' : Store} {x : Shape} {i : Nat} {y : Shape} {nd : Node} {c : Color}
    (hr : rd st i = some nd) (hr' : rd st' i = some { nd with color := c })
    (hx : ∀ j ∈ x.ids, rd st' j = rd st j) (hy : ∀ j ∈ y.ids, rd st' j = rd st j) :
    absTree st' (.node x i y) = (absTree st (.node x i y)).setColor c := by
  simp only [absTree, hr, hr', absTree_congr hx, absTree_congr hy, Tree.setColor]


namespace Frame
/-- the child pointer of the frame's record on the hole's side / on the sibling's side -/
def hole : Frame → Node → Ptr
  | L _ _, nd => nd.small
  | R _ _, nd => nd.large
def sibPtr : Frame → Node → Ptr
  | L _ _, nd => nd.large
  | R _ _, nd => nd.small
/-- the frame's record with a new pointer on the hole's side -/
def setHole : Frame → Node → Ptr → Node
  | L _ _, nd, q => { nd with small := q }
  | R _ _, nd, q => { nd with large := q }
end Frame

theorem reprCtx_cons {st : Store} {f : Frame} {fs : List Frame} {hp par root : Ptr} :
    ReprCtx st (f :: fs) hp par root ↔ (par = some f.id ∧ ∃ nd, rd st f.id = some nd ∧ f.hole nd = hp ∧
      ReprP st f.sib (f.sibPtr nd) (some f.id) ∧ ReprCtx st fs (some f.id) nd.parent root) := by
  cases f <;> exact Iff.rfl

theorem reprP_fill {st : Store} {f : Frame} {s : Shape} {q par : Ptr} :
    ReprP st (f.fill s) q par ↔ (q = some f.id ∧ ∃ nd, rd st f.id = some nd ∧ nd.parent = par ∧
      ReprP st s (f.hole nd) (some f.id) ∧ ReprP st f.sib (f.sibPtr nd) (some f.id)) := by
  cases f with
  | L i b => exact Iff.rfl
  | R a i =>
    constructor
    · rintro ⟨h1, nd, h2, h3, h4, h5⟩; exact ⟨h1, nd, h2, h3, h5, h4⟩
    · rintro ⟨h1, nd, h2, h3, h4, h5⟩; exact ⟨h1, nd, h2, h3, h5, h4⟩

theorem upFrame_check {st : Store} {f : Frame} {nd : Node} (s : Shape) (hr : rd st f.id = some nd) :
    upFrame st f (.check (absTree st s)) =
      if nd.color = .red then .viol (absTree st (f.fill s)) f.side else .done (absTree st (f.fill s)) := by
  cases f with
  | L i b =>
    simp only [Frame.id] at hr
    simp only [upFrame, hr, Tree.up, Frame.fill, absTree, Frame.side]
  | R a i =>
    simp only [Frame.id] at hr
    simp only [upFrame, hr, Tree.up, Frame.fill, absTree, Frame.side]

/-- the red-uncle answer of the grandparent frame -/
theorem upFrame_viol_red {st : Store} {f : Frame} {nd : Node} (t : Tree Int) (sd : Side) (hr : rd st f.id = some nd)
    (hred : (absTree st f.sib).color = .red) :
    upFrame st f (.viol t sd) = .check (match f with
      | .L _ _ => .node .red (t.setColor .black) nd.key ((absTree st f.sib).setColor .black)
      | .R _ _ => .node .red ((absTree st f.sib).setColor .black) nd.key (t.setColor .black)) := by
  cases f with
  | L i b =>
    simp only [Frame.id] at hr
    simp only [Frame.sib] at hred
    simp only [upFrame, hr, Tree.up, hred, ↓reduceIte, Frame.sib]
  | R a i =>
    simp only [Frame.id] at hr
    simp only [Frame.sib] at hred
    simp only [upFrame, hr, Tree.up, hred, ↓reduceIte, Frame.sib]

theorem mem_pathIds_id {f : Frame} {fs : List Frame} : f.id ∈ pathIds (f :: fs) := by simp [pathIds, Frame.ids]

/-- empty path: the record is the root and is coloured black -/
theorem fixup_root {st : Store} {fuel : Nat} {a : Shape} {n : Nat} {b : Shape} {par root : Ptr} {tree : Nat} {nn : Node}
    (hfoc : ReprP st (.node a n b) (some n) par) (hctx : ReprCtx st [] (some n) par root) (hroot : root = some tree)
    (hnd : ((Shape.node a n b).ids ++ pathIds []).Nodup) (hn : rd st n = some nn) :
    ∃ st', fixup fuel st tree n = some (st', tree) ∧ ReprP st' (.node a n b) (some tree) none ∧
      absTree st' (.node a n b) = (absTree st (.node a n b)).setColor .black ∧
      (∀ j, j ≠ n → rd st' j = rd st j) := by
  obtain ⟨hpar, hr⟩ := hctx
  subst hpar
  rw [hroot] at hr
  cases hr
  obtain ⟨_, nd, hr, hpn, ha, hb⟩ := hfoc
  rw [hn] at hr; cases hr
  obtain ⟨st', hw, R⟩ := wr_ex (st := st) (i := n) (fun nd => { nd with color := .black }) (by simp [hn])
  simp only [pathIds, List.append_nil, Shape.ids] at hnd
  obtain ⟨h1, h2, _, _, _⟩ := nodup_mid hnd
  have sa : ∀ j ∈ a.ids, rd st' j = rd st j := fun j hj => by
    have : j ≠ n := fun e => h1 (e ▸ hj)
    rw [R]; simp [this]
  have sb : ∀ j ∈ b.ids, rd st' j = rd st j := fun j hj => by
    have : j ≠ n := fun e => h2 (e ▸ hj)
    rw [R]; simp [this]
  have Fn : rd st' n = some { nn with color := .black } := by rw [R]; simp [hn]
  refine ⟨st', by simp only [fixup, hn, hpn, hw, Option.map_some], ?_, ?_, fun j hj => by rw [R]; simp [hj]⟩
  · exact ⟨rfl, _, Fn, hpn, ReprP.congr sa ha, ReprP.congr sb hb⟩
  · exact absTree_recolour_root hn Fn sa sb

/-- what every rotation case ends with: the rotated subtree is put back into the path above the grandparent -/
theorem rot_finish {st st' : Store} {fs : List Frame} {g x tree : Nat} {gpar root : Ptr} {S' : Shape} {T : Tree Int}
    (hctx : ReprCtx st fs (some g) gpar root) (hroot : root = some tree) (hD : (pathIds fs).Nodup) (hgD : g ∉ pathIds fs)
    (hrep : ReprP st' S' (some x) gpar) (hupd : CtxUpd st st' fs gpar g x) (habs : absTree st' S' = T) :
    finish (upPath st fs (.done T)) = some (absTree st' (zip S' fs)) ∧
      ReprP st' (zip S' fs) (some (rootAfter gpar x tree)) none := by
  have hctx' := CtxUpd.repr hctx hroot hD hgD hupd
  refine ⟨?_, zip_repr hrep hctx'⟩
  rw [← CtxUpd.upPath_eq hctx hD hupd, ← habs, upPath_done hctx']
  rfl


/-- the refinement statement for one call of `fixup`: `R` is what the unwinding of `Tree.ins` answers at the root -/
def SimGoal (fuel : Nat) (st : Store) (tree n : Nat) (R : Res Int) (ids : List Nat) : Prop :=
  (finish R = none → fixup fuel st tree n = none) ∧
  (∀ T', finish R = some T' → ∃ st' root' t', fixup fuel st tree n = some (st', root') ∧ ReprP st' t' (some root') none ∧
     absTree st' t' = T' ∧ t'.ids.Perm ids ∧ (∀ j, j ∉ ids → rd st' j = rd st j))

theorem sim_root {st : Store} {fuel : Nat} {s : Shape} {n : Nat} {par root : Ptr} {tree : Nat} {nn : Node}
    (hfoc : ReprP st s (some n) par) (hctx : ReprCtx st [] (some n) par root) (hroot : root = some tree)
    (hnd : (s.ids ++ pathIds []).Nodup) (hn : rd st n = some nn) :
    SimGoal fuel st tree n (upPath st [] (.check (absTree st s))) (s.ids ++ pathIds []) := by
  cases s with
  | nil => cases hfoc
  | node a m b =>
    have hm : m = n := by obtain ⟨h, _⟩ := hfoc; cases h; rfl
    subst hm
    obtain ⟨st', h1, h2, h3, h4⟩ := fixup_root (fuel := fuel) hfoc hctx hroot hnd hn
    refine ⟨fun h => by simp [upPath, finish] at h, fun T' hT => ?_⟩
    simp only [upPath, finish, Option.some.injEq] at hT
    subst hT
    refine ⟨st', tree, _, h1, h2, h3, by simp [pathIds], fun j hj => h4 j (fun e => hj (by simp [e, Shape.ids]))⟩

theorem sim_black {st : Store} {fuel : Nat} {s : Shape} {n : Nat} {par root : Ptr} {tree : Nat} {nn pn : Node}
    {f1 : Frame} {rest : List Frame}
    (hfoc : ReprP st s (some n) par) (hctx : ReprCtx st (f1 :: rest) (some n) par root) (hroot : root = some tree)
    (hn : rd st n = some nn) (hnpar : nn.parent = some f1.id) (hp : rd st f1.id = some pn) (hpc : ¬ pn.color = .red) :
    SimGoal fuel st tree n (upPath st (f1 :: rest) (.check (absTree st s))) (s.ids ++ pathIds (f1 :: rest)) := by
  obtain ⟨_, pn', hp', _, _, hctx2⟩ := reprCtx_cons.mp hctx
  have hR : upPath st (f1 :: rest) (.check (absTree st s)) = .done (absTree st (zip s (f1 :: rest))) := by
    simp only [upPath, upFrame_check s hp, hpc, ↓reduceIte]
    exact upPath_done hctx2
  rw [hR]
  refine ⟨fun h => by simp [finish] at h, fun T' hT => ?_⟩
  simp only [finish, Option.some.injEq] at hT
  subst hT
  refine ⟨st, tree, zip s (f1 :: rest), ?_, hroot ▸ zip_repr hfoc hctx, rfl, zip_ids_perm _ _, fun _ _ => rfl⟩
  simp only [fixup, hn, hnpar, hp, hpc, ↓reduceIte]

theorem sim_red_root {st : Store} {fuel : Nat} {s : Shape} {n : Nat} {par root : Ptr} {tree : Nat} {nn pn : Node}
    {f1 : Frame}
    (hctx : ReprCtx st [f1] (some n) par root)
    (hn : rd st n = some nn) (hnpar : nn.parent = some f1.id) (hp : rd st f1.id = some pn) (hpc : pn.color = .red) :
    SimGoal fuel st tree n (upPath st [f1] (.check (absTree st s))) (s.ids ++ pathIds [f1]) := by
  obtain ⟨_, pn', hp', _, _, hctx2⟩ := reprCtx_cons.mp hctx
  rw [hp] at hp'; cases hp'
  obtain ⟨hppar, _⟩ := hctx2
  have hR : upPath st [f1] (.check (absTree st s)) = .viol (absTree st (f1.fill s)) f1.side := by
    simp only [upPath, upFrame_check s hp, hpc, ↓reduceIte]
  rw [hR]
  refine ⟨fun _ => ?_, fun T' hT => by simp [finish] at hT⟩
  simp only [fixup, hn, hnpar, hp, hpc, ↓reduceIte]
  cases fuel with
  | zero => rfl
  | succ f => simp only [rebalance, hn, hnpar, hp, hppar]

theorem rot_conclude {fuel : Nat} {st st' : Store} {tree n x g : Nat} {S' : Shape} {T : Tree Int} {ids : List Nat}
    {fs : List Frame} {gpar root : Ptr} {R : Res Int}
    (hfix : fixup fuel st tree n = rebalance fuel st tree n)
    (hreb : rebalance fuel st tree n = some (st', rootAfter gpar x tree))
    (hR : R = upPath st fs (.done T))
    (hctx : ReprCtx st fs (some g) gpar root) (hroot : root = some tree) (hD : (pathIds fs).Nodup) (hgD : g ∉ pathIds fs)
    (hrep : ReprP st' S' (some x) gpar) (hupd : CtxUpd st st' fs gpar g x) (habs : absTree st' S' = T)
    (hperm : (S'.ids ++ pathIds fs).Perm ids) (hout : ∀ j, j ∉ ids → rd st' j = rd st j) :
    SimGoal fuel st tree n R ids := by
  obtain ⟨h1, h2⟩ := rot_finish hctx hroot hD hgD hrep hupd habs
  rw [hR]
  refine ⟨fun h => (by rw [h1] at h; cases h), fun T' hT => ?_⟩
  rw [h1] at hT
  cases hT
  exact ⟨st', _, _, hfix.trans hreb, h2, rfl, (zip_ids_perm fs S').trans hperm, hout⟩


theorem absTree_recolour_fill {st st' : Store} {f : Frame} {s : Shape} {nd : Node} {c : Color}
    (hr : rd st f.id = some nd) (hr' : rd st' f.id = some { nd with color := c })
    (hs : ∀ j ∈ s.ids, rd st' j = rd st j) (hsib : ∀ j ∈ f.sib.ids, rd st' j = rd st j) :
    absTree st' (f.fill s) = (absTree st (f.fill s)).setColor c := by
  cases f with
  | L i b => exact absTree_recolour_root hr hr' hs hsib
  | R a i => exact absTree_recolour_root hr hr' hsib hs

/-- the recolouring step: after it the grandparent subtree is the red focus one level up -/
theorem sim_recolour {f : Nat}
    (ih : ∀ (fs : List Frame) (st : Store) (s : Shape) (n : Nat) (par root : Ptr) (tree : Nat) (nn : Node),
      fs.length ≤ 2 * f → ReprP st s (some n) par → ReprCtx st fs (some n) par root → root = some tree →
      (s.ids ++ pathIds fs).Nodup → rd st n = some nn → nn.color = .red →
      SimGoal f st tree n (upPath st fs (.check (absTree st s))) (s.ids ++ pathIds fs))
    {st : Store} {s : Shape} {n : Nat} {par root : Ptr} {tree : Nat} {nn pn gn : Node} {f1 f2 : Frame} {fs : List Frame}
    (hlen : (f1 :: f2 :: fs).length ≤ 2 * (f + 1))
    (hfoc : ReprP st s (some n) par) (hctx : ReprCtx st (f1 :: f2 :: fs) (some n) par root) (hroot : root = some tree)
    (hnd : (s.ids ++ pathIds (f1 :: f2 :: fs)).Nodup) (hn : rd st n = some nn)
    (hnpar : nn.parent = some f1.id) (hp : rd st f1.id = some pn) (hpc : pn.color = .red) (hg : rd st f2.id = some gn)
    (hu : (absTree st f2.sib).color = .red) :
    SimGoal (f + 1) st tree n (upPath st (f1 :: f2 :: fs) (.check (absTree st s))) (s.ids ++ pathIds (f1 :: f2 :: fs)) := by
  obtain ⟨hpar, pn', hp', hhole, hPS, hctx2⟩ := reprCtx_cons.mp hctx
  rw [hp] at hp'; cases hp'
  obtain ⟨hppar, gn', hg', hhole2, hU, hctx3⟩ := reprCtx_cons.mp hctx2
  rw [hg] at hg'; cases hg'
  obtain ⟨ua, u, ub, un, hUeq, hup, hur, hucol⟩ := uncle_cases_red hU hu
  have hnd' := hnd
  simp only [pathIds, Frame.ids] at hnd'
  obtain ⟨hA, hB, hC, hD, hAB, hAC, hAD, hBC, hBD, hCD⟩ := nodup4 hnd'
  have hpB : f1.id ∈ f1.id :: f1.sib.ids := by simp
  have hgC : f2.id ∈ f2.id :: f2.sib.ids := by simp
  have huC : u ∈ f2.id :: f2.sib.ids := List.mem_cons_of_mem _ (hU.ptr_mem u hup).1
  have hnA : n ∈ s.ids := hfoc.root_mem
  have hpu : f1.id ≠ u := fun e => hBC _ hpB (e ▸ huC)
  have hpg : f1.id ≠ f2.id := fun e => hBC _ hpB (e ▸ hgC)
  have hug : u ≠ f2.id := fun e => by
    have h1 := (hU.ptr_mem u hup).1
    exact (List.nodup_cons.mp hC).1 (e ▸ h1)
  have hunc : (if gn.large = some f1.id then gn.small else gn.large) = some u := by
    cases f2 with
    | L g U =>
      simp only [Frame.hole, Frame.sibPtr] at hhole2 hup
      rw [if_neg (fun e => hpu (by rw [hup] at e; exact (Option.some.inj e).symm))]; exact hup
    | R U g =>
      simp only [Frame.hole, Frame.sibPtr] at hhole2 hup
      rw [if_pos hhole2]; exact hup
  obtain ⟨st3, hreb, F3⟩ := recolour (fuel := f) (tree := tree) hn hp hg hur hnpar hppar hunc hucol hpu hpg hug
  have same3 : ∀ j, j ≠ f2.id → j ≠ u → j ≠ f1.id → rd st3 j = rd st j := fun j h1 h2 h3 => by
    rw [F3]; simp [h1, h2, h3]
  have Fg : rd st3 f2.id = some { gn with color := .red } := by rw [F3]; simp
  have Fu : rd st3 u = some { un with color := .black } := by rw [F3]; simp [hug]
  have Fp : rd st3 f1.id = some { pn with color := .black } := by rw [F3]; simp [hpg, hpu]
  have ptrs : ∀ i nd, rd st i = some nd → ∃ nd', rd st3 i = some nd' ∧ nd'.parent = nd.parent ∧ nd'.small = nd.small ∧
      nd'.large = nd.large := fun i nd hr => by
    by_cases h1 : i = f2.id
    · subst h1; rw [hg] at hr; cases hr; exact ⟨_, Fg, rfl, rfl, rfl⟩
    · by_cases h2 : i = u
      · subst h2; rw [hur] at hr; cases hr; exact ⟨_, Fu, rfl, rfl, rfl⟩
      · by_cases h3 : i = f1.id
        · subst h3; rw [hp] at hr; cases hr; exact ⟨_, Fp, rfl, rfl, rfl⟩
        · exact ⟨nd, by rw [same3 i h1 h2 h3]; exact hr, rfl, rfl, rfl⟩
  -- the new focus
  have hS1 : ReprP st (f1.fill s) (some f1.id) (some f2.id) :=
    reprP_fill.mpr ⟨rfl, pn, hp, hppar, by rw [hhole, ← hpar]; exact hfoc, hPS⟩
  have hS2 : ReprP st (f2.fill (f1.fill s)) (some f2.id) gn.parent :=
    reprP_fill.mpr ⟨rfl, gn, hg, rfl, by rw [hhole2]; exact hS1, hU⟩
  have hS3 : ReprP st3 (f2.fill (f1.fill s)) (some f2.id) gn.parent :=
    ReprP.congr_ptr (fun i _ nd hr => ptrs i nd hr) hS2
  have sD : ∀ j ∈ pathIds fs, rd st3 j = rd st j := fun j hj =>
    same3 j (fun e => hCD _ hgC (e ▸ hj)) (fun e => hCD _ huC (e ▸ hj)) (fun e => hBD _ hpB (e ▸ hj))
  have hctx3' : ReprCtx st3 fs (some f2.id) gn.parent root := ReprCtx.congr sD hctx3
  have hperm : ((f2.fill (f1.fill s)).ids ++ pathIds fs).Perm (s.ids ++ pathIds (f1 :: f2 :: fs)) := by
    have h1 := fill_ids_perm f2 (f1.fill s)
    have h2 := fill_ids_perm f1 s
    have := (h1.trans (h2.append_right _)).append_right (pathIds fs)
    simpa [pathIds, List.append_assoc] using this
  have hnd3 : ((f2.fill (f1.fill s)).ids ++ pathIds fs).Nodup := hperm.nodup_iff.mpr hnd
  have hlen' : fs.length ≤ 2 * f := by simp only [List.length_cons] at hlen; omega
  have IH := ih fs st3 (f2.fill (f1.fill s)) f2.id gn.parent root tree _ hlen' hS3 hctx3' hroot hnd3 Fg rfl
  -- the abstract side
  have sA : ∀ j ∈ s.ids, rd st3 j = rd st j := fun j hj =>
    same3 j (fun e => hAC j hj (e ▸ hgC)) (fun e => hAC j hj (e ▸ huC)) (fun e => hAB j hj (e ▸ hpB))
  have sPS : ∀ j ∈ f1.sib.ids, rd st3 j = rd st j := fun j hj =>
    have hjB : j ∈ f1.id :: f1.sib.ids := List.mem_cons_of_mem _ hj
    same3 j (fun e => hBC j hjB (e ▸ hgC)) (fun e => hBC j hjB (e ▸ huC)) (fun e => (List.nodup_cons.mp hB).1 (e ▸ hj))
  have e1 : absTree st3 (f1.fill s) = (absTree st (f1.fill s)).setColor .black := absTree_recolour_fill hp Fp sA sPS
  have hUnd : f2.sib.ids.Nodup := (List.nodup_cons.mp hC).2
  have e2 : absTree st3 f2.sib = (absTree st f2.sib).setColor .black := by
    rw [hUeq] at hUnd ⊢
    simp only [Shape.ids] at hUnd
    obtain ⟨k1, k2, _, _, _⟩ := nodup_mid hUnd
    have hsub : ∀ j, j ∈ (Shape.node ua u ub).ids → j ∈ f2.id :: f2.sib.ids := fun j hj => by
      rw [hUeq]; exact List.mem_cons_of_mem _ hj
    refine absTree_recolour_root hur Fu (fun j hj => ?_) (fun j hj => ?_)
    · have hjC := hsub j (by simp [Shape.ids, hj])
      exact same3 j (fun e => (List.nodup_cons.mp hC).1 (by rw [← e, hUeq]; simp [Shape.ids, hj])) (fun e => k1 (e ▸ hj))
        (fun e => hBC _ hpB (e ▸ hjC))
    · have hjC := hsub j (by simp [Shape.ids, hj])
      exact same3 j (fun e => (List.nodup_cons.mp hC).1 (by rw [← e, hUeq]; simp [Shape.ids, hj])) (fun e => k2 (e ▸ hj))
        (fun e => hBC _ hpB (e ▸ hjC))
  have hR : upPath st (f1 :: f2 :: fs) (.check (absTree st s)) =
      upPath st3 fs (.check (absTree st3 (f2.fill (f1.fill s)))) := by
    rw [upPath_congr_eq _ hctx3 sD]
    simp only [upPath, upFrame_check s hp, hpc, ↓reduceIte, upFrame_viol_red _ _ hg hu]
    congr 2
    generalize f1.fill s = S1 at e1 ⊢
    cases f2 with
    | L g U =>
      simp only [Frame.fill, Frame.sib, Frame.id] at e2 Fg ⊢
      simp only [absTree, Fg, e1, e2]
    | R U g =>
      simp only [Frame.fill, Frame.sib, Frame.id] at e2 Fg ⊢
      simp only [absTree, Fg, e1, e2]
  have hfix : fixup (f + 1) st tree n = fixup f st3 tree f2.id := by
    rw [← hreb]
    simp only [fixup, hn, hnpar, hp, hpc, ↓reduceIte]
  rw [hR]
  refine ⟨fun h => by rw [hfix]; exact IH.1 h, fun T' hT => ?_⟩
  obtain ⟨st', root', t', k1, k2, k3, k4, k5⟩ := IH.2 T' hT
  refine ⟨st', root', t', by rw [hfix]; exact k1, k2, k3, k4.trans hperm, fun j hj => ?_⟩
  have hj' : j ∉ (f2.fill (f1.fill s)).ids ++ pathIds fs := fun h => hj (hperm.mem_iff.mp h)
  rw [k5 j hj']
  have hmem : ∀ x, x ∈ s.ids ++ (f1.id :: f1.sib.ids ++ (f2.id :: f2.sib.ids ++ pathIds fs)) →
      x ∈ s.ids ++ pathIds (f1 :: f2 :: fs) := fun x hx => by simpa [pathIds, Frame.ids] using hx
  exact same3 j (fun e => hj (hmem _ (by simp [e]))) (fun e => hj (hmem _ (by
      have := huC; simp only [List.mem_cons] at this; rcases this with h | h <;> simp [e, h])))
    (fun e => hj (hmem _ (by simp [e])))


theorem perm_by_count {l₁ l₂ : List Nat} (h : ∀ x, l₁.count x = l₂.count x) : l₁.Perm l₂ := List.perm_iff_count.mpr h

/-- the rotation step (black uncle), all four cases: afterwards the tree is finished -/
theorem sim_rotate {f : Nat} {st : Store} {a : Shape} {n : Nat} {b : Shape} {par root : Ptr} {tree : Nat} {nn pn gn : Node}
    {f1 f2 : Frame} {fs : List Frame}
    (hfoc : ReprP st (.node a n b) (some n) par) (hctx : ReprCtx st (f1 :: f2 :: fs) (some n) par root)
    (hroot : root = some tree) (hnd : ((Shape.node a n b).ids ++ pathIds (f1 :: f2 :: fs)).Nodup)
    (hn : rd st n = some nn) (hred : nn.color = .red) (hnpar : nn.parent = some f1.id) (hp : rd st f1.id = some pn)
    (hpc : pn.color = .red) (hg : rd st f2.id = some gn) (hu : (absTree st f2.sib).color = .black) :
    SimGoal (f + 1) st tree n (upPath st (f1 :: f2 :: fs) (.check (absTree st (.node a n b))))
      ((Shape.node a n b).ids ++ pathIds (f1 :: f2 :: fs)) := by
  obtain ⟨_, nn', hn', _, ha, hb⟩ := hfoc
  rw [hn] at hn'; cases hn'
  have hfix : fixup (f + 1) st tree n = rebalance (f + 1) st tree n := by
    simp only [fixup, hn, hnpar, hp, hpc, ↓reduceIte]
  have hnd' := hnd
  simp only [pathIds, Frame.ids] at hnd'
  obtain ⟨_, _, hC, hD, _, _, _, _, _, hCD⟩ := nodup4 hnd'
  have hgC : f2.id ∈ f2.id :: f2.sib.ids := by simp
  have hgD : f2.id ∉ pathIds fs := hCD _ hgC
  cases f1 with
  | L p PS =>
    obtain ⟨_, pn', hp', hhole, hPS, hctx2⟩ := hctx
    simp only [Frame.id] at hp hnpar
    rw [hp] at hp'; cases hp'
    have hppar : pn.parent = some f2.id := by cases f2 <;> exact hctx2.1
    cases f2 with
    | L g U =>
      obtain ⟨_, gn', hg', hhole2, hU, hctx3⟩ := hctx2
      simp only [Frame.id] at hg hgC hgD
      simp only [Frame.sib] at hu
      rw [hg] at hg'; cases hg'
      obtain ⟨st', hreb, hrep, hupd, habs, hout⟩ :=
        rot_LL (fuel := f) (tree := tree) hn hp hg hnpar hhole hppar hhole2 ha hb hPS hU hctx3 hnd hu
      refine rot_conclude hfix hreb ?_ hctx3 hroot hD hgD hrep hupd habs ?_ hout
      · simp only [upPath, upFrame, hp, hg, Tree.up, hpc, hu, absTree, hn, hred, Tree.rotate, Tree.setColor, reduceCtorEq,
          ↓reduceIte]
      · exact perm_by_count (fun x => by
          simp only [Shape.ids, pathIds, Frame.ids, Frame.id, Frame.sib, List.count_append, List.count_cons]; omega)
    | R U g =>
      obtain ⟨_, gn', hg', hhole2, hU, hctx3⟩ := hctx2
      simp only [Frame.id] at hg hgC hgD
      simp only [Frame.sib] at hu
      rw [hg] at hg'; cases hg'
      obtain ⟨st', hreb, hrep, hupd, habs, hout⟩ :=
        rot_LR (fuel := f) (tree := tree) hn hp hg hnpar hhole hppar hhole2 ha hb hPS hU hctx3 hnd hu
      refine rot_conclude hfix hreb ?_ hctx3 hroot hD hgD hrep hupd habs ?_ hout
      · simp only [upPath, upFrame, hp, hg, Tree.up, hpc, hu, absTree, hn, hred, Tree.rotate, Tree.setColor, reduceCtorEq,
          ↓reduceIte]
      · exact perm_by_count (fun x => by
          simp only [Shape.ids, pathIds, Frame.ids, Frame.id, Frame.sib, List.count_append, List.count_cons]; omega)
  | R PS p =>
    obtain ⟨_, pn', hp', hhole, hPS, hctx2⟩ := hctx
    simp only [Frame.id] at hp hnpar
    rw [hp] at hp'; cases hp'
    have hppar : pn.parent = some f2.id := by cases f2 <;> exact hctx2.1
    cases f2 with
    | L g U =>
      obtain ⟨_, gn', hg', hhole2, hU, hctx3⟩ := hctx2
      simp only [Frame.id] at hg hgC hgD
      simp only [Frame.sib] at hu
      rw [hg] at hg'; cases hg'
      obtain ⟨st', hreb, hrep, hupd, habs, hout⟩ :=
        rot_RL (fuel := f) (tree := tree) hn hp hg hnpar hhole hppar hhole2 ha hb hPS hU hctx3 hnd hu
      refine rot_conclude hfix hreb ?_ hctx3 hroot hD hgD hrep hupd habs ?_ hout
      · simp only [upPath, upFrame, hp, hg, Tree.up, hpc, hu, absTree, hn, hred, Tree.rotate, Tree.setColor, reduceCtorEq,
          ↓reduceIte]
      · exact perm_by_count (fun x => by
          simp only [Shape.ids, pathIds, Frame.ids, Frame.id, Frame.sib, List.count_append, List.count_cons]; omega)
    | R U g =>
      obtain ⟨_, gn', hg', hhole2, hU, hctx3⟩ := hctx2
      simp only [Frame.id] at hg hgC hgD
      simp only [Frame.sib] at hu
      rw [hg] at hg'; cases hg'
      obtain ⟨st', hreb, hrep, hupd, habs, hout⟩ :=
        rot_RR (fuel := f) (tree := tree) hn hp hg hnpar hhole hppar hhole2 ha hb hPS hU hctx3 hnd hu
      refine rot_conclude hfix hreb ?_ hctx3 hroot hD hgD hrep hupd habs ?_ hout
      · simp only [upPath, upFrame, hp, hg, Tree.up, hpc, hu, absTree, hn, hred, Tree.rotate, Tree.setColor, reduceCtorEq,
          ↓reduceIte]
      · exact perm_by_count (fun x => by
          simp only [Shape.ids, pathIds, Frame.ids, Frame.id, Frame.sib, List.count_append, List.count_cons]; omega)


/-- `fixup` (= the tail of `insert`, = `rebalance` with its recursion) refines the unwinding of `Tree.ins` along the path,
    for every path, every colouring, every store -/
theorem fixup_sim : ∀ (fuel : Nat) (fs : List Frame) (st : Store) (s : Shape) (n : Nat) (par root : Ptr) (tree : Nat)
    (nn : Node), fs.length ≤ 2 * fuel → ReprP st s (some n) par → ReprCtx st fs (some n) par root → root = some tree →
    (s.ids ++ pathIds fs).Nodup → rd st n = some nn → nn.color = .red →
    SimGoal fuel st tree n (upPath st fs (.check (absTree st s))) (s.ids ++ pathIds fs) := by
  intro fuel
  induction fuel with
  | zero =>
    intro fs st s n par root tree nn hlen hfoc hctx hroot hnd hn hred
    have : fs = [] := List.eq_nil_of_length_eq_zero (by omega)
    subst this
    exact sim_root hfoc hctx hroot hnd hn
  | succ f ih =>
    intro fs st s n par root tree nn hlen hfoc hctx hroot hnd hn hred
    cases fs with
    | nil => exact sim_root hfoc hctx hroot hnd hn
    | cons f1 rest =>
      obtain ⟨hpar, pn, hp, _, _, hctx2⟩ := reprCtx_cons.mp hctx
      have hnpar : nn.parent = some f1.id := by
        cases s with
        | nil => cases hfoc
        | node a m b =>
          obtain ⟨h, nd, hr, hpp, _⟩ := hfoc
          cases h; rw [hn] at hr; cases hr; rw [hpp, hpar]
      by_cases hpc : pn.color = .red
      · cases rest with
        | nil => exact sim_red_root hctx hn hnpar hp hpc
        | cons f2 fs' =>
          obtain ⟨_, gn, hg, _, _, _⟩ := reprCtx_cons.mp hctx2
          cases hu : (absTree st f2.sib).color with
          | red => exact sim_recolour ih hlen hfoc hctx hroot hnd hn hnpar hp hpc hg hu
          | black =>
            cases s with
            | nil => cases hfoc
            | node a m b =>
              have : m = n := by obtain ⟨h, _⟩ := hfoc; cases h; rfl
              subst this
              exact sim_rotate hfoc hctx hroot hnd hn hred hnpar hp hpc hg hu
      · exact sim_black hfoc hctx hroot hn hnpar hp hpc

/-! ## the descent loop finds the path -/

theorem PathDir.isSome {st : Store} {key : Int} : ∀ {fs : List Frame}, PathDir st key fs → ∀ f ∈ fs, (rd st f.id).isSome = true
  | [], _, f, hf => by cases hf
  | .L i b :: fs, ⟨⟨nd, hr, _⟩, hrest⟩, f, hf => by
    rcases List.mem_cons.mp hf with rfl | h
    · simp [Frame.id, hr]
    · exact PathDir.isSome hrest f h
  | .R a i :: fs, ⟨⟨nd, hr, _⟩, hrest⟩, f, hf => by
    rcases List.mem_cons.mp hf with rfl | h
    · simp [Frame.id, hr]
    · exact PathDir.isSome hrest f h

/-- the descent loop of `insert` on a tree laid out with its path: an equal key ⇒ `Tree.ins` answers `dup`; otherwise the
    loop stops at the record `p` under which the hole for the new record is, and the path from that hole up to the root is
    the path the key's comparisons take -/
theorem descend_zip {st : Store} {key : Int} {root : Ptr} : ∀ (fuel : Nat) (s : Shape) (i : Nat) (fs0 : List Frame) (par : Ptr)
    (r : Option Nat), ReprP st s (some i) par → ReprCtx st fs0 (some i) par root → PathDir st key fs0 →
    descend st key fuel i = some r →
    (r = none → Tree.ins key (absTree st (zip s fs0)) = .dup) ∧
    (∀ p, r = some p → ∃ f fs, f.id = p ∧ ReprCtx st (f :: fs) none (some p) root ∧ zip .nil (f :: fs) = zip s fs0 ∧
      PathDir st key (f :: fs))
  | 0, _, _, _, _, _, _, _, _, h => by simp [descend] at h
  | fuel+1, .nil, _, _, _, _, h, _, _, _ => by cases h
  | fuel+1, .node a i' b, i, fs0, par, r, hfoc, hctx, hdir, hdesc => by
    obtain ⟨hi, nd, hr, hpar, ha, hb⟩ := hfoc
    cases hi
    simp only [descend, hr] at hdesc
    by_cases h2 : key > nd.key
    · simp only [h2, ↓reduceIte] at hdesc
      cases b with
      | nil =>
        have hl : nd.large = none := hb
        simp only [hl, Option.some.injEq] at hdesc
        subst hdesc
        refine ⟨fun h => (by cases h), fun p hp => ?_⟩
        cases hp
        exact ⟨.R a i', fs0, rfl, ⟨rfl, nd, hr, hl, ha, hpar ▸ hctx⟩, rfl, ⟨⟨nd, hr, h2⟩, hdir⟩⟩
      | node b1 j b2 =>
        have hl : nd.large = some j := hb.1
        simp only [hl] at hdesc
        have := descend_zip fuel (.node b1 j b2) j (.R a i' :: fs0) (some i') r (hl ▸ hb)
          ⟨rfl, nd, hr, hl, ha, hpar ▸ hctx⟩ ⟨⟨nd, hr, h2⟩, hdir⟩ hdesc
        exact this
    · by_cases h3 : key < nd.key
      · simp only [h2, h3, ↓reduceIte] at hdesc
        cases a with
        | nil =>
          have hl : nd.small = none := ha
          simp only [hl, Option.some.injEq] at hdesc
          subst hdesc
          refine ⟨fun h => (by cases h), fun p hp => ?_⟩
          cases hp
          exact ⟨.L i' b, fs0, rfl, ⟨rfl, nd, hr, hl, hb, hpar ▸ hctx⟩, rfl, ⟨⟨nd, hr, h3⟩, hdir⟩⟩
        | node a1 j a2 =>
          have hl : nd.small = some j := ha.1
          simp only [hl] at hdesc
          have := descend_zip fuel (.node a1 j a2) j (.L i' b :: fs0) (some i') r (hl ▸ ha)
            ⟨rfl, nd, hr, hl, hb, hpar ▸ hctx⟩ ⟨⟨nd, hr, h3⟩, hdir⟩ hdesc
          exact this
      · simp only [h2, h3, ↓reduceIte, Option.some.injEq] at hdesc
        subst hdesc
        refine ⟨fun _ => ?_, fun p hp => by cases hp⟩
        rw [ins_zip hdir]
        have h4 : ¬ nd.key < key := h2
        have : Tree.ins key (absTree st (.node a i' b)) = .dup := by
          simp only [absTree, hr, Tree.ins, h4, h3, ↓reduceIte]
        rw [this]
        exact upPath_dup st fs0 (PathDir.isSome hdir)

theorem length_le_pathIds : ∀ (fs : List Frame), fs.length ≤ (pathIds fs).length
  | [] => Nat.le_refl _
  | f :: fs => by
    have := length_le_pathIds fs
    simp only [pathIds, Frame.ids, List.length_cons, List.length_append]; omega



theorem up_ne_dup (c : Color) (a : Tree Int) (x : Int) (b : Tree Int) (sd : Side) (r : Res Int) (h : r ≠ .dup) :
    Tree.up c a x b sd r ≠ .dup := by
  cases r with
  | dup => exact absurd rfl h
  | fatal => simp
  | done t => cases sd <;> simp [Tree.up]
  | check t => simp only [Tree.up]; split <;> simp
  | viol t sn =>
    cases sd <;> simp only [Tree.up] <;> split <;> (try simp) <;> split <;> simp

theorem upPath_ne_dup (st : Store) : ∀ (fs : List Frame) (r : Res Int), r ≠ .dup → upPath st fs r ≠ .dup
  | [], _, h => h
  | .L i b :: fs, r, h => by
    simp only [upPath, upFrame]
    cases rd st i with
    | none => exact upPath_ne_dup st fs _ (by simp)
    | some nd => exact upPath_ne_dup st fs _ (up_ne_dup _ _ _ _ _ _ h)
  | .R a i :: fs, r, h => by
    simp only [upPath, upFrame]
    cases rd st i with
    | none => exact upPath_ne_dup st fs _ (by simp)
    | some nd => exact upPath_ne_dup st fs _ (up_ne_dup _ _ _ _ _ _ h)

/-- what the linking step of `insert` leaves in the store, and how `insert` goes on -/
theorem insert_link {st st1 : Store} {r0 node : Nat} {nn pn : Node} {f : Frame} {fs : List Frame}
    (w1 : wr st node (fun nd => { nd with color := .red, small := none, large := none }) = some st1)
    (hn1 : rd st1 node = some { nn with color := .red, small := none, large := none })
    (e1 : descend st1 nn.key (st1.size + 1) r0 = some (some f.id))
    (hp : rd st1 f.id = some pn) (hpn : f.id ≠ node) (hdir : PathDir st1 nn.key (f :: fs)) :
    ∃ st3, (∀ j, rd st3 j = if j = f.id then some (f.setHole pn (some node))
              else if j = node then some { nn with color := .red, small := none, large := none, parent := some f.id }
              else rd st1 j) ∧ st3.size = st1.size ∧
      insert st (some r0) node = (fixup (st3.size + 1) st3 r0 node).map (fun x => (x.1, some x.2)) := by
  obtain ⟨s2, w2, R2⟩ := wr_ex (st := st1) (i := node) (fun nd => { nd with parent := some f.id }) (by simp [hn1])
  have hp2 : rd s2 f.id = some pn := by rw [R2]; simp [hpn, hp]
  have hn2 : rd s2 node = some { nn with color := .red, small := none, large := none, parent := some f.id } := by
    rw [R2]; simp [hn1]
  have hsz2 := size_wr w2
  cases f with
  | L i b =>
    simp only [Frame.id] at hp hpn hp2 hn2 e1 R2 w2 ⊢
    obtain ⟨⟨nd, hr, hlt⟩, _⟩ := hdir
    rw [hp] at hr; cases hr
    obtain ⟨s3, w3, R3⟩ := wr_ex (st := s2) (i := i) (fun nd => { nd with small := some node }) (by simp [hp2])
    have F : ∀ j, rd s3 j = if j = i then some { pn with small := some node }
        else if j = node then some { nn with color := .red, small := none, large := none, parent := some i }
        else rd st1 j := fun j => by
      by_cases h1 : j = i
      · subst h1; simp [R3, hp2]
      · by_cases h2 : j = node
        · subst h2; simp [R3, h1, hn2]
        · simp [R3, R2, h1, h2]
    have hsz3 := size_wr w3
    refine ⟨s3, F, by omega, ?_⟩
    have Fn : rd s3 node = some { nn with color := .red, small := none, large := none, parent := some i } := by
      rw [F]; simp [Ne.symm hpn]
    have Fp : rd s3 i = some { pn with small := some node } := by rw [F]; simp
    simp only [insert, w1, hn1, e1, w2, hp2, hlt, ↓reduceIte, w3, fixup, Fn, Fp]
    by_cases hc : pn.color = .red
    · simp only [hc, ↓reduceIte]
    · simp only [hc, ↓reduceIte, Option.map_some]
  | R a i =>
    simp only [Frame.id] at hp hpn hp2 hn2 e1 R2 w2 ⊢
    obtain ⟨⟨nd, hr, hgt⟩, _⟩ := hdir
    rw [hp] at hr; cases hr
    have hlt : ¬ nn.key < pn.key := by omega
    obtain ⟨s3, w3, R3⟩ := wr_ex (st := s2) (i := i) (fun nd => { nd with large := some node }) (by simp [hp2])
    have F : ∀ j, rd s3 j = if j = i then some { pn with large := some node }
        else if j = node then some { nn with color := .red, small := none, large := none, parent := some i }
        else rd st1 j := fun j => by
      by_cases h1 : j = i
      · subst h1; simp [R3, hp2]
      · by_cases h2 : j = node
        · subst h2; simp [R3, h1, hn2]
        · simp [R3, R2, h1, h2]
    have hsz3 := size_wr w3
    refine ⟨s3, F, by omega, ?_⟩
    have Fn : rd s3 node = some { nn with color := .red, small := none, large := none, parent := some i } := by
      rw [F]; simp [Ne.symm hpn]
    have Fp : rd s3 i = some { pn with large := some node } := by rw [F]; simp
    simp only [insert, w1, hn1, e1, w2, hp2, hlt, ↓reduceIte, w3, fixup, Fn, Fp]
    by_cases hc : pn.color = .red
    · simp only [hc, ↓reduceIte]
    · simp only [hc, ↓reduceIte, Option.map_some]


/-- **`esl_red_black_doublekey_insert` refines the inductive insert, for every tree and every key.** For any tree laid out in
    the store (parent pointers included) over distinct records and any offered record outside it: a duplicate key returns
    `NULL` and leaves every other record alone; otherwise the function fails exactly when `Tree.insert` does (`esl_fatal`),
    and else returns the root of a tree, laid out with correct parent pointers over exactly the old records plus the new one,
    whose abstract tree (keys and colours) is the one `Tree.insert` computes; no record outside is written. -/
theorem insert_refines {st : Store} {t : Shape} {root node : Nat} {nn : Node}
    (hrep : ReprP st t (some root) none) (hnd : t.ids.Nodup) (hnode : node ∉ t.ids) (hr : rd st node = some nn) :
    (Tree.ins nn.key (absTree st t) = .dup →
      ∃ st', insert st (some root) node = some (st', none) ∧ (∀ j, j ≠ node → rd st' j = rd st j)) ∧
    (Tree.ins nn.key (absTree st t) ≠ .dup →
      (finish (Tree.ins nn.key (absTree st t)) = none → insert st (some root) node = none) ∧
      (∀ T', finish (Tree.ins nn.key (absTree st t)) = some T' →
        ∃ st' root' t', insert st (some root) node = some (st', some root') ∧ ReprP st' t' (some root') none ∧
          absTree st' t' = T' ∧ t'.ids.Perm (node :: t.ids) ∧ (∀ j, j ∉ node :: t.ids → rd st' j = rd st j))) := by
  obtain ⟨st1, w1, R1⟩ := wr_ex (st := st) (i := node)
    (fun nd => { nd with color := .red, small := none, large := none }) (by simp [hr])
  have hsame1 : ∀ j, j ≠ node → rd st1 j = rd st j := fun j hj => by rw [R1]; simp [hj]
  have hids1 : ∀ i ∈ t.ids, rd st1 i = rd st i := fun i hi => hsame1 i (fun e => hnode (e ▸ hi))
  have hrep1 : ReprP st1 t (some root) none := ReprP.congr hids1 hrep
  have habs1 : absTree st1 t = absTree st t := absTree_congr hids1
  have hn1 : rd st1 node = some { nn with color := .red, small := none, large := none } := by rw [R1]; simp [hr]
  have hsz1 := size_wr w1
  cases t with
  | nil => cases hrep
  | node a r0 b =>
  have hr0 : r0 = root := by obtain ⟨h, _⟩ := hrep; cases h; rfl
  subst hr0
  have hh := hrep1.toRepr.height_le_size hnd
  obtain ⟨r, e1, _, _⟩ := descend_repr nn.key (st1.size + 1) hrep1.toRepr (by omega)
  obtain ⟨d1, d2⟩ := descend_zip (root := some r0) (st1.size + 1) (.node a r0 b) r0 [] none r hrep1 ⟨rfl, rfl⟩ trivial e1
  simp only [zip] at d1 d2
  rw [← habs1]
  cases r with
  | none =>
    have hdup := d1 rfl
    refine ⟨fun _ => ⟨st1, ?_, hsame1⟩, fun h => absurd hdup h⟩
    simp only [insert, w1, hn1, e1]
  | some p =>
    obtain ⟨f, fs, hfid, hctx, hzip, hdir⟩ := d2 p rfl
    subst hfid
    have hzip : zip Shape.nil (f :: fs) = Shape.node a r0 b := hzip
    have hins : Tree.ins nn.key (absTree st1 (.node a r0 b)) =
        upPath st1 (f :: fs) (.check (.node .red .nil nn.key .nil)) := by
      rw [← hzip, ins_zip hdir]; rfl
    obtain ⟨_, pn, hp, _, _, _⟩ := reprCtx_cons.mp hctx
    have hperm0 : (Shape.node a r0 b).ids.Perm (pathIds (f :: fs)) := by
      have := zip_ids_perm (f :: fs) .nil
      rw [hzip] at this
      simpa [Shape.ids] using this
    have hndP : (pathIds (f :: fs)).Nodup := hperm0.nodup_iff.mp hnd
    have hnodeP : node ∉ pathIds (f :: fs) := fun h => hnode (hperm0.mem_iff.mpr h)
    have hpn : f.id ≠ node := fun e => hnodeP (e ▸ mem_pathIds_id)
    obtain ⟨st3, F3, hsz3, hinsert⟩ := insert_link (fs := fs) w1 hn1 e1 hp hpn hdir
    have Fn : rd st3 node = some { nn with color := .red, small := none, large := none, parent := some f.id } := by
      rw [F3]; simp [Ne.symm hpn]
    have same3 : ∀ j, j ≠ f.id → j ≠ node → rd st3 j = rd st1 j := fun j h1 h2 => by rw [F3]; simp [h1, h2]
    have hfoc3 : ReprP st3 (.node .nil node .nil) (some node) (some f.id) := ⟨rfl, _, Fn, rfl, rfl, rfl⟩
    have hctx3 : ReprCtx st3 (f :: fs) (some node) (some f.id) (some r0) :=
      ReprCtx.rehole hctx hndP (fun j hj hne => same3 j hne (fun e => hnodeP (e ▸ hj))) (fun nd hr' => by
        rw [hp] at hr'; cases hr'
        rw [F3]; simp only [↓reduceIte]
        cases f <;> rfl)
    have hnd3 : ((Shape.node .nil node .nil).ids ++ pathIds (f :: fs)).Nodup := by
      simp only [Shape.ids, List.nil_append, List.cons_append]
      exact List.nodup_cons.mpr ⟨hnodeP, hndP⟩
    have hlen : (f :: fs).length ≤ 2 * (st3.size + 1) := by
      have h1 := length_le_pathIds (f :: fs)
      have h2 := hperm0.length_eq
      have h3 : (Shape.node a r0 b).ids.length ≤ st.size :=
        nodup_length_le st.size _ hnd (fun x hx => by
          obtain ⟨nd, hnd'⟩ := Option.isSome_iff_exists.mp (hrep.toRepr.rd_some x hx)
          exact rd_lt hnd')
      omega
    have sim := fixup_sim (st3.size + 1) (f :: fs) st3 (.node .nil node .nil) node (some f.id) (some r0) r0 _ hlen hfoc3
      hctx3 rfl hnd3 Fn rfl
    have hup : upPath st3 (f :: fs) (.check (absTree st3 (.node .nil node .nil))) =
        upPath st1 (f :: fs) (.check (.node .red .nil nn.key .nil)) := by
      have : absTree st3 (.node .nil node .nil) = .node .red .nil nn.key .nil := by simp only [absTree, Fn]
      rw [this]
      refine upPath_congr _ (fun i hi => ?_) (fun f' hf' => ?_)
      · by_cases h1 : i = f.id
        · subst h1
          refine ⟨pn, f.setHole pn (some node), hp, by rw [F3, if_pos rfl], ?_, ?_⟩ <;> cases f <;> rfl
        · have h2 : i ≠ node := fun e => hnodeP (e ▸ hi)
          obtain ⟨nd, hnd'⟩ := Option.isSome_iff_exists.mp (hrep1.toRepr.rd_some i (hperm0.mem_iff.mpr hi))
          exact ⟨nd, nd, hnd', by rw [same3 i h1 h2]; exact hnd', rfl, rfl⟩
      · refine absTree_congr (fun j hj => ?_)
        have hjP : j ∈ f.sib.ids ++ pathIds fs := by
          rcases List.mem_cons.mp hf' with rfl | h
          · exact List.mem_append_left _ hj
          · exact List.mem_append_right _ (sib_ids_sub h j hj)
        have hjP' : j ∈ pathIds (f :: fs) := by simp only [pathIds, Frame.ids, List.cons_append]; exact List.mem_cons_of_mem _ hjP
        have hndP' := hndP
        simp only [pathIds, Frame.ids, List.cons_append] at hndP'
        exact same3 j (fun e => (List.nodup_cons.mp hndP').1 (e ▸ hjP)) (fun e => hnodeP (e ▸ hjP'))
    rw [hup, ← hins] at sim
    have hpermF : ((Shape.node .nil node .nil).ids ++ pathIds (f :: fs)).Perm (node :: (Shape.node a r0 b).ids) := by
      simp only [Shape.ids, List.nil_append, List.cons_append]
      exact List.Perm.cons node hperm0.symm
    refine ⟨fun h => ?_, fun _ => ⟨fun h => ?_, fun T' hT => ?_⟩⟩
    · rw [hins] at h
      exact absurd h (upPath_ne_dup st1 (f :: fs) _ (by simp))
    · rw [hinsert, sim.1 h]; rfl
    · obtain ⟨st', root', t', k1, k2, k3, k4, k5⟩ := sim.2 T' hT
      refine ⟨st', root', t', by rw [hinsert, k1]; rfl, k2, k3, k4.trans hpermF, fun j hj => ?_⟩
      have hj' : j ∉ (Shape.node .nil node .nil).ids ++ pathIds (f :: fs) := fun h => hj (hpermF.mem_iff.mp h)
      rw [k5 j hj']
      have h1 : j ≠ node := fun e => hj (by simp [e])
      have h2 : j ≠ f.id := fun e => hj (List.mem_cons_of_mem _ (hperm0.mem_iff.mpr (e ▸ mem_pathIds_id)))
      rw [same3 j h2 h1, hsame1 j h1]

end EaselModel.Containers.RedBlackPtr
