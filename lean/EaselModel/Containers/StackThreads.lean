import EaselModel.Containers.StackLemmas
/-! # esl_stack.c in thread-communication mode (`esl_stack_UseMutex` + `esl_stack_UseCond` + `esl_stack_ReleaseCond`)
as an interleaving transition system (core Lean only, executable)

Every `Push`/`Pop`/`ReleaseCond` of the C code is `pthread_mutex_lock; <body>; pthread_mutex_unlock`, and the body of `Pop`
starts with `while (do_cond && n == 0) pthread_cond_wait(cond, mutex)`, which atomically gives the mutex up and puts the
thread to sleep; woken up (by `pthread_cond_signal` of a `Push`, by `pthread_cond_broadcast` of `ReleaseCond`, or spuriously —
POSIX allows that) it takes the mutex again and re-tests the loop condition.

Threads run programs (`TOp` lists). A global state is the shared stack, `do_cond`, the owner of the mutex and one record per
thread. The scheduler picks actions: `acquire t` (thread `t` gets the free mutex: `pthread_mutex_lock` returns),
`body t` (the thread holding the mutex runs the code up to the point where it gives the mutex up again: either the
`pthread_mutex_unlock` at the end of the call, or the `pthread_cond_wait`), `wake t` (a sleeping thread leaves
`pthread_cond_wait`'s sleep; it still has to re-acquire the mutex). `wake` is enabled at any time: every real execution
(signals, broadcasts, spurious wake-ups) is a schedule of this system, so what holds for ALL schedules holds for the code.
MODELLING ASSUMPTIONS: the pthread primitives behave as POSIX says (mutual exclusion; `cond_wait` releases and re-acquires);
`ReleaseCond`'s unlocked pre-test of `do_cond` is evaluated inside its critical section. Liveness (a signal really wakes a
sleeper) is outside this model: it is exercised by the multi-threaded harness op `st_threads` under a watchdog. -/
namespace EaselModel.Containers.StackThreads
open EaselModel.Containers.Stack

/-- a call a thread makes: `Push(x)`, `Pop`, `while (Pop(&x) == eslOK) …` (a worker that drains until `eslEOD`),
    `esl_stack_ReleaseCond` -/
inductive TOp (α : Type)
  | push (x : α) | pop | drain | release

inductive Phase | start | holding | waiting
deriving DecidableEq, Repr

inductive TOut (α : Type) | done | val (x : α) | eod | esys
deriving DecidableEq, Repr

structure Thread (α : Type) where
  prog : List (TOp α)        -- remaining calls; the head is the call in progress
  phase : Phase
  outs : List (TOut α)       -- what the calls returned so far

structure TS (α : Type) where
  stack : Stack α
  doCond : Bool
  lock : Option Nat          -- owner of the mutex
  threads : List (Thread α)
  pushed : List α            -- ghost: every value a Push has stored, in the order of the critical sections
  popped : List α            -- ghost: every value a Pop has returned

inductive Act | acquire (t : Nat) | body (t : Nat) | wake (t : Nat)
deriving Repr

variable {α : Type}

def initial (s : Stack α) (progs : List (List (TOp α))) : TS α :=
  { stack := s, doCond := true, lock := none, threads := progs.map fun p => ⟨p, .start, []⟩, pushed := [], popped := [] }

/-- the code a thread runs while it holds the mutex; result: the new global state and this thread's new record.
    `none`: out-of-bounds access in `Push` (fault) -/
def bodyOf (st : TS α) (th : Thread α) : Option (TS α × Thread α) :=
  match th.prog with
  | [] => none
  | .push x :: rest =>
    -- `if (n == nalloc) realloc; data[n] = x; n++; if (do_cond) pthread_cond_signal; unlock`
    match push st.stack x with
    | none => none
    | some s' => some ({ st with stack := s', lock := none, pushed := st.pushed ++ [x] }, ⟨rest, .start, th.outs ++ [.done]⟩)
  | .pop :: rest =>
    -- `while (do_cond && n == 0) pthread_cond_wait(cond, mutex);`
    if st.doCond && st.stack.data.size == 0 then
      some ({ st with lock := none }, { th with phase := .waiting })
    else
      match pop st.stack with
      | (s', some x) => some ({ st with stack := s', lock := none, popped := st.popped ++ [x] }, ⟨rest, .start, th.outs ++ [.val x]⟩)
      | (s', none) => some ({ st with stack := s', lock := none }, ⟨rest, .start, th.outs ++ [.eod]⟩)
  | .drain :: rest =>
    if st.doCond && st.stack.data.size == 0 then
      some ({ st with lock := none }, { th with phase := .waiting })
    else
      match pop st.stack with
      | (s', some x) =>          -- got one: the worker loop calls Pop again
        some ({ st with stack := s', lock := none, popped := st.popped ++ [x] }, ⟨.drain :: rest, .start, th.outs ++ [.val x]⟩)
      | (s', none) => some ({ st with stack := s', lock := none }, ⟨rest, .start, th.outs ++ [.eod]⟩)
  | .release :: rest =>
    -- `if (!do_cond) ESL_EXCEPTION(eslESYS); lock; do_cond = FALSE; broadcast; unlock`
    if st.doCond then some ({ st with doCond := false, lock := none }, ⟨rest, .start, th.outs ++ [.done]⟩)
    else some ({ st with lock := none }, ⟨rest, .start, th.outs ++ [.esys]⟩)

/-- one scheduler action; `none`: the action is not enabled in this state (or `Push` faulted) -/
def fire (st : TS α) : Act → Option (TS α)
  | .acquire t =>
    match st.threads[t]?, st.lock with
    | some th, none =>
      if th.phase = .start ∧ th.prog ≠ [] then some { st with lock := some t, threads := st.threads.set t { th with phase := .holding } }
      else none
    | _, _ => none
  | .wake t =>
    match st.threads[t]? with
    | some th => if th.phase = .waiting then some { st with threads := st.threads.set t { th with phase := .start } } else none
    | none => none
  | .body t =>
    match st.threads[t]? with
    | some th =>
      if th.phase = .holding ∧ st.lock = some t then
        match bodyOf st th with
        | none => none
        | some (st', th') => some { st' with threads := st'.threads.set t th' }
      else none
    | none => none

def runSched : TS α → List Act → Option (TS α)
  | st, [] => some st
  | st, a :: rest => match fire st a with | none => none | some st' => runSched st' rest

/-- the values a program still pushes -/
def pushesOf : List (TOp α) → List α
  | [] => []
  | .push x :: rest => x :: pushesOf rest
  | _ :: rest => pushesOf rest

def pending (ths : List (Thread α)) : List α := ths.flatMap fun th => pushesOf th.prog

def finished (st : TS α) : Prop := ∀ th ∈ st.threads, th.prog = []

/-! ## a deterministic scheduler for the driver: it repeatedly gives every thread that can move one action, in the
order of a priority list (used to compute what the multi-threaded harness op must report; by `conservation` every
other schedule reports the same multiset) -/
def moveOf (st : TS α) (t : Nat) : Option Act :=
  match st.threads[t]? with
  | none => none
  | some th =>
    match th.phase with
    | .holding => some (.body t)
    | .start => if th.prog.isEmpty then none else if st.lock.isNone then some (.acquire t) else none
    | .waiting => if st.doCond && st.stack.data.size == 0 then none else some (.wake t)

/-- run thread `t` until it cannot move (finished, or asleep with nothing to wake it) -/
def runThread : Nat → Nat → TS α → TS α
  | 0, _, st => st
  | f+1, t, st =>
    match moveOf st t with
    | none => st
    | some a => match fire st a with | none => st | some st' => runThread f t st'

def runOrder (fuel : Nat) (st : TS α) (order : List Nat) : TS α := order.foldl (fun s t => runThread fuel t s) st

end EaselModel.Containers.StackThreads
