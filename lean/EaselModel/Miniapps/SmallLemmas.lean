import EaselModel.Miniapps.Small
/-! # C13 — what the streamed (`--small`) regurgitator does to the sequence lines of a Pfam record

`regurgitate_rows`: for EVERY configuration (keep list / skip list / column mask / none) and every record made of the header line,
sequence lines `name␣…␣text` and the `//` line, `esl_msafile2_RegurgitatePfam` (model `Small.regurgitate`) prints exactly the header, the
lines of the wanted sequences — name and spacing untouched, text restricted to the kept columns — and `//`; it reports `nseq_read`
= all rows and `nseq_regurged` = the wanted rows. With the empty configuration that is the identity; with a keep/skip list it is the
definition of `esl-alimanip --seq-k` and `--seq-r`; with a mask it is the definition of `esl-alimask` on the sequence lines. -/
namespace EaselModel.Miniapps.Small
open EaselModel.Miniapps

/-- a sequence line as the Pfam writer lays it out: name, `gap + 1` spaces, aligned text -/
structure Row where
  name : Line
  gap : Nat
  text : Line

def Row.line (r : Row) : Line := r.name ++ List.replicate (r.gap + 1) ' ' ++ r.text

/-- a row the regurgitator reads back unambiguously -/
structure Row.WF (r : Row) : Prop where
  name_ne : r.name ≠ []
  name_tok : ∀ c ∈ r.name, isDelim c = false
  name_head : ∀ c, r.name.head? = some c → c ≠ '#' ∧ c ≠ '/'
  text_ne : r.text ≠ []
  text_tok : ∀ c ∈ r.text, isDelim c = false

theorem notDelim_true {l : Line} (h : ∀ c ∈ l, isDelim c = false) : ∀ c ∈ l, (fun c => !isDelim c) c = true := by
  intro c hc; simp [h c hc]

theorem tok_word (w rest : Line) (k : Nat) (hne : w ≠ []) (hw : ∀ c ∈ w, isDelim c = false) :
    tok (w ++ List.replicate (k + 1) ' ' ++ rest) = some (w, List.replicate k ' ' ++ rest) := by
  have hsp : (fun c => !isDelim c) ' ' = false := by decide
  have e : w ++ List.replicate (k + 1) ' ' ++ rest = w ++ ' ' :: (List.replicate k ' ' ++ rest) := by
    simp [List.replicate_succ]
  have hd : (w ++ ' ' :: (List.replicate k ' ' ++ rest)).dropWhile isDelim = w ++ ' ' :: (List.replicate k ' ' ++ rest) := by
    apply dropWhile_head_stop
    intro c hc
    cases w with
    | nil => exact absurd rfl hne
    | cons a as => simp at hc; subst hc; exact hw _ (by simp)
  have hne' : (w ++ ' ' :: (List.replicate k ' ' ++ rest)).isEmpty = false := by
    cases w with
    | nil => exact absurd rfl hne
    | cons a as => rfl
  unfold tok
  rw [e]
  simp only [hd, hne', Bool.false_eq_true, ↓reduceIte]
  rw [takeWhile_app_stop _ _ _ (notDelim_true hw) hsp, dropWhile_app_stop _ _ _ (notDelim_true hw) hsp]
  rfl

theorem dropWhile_spaces (k : Nat) (t : Line) (p : Char → Bool) (hp : p ' ' = true) (ht : ∀ c, t.head? = some c → p c = false) :
    (List.replicate k ' ' ++ t).dropWhile p = t := by
  induction k with
  | zero => simpa using dropWhile_head_stop t ht
  | succ k ih => simp [List.replicate_succ, List.dropWhile, hp, ih]

theorem tok_last (k : Nat) (t : Line) (hne : t ≠ []) (ht : ∀ c ∈ t, isDelim c = false) :
    tok (List.replicate k ' ' ++ t) = some (t, []) := by
  have hhead : ∀ c, t.head? = some c → isDelim c = false := by
    intro c hc
    cases t with
    | nil => simp at hc
    | cons a as => simp at hc; subst hc; exact ht _ (by simp)
  have hd : (List.replicate k ' ' ++ t).dropWhile isDelim = t := dropWhile_spaces k t isDelim (by decide) hhead
  have hne' : t.isEmpty = false := by cases t with
    | nil => exact absurd rfl hne
    | cons a as => rfl
  unfold tok
  simp only [hd, hne', Bool.false_eq_true, ↓reduceIte]
  rw [takeWhile_all _ (notDelim_true ht), dropWhile_all _ (notDelim_true ht)]
  rfl

theorem takeWhile_spaces (k : Nat) (t : Line) (ht : ∀ c, t.head? = some c → c ≠ ' ') :
    (List.replicate k ' ' ++ t).takeWhile (· = ' ') = List.replicate k ' ' := by
  induction k with
  | zero =>
    cases t with
    | nil => rfl
    | cons a as =>
      have : a ≠ ' ' := ht a (by simp)
      simp [List.takeWhile, this]
  | succ k ih =>
    rw [List.replicate_succ, List.cons_append, List.takeWhile_cons]
    simp [ih]

theorem spacelen_spaces (k : Nat) (t : Line) (ht : ∀ c, t.head? = some c → c ≠ ' ') :
    spacelen (List.replicate k ' ' ++ t) = k := by
  unfold spacelen
  rw [takeWhile_spaces k t ht]; simp

theorem padR_name (name : Line) (j : Nat) : padR (name.length + j) name = name ++ List.replicate j ' ' := by
  simp [padR]

/-- the text of a wanted sequence line after the optional column mask (never a structure line) -/
def maskRow (c : Cfg) (text : Line) : Line :=
  match c.useme with
  | none => text
  | some u => shrink u text

theorem maskText_seq (c : Cfg) (text : Line) : maskText c false text = some (maskRow c text) := by
  unfold maskText maskRow
  cases c.useme <;> simp

/-- the state after a sequence line -/
def afterRow (c : Cfg) (st : St) (r : Row) : St :=
  let st1 := { st with first := if st.nread = 0 then some r.name else st.first, nread := st.nread + 1 }
  if c.wants r.name then
    { st1 with out := (r.name ++ List.replicate (r.gap + 1) ' ' ++ maskRow c r.text) :: st1.out, nregurged := st1.nregurged + 1 }
  else st1

theorem lineStep_row (c : Cfg) (st : St) (r : Row) (h : r.WF)
    (hlen : st.expAlen = none ∨ st.expAlen = some r.text.length)
    (hfirst : st.nread ≠ 0 → st.first ≠ some r.name) :
    lineStep c st r.line = .cont (afterRow c st r) := by
  obtain ⟨a, as, hname⟩ : ∃ a as, r.name = a :: as := by
    cases hn : r.name with
    | nil => exact absurd hn h.name_ne
    | cons a as => exact ⟨a, as, rfl⟩
  have ha : isDelim a = false := h.name_tok a (by simp [hname])
  have ha' : a ≠ '#' ∧ a ≠ '/' := h.name_head a (by simp [hname])
  have hline : r.line = a :: (as ++ List.replicate (r.gap + 1) ' ' ++ r.text) := by simp [Row.line, hname]
  have hnsp : (a = ' ' || a = '\t') = false := by
    have := ha; simp only [isDelim] at this
    cases h1 : decide (a = ' ') <;> cases h2 : decide (a = '\t') <;> simp_all
  have hs : r.line.dropWhile (fun ch => ch = ' ' || ch = '\t') = r.line := by
    rw [hline]; simp only [List.dropWhile, hnsp]
  have hnr : a ≠ '\r' := by
    intro e; subst e; revert ha; decide
  have htok1 := tok_word r.name r.text r.gap h.name_ne h.name_tok
  have hthead : ∀ c, r.text.head? = some c → c ≠ ' ' := by
    intro c hc e; subst e
    cases ht : r.text with
    | nil => simp [ht] at hc
    | cons b bs =>
      simp [ht] at hc; subst hc
      have := h.text_tok ' ' (by simp [ht]); revert this; decide
  have htok2 := tok_last r.gap r.text h.text_ne h.text_tok
  have hsp := spacelen_spaces r.gap r.text hthead
  have hexp : (st.expAlen.isSome && st.expAlen != some r.text.length) = false := by
    rcases hlen with e | e <;> simp [e]
  have hf : (st.nread != 0 && decide (st.first = some r.name)) = false := by
    by_cases h0 : st.nread = 0
    · simp [h0]
    · simp [hfirst h0]
  unfold lineStep
  simp only [hs]
  have e1 : (r.line.head? = some '#') = False := by rw [hline]; simp [ha'.1]
  have e2 : startsWith r.line "//" = false := by
    rw [hline]; simp [startsWith, List.isPrefixOf, Ne.symm ha'.2]
  have e3 : (r.line.isEmpty || decide (r.line.head? = some '\r')) = false := by
    rw [hline]; simp [hnr]
  simp only [e1, ↓reduceIte, e2, Bool.false_eq_true, e3]
  show (match tok r.line with
    | none => Step.fail
    | some (name, r1) => _) = _
  rw [show r.line = r.name ++ List.replicate (r.gap + 1) ' ' ++ r.text from rfl, htok1]
  simp only [htok2, hsp, hexp, Bool.false_eq_true, ↓reduceIte, maskText_seq]
  have hf' : (st.nread != 0 && decide (st.first = some r.name)) = false := hf
  simp only [bne_iff_ne, ne_eq, Bool.and_eq_true, decide_eq_true_eq] at *
  unfold afterRow
  by_cases hw : c.wants r.name = true
  · by_cases h0 : st.nread = 0
    · simp [hw, h0, padR_name, List.replicate_succ', List.append_assoc]
    · have := hfirst h0
      simp [hw, h0, this, padR_name, List.replicate_succ', List.append_assoc]
  · by_cases h0 : st.nread = 0
    · simp [hw, h0]
    · have := hfirst h0
      simp [hw, h0, this]

/-! ## a whole record -/

def afterRows (c : Cfg) (st : St) : List Row → St
  | [] => st
  | r :: rs => afterRows c (afterRow c st r) rs

/-- what a wanted row looks like in the output -/
def Row.outLine (c : Cfg) (r : Row) : Line := r.name ++ List.replicate (r.gap + 1) ' ' ++ maskRow c r.text

def wanted (c : Cfg) (rows : List Row) : List Row := rows.filter fun r => c.wants r.name

@[simp] theorem afterRow_expAlen (c : Cfg) (st : St) (r : Row) : (afterRow c st r).expAlen = st.expAlen := by
  unfold afterRow; by_cases hw : c.wants r.name = true <;> simp [hw]
@[simp] theorem afterRow_nread (c : Cfg) (st : St) (r : Row) : (afterRow c st r).nread = st.nread + 1 := by
  unfold afterRow; by_cases hw : c.wants r.name = true <;> simp [hw]
@[simp] theorem afterRow_first (c : Cfg) (st : St) (r : Row) :
    (afterRow c st r).first = if st.nread = 0 then some r.name else st.first := by
  unfold afterRow; by_cases hw : c.wants r.name = true <;> simp [hw]
theorem afterRow_out (c : Cfg) (st : St) (r : Row) :
    (afterRow c st r).out = (if c.wants r.name then [r.outLine c] else []) ++ st.out := by
  unfold afterRow Row.outLine; by_cases hw : c.wants r.name = true <;> simp [hw]
theorem afterRow_nregurged (c : Cfg) (st : St) (r : Row) :
    (afterRow c st r).nregurged = st.nregurged + (if c.wants r.name then 1 else 0) := by
  unfold afterRow; by_cases hw : c.wants r.name = true <;> simp [hw]

theorem afterRows_summary (c : Cfg) (rows : List Row) (st : St) :
    (afterRows c st rows).out.reverse = st.out.reverse ++ (wanted c rows).map (Row.outLine c)
    ∧ (afterRows c st rows).nread = st.nread + rows.length
    ∧ (afterRows c st rows).nregurged = st.nregurged + (wanted c rows).length := by
  induction rows generalizing st with
  | nil => simp [afterRows, wanted]
  | cons r rs ih =>
    obtain ⟨h1, h2, h3⟩ := ih (afterRow c st r)
    refine ⟨?_, ?_, ?_⟩
    · rw [afterRows, h1, afterRow_out]
      by_cases hw : c.wants r.name = true <;> simp [wanted, List.filter, hw]
    · rw [afterRows, h2, afterRow_nread]; simp; omega
    · rw [afterRows, h3, afterRow_nregurged]
      by_cases hw : c.wants r.name = true <;> simp [wanted, List.filter, hw] <;> omega

theorem lineStep_end (c : Cfg) (st : St) : lineStep c st ['/', '/'] = .done { st with out := ['/', '/'] :: st.out } := by
  simp [lineStep, startsWith, List.isPrefixOf]

/-- the first-sequence-name test never fires: no later row repeats the name of the first one -/
def firstOk (st : St) : List Row → Prop
  | [] => True
  | r :: rs => (st.nread ≠ 0 → st.first ≠ some r.name) ∧
      firstOk { st with first := if st.nread = 0 then some r.name else st.first, nread := st.nread + 1 } rs

theorem firstOk_congr (st st' : St) (rows : List Row) (h1 : st.first = st'.first) (h2 : st.nread = st'.nread) :
    firstOk st rows → firstOk st' rows := by
  induction rows generalizing st st' with
  | nil => intro _; trivial
  | cons r rs ih =>
    intro ⟨a, b⟩
    refine ⟨by rw [← h1, ← h2]; exact a, ?_⟩
    exact ih _ _ (by simp [h1, h2]) (by simp [h2]) b

theorem body_rows (c : Cfg) (rows : List Row) (st : St) (rest : List Line)
    (hwf : ∀ r ∈ rows, r.WF)
    (hlen : ∀ r ∈ rows, st.expAlen = none ∨ st.expAlen = some r.text.length)
    (hfirst : firstOk st rows) :
    body c st (rows.map Row.line ++ "//".toList :: rest)
      = some ({ afterRows c st rows with out := "//".toList :: (afterRows c st rows).out }, rest) := by
  induction rows generalizing st with
  | nil => simp [body, lineStep_end, afterRows]
  | cons r rs ih =>
    have hstep := lineStep_row c st r (hwf r (by simp)) (hlen r (by simp)) hfirst.1
    simp only [List.map_cons, List.cons_append, body, hstep]
    rw [ih (afterRow c st r) (fun x hx => hwf x (by simp [hx])) (fun x hx => by simpa using hlen x (by simp [hx]))]
    · rfl
    · exact firstOk_congr _ _ rs (by simp) (by simp) hfirst.2

theorem firstOk_of_distinct (r0 : Row) (rs : List Row) (h : ∀ r ∈ rs, r.name ≠ r0.name) (st : St) (h0 : st.nread = 0) :
    firstOk st (r0 :: rs) := by
  refine ⟨fun hne => absurd h0 hne, ?_⟩
  have key : ∀ (rs : List Row) (st : St), st.nread ≠ 0 → st.first = some r0.name → (∀ r ∈ rs, r.name ≠ r0.name) → firstOk st rs := by
    intro rs
    induction rs with
    | nil => intros; trivial
    | cons r rs ih =>
      intro st hn hf hd
      refine ⟨fun _ => by rw [hf]; intro e; exact hd r (by simp) (by injection e with e; exact e.symm), ?_⟩
      apply ih
      · simp
      · simp [hn, hf]
      · intro x hx; exact hd x (by simp [hx])
  apply key rs _ (by simp) (by simp [h0]) h

/-- **`esl_msafile2_RegurgitatePfam` on a record of sequence lines**, any configuration: header, the wanted rows with their text
    restricted to the kept columns, `//`; counts of rows read and regurgitated; the rest of the file untouched. -/
theorem regurgitate_rows (c : Cfg) (ea : Option Nat) (hdr : Line) (r0 : Row) (rs : List Row) (rest : List Line)
    (hh : startsWith hdr "# STOCKHOLM 1." = true) (hnb : isBlankLine hdr = false)
    (hwf : ∀ r ∈ r0 :: rs, r.WF)
    (hlen : ∀ r ∈ r0 :: rs, ea = none ∨ ea = some r.text.length)
    (hdist : ∀ r ∈ rs, r.name ≠ r0.name) :
    regurgitate c ea (hdr :: (r0 :: rs).map Row.line ++ "//".toList :: rest)
      = .ok (hdr :: (wanted c (r0 :: rs)).map (Row.outLine c) ++ ["//".toList], (r0 :: rs).length, (wanted c (r0 :: rs)).length, rest) := by
  unfold regurgitate
  have hdw : (hdr :: (r0 :: rs).map Row.line ++ "//".toList :: rest).dropWhile isBlankLine
      = hdr :: ((r0 :: rs).map Row.line ++ "//".toList :: rest) := by
    simp [List.dropWhile, hnb]
  rw [hdw]
  simp only [hh, Bool.not_true, Bool.false_eq_true, ↓reduceIte]
  rw [body_rows c (r0 :: rs) { out := [hdr], expAlen := ea } rest hwf (fun r hr => hlen r hr)
      (firstOk_of_distinct r0 rs hdist _ rfl)]
  obtain ⟨h1, h2, h3⟩ := afterRows_summary c (r0 :: rs) { out := [hdr], expAlen := ea }
  simp only [List.reverse_cons, h1, h2, h3]
  simp

/-- no keep list, no skip list, no mask: the record comes out as it went in -/
theorem regurgitate_identity (hdr : Line) (r0 : Row) (rs : List Row) (rest : List Line)
    (hh : startsWith hdr "# STOCKHOLM 1." = true) (hnb : isBlankLine hdr = false)
    (hwf : ∀ r ∈ r0 :: rs, r.WF) (hdist : ∀ r ∈ rs, r.name ≠ r0.name) :
    regurgitate {} none (hdr :: (r0 :: rs).map Row.line ++ "//".toList :: rest)
      = .ok (hdr :: (r0 :: rs).map Row.line ++ ["//".toList], (r0 :: rs).length, (r0 :: rs).length, rest) := by
  rw [regurgitate_rows {} none hdr r0 rs rest hh hnb hwf (fun _ _ => Or.inl rfl) hdist]
  have hw : wanted {} (r0 :: rs) = r0 :: rs := by
    simp [wanted, Cfg.wants]
  have ho : ∀ r : Row, Row.outLine {} r = r.line := by intro r; simp [Row.outLine, Row.line, maskRow]
  rw [hw]; simp [ho]

end EaselModel.Miniapps.Small

/-! ## esl-reformat --small, Pfam -> aligned FASTA: the streamed path prints what the non-small reference prints -/
namespace EaselModel.Miniapps.Small
open EaselModel.Miniapps

theorem notSpTab_true {l : Line} (h : ∀ c ∈ l, isDelim c = false) : ∀ c ∈ l, (fun c => !isSpTab' c) c = true := by
  intro c hc
  have := h c hc
  simp only [isDelim, isSpTab'] at *
  cases h1 : decide (c = ' ') <;> cases h2 : decide (c = '\t') <;> simp_all

theorem mtok_word (w rest : Line) (k : Nat) (hne : w ≠ []) (hw : ∀ c ∈ w, isDelim c = false) :
    mtok (w ++ List.replicate (k + 1) ' ' ++ rest) = some (w, List.replicate (k + 1) ' ' ++ rest) := by
  have hsp : (fun c => !isSpTab' c) ' ' = false := by decide
  have e : w ++ List.replicate (k + 1) ' ' ++ rest = w ++ ' ' :: (List.replicate k ' ' ++ rest) := by
    simp [List.replicate_succ]
  have hd : (w ++ ' ' :: (List.replicate k ' ' ++ rest)).dropWhile isSpTab' = w ++ ' ' :: (List.replicate k ' ' ++ rest) := by
    apply dropWhile_head_stop
    intro c hc
    cases w with
    | nil => exact absurd rfl hne
    | cons a as =>
      simp at hc; rw [← hc]
      have := notSpTab_true hw a (by simp); simpa using this
  have hne' : (w ++ ' ' :: (List.replicate k ' ' ++ rest)).isEmpty = false := by
    cases w with
    | nil => exact absurd rfl hne
    | cons a as => rfl
  unfold mtok
  rw [e]
  simp only [hd, hne', Bool.false_eq_true, ↓reduceIte]
  rw [takeWhile_app_stop _ _ _ (notSpTab_true hw) hsp, dropWhile_app_stop _ _ _ (notSpTab_true hw) hsp]
  simp [List.replicate_succ]

theorem mtok_last (k : Nat) (t : Line) (hne : t ≠ []) (ht : ∀ c ∈ t, isDelim c = false) :
    mtok (List.replicate k ' ' ++ t) = some (t, []) := by
  have hhead : ∀ c, t.head? = some c → isSpTab' c = false := by
    intro c hc
    cases t with
    | nil => simp at hc
    | cons a as =>
      simp at hc; rw [← hc]
      have := notSpTab_true ht a (by simp); simpa using this
  have hd : (List.replicate k ' ' ++ t).dropWhile isSpTab' = t := dropWhile_spaces k t isSpTab' (by decide) hhead
  have hne' : t.isEmpty = false := by cases t with
    | nil => exact absurd rfl hne
    | cons a as => rfl
  unfold mtok
  simp only [hd, hne', Bool.false_eq_true, ↓reduceIte]
  rw [takeWhile_all _ (notSpTab_true ht), dropWhile_all _ (notSpTab_true ht)]

/-- the FASTA record the non-small reference makes of a row (`esl-reformat afa`: no description without #=GS DE) -/
def Row.toRec (r : Row) : Rec := { name := r.name, desc := [], seq := r.text }

/-- the lines the streamed path prints for the row with index `idx` -/
def afaRowLines (o : ReformatOpts) (idx : Nat) (r : Row) : List Line :=
  renderRec 60 (renameRec o idx { r.toRec with seq := r.text.map (convChar o true) })

theorem afaRowLines_eq (o : ReformatOpts) (idx : Nat) (r : Row) :
    afaRowLines o idx r = ('>' :: (match o.rename with
        | some rn => rn ++ '.' :: (toString (idx + 1)).toList
        | none => r.name)) :: chunks 60 (r.text.map (convChar o true)) := by
  obtain ⟨rp, lo, up, rna, dna, iu, xb, gs, rn⟩ := o
  cases rn <;> simp [afaRowLines, renderRec, headerLine, renameRec, Row.toRec]

def afaOut (o : ReformatOpts) : Nat → List Row → List Line
  | _, [] => []
  | k, r :: rs => afaRowLines o k r ++ afaOut o (k + 1) rs

/-- the "two seqs named …" test never fires -/
def namesOk (nread : Nat) (first : Option Line) (rows : List Row) : Prop :=
  (nread = 0 → match rows with | [] => True | r0 :: rs => ∀ r ∈ rs, r.name ≠ r0.name) ∧
  (nread ≠ 0 → ∀ r ∈ rows, first ≠ some r.name)

theorem row_line_head (r : Row) (h : r.WF) :
    ∃ a rest, r.line = a :: rest ∧ isSpTab' a = false ∧ a ≠ '#' ∧ a ≠ '/' := by
  cases hn : r.name with
  | nil => exact absurd hn h.name_ne
  | cons a as =>
    refine ⟨a, as ++ List.replicate (r.gap + 1) ' ' ++ r.text, by simp [Row.line, hn], ?_, ?_, ?_⟩
    · have := notSpTab_true h.name_tok a (by simp [hn]); simpa using this
    · exact (h.name_head a (by simp [hn])).1
    · exact (h.name_head a (by simp [hn])).2

theorem afaBody_rows (o : ReformatOpts) (rows : List Row) (nread : Nat) (first : Option Line) (acc rest : List Line)
    (hwf : ∀ r ∈ rows, r.WF) (hok : namesOk nread first rows) :
    reformatSmallAfaBody o [] [] nread first (rows.map Row.line ++ "//".toList :: rest) acc
      = some (acc.reverse ++ afaOut o nread rows) := by
  induction rows generalizing nread first acc with
  | nil =>
    simp [reformatSmallAfaBody, isSpTab', startsWith, List.isPrefixOf, afaOut, List.dropWhile]
  | cons r rs ih =>
    have h := hwf r (by simp)
    obtain ⟨a, tl, hline, hsp, hh, hs⟩ := row_line_head r h
    have hp : r.line.dropWhile isSpTab' = r.line := by rw [hline]; simp [List.dropWhile, hsp]
    have e1 : (r.line.isEmpty || decide (r.line.head? = some '#')) = false := by rw [hline]; simp [hh]
    have e2 : startsWith r.line "//" = false := by rw [hline]; simp [startsWith, List.isPrefixOf, Ne.symm hs]
    have ht1 := mtok_word r.name r.text r.gap h.name_ne h.name_tok
    have ht2 := mtok_last (r.gap + 1) r.text h.text_ne h.text_tok
    have hfirst : (nread != 0 && decide (first = some r.name)) = false := by
      by_cases h0 : nread = 0
      · simp [h0]
      · have := hok.2 h0 r (by simp); simp [this]
    have hok' : namesOk (nread + 1) (if nread = 0 then some r.name else first) rs := by
      refine ⟨fun e => by omega, fun _ x hx => ?_⟩
      by_cases h0 : nread = 0
      · have := hok.1 h0
        simp only [h0, ↓reduceIte]
        intro e; injection e with e
        exact this x hx e.symm
      · simp only [h0, ↓reduceIte]
        exact hok.2 h0 x (by simp [hx])
    simp only [List.map_cons, List.cons_append]
    rw [reformatSmallAfaBody]
    simp only [hp, e1, e2, Bool.false_eq_true, ↓reduceIte]
    rw [show r.line = r.name ++ List.replicate (r.gap + 1) ' ' ++ r.text from rfl, ht1]
    simp only [ht2]
    simp only [hfirst, Bool.false_eq_true, ↓reduceIte, List.head?_nil, Option.map_none, reduceCtorEq, List.append_nil]
    rw [ih (nread + 1) _ _ (fun x hx => hwf x (by simp [hx])) hok']
    congr 1
    rw [afaOut, afaRowLines_eq]
    simp [List.append_assoc]
    rfl

theorem afaOut_eq_reference (o : ReformatOpts) (rows : List Row) (k : Nat) :
    afaOut o k rows = ((rows.map Row.toRec).mapIdx fun i r => renameRec o (i + k) { r with seq := r.seq.map (convChar o true) }).flatMap (renderRec 60) := by
  induction rows generalizing k with
  | nil => simp [afaOut]
  | cons r rs ih =>
    rw [afaOut, ih (k + 1), List.map_cons, List.mapIdx_cons, List.flatMap_cons]
    have e : (fun i (r : Rec) => renameRec o (i + 1 + k) { r with seq := r.seq.map (convChar o true) })
        = (fun i (r : Rec) => renameRec o (i + (k + 1)) { r with seq := r.seq.map (convChar o true) }) := by
      funext i r; congr 1; omega
    simp only [Nat.zero_add, afaRowLines, Row.toRec, e]

theorem takeWhile_append_stop {α : Type} (p : α → Bool) (a : List α) (x : α) (b : List α)
    (ha : ∀ c ∈ a, p c = true) (hx : p x = false) : (a ++ x :: b).takeWhile p = a := by
  induction a with
  | nil => simp [List.takeWhile, hx]
  | cons c cs ih =>
    simp only [List.cons_append, List.takeWhile, ha c (by simp)]
    rw [ih (fun d hd => ha d (by simp [hd]))]

theorem gsQueue_nil (tag : String) (ls : List Line)
    (h : ∀ l ∈ ls, startsWith (l.dropWhile isSpTab') "#=GS" = false) : gsQueue tag ls = [] := by
  induction ls with
  | nil => rfl
  | cons l ls ih =>
    simp only [gsQueue, List.filterMap_cons, h l (by simp), Bool.false_eq_true, ↓reduceIte]
    exact ih (fun x hx => h x (by simp [hx]))

/-- **`esl-reformat --small --informat pfam afa`** on a record of sequence lines prints, for EVERY option setting (`-d -l -n -r -u -x
    --gapsym --replace --rename`), exactly the text of the non-small reference `reformatText (reformatAfa o recs)` on the same rows:
    same names (or the `--rename` numbering), same converted residues, 60 per line. -/
theorem reformatSmallAfa_eq_reference (o : ReformatOpts) (hdr : Line) (r0 : Row) (rs : List Row) (rest : List Line)
    (h1 : hdr.all isSpTab' = false) (h2 : startsWith hdr "# STOCKHOLM" = true) (h3 : startsWith hdr "# STOCKHOLM 1." = true)
    (hwf : ∀ r ∈ r0 :: rs, r.WF) (hdist : ∀ r ∈ rs, r.name ≠ r0.name) :
    reformatSmallAfa o (hdr :: (r0 :: rs).map Row.line ++ "//".toList :: rest)
      = some (renderLines 60 (reformatAfa o ((r0 :: rs).map Row.toRec))) := by
  have hrowp : ∀ r ∈ r0 :: rs, (fun l : Line => !startsWith (l.dropWhile isSpTab') "//") r.line = true := by
    intro r hr
    obtain ⟨a, tl, hline, hsp, _, hs⟩ := row_line_head r (hwf r hr)
    rw [hline]; simp [List.dropWhile, hsp, startsWith, List.isPrefixOf, Ne.symm hs]
  have hgs : ∀ l ∈ (r0 :: rs).map Row.line, startsWith (l.dropWhile isSpTab') "#=GS" = false := by
    intro l hl
    obtain ⟨r, hr, rfl⟩ := List.mem_map.mp hl
    obtain ⟨a, tl, hline, hsp, hh, _⟩ := row_line_head r (hwf r hr)
    rw [hline]; simp [List.dropWhile, hsp, startsWith, List.isPrefixOf, Ne.symm hh]
  have htw : ((r0 :: rs).map Row.line ++ "//".toList :: rest).takeWhile (fun l => !startsWith (l.dropWhile isSpTab') "//")
      = (r0 :: rs).map Row.line := by
    apply takeWhile_append_stop
    · intro l hl
      obtain ⟨r, hr, rfl⟩ := List.mem_map.mp hl
      exact hrowp r hr
    · simp [startsWith, List.isPrefixOf, List.dropWhile, isSpTab']
  unfold reformatSmallAfa
  have hdw : (hdr :: (r0 :: rs).map Row.line ++ "//".toList :: rest).dropWhile
      (fun l => l.all isSpTab' || (startsWith l "#" && !startsWith l "# STOCKHOLM"))
      = hdr :: ((r0 :: rs).map Row.line ++ "//".toList :: rest) := by
    simp [List.dropWhile, h1, h2]
  rw [hdw]
  simp only [h3, Bool.not_true, Bool.false_eq_true, ↓reduceIte, htw, gsQueue_nil _ _ hgs]
  rw [afaBody_rows o (r0 :: rs) 0 none [] rest hwf ⟨fun _ => hdist, fun h => absurd rfl h⟩, afaOut_eq_reference]
  simp [renderLines, reformatAfa]

/-! ## esl-reformat --small, Pfam -> Pfam: names and spacing untouched, residues converted pointwise -/

theorem takeWhile_spaces' (k : Nat) (t : Line) (ht : ∀ c, t.head? = some c → isSpTab' c = false) :
    (List.replicate k ' ' ++ t).takeWhile isSpTab' = List.replicate k ' ' := by
  induction k with
  | zero =>
    cases t with
    | nil => rfl
    | cons a as =>
      have : isSpTab' a = false := ht a (by simp)
      simp [List.takeWhile, this]
  | succ k ih =>
    rw [List.replicate_succ, List.cons_append, List.takeWhile_cons]
    simp [ih, isSpTab']

/-- the output line of a row: `%.*s%*s%s` = name, the original run of blanks, the converted text -/
def Row.pfamOut (o : ReformatOpts) (r : Row) : Line := r.name ++ List.replicate (r.gap + 1) ' ' ++ r.text.map (convChar o true)

theorem pfamBody_rows (o : ReformatOpts) (rows : List Row) (ea : Option Nat) (nread : Nat) (first : Option Line) (acc rest : List Line)
    (hwf : ∀ r ∈ rows, r.WF) (hok : namesOk nread first rows)
    (hlen : ∀ r ∈ rows, (ea = none ∨ ea = some r.text.length) ∧ ∀ r' ∈ rows, r'.text.length = r.text.length) :
    reformatSmallPfamBody o ea first nread (rows.map Row.line ++ "//".toList :: rest) acc
      = some (acc.reverse ++ rows.map (Row.pfamOut o) ++ ["//".toList], rest) := by
  induction rows generalizing ea nread first acc with
  | nil =>
    simp [reformatSmallPfamBody, isSpTab', startsWith, List.isPrefixOf, List.dropWhile]
  | cons r rs ih =>
    have h := hwf r (by simp)
    obtain ⟨a, tl, hline, hsp, hh, hs⟩ := row_line_head r h
    have hp : r.line.dropWhile isSpTab' = r.line := by rw [hline]; simp [List.dropWhile, hsp]
    have e0 : r.line.isEmpty = false := by rw [hline]; rfl
    have e1 : (r.line.head? = some '#') = False := by rw [hline]; simp [hh]
    have e2 : startsWith r.line "//" = false := by rw [hline]; simp [startsWith, List.isPrefixOf, Ne.symm hs]
    have ht1 := mtok_word r.name r.text r.gap h.name_ne h.name_tok
    have ht2 := mtok_last (r.gap + 1) r.text h.text_ne h.text_tok
    have hthead : ∀ c, r.text.head? = some c → isSpTab' c = false := by
      intro c hc
      cases ht : r.text with
      | nil => simp [ht] at hc
      | cons b bs =>
        simp [ht] at hc; rw [← hc]
        have := notSpTab_true h.text_tok b (by simp [ht]); simpa using this
    have htw := takeWhile_spaces' (r.gap + 1) r.text hthead
    have hfirst : (nread != 0 && decide (first = some r.name)) = false := by
      by_cases h0 : nread = 0
      · simp [h0]
      · have := hok.2 h0 r (by simp); simp [this]
    have hea : (ea.isSome && ea != some r.text.length) = false := by
      rcases (hlen r (by simp)).1 with e | e <;> simp [e]
    have hok' : namesOk (nread + 1) (if nread = 0 then some r.name else first) rs := by
      refine ⟨fun e => by omega, fun _ x hx => ?_⟩
      by_cases h0 : nread = 0
      · have := hok.1 h0
        simp only [h0, ↓reduceIte]
        intro e; injection e with e
        exact this x hx e.symm
      · simp only [h0, ↓reduceIte]
        exact hok.2 h0 x (by simp [hx])
    simp only [List.map_cons, List.cons_append]
    rw [reformatSmallPfamBody]
    simp only [hp, e0, e1, e2, Bool.false_eq_true, ↓reduceIte]
    rw [show r.line = r.name ++ List.replicate (r.gap + 1) ' ' ++ r.text from rfl, ht1]
    simp only [ht2, htw, hea, hfirst, Bool.false_eq_true, ↓reduceIte]
    rw [ih (some r.text.length) (nread + 1) _ _ (fun x hx => hwf x (by simp [hx])) hok'
      (fun x hx => ⟨Or.inr (by rw [(hlen r (by simp)).2 x (by simp [hx])]), fun y hy => (hlen x (by simp [hx])).2 y (by simp [hy])⟩)]
    simp [Row.pfamOut, List.length_replicate, Nat.sub_self, List.append_assoc]

end EaselModel.Miniapps.Small
