import EaselModel.Miniapps.Text
/-! # C13 — a simple FASTA reader/writer used as the independent computation for the sequence tools

`parseLines` is the specification-level reader for well-formed FASTA (what `esl_sqio` returns for such files):
a record starts at a line beginning with `>`; name = first blank-delimited word, description = rest of the line;
residues = every non-blank character of the following lines up to the next header.
`renderLines w` is `esl_sqascii_WriteFasta` with `w` residues per line (Easel: 60). -/
namespace EaselModel.Miniapps

structure Rec where
  name : List Char
  desc : List Char
  seq : List Char
deriving DecidableEq, Repr, Inhabited

def isSpTab (c : Char) : Bool := c = ' ' || c = '\t'

/-- header line without its leading `>` ↦ (name, description); mirrors `header_fasta` -/
def parseHeader (l : Line) : List Char × List Char :=
  let l := l.dropWhile isSpTab
  let name := l.takeWhile (fun c => !isBlank c)
  let rest := (l.dropWhile (fun c => !isBlank c)).dropWhile isSpTab
  let desc := rest.takeWhile (fun c => !(c = '\r' || c = '\x01'))
  (name, desc)

def mkRec (h : Line) (seq : List Char) : Rec :=
  let nd := parseHeader h
  { name := nd.1, desc := nd.2, seq := seq }

def parseStep (l : Line) (st : List Char × List Rec) : List Char × List Rec :=
  match l with
  | '>' :: h => ([], mkRec h st.1 :: st.2)
  | _ => (l.filter (fun c => !isBlank c) ++ st.1, st.2)

/-- lines ↦ records (lines before the first header are dropped: they are blank in a well-formed file) -/
def parseLines (ls : List Line) : List Rec := (ls.foldr parseStep ([], [])).2

def parseFasta (f : List Char) : List Rec := parseLines (fileLines f)

def headerLine (r : Rec) : Line := '>' :: (r.name ++ (if r.desc = [] then [] else ' ' :: r.desc))

def renderRec (w : Nat) (r : Rec) : List Line := headerLine r :: chunks w r.seq

def renderLines (w : Nat) (rs : List Rec) : List Line := rs.flatMap (renderRec w)

def renderFasta (w : Nat) (rs : List Rec) : List Char := unlines (renderLines w rs)

/-- a record that the writer emits unambiguously -/
structure Rec.WF (r : Rec) : Prop where
  name_ne : r.name ≠ []
  name_nonblank : ∀ c ∈ r.name, isBlank c = false
  desc_head : ∀ c, r.desc.head? = some c → isSpTab c = false
  desc_chars : ∀ c ∈ r.desc, (c = '\r' || c = '\x01') = false
  seq_chars : ∀ c ∈ r.seq, isBlank c = false ∧ c ≠ '>'

theorem takeWhile_app_stop {p : Char → Bool} (a : List Char) (x : Char) (b : List Char)
    (ha : ∀ c ∈ a, p c = true) (hx : p x = false) : (a ++ x :: b).takeWhile p = a := by
  induction a with
  | nil => simp [List.takeWhile, hx]
  | cons c cs ih =>
    have hc : p c = true := ha c (by simp)
    simp only [List.cons_append, List.takeWhile, hc]
    rw [ih (fun d hd => ha d (by simp [hd]))]

theorem dropWhile_app_stop {p : Char → Bool} (a : List Char) (x : Char) (b : List Char)
    (ha : ∀ c ∈ a, p c = true) (hx : p x = false) : (a ++ x :: b).dropWhile p = x :: b := by
  induction a with
  | nil => simp [List.dropWhile, hx]
  | cons c cs ih =>
    have hc : p c = true := ha c (by simp)
    simp only [List.cons_append, List.dropWhile, hc]
    exact ih (fun d hd => ha d (by simp [hd]))

theorem takeWhile_all {p : Char → Bool} (a : List Char) (ha : ∀ c ∈ a, p c = true) : a.takeWhile p = a := by
  induction a with
  | nil => rfl
  | cons c cs ih =>
    simp only [List.takeWhile, ha c (by simp)]
    rw [ih (fun d hd => ha d (by simp [hd]))]

theorem dropWhile_all {p : Char → Bool} (a : List Char) (ha : ∀ c ∈ a, p c = true) : a.dropWhile p = [] := by
  induction a with
  | nil => rfl
  | cons c cs ih =>
    simp only [List.dropWhile, ha c (by simp)]
    exact ih (fun d hd => ha d (by simp [hd]))

theorem dropWhile_head_stop {p : Char → Bool} (a : List Char) (h : ∀ c, a.head? = some c → p c = false) :
    a.dropWhile p = a := by
  cases a with
  | nil => rfl
  | cons c cs => simp [List.dropWhile, h c (by simp)]

theorem isSpTab_blank (c : Char) (h : isBlank c = false) : isSpTab c = false := by
  simp only [isBlank, isSpTab, Bool.or_eq_false_iff, decide_eq_false_iff_not] at *
  exact ⟨h.1.1.1.1.1, h.1.1.1.1.2⟩

theorem parseHeader_headerLine (r : Rec) (h : r.WF) :
    parseHeader (r.name ++ (if r.desc = [] then [] else ' ' :: r.desc)) = (r.name, r.desc) := by
  have hn : ∀ c ∈ r.name, (!isBlank c) = true := fun c hc => by simp [h.name_nonblank c hc]
  have hhead : ∀ (t : List Char) (c : Char), (r.name ++ t).head? = some c → isSpTab c = false := by
    intro t c hc
    cases hr : r.name with
    | nil => exact absurd hr h.name_ne
    | cons a u =>
      simp [hr] at hc; subst hc
      exact isSpTab_blank a (h.name_nonblank a (by simp [hr]))
  by_cases hd : r.desc = []
  · simp only [hd, ↓reduceIte, parseHeader]
    rw [dropWhile_head_stop _ (hhead []), List.append_nil, takeWhile_all _ hn, dropWhile_all _ hn]
    simp [List.dropWhile, List.takeWhile]
  · simp only [hd, ↓reduceIte, parseHeader]
    have hsp : (!isBlank ' ') = false := by decide
    rw [dropWhile_head_stop _ (hhead _), takeWhile_app_stop _ _ _ hn hsp, dropWhile_app_stop _ _ _ hn hsp]
    have h2 : (' ' :: r.desc).dropWhile isSpTab = r.desc := by
      simp only [List.dropWhile, show isSpTab ' ' = true by decide]
      exact dropWhile_head_stop _ h.desc_head
    rw [h2, takeWhile_all _ (fun c hc => by simp [h.desc_chars c hc])]

theorem foldr_body (ls : List Line) (hls : ∀ l ∈ ls, l.head? ≠ some '>') (p : List Char) (R : List Rec) :
    ls.foldr parseStep (p, R) = (ls.flatten.filter (fun c => !isBlank c) ++ p, R) := by
  induction ls with
  | nil => simp
  | cons l ls ih =>
    rw [List.foldr_cons, ih (fun x hx => hls x (by simp [hx]))]
    have hl := hls l (by simp)
    cases l with
    | nil => simp [parseStep]
    | cons c cs =>
      have hc : c ≠ '>' := by intro e; apply hl; simp [e]
      unfold parseStep
      split
      · rename_i h' heq; cases heq; exact absurd rfl hc
      · rw [List.flatten_cons, List.filter_append, List.append_assoc]

theorem filter_all {p : Char → Bool} (a : List Char) (ha : ∀ c ∈ a, p c = true) : a.filter p = a := by
  induction a with
  | nil => rfl
  | cons c cs ih => simp [List.filter, ha c (by simp), ih (fun d hd => ha d (by simp [hd]))]

theorem parse_render_aux (w : Nat) (hw : 0 < w) (rs : List Rec) (h : ∀ r ∈ rs, r.WF) :
    (renderLines w rs).foldr parseStep ([], []) = ([], rs) := by
  induction rs with
  | nil => simp [renderLines]
  | cons r rs ih =>
    have hr := h r (by simp)
    have : renderLines w (r :: rs) = headerLine r :: (chunks w r.seq ++ renderLines w rs) := by
      simp [renderLines, renderRec]
    rw [this, List.foldr_cons, List.foldr_append, ih (fun x hx => h x (by simp [hx]))]
    have hch : ∀ l ∈ chunks w r.seq, l.head? ≠ some '>' := by
      intro l hl e
      have hne := chunks_ne_nil w r.seq l hl
      cases l with
      | nil => exact hne rfl
      | cons a t =>
        simp at e; subst e
        exact (hr.seq_chars _ (chunks_mem_sub w r.seq _ hl _ (by simp))).2 rfl
    rw [foldr_body _ hch, chunks_flatten w hw,
      filter_all _ (fun c hc => by simp [(hr.seq_chars c hc).1])]
    simp only [headerLine, parseStep, mkRec, List.append_nil, parseHeader_headerLine r hr]

/-- **write ∘ read = id**: reading back what the FASTA writer wrote, at ANY line width `w ≥ 1`, returns the records.
    Hence the reader's result does not depend on how the residues are wrapped into lines. -/
theorem parseLines_renderLines (w : Nat) (hw : 0 < w) (rs : List Rec) (h : ∀ r ∈ rs, r.WF) :
    parseLines (renderLines w rs) = rs := by
  simp [parseLines, parse_render_aux w hw rs h]

theorem chunks_no_nl (w : Nat) (s : List Char) (h : '\n' ∉ s) : ∀ l ∈ chunks w s, '\n' ∉ l := by
  intro l hl hc
  exact h (chunks_mem_sub w s l hl _ hc)

/-- file level: the text written by the FASTA writer (any width ≥ 1), read back, gives the records -/
theorem parseFasta_renderFasta (w : Nat) (hw : 0 < w) (rs : List Rec) (h : ∀ r ∈ rs, r.WF)
    (hd : ∀ r ∈ rs, '\n' ∉ r.desc) : parseFasta (renderFasta w rs) = rs := by
  have hnl : ∀ l ∈ renderLines w rs, '\n' ∉ l := by
    intro l hl
    simp only [renderLines, List.mem_flatMap] at hl
    obtain ⟨r, hr, hl⟩ := hl
    have hwf := h r hr
    simp only [renderRec, List.mem_cons] at hl
    cases hl with
    | inl e =>
      subst e
      intro hc
      simp only [headerLine, List.mem_cons, List.mem_append] at hc
      rcases hc with hc | hc | hc
      · exact absurd hc (by decide)
      · have := hwf.name_nonblank _ hc
        simp [isBlank] at this
      · split at hc
        · simp at hc
        · simp only [List.mem_cons] at hc
          rcases hc with hc | hc
          · exact absurd hc (by decide)
          · exact hd r hr hc
    | inr hl =>
      apply chunks_no_nl w r.seq _ l hl
      intro hc
      have := (hwf.seq_chars _ hc).1
      simp [isBlank] at this
  simp only [parseFasta, renderFasta, fileLines_unlines _ hnl, parseLines_renderLines w hw rs h]

end EaselModel.Miniapps
