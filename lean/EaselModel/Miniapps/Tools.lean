import EaselModel.Miniapps.Range
import EaselModel.Miniapps.Reformat
import EaselModel.Miniapps.Selectn
import EaselModel.Miniapps.Shuffle
import EaselModel.Miniapps.Translate
import EaselModel.Miniapps.Alistat
import EaselModel.Miniapps.Weight
import EaselModel.Miniapps.ReformatMsa
import EaselModel.Miniapps.Alimask
import EaselModel.Miniapps.Alimanip
import EaselModel.Miniapps.Afetch
import EaselModel.Miniapps.AlistatInfo
import EaselModel.Miniapps.Compstruct
import EaselModel.Miniapps.StoTools
import EaselModel.Miniapps.Compalign
import EaselModel.Miniapps.Small
import EaselModel.Miniapps.Alimerge
/-! # C13 — command-line front end of the reference functions: `runTool tool argv files` = predicted stdout -/
namespace EaselModel.Miniapps

structure Parsed where
  flags : List String := []
  vals : List (String × String) := []
  pos : List String := []

/-- options first (`-x`, `-x v`, `--long`, `--long v`), then positionals; anything else is outside the domain -/
def parseArgs (noArg withArg : List String) : List String → Parsed → Option Parsed
  | [], p => some { p with flags := p.flags.reverse, vals := p.vals.reverse, pos := p.pos.reverse }
  | a :: rest, p =>
    if noArg.contains a then
      if !p.pos.isEmpty || p.flags.contains a then none else parseArgs noArg withArg rest { p with flags := a :: p.flags }
    else if withArg.contains a then
      if !p.pos.isEmpty then none else
      match rest with
      | v :: rest' =>
        -- esl_getopts: "Arg looks like option?" for a string/file-typed value that starts with '-'; a numeric-typed option takes a
        -- negative number (the table's types are not known here: a value that starts with '-' passes only if it reads as a number)
        -- (a lone "-" passes too: character-typed options such as `esl-mask -m -`; string-typed ones are checked by their tool's front end)
        if v.startsWith "-" && v.length > 1 && !((v.toList.drop 1).all fun c => c.isDigit || c == '.') then none else
        if (p.vals.map (·.1)).contains a then none else parseArgs noArg withArg rest' { p with vals := (a, v) :: p.vals }
      | [] => none
    else if a.startsWith "-" && a.length > 1 && !(a.toList.drop 1).all Char.isDigit then none
    else parseArgs noArg withArg rest { p with pos := a :: p.pos }

def Parsed.has (p : Parsed) (f : String) : Bool := p.flags.contains f
def Parsed.val? (p : Parsed) (k : String) : Option String := (p.vals.find? (·.1 == k)).map (·.2)

/-- the explicit alphabet flag (the reference does not model alphabet guessing) -/
def abcOf (p : Parsed) : Option Abc :=
  match p.has "--dna", p.has "--rna", p.has "--amino" with
  | true, false, false => some .dna
  | false, true, false => some .rna
  | false, false, true => some .amino
  | _, _, _ => none

def allDigitizable (a : Abc) (rs : List Rec) : Bool :=
  rs.all fun r => r.seq.all fun c => (a.digit c).isSome && a.canon c != '-' && a.canon c != '*' && a.canon c != '~'

def runSeqstat (argv : List String) (files : String → Option (List Char)) : Option String := do
  let p ← parseArgs ["-a", "-c", "--dna", "--rna", "--amino", "--comptbl"] ["--informat"] argv {}
  match p.val? "--informat" with
  | some f => if f != "fasta" then none
  | none => pure ()
  let a ← abcOf p
  let [fn] := p.pos | none
  let f ← files fn
  let recs := parseFasta f
  if recs.isEmpty || !allDigitizable a recs then none
  some (seqstatText { perSeq := p.has "-a", comp := p.has "-c", comptbl := p.has "--comptbl" } a "FASTA" recs)

def sameLen (rs : List Rec) : Bool :=
  match rs with
  | [] => false
  | r :: t => r.seq.length > 0 && t.all fun x => x.seq.length == r.seq.length

def alignedOk (a : Abc) (rs : List Rec) : Bool :=
  sameLen rs && rs.all fun r => r.seq.all fun c => (a.digit c).isSome

def namesDistinct (rs : List Rec) : Bool := (rs.map (·.name)).eraseDups.length == rs.length

def fmtIs (p : Parsed) (k v : String) : Bool :=
  match p.val? k with
  | some f => f == v
  | none => false

/-- the three views of the alphabet flag: C13's characters, C03's reader configuration, C15's tables -/
def abc3Of (p : Parsed) : Option (Abc × EaselModel.Msafile.Abc × EaselModel.Msa.Abc) :=
  match p.has "--dna", p.has "--rna", p.has "--amino" with
  | true, false, false => some (.dna, EaselModel.Msafile.abcDna, EaselModel.Msa.Gen.dnaAbc)
  | false, true, false => some (.rna, EaselModel.Msafile.abcRna, EaselModel.Msa.Gen.rnaAbc)
  | false, false, true => some (.amino, EaselModel.Msafile.abcAmino, EaselModel.Msa.Gen.aminoAbc)
  | _, _, _ => none

def msaFormats : List String := ["stockholm", "pfam", "a2m", "afa", "psiblast", "clustal", "clustallike", "selex", "phylip", "phylips"]

def c2b (c : List Char) : List UInt8 := c.map fun x => UInt8.ofNat x.toNat
def b2s (b : List UInt8) : String := String.ofList (b.map fun x => Char.ofNat x.toNat)

def isSto (f : String) : Bool := f == "stockholm" || f == "pfam"

/-- esl-alirev --informat afa (--dna|--rna) <afa> -/
def runAlirev (argv : List String) (files : String → Option (List Char)) : Option String := do
  let p ← parseArgs ["--dna", "--rna"] ["--informat", "--outformat"] argv {}
  if isSto ((p.val? "--informat").getD "") then
    -- every alignment of a Stockholm / Pfam file: C15 ReverseComplement, then the C03 writer of the requested (default: input) format
    let infmt := (p.val? "--informat").getD ""
    let outfmt := (p.val? "--outformat").getD infmt
    if !msaFormats.contains outfmt then none
    let (_, fa, ta) ← abc3Of p
    let [fn] := p.pos | none
    return ← (Ali.alirevSto fa ta infmt outfmt (c2b (← files fn))).map b2s
  if !fmtIs p "--informat" "afa" then none
  match p.val? "--outformat" with
  | some f => if f != "afa" then none
  | none => pure ()
  let a ← abcOf p
  let [fn] := p.pos | none
  let recs := parseFasta (← files fn)
  if !alignedOk a recs || !namesDistinct recs then none
  some (alirevText a recs)

/-- esl-alipid --informat afa (--dna|--rna|--amino) [--noheader] <afa> -/
def runAlipid (argv : List String) (files : String → Option (List Char)) : Option String := do
  let p ← parseArgs ["--dna", "--rna", "--amino", "--noheader"] ["--informat"] argv {}
  if isSto ((p.val? "--informat").getD "") then
    let (a, fa, _) ← abc3Of p
    let [fn] := p.pos | none
    return ← Ali.alipidSto a fa (!p.has "--noheader") ((p.val? "--informat").getD "") (c2b (← files fn))
  if !fmtIs p "--informat" "afa" then none
  let a ← abcOf p
  let [fn] := p.pos | none
  let recs := parseFasta (← files fn)
  if !alignedOk a recs || !namesDistinct recs then none
  some (alipidText a (!p.has "--noheader") recs)

/-- esl-seqrange <fasta> <procidx> <nproc> (the SSI index only supplies the number of sequences) -/
def runSeqrange (argv : List String) (files : String → Option (List Char)) : Option String := do
  let p ← parseArgs [] ["--informat"] argv {}
  match p.val? "--informat" with
  | some f => if f != "fasta" then none
  | none => pure ()
  let [fn, pi, np] := p.pos | none
  let procidx ← pi.toNat?
  let nproc ← np.toNat?
  let recs := parseFasta (← files fn)
  if procidx < 1 || nproc < 1 || procidx > nproc || recs.length < nproc || !namesDistinct recs then none
  some (seqrangeText recs.length nproc procidx)

/-- esl-selectn --seed <s> <m> <file> -/
def runSelectn (argv : List String) (files : String → Option (List Char)) : Option String := do
  let p ← parseArgs [] ["--seed"] argv {}
  let seed ← (← p.val? "--seed").toNat?
  if seed = 0 || seed ≥ 2 ^ 31 then none
  let [ms, fn] := p.pos | none
  let m ← ms.toNat?
  let f ← files fn
  if f.any (fun c => c.toNat = 0) then none
  selectnText seed m f

def parseIntS (s : String) : Option Int := s.toInt?

def parseFloatS (s : String) : Option Float :=
  match s.splitOn "." with
  | [i] => i.toNat?.map Float.ofNat
  | [i, f] => do
    let ip ← if i.isEmpty then some 0 else i.toNat?
    let fp ← if f.isEmpty then some 0 else f.toNat?
    some (Float.ofScientific (ip * 10 ^ f.length + fp) true f.length)
  | _ => none


/-- esl-mask [-r] [-l | -m c] [-x n] <fasta> <maskfile>; sequential mode -/
def runMask (argv : List String) (files : String → Option (List Char)) : Option String := do
  let p ← parseArgs ["-r", "-l", "-R"] ["-m", "-x", "--informat"] argv {}
  match p.val? "--informat" with
  | some f => if f != "fasta" then none
  | none => pure ()
  if p.has "-l" && (p.val? "-m").isSome then none
  let mchar ← match p.val? "-m" with
    | some v => (match v.toList with | [c] => some c | _ => none)
    | none => some 'X'
  let x ← match p.val? "-x" with
    | some v => parseIntS v
    | none => some 0
  let [fn, mf] := p.pos | none
  let recs := parseFasta (← files fn)
  let mlines := (fileLines (← files mf)).filter (fun l => !(l.all isBlank))
  if mlines.isEmpty then none
  let o : MaskOpts := { rev := p.has "-r", lower := p.has "-l", mchar := mchar, x := x }
  -- -R: every mask line names its sequence, fetched through the SSI index; otherwise mask lines and sequences run in parallel
  let pairs ← if p.has "-R" then do
      let _ ← files (fn ++ ".ssi")
      if !namesDistinct recs then none
      mlines.mapM fun l => do
        let nm ← (((String.ofList l).splitOn " ").filter (· ≠ "")).head?
        let r ← recs.find? (·.name = nm.toList)
        some (l, r)
    else if mlines.length > recs.length then none else some (mlines.zip recs)
  let outs ← pairs.mapM fun (l, r) => do
    let toks := ((String.ofList l).splitOn " ").filter (· ≠ "")
    let [nm, a, b] := toks | none
    if nm.toList ≠ r.name then none
    let a ← parseIntS a
    let b ← parseIntS b
    some { r with seq := maskSeq o (a - 1) (b - 1) r.seq }
  some (String.ofList (renderFasta 60 outs))


/-- alignment file in, alignment file out: the C03 readers/writers and C15 column operations composed (`ReformatMsa.lean`) -/
def runReformatMsa (p : Parsed) (infmt outfmt : String) (src : List Char) : Option String := do
  let gapsym ← match p.val? "--gapsym" with
    | some v => (match v.toList with | [c] => some (some (UInt8.ofNat c.toNat)) | _ => none)
    | none => some none
  let repl ← match p.val? "--replace" with
    | some v =>
      let cs := v.toList
      let mid := cs.length / 2
      if cs.length % 2 = 1 && cs.getD mid ' ' = ':' then some (some (c2b (cs.take mid), c2b (cs.drop (mid + 1)))) else none
    | none => some none
  let namelen ← match p.val? "--namelen" with
    | some v => (match v.toNat? with | some n => if n > 0 && n < 2 ^ 31 then some (some n) else none | none => none)
    | none => some none
  if p.has "--keeprf" && !p.has "--mingap" then none
  let nw := (if p.has "--wussify" then 1 else 0) + (if p.has "--dewuss" then 1 else 0) + (if p.has "--fullwuss" then 1 else 0)
  if nw > 1 then none
  let o : Ali.Opts :=
    { mingap := p.has "--mingap", keeprf := p.has "--keeprf", nogap := p.has "--nogap", replace := repl, gapsym := gapsym,
      lower := p.has "-l", upper := p.has "-u", rna := p.has "-r", dna := p.has "-d", iupacN := p.has "-n", xbad := p.has "-x",
      rename := (p.val? "--rename").map fun s => c2b s.toList,
      wussify := p.has "--wussify", dewuss := p.has "--dewuss", fullwuss := p.has "--fullwuss", namelen := namelen }
  (Ali.reformatMsa o infmt outfmt (c2b src)).map b2s

/-- esl-reformat [-d -l -n -r -u -x --gapsym c --rename s --replace a:b --mingap [--keeprf] --nogap --wussify --dewuss --fullwuss
    --namelen n] --informat <fmt> <fmt> <file> -/
def runReformat (argv : List String) (files : String → Option (List Char)) : Option String := do
  let p ← parseArgs ["-d", "-l", "-n", "-r", "-u", "-x", "--mingap", "--nogap", "--keeprf", "--wussify", "--dewuss", "--fullwuss", "--small"]
    ["--gapsym", "--informat", "--rename", "--replace", "--namelen", "--ignore", "--acceptx"] argv {}
  let infmt ← p.val? "--informat"
  if p.has "--small" then
    -- `--small`: Pfam in, aligned FASTA or Pfam out, streamed (`regurgitate_pfam_as_afa` / `regurgitate_pfam_as_pfam`)
    if infmt != "pfam" then none
    if p.has "--mingap" || p.has "--nogap" || p.has "--keeprf" || p.has "--wussify" || p.has "--dewuss" || p.has "--fullwuss" then none
    if (p.val? "--namelen").isSome || (p.val? "--ignore").isSome || (p.val? "--acceptx").isSome then none
    if (p.has "-d" && p.has "-r") || (p.has "-l" && p.has "-u") || (p.has "-n" && p.has "-x") then none
    if ["--rename", "--replace", "--gapsym"].any (fun k => ((p.val? k).getD "").startsWith "-") then none
    let [outfmt, fn] := p.pos | none
    let gapsym ← match p.val? "--gapsym" with
      | some v => (match v.toList with | [c] => some (some c) | _ => none)
      | none => some none
    let repl ← match p.val? "--replace" with
      | some v =>
        let cs := v.toList
        let mid := cs.length / 2
        if cs.length % 2 = 1 && cs.getD mid ' ' = ':' then some (some (cs.take mid, cs.drop (mid + 1))) else none
      | none => some none
    let o : ReformatOpts := { replace := repl, lower := p.has "-l", upper := p.has "-u", rna := p.has "-r", dna := p.has "-d",
                              iupacN := p.has "-n", xbad := p.has "-x", gapsym := gapsym, rename := (p.val? "--rename").map String.toList }
    let src ← files fn
    if src.contains '\r' || src.getLast? != some '\n' then none
    let ls := fileLines src
    if outfmt == "afa" then
      let m := String.ofList (unlines (← Small.reformatSmallAfa o ls))
      -- the non-small reference on the same file promises the same bytes: where it is defined the two must agree
      let pN : Parsed := { p with flags := p.flags.filter (· != "--small") }
      match runReformatMsa pN "pfam" "afa" src with
      | some n => if n == m then return m else none
      | none => return m
    else if outfmt == "pfam" then
      if (p.val? "--rename").isSome then none
      return ← (Small.reformatSmallPfamAll o (ls.length + 2) ls).map fun out => String.ofList (unlines out)
    else none
  -- `--ignore s` / `--acceptx s` edit the input map of the SEQUENCE reader: alignment output refuses them, an alignment file read
  -- for unaligned output never consults that map, a FASTA file drops the ignored characters and reads the accepted ones as X
  let ignore := ((p.val? "--ignore").getD "").toList
  let acceptx := ((p.val? "--acceptx").getD "").toList
  let mapEdited := (p.val? "--ignore").isSome || (p.val? "--acceptx").isSome
  if (ignore ++ acceptx).any (fun c => c.toNat ≥ 127 || c.toNat ≤ 32 || c == '>') then none
  if ["--ignore", "--acceptx", "--rename", "--replace", "--gapsym"].any (fun k => ((p.val? k).getD "").startsWith "-") then none
  if p.has "--mingap" && p.has "--nogap" then none
  if (p.has "--mingap" || p.has "--nogap") && (p.val? "--gapsym").isSome then none
  let [outfmt, fn] := p.pos | none
  if (p.has "-d" && p.has "-r") || (p.has "-l" && p.has "-u") || (p.has "-n" && p.has "-x") then none
  if msaFormats.contains outfmt && mapEdited then none
  if msaFormats.contains outfmt && msaFormats.contains infmt then
    match runReformatMsa p infmt outfmt (← files fn) with
    | some out => return out
    | none => pure ()
  if outfmt == "fasta" && msaFormats.contains infmt then
    -- unaligned output from an alignment file (sequence branch of the tool over the C03 readers and C15's FetchFromMSA)
    if p.has "--keeprf" && !p.has "--mingap" then none
    match p.val? "--gapsym" with
    | some v => if v.length != 1 then none
    | none => pure ()
    let repl ← match p.val? "--replace" with
      | some v =>
        let cs := v.toList
        let mid := cs.length / 2
        if cs.length % 2 = 1 && cs.getD mid ' ' = ':' then some (some (c2b (cs.take mid), c2b (cs.drop (mid + 1)))) else none
      | none => some none
    match p.val? "--namelen" with
    | some v => (match v.toNat? with | some n => if n > 0 && n < 2 ^ 31 then pure () else none | none => none)
    | none => pure ()
    let nw := (if p.has "--wussify" then 1 else 0) + (if p.has "--dewuss" then 1 else 0) + (if p.has "--fullwuss" then 1 else 0)
    if nw > 1 then none
    let o : Ali.Opts :=
      { replace := repl, lower := p.has "-l", upper := p.has "-u", rna := p.has "-r", dna := p.has "-d", iupacN := p.has "-n", xbad := p.has "-x",
        rename := (p.val? "--rename").map fun s => c2b s.toList,
        wussify := p.has "--wussify", dewuss := p.has "--dewuss", fullwuss := p.has "--fullwuss" }
    return ← (Ali.reformatMsaToFasta o infmt (c2b (← files fn))).map b2s
  if p.has "--keeprf" || p.has "--wussify" || p.has "--dewuss" || p.has "--fullwuss" || (p.val? "--namelen").isSome then none
  let gapsym ← match p.val? "--gapsym" with
    | some v => (match v.toList with | [c] => some (some c) | _ => none)
    | none => some none
  let repl ← match p.val? "--replace" with
    | some v =>
      let cs := v.toList
      let mid := cs.length / 2
      if cs.length % 2 = 1 && cs.getD mid ' ' = ':' then some (some (cs.take mid, cs.drop (mid + 1))) else none
    | none => some none
  let o : ReformatOpts := { replace := repl, lower := p.has "-l", upper := p.has "-u", rna := p.has "-r", dna := p.has "-d",
                            iupacN := p.has "-n", xbad := p.has "-x", gapsym := gapsym, rename := (p.val? "--rename").map String.toList }
  let recs := parseFasta (← files fn)
  if mapEdited && (outfmt != "fasta" || infmt != "fasta") then none
  let recs := if mapEdited then recs.map (fun r => { r with seq := r.seq.filterMap (fun c =>
      if acceptx.contains c then some 'X' else if ignore.contains c then none else some c) }) else recs
  if recs.isEmpty || !namesDistinct recs then none
  if recs.any (fun r => r.seq.isEmpty) then none
  match outfmt, infmt with
  | "fasta", "fasta" =>
    if p.has "--mingap" || p.has "--nogap" then none
    if gapsym.isSome || recs.any (fun r => r.seq.any fun c => !c.isAlpha && c != '*') then none
    some (reformatText (reformatFasta o false recs))
  | "fasta", "afa" =>
    if p.has "--mingap" || p.has "--nogap" then none
    if gapsym.isSome || !sameLen recs || recs.any (fun r => r.seq.all isGapC) then none
    some (reformatText (reformatFasta o true recs))
  | "afa", "afa" =>
    if !sameLen recs then none
    let recs' := if p.has "--mingap" then dropGapColumns false recs else if p.has "--nogap" then dropGapColumns true recs else recs
    if recs'.any (fun r => r.seq.isEmpty) then none
    some (reformatText (reformatAfa o recs'))
  | _, _ => none

def seedOf (p : Parsed) : Option Nat := do
  let seed ← (← p.val? "--seed").toNat?
  if seed = 0 || seed ≥ 2 ^ 31 then none else some seed

def natOpt (p : Parsed) (k : String) (dflt : Nat) : Option Nat :=
  match p.val? k with
  | some v => v.toNat?
  | none => some dflt

/-- esl-shuffle -A [-b] [-N n] --seed s --informat afa <afa>: whole-alignment shuffles -/
def runShuffleA (argv : List String) (files : String → Option (List Char)) : Option String := do
  let p ← parseArgs ["-m", "-r", "-G", "--dna", "--rna", "-A", "-b"] ["--seed", "-N", "-L", "-k", "-w", "--informat"] argv {}
  let seed ← seedOf p
  let N ← natOpt p "-N" 1
  let L ← natOpt p "-L" 0
  if N = 0 || !p.has "-A" then none
  -- whole-alignment mode on aligned FASTA, digital: the alphabet is guessed by the tool; the reference only takes
  -- alignments that are unmistakably DNA or RNA (the symbols then do not depend on the guess beyond T/U)
  if p.has "-G" || p.has "-m" || p.has "-r" || p.has "--dna" || p.has "--rna" || L != 0 || (p.val? "-k").isSome || (p.val? "-w").isSome then none
  if !fmtIs p "--informat" "afa" then none
  let [fn] := p.pos | none
  let recs := parseFasta (← files fn)
  let hasU := recs.any fun r => r.seq.any fun c => c == 'U' || c == 'u'
  let hasT := recs.any fun r => r.seq.any fun c => c == 'T' || c == 't'
  if hasU && hasT then none
  let a : Abc := if hasU then .rna else .dna
  if !alignedOk a recs || !namesDistinct recs then none
  let rows := recs.map fun r => a.normalize r.seq
  let samples := msaShuffleSamples (p.has "-b") rows N (EaselModel.Random.Rng.create .mersenne (UInt32.ofNat seed)) []
  let out : List Char := samples.flatMap fun smp => renderFasta 60 ((recs.zip smp).map fun x => { x.1 with seq := x.2 })
  some (String.ofList out)

/-- esl-shuffle --seed s [-N n] [-L n] [-m | -k n | -w n | -r] --informat fasta <fasta>   |   -G --dna|--rna -L n [-N n] -/
def runShuffle (argv : List String) (files : String → Option (List Char)) : Option String := do
  let p ← parseArgs ["-m", "-r", "-G", "--dna", "--rna", "-A", "-b"] ["--seed", "-N", "-L", "-k", "-w", "--informat"] argv {}
  let seed ← seedOf p
  let N ← natOpt p "-N" 1
  let L ← natOpt p "-L" 0
  if N = 0 then none
  if p.has "-b" || p.has "-A" then none
  if p.has "-G" then
    if !p.pos.isEmpty || L = 0 || p.has "-m" || p.has "-r" || (p.val? "-k").isSome || (p.val? "-w").isSome then none
    let syms ← match p.has "--dna", p.has "--rna" with
      | true, false => some Abc.dna.syms
      | false, true => some Abc.rna.syms
      | _, _ => none
    some (generateText seed syms N L)
  else
    if p.has "--dna" || p.has "--rna" then none
    if !fmtIs p "--informat" "fasta" then none
    let modes := (if p.has "-m" then 1 else 0) + (if p.has "-r" then 1 else 0) + (if (p.val? "-k").isSome then 1 else 0) +
      (if (p.val? "-w").isSome then 1 else 0)
    if modes > 1 then none
    let k ← natOpt p "-k" 1
    let w ← natOpt p "-w" 1
    if k = 0 || w = 0 then none
    let mode := if p.has "-r" then "-r" else if (p.val? "-k").isSome then "-k" else if (p.val? "-w").isSome then "-w" else "-m"
    let [fn] := p.pos | none
    let recs := parseFasta (← files fn)
    if recs.isEmpty || recs.any (fun r => r.seq.isEmpty || r.seq.any fun c => !c.isAlpha) then none
    some (shuffleText seed { mode := mode, k := k, w := w, N := N, L := L } recs)

/-- esl-weight [-g | -p | -b [--id x]] --informat afa (--dna|--rna|--amino) <afa> -/
def runWeight (argv : List String) (files : String → Option (List Char)) : Option String := do
  let p ← parseArgs ["--dna", "--rna", "--amino", "-g", "-p", "-b", "-f"] ["--informat", "--id", "--idf"] argv {}
  if isSto ((p.val? "--informat").getD "") then
    let infmt := (p.val? "--informat").getD ""
    let (a, fa, ta) ← abc3Of p
    let nalg := (if p.has "-g" then 1 else 0) + (if p.has "-p" then 1 else 0) + (if p.has "-b" then 1 else 0) + (if p.has "-f" then 1 else 0)
    if nalg > 1 || ((p.val? "--idf").isSome && !p.has "-f") || ((p.val? "--id").isSome && !p.has "-b") then none
    let [fn] := p.pos | none
    let src := c2b (← files fn)
    if p.has "-f" then
      let idf ← match p.val? "--idf" with | some v => parseFloatS v | none => some 0.8
      return ← (Ali.weightFilterSto a fa ta idf infmt src).map b2s
    else
      let maxid ← match p.val? "--id" with | some v => parseFloatS v | none => some 0.62
      return ← (Ali.weightSto a fa (if p.has "-p" then "-p" else if p.has "-b" then "-b" else "-g") maxid infmt src).map b2s
  if !fmtIs p "--informat" "afa" then none
  let a ← abcOf p
  let nalg := (if p.has "-g" then 1 else 0) + (if p.has "-p" then 1 else 0) + (if p.has "-b" then 1 else 0) + (if p.has "-f" then 1 else 0)
  if (p.val? "--idf").isSome && !p.has "-f" then none
  if nalg > 1 then none
  if (p.val? "--id").isSome && !p.has "-b" then none
  let maxid ← match p.val? "--id" with | some v => parseFloatS v | none => some 0.62
  let [fn] := p.pos | none
  let recs := parseFasta (← files fn)
  if !alignedOk a recs || !namesDistinct recs then none
  if p.has "-f" then
    let idf ← match p.val? "--idf" with | some v => parseFloatS v | none => some 0.8
    weightFilterText a idf recs
  else weightText a (if p.has "-p" then "-p" else if p.has "-b" then "-b" else "-g") maxid recs

/-- esl-alistat [-1] --informat afa (--dna|--rna|--amino) <afa> -/
def runAlistat (argv : List String) (files : String → Option (List Char)) : Option String := do
  let p ← parseArgs ["--dna", "--rna", "--amino", "-1"] ["--informat"] argv {}
  if !fmtIs p "--informat" "afa" then none
  let a ← abcOf p
  let [fn] := p.pos | none
  let recs := parseFasta (← files fn)
  if !alignedOk a recs || !namesDistinct recs then none
  some (if p.has "-1" then eslAlistatOneLine a recs else eslAlistatText a recs)

/-- `^.+\|(.+)\|(.+)$` on a sequence name: (accession, id) = the last two `|`-separated fields of at least three -/
def uniprotParts (name : List Char) : Option (List Char × List Char) :=
  match (name.splitOn '|').reverse with
  | id :: acc :: _ :: _ => if id.isEmpty || acc.isEmpty then none else some (acc, id)
  | _ => none

/-- record by primary key (name) or, failing that, by a secondary key that `easel index -u [-a]` derives from the name -/
def findRec (recs : List Rec) (key : List Char) : Option Rec :=
  match recs.find? (·.name = key) with
  | some r => some r
  | none => recs.find? fun r => match uniprotParts r.name with
      | some (acc, id) => id = key || acc = key
      | none => false

/-- the record named `key`, echoed verbatim: its header line and the following lines up to the next header -/
def echoRecord (ls : List Line) (key : List Char) : Option (List Line) :=
  let rec go : List Line → Option (List Line)
    | [] => none
    | l :: rest =>
      match l with
      | '>' :: h => if (parseHeader h).1 = key then some (l :: rest.takeWhile (fun x => x.head? != some '>')) else go rest
      | _ => go rest
  go ls

/-- easel downsample --seed s [-s] <m> <file>  |  easel alistat (--dna|--rna|--amino) <afa> -/
def runEasel (argv : List String) (files : String → Option (List Char)) : Option String := do
  match argv with
  | "downsample" :: rest =>
    let p ← parseArgs ["-s", "-S"] ["--seed"] rest {}
    let seed ← seedOf p
    let [ms, fn] := p.pos | none
    let m ← ms.toNat?
    let f ← files fn
    if p.has "-s" && p.has "-S" then none
    if p.has "-S" then
      let recs := parseFasta f
      if recs.isEmpty || !namesDistinct recs || recs.length < m ||
         recs.any (fun r => r.seq.isEmpty || r.seq.any fun c => !c.isAlpha) then none
      let idx := downsampleBigIndices seed m recs.length
      let outs ← idx.mapM fun i => do
        let r ← recs[i]?
        echoRecord (fileLines f) r.name
      some (String.ofList (unlines outs.flatten))
    else if p.has "-s" then
      let recs := parseFasta f
      if recs.isEmpty || recs.any (fun r => r.seq.isEmpty || r.seq.any fun c => !c.isAlpha) then none
      downsampleSeqsText seed m recs
    else
      if f.any (fun c => c.toNat = 0) then none
      downsampleLinesText seed m f
  | "index" :: rest =>
    let p ← parseArgs ["-a", "-u"] [] rest {}
    let [fn] := p.pos | none
    let recs := parseFasta (← files fn)
    if recs.isEmpty || !namesDistinct recs || recs.any (fun r => r.seq.isEmpty || r.seq.any fun c => !c.isAlpha) then none
    -- secondary keys: with -u the id (and with -a also the accession) parsed out of db|acc|id names
    let sec := if p.has "-u" then recs.flatMap fun r => match uniprotParts r.name with
        | some (acc, id) => (if p.has "-a" then [acc] else []) ++ [id]
        | none => [] else []
    if (sec ++ recs.map (·.name)).eraseDups.length != sec.length + recs.length then none
    let n := toString recs.length
    let counts := if sec.isEmpty then n ++ " names" else n ++ " names and " ++ toString sec.length ++ " secondary keys"
    some ("Creating SSI index " ++ fn ++ ".ssi for sequence file " ++ fn ++ "...    done.\nIndexed " ++ n ++ " sequences (" ++ counts ++
          ").\nSSI index written to file " ++ fn ++ ".ssi\n")
  | "filter" :: rest =>
    let p ← parseArgs ["--dna", "--rna", "--amino"] ["--informat"] rest {}
    if !fmtIs p "--informat" "afa" then none
    let a ← abcOf p
    let [mx, fn] := p.pos | none
    let maxid ← parseFloatS mx
    let recs := parseFasta (← files fn)
    if !alignedOk a recs || !namesDistinct recs then none
    filterText a maxid recs
  | "alistat" :: rest =>
    let p ← parseArgs ["--dna", "--rna", "--amino", "-1"] [] rest {}
    let a ← abcOf p
    let [fn] := p.pos | none
    let f ← files fn
    if (f.dropWhile fun c => c == '\n' || c == ' ').head? == some '#' then
      -- a Stockholm / Pfam file (format guessed by the tool): every alignment of it
      let V := match a with | .dna => Ali.viewsDna | .rna => Ali.viewsRna | .amino => Ali.viewsAmino
      return ← Ali.easelAlistatSto V (p.has "-1") fn (c2b f)
    let recs := parseFasta f
    if !alignedOk a recs || !namesDistinct recs then none
    if p.has "-1" then
      if f.head? != some '>' then none
      some (easelAlistatOneLine a f.length recs)
    else some (easelAlistatText a recs)
  | _ => none

/-! esl-sfetch (an SSI index must exist: the driver records `<file>.ssi` when it sees `esl-sfetch --index <file>`) -/

def fetchOne (p : Parsed) (f : List Char) (recs : List Rec) (key : List Char) : Option (List Char) := do
  let r ← findRec recs key
  if p.has "-r" || (p.val? "-n").isSome then
    let s := if p.has "-r" then revcompText r.seq else r.seq
    let nm := match p.val? "-n" with | some n => n.toList | none => r.name
    some (renderFasta 60 [{ r with name := nm, seq := s }])
  else
    some (unlines (← echoRecord (fileLines f) r.name))

def fetchSub (p : Parsed) (recs : List Rec) (newname : Option (List Char)) (key : List Char) (a b : Nat) : Option (List Char) := do
  let r ← recs.find? (·.name = key)
  let L := r.seq.length
  let (st, en, rc) := if b ≠ 0 ∧ a > b then (b, a, true) else (a, b, false)
  let en' := if en = 0 then L else en
  if st < 1 || en' > L || st > en' then none
  let s := subseq r.seq st en'
  let s := if rc then revcompText s else s
  let s := if p.has "-r" then revcompText s else s
  let nm := match newname with
    | some n => n
    | none => key ++ ("/" ++ toString a ++ "-" ++ toString (if b = 0 then L else b)).toList
  some (renderFasta 60 [{ r with name := nm, seq := s }])

def dnaTextOk (rs : List Rec) : Bool := rs.all fun r => !r.seq.isEmpty && r.seq.all fun c => dnaTextSyms.contains c && c.isAlpha

def runSfetchFull (argv : List String) (files : String → Option (List Char)) : Option (String × List (String × List Char)) := do
  let p ← parseArgs ["-r", "-f", "-C", "--index", "-O"] ["-n", "-c", "--informat", "-o"] argv {}
  if p.has "-O" && ((p.val? "-o").isSome || p.has "-f") then none
  -- output goes to a file with -o <f> / -O (file named after the key); stdout then only carries the "Retrieved …" note
  let wrap (note : String) (content : String) : Option (String × List (String × List Char)) :=
    match p.val? "-o", p.has "-O" with
    | some f, _ => some (note, [(f, content.toList)])
    | none, true => (p.pos[1]?).map fun k => (note, [(k, content.toList)])
    | none, false => some (content, [])
  let fn ← p.pos.head?
  let f ← files fn
  if fmtIs p "--informat" "afa" then
    -- an alignment file is read sequentially (no SSI index is used) and the de-gapped, parsed record is written
    if p.has "--index" || p.has "-C" || (p.val? "-c").isSome then none
    let recs0 := parseFasta f
    if !sameLen recs0 || !namesDistinct recs0 then none
    let recs := recs0.map fun r => { r with seq := r.seq.filter fun c => !isGapC c }
    if recs.any (fun r => r.seq.isEmpty) || (p.has "-r" && !dnaTextOk recs) then none
    let [_, arg2] := p.pos | none
    let one (r : Rec) : List Char :=
      let s := if p.has "-r" then revcompText r.seq else r.seq
      let nm := match p.val? "-n" with | some n => n.toList | none => r.name
      renderFasta 60 [{ r with name := nm, seq := s }]
    if p.has "-f" then
      if (p.val? "-n").isSome then none
      let klines := (fileLines (← files arg2)).filter (fun l => !(l.all isBlank))
      let keys ← klines.mapM fun l => (match ((String.ofList l).splitOn " ").filter (· ≠ "") with | [k] => some k.toList | _ => none)
      if keys.eraseDups.length != keys.length || !keys.all (fun k => recs.any (·.name = k)) then none
      let sel := recs.filter fun r => keys.contains r.name        -- file order, not key order
      wrap ("\nRetrieved " ++ toString keys.length ++ " sequences.\n") (String.ofList (sel.flatMap one))
    else
      let r ← recs.find? (·.name = arg2.toList)
      wrap ("\n\nRetrieved sequence " ++ arg2 ++ ".\n") (String.ofList (one r))
  else
  match p.val? "--informat" with
  | some f => if f != "fasta" then none
  | none => pure ()
  let recs := parseFasta f
  if recs.isEmpty || !namesDistinct recs || recs.any (fun r => r.seq.isEmpty) then none
  if p.has "--index" then
    if p.pos.length != 1 || p.has "-r" || p.has "-f" || p.has "-C" || !p.vals.isEmpty then none
    let n := toString recs.length
    if (p.val? "-o").isSome || p.has "-O" then none
    some ("Creating SSI index for " ++ fn ++ "...    done.\nIndexed " ++ n ++ " sequences (" ++ n ++ " names).\nSSI index written to file " ++ fn ++ ".ssi\n", [])
  else
    let _ ← files (fn ++ ".ssi")
    if (p.has "-r" || (p.val? "-c").isSome || p.has "-C") && !dnaTextOk recs then none
    let [_, arg2] := p.pos | none
    if p.has "-f" then
      if (p.val? "-n").isSome || (p.val? "-c").isSome then none
      let klines := (fileLines (← files arg2)).filter (fun l => !(l.all isBlank))
      let toks := klines.map fun l => ((String.ofList l).splitOn " ").filter (· ≠ "")
      if p.has "-C" then
        let outs ← toks.mapM fun t => do
          let [nn, a, b, src] := t | none
          fetchSub p recs (some nn.toList) src.toList (← a.toNat?) (← b.toNat?)
        wrap "" (String.ofList outs.flatten)
      else
        let keys ← toks.mapM fun t => (match t with | [k] => some k.toList | _ => none)
        if keys.eraseDups.length != keys.length then none
        let outs ← keys.mapM fun k => fetchOne p f recs k
        wrap ("\nRetrieved " ++ toString keys.length ++ " sequences.\n") (String.ofList outs.flatten)
    else
      if p.has "-C" then none
      match p.val? "-c" with
      | some c =>
        let [a, b] := c.splitOn ".." | none
        let o ← fetchSub p recs ((p.val? "-n").map String.toList) arg2.toList (← a.toNat?) (← b.toNat?)
        wrap ("\n\nRetrieved subsequence " ++ arg2 ++ "/" ++ a ++ "-" ++ b ++ ".\n") (String.ofList o)
      | none =>
        let o ← fetchOne p f recs arg2.toList
        wrap ("\n\nRetrieved sequence " ++ arg2 ++ ".\n") (String.ofList o)

/-- esl-translate [-c id] [-l n] [-m | -M] [--watson | --crick] --informat fasta <fasta> -/
def runTranslate (argv : List String) (files : String → Option (List Char)) : Option String := do
  let p ← parseArgs ["-m", "-M", "--watson", "--crick", "-W"] ["-c", "-l", "--informat"] argv {}
  if !fmtIs p "--informat" "fasta" then none
  if (p.has "-m" && p.has "-M") || (p.has "--watson" && p.has "--crick") then none
  let code ← match p.val? "-c" with | some v => v.toInt? | none => some 1
  let minlen ← match p.val? "-l" with | some v => v.toInt? | none => some 20
  if minlen < 0 then none
  let [fn] := p.pos | none
  let recs := parseFasta (← files fn)
  if recs.isEmpty then none
  translateText { code := code, minlen := minlen, onlyAUG := p.has "-m", tableInit := p.has "-M",
                  watson := !p.has "--crick", crick := !p.has "--watson", windows := p.has "-W" } recs


def tabcOf (p : Parsed) : Option Ali.TAbc :=
  match p.has "--dna", p.has "--rna", p.has "--amino" with
  | true, false, false => some EaselModel.Msa.Gen.dnaAbc
  | false, true, false => some EaselModel.Msa.Gen.rnaAbc
  | false, false, true => some EaselModel.Msa.Gen.aminoAbc
  | false, false, false => some EaselModel.Msa.Gen.rnaAbc      -- "alphabet is only used to define gap characters"
  | _, _, _ => none

def b2c (b : List UInt8) : List Char := b.map fun x => Char.ofNat x.toNat

/-- esl-alimask  <msafile> <maskfile> | -t <msafile> <coords> | -g <msafile> | --rf-is-mask <msafile>  (not -p, not --small) -/
def runAlimaskFull (argv : List String) (files : String → Option (List Char)) : Option (String × List (String × List Char)) := do
  let p ← parseArgs ["-t", "-g", "-p", "--pallgapok", "--rf-is-mask", "--t-rf", "--t-rmins", "--keepins", "-q", "--dna", "--rna", "--amino", "--small"]
    ["--gapthresh", "--informat", "--outformat", "-o", "--fmask-rf", "--fmask-all", "--gmask-rf", "--gmask-all",
     "--pfract", "--pthresh", "--pavg", "--ppcons", "--pmask-rf", "--pmask-all"] argv {}
  let abc ← tabcOf p
  let infmt ← p.val? "--informat"
  let outfmt := (p.val? "--outformat").getD "stockholm"
  if !msaFormats.contains infmt || !msaFormats.contains outfmt then none
  if p.has "-q" && (p.val? "-o").isNone then none
  if (p.has "--t-rf" || p.has "--t-rmins") && !p.has "-t" then none
  if ((p.val? "--gapthresh").isSome || (p.val? "--gmask-rf").isSome || (p.val? "--gmask-all").isSome) && !p.has "-g" then none
  if p.has "-t" && (p.has "-g" || p.has "-p" || p.has "--rf-is-mask") then none
  if p.has "--rf-is-mask" && (p.has "-g" || p.has "-p" || p.has "--keepins") then none
  let pOpts := ["--pfract", "--pthresh", "--pavg", "--ppcons", "--pmask-rf", "--pmask-all"]
  if (pOpts.any (fun k => (p.val? k).isSome) || p.has "--pallgapok") && !p.has "-p" then none
  if (p.val? "--pavg").isSome && ((p.val? "--pfract").isSome || (p.val? "--pthresh").isSome) then none
  if (p.val? "--ppcons").isSome && (p.has "--keepins" || (p.val? "--pavg").isSome || (p.val? "--pfract").isSome || (p.val? "--pthresh").isSome) then none
  let unit (k : String) (dflt : Float) : Option Float := match p.val? k with
    | some v => (parseFloatS v).bind fun x => if x ≤ 1.0 then some x else none
    | none => some dflt
  let ppCfg : Option Ali.PPCfg ← if p.has "-p" then do
      let pavg ← match p.val? "--pavg" with | some _ => (unit "--pavg" 0.0).map some | none => some none
      let ppc ← match p.val? "--ppcons" with | some _ => (unit "--ppcons" 0.0).map some | none => some none
      pure (some { pthresh := ← unit "--pthresh" 0.95, pfract := ← unit "--pfract" 0.95, pavg := pavg, ppcons := ppc, allgapok := p.has "--pallgapok" : Ali.PPCfg })
    else pure none
  let src ← files (← p.pos.head?)
  let mode : Ali.MaskMode ← match p.pos with
    | [_] =>
      if p.has "-t" then none
      else if p.has "--rf-is-mask" then some .rfIsMask
      else if p.has "-p" && !p.has "-g" then some .postprob
      else if p.has "-g" then
        (match p.val? "--gapthresh" with
         | some v => (parseFloatS v).bind fun x => if x ≤ 1.0 then some (Ali.MaskMode.gapfreq x.toFloat32) else none
         | none => some (.gapfreq (0.5 : Float).toFloat32))
      else none
    | [_, a2] =>
      if p.has "-g" || p.has "-p" || p.has "--rf-is-mask" then none
      else if p.has "-t" then (Ali.parseCoords (c2b a2.toList)).map fun (st, en) => .truncate st en (p.has "--t-rf") (p.has "--t-rmins")
      else (Ali.readMaskFile (c2b (← files a2))).map .maskfile
    | _ => none
  let o : Ali.AlimaskOpts :=
    { mode := mode, abc := abc, keepins := p.has "--keepins", outfmt := outfmt, verbose := (p.val? "-o").isSome && !p.has "-q",
      ofile := p.val? "-o", fmaskRf := p.val? "--fmask-rf", fmaskAll := p.val? "--fmask-all",
      gmaskRf := p.val? "--gmask-rf", gmaskAll := p.val? "--gmask-all",
      pp := ppCfg, pmaskRf := p.val? "--pmask-rf", pmaskAll := p.val? "--pmask-all" }
  if p.has "--small" then
    -- `--small`: first pass = the mask (same computation on the same file), second pass = `esl_msafile2_RegurgitatePfam` of the FIRST
    -- record with that mask (input spacing kept, base pairs broken by the mask removed from SS_cons / SS when the alphabet is nucleic)
    if infmt != "pfam" || (p.val? "--outformat").isSome then none
    if !(p.has "--dna" || p.has "--rna" || p.has "--amino") then none
    -- `-p` in --small mode reads the PP counts of esl_msafile2_ReadInfoPfam (sequences without PP lines are tolerated there): not modelled
    if p.has "-p" then none
    if o.ofile.isSome || o.fmaskRf.isSome || o.fmaskAll.isSome || o.keepins then none
    if src.contains '\r' || src.getLast? != some '\n' then none
    let rd ← Ali.readerOf "pfam"
    let m ← match rd (EaselModel.Msafile.splitLines (c2b src)) with
      | (.ok m, _) => some m
      | _ => none
    let (useme, _, _, _, _, _) ← Ali.alimaskMask o m
    if !useme.any id then none
    match Small.regurgitate { useme := some useme, nucleic := abc.isNucleic } (some m.alen) (fileLines src) with
    | .ok (out, _, _, _) => return (String.ofList (unlines out), [])
    | .error _ => none
  let (out, written) ← Ali.alimask o infmt (c2b src)
  some (b2s out, written.map fun (f, b) => (f, b2c b))


def fabcOf (p : Parsed) : Option (EaselModel.Msafile.Abc × Ali.TAbc) :=
  match p.has "--dna", p.has "--rna", p.has "--amino" with
  | true, false, false => some (EaselModel.Msafile.abcDna, EaselModel.Msa.Gen.dnaAbc)
  | false, true, false => some (EaselModel.Msafile.abcRna, EaselModel.Msa.Gen.rnaAbc)
  | false, false, true => some (EaselModel.Msafile.abcAmino, EaselModel.Msa.Gen.aminoAbc)
  | _, _, _ => none

/-- esl-alimanip [--seq-k f [--k-reorder] | --seq-r f | --reorder f] [--lnfract x] [--lxfract x] [--lmin n] [--lmax n] [--rffract x]
    [--detrunc n] [--xambig n] [--rm-gc tag] [--num-rf] [--num-all] [--outformat fmt] --informat (stockholm|pfam) (--dna|--rna|--amino) <msafile> -/
def runAlimanip (argv : List String) (files : String → Option (List Char)) : Option String := do
  let p ← parseArgs ["--k-reorder", "--num-rf", "--num-all", "--dna", "--rna", "--amino", "--small"]
    ["--seq-k", "--seq-r", "--reorder", "--lnfract", "--lxfract", "--lmin", "--lmax", "--rffract", "--detrunc", "--xambig", "--rm-gc",
     "--informat", "--outformat"] argv {}
  let (fa, ta) ← fabcOf p
  if p.has "--small" then
    -- `--small --seq-k|--seq-r <list>`: every record regurgitated (`esl_msafile2_RegurgitatePfam`), sequence / #=GS / #=GR lines filtered by name
    if p.vals.any (fun kv => !["--seq-k", "--seq-r", "--informat", "--outformat"].contains kv.1) || p.has "--k-reorder" || p.has "--num-rf" || p.has "--num-all" then none
    if (p.val? "--informat").getD "pfam" != "pfam" || (p.val? "--outformat").getD "pfam" != "pfam" then none
    let [fn] := p.pos | none
    let src ← files fn
    if src.contains '\r' || src.getLast? != some '\n' then none
    let (keepMode, lf) ← match p.val? "--seq-k", p.val? "--seq-r" with
      | some f, none => some (true, f)
      | none, some f => some (false, f)
      | _, _ => none
    let names := (Ali.fileTokens (c2b (← files lf))).map b2c
    if names.eraseDups.length != names.length then none
    let ls := fileLines src
    return ← (Small.alimanipSmall keepMode names (ls.length + 2) ls).map fun out => String.ofList (unlines out)
  let infmt ← p.val? "--informat"
  let outfmt := (p.val? "--outformat").getD "stockholm"
  if !msaFormats.contains outfmt then none
  if (p.has "--num-rf" || p.has "--num-all" || (p.val? "--rm-gc").isSome) && outfmt != "stockholm" && outfmt != "pfam" then none
  if p.has "--k-reorder" && (p.val? "--seq-k").isNone then none
  let nlist := (if (p.val? "--seq-k").isSome then 1 else 0) + (if (p.val? "--seq-r").isSome then 1 else 0) + (if (p.val? "--reorder").isSome then 1 else 0)
  if nlist > 1 then none
  let listOf (k : String) : Option (Option (List (List UInt8))) := match p.val? k with
    | some f => (files f).map fun c => some (Ali.fileTokens (c2b c))
    | none => some none
  let real (k : String) (hi : Float) : Option (Option Float) := match p.val? k with
    | some v => (parseFloatS v).bind fun x => if x ≤ hi then some (some x) else none
    | none => some none
  let nat1 (k : String) (lo : Nat) : Option (Option Nat) := match p.val? k with
    | some v => v.toNat?.bind fun n => if n ≥ lo && n < 2 ^ 31 then some (some n) else none
    | none => some none
  let o : Ali.AlimanipOpts :=
    { seqK := ← listOf "--seq-k", seqR := ← listOf "--seq-r", reorder := ← listOf "--reorder", kReorder := p.has "--k-reorder",
      lnfract := ← real "--lnfract" 2.0, lxfract := ← real "--lxfract" 3.0, lmin := ← nat1 "--lmin" 1, lmax := ← nat1 "--lmax" 1,
      rffract := ← real "--rffract" 1.0, detrunc := ← nat1 "--detrunc" 1, xambig := ← nat1 "--xambig" 0,
      rmGc := p.val? "--rm-gc", numRf := p.has "--num-rf", numAll := p.has "--num-all", outfmt := outfmt }
  let [fn] := p.pos | none
  (Ali.alimanip o fa ta infmt (c2b (← files fn))).map b2s

/-- esl-afetch --informat (stockholm|pfam) [--outformat fmt] [-o f | -O] <msafile> <key>  |  -f <msafile> <keyfile>  |  --index <msafile>.
    An index is present when the file `<msafile>.ssi` is (the driver records it when it sees `--index`). -/
def runAfetchFull (argv : List String) (files : String → Option (List Char)) : Option (String × List (String × List Char)) := do
  let p ← parseArgs ["-f", "-O", "--index"] ["-o", "--informat", "--outformat"] argv {}
  let infmt ← p.val? "--informat"
  if infmt != "stockholm" && infmt != "pfam" then none
  let outfmt := (p.val? "--outformat").getD "stockholm"
  if !msaFormats.contains outfmt then none
  let fn ← p.pos.head?
  let src ← files fn
  if (files (fn ++ ".ssi.unknown")).isSome then none
  if p.has "--index" then
    if p.pos.length != 1 || p.has "-f" || p.has "-O" || (p.val? "-o").isSome || (p.val? "--outformat").isSome then none
    if (files (fn ++ ".ssi")).isSome then none
    let recs ← Ali.spansOf infmt (c2b src)
    if recs.isEmpty || !Ali.indexable recs then none
    some (Ali.indexReport fn recs, [(fn ++ ".ssi", [])])
  else
    let o : Ali.AfetchOpts := { infmt := infmt, outfmt := outfmt, hasSsi := (files (fn ++ ".ssi")).isSome }
    let [_, a2] := p.pos | none
    if p.has "-f" then
      if p.has "-O" then none
      let (out, nali) ← Ali.afetchMulti o (c2b src) (c2b (← files a2))
      match p.val? "-o" with
      | some f => some ("\nRetrieved " ++ toString nali ++ " alignments.\n", [(f, b2c out)])
      | none => some (b2s out, [])
    else
      let out ← Ali.afetchOne o (c2b src) (c2b a2.toList)
      let note := "\n\nRetrieved alignment " ++ a2 ++ ".\n"
      match p.val? "-o", p.has "-O" with
      | some f, false => some (note, [(f, b2c out)])
      | none, true => some (note, [(a2, b2c out)])
      | none, false => some (b2s out, [])
      | _, _ => none

/-- `esl-alistat --small [-1] --informat pfam (--dna|--rna|--amino) <file>`: the numbers of the non-small summary that do not need the
    sequences in memory (no Smallest / Largest / Average identity); `Total # residues` is the recomputed count (the tool sums
    per-column fractional counts and rounds to the nearest integer since edf1c28) -/
def runAlistatSmall (p : Parsed) (files : String → Option (List Char)) : Option (String × List (String × List Char)) := do
  if !fmtIs p "--informat" "pfam" then none
  -- `--small` accepts --list / --icinfo / --rinfo / --cinfo / --pcinfo (the table forbids --psinfo --iinfo --bpinfo --noambig --weight)
  if !p.vals.all (fun kv => ["--informat", "--list", "--icinfo", "--rinfo", "--cinfo", "--pcinfo"].contains kv.1) || p.has "--noambig" || p.has "--weight" then none
  let V ← match p.has "--dna", p.has "--rna", p.has "--amino" with
    | true, false, false => some Ali.viewsDna
    | false, true, false => some Ali.viewsRna
    | false, false, true => some Ali.viewsAmino
    | _, _, _ => none
  let [fn] := p.pos | none
  let src := c2b (← files fn)
  let ls := EaselModel.Msafile.splitLines src
  let recs ← Ali.readAllSpans (EaselModel.Msafile.stockholmRead (EaselModel.Msafile.stockholmCfg (some V.f))) (ls.length + 2) ls []
  if recs.isEmpty then none
  let vs ← (recs.mapIdx fun i r => Ali.viewOf V (i + 1) r.1 []).mapM id
  let one (v : Ali.AliView) : String :=
    let crow := v.rows.map fun r => r.map fun x => V.c.syms.getD x '-'
    let st := aliStats V.c crow
    let nm := v.name.map Ali.bytesStr
    if p.has "-1" then Small.smallOneLine v.nali nm "Pfam" st.nseq v.alen st.nres (avgLen st.nres st.nseq)
    else Small.renderSmall (Small.alistatLines v.nali nm "Pfam" st.nseq v.alen st.nres st.small st.large (avgLen st.nres st.nseq) (pct0 (avgId V.c crow 1000)))
  let summary := (if p.has "-1" then Small.smallOneLineHeader else "") ++ String.join (vs.map one)
  let outs := ["--list", "--icinfo", "--rinfo", "--cinfo", "--pcinfo"].filterMap p.val?
  if outs.isEmpty then return (summary, [])
  -- the info files: `esl_msafile2_ReadInfoPfam` collects the same per-column counts (`esl_abc_DCount`, sequence by sequence) and the same
  -- PP counts as `count_msa`, and the SAME dump functions print them: the files and the "saved to file" notes are those of the non-small
  -- reference on the same file (`Ali.alistatInfo`); only the summary in front of the notes is the --small one
  if outs.eraseDups.length != outs.length || outs.contains fn then none
  let o : Ali.AlistatOpts := { oneLine := p.has "-1", list := p.val? "--list", icinfo := p.val? "--icinfo", rinfo := p.val? "--rinfo",
                               cinfo := p.val? "--cinfo", pcinfo := p.val? "--pcinfo" }
  let (full, written) ← Ali.alistatInfo V o "pfam" fn src
  let (bare, _) ← Ali.alistatInfo V { oneLine := p.has "-1" } "pfam" fn src
  if !full.startsWith bare then none
  some (summary ++ (full.drop bare.length).toString, written.map fun (f, t) => (f, t.toList))

/-- esl-alistat [-1] [--list f] [--icinfo f] [--rinfo f] [--iinfo f] [--cinfo f [--noambig]] --informat (stockholm|pfam) (--dna|--rna|--amino) <msafile>:
    digital-mode Stockholm input, summary on stdout, the optional output files -/
def runAlistatFull (argv : List String) (files : String → Option (List Char)) : Option (String × List (String × List Char)) := do
  let p ← parseArgs ["--dna", "--rna", "--amino", "-1", "--noambig", "--weight", "--small"]
    ["--informat", "--list", "--icinfo", "--rinfo", "--iinfo", "--cinfo", "--pcinfo", "--psinfo", "--bpinfo"] argv {}
  let infmt ← p.val? "--informat"
  if p.has "--small" then return ← runAlistatSmall p files
  if infmt != "stockholm" && infmt != "pfam" then (runAlistat argv files).map fun o => (o, []) else
  let V ← match p.has "--dna", p.has "--rna", p.has "--amino" with
    | true, false, false => some Ali.viewsDna
    | false, true, false => some Ali.viewsRna
    | false, false, true => some Ali.viewsAmino
    | _, _, _ => none
  let [fn] := p.pos | none
  let outs := ["--list", "--icinfo", "--rinfo", "--iinfo", "--cinfo", "--pcinfo", "--psinfo", "--bpinfo"].filterMap p.val?
  if outs.eraseDups.length != outs.length || outs.contains fn then none      -- two streams on one file: not defined by the reference
  let o : Ali.AlistatOpts := { oneLine := p.has "-1", noAmbig := p.has "--noambig", weight := p.has "--weight", list := p.val? "--list", icinfo := p.val? "--icinfo",
                               rinfo := p.val? "--rinfo", iinfo := p.val? "--iinfo", cinfo := p.val? "--cinfo",
                               pcinfo := p.val? "--pcinfo", psinfo := p.val? "--psinfo", bpinfo := p.val? "--bpinfo" }
  let (out, written) ← Ali.alistatInfo V o infmt fn (c2b (← files fn))
  some (out, written.map fun (f, t) => (f, t.toList))

/-- esl-compstruct --quiet [-m] [-p] <trusted.sto> <test.sto>  (without --quiet the banner carries the version and date of the build) -/
def runCompstruct (argv : List String) (files : String → Option (List Char)) : Option String := do
  let p ← parseArgs ["-m", "-p", "--quiet"] [] argv {}
  if !p.has "--quiet" then none
  let [kf, tf] := p.pos | none
  Ali.compstruct (p.has "-m") (p.has "-p") (c2b (← files kf)) (c2b (← files tf))

/-- esl-compalign [-c] [-p] (--dna|--rna|--amino) <trusted.sto> <test.sto>   (not --p-mask, not --c2dfile) -/
def runCompalign (argv : List String) (files : String → Option (List Char)) : Option String := do
  let p ← parseArgs ["-c", "-p", "--dna", "--rna", "--amino"] [] argv {}
  let (_, fa, ta) ← abc3Of p
  let [kf, tf] := p.pos | none
  Ali.compalign fa ta (p.has "-c") (p.has "-p") (c2b (← files kf)) (c2b (← files tf))

/-- esl-alimerge [--outformat fmt] [--informat stockholm|pfam] (--dna|--rna|--amino) <file1> <file2>  |  --list <listfile>
    (in-memory mode; alignments with names, rows and #=GC RF only) -/
def runAlimerge (argv : List String) (files : String → Option (List Char)) : Option String := do
  let p ← parseArgs ["--dna", "--rna", "--amino", "--list", "--rfonly"] ["--outformat", "--informat"] argv {}
  let _ ← fabcOf p
  let outfmt := (p.val? "--outformat").getD "stockholm"
  if !msaFormats.contains outfmt then none
  match p.val? "--informat" with
  | some f => if f != "stockholm" && f != "pfam" then none
  | none => pure ()
  let fns : List String ← if p.has "--list" then
      (match p.pos with
       | [lf] => (files lf).map fun c => (Ali.fileTokens (c2b c)).map b2s
       | _ => none)
    else (match p.pos with
       | [a, b] => some [a, b]
       | _ => none)
  if fns.isEmpty then none
  let srcs ← fns.mapM fun f => (files f).map c2b
  (Ali.alimerge outfmt srcs (p.has "--rfonly")).map b2s

def runSfetch (argv : List String) (files : String → Option (List Char)) : Option String :=
  (runSfetchFull argv files).map (·.1)

def runToolCore (tool : String) (argv : List String) (files : String → Option (List Char)) : Option String :=
  match tool with
  | "esl-seqstat" => runSeqstat argv files
  | "esl-alirev" => runAlirev argv files
  | "esl-alipid" => runAlipid argv files
  | "esl-seqrange" => runSeqrange argv files
  | "esl-selectn" => runSelectn argv files
  | "esl-mask" => runMask argv files
  | "esl-reformat" => runReformat argv files
  | "esl-shuffle" => if argv.contains "-A" then runShuffleA argv files else runShuffle argv files
  | "esl-sfetch" => runSfetch argv files
  | "esl-translate" => runTranslate argv files
  | "esl-alistat" => runAlistat argv files
  | "esl-weight" => runWeight argv files
  | "esl-alimanip" => runAlimanip argv files
  | "esl-compstruct" => runCompstruct argv files
  | "esl-compalign" => runCompalign argv files
  | "esl-alimerge" => runAlimerge argv files
  | "easel" => runEasel argv files
  | _ => none

/-- `-o <f>` of the tools that then print nothing on stdout -/
def splitO : List String → List String → Option (String × List String)
  | "-o" :: f :: rest, acc => some (f, acc.reverse ++ rest)
  | a :: rest, acc => splitO rest (a :: acc)
  | [], _ => none

/-- predicted stdout and the files the invocation writes -/
def runToolFull (tool : String) (argv : List String) (files : String → Option (List Char)) :
    Option (String × List (String × List Char)) :=
  if tool == "esl-sfetch" then runSfetchFull argv files
  else if tool == "esl-alimask" then runAlimaskFull argv files
  else if tool == "esl-afetch" then runAfetchFull argv files
  else if tool == "esl-alistat" then runAlistatFull argv files
  else if tool == "esl-alimerge" then
    match splitO argv [] with
    | some (f, rest) => (runToolCore tool rest files).map fun out => ("# Saving alignment to file " ++ f ++ " ... done\n#\n", [(f, out.toList)])
    | none => (runToolCore tool argv files).map fun out => (out, [])
  else if ["esl-shuffle", "esl-reformat", "esl-mask", "esl-weight", "esl-alimanip"].contains tool then
    match splitO argv [] with
    | some (f, rest) => (runToolCore tool rest files).map fun out => ("", [(f, out.toList)])
    | none => (runToolCore tool argv files).map fun out => (out, [])
  else (runToolCore tool argv files).map fun out => (out, [])

def runTool (tool : String) (argv : List String) (files : String → Option (List Char)) : Option String :=
  (runToolFull tool argv files).map (·.1)

end EaselModel.Miniapps
