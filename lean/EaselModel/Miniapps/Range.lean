import EaselModel.Miniapps.Revcomp
/-! # C13 — esl-seqrange (range arithmetic), esl-mask (coordinate masking), esl-alipid (pairwise identity) -/
namespace EaselModel.Miniapps

/-! ## esl-seqrange: `range_by_seqnum` -/

/-- `nseq_used` after `p` iterations of the loop `for p: nseq_used += nseq_per_proc; if (p < remainder) nseq_used++` -/
def usedAfter (per rem : Nat) : Nat → Nat
  | 0 => 0
  | p + 1 => usedAfter per rem p + per + (if p < rem then 1 else 0)

/-- the printed range `start-end` (1-based sequence indices) of processor `procidx ∈ 1..nproc` -/
def seqrange (n nproc procidx : Nat) : Nat × Nat :=
  let per := n / nproc
  let rem := n - per * nproc
  (usedAfter per rem (procidx - 1) + 1, usedAfter per rem procidx)

def seqrangeText (n nproc procidx : Nat) : String :=
  let r := seqrange n nproc procidx
  toString r.1 ++ "-" ++ toString r.2 ++ "\n"

theorem usedAfter_closed (per rem p : Nat) : usedAfter per rem p = p * per + min p rem := by
  induction p with
  | zero => simp [usedAfter]
  | succ p ih =>
    simp only [usedAfter, ih]
    have : (p + 1) * per = p * per + per := Nat.succ_mul p per
    split <;> omega

/-! ## esl-mask -/

structure MaskOpts where
  rev : Bool := false      -- -r
  lower : Bool := false    -- -l
  mchar : Char := 'X'      -- -m <c>
  x : Int := 0             -- -x <n>

def maskFn (o : MaskOpts) (c : Char) : Char :=
  if c.isAlpha then (if o.lower then c.toLower else o.mchar) else c

def maskBetween (o : MaskOpts) (i j : Int) (s : List Char) : List Char :=
  s.mapIdx fun k c => if i ≤ (k : Int) ∧ (k : Int) ≤ j then maskFn o c else c

/-- `start`, `stop` are the 0-based coordinates the tool computes (`strtoll(field) - 1`) -/
def maskSeq (o : MaskOpts) (start stop : Int) (s0 : List Char) : List Char :=
  let s := if o.lower then s0.map (fun c => if c.isAlpha then c.toUpper else c) else s0
  let n : Int := s.length
  if o.rev then
    maskBetween o (max 0 (stop + 1 - o.x)) (n - 1) (maskBetween o 0 (min (n - 1) (start - 1 + o.x)) s)
  else
    maskBetween o (max 0 (start - o.x)) (min (n - 1) (stop + o.x)) s

theorem maskBetween_length (o : MaskOpts) (i j : Int) (s : List Char) : (maskBetween o i j s).length = s.length := by
  simp [maskBetween]

theorem maskBetween_get (o : MaskOpts) (i j : Int) (s : List Char) (k : Nat) (h : k < s.length) :
    (maskBetween o i j s)[k]'(by simp [maskBetween, h]) =
      if i ≤ (k : Int) ∧ (k : Int) ≤ j then maskFn o s[k] else s[k] := by
  simp [maskBetween]

theorem maskSeq_length (o : MaskOpts) (a b : Int) (s : List Char) : (maskSeq o a b s).length = s.length := by
  unfold maskSeq
  split <;> split <;> simp [maskBetween_length]

/-! ## esl-alipid: `esl_dst_XPairId`, `esl_dst_XPairMatch` on rows of equal length -/

def Abc.isRes (a : Abc) (c : Char) : Bool :=
  match a.digit c with
  | some x => a.isResidueIdx x
  | none => false

structure PairId where
  nid : Nat
  len1 : Nat
  len2 : Nat
  nmatch : Nat
  mlen : Nat
deriving DecidableEq, Repr

def pairCol (a : Abc) (acc : PairId) (p : Char × Char) : PairId :=
  let r1 := a.isRes p.1
  let r2 := a.isRes p.2
  { nid := acc.nid + (if r1 && r2 && a.canon p.1 == a.canon p.2 then 1 else 0)
    len1 := acc.len1 + (if r1 then 1 else 0)
    len2 := acc.len2 + (if r2 then 1 else 0)
    nmatch := acc.nmatch + (if r1 && r2 then 1 else 0)
    mlen := acc.mlen + (if r1 || r2 then 1 else 0) }

def pairStats (a : Abc) (x y : List Char) : PairId := (x.zip y).foldl (pairCol a) ⟨0, 0, 0, 0, 0⟩

def PairId.n (p : PairId) : Nat := min p.len1 p.len2

def pctText (num den : Nat) : String :=
  let v : Float := if den = 0 then 0.0 * 100.0 else Float.ofNat num / Float.ofNat den * 100.0
  padLeft 6 (fmtFloat v 2)

def alipidText (a : Abc) (header : Bool) (rows : List Rec) : String :=
  let w := rows.foldl (fun m r => max m r.name.length) 0
  let idx := List.range rows.length
  let body := idx.flatMap fun i => (idx.filter (fun j => i < j)).map fun j =>
    let ri := rows.getD i default
    let rj := rows.getD j default
    let p := pairStats a ri.seq rj.seq
    padRight w (String.ofList ri.name) ++ " " ++ padRight w (String.ofList rj.name) ++ " " ++
      pctText p.nid p.n ++ " " ++ padLeft 6 (toString p.nid) ++ " " ++ padLeft 6 (toString p.n) ++ " " ++
      pctText p.nmatch p.mlen ++ " " ++ padLeft 6 (toString p.nmatch) ++ " " ++ padLeft 6 (toString p.mlen) ++ "\n"
  (if header then "# seqname1 seqname2 %id nid denomid %match nmatch denommatch\n" else "") ++ String.join body

/-- generalized loop invariant: every counter is bounded as the definition promises -/
theorem pairFold_inv (a : Abc) (cols : List (Char × Char)) (acc : PairId)
    (h : acc.nid ≤ acc.nmatch ∧ acc.nmatch ≤ acc.len1 ∧ acc.nmatch ≤ acc.len2 ∧ acc.len1 ≤ acc.mlen ∧ acc.len2 ≤ acc.mlen) :
    let r := cols.foldl (pairCol a) acc
    r.nid ≤ r.nmatch ∧ r.nmatch ≤ r.len1 ∧ r.nmatch ≤ r.len2 ∧ r.len1 ≤ r.mlen ∧ r.len2 ≤ r.mlen := by
  induction cols generalizing acc with
  | nil => simpa using h
  | cons p t ih =>
    simp only [List.foldl]
    apply ih
    simp only [pairCol]
    cases a.isRes p.1 <;> cases a.isRes p.2 <;> simp <;> (try split) <;> omega

def PairId.swap (p : PairId) : PairId := { p with len1 := p.len2, len2 := p.len1 }

theorem pairFold_swap (a : Abc) (x y : List Char) (acc : PairId) :
    (y.zip x).foldl (pairCol a) acc.swap = ((x.zip y).foldl (pairCol a) acc).swap := by
  induction x generalizing y acc with
  | nil => rw [List.zip_nil_right, List.zip_nil_left]; rfl
  | cons c t ih =>
    cases y with
    | nil => rw [List.zip_nil_right, List.zip_nil_left]; rfl
    | cons d u =>
      simp only [List.zip_cons_cons, List.foldl]
      rw [← ih]
      congr 1
      simp only [pairCol, PairId.swap, Bool.and_comm (a.isRes d), Bool.or_comm (a.isRes d)]
      have : (a.canon d == a.canon c) = (a.canon c == a.canon d) := by
        rw [Bool.eq_iff_iff, beq_iff_eq, beq_iff_eq]; exact eq_comm
      rw [this]

end EaselModel.Miniapps
