import EaselModel.Miniapps.StoTools
import EaselModel.Miniapps.Text
/-! # C13 — `esl-compalign` (default per-sequence table and `-c` per-column table): a test alignment against a trusted one

Line-by-line model of `miniapps/esl-compalign.c:main()` without `-p`: two Stockholm files read in digital mode (C03 reader), the
sanity checks in the tool's order, for every residue of every sequence its position relative to the non-gap RF columns in the
trusted and in the test alignment (`kp`, `tp`), the per-sequence and per-RF-position counters, the two tables.
`namewidth` starts at 8 and is NOT reset between alignments (as in the source).  Fractions are binary32 quotients. -/
namespace EaselModel.Miniapps.Ali
open EaselModel.Msafile

/-- `! esl_abc_CIsGap(abc, rf[apos]) && ! esl_abc_CIsMissing(abc, rf[apos])` -/
def rfColumn (t : TAbc) (c : UInt8) : Bool := !(c.toNat < 128 && (t.cIsGap c || t.cIsMissing c))

/-- the RF-relative position of every residue of a row, in order: `(is_rfpos, rfpos)` (`kp[i][uapos] = is_rfpos ? rfpos : -rfpos`) -/
def residuePositions (t : TAbc) (rfm : List Bool) (row : Bytes) : List (Bool × Nat) :=
  ((rfm.zip row).foldl (fun (st : Nat × List (Bool × Nat)) cr =>
    let rfpos := if cr.1 then st.1 + 1 else st.1
    (rfpos, if t.xIsResidue cr.2 then (cr.1, rfpos) :: st.2 else st.2)) (0, [])).2.reverse

/-- `esl_abc_XDealign`: the codes that are neither gap nor missing -/
def xDealign (t : TAbc) (row : Bytes) : Bytes := row.filter fun x => !(t.xIsGap x || t.xIsMissing x)

structure CACounts where
  seqlen : List Nat
  kp : List (List (Bool × Nat))
  tp : List (List (Bool × Nat))
  rflen : Nat

/-- the checks of one pair of alignments; `none` = the tool stops with a message -/
def compalignCounts (t : TAbc) (ka ta : FMsa) : Option CACounts :=
  if ka.nseq != ta.nseq then none else
  match ka.rf, ta.rf with
  | some krf, some trf =>
    if (krf ++ trf).any (fun c => c.toNat ≥ 128) then none else
    let krows := digRows ka
    let trows := digRows ta
    if !((List.range ka.nseq).all fun i =>
          ka.names.getD i [] == ta.names.getD i [] && xDealign t (krows.getD i []) == xDealign t (trows.getD i [])) then none else
    let krfm := (krf.take ka.alen).map (rfColumn t)
    let trfm := (trf.take ta.alen).map (rfColumn t)
    if (krfm.filter id).length != (trfm.filter id).length then none else
    some { seqlen := krows.map fun r => (xDealign t r).length,
           kp := krows.map (residuePositions t krfm), tp := trows.map (residuePositions t trfm), rflen := (krfm.filter id).length }
  | _, _ => none

def f32frac (a b : Nat) : String :=
  let x := (Float32.ofNat a / Float32.ofNat b).toFloat
  if x.isNaN then "-nan" else EaselModel.Miniapps.fmtFloatSigned x 3

def guarded (a b : Nat) : String := if b == 0 then "0.000" else f32frac a b

def cell8 (a b : Nat) (frac : String) : String :=
  EaselModel.Miniapps.padLeft 8 (toString a) ++ " / " ++ EaselModel.Miniapps.padLeft 8 (toString b) ++ "  (" ++ frac ++ ")"
def cell4 (a b : Nat) (frac : String) : String :=
  EaselModel.Miniapps.padLeft 4 (toString a) ++ " / " ++ EaselModel.Miniapps.padLeft 4 (toString b) ++ "  (" ++ frac ++ ")"

/-- per sequence: `(km, ki, cor_tm, cor_ti)` -/
def seqCounts (kp tp : List (Bool × Nat)) : Nat × Nat × Nat × Nat :=
  (kp.countP (·.1), kp.countP (fun p => !p.1),
   (kp.zip tp).countP (fun x => x.2.1 && x.1 == x.2), (kp.zip tp).countP (fun x => !x.2.1 && x.1 == x.2))

def dashes (n : Nat) : String := String.ofList (List.replicate n '-')

/-- the default table of one pair of alignments -/
def perSeqTable (c : CACounts) (names : List Bytes) (namewidth : Nat) : String :=
  let pr := EaselModel.Miniapps.padRight namewidth
  let d28 := dashes 28
  let head := "# " ++ pr "seq name" ++ "  " ++ EaselModel.Miniapps.padLeft 6 "len" ++ "  " ++ EaselModel.Miniapps.padLeft 28 "match columns" ++ "  " ++
      EaselModel.Miniapps.padLeft 28 "insert columns" ++ "  " ++ EaselModel.Miniapps.padLeft 28 "all columns" ++ "\n" ++
    "# " ++ pr (dashes namewidth) ++ "  " ++ "------" ++ "  " ++ d28 ++ "  " ++ d28 ++ "  " ++ d28 ++ "\n"
  let per := (List.range names.length).map fun i => seqCounts (c.kp.getD i []) (c.tp.getD i [])
  let lines := (List.range names.length).map fun i =>
    let (km, ki, ctm, cti) := per.getD i (0, 0, 0, 0)
    "  " ++ pr (String.ofList ((names.getD i []).map fun x => Char.ofNat x.toNat)) ++ "  " ++ EaselModel.Miniapps.padLeft 6 (toString (c.seqlen.getD i 0)) ++ "  " ++
      cell8 ctm km (guarded ctm km) ++ "  " ++ cell8 cti ki (guarded cti ki) ++ "  " ++ cell8 (ctm + cti) (km + ki) (f32frac (ctm + cti) (km + ki)) ++ "\n"
  let km := (per.map (·.1)).sum
  let ki := (per.map (·.2.1)).sum
  let ctm := (per.map (·.2.2.1)).sum
  let cti := (per.map (·.2.2.2)).sum
  head ++ String.join lines ++
    "# " ++ pr (dashes namewidth) ++ "  " ++ EaselModel.Miniapps.padLeft 6 "-----" ++ "  " ++ d28 ++ "  " ++ d28 ++ "  " ++ d28 ++ "\n" ++
    "# " ++ pr "*all*" ++ "  " ++ EaselModel.Miniapps.padLeft 6 "-" ++ "  " ++ cell8 ctm km (f32frac ctm km) ++ "  " ++ cell8 cti ki (f32frac cti ki) ++ "  " ++
      cell8 (ctm + cti) (km + ki) (f32frac (ctm + cti) (km + ki)) ++ "\n"

/-- the `-c` table of one pair of alignments: one line per RF position 0..rflen (0 = before the first) -/
def perColumnTable (c : CACounts) : String :=
  let d20 := dashes 20
  let head := "# " ++ EaselModel.Miniapps.padLeft 5 "rfpos" ++ "  " ++ EaselModel.Miniapps.padLeft 20 "match" ++ "  " ++ EaselModel.Miniapps.padLeft 20 "insert" ++ "  " ++
      EaselModel.Miniapps.padLeft 20 "both" ++ "\n" ++
    "# " ++ "-----" ++ "  " ++ d20 ++ "  " ++ d20 ++ "  " ++ d20 ++ "\n"
  let kall := c.kp.flatten
  let pairs := (c.kp.zip c.tp).flatMap fun x => x.1.zip x.2
  let lines := (List.range (c.rflen + 1)).map fun r =>
    let km := kall.countP (fun p => p.1 && p.2 == r)
    let ki := kall.countP (fun p => !p.1 && p.2 == r)
    let ctm := pairs.countP (fun x => x.2.1 && x.2.2 == r && x.1 == x.2)
    let cti := pairs.countP (fun x => !x.2.1 && x.2.2 == r && x.1 == x.2)
    "  " ++ EaselModel.Miniapps.padLeft 5 (toString r) ++ "  " ++ cell4 ctm km (guarded ctm km) ++ "  " ++ cell4 cti ki (guarded cti ki) ++ "  " ++
      cell4 (ctm + cti) (km + ki) (f32frac (ctm + cti) (km + ki)) ++ "\n"
  head ++ String.join lines

/-! ## `-p`: accuracy by posterior probability class of the TEST alignment's residues (without `--p-mask`) -/

/-- the PP class (0-9, `*` = 10) of every residue of a test row, in order; `none` = the tool stops (gap PP under a residue, a
    character that is no PP class) -/
def residuePP (t : TAbc) (row pp : Bytes) : Option (List Nat) :=
  ((row.zip pp).filter fun x => t.xIsResidue x.1).mapM fun x =>
    let c := x.2
    if c.toNat < 128 && t.cIsGap c then none
    else if c == 42 then some 10
    else if 48 ≤ c && c ≤ 57 then some (c.toNat - 48)
    else none

def f32frac5 (a b : Nat) : String :=
  if b == 0 then "0.00000" else
  let x := (Float32.ofNat a / Float32.ofNat b).toFloat
  if x.isNaN then "-nan" else EaselModel.Miniapps.fmtFloatSigned x 5

/-- the `-p` table of one pair of alignments -/
def perPPTable (c : CACounts) (pps : List (List Nat)) : String :=
  let pl := EaselModel.Miniapps.padLeft
  let d29 := dashes 29
  let head :=
    "# " ++ pl 2 "" ++ "  " ++ pl 29 "      match columns          " ++ "  " ++ pl 29 "      insert columns         " ++ "\n" ++
    "# " ++ pl 2 "" ++ "  " ++ d29 ++ "  " ++ d29 ++ "\n" ++
    "# " ++ pl 2 "PP" ++ "  " ++ pl 8 "ncorrect" ++ "   " ++ pl 8 "ntotal" ++ " " ++ pl 9 "fractcor" ++ "  " ++ pl 8 "ncorrect" ++ "   " ++ pl 8 "ntotal" ++ " " ++ pl 9 "fractcor" ++ "\n" ++
    "# " ++ pl 2 "--" ++ "  " ++ "--------" ++ "   " ++ "--------" ++ " " ++ "---------" ++ "  " ++ "--------" ++ "   " ++ "--------" ++ " " ++ "---------" ++ "\n"
  -- every test residue with its trusted position, its test position and its PP class
  let all : List ((Bool × Nat) × (Bool × Nat) × Nat) := ((c.kp.zip c.tp).zip pps).flatMap fun x => (x.1.1.zip (x.1.2.zip x.2))
  let lines := (List.range 11).reverse.map fun p =>
    let ptm := all.countP fun x => x.2.1.1 && x.2.2 == p
    let pti := all.countP fun x => !x.2.1.1 && x.2.2 == p
    let cptm := all.countP fun x => x.2.1.1 && x.2.2 == p && x.1 == x.2.1
    let cpti := all.countP fun x => !x.2.1.1 && x.2.2 == p && x.1 == x.2.1
    "  " ++ pl 2 (String.singleton ("0123456789*".toList.getD p '?')) ++ "  " ++ pl 8 (toString cptm) ++ " / " ++ pl 8 (toString ptm) ++ " (" ++ f32frac5 cptm ptm ++ ")  " ++
      pl 8 (toString cpti) ++ " / " ++ pl 8 (toString pti) ++ " (" ++ f32frac5 cpti pti ++ ")\n"
  head ++ String.join lines

/-- `while (Read(kfp) != EOF) { Read(tfp) must succeed … }`, `namewidth` carried along -/
def compalignFiles (t : TAbc) (perCol post : Bool) : List FMsa → List FMsa → Nat → String → Option String
  | [], _, _, acc => some acc
  | _ :: _, [], _, _ => none
  | ka :: ks, ta :: ts, nw, acc =>
    match compalignCounts t ka ta with
    | none => none
    | some c =>
      -- with -p every test sequence needs its #=GR PP line and a PP class under every residue, whichever table is printed
      let pps : Option (List (List Nat)) :=
        if post then
          match ta.pp with
          | none => none
          | some ppl => ((digRows ta).zip (ppl ++ List.replicate ta.nseq none)).mapM fun x =>
              match x.2 with | some line => residuePP t x.1 (line.take ta.alen) | none => none
        else some []
      match pps with
      | none => none
      | some pp =>
        let plain := !perCol && !post
        let nw' := if plain then ka.names.foldl (fun m n => max m n.length) nw else nw
        compalignFiles t perCol post ks ts nw'
          (acc ++ (if plain then perSeqTable c ka.names nw' else if perCol then perColumnTable c else perPPTable c pp))

/-- stdout of `esl-compalign [-c] (--dna|--rna|--amino) <trusted.sto> <test.sto>` -/
def compalign (fa : EaselModel.Msafile.Abc) (t : TAbc) (perCol post : Bool) (ksrc tsrc : Bytes) : Option String :=
  match readStoDigital fa "stockholm" ksrc, readStoDigital fa "stockholm" tsrc with
  | some kas, some tas => compalignFiles t perCol post kas tas 8 ""
  | _, _ => none

/-! ## lemmas -/

/-- an alignment compared with itself: every residue is correct -/
theorem seqCounts_self (kp : List (Bool × Nat)) :
    (seqCounts kp kp).2.2.1 = (seqCounts kp kp).1 ∧ (seqCounts kp kp).2.2.2 = (seqCounts kp kp).2.1 := by
  simp only [seqCounts]
  induction kp with
  | nil => simp
  | cons p ps ih =>
    simp only [List.zip_cons_cons, List.countP_cons, beq_self_eq_true, Bool.and_true]
    omega

theorem zip_countP_match_le (kp tp : List (Bool × Nat)) :
    (kp.zip tp).countP (fun x => x.2.1 && x.1 == x.2) ≤ kp.countP (·.1) := by
  induction kp generalizing tp with
  | nil => simp
  | cons p ps ih =>
    cases tp with
    | nil => simp
    | cons q qs =>
      simp only [List.zip_cons_cons, List.countP_cons]
      have h := ih qs
      have h2 : (if (q.1 && p == q) = true then 1 else 0) ≤ (if p.1 = true then 1 else 0) := by
        by_cases hc : (q.1 && p == q) = true
        · simp only [Bool.and_eq_true, beq_iff_eq] at hc
          have hp : p.1 = true := by rw [hc.2]; exact hc.1
          simp [hp]
          split <;> omega
        · simp [hc]
      omega

theorem zip_countP_insert_le (kp tp : List (Bool × Nat)) :
    (kp.zip tp).countP (fun x => !x.2.1 && x.1 == x.2) ≤ kp.countP (fun p => !p.1) := by
  induction kp generalizing tp with
  | nil => simp
  | cons p ps ih =>
    cases tp with
    | nil => simp
    | cons q qs =>
      simp only [List.zip_cons_cons, List.countP_cons]
      have h := ih qs
      have h2 : (if (!q.1 && p == q) = true then 1 else 0) ≤ (if (!p.1) = true then 1 else 0) := by
        by_cases hc : (!q.1 && p == q) = true
        · simp only [Bool.and_eq_true, beq_iff_eq] at hc
          have hp : (!p.1) = true := by rw [hc.2]; exact hc.1
          simp [hp]
          split <;> omega
        · simp [hc]
      omega

/-- correct <= counted, per sequence: a residue is "correct" only if it sits at the same RF-relative position in both alignments, so a
    correct test match (insert) residue is one of the trusted alignment's match (insert) residues too -/
theorem seqCounts_le (kp tp : List (Bool × Nat)) :
    (seqCounts kp tp).2.2.1 ≤ (seqCounts kp tp).1 ∧ (seqCounts kp tp).2.2.2 ≤ (seqCounts kp tp).2.1 :=
  ⟨zip_countP_match_le kp tp, zip_countP_insert_le kp tp⟩

end EaselModel.Miniapps.Ali
