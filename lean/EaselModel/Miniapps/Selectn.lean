import EaselModel.Miniapps.Text
import EaselModel.Random.Model
/-! # C13 — esl-selectn: reservoir sampling of `m` lines, driven by the C09 generator model -/
namespace EaselModel.Miniapps
open EaselModel.Random

/-- The main loop of `miniapps/esl-selectn.c`, over an arbitrary roll function `roll s n ∈ 0..n-1` with state `σ`:
    line number `n` (1-based) is stored in slot `n-1` while `n ≤ m`, afterwards it replaces slot `r = roll n` when `r < m`. -/
def reservoir {α σ : Type} (roll : σ → Nat → Nat × σ) (m : Nat) : List α → Nat → σ → List α → List α × σ
  | [], _, s, res => (res, s)
  | x :: xs, n, s, res =>
    if n + 1 ≤ m then reservoir roll m xs (n + 1) s (res ++ [x])
    else
      let rs := roll s (n + 1)
      if rs.1 < m then reservoir roll m xs (n + 1) rs.2 (res.set rs.1 x)
      else reservoir roll m xs (n + 1) rs.2 res

def selectn {α σ : Type} (roll : σ → Nat → Nat × σ) (m : Nat) (lines : List α) (s : σ) : List α :=
  (reservoir roll m lines 0 s []).1

/-- lines with their terminators, as `esl_fgets` returns them -/
def linesKeepNl : List Char → List (List Char)
  | [] => []
  | c :: cs =>
    if c = '\n' then [c] :: linesKeepNl cs
    else match linesKeepNl cs with
      | [] => [[c]]
      | l :: ls => (c :: l) :: ls

/-- `esl_rnd_Roll` of the C09 model with a large fuel for the rejection loop -/
def rollRng (r : Rng) (n : Nat) : Nat × Rng :=
  match r.roll n 1000000 with
  | some x => x
  | none => (0, r)

def selectnText (seed : Nat) (m : Nat) (file : List Char) : Option String :=
  let ls := linesKeepNl file
  if ls.length < m then none
  else some (String.ofList (selectn rollRng m ls (Rng.create .mersenne (UInt32.ofNat seed))).flatten)

/-! ## the selection is a sub-multiset of the input, whatever the roll function does -/

theorem eraseIdx_perm_erase {α : Type} [DecidableEq α] (l : List α) (i : Nat) (h : i < l.length) :
    (l.eraseIdx i).Perm (l.erase l[i]) := by
  induction l generalizing i with
  | nil => simp at h
  | cons a t ih =>
    cases i with
    | zero => simp
    | succ j =>
      have hj : j < t.length := by simpa using h
      simp only [List.eraseIdx_cons_succ, List.getElem_cons_succ]
      rw [List.erase_cons]
      by_cases e : a = t[j]
      · have hb : (a == t[j]) = true := by simp [e]
        simp only [hb, ↓reduceIte]
        refine ((ih j hj).cons a).trans ?_
        rw [e]
        exact (List.perm_cons_erase (List.getElem_mem hj)).symm
      · have hb : (a == t[j]) = false := by simp [e]
        simp only [hb, Bool.false_eq_true, ↓reduceIte]
        exact (ih j hj).cons a

theorem set_perm_cons_eraseIdx {α : Type} (l : List α) (i : Nat) (x : α) (h : i < l.length) :
    (l.set i x).Perm (x :: l.eraseIdx i) := by
  induction l generalizing i with
  | nil => simp at h
  | cons a t ih =>
    cases i with
    | zero => simp
    | succ j =>
      have hj : j < t.length := by simpa using h
      simp only [List.set_cons_succ, List.eraseIdx_cons_succ]
      exact ((ih j hj).cons a).trans (List.Perm.swap x a _)

theorem reservoir_inv {α σ : Type} [DecidableEq α] (roll : σ → Nat → Nat × σ) (m : Nat) (xs : List α) :
    ∀ (n : Nat) (s : σ) (res pre : List α), (∃ l, l.Sublist pre ∧ res.Perm l) →
      ∃ l, l.Sublist (pre ++ xs) ∧ (reservoir roll m xs n s res).1.Perm l := by
  induction xs with
  | nil => intro n s res pre h; simpa [reservoir] using h
  | cons x xs ih =>
    intro n s res pre ⟨l, hl, hp⟩
    have happ : pre ++ x :: xs = (pre ++ [x]) ++ xs := by simp
    rw [happ]
    unfold reservoir
    split
    · exact ih _ _ _ _ ⟨l ++ [x], List.Sublist.append hl (List.Sublist.refl _), hp.append_right [x]⟩
    · simp only []
      split
      · rename_i hr
        by_cases hlen : (roll s (n + 1)).1 < res.length
        · refine ih _ _ _ _ ⟨l.erase (res[(roll s (n + 1)).1]) ++ [x], ?_, ?_⟩
          · exact List.Sublist.append ((List.erase_sublist).trans hl) (List.Sublist.refl _)
          · refine (set_perm_cons_eraseIdx res _ x hlen).trans ?_
            refine (List.Perm.cons x ((eraseIdx_perm_erase res _ hlen).trans (hp.erase _))).trans ?_
            exact (List.perm_append_singleton x _).symm
        · have : res.set (roll s (n + 1)).1 x = res := List.set_eq_of_length_le (by omega)
          rw [this]
          exact ih _ _ _ _ ⟨l, hl.trans (List.sublist_append_left pre [x]), hp⟩
      · exact ih _ _ _ _ ⟨l, hl.trans (List.sublist_append_left pre [x]), hp⟩

theorem reservoir_length {α σ : Type} (roll : σ → Nat → Nat × σ) (m : Nat) (xs : List α) :
    ∀ (n : Nat) (s : σ) (res : List α), res.length = min n m →
      (reservoir roll m xs n s res).1.length = min (n + xs.length) m := by
  induction xs with
  | nil => intro n s res h; simpa [reservoir] using h
  | cons x xs ih =>
    intro n s res h
    unfold reservoir
    have e : n + (x :: xs).length = (n + 1) + xs.length := by simp; omega
    rw [e]
    split
    · apply ih; simp [h]; omega
    · simp only []
      split
      · apply ih; simp [h]; omega
      · apply ih; omega

end EaselModel.Miniapps
