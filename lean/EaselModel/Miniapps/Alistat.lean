import EaselModel.Miniapps.Range
import EaselModel.Miniapps.Selectn
/-! # C13 — esl-alistat / `easel alistat` on one aligned-FASTA alignment: recomputed counts and average identity -/
namespace EaselModel.Miniapps
open EaselModel.Random

/-- `esl_abc_dsqrlen`: residues (canonical or degenerate) of an aligned row -/
def rowRlen (a : Abc) (row : List Char) : Nat := (row.filter a.isRes).length

structure AliStats where
  nseq : Nat
  alen : Nat
  nres : Nat
  small : Nat
  large : Nat
deriving DecidableEq, Repr

/-- the loop `smallest = largest = -1; for i: rlen = dsqrlen(ax[i]); nres += rlen; if (smallest == -1 || rlen < smallest) …` -/
def aliStats (a : Abc) (rows : List (List Char)) : AliStats :=
  let ls := rows.map (rowRlen a)
  let st := stats ls
  { nseq := rows.length, alen := (rows.headD []).length, nres := st.nres, small := st.small, large := st.large }

def pidF (a : Abc) (x y : List Char) : Float :=
  let p := pairStats a x y
  if p.n = 0 then 0.0 else Float.ofNat p.nid / Float.ofNat p.n

/-- all-pairs branch of `esl_dst_XAverageId`: `for i<N for j>i: avgid += id; avgid /= N(N-1)/2` -/
def avgIdAll (a : Abc) (rows : List (List Char)) : Float :=
  let n := rows.length
  let idx := List.range n
  let s := idx.foldl (fun acc i =>
    (idx.filter (fun j => i < j)).foldl (fun acc j => acc + pidF a (rows.getD i []) (rows.getD j [])) acc) 0.0
  s / Float.ofNat (n * (n - 1) / 2)

/-- sampling branch: `rng = Create(42); max_comparisons times: do { i = Roll(N); j = Roll(N); } while (j == i)` -/
def samplePair (n : Nat) : Nat → Rng → Nat × Nat × Rng
  | 0, g => (0, 1, g)
  | fuel + 1, g =>
    let (i, g) := rollRng g n
    let (j, g) := rollRng g n
    if j = i then samplePair n fuel g else (i, j, g)

def avgIdSample (a : Abc) (rows : List (List Char)) (maxc : Nat) : Float :=
  let n := rows.length
  let arr := rows.toArray
  let rec go : Nat → Rng → Float → Float
    | 0, _, acc => acc
    | k + 1, g, acc =>
      let (i, j, g) := samplePair n 100000 g
      go k g (acc + pidF a (arr.getD i []) (arr.getD j []))
  go maxc (Rng.create .mersenne 42) 0.0 / Float.ofNat maxc

def avgId (a : Abc) (rows : List (List Char)) (maxc : Nat) : Float :=
  let n := rows.length
  if n ≤ 1 then 1.0
  else if n ≤ maxc ∧ Float.ofNat n ≤ Float.sqrt (2.0 * Float.ofNat maxc) ∧ n * (n - 1) / 2 ≤ maxc then avgIdAll a rows
  else avgIdSample a rows maxc

def pct0 (x : Float) : String := fmtFloat (100.0 * x) 0

def avgLen (nres nseq : Nat) : String := fmtFloat (Float.ofNat nres / Float.ofNat nseq) 1

/-- `easel alistat <afa>` (default output) -/
def easelAlistatText (a : Abc) (recs : List Rec) : String :=
  let rows := recs.map fun r => a.normalize r.seq
  let st := aliStats a rows
  "Alignment name:      (null)\n" ++
  "Format:              aligned FASTA\n" ++
  "Alphabet:            " ++ a.typeName ++ "\n" ++
  "Number of sequences: " ++ toString st.nseq ++ "\n" ++
  "Alignment length:    " ++ toString st.alen ++ "\n" ++
  "Total # residues:    " ++ toString st.nres ++ "\n" ++
  "Smallest:            " ++ toString st.small ++ "\n" ++
  "Largest:             " ++ toString st.large ++ "\n" ++
  "Average length:      " ++ avgLen st.nres st.nseq ++ "\n" ++
  "Average identity:    " ++ pct0 (avgId a rows 1000) ++ "%\n//\n"

/-- `esl-alistat --informat afa <afa>` (default output; an aligned-FASTA alignment has no name) -/
def eslAlistatText (a : Abc) (recs : List Rec) : String :=
  let rows := recs.map fun r => a.normalize r.seq
  let st := aliStats a rows
  "Alignment number:    1\n" ++
  "Format:              aligned FASTA\n" ++
  "Number of sequences: " ++ toString st.nseq ++ "\n" ++
  "Alignment length:    " ++ toString st.alen ++ "\n" ++
  "Total # residues:    " ++ toString st.nres ++ "\n" ++
  "Smallest:            " ++ toString st.small ++ "\n" ++
  "Largest:             " ++ toString st.large ++ "\n" ++
  "Average length:      " ++ avgLen st.nres st.nseq ++ "\n" ++
  "Average identity:    " ++ pct0 (avgId a rows 1000) ++ "%\n//\n"

/-- `esl-alistat -1` -/
def eslAlistatOneLine (a : Abc) (recs : List Rec) : String :=
  let rows := recs.map fun r => a.normalize r.seq
  let st := aliStats a rows
  "#\n" ++
  "# " ++ padRight 4 "idx" ++ " " ++ padRight 20 "name" ++ " " ++ padLeft 10 "format" ++ " " ++ padLeft 7 "nseq" ++ " " ++
    padLeft 7 "alen" ++ " " ++ padLeft 12 "nres" ++ " " ++ padLeft 6 "small" ++ " " ++ padLeft 6 "large" ++ " " ++
    padLeft 10 "avlen" ++ " " ++ padLeft 3 "%id" ++ "\n" ++
  "# " ++ "----" ++ " " ++ "--------------------" ++ " " ++ "----------" ++ " " ++ "-------" ++ " " ++ "-------" ++ " " ++
    "------------" ++ " " ++ "------" ++ " " ++ "------" ++ " " ++ "----------" ++ " " ++ "---" ++ "\n" ++
  padRight 6 "1" ++ " " ++ padRight 20 "(null)" ++ " " ++ padLeft 10 "aligned FASTA" ++ " " ++ padLeft 7 (toString st.nseq) ++ " " ++
    padLeft 7 (toString st.alen) ++ " " ++ padLeft 12 (toString st.nres) ++ " " ++ padLeft 6 (toString st.small) ++ " " ++
    padLeft 6 (toString st.large) ++ " " ++ padLeft 10 (avgLen st.nres st.nseq) ++ " " ++ padLeft 3 (pct0 (avgId a rows 1000)) ++ "\n"

/-- the `esl_dataheader` line pair of `easel alistat -1` -/
def easelOneLineHeader : String :=
  let cols : List (Int × String) := [(-6, "idx"), (-20, "name"), (-10, "format"), (10, "nseq"), (10, "alen"), (12, "nres"), (6, "small"),
    (6, "large"), (8, "avglen"), (3, "%id"), (12, "recsize"), (10, "size/nres")]
  let cell (first : Bool) (w : Int) (t : String) : String :=
    let width := w.natAbs - (if first then 2 else 0)
    (if first then "# " else "") ++ (if w < 0 then padRight width t else padLeft width t)
  " ".intercalate (cols.mapIdx fun i c => cell (i == 0) c.1 c.2) ++ "\n" ++
  " ".intercalate (cols.mapIdx fun i c =>
    (if i == 0 then "#" else "") ++ String.ofList (List.replicate (c.1.natAbs - (if i == 0 then 1 else 0)) '-')) ++ "\n"

/-- `easel alistat -1 <afa>`: `esl_dataheader` line pair + one row; the record size is the file size (one alignment
    starting at offset 0) and `size/nres` is a single-precision quotient -/
def easelAlistatOneLine (a : Abc) (fileSize : Nat) (recs : List Rec) : String :=
  let rows := recs.map fun r => a.normalize r.seq
  let st := aliStats a rows
  let cols : List (Int × String) := [(-6, "idx"), (-20, "name"), (-10, "format"), (10, "nseq"), (10, "alen"), (12, "nres"), (6, "small"),
    (6, "large"), (8, "avglen"), (3, "%id"), (12, "recsize"), (10, "size/nres")]
  let cell (first : Bool) (w : Int) (t : String) : String :=
    let width := w.natAbs - (if first then 2 else 0)
    (if first then "# " else "") ++ (if w < 0 then padRight width t else padLeft width t)
  let hdr := " ".intercalate (cols.mapIdx fun i c => cell (i == 0) c.1 c.2) ++ "\n"
  let dashes := " ".intercalate (cols.mapIdx fun i c =>
    (if i == 0 then "#" else "") ++ String.ofList (List.replicate (c.1.natAbs - (if i == 0 then 1 else 0)) '-')) ++ "\n"
  let ratio := fmtFloat (Float32.ofNat fileSize / Float32.ofNat st.nres).toFloat 2
  hdr ++ dashes ++
  padRight 6 "1" ++ " " ++ padRight 20 "(null)" ++ " " ++ padLeft 10 "aligned FASTA" ++ " " ++ padLeft 10 (toString st.nseq) ++ " " ++
    padLeft 10 (toString st.alen) ++ " " ++ padLeft 12 (toString st.nres) ++ " " ++ padLeft 6 (toString st.small) ++ " " ++
    padLeft 6 (toString st.large) ++ " " ++ padLeft 8 (avgLen st.nres st.nseq) ++ " " ++ padLeft 3 (pct0 (avgId a rows 1000)) ++ " " ++
    padLeft 12 (toString fileSize) ++ " " ++ padLeft 10 ratio ++ "\n"

theorem aliStats_nres (a : Abc) (rows : List (List Char)) :
    (aliStats a rows).nres = (rows.map (rowRlen a)).sum := by
  simp [aliStats, stats, foldl_statsStep_nres]

theorem rowRlen_le (a : Abc) (row : List Char) : rowRlen a row ≤ row.length := by
  simp [rowRlen, List.length_filter_le]

end EaselModel.Miniapps
