import EaselModel.Msafile.Write
import EaselModel.Msafile.A2m
import EaselModel.Msafile.Clustal
import EaselModel.Msafile.Psiblast
import EaselModel.Msafile.Phylip
import EaselModel.Msafile.Selex
import EaselModel.Msafile.Stockholm
import EaselModel.Msa.Model
/-! # C13 — `esl-reformat <alignment format> <alignment file>`: the alignment branch of `miniapps/esl-reformat.c:main()`

The tool opens the file in TEXT mode (`esl_msafile_Open(NULL, …)`), reads every alignment, applies the option steps in the
fixed order of the source, and writes with `esl_msafile_Write` (or, with `--namelen`, directly with
`esl_msafile_phylip_Write` and a name-field width).  The reference function is the composition of models that other
properties own and tie to the code: the ten readers and writers of C01/C03 (`EaselModel.Msafile`), the column removal of C15
(`EaselModel.Msa.minimGapsText` / `noGapsText`) and the WUSS conversions of C15 (`kh2wuss`, `wuss2kh`, `wussFull`).
What is modelled here line by line is only the tool's own plumbing: the order of the steps, `esl_msa_SymConvert`,
`esl_msa_FormatSeqName("%s.%d")`, the `--namelen` special case, the ">1 alignment" rule. -/
namespace EaselModel.Miniapps.Ali
open EaselModel.Msafile

abbrev FMsa := EaselModel.Msafile.Msa
abbrev TMsa := EaselModel.Msa.Msa

/-! ## readers / writers by format name (text mode) -/

def readerOf (fmt : String) : Option (List Bytes → Res FMsa × List Bytes) :=
  if fmt == "afa" then some (afaRead (afaCfg none))
  else if fmt == "a2m" then some (a2mRead (a2mCfg none))
  else if fmt == "psiblast" then some (psiblastRead (psiblastCfg none))
  else if fmt == "clustal" then some (clustalRead false (clustalCfg none))
  else if fmt == "clustallike" then some (clustalRead true (clustalCfg none))
  else if fmt == "phylip" then some (phylipRead false (phylipCfg none))
  else if fmt == "phylips" then some (phylipRead true (phylipCfg none))
  else if fmt == "stockholm" || fmt == "pfam" then some (stockholmRead (stockholmCfg none))
  else if fmt == "selex" then some (selexRead (selexCfg none))
  else none

/-- `while ((status = esl_msafile_Read(afp, &msa)) != eslEOF)`: every alignment of the file; `none` = a read failed -/
def readAll (rd : List Bytes → Res FMsa × List Bytes) : Nat → List Bytes → List FMsa → Option (List FMsa)
  | 0, _, _ => none
  | fuel + 1, ls, acc =>
    match rd ls with
    | (.ok m, rest) => readAll rd fuel rest (m :: acc)
    | (.eof, _) => some acc.reverse
    | _ => none

def readFile (fmt : String) (src : Bytes) : Option (List FMsa) :=
  match readerOf fmt with
  | none => none
  | some rd => readAll rd ((splitLines src).length + 2) (splitLines src) []

/-- `esl_msafile_IsMultiRecord(fmt)` -/
def isMultiRecord (fmt : String) : Bool := fmt == "stockholm" || fmt == "pfam"

/-! ## the PHYLIP writers with `opt_fmtd->namewidth` (`phylip_interleaved_Write`, `phylip_sequential_Write`; `rpl` unset = 60) -/

def phyRowLineW (nw : Nat) (abc : Option Abc) (m : FMsa) (idx apos : Nat) : Bytes :=
  if apos == 0 then padTrunc nw (m.names.getD idx []) ++ [32] ++ phyBuf abc m idx apos
  else phyBuf abc m idx apos

def phylipInterleavedWriteW (nw : Nat) (abc : Option Abc) (m : FMsa) : Bytes :=
  phyWrHeader m
  ++ (blockStarts m.alen phyRpl).flatMap (fun apos =>
        [10] ++ joinLF ((List.range m.nseq).map fun idx => phyRowLineW nw abc m idx apos))

/-- the lines of ONE sequence in the sequential layout: name + first 60 residues, then the continuation lines -/
def phySeqRowLines (nw : Nat) (abc : Option Abc) (m : FMsa) (idx : Nat) : List Bytes :=
  (blockStarts m.alen phyRpl).map fun apos => phyRowLineW nw abc m idx apos

def phylipSequentialLinesW (nw : Nat) (abc : Option Abc) (m : FMsa) : List Bytes :=
  phyWrHeader m :: (List.range m.nseq).flatMap (phySeqRowLines nw abc m)

def phylipSequentialWriteW (nw : Nat) (abc : Option Abc) (m : FMsa) : Bytes := joinLF (phylipSequentialLinesW nw abc m)

/-- `esl_msafile_phylip_Write(fp, msa, fmt, &optfmt)` with `optfmt.namewidth = nw` (`nw = 0`: unset, 10 is used) -/
def phylipWriteW (nw : Nat) (sequential : Bool) (abc : Option Abc) (m : FMsa) : Bytes :=
  let w := if nw == 0 then phyNameWidth else nw
  if sequential then phylipSequentialWriteW w abc m else phylipInterleavedWriteW w abc m

/-! ## `esl_msa_SymConvert`, renaming -/

/-- one character through `if ((sptr = strchr(oldsyms, c)) != NULL) c = special ? *newsyms : newsyms[sptr-oldsyms]` -/
def symconvB (old new : Bytes) (c : UInt8) : UInt8 :=
  let i := old.idxOf c
  if i < old.length then (if new.length = 1 then new.headD c else new.getD i c) else c

def symConvert (old new : Bytes) (m : FMsa) : FMsa := { m with aseq := m.aseq.map fun r => r.map (symconvB old new) }

def upperB : Bytes := str "ABCDEFGHIJKLMNOPQRSTUVWXYZ"
def lowerB : Bytes := str "abcdefghijklmnopqrstuvwxyz"

/-- `for (idx…) esl_msa_FormatSeqName(msa, idx, "%s.%d", rename, idx+1)` -/
def renameAll (s : Bytes) (m : FMsa) : FMsa :=
  { m with names := (List.range m.nseq).map fun i => s ++ [46] ++ natDec (i + 1) }

/-! ## between the two alignment records (C01/C03's and C15's) -/

def padRows (n : Nat) (o : OptRows) : List (Option Bytes) :=
  let l := o.getD []
  (l ++ List.replicate (n - l.length) none).take n

def toT (m : FMsa) : TMsa :=
  let n := m.nseq
  { nseq := n, alen := m.alen, flags := (if m.hasw then 1 else 0) + (if m.digital then 2 else 0), abc := none,
    rows := if m.digital then m.ax.map (fun r => (r.drop 1).dropLast) else m.aseq,
    sqname := m.names, wgt := m.wgt.map Wgt.toBits,
    name := m.name, desc := m.desc, acc := m.acc, au := m.au,
    ss_cons := m.ssCons, sa_cons := m.saCons, pp_cons := m.ppCons, rf := m.rf, mm := m.mm,
    sqacc := padRows n m.sqacc, sqdesc := padRows n m.sqdesc,
    ss := padRows n m.ss, sa := padRows n m.sa, pp := padRows n m.pp,
    cutoff := (List.range 6).map (fun k => (m.cutoff.getD k none).getD 0),
    cutset := (List.range 6).map (fun k => (m.cutoff.getD k none).isSome),
    comment := m.comments, gf := m.gf, gs := m.gs, gc := m.gc, gr := m.gr }

/-- the column-dependent fields of `t` put back into `m` (what `esl_msa_ColumnSubset` touches) -/
def withColumnsOf (m : FMsa) (t : TMsa) : FMsa :=
  { m with alen := t.alen,
           aseq := if m.digital then m.aseq else t.rows,
           ax := if m.digital then t.rows.map (fun r => dsqSENTINEL :: r ++ [dsqSENTINEL]) else m.ax,
           ssCons := t.ss_cons, saCons := t.sa_cons, ppCons := t.pp_cons, rf := t.rf, mm := t.mm,
           ss := m.ss.map (fun _ => t.ss), sa := m.sa.map (fun _ => t.sa), pp := m.pp.map (fun _ => t.pp),
           gc := t.gc, gr := t.gr }

/-- a C15 column operation applied to a C01/C03 alignment record; `none` = the operation failed (the tool dies with a message) -/
def columnOp (f : TMsa → EaselModel.Msa.Res) (m : FMsa) : Option FMsa :=
  let r := f (toT m)
  if r.st == .ok && !r.exc then some (withColumnsOf m r.msa) else none

/-! ## WUSS options -/

def mapSS (f : Bytes → Bytes) (m : FMsa) : FMsa :=
  { m with ssCons := m.ssCons.map f, ss := m.ss.map fun l => l.map fun o => o.map f }

def fullWuss (m : FMsa) : Option FMsa := do
  let sc ← match m.ssCons with
    | none => some none
    | some s => (match EaselModel.Msa.wussFull s with | .ok s' => some (some s') | .error _ => none)
  let ss ← match m.ss with
    | none => some none
    | some l => (l.mapM fun o => match o with
        | none => some none
        | some s => (match EaselModel.Msa.wussFull s with | .ok s' => some (some s') | .error _ => none)).map some
  some { m with ssCons := sc, ss := ss }

/-! ## the option steps, in the order of `main()` -/

structure Opts where
  mingap : Bool := false
  keeprf : Bool := false
  nogap : Bool := false
  replace : Option (Bytes × Bytes) := none
  gapsym : Option UInt8 := none
  lower : Bool := false
  upper : Bool := false
  rna : Bool := false
  dna : Bool := false
  iupacN : Bool := false
  xbad : Bool := false
  rename : Option Bytes := none
  wussify : Bool := false
  dewuss : Bool := false
  fullwuss : Bool := false
  namelen : Option Nat := none      -- `--namelen n`, n > 0

def gapChars : Bytes := str "-_.~"

def Opts.fixBps (o : Opts) : Bool := o.rna || o.dna || o.wussify || o.dewuss || o.fullwuss

/-- the residue-conversion steps (`esl_msa_SymConvert` calls), in the tool's order -/
def convertSyms (o : Opts) (m : FMsa) : FMsa :=
  let m := match o.replace with | some (f, t) => symConvert f t m | none => m
  let m := match o.gapsym with | some g => symConvert (str "-_.") [g] m | none => m
  let m := if o.lower then symConvert upperB lowerB m else m
  let m := if o.upper then symConvert lowerB upperB m else m
  let m := if o.rna then symConvert (str "Tt") (str "Uu") m else m
  let m := if o.dna then symConvert (str "Uu") (str "Tt") m else m
  let m := if o.iupacN then symConvert (str "RYMKSWHBVDrymkswhbvd") (str "NNNNNNNNNNnnnnnnnnnn") m else m
  if o.xbad then symConvert (str "Xx") (str "Nn") m else m

/-- everything between `esl_msafile_Read` and the write call, for one alignment -/
def transform (o : Opts) (m : FMsa) : Option FMsa := do
  let m ← if o.mingap then columnOp (fun t => EaselModel.Msa.minimGapsText t gapChars o.keeprf o.fixBps) m else some m
  let m ← if o.nogap then columnOp (fun t => EaselModel.Msa.noGapsText t gapChars o.fixBps) m else some m
  let m := convertSyms o m
  let m := match o.rename with | some s => renameAll s m | none => m
  let m := if o.wussify then mapSS EaselModel.Msa.kh2wuss m else m
  let m := if o.dewuss then mapSS EaselModel.Msa.wuss2kh m else m
  if o.fullwuss then fullWuss m else some m

/-- `esl_msafile_Write` as the tools reach it (until fc170bb the text-mode Clustal writer aborted on an alignment with ZERO columns —
    everything masked / degapped away — and the reference had no prediction there; since the repair it writes the empty alignment) -/
def msafileWriteTool (outfmt : String) (abc : Option Abc) (m : FMsa) : Option Bytes := msafileWrite outfmt abc m

/-- the write call: `--namelen` with a PHYLIP output format goes to `esl_msafile_phylip_Write` with THE REQUESTED format -/
def writeOne (o : Opts) (outfmt : String) (m : FMsa) : Option Bytes :=
  match o.namelen with
  | some nw =>
    if nw > 0 && outfmt == "phylip" then some (phylipWriteW nw false none m)
    else if nw > 0 && outfmt == "phylips" then some (phylipWriteW nw true none m)
    else msafileWriteTool outfmt none m
  | none => msafileWriteTool outfmt none m

/-- stdout of `esl-reformat [options] --informat <infmt> <outfmt> <file>` for an alignment output format.
    `none`: outside the reference (a read fails, a step fails, more than one alignment for a single-record format). -/
def reformatMsa (o : Opts) (infmt outfmt : String) (src : Bytes) : Option Bytes :=
  match readFile infmt src with
  | none => none
  | some ms =>
    if ms.isEmpty || (decide (ms.length > 1) && !isMultiRecord outfmt) then none
    else (ms.mapM fun m => (transform o m).bind (writeOne o outfmt)).map List.flatten

/-! ## unaligned output from an alignment file: `esl-reformat fasta <alignment file>`

`esl_sqfile_Open` on an alignment format reads whole alignments in text mode (`esl_msafile_Read`) and hands them out row by
row through `esl_sq_FetchFromMSA` (C15's `fetchFromMSA`: gap characters `-_.~` removed, per-residue annotation dealigned in
parallel); the tool converts `sq->seq`, renames, and `esl_sqascii_WriteFasta` prints `>name[ acc][ desc]` and 60 residues per
line.  `--gapsym`, `--mingap`, `--nogap`, `--keeprf`, `--namelen` are not looked at on this branch. -/

/-- `for (pos = 0; pos < n; pos += 60) { strncpy(buf, seq+pos, 60); fprintf("%s\n", buf); }` -/
def seqLines (w : Nat) : Nat → Bytes → List Bytes
  | 0, _ => []
  | fuel + 1, s => if s.isEmpty then [] else s.take w :: seqLines w fuel (s.drop w)

/-- `esl_sqascii_WriteFasta` -/
def fastaRecordB (name acc desc seq : Bytes) : Bytes :=
  [62] ++ name ++ (if acc.isEmpty then [] else 32 :: acc) ++ (if desc.isEmpty then [] else 32 :: desc) ++ [10]
  ++ (seqLines 60 seq.length seq).flatMap (· ++ [10])

/-- the `symconvert(sq->seq, …)` calls of the sequence branch, in order (no `--gapsym` here) -/
def convertSeq (o : Opts) (s : Bytes) : Bytes :=
  let f (old new : Bytes) (s : Bytes) : Bytes := s.map (symconvB old new)
  let s := match o.replace with | some (a, b) => f a b s | none => s
  let s := if o.lower then f upperB lowerB s else s
  let s := if o.upper then f lowerB upperB s else s
  let s := if o.rna then f (str "Tt") (str "Uu") s else s
  let s := if o.dna then f (str "Uu") (str "Tt") s else s
  let s := if o.iupacN then f (str "RYMKSWHBVDrymkswhbvd") (str "NNNNNNNNNNnnnnnnnnnn") s else s
  if o.xbad then f (str "Xx") (str "Nn") s else s

/-- every sequence of every alignment of the file, in file order -/
def fetchAll (ms : List FMsa) : List EaselModel.Msa.Fetched :=
  ms.flatMap fun m => (List.range m.nseq).filterMap (EaselModel.Msa.fetchFromMSA (toT m))

/-- `--fullwuss` dies on a structure line that is not WUSS; the other two WUSS options cannot fail and do not show in FASTA -/
def ssAcceptable (o : Opts) (q : EaselModel.Msa.Fetched) : Bool :=
  if o.fullwuss then
    match q.ss with
    | some s =>
      let s := if o.wussify then EaselModel.Msa.kh2wuss s else s
      let s := if o.dewuss then EaselModel.Msa.wuss2kh s else s
      (match EaselModel.Msa.wussFull s with | .ok _ => true | .error _ => false)
    | none => true
  else true

/-- stdout of `esl-reformat [options] --informat <alignment format> fasta <file>` -/
def reformatMsaToFasta (o : Opts) (infmt : String) (src : Bytes) : Option Bytes :=
  match readFile infmt src with
  | none => none
  | some ms =>
    let qs := fetchAll ms
    if qs.isEmpty || !qs.all (ssAcceptable o) then none
    else some ((qs.mapIdx fun i q =>
      let name := match o.rename with | some s => s ++ [46] ++ natDec (i + 1) | none => q.name
      fastaRecordB name q.acc q.desc (convertSeq o q.seq)).flatten)

end EaselModel.Miniapps.Ali
