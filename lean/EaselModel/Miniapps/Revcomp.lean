import EaselModel.Miniapps.Seqstat
/-! # C13 — reverse complement (esl-alirev, esl-sfetch -r / reversed coordinates) and sub-sequence fetching -/
namespace EaselModel.Miniapps

/-- `abc->complement` of the digital DNA/RNA alphabets (`set_complementarity` in esl_alphabet.c), on output symbols -/
def Abc.comp (a : Abc) (c : Char) : Char :=
  let t := if a = .rna then 'U' else 'T'
  match c with
  | 'A' => t | 'C' => 'G' | 'G' => 'C' | 'T' => 'A' | 'U' => 'A'
  | 'R' => 'Y' | 'Y' => 'R' | 'M' => 'K' | 'K' => 'M' | 'S' => 'S' | 'W' => 'W'
  | 'H' => 'D' | 'B' => 'V' | 'V' => 'B' | 'D' => 'H' | 'N' => 'N'
  | c => c

/-- digital-mode reverse complement of a row already mapped to alphabet symbols (`esl_abc_revcomp`) -/
def revcompSyms (a : Abc) (s : List Char) : List Char := (s.map a.comp).reverse

/-- digitize a text row (case folding, synonyms) and print it back (`esl_abc_Textize`) -/
def Abc.normalize (a : Abc) (s : List Char) : List Char := s.map a.canon

/-- text-mode complement of `esl_sq_ReverseComplement` (case preserving; U→A; anything unknown → N) -/
def compText (c : Char) : Char :=
  match c with
  | 'A' => 'T' | 'C' => 'G' | 'G' => 'C' | 'T' => 'A' | 'U' => 'A'
  | 'R' => 'Y' | 'Y' => 'R' | 'M' => 'K' | 'K' => 'M' | 'S' => 'S' | 'W' => 'W'
  | 'H' => 'D' | 'B' => 'V' | 'V' => 'B' | 'D' => 'H' | 'N' => 'N' | 'X' => 'X'
  | 'a' => 't' | 'c' => 'g' | 'g' => 'c' | 't' => 'a' | 'u' => 'a'
  | 'r' => 'y' | 'y' => 'r' | 'm' => 'k' | 'k' => 'm' | 's' => 's' | 'w' => 'w'
  | 'h' => 'd' | 'b' => 'v' | 'v' => 'b' | 'd' => 'h' | 'n' => 'n' | 'x' => 'x'
  | '.' => '.' | '_' => '_' | '-' => '-' | '~' => '~' | '*' => '*'
  | _ => 'N'

def revcompText (s : List Char) : List Char := (s.map compText).reverse

/-- symbols on which the text-mode complement is an involution (everything it knows except U/u) -/
def dnaTextSyms : List Char := "ACGTRYMKSWHBVDNXacgtrymkswhbvdnx._-~*".toList

theorem compText_invol : ∀ c ∈ dnaTextSyms, compText (compText c) = c := by decide

theorem comp_invol_dna : ∀ c ∈ Abc.dna.syms, Abc.dna.comp (Abc.dna.comp c) = c := by decide
theorem comp_invol_rna : ∀ c ∈ Abc.rna.syms, Abc.rna.comp (Abc.rna.comp c) = c := by decide

theorem map_map_id {f : Char → Char} (s : List Char) (h : ∀ c ∈ s, f (f c) = c) : (s.map f).map f = s := by
  induction s with
  | nil => rfl
  | cons a t ih =>
    simp only [List.map_cons, h a (by simp)]
    rw [ih (fun c hc => h c (by simp [hc]))]

theorem revcompText_revcompText (s : List Char) (h : ∀ c ∈ s, c ∈ dnaTextSyms) :
    revcompText (revcompText s) = s := by
  simp only [revcompText, List.map_reverse, List.reverse_reverse]
  exact map_map_id s (fun c hc => compText_invol c (h c hc))

theorem revcompSyms_revcompSyms_dna (s : List Char) (h : ∀ c ∈ s, c ∈ Abc.dna.syms) :
    revcompSyms .dna (revcompSyms .dna s) = s := by
  simp only [revcompSyms, List.map_reverse, List.reverse_reverse]
  exact map_map_id s (fun c hc => comp_invol_dna c (h c hc))

theorem revcompSyms_revcompSyms_rna (s : List Char) (h : ∀ c ∈ s, c ∈ Abc.rna.syms) :
    revcompSyms .rna (revcompSyms .rna s) = s := by
  simp only [revcompSyms, List.map_reverse, List.reverse_reverse]
  exact map_map_id s (fun c hc => comp_invol_rna c (h c hc))

theorem revcompSyms_length (a : Abc) (s : List Char) : (revcompSyms a s).length = s.length := by
  simp [revcompSyms]

/-- position `i` of the reverse complement is the complement of position `n-1-i` -/
theorem revcompSyms_get (a : Abc) (s : List Char) (i : Nat) (h : i < s.length) :
    (revcompSyms a s)[i]'(by simp [revcompSyms, h]) = a.comp (s[s.length - 1 - i]'(by omega)) := by
  simp [revcompSyms, List.getElem_reverse]

/-! ## esl-alirev on aligned FASTA -/

def alirevText (a : Abc) (recs : List Rec) : String :=
  String.ofList (renderFasta 60 (recs.map fun r => { r with seq := revcompSyms a (a.normalize r.seq) }))

/-! ## sub-sequences (esl-sfetch -c) -/

/-- residues `from..to` (1-based, inclusive) -/
def subseq (s : List Char) (from' to' : Nat) : List Char := (s.drop (from' - 1)).take (to' + 1 - from')

theorem subseq_length (s : List Char) (f t : Nat) (hf : 1 ≤ f) (hft : f ≤ t) (ht : t ≤ s.length) :
    (subseq s f t).length = t + 1 - f := by
  simp [subseq]; omega

theorem subseq_get (s : List Char) (f t i : Nat) (hf : 1 ≤ f) (hft : f ≤ t) (ht : t ≤ s.length) (hi : i < t + 1 - f) :
    (subseq s f t)[i]'(by rw [subseq_length s f t hf hft ht]; exact hi) = s[f - 1 + i]'(by omega) := by
  simp [subseq]

end EaselModel.Miniapps
