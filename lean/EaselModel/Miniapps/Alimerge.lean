import EaselModel.Miniapps.Alimask
/-! # C13 — `esl-alimerge` (default, in-memory mode): merging alignments that share their consensus (`#=GC RF`) columns

`miniapps/esl-alimerge.c`: every input alignment must carry `#=GC RF`; the number of consensus (non-gap) RF columns `clen` must agree;
`update_maxgap_and_maxmis` records, for each of the `clen + 1` insert regions, the widest insert over all inputs; for each input
`determine_gap_columns_to_add` decides where its missing insert columns go (flush right before the first consensus column, split in the
middle of an interior insert region, flush left after the last) and `inflate_seq_with_gaps` / `inflate_string_with_gaps_and_missing`
insert them (`.`) into every row and into the RF line; the rows of all inputs are stacked and written in Stockholm format.
Modelled line by line here for alignments WITHOUT missing-data (`~`) columns and without other annotation (the reference says `none`
otherwise). -/
namespace EaselModel.Miniapps.Ali
open EaselModel.Msafile

/-- `esl_abc_CIsGap` of the text alphabets: `-`, `_`, `.` -/
def rfIsGap (c : UInt8) : Bool := c == 45 || c == 95 || c == 46
/-- `esl_abc_CIsMissing`: `~` -/
def rfIsMissing (c : UInt8) : Bool := c == 126

/-- the loop of `update_maxgap_and_maxmis` without missing data: the width of each of the `clen + 1` insert regions -/
def insertWidths (rf : Bytes) : List Nat :=
  let r := rf.foldl (fun (st : List Nat × Nat) c => if rfIsGap c then (st.1, st.2 + 1) else (st.2 :: st.1, 0)) ([], 0)
  (r.2 :: r.1).reverse

/-- pointwise maximum (`maxgap[cpos] = ESL_MAX(maxgap[cpos], ngap)`) -/
def maxWidths (a b : List Nat) : List Nat := List.zipWith max a b

/-- `determine_gap_columns_to_add` without missing data: `ngapA[0..alen]`, the number of gap columns to add IN FRONT of each alignment
    position (`ngapA[alen]`: behind the last) -/
def gapsToAdd (rf : Bytes) (maxgap : List Nat) : List Nat :=
  let alen := rf.length
  let init : List Nat := List.replicate (alen + 1) 0
  -- state: (ngapA, cpos, prv_cpos, ngap)
  let step (st : List Nat × Nat × Nat × Nat) (ac : Nat × UInt8) : List Nat × Nat × Nat × Nat :=
    let (ng, cpos, prv, ngap) := st
    let (apos, c) := ac
    if rfIsGap c then (ng, cpos, prv, ngap + 1)
    else
      let mg := maxgap.getD cpos 0
      let ng := if mg > 0 then (if cpos == 0 then ng.set prv (mg - ngap) else ng.set (prv + 1 + ngap / 2) (mg - ngap)) else ng
      (ng, cpos + 1, apos, 0)
  let (ng, cpos, prv, ngap) := rf.zipIdx.foldl (fun st p => step st (p.2, p.1)) (init, 0, 0, 0)
  let mg := maxgap.getD cpos 0
  -- "if there are no consensus positions at all … flush left from the start of msa": prv_cpos = -1
  let idx := if cpos == 0 then ngap else prv + 1 + ngap
  if mg > 0 then ng.set idx (mg - ngap) else ng

/-- `inflate_seq_with_gaps` on a row without `~`: `ngapA[0]` gap characters, then every character followed by its `ngapA[apos+1]` -/
def inflateGo (gapc : UInt8) : List Nat → Bytes → Bytes
  | _, [] => []
  | ns, c :: r => c :: (List.replicate (ns.headD 0) gapc ++ inflateGo gapc ns.tail r)

def inflate (ngapA : List Nat) (gapc : UInt8) (row : Bytes) : Bytes :=
  List.replicate (ngapA.headD 0) gapc ++ inflateGo gapc ngapA.tail row

/-- the inverse on positions: drop the inserted characters again -/
def deflate (ngapA : List Nat) (row : Bytes) : Bytes :=
  let rec go : List Nat → Bytes → Bytes
    | [], r => r
    | _, [] => []
    | n :: ns, c :: r => c :: go ns (r.drop n)
  go (ngapA.drop 1) (row.drop (ngapA.headD 0))

/-- an alignment `esl-alimerge` can take from this reference: text mode, `#=GC RF` of the alignment's length, no `~` anywhere, nothing
    but names, rows and RF -/
def mergeable (m : FMsa) : Bool :=
  !m.digital && m.rf.isSome && (m.rf.getD []).length == m.alen && !(m.rf.getD []).any rfIsMissing
  && m.aseq.all (fun r => r.length == m.alen && !r.any rfIsMissing)
  && m.name.isNone && m.desc.isNone && m.acc.isNone && m.au.isNone && m.ssCons.isNone && m.saCons.isNone && m.ppCons.isNone && m.mm.isNone
  && m.sqacc.isNone && m.sqdesc.isNone && m.ss.isNone && m.sa.isNone && m.pp.isNone && m.cutoff.isEmpty && m.comments.isEmpty
  && m.gf.isEmpty && m.gs.isEmpty && m.gc.isEmpty && m.gr.isEmpty && !m.hasw

def clenOf (rf : Bytes) : Nat := (rf.filter fun c => !rfIsGap c).length

/-- the merged alignment of `ms` (in command-line / file order); `none` = the tool stops with a message -/
def mergeMsas (ms : List FMsa) : Option FMsa :=
  match ms with
  | [] => none
  | m0 :: _ =>
    if !ms.all mergeable then none else
    let rfs := ms.map fun m => m.rf.getD []
    let clen := clenOf (m0.rf.getD [])
    if !rfs.all (fun rf => clenOf rf == clen) then none else
    -- the de-gapped RF annotation must be identical in all inputs
    if !rfs.all (fun rf => rf.filter (fun c => !rfIsGap c) == (m0.rf.getD []).filter (fun c => !rfIsGap c)) then none else
    let maxgap := rfs.foldl (fun acc rf => maxWidths acc (insertWidths rf)) (List.replicate (clen + 1) 0)
    let alenM := clen + maxgap.sum
    let parts := ms.map fun m =>
      let ng := gapsToAdd (m.rf.getD []) maxgap
      (m.names, m.aseq.map (inflate ng 46), m.wgt)
    let rfM := inflate (gapsToAdd (m0.rf.getD []) maxgap) 46 (m0.rf.getD [])
    let names := parts.flatMap (·.1)
    let rows := parts.flatMap (·.2.1)
    if !rows.all (fun r => r.length == alenM) || rfM.length != alenM then none else
    some { m0 with alen := alenM, names := names, aseq := rows, wgt := parts.flatMap (·.2.2), rf := some rfM }

/-- `--rfonly`: `esl_msa_ColumnSubset` with `useme[apos] = rfchar_is_nongap_nonmissing(rf[apos])` on every input before merging
    (alignments of names, rows and RF only: nothing else to repair); no insert region is left, so nothing is added afterwards -/
def rfOnly (m : FMsa) : FMsa :=
  let rf := m.rf.getD []
  let keep (r : Bytes) : Bytes := ((r.zip rf).filter fun p => !rfIsGap p.2 && !rfIsMissing p.2).map (·.1)
  { m with alen := clenOf rf, aseq := m.aseq.map keep, rf := some (keep rf) }

/-- stdout of `esl-alimerge [--rfonly] [--outformat fmt] (--dna|--rna|--amino) <file1> <file2>` / `--list <listfile>`: every alignment of every file -/
def alimerge (outfmt : String) (srcs : List Bytes) (rfonly : Bool := false) : Option Bytes := do
  let mss ← srcs.mapM fun src => readFile "stockholm" src
  if mss.any (·.isEmpty) then none
  if !mss.flatten.all mergeable then none
  let m ← mergeMsas (if rfonly then mss.flatten.map rfOnly else mss.flatten)
  if (m.names.eraseDups).length != m.names.length then none
  msafileWriteTool outfmt none m

/-! ## what merging does to one input: its rows come back when the added columns are dropped, the added columns are the same for
    every row of that input (so they are all-gap columns within it), and the length grows by exactly the number of added columns -/

theorem deflate_go_inflate (ns : List Nat) (gapc : UInt8) (row : Bytes) (hlen : row.length ≤ ns.length) :
    deflate.go ns (inflateGo gapc ns row) = row := by
  induction row generalizing ns with
  | nil => cases ns <;> simp [deflate.go, inflateGo]
  | cons c r ih =>
    cases ns with
    | nil => simp at hlen
    | cons n ns =>
      simp only [inflateGo, List.headD_cons, List.tail_cons, deflate.go]
      rw [List.drop_left' (by simp), ih ns (by simpa using hlen)]

/-- **restriction**: dropping the inserted columns from an inflated row gives the row back (any gap-count vector long enough) -/
theorem deflate_inflate (ngapA : List Nat) (gapc : UInt8) (row : Bytes) (h : row.length + 1 ≤ ngapA.length) :
    deflate ngapA (inflate ngapA gapc row) = row := by
  cases ngapA with
  | nil => simp at h
  | cons n ns =>
    unfold deflate inflate
    simp only [List.headD_cons, List.drop_one, List.tail_cons]
    rw [List.drop_left' (by simp)]
    exact deflate_go_inflate ns gapc row (by simpa using h)

theorem inflateGo_length (gapc : UInt8) (ns : List Nat) (row : Bytes) (h : row.length ≤ ns.length) :
    (inflateGo gapc ns row).length = row.length + (ns.take row.length).sum := by
  induction row generalizing ns with
  | nil => simp [inflateGo]
  | cons c r ih =>
    cases ns with
    | nil => simp at h
    | cons n ns =>
      simp only [inflateGo, List.headD_cons, List.tail_cons, List.length_cons, List.length_append, List.length_replicate,
        List.take_succ_cons, List.sum_cons]
      rw [ih ns (by simpa using h)]; omega

/-- the merged row is longer by exactly the number of added columns -/
theorem inflate_length (ngapA : List Nat) (gapc : UInt8) (row : Bytes) (h : ngapA.length = row.length + 1) :
    (inflate ngapA gapc row).length = row.length + ngapA.sum := by
  cases ngapA with
  | nil => simp at h
  | cons n ns =>
    have hl : ns.length = row.length := by simpa using h
    unfold inflate
    simp only [List.headD_cons, List.tail_cons, List.length_append, List.length_replicate, List.sum_cons]
    rw [inflateGo_length gapc ns row (by omega), ← hl, List.take_length]; omega

/-! ## the insert-region widths partition the columns -/

theorem insertWidths_fold (rf : Bytes) (acc : List Nat) (n : Nat) :
    let r := rf.foldl (fun (st : List Nat × Nat) c => if rfIsGap c then (st.1, st.2 + 1) else (st.2 :: st.1, 0)) (acc, n)
    r.1.length = acc.length + clenOf rf ∧ r.1.sum + r.2 + clenOf rf = acc.sum + n + rf.length := by
  induction rf generalizing acc n with
  | nil => simp [clenOf]
  | cons c cs ih =>
    simp only [List.foldl_cons]
    by_cases hg : rfIsGap c = true
    · have := ih acc (n + 1)
      simp only [hg, ↓reduceIte]
      simp only [clenOf, List.filter_cons, hg, Bool.not_true, Bool.false_eq_true, ↓reduceIte, List.length_cons] at this ⊢
      omega
    · have hg' : rfIsGap c = false := by simpa using hg
      have := ih (n :: acc) 0
      simp only [hg', Bool.false_eq_true, ↓reduceIte]
      simp only [clenOf, List.filter_cons, hg', Bool.not_false, ↓reduceIte, List.length_cons, List.sum_cons] at this ⊢
      omega

/-- `clen + 1` insert regions (before the first, between, after the last consensus column) … -/
theorem insertWidths_length (rf : Bytes) : (insertWidths rf).length = clenOf rf + 1 := by
  have := (insertWidths_fold rf [] 0).1
  simp only [insertWidths, List.length_reverse, List.length_cons] at this ⊢
  simpa using this

/-- … whose widths, together with the consensus columns, account for every column of the alignment exactly once -/
theorem insertWidths_sum (rf : Bytes) : (insertWidths rf).sum + clenOf rf = rf.length := by
  have := (insertWidths_fold rf [] 0).2
  simp only [insertWidths, List.sum_reverse, List.sum_cons] at this ⊢
  simp at this; omega

theorem inflateGo_mem (gapc : UInt8) (ns : List Nat) (row : Bytes) : ∀ c ∈ inflateGo gapc ns row, c ∈ row ∨ c = gapc := by
  induction row generalizing ns with
  | nil => simp [inflateGo]
  | cons a r ih =>
    intro c hc
    simp only [inflateGo, List.mem_cons, List.mem_append, List.mem_replicate] at hc
    rcases hc with rfl | ⟨_, rfl⟩ | h
    · simp
    · simp
    · rcases ih ns.tail c h with h | h
      · left; simp [h]
      · right; exact h

/-- every character of a merged row is a character of the input row or the gap character: merging adds gaps and nothing else -/
theorem inflate_mem (ngapA : List Nat) (gapc : UInt8) (row : Bytes) : ∀ c ∈ inflate ngapA gapc row, c ∈ row ∨ c = gapc := by
  intro c hc
  simp only [inflate, List.mem_append, List.mem_replicate] at hc
  rcases hc with ⟨_, rfl⟩ | h
  · right; rfl
  · exact inflateGo_mem gapc ngapA.tail row c h

/-- `maxgap[cpos] = ESL_MAX(maxgap[cpos], ngap)`: the recorded width of a region is at least the width in either argument -/
theorem maxWidths_ge (a b : List Nat) (h : a.length = b.length) (i : Nat) :
    a.getD i 0 ≤ (maxWidths a b).getD i 0 ∧ b.getD i 0 ≤ (maxWidths a b).getD i 0 := by
  induction a generalizing b i with
  | nil => cases b <;> simp_all [maxWidths]
  | cons x xs ih =>
    cases b with
    | nil => simp at h
    | cons y ys =>
      cases i with
      | zero => simp [maxWidths]; omega
      | succ i =>
        have := ih ys (by simpa using h) i
        simpa [maxWidths] using this

end EaselModel.Miniapps.Ali
