/-! # C13 — text helpers shared by the miniapp reference functions (core Lean only, executable)

Files are `List Char` (the driver maps bytes 0..255 to the code points 0..255 and back); a *file* is cut into lines at
`'\n'`; printf-style fixed-point formatting is done by exact rational rounding (round-half-even on the exact value,
which is what glibc's `printf` does in the default rounding mode). -/
namespace EaselModel.Miniapps

abbrev Line := List Char

/-- split at every `'\n'`; the piece after the last newline is kept (possibly empty) -/
def splitLines : List Char → List Line
  | [] => [[]]
  | c :: cs =>
    match splitLines cs with
    | [] => [[c]]           -- unreachable: splitLines is never empty
    | l :: ls => if c = '\n' then [] :: l :: ls else (c :: l) :: ls

/-- lines of a file: a trailing newline does not start an extra empty line -/
def fileLines (f : List Char) : List Line :=
  let ls := splitLines f
  match ls.getLast? with
  | some [] => ls.dropLast
  | _ => ls

/-- every line followed by a newline -/
def unlines (ls : List Line) : List Char := ls.flatMap (fun l => l ++ ['\n'])

theorem splitLines_ne_nil (f : List Char) : splitLines f ≠ [] := by
  cases f with
  | nil => simp [splitLines]
  | cons c cs =>
    simp only [splitLines]
    split
    · simp
    · split <;> simp

theorem splitLines_line_append (l : Line) (h : '\n' ∉ l) (rest : List Char) :
    splitLines (l ++ '\n' :: rest) = l :: splitLines rest := by
  induction l with
  | nil =>
    simp only [List.nil_append, splitLines]
    cases hs : splitLines rest with
    | nil => exact absurd hs (splitLines_ne_nil rest)
    | cons a as => simp
  | cons c cs ih =>
    have hc : c ≠ '\n' := by intro e; apply h; simp [e]
    have hcs : '\n' ∉ cs := by intro e; apply h; simp [e]
    simp only [List.cons_append, splitLines, ih hcs, hc, ↓reduceIte]

/-- cutting a file made of newline-free lines, each terminated by a newline, gives the lines back -/
theorem fileLines_unlines (ls : List Line) (h : ∀ l ∈ ls, '\n' ∉ l) : fileLines (unlines ls) = ls := by
  have key : splitLines (unlines ls) = ls ++ [[]] := by
    induction ls with
    | nil => simp [unlines, splitLines]
    | cons l ls ih =>
      have hl : '\n' ∉ l := h l (by simp)
      have : unlines (l :: ls) = l ++ '\n' :: unlines ls := by simp [unlines]
      rw [this, splitLines_line_append l hl, ih (fun x hx => h x (by simp [hx]))]
      simp
  simp [fileLines, key]

def isBlank (c : Char) : Bool := c = ' ' || c = '\t' || c = '\r' || c = '\n' || c = '\x0b' || c = '\x0c'

def isAlphaC (c : Char) : Bool := c.isAlpha

def padLeft (w : Nat) (s : String) : String := String.ofList (List.replicate (w - s.length) ' ') ++ s
def padRight (w : Nat) (s : String) : String := s ++ String.ofList (List.replicate (w - s.length) ' ')

/-- `N = round_half_even (num/den * 10^digits)` printed as `%.<digits>f` (num/den ≥ 0, den > 0) -/
def fmtRat (num den digits : Nat) : String :=
  let q := num * 10 ^ digits
  let n := q / den
  let r := q % den
  let n := if 2 * r > den then n + 1 else if 2 * r = den then n + n % 2 else n
  let ip := n / 10 ^ digits
  let fp := n % 10 ^ digits
  if digits = 0 then toString ip
  else
    let fs := toString fp
    toString ip ++ "." ++ String.ofList (List.replicate (digits - fs.length) '0') ++ fs

/-- exact value of a finite non-negative binary64 as `num / 2^k` -/
def floatRat (x : Float) : Nat × Nat :=
  let b := x.toBits.toNat
  let e := (b / 2 ^ 52) % 2048
  let m := b % 2 ^ 52
  if e = 0 then (m, 2 ^ 1074)
  else
    let m := m + 2 ^ 52
    if e ≥ 1075 then (m * 2 ^ (e - 1075), 1) else (m, 2 ^ (1075 - e))

/-- `printf("%.<digits>f", x)` for finite `x ≥ 0` -/
def fmtFloat (x : Float) (digits : Nat) : String :=
  let (n, d) := floatRat x
  fmtRat n d digits

/-- `printf("%<width>.<digits>f", x)` for any finite or infinite `x` (sign from the sign bit, `inf` for infinities) -/
def fmtFloatSigned (x : Float) (digits : Nat) : String :=
  let neg := x.toBits >>> 63 == 1
  let ax := Float.ofBits (x.toBits &&& (0x7fffffffffffffff : UInt64))
  let body := if ax.isInf then "inf" else if ax.isNaN then "nan" else fmtFloat ax digits
  (if neg then "-" else "") ++ body

def chunks (w : Nat) (s : List Char) : List Line :=
  if h : w = 0 ∨ s = [] then [] else
    s.take w :: chunks w (s.drop w)
termination_by s.length
decreasing_by
  have hs : s ≠ [] := by intro e; exact h (Or.inr e)
  have : 0 < s.length := List.length_pos_iff.mpr hs
  simp only [List.length_drop]; omega

theorem chunks_flatten (w : Nat) (hw : 0 < w) (s : List Char) : (chunks w s).flatten = s := by
  induction s using chunks.induct w with
  | case1 s h =>
    rw [chunks]; simp only [h, ↓reduceDIte]
    cases h with
    | inl h => omega
    | inr h => simp [h]
  | case2 s h ih =>
    rw [chunks]; simp only [h, ↓reduceDIte, List.flatten_cons, ih, List.take_append_drop]

theorem chunks_mem_sub (w : Nat) (s : List Char) : ∀ l ∈ chunks w s, ∀ c ∈ l, c ∈ s := by
  induction s using chunks.induct w with
  | case1 s h => rw [chunks]; simp [h]
  | case2 s h ih =>
    rw [chunks]; simp only [h, ↓reduceDIte, List.mem_cons]
    intro l hl c hc
    cases hl with
    | inl e => subst e; exact List.mem_of_mem_take hc
    | inr hl => exact List.mem_of_mem_drop (ih l hl c hc)

theorem chunks_ne_nil (w : Nat) (s : List Char) : ∀ l ∈ chunks w s, l ≠ [] := by
  induction s using chunks.induct w with
  | case1 s h => rw [chunks]; simp [h]
  | case2 s h ih =>
    rw [chunks]; simp only [h, ↓reduceDIte, List.mem_cons]
    intro l hl
    cases hl with
    | inl e =>
      subst e
      have hw : w ≠ 0 := fun e => h (Or.inl e)
      have hs : s ≠ [] := fun e => h (Or.inr e)
      cases s with
      | nil => exact absurd rfl hs
      | cons a t =>
        cases w with
        | zero => exact absurd rfl hw
        | succ w => simp
    | inr hl => exact ih l hl

end EaselModel.Miniapps
