import EaselModel.Weights.Model
import EaselModel.Miniapps.Revcomp
/-! # C13 — esl-weight / `easel filter` = the C16 weighting and identity-filter models over an aligned-FASTA input,
    written back as Stockholm (weights as `#=GS <name> WT %.2f`) resp. aligned FASTA.

Composition only: the algorithms and their theorems (weights are positive, sum to N, permutation invariant, …) are C16's
(`EaselModel/Weights/*`, `Props/C16.lean`). -/
namespace EaselModel.Miniapps
open EaselModel.Weights

def wAbc (a : Miniapps.Abc) : Weights.Abc := match a with | .amino => Weights.Abc.amino | _ => Weights.Abc.dna

def digRow (a : Miniapps.Abc) (row : List Char) : Option Row := row.mapM fun c => (a.digit c).map UInt8.ofNat

def half32 : Float32 := Float32.ofBits 0x3f000000
def minspanOf (ft : Float32) (alen : Nat) : Int := ((ft * Float32.ofNat alen).toFloat.ceil).toInt64.toInt
def ruleOf (sf : Float32) (gap tot : Nat) : Bool := Float32.ofNat gap / Float32.ofNat tot < sf

/-- `stockholm_write` for an alignment that carries only names, optional descriptions and optional weights -/
def stockholmText (a : Miniapps.Abc) (recs : List Rec) (wgt : Option (List Float)) : String :=
  let maxname := recs.foldl (fun m r => max m r.name.length) 0
  let nm (r : Rec) := padRight maxname (String.ofList r.name)
  let alen := (recs.headD default).seq.length
  let wt := match wgt with
    | some ws => String.join ((recs.zip ws).map fun (r, w) => "#=GS " ++ nm r ++ " WT " ++ fmtFloat w 2 ++ "\n") ++ "\n"
    | none => ""
  let de := if recs.any (fun r => !r.desc.isEmpty) then
      String.join (recs.map fun r => if r.desc.isEmpty then "" else "#=GS " ++ nm r ++ " DE " ++ String.ofList r.desc ++ "\n") ++ "\n"
    else ""
  let nblocks := (alen + 199) / 200
  let blocks := (List.range nblocks).map fun b =>
    (if b > 0 then "\n" else "") ++
    String.join (recs.map fun r => nm r ++ " " ++ String.ofList (((a.normalize r.seq).drop (200 * b)).take 200) ++ "\n")
  "# STOCKHOLM 1.0\n\n" ++ wt ++ de ++ String.join blocks ++ "//\n"

/-- esl-weight `-g` (default) | `-p` | `-b [--id x]` -/
def weightText (a : Miniapps.Abc) (alg : String) (maxid : Float) (recs : List Rec) : Option String := do
  let rows ← recs.mapM fun r => digRow a r.seq
  let alen := (rows.headD []).length
  let m := Mode.digital (wAbc a)
  let w : Option (List Float) :=
    if rows.length = 1 then none
    else match alg with
      | "-p" => some (pbDigital (α := Float) (wAbc a) (ruleOf half32) (minspanOf half32 alen) none rows)
      | "-b" => some (blosum m maxid rows)
      | _ => some (gsc (α := Float) m rows)
  some (stockholmText a recs w)

/-- `easel filter <maxid> <afa>` with default options: `esl_msaweight_IDFilter_adv` preferring consensus coverage;
    the kept rows are written in their original order as aligned FASTA -/
def filterText (a : Miniapps.Abc) (maxid : Float) (recs : List Rec) : Option String := do
  let rows ← recs.mapM fun r => digRow a r.seq
  let alen := (rows.headD []).length
  let ms := minspanOf half32 alen
  let cols := filterConsensus (wAbc a) (ruleOf half32) ms none rows alen
  let kept := idFilterDigital (wAbc a) maxid (rows.map fun r => Float.ofNat (conscover (wAbc a) cols r)) rows
  let keptSorted := (kept.toArray.qsort (· < ·)).toList
  let out := keptSorted.filterMap fun i => (recs[i]?).map fun r => { r with seq := a.normalize r.seq }
  some (String.ofList (renderFasta 60 out))

/-- `esl-weight -f --idf <x>`: `esl_msaweight_IDFilter`, the kept rows written as Stockholm (no weights) -/
def weightFilterText (a : Miniapps.Abc) (maxid : Float) (recs : List Rec) : Option String := do
  let rows ← recs.mapM fun r => digRow a r.seq
  let alen := (rows.headD []).length
  let ms := minspanOf half32 alen
  let cols := filterConsensus (wAbc a) (ruleOf half32) ms none rows alen
  let kept := idFilterDigital (wAbc a) maxid (rows.map fun r => Float.ofNat (conscover (wAbc a) cols r)) rows
  let keptSorted := (kept.toArray.qsort (· < ·)).toList
  some (stockholmText a (keptSorted.filterMap fun i => recs[i]?) none)

end EaselModel.Miniapps
