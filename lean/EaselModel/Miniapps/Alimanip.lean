import EaselModel.Miniapps.Alimask
/-! # C13 — `esl-alimanip`, the options that are C15 operations on a digital alignment

`miniapps/esl-alimanip.c:main()` opens the file in DIGITAL mode, and for every alignment applies, in this order:
`--seq-k|--seq-r|--reorder <list>` (`msa_keep_or_remove_seqs` + `reorder_msa`), `--lnfract`, `--lxfract`, `--lmin`, `--lmax`,
`--rffract`, `--detrunc`, `--xambig` (each a `esl_msa_SequenceSubset` over a computed row mask), `--rm-gc`, `--num-rf`,
`--num-all`, then writes with `esl_msafile_Write`.  Row selection is C15's `sequenceSubset`, the unaligned length is
C15's `fetchFromMSA`; modelled here are the tool's own functions (`msa_median_length`, `msa_remove_seqs_below_minlen`,
`msa_remove_seqs_above_maxlen`, `msa_remove_truncated_seqs`, `msa_remove_seqs_with_ambiguities`, `msa_keep_or_remove_seqs`,
`reorder_msa`, `remove_gc_markup`, `number_columns`) and the order of the steps.
Not modelled: the clustering / insert / tree / trim / mask2rf / post2pp / sindi / cindi / -M options, `--small`. -/
namespace EaselModel.Miniapps.Ali
open EaselModel.Msafile

/-- C15's record with the alphabet of a digital alignment attached -/
def toTA (a : Option TAbc) (m : FMsa) : TMsa := { toT m with abc := a }

def wgtOfBits (b : UInt64) : Wgt :=
  if b == 0x3ff0000000000000 then .dflt else if b == 0xbff0000000000000 then .unset else .val b

def optRowsOf (l : List (Option Bytes)) : OptRows := if l.any Option.isSome then some l else none

/-- every field of C15's record back into C01/C03's (optional per-sequence arrays exist iff some entry is set, as
    `esl_msa_SequenceSubset` allocates them) -/
def fromT (digital : Bool) (kp : Nat) (t : TMsa) : FMsa :=
  { digital := digital, kp := kp, alen := t.alen, names := t.sqname,
    aseq := if digital then [] else t.rows,
    ax := if digital then t.rows.map (fun r => dsqSENTINEL :: r ++ [dsqSENTINEL]) else [],
    hasw := t.hasWgts, wgt := t.wgt.map wgtOfBits,
    name := t.name, desc := t.desc, acc := t.acc, au := t.au,
    ssCons := t.ss_cons, saCons := t.sa_cons, ppCons := t.pp_cons, rf := t.rf, mm := t.mm,
    sqacc := optRowsOf t.sqacc, sqdesc := optRowsOf t.sqdesc, ss := optRowsOf t.ss, sa := optRowsOf t.sa, pp := optRowsOf t.pp,
    cutoff := if t.cutset.any id then (List.range 6).map (fun k => if t.cutset.getD k false then some (t.cutoff.getD k 0) else none) else [],
    comments := t.comment, gf := t.gf, gs := t.gs, gc := t.gc, gr := t.gr }

/-- `sq->n` after `esl_sq_GetFromMSA(msa, i, sq)` -/
def rawLen (t : TMsa) (i : Nat) : Nat := match EaselModel.Msa.fetchFromMSA t i with | some f => f.seq.length | none => 0

/-- `qsort(len); median = len[nseq/2]` -/
def medianLength (t : TMsa) : Nat :=
  let lens := ((List.range t.nseq).map (rawLen t)).toArray.qsort (· < ·)
  lens.getD (t.nseq / 2) 0

/-- `esl_msa_SequenceSubset` when at least one row is selected (otherwise the tool dies with a message) -/
def subsetRows (t : TMsa) (useme : List Bool) : Option TMsa :=
  if (useme.filter id).isEmpty then none
  else match EaselModel.Msa.sequenceSubset t useme with
    | .ok t' => some t'
    | .error _ => none

/-- `msa_remove_seqs_below_minlen(msa, minlen, i_am_rf, …)` -/
def removeBelow (a : TAbc) (t : TMsa) (minlen : Float32) (iamrf : Option (List Bool)) : Option TMsa :=
  let useme := (List.range t.nseq).map fun i =>
    let len := match iamrf with
      | some rf => (((t.rows.getD i []).zip rf).filter fun p => p.2 && !a.xIsGap p.1).length
      | none => rawLen t i
    decide (Float32.ofNat len ≥ minlen)
  subsetRows t useme

/-- `msa_remove_seqs_above_maxlen` -/
def removeAbove (t : TMsa) (maxlen : Float32) : Option TMsa :=
  subsetRows t ((List.range t.nseq).map fun i => decide (Float32.ofNat (rawLen t i) ≤ maxlen))

/-- one direction of `msa_remove_truncated_seqs`: is some of the first `ntrunc` non-gap RF columns (in this order of
    columns) a non-gap in the row? -/
def endOkay (a : TAbc) (ntrunc : Nat) : List (UInt8 × Bool) → Nat → Bool
  | [], _ => false
  | (x, isrf) :: rest, ct =>
    if ct ≥ ntrunc then false
    else if isrf then (if !a.xIsGap x then true else endOkay a ntrunc rest (ct + 1))
    else endOkay a ntrunc rest ct

def removeTruncated (a : TAbc) (t : TMsa) (ntrunc : Nat) (iamrf : List Bool) : Option TMsa :=
  let useme := (List.range t.nseq).map fun i =>
    let cols := ((t.rows.getD i []).take t.alen).zip iamrf
    endOkay a ntrunc cols 0 && endOkay a ntrunc cols.reverse 0
  subsetRows t useme

/-- `esl_abc_XIsDegenerate` -/
def xIsDegenerate (a : TAbc) (x : UInt8) : Bool := x.toNat > a.K && x.toNat < a.Kp - 2

def removeAmbiguous (a : TAbc) (t : TMsa) (maxAmbig : Nat) : Option TMsa :=
  let useme := (List.range t.nseq).map fun i =>
    let s := match EaselModel.Msa.fetchFromMSA t i with | some f => f.seq | none => []
    !((s.filter (xIsDegenerate a)).length > maxAmbig)
  match EaselModel.Msa.sequenceSubset t useme with
  | .ok t' => some t'
  | .error _ => none

/-- `new[i] = old[order[i]]` on every per-sequence array `reorder_msa` swaps (NOT the weights) -/
def reorderMsa (t : TMsa) (order : List Nat) : TMsa :=
  let pick {α : Type} (d : α) (l : List α) : List α := order.map fun o => l.getD o d
  { t with rows := pick [] t.rows, sqname := pick [] t.sqname, sqacc := pick none t.sqacc, sqdesc := pick none t.sqdesc,
           ss := pick none t.ss, sa := pick none t.sa, pp := pick none t.pp,
           gs := t.gs.map (fun g => (g.1, pick none g.2)), gr := t.gr.map (fun g => (g.1, pick none g.2)) }

/-- `msa_keep_or_remove_seqs`; `none` = a listed name is absent or listed twice, or nothing remains -/
def keepOrRemove (t : TMsa) (seqlist : List Bytes) (doKeep doReorder : Bool) : Option TMsa := do
  let idx ← seqlist.mapM fun nm => t.sqname.idxOf? nm
  if idx.eraseDups.length != idx.length then none
  let useme := (List.range t.nseq).map fun i => if idx.contains i then doKeep else !doKeep
  let t' ← subsetRows t useme
  if doKeep && doReorder then
    -- order_all[i] = position of sequence i in the list; order_new[order_all[i]] = ip++ over the kept i in alignment order
    let kept := (List.range t.nseq).filter fun i => idx.contains i
    let orderNew := idx.map fun i => (kept.idxOf? i).getD 0
    some (reorderMsa t' orderNew)
  else some t'

/-- white-space separated tokens of a file (`esl_fileparser_GetToken`, no comment character) -/
def fileTokens (src : Bytes) : List Bytes :=
  ((splitLines src).flatMap fun l => (l.splitOn 32).flatMap fun w => w.splitOn 9).filter fun w => !w.isEmpty && !w.all isSpace

def intNdigits (i : Nat) : Nat := if i == 0 then 0 else (Nat.toDigits 10 i).length

/-- `get_char_digit_x_from_int(i, place)` -/
def charDigitX (i place : Nat) : UInt8 :=
  if intNdigits i < place then 48
  else UInt8.ofNat (48 + (i % (10 ^ place)) / 10 ^ (place - 1))

/-- `number_columns`: one `#=GC COL.X..` / `RFCOL.X..` line per decimal digit of `alen`; an existing tag is overwritten -/
def numberColumns (t : TMsa) (doAll : Bool) (iamrf : List Bool) : TMsa :=
  let nd := intNdigits t.alen
  let pre : Bytes := if doAll then str "COL" else str "RFCOL"
  (List.range nd).foldl (fun (t : TMsa) a =>
    let tag := pre ++ (List.range nd).map (fun b => if a == b then (88 : UInt8) else 46)
    let go := (List.range t.alen).foldl (fun (acc : Bytes × Nat) apos =>
      if !doAll && !iamrf.getD apos false then (46 :: acc.1, acc.2) else (charDigitX acc.2 (nd - a) :: acc.1, acc.2 + 1)) (([] : Bytes), 1)
    let numstring := go.1.reverse
    if t.gc.any (fun g => g.1 == tag) then { t with gc := t.gc.map fun g => if g.1 == tag then (g.1, numstring) else g }
    else { t with gc := t.gc ++ [(tag, numstring)] }) t

def removeGc (t : TMsa) (tag : String) : Option TMsa :=
  if tag == "RF" then (if t.rf.isNone then none else some { t with rf := none })
  else if tag == "SS_cons" then (if t.ss_cons.isNone then none else some { t with ss_cons := none })
  else if tag == "SA_cons" then (if t.sa_cons.isNone then none else some { t with sa_cons := none })
  else if tag == "PP_cons" then (if t.pp_cons.isNone then none else some { t with pp_cons := none })
  else none

structure AlimanipOpts where
  seqK : Option (List Bytes) := none
  seqR : Option (List Bytes) := none
  reorder : Option (List Bytes) := none
  kReorder : Bool := false
  lnfract : Option Float := none
  lxfract : Option Float := none
  lmin : Option Nat := none
  lmax : Option Nat := none
  rffract : Option Float := none
  detrunc : Option Nat := none
  xambig : Option Nat := none
  rmGc : Option String := none
  numRf : Bool := false
  numAll : Bool := false
  outfmt : String := "stockholm"

/-- the steps of the main loop for one alignment -/
def alimanipOne (o : AlimanipOpts) (a : TAbc) (t : TMsa) : Option TMsa := do
  let rfInfo : Option (List Bool × Nat) ← match t.rf with
    | some rf => let iam := iAmRf a rf; if countTrue iam == 0 then none else some (some (iam, countTrue iam))
    | none => some none
  let t ← match o.seqK, o.reorder, o.seqR with
    | some l, _, _ => keepOrRemove t l true o.kReorder
    | none, some l, _ => if l.length != t.nseq then none else keepOrRemove t l true true
    | none, none, some l => keepOrRemove t l false true
    | none, none, none => some t
  let t ← match o.lnfract with
    | some x => removeBelow a t (x * (Float32.ofNat (medianLength t)).toFloat).toFloat32 none
    | none => some t
  let t ← match o.lxfract with
    | some x => removeAbove t (x * (Float32.ofNat (medianLength t)).toFloat).toFloat32
    | none => some t
  let t ← match o.lmin with | some n => removeBelow a t (Float32.ofNat n) none | none => some t
  let t ← match o.lmax with | some n => removeAbove t (Float32.ofNat n) | none => some t
  let t ← match o.rffract with
    | some x => (match rfInfo with
        | some (iam, rflen) => removeBelow a t (Float.ofNat rflen * x).toFloat32 (some iam)
        | none => none)
    | none => some t
  let t ← match o.detrunc with
    | some n => (match rfInfo with | some (iam, _) => removeTruncated a t n iam | none => none)
    | none => some t
  let t ← match o.xambig with | some n => removeAmbiguous a t n | none => some t
  let t ← match o.rmGc with | some tag => removeGc t tag | none => some t
  -- `if (msa->rf == NULL) esl_fatal("--num-rf requires …")` is tested on the alignment as it is NOW (after --rm-gc RF)
  let t ← if o.numRf then (match rfInfo, t.rf with | some (iam, _), some _ => some (numberColumns t false iam) | _, _ => none) else some t
  some (if o.numAll then numberColumns t true ((rfInfo.map (·.1)).getD []) else t)

/-- stdout of `esl-alimanip [options] --informat <stockholm|pfam> (--dna|--rna|--amino) <file>` -/
def alimanip (o : AlimanipOpts) (fa : Abc) (ta : TAbc) (infmt : String) (src : Bytes) : Option Bytes :=
  if infmt != "stockholm" && infmt != "pfam" then none
  else
    let ls := splitLines src
    match readAll (stockholmRead (stockholmCfg (some fa))) (ls.length + 2) ls [] with
    | none => none
    | some ms =>
      if ms.isEmpty then none
      else (ms.mapM fun m =>
        if !m.digital then none
        else (alimanipOne o ta (toTA (some ta) m)).bind fun t => msafileWrite o.outfmt (some fa) (fromT true fa.kp t)).map List.flatten

end EaselModel.Miniapps.Ali
