import EaselModel.Miniapps.ReformatMsa
import EaselModel.Msa.AbcTables
/-! # C13 — `esl-alimask`: the column mask computed by the tool, then C15's `RemoveBrokenBasepairs` + `ColumnSubset`, then C03's writer

`miniapps/esl-alimask.c:main()` reads the FIRST alignment in text mode, computes `useme_final[0..alen-1]` in one of its modes
(mask file; `-t <coords>` [--t-rf] [--t-rmins]; `-g` [--gapthresh x] [--keepins]; `--rf-is-mask`), removes the base pairs broken
by the mask when the alphabet flag is nucleic (RNA is the default), compacts the columns and writes the alignment.
Modelled line by line here: `read_mask_file`, `map_rfpos_to_apos`, `expand_rf_useme_to_alen`, `count_gaps_in_msa`,
`mask_based_on_gapfreq`, `parse_coord_string`, `output_mask`, the mode logic of `main()` and its `be_verbose` table.
Not modelled: `-p` (posterior probabilities), `--small`. -/
namespace EaselModel.Miniapps.Ali
open EaselModel.Msafile

abbrev TAbc := EaselModel.Msa.Abc

/-- `esl_abc_CIsNonresidue(abc, c)` -/
def cIsNonresidue (a : TAbc) (c : UInt8) : Bool := (a.digit c).toNat == a.Kp - 2

/-- the test of `map_rfpos_to_apos`: a non-gap, non-missing, non-`*` RF character -/
def isRfCol (a : TAbc) (c : UInt8) : Bool := !a.cIsGap c && !a.cIsMissing c && !cIsNonresidue a c

/-- `i_am_rf[0..alen-1]` -/
def iAmRf (a : TAbc) (rf : Bytes) : List Bool := rf.map (isRfCol a)

/-- `rf2a_map[0..rflen-1]` -/
def rf2aMap (iamrf : List Bool) : List Nat := (List.range iamrf.length).filter fun i => iamrf.getD i false

/-- `expand_rf_useme_to_alen` -/
def expandRfUseme (usemeRf : List Bool) (rf2a : List Nat) (alen : Nat) : List Bool :=
  (List.range alen).map fun apos =>
    match rf2a.idxOf? apos with
    | some rfpos => usemeRf.getD rfpos false
    | none => false

/-- `read_mask_file`: the tokens of the file (comments from `#`, white space separated) concatenated; only `0` and `1` -/
def readMaskFile (src : Bytes) : Option (List Bool) :=
  let lines := splitLines src
  let toks : Bytes := lines.flatMap fun l => (l.takeWhile (· != 35)).filter fun c => !isSpace c
  toks.mapM fun c => if c == 48 then some false else if c == 49 then some true else none

/-- `^(\d+)\D+(\d*)$` then the checks of `parse_coord_string`: (start ≥ 1, end; end = 0 means "to the end") -/
def parseCoords (s : Bytes) : Option (Nat × Nat) :=
  let d1 := s.takeWhile isDigit
  let r1 := s.dropWhile isDigit
  let sep := r1.takeWhile (fun c => !isDigit c)
  let d2 := r1.dropWhile (fun c => !isDigit c)
  if d1.isEmpty || sep.isEmpty || !d2.all isDigit || d1.length > 9 || d2.length > 9 then none
  else
    let num (d : Bytes) : Nat := d.foldl (fun a c => a * 10 + (c.toNat - 48)) 0
    let st := num d1
    if st == 0 then none
    else if d2.isEmpty then some (st, 0)
    else
      let en := num d2
      if en == 0 || st > en then none else some (st, en)

/-- `count_gaps_in_msa` + `mask_based_on_gapfreq`: `gapfreq = gap_ct / (float) nseq` as a float, kept unless `gapthresh < gapfreq` -/
def gapMask (a : TAbc) (rows : List Bytes) (alen : Nat) (eligible : List Bool) (gapthresh : Float32) : List Bool :=
  (List.range alen).map fun apos =>
    if eligible.getD apos false then
      let gapct := (rows.filter fun r => a.cIsGap (r.getD apos 0)).length
      let gapfreq : Float32 := (Float.ofNat gapct / (Float32.ofNat rows.length).toFloat).toFloat32
      !(gapthresh < gapfreq)
    else false

/-- `output_mask`: the `0`/`1` string of the eligible positions, one line -/
def maskText (useme : List Bool) (eligible : Option (List Bool)) : Bytes :=
  let bits := (List.range useme.length).filterMap fun i =>
    match eligible with
    | some e => if e.getD i false then some (useme.getD i false) else none
    | none => some (useme.getD i false)
  bits.map (fun b => if b then 49 else 48) ++ [10]

/-- the truncation mask of `-t <ts>..<te>`: `FALSE` below `ts-1`, `TRUE` (or `i_am_rf` with --t-rmins) up to `te-1`, `FALSE` from `te` on -/
def truncMask (alen ts te : Nat) : List Bool := (List.range' 0 alen).map fun apos => decide (ts - 1 ≤ apos ∧ apos < te)

/-- `esl_msa_RemoveBrokenBasepairs` (nucleic alphabet flag only) then `esl_msa_ColumnSubset`, as `main()` calls them on the
    text-mode alignment; `none` = one of them reports an error and the tool stops with its message -/
def alimaskApply (nucleic : Bool) (t : TMsa) (useme : List Bool) : Option TMsa :=
  let r1 : EaselModel.Msa.Res := if nucleic then EaselModel.Msa.removeBrokenBasepairs t useme else { msa := t, st := .ok }
  if r1.st != .ok || r1.exc then none
  else
    let r := EaselModel.Msa.columnSubset r1.msa useme
    if r.st != .ok || r.exc then none else some r.msa

/-! ## `-p`: masks from posterior probability annotation (`count_postprobs_in_msa`, `mask_based_on_postprobs`) -/

/-- `get_pp_idx` -/
def ppIdxA (a : TAbc) (c : UInt8) : Option Nat :=
  if c.toNat < 128 && a.cIsGap c then some 11
  else if c == 42 then some 10
  else if 48 ≤ c && c ≤ 57 then some (c.toNat - 48)
  else none

/-- `esl_FCompare_old(a, b, eslSMALLX1) == eslOK` on finite binary32 arguments -/
def fcmpOk (a b : Float32) : Bool :=
  let tol : Float32 := (5e-9 : Float).toFloat32
  a == b || (a.abs == 0 && b.abs ≤ tol) || (b.abs == 0 && a.abs ≤ tol) ||
  (2.0 * (a - b).abs.toFloat / (a + b).abs.toFloat ≤ tol.toFloat)

def ppMin : List Float := [0.00, 0.05, 0.15, 0.25, 0.35, 0.45, 0.55, 0.65, 0.75, 0.85, 0.95]
def ppAvgD : List Float := [0.025, 0.10, 0.20, 0.30, 0.40, 0.50, 0.60, 0.70, 0.80, 0.90, 0.975]

structure PPCfg where
  pthresh : Float := 0.95
  pfract : Float := 0.95
  pavg : Option Float := none
  ppcons : Option Float := none
  allgapok : Bool := false

/-- `pp_ct[apos][0..11]` for an eligible column; `none` = the tool stops (a sequence without PP, a character that is no PP value,
    a PP gap under a residue) -/
def ppCounts (a : TAbc) (rows : List Bytes) (pp : List (Option Bytes)) (apos : Nat) : Option (List Float) :=
  (rows.zip pp).foldlM (fun (ct : List Float) (rp : Bytes × Option Bytes) =>
    match rp.2 with
    | none => none
    | some line =>
      match ppIdxA a (line.getD apos 0) with
      | none => none
      | some k =>
        if k == 11 && !a.cIsGap (rp.1.getD apos 0) then none
        else some (ct.set k (ct.getD k 0.0 + 1.0))) (List.replicate 12 0.0)

/-- `esl_vec_DSum` -/
def kahan (v : List Float) : Float :=
  (v.foldl (fun (st : Float × Float) x => let y := x - st.2; let t := st.1 + y; (t, (t - st.1) - y)) (0.0, 0.0)).1

/-- `mask_based_on_postprobs` -/
def ppMask (a : TAbc) (cfg : PPCfg) (rows : List Bytes) (pp : List (Option Bytes)) (ppCons : Option Bytes) (alen : Nat) (eligible : List Bool) :
    Option (List Bool) :=
  let pthresh := cfg.pthresh.toFloat32
  let pfract := cfg.pfract.toFloat32
  -- `ppidx_thresh`: the first class whose lower bound is (float-)equal to or above pthresh, at most 10
  let idxThresh := ((List.range 10).find? fun k => fcmpOk pthresh (ppMin.getD k 0).toFloat32 || pthresh.toFloat < ppMin.getD k 0).getD 10
  if cfg.ppcons.isSome && ppCons.isNone then none else
  (List.range alen).mapM fun apos =>
    if !eligible.getD apos false then some false else
    match ppCounts a rows pp apos with
    | none => none
    | some ct =>
      let nnongap := kahan ct - ct.getD 11 0.0
      if fcmpOk nnongap.toFloat32 0 then some cfg.allgapok
      else match cfg.pavg, cfg.ppcons with
        | some pavgMin, _ =>
          let ppsum := (List.range 11).foldl (fun (acc : Float) k => acc + ct.getD k 0.0 * ppAvgD.getD k 0) 0.0
          some (!(ppsum / nnongap < pavgMin.toFloat32.toFloat))
        | none, some cmin =>
          match ppIdxA a ((ppCons.getD []).getD apos 0) with
          | none => none
          | some k => if k != 11 then some (fcmpOk cmin.toFloat32 (ppMin.getD k 0).toFloat32 || ppMin.getD k 0 > cmin.toFloat32.toFloat) else some false
        | none, none =>
          let ppcount := ((List.range 11).reverse.filter fun k => k ≥ idxThresh).foldl (fun (acc : Float) k => acc + ct.getD k 0.0) 0.0
          some (!((ppcount / nnongap).toFloat32 < pfract))

inductive MaskMode where
  | maskfile (mask : List Bool)
  | truncate (st en : Nat) (trf rmins : Bool)
  | gapfreq (thresh : Float32)
  | rfIsMask
  | postprob                       -- `-p` alone (`-g -p` is `gapfreq` with `pp` set)
deriving Inhabited

structure AlimaskOpts where
  mode : MaskMode
  abc : TAbc := EaselModel.Msa.Gen.rnaAbc
  keepins : Bool := false
  outfmt : String := "stockholm"
  verbose : Bool := false                -- `-o <f>` without `-q`
  ofile : Option String := none
  fmaskRf : Option String := none
  fmaskAll : Option String := none
  gmaskRf : Option String := none
  gmaskAll : Option String := none
  pp : Option PPCfg := none              -- `-p` with its thresholds
  pmaskRf : Option String := none
  pmaskAll : Option String := none

def natPad (w : Nat) (n : Nat) : Bytes := let d := natDec n; List.replicate (w - d.length) 32 ++ d
def strPadL (w : Nat) (s : String) : Bytes := let b := str s; List.replicate (w - b.length) 32 ++ b
def strPadR (w : Nat) (s : String) : Bytes := let b := str s; b ++ List.replicate (w - b.length) 32

/-- the five header lines of the `be_verbose` table -/
def verboseHeader : Bytes :=
  let row (a : List Bytes) : Bytes := str "# " ++ (a.intersperse (str "  ")).flatten ++ [10]
  row [strPadL 19 "", strPadL 7 "", strPadL 7 "", strPadL 16 "all columns", strPadL 16 "non-gap RF colns", strPadL 13 ""]
  ++ row [strPadL 19 "", strPadL 7 "", strPadL 7 "", strPadL 16 "----------------", strPadL 16 "----------------", strPadL 13 ""]
  ++ row [strPadL 19 "", strPadL 7 "", strPadL 7 "non-gap", strPadL 7 "num", strPadL 7 "num", strPadL 7 "num", strPadL 7 "num", strPadL 13 "gap RF colns"]
  ++ row [strPadR 19 "mask mode", strPadL 7 "aln len", strPadL 7 "RF len", strPadL 7 "kept", strPadL 7 "removed", strPadL 7 "kept", strPadL 7 "removed", strPadL 13 "auto removed?"]
  ++ row [strPadL 19 "-------------------", strPadL 7 "-------", strPadL 7 "-------", strPadL 7 "-------", strPadL 7 "-------", strPadL 7 "-------", strPadL 7 "-------", strPadL 13 "-------------"]

def countTrue (l : List Bool) : Nat := (l.filter id).length

/-- one data line of the table -/
def verboseLine (name : String) (alen : Nat) (rf : Option (List Bool × Nat)) (useme : List Bool) (rfonly : Bool) : Bytes :=
  let nkept := countTrue useme
  let cols : List Bytes := match rf with
    | none => [strPadR 19 name, natPad 7 alen, strPadL 7 "-", natPad 7 nkept, natPad 7 (alen - nkept), strPadL 7 "-", strPadL 7 "-", strPadL 13 "-"]
    | some (iamrf, rflen) =>
      let nkeptRf := if rfonly then nkept else countTrue ((useme.zip iamrf).map fun p => p.1 && p.2)
      [strPadR 19 name, natPad 7 alen, natPad 7 rflen, natPad 7 nkept, natPad 7 (alen - nkept), natPad 7 nkeptRf, natPad 7 (rflen - nkeptRf),
       strPadL 13 (if rfonly then "yes" else "no")]
  str "  " ++ (cols.intersperse (str "  ")).flatten ++ [10]

/-- the final mask of `main()`, with the pieces the verbose table and the mask files need:
    `(useme_final, i_am_rf+rflen, do_rfonly, mode name, gap mask)`; `none` = the tool refuses (esl_fatal) -/
def alimaskMask (o : AlimaskOpts) (m : FMsa) : Option (List Bool × Option (List Bool × Nat) × Bool × String × Option (List Bool) × Option (List Bool)) := do
  let alen := m.alen
  let rfInfo : Option (List Bool × Nat) ← match m.rf with
    | some rf =>
      let iam := iAmRf o.abc rf
      if countTrue iam == 0 then none else some (some (iam, countTrue iam))
    | none => some none
  let eligible : List Bool := match rfInfo with
    | some (iam, _) => if o.keepins then List.replicate alen true else iam
    | none => List.replicate alen true
  if rfInfo.isNone && (o.fmaskRf.isSome || o.gmaskRf.isSome || o.pmaskRf.isSome || o.keepins) then none
  let ppOnly := match o.mode with | .postprob => true | _ => false
  let gp := match o.mode with | .gapfreq _ => true | _ => false
  if o.pp.isSome && !(ppOnly || gp) then none
  if (o.pmaskRf.isSome || o.pmaskAll.isSome) && o.pp.isNone then none
  let rowsT := if m.digital then [] else m.aseq
  let pmask : Option (List Bool) ← match o.pp with
    | some cfg =>
      match m.pp with
      | none => none
      | some ppl => (ppMask o.abc cfg rowsT ppl m.ppCons alen eligible).map some
    | none => some none
  match o.mode with
  | .maskfile mask =>
    if o.keepins || o.gmaskRf.isSome || o.gmaskAll.isSome then none
    match rfInfo with
    | none => if mask.length != alen then none else some (mask, none, false, "maskfile", none, none)
    | some (iam, rflen) =>
      if mask.length != alen && mask.length != rflen then none
      else if rflen == mask.length then some (expandRfUseme mask (rf2aMap iam) alen, rfInfo, true, "maskfile", none, none)
      else some (mask, rfInfo, false, "maskfile", none, none)
  | .truncate st en trf rmins =>
    if o.keepins || o.gmaskRf.isSome || o.gmaskAll.isSome then none
    if rmins && rfInfo.isNone then none
    let rfonly := rfInfo.isSome && rmins
    let (ts, te) ← if trf then
        match rfInfo with
        | none => none               -- rf2a_map is NULL: the tool would crash; outside the reference
        | some (iam, rflen) =>
          if st > rflen || en > rflen then none
          else
            let r2a := rf2aMap iam
            some (r2a.getD (st - 1) 0 + 1, if en == 0 then alen else r2a.getD (en - 1) 0 + 1)
      else if st > alen || en > alen then none else some (st, if en == 0 then alen else en)
    let iam := match rfInfo with | some (i, _) => i | none => []
    let useme := if rfonly then ((truncMask alen ts te).zip iam).map (fun p => p.1 && p.2) else truncMask alen ts te
    some (useme, rfInfo, rfonly, "truncation", none, none)
  | .gapfreq th =>
    let rows := if m.digital then [] else m.aseq
    let g := gapMask o.abc rows alen eligible th
    match pmask with
    | some pm => some ((g.zip pm).map fun x => x.1 && x.2, rfInfo, rfInfo.isSome && !o.keepins, "gapfreq&postprobs", some g, some pm)
    | none => some (g, rfInfo, rfInfo.isSome && !o.keepins, "gapfreq", some g, none)
  | .postprob =>
    match pmask with
    | some pm => some (pm, rfInfo, rfInfo.isSome && !o.keepins, "postprobs", none, some pm)
    | none => none
  | .rfIsMask =>
    if o.keepins || o.gmaskRf.isSome || o.gmaskAll.isSome then none
    match rfInfo with
    | none => none
    | some (iam, _) => some (iam, rfInfo, true, "RF", none, none)

/-- `esl-alimask`: stdout and the files written (`-o`, `--fmask-*`, `--gmask-*`).  The `# CPU time:` line that
    `esl_stopwatch_Display` prints with `-o` is not part of the prediction. -/
def alimask (o : AlimaskOpts) (infmt : String) (src : Bytes) : Option (Bytes × List (String × Bytes)) := do
  let rd ← readerOf infmt
  let m ← match rd (splitLines src) with
    | (.ok m, _) => some m
    | _ => none
  if m.digital then none
  let (useme, rfInfo, rfonly, name, gmask, pmask) ← alimaskMask o m
  let t' ← alimaskApply o.abc.isNucleic (toT m) useme
  let m' := withColumnsOf m t'
  let ali ← msafileWriteTool o.outfmt none m'
  let rflen := match rfInfo with | some (_, n) => n | none => 0
  let iam := rfInfo.map (·.1)
  let verb := o.verbose
  let table : Bytes :=
    if verb then
      verboseHeader ++ (if name == "RF" then verboseLine "RF" m.alen rfInfo useme true
                        else if name == "gapfreq&postprobs" then
                          verboseLine "gapfreq" m.alen rfInfo (gmask.getD []) rfonly ++ verboseLine "postprobs" m.alen rfInfo (pmask.getD []) rfonly
                          ++ verboseLine name m.alen rfInfo useme rfonly
                        else verboseLine name m.alen rfInfo useme rfonly) ++ str "#\n"
    else []
  let note (s : String) : Bytes := if verb then str s else []
  let files : List (String × Bytes) :=
    (match o.pmaskRf, pmask with | some f, some g => [(f, maskText g iam)] | _, _ => [])
    ++ (match o.pmaskAll, pmask with | some f, some g => [(f, maskText g none)] | _, _ => [])
    ++ (match o.gmaskRf, gmask with | some f, some g => [(f, maskText g iam)] | _, _ => [])
    ++ (match o.gmaskAll, gmask with | some f, some g => [(f, maskText g none)] | _, _ => [])
    ++ (match o.fmaskRf with | some f => [(f, maskText useme iam)] | none => [])
    ++ (match o.fmaskAll with | some f => [(f, maskText useme none)] | none => [])
  let notes : Bytes :=
    (match o.pmaskRf with | some f => note ("# Posterior probability mask of non-gap RF length (" ++ toString rflen ++ ") saved to file " ++ f ++ ".\n") | none => [])
    ++ (match o.pmaskAll with | some f => note ("# Posterior probability mask of full alignment length (" ++ toString m.alen ++ ") saved to file " ++ f ++ ".\n") | none => [])
    ++ (match o.gmaskRf with | some f => note ("# Gap frequency mask of non-gap RF length (" ++ toString rflen ++ ") saved to file " ++ f ++ ".\n") | none => [])
    ++ (match o.gmaskAll with | some f => note ("# Gap frequency mask of full alignment length (" ++ toString m.alen ++ ") saved to file " ++ f ++ ".\n") | none => [])
    ++ (match o.fmaskRf with | some f => note ("# Final mask of non-gap RF length (" ++ toString rflen ++ ") saved to file " ++ f ++ ".\n") | none => [])
    ++ (match o.fmaskAll with | some f => note ("# Final mask of full alignment length (" ++ toString m.alen ++ ") saved to file " ++ f ++ ".\n") | none => [])
  match o.ofile with
  | some f => some (table ++ notes ++ note ("# Masked alignment saved to file " ++ f ++ ".\n"), (f, ali) :: files)
  | none => some (ali ++ table ++ notes, files)

end EaselModel.Miniapps.Ali
