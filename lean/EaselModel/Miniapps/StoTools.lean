import EaselModel.Miniapps.Alimanip
import EaselModel.Miniapps.Weight
import EaselModel.Miniapps.Range
/-! # C13 — the alignment-consuming tools on multi-alignment Stockholm / Pfam files

`esl-alipid`, `esl-alirev`, `esl-weight` loop `while (esl_msafile_Read(afp, &msa) == eslOK)` over EVERY alignment of the file.
The aligned-FASTA references of rounds 1–3 could only see one alignment; here the same per-alignment functions
(`alipidText`, C15 `reverseComplement`, the C16 weighting models) are driven through the C03 Stockholm reader in digital mode
and, where the tool writes alignments, the C03 writers — so anything a tool carries over from one alignment to the next
(a counter, a maximum, a name width, a weight vector) shows up as a difference in the predicted stdout. -/
namespace EaselModel.Miniapps.Ali
open EaselModel.Msafile

/-- every alignment of a Stockholm / Pfam file, digital mode -/
def readStoDigital (fa : EaselModel.Msafile.Abc) (infmt : String) (src : Bytes) : Option (List FMsa) :=
  if infmt != "stockholm" && infmt != "pfam" then none
  else
    let ls := EaselModel.Msafile.splitLines src
    match readAll (stockholmRead (stockholmCfg (some fa))) (ls.length + 2) ls [] with
    | some ms => if ms.isEmpty || ms.any (fun m => !m.digital) then none else some ms
    | none => none

def digRows (m : FMsa) : List Bytes := m.ax.map fun r => (r.drop 1).dropLast

/-- esl-alirev: `esl_msa_ReverseComplement` then `esl_msafile_Write(stdout, msa, outfmt)` for every alignment -/
def alirevSto (fa : EaselModel.Msafile.Abc) (ta : TAbc) (infmt outfmt : String) (src : Bytes) : Option Bytes :=
  match readStoDigital fa infmt src with
  | none => none
  | some ms =>
    (ms.mapM fun m =>
      let r := EaselModel.Msa.reverseComplement (toTA (some ta) m)
      if r.st == .ok && !r.exc then msafileWrite outfmt (some fa) (fromT true fa.kp r.msa) else none).map List.flatten

/-- esl-alipid: the header once, then the pair lines of every alignment (the name column is as wide as the longest name of
    THAT alignment) -/
def alipidSto (a : EaselModel.Miniapps.Abc) (fa : EaselModel.Msafile.Abc) (header : Bool) (infmt : String) (src : Bytes) : Option String :=
  match readStoDigital fa infmt src with
  | none => none
  | some ms =>
    let body := ms.map fun m =>
      let recs : List Rec := (m.names.zip (digRows m)).map fun (n, r) =>
        { name := n.map (fun x => Char.ofNat x.toNat), desc := [], seq := r.map fun x => a.syms.getD x.toNat '-' }
      alipidText a false recs
    some ((if header then "# seqname1 seqname2 %id nid denomid %match nmatch denommatch\n" else "") ++ String.join body)

/-- the weights of one alignment (`none`: a single sequence keeps the weight it has) -/
def weightsOf (a : EaselModel.Miniapps.Abc) (alg : String) (maxid : Float) (m : FMsa) : Option (List Float) :=
  let rows := digRows m
  let md := EaselModel.Weights.Mode.digital (wAbc a)
  if rows.length = 1 then none
  else match alg with
    | "-p" => some (EaselModel.Weights.pbDigital (α := Float) (wAbc a) (ruleOf half32) (minspanOf half32 m.alen) m.rf rows)
    | "-b" => some (EaselModel.Weights.blosum md maxid rows)
    | _ => some (EaselModel.Weights.gsc (α := Float) md rows)

/-- esl-weight `-g | -p | -b [--id x]`: every alignment rewritten as Stockholm with its new weights -/
def weightSto (a : EaselModel.Miniapps.Abc) (fa : EaselModel.Msafile.Abc) (alg : String) (maxid : Float) (infmt : String) (src : Bytes) : Option Bytes :=
  match readStoDigital fa infmt src with
  | none => none
  | some ms =>
    some (ms.map fun m =>
      let m' := match weightsOf a alg maxid m with
        | some ws => { m with hasw := true, wgt := ws.map fun w => wgtOfBits w.toBits }
        | none => { m with wgt := [Wgt.dflt] }
      stockholmWrite false (some fa) m').flatten

/-- esl-weight `-f [--idf x]`: `esl_msaweight_IDFilter`; the kept sequences (C15 `SequenceSubset`) written as Stockholm -/
def weightFilterSto (a : EaselModel.Miniapps.Abc) (fa : EaselModel.Msafile.Abc) (ta : TAbc) (maxid : Float) (infmt : String) (src : Bytes) : Option Bytes :=
  match readStoDigital fa infmt src with
  | none => none
  | some ms =>
    (ms.mapM fun m =>
      let rows := digRows m
      let ms_ := minspanOf half32 m.alen
      let cols := EaselModel.Weights.filterConsensus (wAbc a) (ruleOf half32) ms_ m.rf rows m.alen
      let kept := EaselModel.Weights.idFilterDigital (wAbc a) maxid (rows.map fun r => Float.ofNat (EaselModel.Weights.conscover (wAbc a) cols r)) rows
      let useme := (List.range rows.length).map fun i => kept.contains i
      (subsetRows (toTA (some ta) m) useme).map fun t => stockholmWrite false (some fa) (fromT true fa.kp t)).map List.flatten

end EaselModel.Miniapps.Ali
