import EaselModel.Miniapps.Alimanip
import EaselModel.Msa.LemmasRbb
import EaselModel.Msa.LemmasCompact
import EaselModel.Msa.LemmasMsa
/-! Lemmas about the esl-alimask / esl-alimanip reference functions: they are C15's column / row selections. -/
namespace EaselModel.Miniapps.Ali
open EaselModel.Msa

/-! ## `-t a..b` keeps the slice `[a-1, b)` of every row -/

theorem maskFilter_window (lo hi : Nat) : ∀ (row : Bytes) (k : Nat),
    maskFilter ((List.range' k row.length).map fun apos => decide (lo ≤ apos ∧ apos < hi)) row = (row.take (hi - k)).drop (lo - k) := by
  intro row
  induction row with
  | nil => intro k; simp [maskFilter]
  | cons c cs ih =>
    intro k
    simp only [List.length_cons, List.range'_succ, List.map_cons, maskFilter]
    rw [ih (k + 1)]
    by_cases h1 : lo ≤ k
    · by_cases h2 : k < hi
      · have e1 : lo - k = 0 := by omega
        have e2 : lo - (k + 1) = 0 := by omega
        have e3 : hi - k = (hi - (k + 1)) + 1 := by omega
        simp [h1, h2, e1, e2, e3]
      · have e1 : hi - k = 0 := by omega
        have e2 : hi - (k + 1) = 0 := by omega
        simp [h2, e1, e2]
    · have e3 : lo - k = (lo - (k + 1)) + 1 := by omega
      by_cases h2 : hi - k = 0
      · have e2 : hi - (k + 1) = 0 := by omega
        simp [h1, h2, e2]
      · have e4 : hi - k = (hi - (k + 1)) + 1 := by omega
        simp [h1, e3, e4]

/-- the mask of `esl-alimask -t <ts>..<te>` cuts every row to its columns `ts..te` (1-based, inclusive) -/
theorem truncMask_slice (row : Bytes) (ts te : Nat) :
    maskFilter (truncMask row.length ts te) row = (row.take te).drop (ts - 1) := by
  unfold truncMask
  have := maskFilter_window (ts - 1) te row 0
  simpa using this

theorem truncMask_length (alen ts te : Nat) : (truncMask alen ts te).length = alen := by simp [truncMask]

/-! ## the masking step is C15's column filter -/

/-- `alimaskApply`: whatever the mode computed as mask, what is written is the column filter of the alignment read -
    rows, RF, every per-column annotation line cut by the SAME mask; names, number of sequences untouched; the only other
    change is the base-pair repair of the SS lines (nucleic alphabets), C15's `removeBrokenBasepairs` -/
theorem alimaskApply_spec (nuc : Bool) (t t' : TMsa) (useme : List Bool) (wf : t.WF) (habc : t.abc = none)
    (hm : useme.length = t.alen) (h : alimaskApply nuc t useme = some t') :
    t'.rows = t.rows.map (maskFilter useme) ∧ t'.alen = (useme.filter id).length ∧ t'.sqname = t.sqname ∧ t'.nseq = t.nseq ∧
    t'.rf = t.rf.map (maskFilter useme) ∧ t'.wgt = t.wgt ∧ t'.WF := by
  unfold alimaskApply at h
  cases nuc with
  | false =>
    simp only [Bool.false_eq_true, if_false] at h
    have hcs := EaselModel.Msa.columnCompact_eq t useme wf hm
    have hcol : columnSubset t useme = { msa := t.colFilter useme, st := .ok } := by
      simp [columnSubset, habc, hcs]
    rw [hcol] at h
    simp at h
    subst h
    exact ⟨rfl, rfl, rfl, rfl, rfl, rfl, colFilter_wf t useme wf hm⟩
  | true =>
    simp only [if_true] at h
    by_cases hok : (removeBrokenBasepairs t useme).st = .ok
    · obtain ⟨wf', hal, sc, ss', hform⟩ := removeBrokenBasepairs_wf t useme wf hok
      have hm' : useme.length = (removeBrokenBasepairs t useme).msa.alen := by rw [hal]; exact hm
      have habc' : (removeBrokenBasepairs t useme).msa.abc = none := by rw [hform]; exact habc
      have hcs := EaselModel.Msa.columnCompact_eq _ useme wf' hm'
      have hcol : columnSubset (removeBrokenBasepairs t useme).msa useme
          = { msa := (removeBrokenBasepairs t useme).msa.colFilter useme, st := .ok } := by
        simp [columnSubset, habc', hcs]
      rw [hcol] at h
      by_cases hexc : (removeBrokenBasepairs t useme).exc = true
      · simp [hok, hexc] at h
      · simp [hok, hexc] at h
        subst h
        refine ⟨?_, rfl, ?_, ?_, ?_, ?_, colFilter_wf _ useme wf' hm'⟩
        · show ((removeBrokenBasepairs t useme).msa.rows).map (maskFilter useme) = _; rw [hform]
        · show (removeBrokenBasepairs t useme).msa.sqname = _; rw [hform]
        · show (removeBrokenBasepairs t useme).msa.nseq = _; rw [hform]
        · show ((removeBrokenBasepairs t useme).msa.rf).map (maskFilter useme) = _; rw [hform]
        · show (removeBrokenBasepairs t useme).msa.wgt = _; rw [hform]
    · simp [hok] at h

/-! ## esl-alimanip: row selection is C15's `sequenceSubset` -/

theorem subsetRows_spec (t t' : TMsa) (useme : List Bool) (h : subsetRows t useme = some t') :
    t'.rows = maskFilter useme t.rows ∧ t'.sqname = maskFilter useme t.sqname ∧ t'.wgt = maskFilter useme t.wgt ∧
    t'.alen = t.alen ∧ t'.nseq = countSelected t useme ∧ t'.nseq ≠ 0 ∧ t'.abc = t.abc ∧ t'.flags = t.flags := by
  unfold subsetRows at h
  split at h
  · exact absurd h (by simp)
  · split at h
    · rename_i b hb
      have hb' : some b = some t' := h
      injection hb' with hb'
      subst hb'
      obtain ⟨hn, rfl⟩ := sequenceSubset_ok t useme b hb
      exact ⟨rfl, rfl, rfl, rfl, rfl, hn, rfl, rfl⟩
    · exact absurd h (by simp)

/-- `--seq-k` / `--seq-r` without reordering are the row selection by "is the name listed" -/
theorem keepOrRemove_is_subset (t t' : TMsa) (seqlist : List Bytes) (doKeep : Bool) (h : keepOrRemove t seqlist doKeep false = some t') :
    ∃ idx, seqlist.mapM (fun nm => t.sqname.idxOf? nm) = some idx ∧
      subsetRows t ((List.range t.nseq).map fun i => if idx.contains i then doKeep else !doKeep) = some t' := by
  unfold keepOrRemove at h
  cases hidx : seqlist.mapM (fun nm => t.sqname.idxOf? nm) with
  | none => simp [hidx] at h
  | some idx =>
    refine ⟨idx, rfl, ?_⟩
    simp [hidx] at h
    simpa using h.2

/-- `reorder_msa` moves rows and names together: position `i` of both comes from the same old position `order[i]` -/
theorem reorderMsa_attached (t : TMsa) (order : List Nat) (i : Nat) (hi : i < order.length) :
    (reorderMsa t order).rows.getD i [] = t.rows.getD (order.getD i 0) [] ∧
    (reorderMsa t order).sqname.getD i [] = t.sqname.getD (order.getD i 0) [] := by
  simp [reorderMsa, List.getD_eq_getElem?_getD, hi]

end EaselModel.Miniapps.Ali
