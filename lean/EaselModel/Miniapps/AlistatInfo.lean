import EaselModel.Miniapps.Alimanip
import EaselModel.Miniapps.Afetch
import EaselModel.Msafile.Guess
import EaselModel.Miniapps.Alistat
import EaselModel.Alphabet.Model
/-! # C13 — `esl-alistat` on Stockholm / Pfam files read in digital mode, with the optional output files

Line-by-line model of `miniapps/esl-alistat.c`: the summary (default and `-1`), `--list`, `count_msa` (per-column counts
through `esl_abc_DCount`, degenerate residues shared out over their canonical residues), `map_rfpos_to_apos`,
`dump_residue_info` (`--rinfo`), `dump_column_residue_counts` (`--cinfo`, `--noambig`), `dump_infocontent_info` (`--icinfo`),
`dump_insert_info` (`--iinfo`).  Not modelled: `--weight`, `--small`, `--pcinfo`, `--psinfo`, `--bpinfo`.
The reader is C03's Stockholm reader in digital mode; the degeneracy tables are C08's `esl_alphabet_Create` model; the
pairwise identity is the function already tied through esl-alipid / the aligned-FASTA branch (`avgId`).
Floating point: the tool's own operations in binary64 (and binary32 where the source casts to `float`), same order. -/
namespace EaselModel.Miniapps.Ali
open EaselModel.Msafile EaselModel.Alphabet

/-- the three views of one alphabet: C13's character view, C03's reader configuration, C15's tables (RF tests), C08's degeneracy tables -/
structure AbcViews where
  c : EaselModel.Miniapps.Abc
  f : EaselModel.Msafile.Abc
  t : TAbc
  a : Alphabet

def emptyAlphabet : Alphabet :=
  { type := 0, K := 0, Kp := 0, sym := [], inmap := [], degen := [], ndegen := [], complement := none }

def viewsDna : AbcViews := ⟨.dna, abcDna, EaselModel.Msa.Gen.dnaAbc, (Alphabet.createDna).getD emptyAlphabet⟩
def viewsRna : AbcViews := ⟨.rna, abcRna, EaselModel.Msa.Gen.rnaAbc, (Alphabet.createRna).getD emptyAlphabet⟩
def viewsAmino : AbcViews := ⟨.amino, abcAmino, EaselModel.Msa.Gen.aminoAbc, (Alphabet.createAmino).getD emptyAlphabet⟩

/-- `esl_vec_DSum`: compensated (Kahan) summation, exactly as written -/
def kahanSum (v : List Float) : Float :=
  (v.foldl (fun (st : Float × Float) x =>
    let y := x - st.2
    let t := st.1 + y
    (t, (t - st.1) - y)) (0.0, 0.0)).1

/-- `esl_abc_DCount(abc, ct, x, wt)` on a vector of `K+1` counters -/
def dCount (A : Alphabet) (ct : List Float) (x : Nat) (wt : Float) : List Float :=
  if x < A.K || x == A.K then ct.set x (ct.getD x 0.0 + wt)
  else if x == A.Kp - 1 || x == A.Kp - 2 then ct
  else (List.range A.K).foldl (fun ct y =>
    if (A.degen.getD x []).getD y 0 != 0 then ct.set y (ct.getD y 0.0 + wt / Float.ofNat (A.ndegen.getD x 0)) else ct) ct

/-- `esl_abc_XIsDegenerate` -/
def xIsDegenN (A : Alphabet) (x : Nat) : Bool := x > A.K && x < A.Kp - 2
/-- `esl_abc_XIsResidue` -/
def xIsResidueN (A : Alphabet) (x : Nat) : Bool := x < A.K || (x > A.K && x < A.Kp - 2)

/-- `abc_ct[apos]` of `count_msa` without weights: sequences in order, each adds its residue of this column -/
def columnCountsW (A : Alphabet) (noAmbig : Bool) (rows : List (List Nat)) (wts : List Float) (apos : Nat) : List Float :=
  (rows.zip wts).foldl (fun ct rw =>
    let x := rw.1.getD apos 0
    if !noAmbig || !xIsDegenN A x then dCount A ct x rw.2 else ct) (List.replicate (A.K + 1) 0.0)

/-- … without `--weight`: every sequence counts 1.0 -/
def columnCounts (A : Alphabet) (noAmbig : Bool) (rows : List (List Nat)) (apos : Nat) : List Float :=
  columnCountsW A noAmbig rows (rows.map fun _ => 1.0) apos

/-- `esl_vec_DNorm` -/
def dNorm (v : List Float) : List Float :=
  let s := kahanSum v
  if s != 0.0 then v.map (· / s) else v.map fun _ => 1.0 / Float.ofNat v.length

/-- `esl_vec_DEntropy` -/
def dEntropy (p : List Float) : Float := p.foldl (fun h x => if x > 0.0 then h - x * Float.log2 x else h) 0.0

def padL (w : Nat) (s : String) : String := padLeft w s
/-- `printf("%<w>.<d>f", x)`.  The only NaN the tool can produce is `0.0 / 0.0` (a column in which nothing was counted): on
    x86-64 that is the default NaN with the sign bit set, which glibc prints as `-nan` (`Float.toBits` hides the sign). -/
def fF (w d : Nat) (x : Float) : String := padLeft w (if x.isNaN then "-nan" else fmtFloatSigned x d)

/-- the shared head of the info files -/
def weightsNote (useW : Bool) : String :=
  if useW then "# IMPORTANT: Counts are weighted based on sequence weights in alignment file.\n"
  else "# Sequence weights from alignment were ignored (if they existed).\n"

def infoHead (title alifile : String) (nali : Nat) (name : Option Bytes) (extra : List String) (nseq : Nat) (post : List String)
    (useW : Bool := false) : String :=
  title ++ "# Alignment file: " ++ alifile ++ "\n# Alignment idx:  " ++ toString nali ++ "\n" ++
  (match name with | some n => "# Alignment name: " ++ b2sA n ++ "\n" | none => "") ++
  String.join extra ++
  "# Number of sequences: " ++ toString nseq ++ "\n" ++ String.join post ++ weightsNote useW ++ "#\n"
where b2sA (b : Bytes) : String := String.ofList (b.map fun x => Char.ofNat x.toNat)

def bytesStr (b : Bytes) : String := String.ofList (b.map fun x => Char.ofNat x.toNat)

/-- the `rfpos` cell in front of a column line: the running RF position, or `-` -/
def rfCells (iamrf : List Bool) : List String :=
  (iamrf.foldl (fun (st : Nat × List String) b =>
    if b then (st.1 + 1, ("  " ++ padLeft 7 (toString (st.1 + 1))) :: st.2) else (st.1, ("  " ++ padLeft 7 "-") :: st.2)) (0, [])).2.reverse

structure AliView where
  nali : Nat
  name : Option Bytes
  names : List Bytes
  rows : List (List Nat)          -- digital codes, `alen` per row
  alen : Nat
  iamrf : Option (List Bool)
  wts : List Float := []                          -- `msa->wgt`
  useW : Bool := false                            -- `--weight` given AND some weight differs from 1.0 (`check_msa_weights`)
  cntW : Bool := false                            -- `--weight` given: `count_msa` multiplies by `msa->wgt[i]`
  pp : Option (List (Option Bytes)) := none     -- `msa->pp` (NULL when no sequence has a #=GR PP line)
  sscons : Option Bytes := none

/-- `--rinfo` -/
def rinfoText (A : Alphabet) (alifile : String) (v : AliView) (cts : List (List Float)) : String :=
  let nseq := v.rows.length
  let head := infoHead "# Insert information:\n" alifile v.nali v.name [] nseq [] v.useW
  let cols := match v.iamrf with
    | some _ => "# " ++ padL 7 "rfpos" ++ "  " ++ padL 7 "alnpos" ++ "  " ++ padL 10 "numres" ++ "  " ++ padL 8 "freqres" ++ "  " ++ padL 10 "numgap" ++ "  " ++ padL 8 "freqgap" ++ "\n" ++
                "# " ++ "-------" ++ "  " ++ "-------" ++ "  " ++ "----------" ++ "  " ++ "--------" ++ "  " ++ "----------" ++ "  " ++ "--------" ++ "\n"
    | none => "# " ++ padL 7 "alnpos" ++ "  " ++ padL 10 "numres" ++ "  " ++ padL 8 "freqres" ++ "  " ++ padL 10 "numgap" ++ "  " ++ padL 8 "freqgap" ++ "\n" ++
              "# " ++ "-------" ++ "  " ++ "----------" ++ "  " ++ "--------" ++ "  " ++ "----------" ++ "  " ++ "--------" ++ "\n"
  let rfc := match v.iamrf with | some l => rfCells l | none => List.replicate v.alen ""
  let nf := Float.ofNat nseq
  let lines := (List.range v.alen).map fun apos =>
    let ct := cts.getD apos []
    let rct := kahanSum (ct.take A.K)
    let gct := ct.getD A.K 0.0
    rfc.getD apos "" ++ "  " ++ padL 7 (toString (apos + 1)) ++ "  " ++ fF 10 1 rct ++ "  " ++ fF 8 6 (rct / nf) ++ "  " ++ fF 10 1 gct ++ "  " ++ fF 8 6 (gct / nf) ++ "\n"
  head ++ cols ++ String.join lines ++ "//\n"

/-- `--cinfo` -/
def cinfoText (A : Alphabet) (noAmbig : Bool) (alifile : String) (v : AliView) (cts : List (List Float)) : String :=
  let nseq := v.rows.length
  let amb :=
    if noAmbig then ["# Ambiguous residues were not counted.\n"]
    else if A.type == 1 then ["# Ambiguities were averaged (e.g. 1 'N' = 0.25 'A', 0.25 'C', 0.25 'G' and 0.25 'U')\n"]
    else if A.type == 2 then ["# Ambiguities were averaged (e.g. 1 'N' = 0.25 'A', 0.25 'C', 0.25 'G' and 0.25 'T')\n"]
    else if A.type == 3 then ["# Ambiguities were averaged (e.g. 1 'X' = 0.05 each for all 20 amino acids\n"]
    else []
  let head := infoHead "# Per column residue counts:\n" alifile v.nali v.name [] nseq amb v.useW
  let syms := (List.range A.K).map fun i => Char.ofNat (A.sym.getD i 63)
  let h1 := "# " ++ padL 7 "alnpos" ++ String.join (syms.map fun c => "     " ++ String.singleton c ++ "   ") ++ "\n"
  let h2 := "# " ++ "-------" ++ String.join (syms.map fun _ => "  -------") ++ "\n"
  let lines := (List.range v.alen).map fun apos =>
    let ct := cts.getD apos []
    "  " ++ padL 7 (toString (apos + 1)) ++ String.join ((ct.take A.K).map fun x => "  " ++ fF 7 1 x) ++ "\n"
  head ++ h1 ++ h2 ++ String.join lines ++ "//\n"

/-- `--icinfo` -/
def icinfoText (A : Alphabet) (alifile : String) (v : AliView) (cts : List (List Float)) : String :=
  let nseq := v.rows.length
  let bgEnt := dEntropy (List.replicate A.K (1.0 / Float.ofNat A.K))
  let head := infoHead "# Information content per column (bits):\n" alifile v.nali v.name [] nseq [] v.useW
  let cols := match v.iamrf with
    | some _ => "# " ++ padL 7 "rfpos" ++ "  " ++ padL 7 "alnpos" ++ "  " ++ padL 10 "freqnongap" ++ "  " ++ padL 10 "info(bits)" ++ "\n" ++
                "# " ++ "-------" ++ "  " ++ "-------" ++ "  " ++ "----------" ++ "  " ++ "----------" ++ "\n"
    | none => "# " ++ padL 7 "alnpos" ++ "  " ++ padL 10 "freqnongap" ++ "  " ++ padL 10 "info(bits)" ++ "\n" ++
              "# " ++ "-------" ++ "  " ++ "----------" ++ "  " ++ "----------" ++ "\n"
  let rfc := match v.iamrf with | some l => rfCells l | none => List.replicate v.alen ""
  let lines := (List.range v.alen).map fun apos =>
    let ct := cts.getD apos []
    let nnongap := kahanSum (ct.take A.K)
    let freq := dNorm (ct.take A.K)
    rfc.getD apos "" ++ "  " ++ padL 7 (toString (apos + 1)) ++ "  " ++ fF 10 8 (nnongap / (nnongap + ct.getD A.K 0.0)) ++ "  " ++
      fF 10 8 (bgEnt - dEntropy freq) ++ "\n"
  head ++ cols ++ String.join lines ++ "//\n"

/-- the per-sequence insert counts of `dump_insert_info`: `ict[rfpos][i]` = residues of sequence `i` in the non-RF columns
    that follow RF position `rfpos` (0 = before the first) -/
def insertCounts (A : Alphabet) (iamrf : List Bool) (rows : List (List Nat)) : List (List Nat) :=
  let rflen := (iamrf.filter id).length
  let init : List (List Nat) := List.replicate (rflen + 1) (List.replicate rows.length 0)
  ((List.range iamrf.length).foldl (fun (st : Nat × List (List Nat)) apos =>
    if iamrf.getD apos false then (st.1 + 1, st.2)
    else (st.1, st.2.set st.1 ((st.2.getD st.1 []).zipWith (fun c r => if xIsResidueN A (r.getD apos 0) then c + 1 else c) rows))) (0, init)).2

/-- `total_ict[rfpos] += seqwt` for every residue in a non-RF column, in the source's order (columns outer, sequences inner) -/
def insertTotals (A : Alphabet) (iamrf : List Bool) (rows : List (List Nat)) (sw : Nat → Float) : List Float :=
  let rflen := (iamrf.filter id).length
  ((List.range iamrf.length).foldl (fun (st : Nat × List Float) apos =>
    if iamrf.getD apos false then (st.1 + 1, st.2)
    else (st.1, (rows.zip (List.range rows.length)).foldl (fun tot ri =>
      if xIsResidueN A (ri.1.getD apos 0) then tot.set st.1 (tot.getD st.1 0.0 + sw ri.2) else tot) st.2)) (0, List.replicate (rflen + 1) 0.0)).2

/-- `--iinfo` (requires RF) -/
def iinfoText (A : Alphabet) (alifile : String) (v : AliView) (iamrf : List Bool) : String :=
  let nseq := v.rows.length
  let head := "# Insert information:\n# Alignment file: " ++ alifile ++ "\n# Alignment idx:  " ++ toString v.nali ++ "\n" ++
    (match v.name with | some n => "# Alignment name: " ++ bytesStr n ++ "\n" | none => "") ++
    "# rfpos is the nongap RF position after which insertions occur\n" ++
    "# An rfpos of '0' indicates insertions before the first nongap RF position\n" ++
    "# Number of sequences: " ++ toString nseq ++ "\n" ++ weightsNote v.useW ++ "#\n" ++
    "# " ++ padL 8 "rfpos" ++ "  " ++ padL 10 "nseq w/ins" ++ "  " ++ padL 8 "freq ins" ++ "  " ++ padL 8 "avg len" ++ "\n" ++
    "# " ++ "--------" ++ "  " ++ "----------" ++ "  " ++ "--------" ++ "  " ++ "--------" ++ "\n"
  let ict := insertCounts A iamrf v.rows
  let lines := ict.mapIdx fun rfpos per =>
    -- `total_ict[rfpos] += seqwt` once per inserted residue; `nseq += seqwt` once per sequence with an insert (weights 1.0)
    -- NOTE the order of the additions to `total_ict[rfpos]` in the source is column by column, sequence by sequence; with weights
    -- that are not all equal the binary64 sum could depend on it: `insertTotals` below keeps the source's order
    let sw := fun (i : Nat) => if v.useW then v.wts.getD i 1.0 else 1.0
    let total := (insertTotals A iamrf v.rows sw).getD rfpos 0.0
    let n := (per.zip (List.range per.length)).foldl (fun (t : Float) ci => if ci.1 ≥ 1 then t + sw ci.2 else t) 0.0
    if n > 0.0 then
      "  " ++ padL 8 (toString rfpos) ++ "  " ++ fF 10 1 n ++ "  " ++ fF 8 6 (n / Float.ofNat nseq) ++ "  " ++
        fF 8 3 (total.toFloat32 / n.toFloat32).toFloat ++ "\n"
    else ""
  head ++ String.join lines ++ "//\n"

/-! ### posterior probabilities (`--pcinfo`, `--psinfo`) and consensus base pairs (`--bpinfo`) -/

/-- `get_pp_idx`: `0`-`9` → 0-9, `*` → 10, a gap character → 11, anything else is an error -/
def ppIdx (t : TAbc) (c : UInt8) : Option Nat :=
  if c.toNat < 128 && t.cIsGap c then some 11
  else if c == 42 then some 10
  else if 48 ≤ c && c ≤ 57 then some (c.toNat - 48)
  else none

/-- `ppavgA[]`, binary32 -/
def ppAvg : List Float32 :=
  [(0.025 : Float).toFloat32, (0.10 : Float).toFloat32, (0.20 : Float).toFloat32, (0.30 : Float).toFloat32, (0.40 : Float).toFloat32,
   (0.50 : Float).toFloat32, (0.60 : Float).toFloat32, (0.70 : Float).toFloat32, (0.80 : Float).toFloat32, (0.90 : Float).toFloat32,
   (0.975 : Float).toFloat32]

def ppString : List Char := "0123456789*.".toList

/-- `pp_ct[apos]` of `count_msa`; `none` = "bad #=GR PP char" -/
def ppColumnCounts (V : AbcViews) (noAmbig : Bool) (v : AliView) (pp : List (Option Bytes)) (apos : Nat) : Option (List Float) :=
  ((v.rows.zip (v.rows.zipIdx.map fun ri => if v.cntW then v.wts.getD ri.2 1.0 else 1.0)).zip pp).foldlM (fun (ct : List Float) (rp : (List Nat × Float) × Option Bytes) =>
    match rp.2 with
    | none => some ct
    | some line =>
      if !noAmbig || !xIsDegenN V.a (rp.1.1.getD apos 0) then
        (ppIdx V.t (line.getD apos 0)).map fun k => ct.set k (ct.getD k 0.0 + rp.1.2)
      else some ct) (List.replicate 12 0.0)

/-- `--pcinfo` (the second header line always carries the `rfpos` dashes: the source prints them unconditionally) -/
def pcinfoText (alifile : String) (v : AliView) (cts : List (List Float)) : String :=
  let nseq := v.rows.length
  let head := infoHead "# Posterior probability stats per column:\n" alifile v.nali v.name [] nseq [] v.useW
  let h1 := "# " ++ padL 6 "alnpos" ++ (if v.iamrf.isSome then "  " ++ padL 6 "rfpos" else "") ++ "  " ++ padL 9 "nnongap" ++
    String.join (ppString.map fun c => "  " ++ padL 9 (String.singleton c)) ++ "  " ++ padL 9 "avgPP" ++ "\n"
  let h2 := "# " ++ "------" ++ "  " ++ "------" ++ "  " ++ "---------" ++ String.join (ppString.map fun _ => "  ---------") ++ "  ---------\n"
  let rfc : List String := match v.iamrf with
    | some l => ((l.foldl (fun (st : Nat × List String) b =>
        if b then (st.1 + 1, ("  " ++ padL 6 (toString st.1)) :: st.2) else (st.1, ("  " ++ padL 6 "-") :: st.2)) (1, [])).2).reverse
    | none => List.replicate v.alen ""
  let lines := (List.range v.alen).map fun apos =>
    let ct := cts.getD apos []
    let nnongap := kahanSum (ct.take 11)
    let sum := (List.range 11).foldl (fun (acc : Float) k => acc + ct.getD k 0.0 * (ppAvg.getD k 0).toFloat) 0.0
    "  " ++ padL 6 (toString (apos + 1)) ++ rfc.getD apos "" ++ "  " ++ fF 9 1 nnongap ++
      String.join (ct.map fun x => "  " ++ fF 9 1 x) ++ "  " ++ fF 0 5 (sum / nnongap) ++ "\n"
  head ++ h1 ++ h2 ++ String.join lines ++ "//\n"

/-- `--psinfo`; `none` = "bad #=GR PP char" -/
def psinfoText (V : AbcViews) (alifile : String) (v : AliView) (pp : List (Option Bytes)) : Option String := do
  let nseq := v.rows.length
  let head := "# Posterior probability stats per sequence:\n# Alignment file: " ++ alifile ++ "\n# Alignment idx:  " ++ toString v.nali ++ "\n" ++
    (match v.name with | some n => "# Alignment name: " ++ bytesStr n ++ "\n" | none => "") ++
    "# Number of sequences: " ++ toString nseq ++ "\n" ++
    "# " ++ padL 7 "seqidx" ++ "  " ++ padRight 40 "seqname" ++ "  " ++ padL 7 "nnongap" ++
      String.join ((ppString.take 11).map fun c => "  " ++ padL 7 (String.singleton c)) ++ "  " ++ padL 7 "avgPP" ++ "\n" ++
    "# " ++ "-------" ++ "  " ++ "----------------------------------------" ++ "  " ++ "-------" ++
      String.join ((ppString.take 11).map fun _ => "  -------") ++ "  -------\n"
  let lines ← ((List.range nseq).zip pp).mapM fun (i, line?) =>
    match line? with
    | none => some ""
    | some line => do
      let idxs ← (line.take v.alen).mapM (ppIdx V.t)
      let ct := (List.range 12).map fun k => idxs.count k
      let nnongap := (ct.take 11).sum
      let sum := (List.range 11).foldl (fun (acc : Float) k => acc + (Float32.ofNat (ct.getD k 0) * ppAvg.getD k 0).toFloat) 0.0
      some ("  " ++ padL 7 (toString (i + 1)) ++ "  " ++ padRight 40 (bytesStr (v.names.getD i [])) ++ "  " ++ padL 7 (toString nnongap) ++
        String.join ((ct.take 11).map fun c => "  " ++ padL 7 (toString c)) ++ "  " ++ fF 0 5 (sum / (Float32.ofNat nnongap).toFloat) ++ "\n")
  some (head ++ String.join lines ++ "//\n")

/-- `--bpinfo`: the consensus pairs of `SS_cons` without pseudoknots (C15 `wussNopseudo`, `wuss2ct`), per pair the K×K counts of
    canonical residue pairs over the sequences; `none` = "Consensus structure string is inconsistent" -/
def bpinfoText (A : Alphabet) (alifile : String) (v : AliView) (ss : Bytes) : Option String := do
  let ct ← EaselModel.Msa.wuss2ct (EaselModel.Msa.wussNopseudo (ss.take v.alen))
  let nseq := v.rows.length
  let head := "# Per-column basepair counts:\n# Alignment file: " ++ alifile ++ "\n# Alignment idx:  " ++ toString v.nali ++ "\n" ++
    (match v.name with | some n => "# Alignment name: " ++ bytesStr n ++ "\n" | none => "") ++
    "# Number of sequences: " ++ toString nseq ++ "\n" ++
    "# Only basepairs involving two canonical (non-degenerate) residues were counted.\n" ++ weightsNote v.useW ++ "#\n"
  let syms := (List.range A.K).map fun i => Char.ofNat (A.sym.getD i 63)
  let pairsIdx := (List.range A.K).flatMap fun i => (List.range A.K).map fun j => (i, j)
  let h1 := "# " ++ padL 7 "lpos" ++ "  " ++ padL 7 "rpos" ++
    String.join (pairsIdx.map fun (i, j) => "    " ++ String.singleton (syms.getD i '?') ++ String.singleton (syms.getD j '?') ++ "  ") ++ "\n"
  let h2 := "# " ++ "-------" ++ "  " ++ "-------" ++ String.join (pairsIdx.map fun _ => "  ------") ++ "\n"
  let lines := (List.range v.alen).map fun apos =>
    let r := ct.getD (apos + 1) 0
    if r > apos + 1 then
      "  " ++ padL 7 (toString (apos + 1)) ++ "  " ++ padL 7 (toString r) ++
        String.join (pairsIdx.map fun (i, j) =>
          -- `bp_ct[apos][x][y] += seqwt` sequence by sequence, printed as `(int)`
          let c := (v.rows.zipIdx).foldl (fun (acc : Float) ri =>
            if ri.1.getD apos 0 == i && ri.1.getD (r - 1) 0 == j then acc + (if v.cntW then v.wts.getD ri.2 1.0 else 1.0) else acc) 0.0
          "  " ++ padL 6 (toString c.floor.toUInt64.toNat)) ++ "\n"
    else ""
  some (head ++ h1 ++ h2 ++ String.join lines ++ "//\n")

structure AlistatOpts where
  oneLine : Bool := false
  noAmbig : Bool := false
  list : Option String := none
  icinfo : Option String := none
  rinfo : Option String := none
  iinfo : Option String := none
  cinfo : Option String := none
  weight : Bool := false
  pcinfo : Option String := none
  psinfo : Option String := none
  bpinfo : Option String := none

def fmtName (infmt : String) : String := if infmt == "pfam" then "Pfam" else "Stockholm"

/-- a plain decimal `ddd[.ddd]` as the binary64 `strtod` returns (correctly rounded) -/
def parseDec (b : Bytes) : Option Float :=
  match b.splitOn 46 with
  | [i] => if !i.isEmpty && i.all isDigit then (String.ofList (i.map fun x => Char.ofNat x.toNat)).toNat?.map Float.ofNat else none
  | [i, f] =>
    if (i ++ f).isEmpty || !(i ++ f).all isDigit then none
    else (String.ofList ((i ++ f).map fun x => Char.ofNat x.toNat)).toNat?.map fun n => Float.ofScientific n true f.length
  | _ => none

/-- `msa->wgt[]` of one alignment, read off its own `#=GS <name> WT <value>` lines (C03's reader model keeps only whether a weight
    is set, not its value); a sequence without a WT line has weight 1.0; `none` = a value that is not a plain decimal -/
def wtsOfSpan (names : List Bytes) (span : List Bytes) : Option (List Float) :=
  let toks (l : Bytes) : List Bytes := ((l.splitOn 32).flatMap fun w => w.splitOn 9).filter fun w => !w.isEmpty
  let wl : List (Bytes × Bytes) := span.filterMap fun l =>
    match toks l with
    | [g, n, t, v] => if g == str "#=GS" && t == str "WT" then some (n, v) else none
    | _ => none
  names.mapM fun n => match wl.find? (fun p => p.1 == n) with | some (_, v) => parseDec v | none => some 1.0

/-- one alignment of the file, as the tool sees it; `none` = the tool stops with a message (RF without consensus column) -/
def viewOf (V : AbcViews) (nali : Nat) (m : FMsa) (wts : List Float := []) : Option AliView :=
  if !m.digital then none else
  let rows := m.ax.map fun r => ((r.drop 1).dropLast).map (·.toNat)
  let wts := if wts.isEmpty then rows.map fun _ => 1.0 else wts
  match m.rf with
  | some rf =>
    if rf.any (fun c => c.toNat ≥ 128) then none else
    let l := (iAmRf V.t rf).take m.alen
    if l.any id then some { nali := nali, name := m.name, names := m.names, rows := rows, alen := m.alen, iamrf := some l, wts := wts, pp := m.pp, sscons := m.ssCons } else none
  | none => some { nali := nali, name := m.name, names := m.names, rows := rows, alen := m.alen, iamrf := none, wts := wts, pp := m.pp, sscons := m.ssCons }

/-- the summary block / line of one alignment -/
def summaryText (V : AbcViews) (o : AlistatOpts) (infmt : String) (v : AliView) : String :=
  let crow := v.rows.map fun r => r.map fun x => V.c.syms.getD x '-'
  let st := aliStats V.c crow
  let nm := match v.name with | some n => bytesStr n | none => "(null)"
  if o.oneLine then
    padRight 6 (toString v.nali) ++ " " ++ padRight 20 nm ++ " " ++ padLeft 10 (fmtName infmt) ++ " " ++ padLeft 7 (toString st.nseq) ++ " " ++
      padLeft 7 (toString v.alen) ++ " " ++ padLeft 12 (toString st.nres) ++ " " ++ padLeft 6 (toString st.small) ++ " " ++
      padLeft 6 (toString st.large) ++ " " ++ padLeft 10 (avgLen st.nres st.nseq) ++ " " ++ padLeft 3 (pct0 (avgId V.c crow 1000)) ++ "\n"
  else
    "Alignment number:    " ++ toString v.nali ++ "\n" ++
    (match v.name with | some n => "Alignment name:      " ++ bytesStr n ++ "\n" | none => "") ++
    "Format:              " ++ fmtName infmt ++ "\n" ++
    "Number of sequences: " ++ toString st.nseq ++ "\n" ++
    "Alignment length:    " ++ toString v.alen ++ "\n" ++
    "Total # residues:    " ++ toString st.nres ++ "\n" ++
    "Smallest:            " ++ toString st.small ++ "\n" ++
    "Largest:             " ++ toString st.large ++ "\n" ++
    "Average length:      " ++ avgLen st.nres st.nseq ++ "\n" ++
    "Average identity:    " ++ pct0 (avgId V.c crow 1000) ++ "%\n//\n"

def oneLineHeader : String :=
  "#\n" ++
  "# " ++ padRight 4 "idx" ++ " " ++ padRight 20 "name" ++ " " ++ padLeft 10 "format" ++ " " ++ padLeft 7 "nseq" ++ " " ++
    padLeft 7 "alen" ++ " " ++ padLeft 12 "nres" ++ " " ++ padLeft 6 "small" ++ " " ++ padLeft 6 "large" ++ " " ++
    padLeft 10 "avlen" ++ " " ++ padLeft 3 "%id" ++ "\n" ++
  "# " ++ "----" ++ " " ++ "--------------------" ++ " " ++ "----------" ++ " " ++ "-------" ++ " " ++ "-------" ++ " " ++
    "------------" ++ " " ++ "------" ++ " " ++ "------" ++ " " ++ "----------" ++ " " ++ "---" ++ "\n"

/-- `esl-alistat [-1] [--list f] [--icinfo f] [--rinfo f] [--iinfo f] [--cinfo f [--noambig]] --informat stockholm|pfam (--dna|--rna|--amino) <file>`:
    stdout and the files written -/
def alistatInfo (V : AbcViews) (o : AlistatOpts) (infmt alifile : String) (src : Bytes) : Option (String × List (String × String)) :=
  if infmt != "stockholm" && infmt != "pfam" then none else
  let ls := EaselModel.Msafile.splitLines src
  match readAllSpans (stockholmRead (stockholmCfg (some V.f))) (ls.length + 2) ls [] with
  | none => none
  | some recs =>
    if recs.isEmpty then none else
    match (recs.mapIdx fun i r => (if o.weight then wtsOfSpan r.1.names r.2 else some []).bind fun w => viewOf V (i + 1) r.1 w).mapM id with
    | none => none
    | some vs0 =>
      -- `weights_exist`: some weight differs from 1.0 as a binary32 (`esl_FCompare_old(wgt, 1.0, eslSMALLX1)`: the tolerance is below float resolution)
      let vs := vs0.map fun v => { v with cntW := o.weight, useW := o.weight && v.wts.any fun w => w.toFloat32 != (1.0 : Float).toFloat32 }
      if o.iinfo.isSome && vs.any (fun v => v.iamrf.isNone) then none else
      if (o.pcinfo.isSome || o.psinfo.isSome) && vs.any (fun v => v.pp.isNone) then none else
      if o.bpinfo.isSome && vs.any (fun v => v.sscons.isNone) then none else
      -- the PP counts are collected (and a bad PP character is fatal) whenever any count-based file is asked for and the alignment has PP lines
      let needCt := o.icinfo.isSome || o.rinfo.isSome || o.cinfo.isSome || o.pcinfo.isSome || o.bpinfo.isSome
      match vs.mapM (fun v => match v.pp with
          | some pp => if needCt then ((List.range v.alen).mapM (ppColumnCounts V o.noAmbig v pp)).map some else some none
          | none => some none) with
      | none => none
      | some ppcts =>
      match (if o.psinfo.isSome then vs.mapM (fun v => psinfoText V alifile v (v.pp.getD [])) else some []) with
      | none => none
      | some psTexts =>
      match (if o.bpinfo.isSome then vs.mapM (fun v => bpinfoText V.a alifile v (v.sscons.getD [])) else some []) with
      | none => none
      | some bpTexts =>
      -- `count_msa` needs the consensus pairs as soon as --bpinfo is on and the alignment has SS_cons: an inconsistent structure is fatal there
      let needCt := needCt
      let per := vs.map fun v =>
        let cts := if needCt then (List.range v.alen).map (columnCountsW V.a o.noAmbig v.rows (v.rows.zipIdx.map fun ri => if v.cntW then v.wts.getD ri.2 1.0 else 1.0)) else []
        (v, cts)
      let out := (if o.oneLine then oneLineHeader else "") ++ String.join (vs.map (summaryText V o infmt))
      let file (opt : Option String) (f : AliView × List (List Float) → String) (note : String → String) : List (String × String) × String :=
        match opt with
        | some fn => ([(fn, String.join (per.map f))], note fn)
        | none => ([], "")
      let fl := file o.list (fun p => String.join (p.1.names.map fun n => bytesStr n ++ "\n"))
        (fun fn => "# List of sequences in " ++ toString vs.length ++ " alignment(s) saved to file " ++ fn ++ "\n")
      let fi := file o.icinfo (fun p => icinfoText V.a alifile p.1 p.2) (fun fn => "# Information content data saved to file " ++ fn ++ ".\n")
      let fr := file o.rinfo (fun p => rinfoText V.a alifile p.1 p.2) (fun fn => "# Residue data saved to file " ++ fn ++ ".\n")
      let fn_ := file o.iinfo (fun p => iinfoText V.a alifile p.1 (p.1.iamrf.getD [])) (fun fn => "# Insert data saved to file " ++ fn ++ ".\n")
      let fc := file o.cinfo (fun p => cinfoText V.a o.noAmbig alifile p.1 p.2) (fun fn => "# Per-column counts data saved to file " ++ fn ++ ".\n")
      let fpc : List (String × String) × String := match o.pcinfo with
        | some fn => ([(fn, String.join ((vs.zip ppcts).map fun (v, c) => pcinfoText alifile v (c.getD [])))],
                      "# Per-column posterior probability data saved to file " ++ fn ++ ".\n")
        | none => ([], "")
      let fps : List (String × String) × String := match o.psinfo with
        | some fn => ([(fn, String.join psTexts)], "# Per-sequence posterior probability data saved to file " ++ fn ++ ".\n")
        | none => ([], "")
      let fbp : List (String × String) × String := match o.bpinfo with
        | some fn => ([(fn, String.join bpTexts)], "# Per-column basepair counts data saved to file " ++ fn ++ ".\n")
        | none => ([], "")
      some (out ++ fl.2 ++ fi.2 ++ fr.2 ++ fpc.2 ++ fps.2 ++ fn_.2 ++ fc.2 ++ fbp.2, fl.1 ++ fi.1 ++ fr.1 ++ fpc.1 ++ fps.1 ++ fn_.1 ++ fc.1 ++ fbp.1)

/-! ## `easel alistat [-1]` on a Stockholm / Pfam file (`miniapps/cmd_alistat.c`): the format is GUESSED (C03 `guessFormat`), every
    alignment is summarised; with `-1` the record size of an alignment is printed one loop iteration LATE (it is the distance to
    the next alignment's offset, or to the end of the file), divided in binary32 by the residue count of the alignment it belongs to -/

def spanBytes (span : List Bytes) : Nat := (span.map fun l => l.length + 1).sum

def easelAlistatSto (V : AbcViews) (oneLine : Bool) (fname : String) (src : Bytes) : Option String :=
  let ls := EaselModel.Msafile.splitLines src
  match guessFormat (some (str fname)) ls with
  | .ok (fmt, _) =>
    if fmt != .stockholm && fmt != .pfam then none else
    let fmtName := if fmt == .pfam then "Pfam" else "Stockholm"
    match readAllSpans (stockholmRead (stockholmCfg (some V.f))) (ls.length + 2) ls [] with
    | none => none
    | some recs =>
      if recs.isEmpty || recs.any (fun r => !r.1.digital) || src.getLast? != some 10 || src.contains 13 then none else
      let offs := recs.foldl (fun (st : Nat × List Nat) r => (st.1 + spanBytes r.2, st.2 ++ [st.1])) (0, [])
      let lines := recs.mapIdx fun k r =>
        let m := r.1
        let crow := (m.ax.map fun x => ((x.drop 1).dropLast)).map fun row => row.map fun c => V.c.syms.getD c.toNat '-'
        let st := aliStats V.c crow
        let nm := match m.name with | some n => bytesStr n | none => "(null)"
        if oneLine then
          let off := offs.2.getD k 0
          let recsize := if k + 1 < recs.length then offs.2.getD (k + 1) 0 - off else src.length - off
          let ratio := fmtFloatSigned (Float32.ofNat recsize / Float32.ofNat st.nres).toFloat 2
          padRight 6 (toString (k + 1)) ++ " " ++ padRight 20 nm ++ " " ++ padLeft 10 fmtName ++ " " ++ padLeft 10 (toString st.nseq) ++ " " ++
            padLeft 10 (toString m.alen) ++ " " ++ padLeft 12 (toString st.nres) ++ " " ++ padLeft 6 (toString st.small) ++ " " ++
            padLeft 6 (toString st.large) ++ " " ++ padLeft 8 (avgLen st.nres st.nseq) ++ " " ++ padLeft 3 (pct0 (avgId V.c crow 1000)) ++ " " ++
            padLeft 12 (toString recsize) ++ " " ++ padLeft 10 ratio ++ "\n"
        else
          "Alignment name:      " ++ nm ++ "\n" ++
          "Format:              " ++ fmtName ++ "\n" ++
          "Alphabet:            " ++ V.c.typeName ++ "\n" ++
          "Number of sequences: " ++ toString st.nseq ++ "\n" ++
          "Alignment length:    " ++ toString m.alen ++ "\n" ++
          "Total # residues:    " ++ toString st.nres ++ "\n" ++
          "Smallest:            " ++ toString st.small ++ "\n" ++
          "Largest:             " ++ toString st.large ++ "\n" ++
          "Average length:      " ++ avgLen st.nres st.nseq ++ "\n" ++
          "Average identity:    " ++ pct0 (avgId V.c crow 1000) ++ "%\n//\n"
      some ((if oneLine then easelOneLineHeader else "") ++ String.join lines)
  | _ => none

/-! ## lemmas (shape: every counter vector keeps its `K+1` cells, every table has one line per column / RF position) -/

theorem foldl_set_length {α β : Type} (f : List α → β → List α) (h : ∀ l b, (f l b).length = l.length) (bs : List β) (l : List α) :
    (bs.foldl f l).length = l.length := by
  induction bs generalizing l with
  | nil => rfl
  | cons b bs ih => simp [List.foldl_cons, ih, h]

theorem dCount_length (A : Alphabet) (ct : List Float) (x : Nat) (wt : Float) : (dCount A ct x wt).length = ct.length := by
  unfold dCount
  split
  · simp
  · split
    · rfl
    · apply foldl_set_length
      intro l y
      split <;> simp

theorem columnCountsW_length (A : Alphabet) (noAmbig : Bool) (rows : List (List Nat)) (wts : List Float) (apos : Nat) :
    (columnCountsW A noAmbig rows wts apos).length = A.K + 1 := by
  unfold columnCountsW
  rw [foldl_set_length]
  · simp
  · intro l r
    simp only []
    split
    · exact dCount_length _ _ _ _
    · rfl

theorem columnCounts_length (A : Alphabet) (noAmbig : Bool) (rows : List (List Nat)) (apos : Nat) :
    (columnCounts A noAmbig rows apos).length = A.K + 1 := columnCountsW_length A noAmbig rows _ apos

/-- a canonical residue or a gap adds its weight to its own counter and to no other -/
theorem dCount_canonical (A : Alphabet) (ct : List Float) (x : Nat) (wt : Float) (hx : x ≤ A.K) (y : Nat) (hy : y ≠ x) :
    (dCount A ct x wt).getD y 0.0 = ct.getD y 0.0 := by
  have : (x < A.K || x == A.K) = true := by
    rcases Nat.lt_or_eq_of_le hx with h | h <;> simp [h]
  simp only [dCount, this, ↓reduceIte]
  simp [List.getD_eq_getElem?_getD, List.getElem?_set, Ne.symm hy]

/-- missing data (`~`) and the nonresidue (`*`) are not counted anywhere -/
theorem dCount_missing (A : Alphabet) (ct : List Float) (x : Nat) (wt : Float) (hK : A.K + 3 ≤ A.Kp)
    (hx : x = A.Kp - 1 ∨ x = A.Kp - 2) : dCount A ct x wt = ct := by
  have hlt : ¬ x < A.K := by rcases hx with h | h <;> omega
  have hne : x ≠ A.K := by rcases hx with h | h <;> omega
  have h1 : (x < A.K || x == A.K) = false := by simp [hlt, hne]
  have h2 : (x == A.Kp - 1 || x == A.Kp - 2) = true := by
    rcases hx with h | h <;> simp [h]
  simp [dCount, h1, h2]

theorem rfCells_fold_length (l : List Bool) (st : Nat × List String) :
    ((l.foldl (fun (st : Nat × List String) b =>
      if b then (st.1 + 1, ("  " ++ padLeft 7 (toString (st.1 + 1))) :: st.2) else (st.1, ("  " ++ padLeft 7 "-") :: st.2)) st).2).length
      = st.2.length + l.length := by
  induction l generalizing st with
  | nil => simp
  | cons b bs ih =>
    simp only [List.foldl_cons, List.length_cons]
    rw [ih]
    cases b <;> simp <;> omega

/-- one `rfpos` cell per alignment column -/
theorem rfCells_length (iamrf : List Bool) : (rfCells iamrf).length = iamrf.length := by
  unfold rfCells
  rw [List.length_reverse, rfCells_fold_length]
  simp

end EaselModel.Miniapps.Ali
