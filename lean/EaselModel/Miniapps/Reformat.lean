import EaselModel.Miniapps.Revcomp
/-! # C13 — esl-reformat between FASTA and aligned FASTA with the residue-conversion options -/
namespace EaselModel.Miniapps

/-- `symconvert(s, oldsyms, newsyms)`: a character found in `old` at index `i` becomes `new[i]`
    (or the single character of `new` when `new` has length 1) -/
def symconv (old new : List Char) (c : Char) : Char :=
  let i := old.idxOf c
  if i < old.length then (if new.length = 1 then new.headD c else new.getD i c) else c

def upperS : List Char := "ABCDEFGHIJKLMNOPQRSTUVWXYZ".toList
def lowerS : List Char := "abcdefghijklmnopqrstuvwxyz".toList

structure ReformatOpts where
  replace : Option (List Char × List Char) := none   -- --replace s1:s2
  lower : Bool := false     -- -l
  upper : Bool := false     -- -u
  rna : Bool := false       -- -r
  dna : Bool := false       -- -d
  iupacN : Bool := false    -- -n
  xbad : Bool := false      -- -x
  gapsym : Option Char := none   -- --gapsym (alignment output only)
  rename : Option (List Char) := none

/-- the per-residue conversions, in the order the tool applies them -/
def convChar (o : ReformatOpts) (aligned : Bool) (c : Char) : Char :=
  let c := match o.replace with | some (f, t) => symconv f t c | none => c
  let c := if aligned then (match o.gapsym with | some g => symconv "-_.".toList [g] c | none => c) else c
  let c := if o.lower then symconv upperS lowerS c else c
  let c := if o.upper then symconv lowerS upperS c else c
  let c := if o.rna then symconv "Tt".toList "Uu".toList c else c
  let c := if o.dna then symconv "Uu".toList "Tt".toList c else c
  let c := if o.iupacN then symconv "RYMKSWHBVDrymkswhbvd".toList "NNNNNNNNNNnnnnnnnnnn".toList c else c
  if o.xbad then symconv "Xx".toList "Nn".toList c else c

def renameRec (o : ReformatOpts) (i : Nat) (r : Rec) : Rec :=
  match o.rename with
  | some s => { r with name := s ++ '.' :: (toString (i + 1)).toList }
  | none => r

def isGapC (c : Char) : Bool := c = '-' || c = '_' || c = '.' || c = '~'

/-- unaligned output (`esl-reformat fasta`): residues converted, names kept (or renamed), 60 per line.
    `dealign` = the input was read from an alignment file (gap characters are not residues). -/
def reformatFasta (o : ReformatOpts) (dealign : Bool) (recs : List Rec) : List Rec :=
  recs.mapIdx fun i r =>
    let s := if dealign then r.seq.filter (fun c => !isGapC c) else r.seq
    renameRec o i { r with seq := s.map (convChar o false) }

/-- aligned output (`esl-reformat afa`): every row converted column by column, alignment length unchanged -/
def reformatAfa (o : ReformatOpts) (recs : List Rec) : List Rec :=
  recs.mapIdx fun i r => renameRec o i { r with seq := r.seq.map (convChar o true) }

/-- `--mingap` (drop the columns that are gaps in every row) / `--nogap` (drop the columns that contain any gap);
    gap characters are `-_.~`, decided on the input before any residue conversion -/
def keepColumns (nogap : Bool) (rows : List (List Char)) : List Bool :=
  let alen := (rows.headD []).length
  (List.range alen).map fun c =>
    if nogap then rows.all fun r => !isGapC (r.getD c '-')
    else rows.any fun r => !isGapC (r.getD c '-')

def selectCols (keep : List Bool) (row : List Char) : List Char :=
  (row.zip keep).filterMap fun p => if p.2 then some p.1 else none

def dropGapColumns (nogap : Bool) (recs : List Rec) : List Rec :=
  let keep := keepColumns nogap (recs.map (·.seq))
  recs.map fun r => { r with seq := selectCols keep r.seq }

theorem selectCols_length_le (keep : List Bool) (row : List Char) : (selectCols keep row).length ≤ row.length := by
  simp only [selectCols]
  exact Nat.le_trans (List.length_filterMap_le _ _) (by simp; omega)

/-- all rows keep the same length after column removal (they are cut by the same mask) -/
theorem selectCols_length_eq (keep : List Bool) (r₁ r₂ : List Char) (h : r₁.length = r₂.length) :
    (selectCols keep r₁).length = (selectCols keep r₂).length := by
  induction keep generalizing r₁ r₂ with
  | nil => simp [selectCols]
  | cons k ks ih =>
    cases r₁ with
    | nil =>
      cases r₂ with
      | nil => rfl
      | cons b t => simp at h
    | cons a t₁ =>
      cases r₂ with
      | nil => simp at h
      | cons b t₂ =>
        have ht : t₁.length = t₂.length := by simpa using h
        have := ih t₁ t₂ ht
        simp only [selectCols, List.zip_cons_cons, List.filterMap_cons] at *
        cases k <;> simp [this]

def reformatText (rs : List Rec) : String := String.ofList (renderFasta 60 rs)

/-! ## lemmas -/

theorem reformatFasta_length (o : ReformatOpts) (d : Bool) (recs : List Rec) :
    (reformatFasta o d recs).length = recs.length := by simp [reformatFasta]

theorem reformatAfa_length (o : ReformatOpts) (recs : List Rec) :
    (reformatAfa o recs).length = recs.length := by simp [reformatAfa]

theorem renameRec_seq (o : ReformatOpts) (i : Nat) (r : Rec) : (renameRec o i r).seq = r.seq := by
  unfold renameRec; split <;> rfl

theorem renameRec_none (o : ReformatOpts) (h : o.rename = none) (i : Nat) (r : Rec) : renameRec o i r = r := by
  simp [renameRec, h]

/-- with no conversion option, no character changes -/
theorem convChar_id (al : Bool) (c : Char) : convChar {} al c = c := by
  cases al <;> simp [convChar]

theorem symconv_not_mem (old new : List Char) (c : Char) (h : c ∉ old) : symconv old new c = c := by
  have : old.idxOf c = old.length := List.idxOf_eq_length h
  simp [symconv, this]

theorem upper_lands : ∀ c ∈ lowerS, symconv lowerS upperS c ∉ lowerS := by decide

/-- `-u` twice = `-u` once -/
theorem upper_idem (c : Char) : symconv lowerS upperS (symconv lowerS upperS c) = symconv lowerS upperS c := by
  by_cases h : c ∈ lowerS
  · exact symconv_not_mem _ _ _ (upper_lands c h)
  · rw [symconv_not_mem _ _ c h, symconv_not_mem _ _ c h]

theorem rna_dna_TU : ∀ c ∈ "Tt".toList, symconv "Uu".toList "Tt".toList (symconv "Tt".toList "Uu".toList c) = c := by decide

/-- `-r` (T→U) followed by `-d` (U→T) gives the residue back unless it was a `U`/`u` already -/
theorem rna_dna (c : Char) (h : c ∉ "Uu".toList) :
    symconv "Uu".toList "Tt".toList (symconv "Tt".toList "Uu".toList c) = c := by
  by_cases ht : c ∈ "Tt".toList
  · exact rna_dna_TU c ht
  · rw [symconv_not_mem _ _ c ht, symconv_not_mem _ _ c h]

end EaselModel.Miniapps
