import EaselModel.Gencode.Model
import EaselModel.Gencode.NcbiTables
import EaselModel.Miniapps.Fasta
/-! # C13 — esl-translate = the C17 ORF machine (`EaselModel.Gencode`) over every sequence of a FASTA file

Composition only: the six-frame ORF enumeration, the genetic-code tables and their theorems are C17's
(`EaselModel/Gencode/*`, `Props/C17.lean`); the code table for `-c <id>` is the hand-pinned NCBI table
(`Gencode.Ncbi.pinned`), i.e. "under the chosen code" means the NCBI definition, not whatever the tree contains. -/
namespace EaselModel.Miniapps
open EaselModel.Alphabet EaselModel.Gencode

def emptyAbc : Alphabet :=
  { type := 0, K := 0, Kp := 0, sym := [], inmap := [], degen := [], ndegen := [], complement := none }

def NT : Alphabet := (Alphabet.createDna).getD emptyAbc
def AA : Alphabet := (Alphabet.createAmino).getD emptyAbc

/-- `esl_gencode_Set(gcode, id)` against the pinned NCBI tables -/
def ncbiCode (id : Int) : Option Gencode :=
  (Ncbi.pinned.find? (fun p => p.1 = id)).map fun p =>
    { translTable := p.1, desc := "", basic := Ncbi.basicOf p.2.1, isInit := Ncbi.initOf p.2.2 }

structure TranslOpts where
  code : Int := 1
  minlen : Int := 20
  onlyAUG : Bool := false     -- -m
  tableInit : Bool := false   -- -M
  watson : Bool := true
  crick : Bool := true
  windows : Bool := false     -- -W: esl_sqio_ReadWindow(C=2, W=4092) instead of whole sequences

/-- window sizes `ReadWindow` delivers for a sequence of `L` residues: 4092, 4092, …, remainder -/
def windowCuts (L : Nat) : List Nat :=
  let w := 4092
  (List.replicate (L / w) w) ++ (if L % w = 0 then [] else [L % w])

def orfRecord (name desc : List Char) (o : Orf) : Rec :=
  { name := ("orf" ++ toString o.num).toList
    desc := ("source=" ++ String.ofList name ++ " coords=" ++ toString o.start ++ ".." ++ toString o.stop ++
             " length=" ++ toString o.aa.length ++ " frame=" ++ toString o.frame ++ " desc=" ++ String.ofList desc).toList
    seq := o.aa.map fun x => Char.ofNat (AA.sym.getD x 63) }

/-- `do_by_sequences`: both strands of every sequence with at least 3 residues; `orfcount` runs through the whole file -/
def translateSeqs (g : Gencode) (cfg : Cfg) (o : TranslOpts) : List Rec → Work → List Rec → Option (List Rec)
  | [], _, acc => some acc.reverse
  | r :: rs, w, acc => do
    let (st, dsq) := NT.digitize (r.seq.map Char.toNat)
    if st ≠ .ok then none
    let L := dsq.length - 2
    if L < 3 then translateSeqs g cfg o rs w acc
    else
      let d := (dsq.drop 1).take L
      let w0 : Work := { w with c := { w.c with out := [] } }
      let cuts := if o.windows then windowCuts L else [L]
      let w1 ← if o.watson then runStrand NT AA g cfg w0 false d cuts else some w0
      let w2 ← if o.crick then do
          let rc ← match NT.revcomp dsq L with
            | .ok (some x) => some x
            | _ => none
          runStrand NT AA g cfg w1 true ((rc.drop 1).take L) cuts
        else some w1
      let recs := w2.c.out.reverse.map (orfRecord r.name r.desc)
      translateSeqs g cfg o rs w2 (recs.reverse ++ acc)

def translateText (o : TranslOpts) (recs : List Rec) : Option String := do
  let g0 ← ncbiCode o.code
  let g := if o.onlyAUG then setInitiatorOnlyAUG NT g0 else if !o.tableInit then setInitiatorAny AA g0 else g0
  let cfg : Cfg := { usingInit := o.onlyAUG || o.tableInit, minlen := o.minlen }
  let out ← translateSeqs g cfg o recs {} []
  some (String.ofList (renderFasta 60 out))

end EaselModel.Miniapps
