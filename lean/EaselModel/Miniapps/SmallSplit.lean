import EaselModel.Miniapps.SmallLemmas
/-! # C13 — `esl-alimanip --small --seq-k <list>` and `--seq-r <list>` split an alignment: every row goes to exactly one of the two outputs -/
namespace EaselModel.Miniapps.Small
open EaselModel.Miniapps

/-- the keep configuration and the skip configuration of the same list disagree on every name -/
theorem wants_keep_skip (l : List Line) (name : Line) :
    ({ keep := some l } : Cfg).wants name = !({ skip := some l } : Cfg).wants name := by
  simp [Cfg.wants]

/-- row counts: `nseq_regurged(--seq-k) + nseq_regurged(--seq-r) = nseq_read` -/
theorem wanted_keep_skip_length (l : List Line) (rows : List Row) :
    (wanted { keep := some l } rows).length + (wanted { skip := some l } rows).length = rows.length := by
  induction rows with
  | nil => simp [wanted]
  | cons r rs ih =>
    simp only [wanted, List.filter_cons] at ih ⊢
    rw [wants_keep_skip l r.name]
    cases h : ({ skip := some l } : Cfg).wants r.name <;> simp [h] <;> omega

/-- a row is in the `--seq-k` output or in the `--seq-r` output, never in both -/
theorem wanted_keep_skip_mem (l : List Line) (rows : List Row) (r : Row) (hr : r ∈ rows) :
    (r ∈ wanted { keep := some l } rows ∧ r ∉ wanted { skip := some l } rows) ∨
    (r ∉ wanted { keep := some l } rows ∧ r ∈ wanted { skip := some l } rows) := by
  simp only [wanted, List.mem_filter, hr, true_and]
  rw [wants_keep_skip l r.name]
  cases h : ({ skip := some l } : Cfg).wants r.name <;> simp [h]

/-- the kept rows are exactly the rows whose name is on the list (the definition of `--seq-k`) -/
theorem wanted_keep_iff (l : List Line) (rows : List Row) (r : Row) :
    r ∈ wanted { keep := some l } rows ↔ r ∈ rows ∧ r.name ∈ l := by
  simp [wanted, Cfg.wants, List.mem_filter]

end EaselModel.Miniapps.Small
