import EaselModel.Miniapps.Selectn
import EaselModel.Miniapps.Fasta
import EaselModel.Random.Choose
import EaselModel.Shuffle.WinParams
/-! # C13 — esl-shuffle (`-m`, `-k`, `-w`, `-r`, `-N`, `-L`, `-G`) and `easel downsample`, driven by the C09 generator models

Every shuffler is a sequence of swaps whose positions come from an arbitrary roll function with state `σ`
(theorems: for EVERY roll function the output is a permutation of the input); the executable instance plugs in the
bit-identical MT19937 model, so `--seed n` output is predicted exactly. -/
namespace EaselModel.Miniapps
open EaselModel.Random

variable {α σ : Type}

/-- swap two positions (no-op when out of bounds; in the C code the indices are always in bounds) -/
def swapAt (a : Array α) (i j : Nat) : Array α :=
  if h : i < a.size ∧ j < a.size then a.swap i j h.1 h.2 else a

theorem swapAt_perm (a : Array α) (i j : Nat) : (swapAt a i j).Perm a := by
  unfold swapAt; split
  · exact Array.swap_perm _ _
  · exact Array.Perm.refl _

theorem swapAt_size (a : Array α) (i j : Nat) : (swapAt a i j).size = a.size := by
  unfold swapAt; split <;> simp

/-- `esl_rsq_CShuffle`: `while (L > 1) { i = Roll(L); swap(i, L-1); L--; }` (also the word loop of `CShuffleKmers`) -/
def shuffleLoop (roll : σ → Nat → Nat × σ) : Nat → Array α → σ → Array α × σ
  | 0, a, s => (a, s)
  | L + 1, a, s =>
    if L + 1 > 1 then
      let rs := roll s (L + 1)
      shuffleLoop roll L (swapAt a rs.1 L) rs.2
    else (a, s)

def cshuffle (roll : σ → Nat → Nat × σ) (x : List α) (s : σ) : List α × σ :=
  let r := shuffleLoop roll x.length x.toArray s
  (r.1.toList, r.2)

/-- `esl_rsq_CShuffleKmers`: the first `L mod K` residues stay, the `L / K` words are shuffled as units -/
def kmerWords (K : Nat) (x : List α) : List (List α) :=
  (List.range (x.length / K)).map fun w => (x.drop (x.length % K + w * K)).take K

def cshuffleKmers (roll : σ → Nat → Nat × σ) (K : Nat) (x : List α) (s : σ) : List α × σ :=
  let ws := kmerWords K x
  let r := shuffleLoop roll ws.length ws.toArray s
  (x.take (x.length % K) ++ r.1.toList.flatten, r.2)

/-- inner loop of `esl_rsq_CShuffleWindows`: `for (j = hi; j > i; j--) { k = i + Roll(j-i+cWinD); swap(k, j); }`.
    The roll range `j-i+cWinD` is NOT hard-coded: `EaselModel.Shuffle.cWinD` is regenerated from `esl_randomseq.c` of the
    working tree on every run (`Shuffle/WinParams.lean`, shared with C18), so the predicted `esl-shuffle -w` text follows
    the tree (`Roll(j-i)` on the pinned tree, `Roll(j-i+1)` once the range is corrected). -/
def windowInner (roll : σ → Nat → Nat × σ) (i : Nat) : Nat → Array α → σ → Array α × σ
  | 0, a, s => (a, s)
  | d + 1, a, s =>          -- j = i + d + 1
    let rs := roll s (d + 1 + EaselModel.Shuffle.cWinD)
    windowInner roll i d (swapAt a (i + rs.1) (i + d + 1)) rs.2

def windowOuter (roll : σ → Nat → Nat × σ) (w L : Nat) : Nat → Nat → Array α → σ → Array α × σ
  | 0, _, a, s => (a, s)
  | fuel + 1, i, a, s =>
    if i < L then
      let hi := min (L - 1) (i + w - 1)
      let r := windowInner roll i (hi - i) a s
      windowOuter roll w L fuel (i + w) r.1 r.2
    else (a, s)

def cshuffleWindows (roll : σ → Nat → Nat × σ) (w : Nat) (x : List α) (s : σ) : List α × σ :=
  let r := windowOuter roll w x.length x.length 0 x.toArray s
  (r.1.toList, r.2)

/-! ## permutation theorems, for every roll function -/

theorem shuffleLoop_perm (roll : σ → Nat → Nat × σ) (L : Nat) (a : Array α) (s : σ) :
    (shuffleLoop roll L a s).1.Perm a := by
  induction L generalizing a s with
  | zero => exact Array.Perm.refl _
  | succ L ih =>
    unfold shuffleLoop
    split
    · exact (ih _ _).trans (swapAt_perm _ _ _)
    · exact Array.Perm.refl _

theorem cshuffle_perm (roll : σ → Nat → Nat × σ) (x : List α) (s : σ) : (cshuffle roll x s).1.Perm x := by
  have := shuffleLoop_perm roll x.length x.toArray s
  simpa [cshuffle] using Array.Perm.toList this

theorem windowInner_perm (roll : σ → Nat → Nat × σ) (i d : Nat) (a : Array α) (s : σ) :
    (windowInner roll i d a s).1.Perm a := by
  induction d generalizing a s with
  | zero => exact Array.Perm.refl _
  | succ d ih => unfold windowInner; exact (ih _ _).trans (swapAt_perm _ _ _)

theorem windowOuter_perm (roll : σ → Nat → Nat × σ) (w L fuel i : Nat) (a : Array α) (s : σ) :
    (windowOuter roll w L fuel i a s).1.Perm a := by
  induction fuel generalizing i a s with
  | zero => exact Array.Perm.refl _
  | succ f ih =>
    unfold windowOuter
    split
    · exact (ih _ _ _).trans (windowInner_perm _ _ _ _ _)
    · exact Array.Perm.refl _

theorem cshuffleWindows_perm (roll : σ → Nat → Nat × σ) (w : Nat) (x : List α) (s : σ) :
    (cshuffleWindows roll w x s).1.Perm x := by
  have := windowOuter_perm roll w x.length x.length 0 x.toArray s
  simpa [cshuffleWindows] using Array.Perm.toList this

/-! ## k-mer shuffling keeps the composition too -/

theorem words_flatten {α : Type} (K W : Nat) (y : List α) (h : y.length = W * K) :
    ((List.range W).map fun w => (y.drop (w * K)).take K).flatten = y := by
  induction W generalizing y with
  | zero =>
    have : y = [] := List.length_eq_zero_iff.mp (by simpa using h)
    simp [this]
  | succ W ih =>
    rw [List.range_succ_eq_map, List.map_cons, List.map_map, List.flatten_cons]
    have hlen : (y.drop K).length = W * K := by
      rw [List.length_drop, h, Nat.succ_mul]; omega
    have e : ((fun w => (y.drop (w * K)).take K) ∘ Nat.succ) = fun w => ((y.drop K).drop (w * K)).take K := by
      funext w
      simp only [Function.comp, List.drop_drop, Nat.succ_mul]
      congr 2; omega
    rw [e, ih (y.drop K) hlen]
    simp

theorem kmerWords_flatten {α : Type} (K : Nat) (x : List α) :
    x.take (x.length % K) ++ (kmerWords K x).flatten = x := by
  have hy : (x.drop (x.length % K)).length = (x.length / K) * K := by
    rw [List.length_drop]
    have := Nat.div_add_mod x.length K
    rw [Nat.mul_comm] at this
    omega
  have e : kmerWords K x = (List.range (x.length / K)).map fun w => ((x.drop (x.length % K)).drop (w * K)).take K := by
    simp only [kmerWords, List.drop_drop]
  rw [e, words_flatten K _ _ hy, List.take_append_drop]

theorem cshuffleKmers_perm {α σ : Type} (roll : σ → Nat → Nat × σ) (K : Nat) (x : List α) (s : σ) :
    (cshuffleKmers roll K x s).1.Perm x := by
  have hp := Array.Perm.toList (shuffleLoop_perm roll (kmerWords K x).length (kmerWords K x).toArray s)
  have hf : ((shuffleLoop roll (kmerWords K x).length (kmerWords K x).toArray s).1.toList).flatten.Perm (kmerWords K x).flatten :=
    List.Perm.flatten (by simpa using hp)
  have := (List.Perm.append_left (x.take (x.length % K)) hf)
  rw [kmerWords_flatten K x] at this
  simpa [cshuffleKmers] using this

/-! ## the tool -/

structure ShufOpts where
  mode : String := "-m"     -- -m | -k | -w | -r
  k : Nat := 1
  w : Nat := 1
  N : Nat := 1
  L : Nat := 0

def shuffleOne (o : ShufOpts) (targ : List Char) (r : Rng) : List Char × Rng :=
  match o.mode with
  | "-m" => cshuffle rollRng targ r
  | "-k" => cshuffleKmers rollRng o.k targ r
  | "-w" => cshuffleWindows rollRng o.w targ r
  | "-r" => (targ.reverse, r)
  | _ => (targ, r)

/-- the `for (i = 0; i < N; i++)` loop for one input sequence -/
def shuffleSamples (o : ShufOpts) (r : Rec) : Nat → Nat → Rng → List Rec → List Rec × Rng
  | 0, _, g, acc => (acc.reverse, g)
  | n + 1, i, g, acc =>
    let (targ, g) :=
      if o.L > 0 then
        let ps := rollRng g (r.seq.length - o.L + 1)
        ((r.seq.drop ps.1).take o.L, ps.2)
      else (r.seq, g)
    let (sh, g) := shuffleOne o targ g
    let nm := r.name ++ (if o.N > 1 then ("-shuffled-" ++ toString i).toList else "-shuffled".toList)
    shuffleSamples o r n (i + 1) g ({ name := nm, desc := [], seq := sh } :: acc)

def shuffleAll (o : ShufOpts) : List Rec → Rng → List Rec
  | [], _ => []
  | r :: rs, g =>
    if o.L > 0 ∧ r.seq.length < o.L then shuffleAll o rs g
    else
      let (out, g) := shuffleSamples o r o.N 0 g []
      out ++ shuffleAll o rs g

def shuffleText (seed : Nat) (o : ShufOpts) (recs : List Rec) : String :=
  String.ofList (renderFasta 60 (shuffleAll o recs (Rng.create .mersenne (UInt32.ofNat seed))))

/-- `-G --dna|--rna`: `esl_rsq_xIID` with p = 0.25 each through `esl_rnd_DChoose` -/
def genIID (syms : List Char) : Nat → Rng → List Char → List Char × Rng
  | 0, g, acc => (acc.reverse, g)
  | n + 1, g, acc =>
    let (x, g) := g.randomNum
    let i := (dchoose (Float.ofNat x / 4294967296.0) [0.25, 0.25, 0.25, 0.25]).getD 0
    genIID syms n g (syms.getD i 'N' :: acc)

def generateAll (syms : List Char) (N L : Nat) : Nat → Rng → List Rec
  | 0, _ => []
  | n + 1, g =>
    let i := N - (n + 1)
    let (s, g) := genIID syms L g []
    { name := if N > 1 then ("random" ++ toString i).toList else "random".toList, desc := [], seq := s } ::
      generateAll syms N L n g

def generateText (seed : Nat) (syms : List Char) (N L : Nat) : String :=
  String.ofList (renderFasta 60 (generateAll syms N L N (Rng.create .mersenne (UInt32.ofNat seed))))

/-! ## easel downsample (lines): the esl-selectn reservoir over the 64-bit generator -/

def rollRng64 (r : Rng64) (n : Nat) : Nat × Rng64 :=
  match r.roll n 1000000 with
  | some x => x
  | none => (0, r)

/-- lines as `esl_buffer_GetLine` returns them (terminator `\n` or `\r\n` stripped; no empty line after a final newline) -/
def bufferLines (f : List Char) : List (List Char) :=
  (fileLines f).map fun l => if l.getLast? = some '\r' then l.dropLast else l

def downsampleLinesText (seed m : Nat) (file : List Char) : Option String :=
  let ls := bufferLines file
  if ls.length < m then none
  else some (String.ofList (unlines (selectn rollRng64 m ls (Rng64.create (UInt64.ofNat seed)))))

def downsampleSeqsText (seed m : Nat) (recs : List Rec) : Option String :=
  if recs.length < m then none
  else some (String.ofList (renderFasta 60 (selectn rollRng64 m recs (Rng64.create (UInt64.ofNat seed)))))

/-! ## esl-shuffle -A: whole-alignment shuffles act on columns -/

def transposeCols (rows : List (List Char)) : List (List Char) :=
  (List.range (rows.headD []).length).map fun c => rows.map fun r => r.getD c '-'

def untransposeCols (cols : List (List Char)) (nrows : Nat) : List (List Char) :=
  (List.range nrows).map fun i => cols.map fun col => col.getD i '-'

/-- `esl_msashuffle_Shuffle`: the `esl_rsq_CShuffle` loop over alignment columns -/
def msaColShuffle {σ : Type} (roll : σ → Nat → Nat × σ) (rows : List (List Char)) (s : σ) : List (List Char) × σ :=
  let r := cshuffle roll (transposeCols rows) s
  (untransposeCols r.1 rows.length, r.2)

/-- `esl_msashuffle_Bootstrap`: every output column is an independently drawn input column -/
def bootstrapCols {σ : Type} (roll : σ → Nat → Nat × σ) (cols : Array (List Char)) : Nat → σ → List (List Char) → List (List Char) × σ
  | 0, s, acc => (acc.reverse, s)
  | n + 1, s, acc =>
    let rs := roll s cols.size
    bootstrapCols roll cols n rs.2 (cols.getD rs.1 [] :: acc)

def msaBootstrap {σ : Type} (roll : σ → Nat → Nat × σ) (rows : List (List Char)) (s : σ) : List (List Char) × σ :=
  let cols := transposeCols rows
  let r := bootstrapCols roll cols.toArray cols.length s []
  (untransposeCols r.1 rows.length, r.2)

/-- the shuffled columns are a permutation of the input columns, for every roll function -/
theorem msaColShuffle_cols_perm {σ : Type} (roll : σ → Nat → Nat × σ) (rows : List (List Char)) (s : σ) :
    (cshuffle roll (transposeCols rows) s).1.Perm (transposeCols rows) := cshuffle_perm roll _ s

def msaShuffleSamples (boot : Bool) (rows : List (List Char)) : Nat → Rng → List (List (List Char)) → List (List (List Char))
  | 0, _, acc => acc.reverse
  | n + 1, g, acc =>
    let r := if boot then msaBootstrap rollRng rows g else msaColShuffle rollRng rows g
    msaShuffleSamples boot rows n r.2 (r.1 :: acc)

/-- `easel downsample -S`: reservoir over the record offsets, sorted back into file order -/
def downsampleBigIndices (seed m n : Nat) : List Nat :=
  ((selectn rollRng64 m (List.range n) (Rng64.create (UInt64.ofNat seed))).toArray.qsort (· < ·)).toList

end EaselModel.Miniapps
