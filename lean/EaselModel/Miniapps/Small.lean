import EaselModel.Miniapps.Alimask
import EaselModel.Miniapps.Reformat
/-! # C13 — the `--small` (memory-efficient, Pfam-only) paths of esl-reformat / esl-alimask / esl-alimanip / esl-alistat

These paths never build an `ESL_MSA`: they stream the file line by line. Modelled line by line here

* `esl_msafile2_RegurgitatePfam` (esl_msafile2.c) as the tools call it (all margins `-1`: the spacing of the input is kept;
  everything regurgitated; optional sequence keep/skip list; optional column mask with base-pair repair of `SS_cons` / `SS`):
  `regurgitate`;
* `regurgitate_pfam_as_pfam` of esl-reformat.c without the WUSS options: `reformatSmallPfam`;
* the two passes of esl-reformat's Pfam -> aligned FASTA path (`#=GS AC` / `#=GS DE` queues, 60 residues per line): `reformatSmallAfa`.

The PREDICTION of a `--small` invocation is the non-small reference on the same file wherever the two modes promise the same
bytes (aligned FASTA out); where the small mode keeps the input's spacing (Pfam out) the prediction is the model below, and
`Props.C13` relates it to the non-small reference: same names, same residues/columns, in the same order.
A file is a list of lines (no `'\n'` inside a line; the generator writes no `'\r'`). -/
namespace EaselModel.Miniapps.Small
open EaselModel.Miniapps

/-- the delimiter set `" \t\n\r"` of `esl_strtok` as these functions use it -/
def isDelim (c : Char) : Bool := c = ' ' || c = '\t' || c = '\n' || c = '\r'

/-- `esl_strtok_adv(&s, " \t\n\r", &tok, &toklen, NULL)`: skip delimiters, the token is the maximal run of non-delimiters,
    ONE delimiter after it is consumed. `none` = `eslEOL`. -/
def tok (s : Line) : Option (Line × Line) :=
  let s1 := s.dropWhile isDelim
  if s1.isEmpty then none
  else some (s1.takeWhile (fun c => !isDelim c), (s1.dropWhile (fun c => !isDelim c)).drop 1)

/-- `esl_strtok(&s, "\n\r", &text)`: the rest of the line -/
def tokEol (s : Line) : Option Line :=
  let s1 := s.dropWhile (fun c => c = '\n' || c = '\r')
  if s1.isEmpty then none else some (s1.takeWhile (fun c => !(c = '\n' || c = '\r')))

/-- `determine_spacelen` -/
def spacelen (s : Line) : Nat := (s.takeWhile (· = ' ')).length

/-- `%-*s` -/
def padR (w : Nat) (s : Line) : Line := s ++ List.replicate (w - s.length) ' '

/-- `shrink_string(text, useme, len)` -/
def shrink (useme : List Bool) (text : Line) : Line := ((text.zip useme).filter (·.2)).map (·.1)

def startsWith (s : Line) (p : String) : Bool := p.toList.isPrefixOf s

structure Cfg where
  keep : Option (List Line) := none      -- `seqs2regurg`
  skip : Option (List Line) := none      -- `seqs2skip`
  useme : Option (List Bool) := none     -- columns to keep
  nucleic : Bool := true                 -- `afp->abc` is RNA or DNA: broken base pairs are removed from SS_cons / SS first

/-- the three-way test repeated at every #=GS / #=GR / sequence line -/
def Cfg.wants (c : Cfg) (name : Line) : Bool :=
  match c.keep, c.skip with
  | some k, _ => k.contains name
  | none, some s => !s.contains name
  | none, none => true

structure St where
  out : List Line := []                  -- reversed
  expAlen : Option Nat := none           -- `exp_alen` (-1 = none)
  first : Option Line := none
  nread : Nat := 0
  nregurged : Nat := 0

inductive Step where
  | cont (s : St)
  | done (s : St)
  | fail

def toBytes (l : Line) : List UInt8 := l.map fun c => UInt8.ofNat c.toNat
def ofBytes (b : List UInt8) : Line := b.map fun x => Char.ofNat x.toNat

/-- `esl_msa_RemoveBrokenBasepairsFromSS` (C15 model) then `shrink_string`; `none` = the structure line is refused -/
def maskText (c : Cfg) (isSS : Bool) (text : Line) : Option Line :=
  match c.useme with
  | none => some text
  | some u =>
    if isSS && c.nucleic then
      match EaselModel.Msa.removeBrokenFromSS (toBytes text) u with
      | .ok t => some (shrink u (ofBytes t))
      | .error _ => none
    else some (shrink u text)

/-- the length test of the #=GC / #=GR lines: `if (exp_alen == -1) exp_alen = textlen; else if (exp_alen != textlen) fail` -/
def checkSet (st : St) (n : Nat) : Option St :=
  match st.expAlen with
  | none => some { st with expAlen := some n }
  | some e => if e = n then some st else none

/-- one line of the record body (after the header line) -/
def lineStep (c : Cfg) (st : St) (buf : Line) : Step :=
  let s := buf.dropWhile fun ch => ch = ' ' || ch = '\t'
  let emit (l : Line) (st : St) : St := { st with out := l :: st.out }
  if s.head? = some '#' then
    if startsWith s "#=GF" then .cont (emit buf st)
    else if startsWith s "#=GC" then
      match tok buf with
      | none => .fail
      | some (_, r1) =>
        match tok r1 with
        | none => .fail
        | some (tag, r2) =>
          let sp := spacelen r2
          match tok r2 with
          | none => .fail
          | some (text, _) =>
            match checkSet st text.length with
            | none => .fail
            | some st =>
              match maskText c (startsWith tag "SS_cons") text with
              | none => .fail
              | some t => .cont (emit ("#=GC ".toList ++ padR (tag.length + sp) tag ++ ' ' :: t) st)
    else if startsWith s "#=GS" then
      if c.keep.isNone && c.skip.isNone then .cont (emit buf st)
      else
        match tok buf with
        | none => .fail
        | some (_, r1) =>
          match tok r1 with
          | none => .fail
          | some (name, r2) =>
            match tok r2 with
            | none => .fail
            | some (tag, r3) =>
              match tokEol r3 with
              | none => .fail
              | some text =>
                if c.wants name then .cont (emit ("#=GS ".toList ++ padR 1 name ++ ' ' :: tag ++ ' ' :: text) st)
                else .cont st
    else if startsWith s "#=GR" then
      match tok buf with
      | none => .fail
      | some (_, r1) =>
        match tok r1 with
        | none => .fail
        | some (name, r2) =>
          let sp := spacelen r2
          match tok r2 with
          | none => .fail
          | some (tag, r3) =>
            let sp2 := spacelen r3
            match tok r3 with
            | none => .fail
            | some (text, _) =>
              match checkSet st text.length with
              | none => .fail
              | some st =>
                if c.wants name then
                  match maskText c (startsWith tag "SS") text with
                  | none => .fail
                  | some t => .cont (emit ("#=GR ".toList ++ padR (name.length + sp) name ++ ' ' :: padR (tag.length + sp2) tag ++ ' ' :: t) st)
                else .cont st
    else .cont (emit buf st)
  else if startsWith s "//" then .done (emit buf st)
  else if s.isEmpty || s.head? = some '\r' then .cont (emit buf st)
  else
    match tok buf with
    | none => .fail
    | some (name, r1) =>
      let sp := spacelen r1
      match tok r1 with
      | none => .fail
      | some (text, _) =>
        if st.expAlen.isSome && st.expAlen != some text.length then .fail
        else if st.nread != 0 && st.first = some name then .fail
        else
          let st := { st with first := if st.nread = 0 then some name else st.first, nread := st.nread + 1 }
          if c.wants name then
            match maskText c false text with
            | none => .fail
            | some t => .cont (emit (padR (name.length + sp) name ++ ' ' :: t) { st with nregurged := st.nregurged + 1 })
          else .cont st

def isBlankLine (l : Line) : Bool := l.all fun c => c = ' ' || c = '\t' || c = '\r' || c = '\x0b' || c = '\x0c'

def body (c : Cfg) : St → List Line → Option (St × List Line)
  | _, [] => none                                   -- "didn't find // at end of alignment"
  | st, l :: ls =>
    match lineStep c st l with
    | .cont st => body c st ls
    | .done st => some (st, ls)
    | .fail => none

/-- what one call does. `Except`: `.error true` = `eslEOF` (no more records), `.error false` = a format error. -/
def regurgitate (c : Cfg) (expAlen : Option Nat) (ls : List Line) : Except Bool (List Line × Nat × Nat × List Line) :=
  match ls.dropWhile isBlankLine with
  | [] => .error true
  | h :: rest =>
    if !startsWith h "# STOCKHOLM 1." then .error false
    else
      match body c { out := [h], expAlen := expAlen } rest with
      | none => .error false
      | some (st, rest) => .ok (st.out.reverse, st.nread, st.nregurged, rest)

/-- `esl-alimanip --small --seq-k|--seq-r <list>`: every record of the file, with the sequence-count check of the tool
    (`none` = the tool stops with a message) -/
def alimanipSmall (keepMode : Bool) (names : List Line) : Nat → List Line → Option (List Line)
  | 0, _ => none
  | fuel + 1, ls =>
    let c : Cfg := if keepMode then { keep := some names } else { skip := some names }
    match regurgitate c none ls with
    | .error true => some []
    | .error false => some []          -- the loop of the tool ends silently on any non-OK status
    | .ok (out, nread, nreg, rest) =>
      if keepMode && nreg != names.length then none
      else if !keepMode && nread - nreg != names.length then none
      else (alimanipSmall keepMode names fuel rest).map (out ++ ·)

/-! ## esl-reformat --small -/

/-- `esl_memtok(&p, &n, " \t", …)` -/
def isSpTab' (c : Char) : Bool := c = ' ' || c = '\t'
def mtok (s : Line) : Option (Line × Line) :=
  let s1 := s.dropWhile isSpTab'
  if s1.isEmpty then none
  else some (s1.takeWhile (fun c => !isSpTab' c), s1.dropWhile (fun c => !isSpTab' c))

/-- `regurgitate_pfam_as_pfam` (no WUSS option): every line as it is, except that a sequence line's residues are converted;
    `%.*s%*s%s`: name, the original run of blanks, converted text -/
def reformatSmallPfamBody (o : ReformatOpts) : Option Nat → Option Line → Nat → List Line → List Line → Option (List Line × List Line)
  | _, _, _, [], _ => none
  | ea, first, nread, l :: ls, acc =>
    let p := l.dropWhile isSpTab'
    if p.isEmpty then reformatSmallPfamBody o ea first nread ls ([] :: acc)
    else if startsWith p "//" then some (("//".toList :: acc).reverse, ls)
    else if p.head? = some '#' then reformatSmallPfamBody o ea first nread ls (l :: acc)
    else
      match mtok p with
      | none => none
      | some (name, r1) =>
        match mtok r1 with
        | none => none
        | some (text, _) =>
          let lead := l.length - p.length                       -- leading blanks skipped
          let pos := lead + name.length + (r1.takeWhile isSpTab').length     -- `text - afp->line`
          if ea.isSome && ea != some text.length then none
          else if nread != 0 && first = some name then none
          else
            let outl := name ++ List.replicate (pos - name.length) ' ' ++ text.map (convChar o true)
            reformatSmallPfamBody o (some text.length) (if nread = 0 then some name else first) (nread + 1) ls (outl :: acc)

/-- header loop: lines are echoed until the `# STOCKHOLM` line (blank and comment lines before it are echoed too) -/
def reformatSmallPfamHead : List Line → List Line → Option (List Line × List Line)
  | [], _ => none
  | l :: ls, acc =>
    if l.all isSpTab' || (startsWith l "#" && !startsWith l "# STOCKHOLM") then reformatSmallPfamHead ls (l :: acc)
    else some ((l :: acc).reverse, ls)

def reformatSmallPfamOne (o : ReformatOpts) (ls : List Line) : Option (List Line × List Line) :=
  match reformatSmallPfamHead ls [] with
  | none => none
  | some (hd, rest) =>
    match reformatSmallPfamBody o none none 0 rest [] with
    | none => none
    | some (bd, rest) => some (hd ++ bd, rest)

/-- the `while ((status = regurgitate_pfam_as_pfam(...)) != eslEOF)` loop: every record; blank / comment lines after the last
    record are echoed by the header loop before it meets the end of the file -/
def reformatSmallPfamAll (o : ReformatOpts) : Nat → List Line → Option (List Line)
  | 0, _ => none
  | fuel + 1, ls =>
    if ls.all (fun l => l.all isSpTab' || (startsWith l "#" && !startsWith l "# STOCKHOLM")) then some ls
    else
      match reformatSmallPfamOne o ls with
      | none => none
      | some (out, rest) => (reformatSmallPfamAll o fuel rest).map (out ++ ·)

/-- pass 1 of Pfam -> afa: the `#=GS <name> AC <acc>` and `#=GS <name> DE <text>` lines of the record, in file order -/
def gsQueue (tagWanted : String) (ls : List Line) : List (Line × Line) :=
  ls.filterMap fun l =>
    let p := l.dropWhile isSpTab'
    if startsWith p "#=GS" then
      match mtok p with
      | some (_, r1) =>
        match mtok r1 with
        | some (name, r2) =>
          match mtok r2 with
          | some (tag, r3) => if tag = tagWanted.toList then some (name, r3.dropWhile isSpTab') else none
          | none => none
        | none => none
      | none => none
    else none

/-- pass 2: `>name[ acc][ desc]` then the converted residues, 60 per line; the AC / DE queues are consumed in order
    (an entry whose sequence never comes up in order is an error of the tool) -/
def reformatSmallAfaBody (o : ReformatOpts) : List (Line × Line) → List (Line × Line) → Nat → Option Line → List Line → List Line → Option (List Line)
  | _, _, _, _, [], _ => none
  | acq, deq, nread, first, l :: ls, acc =>
    let p := l.dropWhile isSpTab'
    if p.isEmpty || p.head? = some '#' then reformatSmallAfaBody o acq deq nread first ls acc
    else if startsWith p "//" then (if acq.isEmpty && deq.isEmpty then some acc.reverse else none)
    else
      match mtok p with
      | none => none
      | some (name, r1) =>
        match mtok r1 with
        | none => none
        | some (aseq, _) =>
          if nread != 0 && first = some name then none else
          let haveAc := (acq.head?.map (·.1)) = some name
          let haveDe := (deq.head?.map (·.1)) = some name
          let nm : Line := match o.rename with
            | some r => r ++ '.' :: (toString (nread + 1)).toList
            | none => name
          let hdr := '>' :: nm ++ (if haveAc then ' ' :: (acq.head?.map (·.2)).getD [] else []) ++ (if haveDe then ' ' :: (deq.head?.map (·.2)).getD [] else [])
          let body := chunks 60 (aseq.map (convChar o true))
          reformatSmallAfaBody o (if haveAc then acq.drop 1 else acq) (if haveDe then deq.drop 1 else deq) (nread + 1)
            (if nread = 0 then some name else first) ls (body.reverse ++ hdr :: acc)

def reformatSmallAfa (o : ReformatOpts) (ls : List Line) : Option (List Line) :=
  -- the record: from the `# STOCKHOLM` header to the first `//`
  match (ls.dropWhile fun l => l.all isSpTab' || (startsWith l "#" && !startsWith l "# STOCKHOLM")) with
  | [] => none
  | h :: rest =>
    if !startsWith h "# STOCKHOLM 1." then none
    else
      let rec_ := rest.takeWhile fun l => !startsWith (l.dropWhile isSpTab') "//"
      reformatSmallAfaBody o (gsQueue "AC" rec_) (gsQueue "DE" rec_) 0 none rest []

/-! ## esl-alistat --small: the summary without the lines that need the sequences (Smallest / Largest / Average identity) -/

/-- (printed in `--small` mode too?, line) of the default summary, given the numbers -/
def alistatLines (nali : Nat) (name : Option String) (fmt : String) (nseq alen nres small large : Nat) (avlen pid : String) : List (Bool × String) :=
  [(true, "Alignment number:    " ++ toString nali)] ++
  (match name with | some n => [(true, "Alignment name:      " ++ n)] | none => []) ++
  [(true, "Format:              " ++ fmt),
   (true, "Number of sequences: " ++ toString nseq),
   (true, "Alignment length:    " ++ toString alen),
   (true, "Total # residues:    " ++ toString nres),
   (false, "Smallest:            " ++ toString small),
   (false, "Largest:             " ++ toString large),
   (true, "Average length:      " ++ avlen),
   (false, "Average identity:    " ++ pid ++ "%"),
   (true, "//")]

def renderAll (ls : List (Bool × String)) : String := String.join (ls.map fun p => p.2 ++ "\n")
def renderSmall (ls : List (Bool × String)) : String := String.join ((ls.filter (·.1)).map fun p => p.2 ++ "\n")

def smallOneLineHeader : String :=
  "#\n" ++
  "# " ++ padRight 4 "idx" ++ " " ++ padRight 20 "name" ++ " " ++ padLeft 10 "format" ++ " " ++ padLeft 7 "nseq" ++ " " ++
    padLeft 7 "alen" ++ " " ++ padLeft 12 "nres" ++ " " ++ padLeft 10 "avlen" ++ "\n" ++
  "# " ++ "----" ++ " " ++ "--------------------" ++ " " ++ "----------" ++ " " ++ "-------" ++ " " ++ "-------" ++ " " ++
    "------------" ++ " " ++ "----------" ++ "\n"

def smallOneLine (nali : Nat) (name : Option String) (fmt : String) (nseq alen nres : Nat) (avlen : String) : String :=
  padRight 6 (toString nali) ++ " " ++ padRight 20 (name.getD "(null)") ++ " " ++ padLeft 10 fmt ++ " " ++ padLeft 7 (toString nseq) ++ " " ++
    padLeft 7 (toString alen) ++ " " ++ padLeft 12 (toString nres) ++ " " ++ padLeft 10 avlen ++ "\n"

end EaselModel.Miniapps.Small
