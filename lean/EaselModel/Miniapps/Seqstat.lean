import EaselModel.Miniapps.Fasta
/-! # C13 — reference function for `esl-seqstat` (and the alphabets used by the sequence tools)

`stats` mirrors the accumulation loop of `miniapps/esl-seqstat.c` (`nseq`, `nres`, `small`, `large`), the theorems in
`Props/C13.lean` relate it to the textbook definitions (length, sum, minimum, maximum) and show additivity over
concatenation of inputs. `seqstatText` renders the tool's stdout exactly. -/
namespace EaselModel.Miniapps

inductive Abc | dna | rna | amino
deriving DecidableEq, Repr

def Abc.syms : Abc → List Char
  | .dna => "ACGT-RYMKSWHBVDN*~".toList
  | .rna => "ACGU-RYMKSWHBVDN*~".toList
  | .amino => "ACDEFGHIKLMNPQRSTVWY-BJZOUX*~".toList

def Abc.K : Abc → Nat
  | .dna => 4 | .rna => 4 | .amino => 20

def Abc.typeName : Abc → String
  | .dna => "DNA" | .rna => "RNA" | .amino => "amino"

/-- input map of `esl_alphabet_Create` (case-insensitive, with the equivalences the library declares) -/
def Abc.canon (a : Abc) (c : Char) : Char :=
  let u := c.toUpper
  if u = '_' || u = '.' then '-'
  else match a with
    | .dna => if u = 'U' then 'T' else if u = 'X' then 'N' else if u = 'I' then 'A' else u
    | .rna => if u = 'T' then 'U' else if u = 'X' then 'N' else if u = 'I' then 'A' else u
    | .amino => u

def Abc.digit (a : Abc) (c : Char) : Option Nat :=
  let s := a.canon c
  let i := a.syms.idxOf s
  if i < a.syms.length then some i else none

/-- residue = canonical or degenerate symbol (`esl_abc_XIsResidue`): x < K or K < x < Kp-2 -/
def Abc.isResidueIdx (a : Abc) (x : Nat) : Bool := x < a.K || (a.K < x && x < a.syms.length - 2)

structure Stats where
  nseq : Nat := 0
  nres : Nat := 0
  small : Nat := 0
  large : Nat := 0
deriving DecidableEq, Repr

/-- one pass of the `wstatus == eslEOD` branch of esl-seqstat's main loop -/
def statsStep (st : Stats) (L : Nat) : Stats :=
  { nseq := st.nseq + 1
    nres := st.nres + L
    small := if st.nseq = 0 then L else min st.small L
    large := if st.nseq = 0 then L else max st.large L }

def stats (lens : List Nat) : Stats := lens.foldl statsStep {}

/-- residue counts per digital symbol, `monoc[sq->dsq[i]]++` -/
def compCount (a : Abc) (seq : List Char) : List Nat :=
  (List.range a.syms.length).map fun x => (seq.filter fun c => a.digit c = some x).length

def addCounts (x y : List Nat) : List Nat := List.zipWith (· + ·) x y

def totalComp (a : Abc) (seqs : List (List Char)) : List Nat :=
  seqs.foldl (fun acc s => addCounts acc (compCount a s)) (List.replicate a.syms.length 0)

structure SeqstatOpts where
  perSeq : Bool := false     -- -a
  comp : Bool := false       -- -c
  comptbl : Bool := false    -- --comptbl

def natS (n : Nat) : String := toString n

def avgText (nres nseq : Nat) : String :=
  fmtFloat (Float32.ofNat nres / Float32.ofNat nseq).toFloat 1

def fracText (cnt nres : Nat) : String :=
  fmtFloat (Float.ofNat cnt / Float.ofNat nres) 4

/-- `esl_composition_SW50()`: Swiss-Prot 50.8 amino acid frequencies (the background of the log-odds column of `-c`) -/
def sw50 : List Float :=
  [0.0787945, 0.0151600, 0.0535222, 0.0668298, 0.0397062, 0.0695071, 0.0229198, 0.0590092, 0.0594422, 0.0963728,
   0.0237718, 0.0414386, 0.0482904, 0.0395639, 0.0540978, 0.0683364, 0.0540687, 0.0673417, 0.0114135, 0.0304133]

/-- `log((count/nres)/bg) * eslCONST_LOG2R` printed with `%8.4f` -/
def logOddsText (cnt nres : Nat) (bg : Float) : String :=
  padLeft 8 (fmtFloatSigned (Float.log ((Float.ofNat cnt / Float.ofNat nres) / bg) * 1.44269504088896341) 4)

def seqstatText (o : SeqstatOpts) (a : Abc) (fmtName : String) (recs : List Rec) : String :=
  let st := stats (recs.map (·.seq.length))
  let K := a.K
  let syms := a.syms
  if o.comptbl then
    let hdr1 := "#" ++ padRight 29 " Sequence name" ++ " " ++ padLeft 6 "Length" ++
      String.join ((syms.take K).map fun c => "      " ++ String.singleton c) ++ "\n"
    let hdr2 := "#" ++ padRight 29 "-----------------------------" ++ " " ++ padLeft 6 "------" ++
      String.join ((List.range K).map fun _ => " ------") ++ "\n"
    let rows := recs.map fun r =>
      padRight 30 (String.ofList r.name) ++ " " ++ padLeft 6 (natS r.seq.length) ++
        String.join (((compCount a r.seq).take K).map fun n => " " ++ padLeft 6 (natS n)) ++ "\n"
    hdr1 ++ hdr2 ++ String.join rows
  else
    let per := if o.perSeq then
        String.join (recs.map fun r =>
          "= " ++ padRight 25 (String.ofList r.name) ++ " " ++ padLeft 8 (natS r.seq.length) ++ " " ++ String.ofList r.desc ++ "\n")
      else ""
    let summary :=
      "Format:              " ++ fmtName ++ "\n" ++
      "Alphabet type:       " ++ a.typeName ++ "\n" ++
      "Number of sequences: " ++ natS st.nseq ++ "\n" ++
      "Total # residues:    " ++ natS st.nres ++ "\n" ++
      "Smallest:            " ++ natS st.small ++ "\n" ++
      "Largest:             " ++ natS st.large ++ "\n" ++
      "Average length:      " ++ avgText st.nres st.nseq ++ "\n"
    let comp :=
      if o.comp then
        let tot := totalComp a (recs.map (·.seq))
        "\nResidue composition:\n" ++
        String.join ((List.range syms.length).map fun x =>
          let n := tot.getD x 0
          if a = .amino then
            if x < K then
              "residue: " ++ String.singleton (syms.getD x '?') ++ "   " ++ padLeft 10 (natS n) ++ "  " ++
                padLeft 6 (fracText n st.nres) ++ "  " ++ logOddsText n st.nres (sw50.getD x 1.0) ++ "\n"
            else if n > 0 then
              "residue: " ++ String.singleton (syms.getD x '?') ++ "   " ++ padLeft 10 (natS n) ++ "  " ++ padLeft 6 (fracText n st.nres) ++ "\n"
            else ""
          else if x < K || n > 0 then
            "residue: " ++ String.singleton (syms.getD x '?') ++ "   " ++ padLeft 10 (natS n) ++ "  " ++ fracText n st.nres ++ "\n"
          else "")
      else ""
    per ++ summary ++ comp

/-! ## lemmas -/

theorem foldl_statsStep_nseq (ls : List Nat) (s : Stats) : (ls.foldl statsStep s).nseq = s.nseq + ls.length := by
  induction ls generalizing s with
  | nil => simp
  | cons a t ih => simp [List.foldl, ih, statsStep]; omega

theorem foldl_statsStep_nres (ls : List Nat) (s : Stats) : (ls.foldl statsStep s).nres = s.nres + ls.sum := by
  induction ls generalizing s with
  | nil => simp
  | cons a t ih => simp [List.foldl, ih, statsStep]; omega

/-- started on a non-empty history, the loop keeps `small` = the minimum of the old value and everything seen -/
theorem foldl_statsStep_small (ls : List Nat) (s : Stats) (h : s.nseq ≠ 0) :
    (ls.foldl statsStep s).small = ls.foldl min s.small := by
  induction ls generalizing s with
  | nil => simp
  | cons a t ih =>
    simp only [List.foldl]
    rw [ih (statsStep s a) (by simp [statsStep])]
    simp [statsStep, h]

theorem foldl_statsStep_large (ls : List Nat) (s : Stats) (h : s.nseq ≠ 0) :
    (ls.foldl statsStep s).large = ls.foldl max s.large := by
  induction ls generalizing s with
  | nil => simp
  | cons a t ih =>
    simp only [List.foldl]
    rw [ih (statsStep s a) (by simp [statsStep])]
    simp [statsStep, h]

theorem foldl_min_le (ls : List Nat) (m : Nat) : ls.foldl min m ≤ m ∧ ∀ x ∈ ls, ls.foldl min m ≤ x := by
  induction ls generalizing m with
  | nil => simp
  | cons a t ih =>
    simp only [List.foldl, List.mem_cons]
    have h1 := (ih (min m a)).1
    have h2 := (ih (min m a)).2
    refine ⟨by omega, ?_⟩
    intro x hx
    cases hx with
    | inl e => subst e; omega
    | inr hx => exact h2 x hx

theorem foldl_min_mem (ls : List Nat) (m : Nat) : ls.foldl min m = m ∨ ls.foldl min m ∈ ls := by
  induction ls generalizing m with
  | nil => simp
  | cons a t ih =>
    simp only [List.foldl, List.mem_cons]
    cases ih (min m a) with
    | inl h =>
      rw [h]
      by_cases hma : m ≤ a
      · left; omega
      · right; left; omega
    | inr h => right; right; exact h

theorem le_foldl_max (ls : List Nat) (m : Nat) : m ≤ ls.foldl max m ∧ ∀ x ∈ ls, x ≤ ls.foldl max m := by
  induction ls generalizing m with
  | nil => simp
  | cons a t ih =>
    simp only [List.foldl, List.mem_cons]
    have h1 := (ih (max m a)).1
    have h2 := (ih (max m a)).2
    refine ⟨by omega, ?_⟩
    intro x hx
    cases hx with
    | inl e => subst e; omega
    | inr hx => exact h2 x hx

theorem foldl_max_mem (ls : List Nat) (m : Nat) : ls.foldl max m = m ∨ ls.foldl max m ∈ ls := by
  induction ls generalizing m with
  | nil => simp
  | cons a t ih =>
    simp only [List.foldl, List.mem_cons]
    cases ih (max m a) with
    | inl h =>
      rw [h]
      by_cases hma : a ≤ m
      · left; omega
      · right; left; omega
    | inr h => right; right; exact h

theorem stats_cons (a : Nat) (t : List Nat) :
    stats (a :: t) = t.foldl statsStep { nseq := 1, nres := a, small := a, large := a } := by
  simp [stats, List.foldl, statsStep]

theorem foldl_statsStep_append (a b : List Nat) (s : Stats) :
    (a ++ b).foldl statsStep s = b.foldl statsStep (a.foldl statsStep s) := List.foldl_append

end EaselModel.Miniapps
