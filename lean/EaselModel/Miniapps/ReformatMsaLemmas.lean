import EaselModel.Miniapps.ReformatMsa
import EaselModel.Msafile.PhylipWritable
import EaselModel.Msafile.PhylipIdem
import EaselModel.Msafile.AfaWritable
import EaselModel.Msafile.AfaIdem
import EaselModel.Msafile.WriteLemmas
/-! Lemmas about the alignment branch of esl-reformat (`ReformatMsa.lean`): `--namelen 10` is the strict PHYLIP writer of C03,
    the sequential layout keeps every row contiguous at every name width, the tool is `write ∘ transform ∘ read`. -/
namespace EaselModel.Miniapps.Ali
open EaselModel.Msafile

/-! ## `--namelen` -/

theorem phyRowLineW_ten (abc : Option Abc) (m : FMsa) (idx apos : Nat) :
    phyRowLineW phyNameWidth abc m idx apos = phyRowLine abc m idx apos := rfl

/-- with the strict width the `--namelen` writer is C03's writer, byte for byte -/
theorem phylipWriteW_ten (seq : Bool) (abc : Option Abc) (m : FMsa) : phylipWriteW 10 seq abc m = phylipWrite seq abc m := by
  cases seq <;> rfl

theorem phylipWriteW_zero (seq : Bool) (abc : Option Abc) (m : FMsa) : phylipWriteW 0 seq abc m = phylipWrite seq abc m := by
  cases seq <;> rfl

/-! ## cutting a row into 60-column pieces and gluing the pieces -/

theorem chunks_concat {α : Type} (l : List α) (cpl : Nat) (hc : 0 < cpl) : ∀ (k pos : Nat), l.length - pos ≤ k →
    (blockStartsFrom l.length cpl pos).flatMap (fun p => (l.drop p).take cpl) = l.drop pos := by
  intro k
  induction k with
  | zero =>
    intro pos hk
    have hge : ¬ (pos < l.length ∧ 0 < cpl) := by omega
    rw [blockStartsFrom]
    simp only [hge, dite_false, List.flatMap_nil]
    exact (List.drop_eq_nil_of_le (by omega)).symm
  | succ k ih =>
    intro pos hk
    by_cases hlt : pos < l.length
    · have hc' : pos < l.length ∧ 0 < cpl := ⟨hlt, hc⟩
      rw [blockStartsFrom]
      simp only [hc', and_self, dite_true, List.flatMap_cons]
      rw [ih (pos + cpl) (by omega)]
      have : l.drop (pos + cpl) = (l.drop pos).drop cpl := by rw [List.drop_drop]
      rw [this, List.take_append_drop]
    · have hge : ¬ (pos < l.length ∧ 0 < cpl) := by omega
      rw [blockStartsFrom]
      simp only [hge, dite_false, List.flatMap_nil]
      exact (List.drop_eq_nil_of_le (by omega)).symm

theorem phyBuf_text (m : FMsa) (idx apos : Nat) (h0 : ∀ c ∈ m.aseq.getD idx [], c ≠ 0) :
    phyBuf none m idx apos = phyRectifyText (((m.aseq.getD idx []).drop apos).take phyRpl) := by
  unfold phyBuf seqChunk strChunk
  simp only
  rw [cstr_id _ (fun c hc => h0 c (List.mem_of_mem_drop (List.mem_of_mem_take hc)))]

/-- the residue parts of the lines that `phylip_sequential_Write` prints for ONE sequence, glued together, are the row
    (after the writer's rectification), whatever the name width: in the sequential layout a row is never interrupted by
    another sequence.  (`esl-reformat --namelen n phylips` with the interleaved writer violates exactly this.) -/
theorem phySeqRowLines_flatten (nw : Nat) (m : FMsa) (idx : Nat) (halen : 1 ≤ m.alen)
    (hlen : (m.aseq.getD idx []).length = m.alen) (h0 : ∀ c ∈ m.aseq.getD idx [], c ≠ 0) :
    (phySeqRowLines nw none m idx).flatten
      = padTrunc nw (m.names.getD idx []) ++ [32] ++ phyRectifyText (m.aseq.getD idx []) := by
  unfold phySeqRowLines
  rw [blockStarts_cons m.alen halen]
  simp only [List.map_cons, List.flatten_cons]
  have hfirst : phyRowLineW nw none m idx 0 = padTrunc nw (m.names.getD idx []) ++ [32] ++ phyBuf none m idx 0 := by
    simp [phyRowLineW]
  have hrest : (blockStartsFrom m.alen phyRpl phyRpl).map (fun apos => phyRowLineW nw none m idx apos)
      = (blockStartsFrom m.alen phyRpl phyRpl).map (fun apos => phyBuf none m idx apos) := by
    apply List.map_congr_left
    intro p hp
    have := (blockStartsFrom_lt m.alen phyRpl phyRpl p hp).1
    have hp0 : (p == 0) = false := by
      have : p ≠ 0 := by
        have h60 : phyRpl = 60 := rfl
        omega
      simpa using this
    simp [phyRowLineW, hp0]
  rw [hfirst, hrest]
  have hbuf : ∀ p, phyBuf none m idx p = phyRectifyText (((m.aseq.getD idx []).drop p).take phyRpl) :=
    fun p => phyBuf_text m idx p h0
  simp only [hbuf]
  have hmap : ((blockStartsFrom m.alen phyRpl phyRpl).map
        (fun apos => phyRectifyText (((m.aseq.getD idx []).drop apos).take phyRpl))).flatten
      = phyRectifyText ((blockStartsFrom m.alen phyRpl phyRpl).flatMap
          (fun p => ((m.aseq.getD idx []).drop p).take phyRpl)) := by
    unfold phyRectifyText
    rw [List.map_flatMap, List.flatMap_def]
  rw [hmap]
  have hcc := chunks_concat (m.aseq.getD idx []) phyRpl (by decide) ((m.aseq.getD idx []).length) phyRpl (by omega)
  rw [hlen] at hcc
  rw [hcc]
  unfold phyRectifyText
  simp only [List.append_assoc, List.drop_zero]
  rw [← List.map_append, List.take_append_drop]

/-- the sequential file is the header line followed by the sequences ONE AFTER THE OTHER -/
theorem phylipSequentialLinesW_eq (nw : Nat) (abc : Option Abc) (m : FMsa) :
    phylipSequentialLinesW nw abc m = phyWrHeader m :: (List.range m.nseq).flatMap (phySeqRowLines nw abc m) := rfl

/-! ## the tool is `write ∘ transform ∘ read` -/

theorem readAll_single (rd : List Bytes → Res FMsa × List Bytes) (ls : List Bytes) (m : FMsa) (fuel : Nat)
    (h1 : rd ls = (.ok m, [])) (h2 : rd [] = (.eof, [])) : readAll rd (fuel + 2) ls [] = some [m] := by
  simp [readAll, h1, h2]

/-- when the file holds exactly one alignment `m` (the reader returns it and then end-of-file), the tool's output is the
    writer applied to the transformed alignment -/
theorem reformatMsa_single (o : Opts) (infmt outfmt : String) (src : Bytes) (rd : List Bytes → Res FMsa × List Bytes) (m : FMsa)
    (hrd : readerOf infmt = some rd) (h1 : rd (splitLines src) = (.ok m, [])) (h2 : rd [] = (.eof, [])) :
    reformatMsa o infmt outfmt src = (transform o m).bind (writeOne o outfmt) := by
  unfold reformatMsa readFile
  simp only [hrd]
  rw [readAll_single rd _ m _ h1 h2]
  cases ht : transform o m with
  | none => simp [ht]
  | some m' =>
    cases hw : writeOne o outfmt m' with
    | none => simp [ht, hw]
    | some b => simp [ht, hw]

/-- without any option nothing happens between reading and writing -/
theorem transform_no_option (m : FMsa) : transform {} m = some m := by
  simp [transform, convertSyms]

/-- only `--namelen` among the options: nothing happens between reading and writing either -/
theorem transform_namelen_only (n : Nat) (m : FMsa) : transform { namelen := some n } m = some m := by
  simp [transform, convertSyms]

/-- away from the Clustal formats the tools' write call is `esl_msafile_Write` -/
theorem msafileWriteTool_afa (abc : Option Abc) (m : FMsa) : msafileWriteTool "afa" abc m = msafileWrite "afa" abc m := rfl

/-! ## unaligned output from an alignment file -/

/-- line wrapping loses nothing: the 60-residue lines, concatenated, are the sequence -/
theorem seqLines_flatten (w : Nat) (hw : 0 < w) : ∀ (fuel : Nat) (s : Bytes), s.length ≤ fuel → (seqLines w fuel s).flatten = s := by
  intro fuel
  induction fuel with
  | zero => intro s h; have : s = [] := List.length_eq_zero_iff.mp (by omega); simp [seqLines, this]
  | succ n ih =>
    intro s h
    unfold seqLines
    by_cases he : s.isEmpty = true
    · simp [he, List.isEmpty_iff.mp he]
    · have hne : s ≠ [] := by simpa [List.isEmpty_iff] using he
      have hpos : 0 < s.length := List.length_pos_iff.mpr hne
      simp only [he, Bool.false_eq_true, ↓reduceIte, List.flatten_cons]
      rw [ih (s.drop w) (by simp; omega), List.take_append_drop]

/-- every line but possibly the last has exactly `w` residues, none is empty -/
theorem seqLines_widths (w : Nat) (hw : 0 < w) : ∀ (fuel : Nat) (s : Bytes), ∀ l ∈ seqLines w fuel s, 0 < l.length ∧ l.length ≤ w := by
  intro fuel
  induction fuel with
  | zero => intro s l h; simp [seqLines] at h
  | succ n ih =>
    intro s l h
    unfold seqLines at h
    by_cases he : s.isEmpty = true
    · simp [he] at h
    · have hne : s ≠ [] := by simpa [List.isEmpty_iff] using he
      have hpos : 0 < s.length := List.length_pos_iff.mpr hne
      simp only [he, Bool.false_eq_true, ↓reduceIte, List.mem_cons] at h
      rcases h with rfl | h
      · simp [List.length_take]; omega
      · exact ih _ l h

/-- the residue conversions act position by position -/
theorem length_ite_map (b : Bool) (f : UInt8 → UInt8) (s : Bytes) : (if b = true then s.map f else s).length = s.length := by
  split <;> simp

theorem convertSeq_length (o : Opts) (s : Bytes) : (convertSeq o s).length = s.length := by
  unfold convertSeq
  simp only [length_ite_map]
  cases o.replace <;> simp

theorem convertSeq_no_option (s : Bytes) : convertSeq {} s = s := by
  simp [convertSeq]

/-- the FASTA record: header, then the lines; with the body's line feeds removed the body is the sequence -/
theorem fastaRecordB_body (name acc desc seq : Bytes) :
    ∃ hdr, fastaRecordB name acc desc seq = hdr ++ (seqLines 60 seq.length seq).flatMap (· ++ [10]) ∧
      (seqLines 60 seq.length seq).flatten = seq :=
  ⟨_, rfl, seqLines_flatten 60 (by decide) seq.length seq (Nat.le_refl _)⟩

end EaselModel.Miniapps.Ali
