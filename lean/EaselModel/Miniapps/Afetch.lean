import EaselModel.Miniapps.ReformatMsa
/-! # C13 — `esl-afetch`: fetch alignments by name or accession from a multi-alignment (Stockholm / Pfam) file

Line-by-line model of the tool's own plumbing (`miniapps/esl-afetch.c`): `create_ssi_index`, `onefetch` (both branches),
`multifetch` (both branches), `regurgitate_one_stockholm_entry`.  The reader and the writers are the C01/C03 models.
An SSI index is represented by what it holds: for every alignment its name (primary key), its accession (alias) and its
offset, which `esl_msafile_Read` recorded BEFORE reading the record (`msa->offset = esl_buffer_GetOffset` at the call): the
record's span therefore starts right behind the previous record's `//` line. -/
namespace EaselModel.Miniapps.Ali
open EaselModel.Msafile

/-- every alignment of the file together with the lines its `esl_msafile_Read` call consumed (from `msa->offset` on) -/
def readAllSpans (rd : List Bytes → Res FMsa × List Bytes) :
    Nat → List Bytes → List (FMsa × List Bytes) → Option (List (FMsa × List Bytes))
  | 0, _, _ => none
  | fuel + 1, ls, acc =>
    match rd ls with
    | (.ok m, rest) => readAllSpans rd fuel rest ((m, ls.take (ls.length - rest.length)) :: acc)
    | (.eof, _) => some acc.reverse
    | _ => none

/-- `strcmp(key, msa->name) == 0 || (msa->acc != NULL && strcmp(key, msa->acc) == 0)` -/
def keyMatches (key : Bytes) (m : FMsa) : Bool := m.name == some key || m.acc == some key

/-- `onefetch` without an index: `while (Read != eOF) { if (!msa->name) fatal; if (match) break; }`; records behind the
    hit are never parsed.  `none` = the tool ends with a message (read failure, nameless alignment, key not found). -/
def seqFetch (rd : List Bytes → Res FMsa × List Bytes) (key : Bytes) : Nat → List Bytes → Option FMsa
  | 0, _ => none
  | fuel + 1, ls =>
    match rd ls with
    | (.ok m, rest) =>
      if m.name.isNone then none
      else if keyMatches key m then some m
      else seqFetch rd key fuel rest
    | _ => none

/-- `esl_ssi_FindName`: primary keys (names) first, then secondary keys (accessions) -/
def ssiFind (recs : List (FMsa × List Bytes)) (key : Bytes) : Option (FMsa × List Bytes) :=
  match recs.find? (fun r => r.1.name == some key) with
  | some r => some r
  | none => recs.find? (fun r => r.1.acc == some key)

/-- the Stockholm parser's terminator test: `//` after blanks and TABs -/
def isTerminator (l : Bytes) : Bool := (l.dropWhile (inDelim blankTab)).take 2 == [47, 47]

/-- `regurgitate_one_stockholm_entry`: lines are echoed (each followed by `\n`) up to and including the terminator;
    `none` = end of file before a terminator -/
def regurgitate : List Bytes → Option Bytes
  | [] => none
  | l :: rest =>
    if isTerminator l then some (l ++ [10])
    else (regurgitate rest).map fun t => l ++ [10] ++ t

/-- what an index can be built from: every alignment named, names and accessions all different -/
def indexable (recs : List (FMsa × List Bytes)) : Bool :=
  let names := recs.filterMap (·.1.name)
  let accs := recs.filterMap (·.1.acc)
  names.length == recs.length && (names ++ accs).eraseDups.length == names.length + accs.length

/-- `create_ssi_index`: the three lines of stdout -/
def indexReport (file : String) (recs : List (FMsa × List Bytes)) : String :=
  let n := toString recs.length
  let nacc := (recs.filterMap (·.1.acc)).length
  "Working...    done.\n" ++
  (if nacc != 0 then "Indexed " ++ n ++ " alignments (" ++ n ++ " names and " ++ toString nacc ++ " accessions).\n"
   else "Indexed " ++ n ++ " alignments (" ++ n ++ " names).\n") ++
  "SSI index written to file " ++ file ++ ".ssi\n"

/-- `onefetch` with an index -/
def ssiFetch (infmt outfmt : String) (recs : List (FMsa × List Bytes)) (key : Bytes) : Option Bytes :=
  match ssiFind recs key with
  | none => none
  | some (m, span) =>
    if (infmt == "stockholm" && outfmt == "stockholm") || (infmt == "pfam" && outfmt == "pfam") then regurgitate span
    else msafileWrite outfmt none m

/-- keys of a key file: `esl_fileparser` with comment character `#`, first token of each line that has one -/
def keyFileKeys (src : Bytes) : List Bytes :=
  (splitLines src).filterMap fun l =>
    match ((l.splitOn 32).flatMap fun w => w.splitOn 9).filter (fun w => !w.isEmpty && !w.all isSpace) with
    | [] => none
    | t :: _ => if t.head? == some 35 then none else some t

structure AfetchOpts where
  infmt : String
  outfmt : String := "stockholm"
  hasSsi : Bool := false

def spansOf (infmt : String) (src : Bytes) : Option (List (FMsa × List Bytes)) :=
  match readerOf infmt with
  | none => none
  | some rd => readAllSpans rd ((splitLines src).length + 2) (splitLines src) []

/-- `esl-afetch <msafile> <key>`: the bytes written to the output stream -/
def afetchOne (o : AfetchOpts) (src : Bytes) (key : Bytes) : Option Bytes :=
  if o.hasSsi then
    match spansOf o.infmt src with
    | some recs => if indexable recs then ssiFetch o.infmt o.outfmt recs key else none
    | none => none
  else
    match readerOf o.infmt with
    | none => none
    | some rd => (seqFetch rd key ((splitLines src).length + 2) (splitLines src)).bind (msafileWrite o.outfmt none)

/-- `esl-afetch -f <msafile> <keyfile>`: output bytes and the count the tool reports (`nali`): the number of keys with an
    index, the number of alignments IN THE FILE without one -/
def afetchMulti (o : AfetchOpts) (src keysrc : Bytes) : Option (Bytes × Nat) :=
  let keys := keyFileKeys keysrc
  if keys.eraseDups.length != keys.length then none else
  match spansOf o.infmt src with
  | none => none
  | some recs =>
    if o.hasSsi then
      if !indexable recs then none
      else (keys.mapM (ssiFetch o.infmt o.outfmt recs)).map fun outs => (outs.flatten, keys.length)
    else
      if recs.any (fun r => r.1.name.isNone) then none
      else
        let hit := recs.filter fun r => keys.any fun k => keyMatches k r.1
        (hit.mapM fun r => msafileWrite o.outfmt none r.1).map fun outs => (outs.flatten, recs.length)

/-! ## lemmas -/

theorem seqFetch_matches (rd : List Bytes → Res FMsa × List Bytes) (key : Bytes) :
    ∀ (fuel : Nat) (ls : List Bytes) (m : FMsa), seqFetch rd key fuel ls = some m → keyMatches key m = true := by
  intro fuel
  induction fuel with
  | zero => intro ls m h; simp [seqFetch] at h
  | succ n ih =>
    intro ls m h
    unfold seqFetch at h
    split at h
    · rename_i m' rest _
      by_cases hn : m'.name.isNone = true
      · simp [hn] at h
      · by_cases hk : keyMatches key m' = true
        · simp [hn, hk] at h; subst h; exact hk
        · simp [hn, hk] at h; exact ih rest m h
    · simp at h

/-- the first record is returned when it matches: records behind it are not even parsed -/
theorem seqFetch_first (rd : List Bytes → Res FMsa × List Bytes) (key : Bytes) (fuel : Nat) (ls rest : List Bytes) (m : FMsa)
    (h : rd ls = (.ok m, rest)) (hn : m.name.isSome = true) (hk : keyMatches key m = true) :
    seqFetch rd key (fuel + 1) ls = some m := by
  have : m.name.isNone = false := by cases hm : m.name <;> simp_all
  simp [seqFetch, h, this, hk]

/-- a record that does not match is skipped -/
theorem seqFetch_skip (rd : List Bytes → Res FMsa × List Bytes) (key : Bytes) (fuel : Nat) (ls rest : List Bytes) (m : FMsa)
    (h : rd ls = (.ok m, rest)) (hn : m.name.isSome = true) (hk : keyMatches key m = false) :
    seqFetch rd key (fuel + 1) ls = seqFetch rd key fuel rest := by
  have : m.name.isNone = false := by cases hm : m.name <;> simp_all
  simp [seqFetch, h, this, hk]

theorem ssiFind_mem (recs : List (FMsa × List Bytes)) (key : Bytes) (r : FMsa × List Bytes) (h : ssiFind recs key = some r) :
    r ∈ recs ∧ keyMatches key r.1 = true := by
  unfold ssiFind at h
  split at h
  · rename_i r' hf
    cases h
    have := List.find?_some hf
    exact ⟨List.mem_of_find?_eq_some hf, by simp_all [keyMatches]⟩
  · have := List.find?_some h
    exact ⟨List.mem_of_find?_eq_some h, by simp_all [keyMatches]⟩

/-- a name always wins over an accession -/
theorem ssiFind_name_first (recs : List (FMsa × List Bytes)) (key : Bytes) (r : FMsa × List Bytes)
    (h : recs.find? (fun r => r.1.name == some key) = some r) : ssiFind recs key = some r := by
  simp [ssiFind, h]

/-- the regurgitated text is the span's lines, in order, cut behind the first terminator line -/
theorem regurgitate_eq (ls : List Bytes) (out : Bytes) (h : regurgitate ls = some out) :
    ∃ pre l post, ls = pre ++ l :: post ∧ isTerminator l = true ∧ (∀ x ∈ pre, isTerminator x = false) ∧
      out = (pre ++ [l]).flatMap (fun x => x ++ [10]) := by
  induction ls generalizing out with
  | nil => simp [regurgitate] at h
  | cons l rest ih =>
    unfold regurgitate at h
    by_cases ht : isTerminator l = true
    · simp [ht] at h
      exact ⟨[], l, rest, rfl, ht, by simp, by simp [← h]⟩
    · simp [ht] at h
      obtain ⟨t, ht', rfl⟩ := h
      obtain ⟨pre, l', post, rfl, h1, h2, rfl⟩ := ih t ht'
      refine ⟨l :: pre, l', post, rfl, h1, ?_, ?_⟩
      · intro x hx
        rcases List.mem_cons.mp hx with rfl | hx
        · simpa using ht
        · exact h2 x hx
      · simp [List.flatMap_cons, List.append_assoc]

end EaselModel.Miniapps.Ali
