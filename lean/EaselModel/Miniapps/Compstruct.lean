import EaselModel.Miniapps.ReformatMsa
import EaselModel.Miniapps.Text
/-! # C13 — `esl-compstruct`: base pairs of predicted structures compared with trusted ones

Line-by-line model of `miniapps/esl-compstruct.c:main()`: two Stockholm files read in text mode (C03 reader), per sequence
the `[REJECTED: …]` tests in the tool's order, `esl_strdealign` of sequence and structure, `esl_wuss_nopseudo` unless `-p`,
`esl_wuss2ct` (both C15 models), the pair-counting loop with the strict rule and with Mathews' relaxed rule (`-m`), the
per-sequence line and the summary.  Percentages are the tool's binary64 expression `100. * (float) a / (float) b`
(a quotient `0/0` prints as `-nan`, as on the platform). -/
namespace EaselModel.Miniapps.Ali
open EaselModel.Msafile

def gapB : Bytes := str "-_.~"

/-- `esl_strdealign(s, aseq, "-_.~", …)`: the characters of `s` at the positions where `aseq` has no gap character -/
def dealignBy (s aseq : Bytes) : Bytes := (s.zip aseq).filterMap fun p => if gapB.contains p.2 then none else some p.1

/-- positions `1..len` -/
def positions (len : Nat) : List Nat := (List.range len).map (· + 1)

/-- the correctness test of one pair seen from structure `a` against structure `b` (both CT arrays, 1-based):
    strict = the same pair is in `b`; Mathews = `b` has (i,j), (i-1,j), (i+1,j), (i,j-1) or (i,j+1) -/
def pairOk (mathews : Bool) (len : Nat) (a b : List Nat) (pos : Nat) : Bool :=
  let aj := a.getD pos 0
  let bj := b.getD pos 0
  if mathews then
    bj == aj || (pos > 1 && b.getD (pos - 1) 0 == aj) || (pos < len && b.getD (pos + 1) 0 == aj) ||
    (bj > 0 && bj == aj - 1) || (bj > 0 && bj == aj + 1)
  else bj == aj

/-- `if (a[pos] > pos)`: position `pos` opens a pair of structure `a` -/
def opens (a : List Nat) (pos : Nat) : Bool := decide (pos < a.getD pos 0)

structure PairCounts where
  kpairs : Nat
  kcorrect : Nat
  tpairs : Nat
  tcorrect : Nat
deriving DecidableEq, Repr

/-- the loop `for (pos = 1; pos <= klen; pos++)` -/
def comparePairs (mathews : Bool) (len : Nat) (kct tct : List Nat) : PairCounts :=
  let ps := positions len
  { kpairs := ps.countP (opens kct),
    kcorrect := ps.countP (fun pos => opens kct pos && pairOk mathews len kct tct pos),
    tpairs := ps.countP (opens tct),
    tcorrect := ps.countP (fun pos => opens tct pos && pairOk mathews len tct kct pos) }

/-- `printf("%<w>.2f", 100. * (float) a / (float) b)` -/
def pctText (w : Nat) (a b : Nat) : String :=
  let x := 100.0 * Float.ofNat a / Float.ofNat b
  EaselModel.Miniapps.padLeft w (if x.isNaN then "-nan" else EaselModel.Miniapps.fmtFloatSigned x 2)

def bstr (b : Bytes) : String := String.ofList (b.map fun x => Char.ofNat x.toNat)

inductive SeqOutcome where
  | rejected (msg : String)
  | counted (c : PairCounts) (len : Nat)

/-- one sequence `i` of a pair of alignments: the rejection tests in the tool's order, then the comparison -/
def compareSeq (mathews pseudo : Bool) (ka ta : FMsa) (i : Nat) : SeqOutcome :=
  let kss := (ka.ss.getD []).getD i none
  let tss := (ta.ss.getD []).getD i none
  match tss, kss with
  | none, _ => .rejected "[REJECTED: no predicted structure]\n"
  | some _, none => .rejected "[REJECTED: no trusted structure]\n"
  | some ts, some ks =>
    let kname := ka.names.getD i []
    let tname := ta.names.getD i []
    if kname != tname then .rejected ("[REJECTED: test seq name is " ++ bstr tname ++ "]\n")
    else
      let kseq := ka.aseq.getD i []
      let tseq := ta.aseq.getD i []
      let ks := dealignBy ks kseq
      let ts := dealignBy ts tseq
      let klen := (kseq.filter fun c => !gapB.contains c).length
      let tlen := (tseq.filter fun c => !gapB.contains c).length
      if klen != tlen then .rejected "[REJECTED: seq lengths not identical]\n"
      else
        let ks := if pseudo then ks else EaselModel.Msa.wussNopseudo ks
        let ts := if pseudo then ts else EaselModel.Msa.wussNopseudo ts
        match EaselModel.Msa.wuss2ct ks with
        | none => .rejected "[REJECTED: bad trusted structure]\n"
        | some kct =>
          match EaselModel.Msa.wuss2ct ts with
          | none => .rejected "[REJECTED: bad test structure]\n"
          | some tct => .counted (comparePairs mathews klen kct tct) klen

structure Totals where
  nseq : Nat := 0
  rejected : Nat := 0
  kpairs : Nat := 0
  kcorrect : Nat := 0
  tpairs : Nat := 0
  tcorrect : Nat := 0
  positions : Nat := 0

def padNat (w n : Nat) : String := EaselModel.Miniapps.padLeft w (toString n)

/-- the lines of one pair of alignments; `none` = the tool stops with a message (different numbers of sequences, an alignment
    without any structure annotation) -/
def compareAli (mathews pseudo : Bool) (ka ta : FMsa) (t : Totals) : Option (String × Totals) :=
  if ka.nseq != ta.nseq || ka.ss.isNone || ta.ss.isNone then none
  else some ((List.range ka.nseq).foldl (fun (st : String × Totals) i =>
    let head := EaselModel.Miniapps.padRight 20 (bstr (ka.names.getD i [])) ++ " "
    let t := { st.2 with nseq := st.2.nseq + 1 }
    match compareSeq mathews pseudo ka ta i with
    | .rejected msg => (st.1 ++ head ++ msg, { t with rejected := t.rejected + 1 })
    | .counted c len =>
      (st.1 ++ head ++ " ==  " ++ padNat 5 c.kcorrect ++ " " ++ padNat 5 c.kpairs ++ " " ++ pctText 5 c.kcorrect c.kpairs ++ "%   " ++
         padNat 5 c.tcorrect ++ " " ++ padNat 5 c.tpairs ++ " " ++ pctText 5 c.tcorrect c.tpairs ++ "%\n",
       { t with kpairs := t.kpairs + c.kpairs, kcorrect := t.kcorrect + c.kcorrect, tpairs := t.tpairs + c.tpairs,
                tcorrect := t.tcorrect + c.tcorrect, positions := t.positions + len })) ("", t))

def summary (t : Totals) : String :=
  "\n\n" ++
  (if t.rejected > 0 then
    toString t.nseq ++ " total sequences; " ++ toString (t.nseq - t.rejected) ++ " counted towards comparison; " ++ toString t.rejected ++ " rejected\n" ++
    "(grep \"REJECTED\" in the output to identify the problems)\n\n" else "") ++
  "Overall prediction accuracy (" ++ toString (t.nseq - t.rejected) ++ " sequences, " ++ toString t.positions ++ " positions)\n" ++
  "   " ++ toString t.kcorrect ++ "/" ++ toString t.kpairs ++ " trusted pairs predicted (" ++ pctText 0 t.kcorrect t.kpairs ++ "% sensitivity)\n" ++
  "   " ++ toString t.tcorrect ++ "/" ++ toString t.tpairs ++ " predicted pairs correct (" ++ pctText 0 t.tcorrect t.tpairs ++ "% PPV)\n" ++
  "\n"

/-- `while (Read(kfp) != eslEOF) { Read(tfp) must succeed; … }`: alignments are paired in file order; what is left in the test file is not read -/
def compareFiles (mathews pseudo : Bool) : List FMsa → List FMsa → String × Totals → Option (String × Totals)
  | [], _, st => some st
  | _ :: _, [], _ => none
  | ka :: ks, ta :: ts, st =>
    match compareAli mathews pseudo ka ta st.2 with
    | none => none
    | some (txt, t) => compareFiles mathews pseudo ks ts (st.1 ++ txt, t)

/-- stdout of `esl-compstruct --quiet [-m] [-p] <trusted.sto> <test.sto>` -/
def compstruct (mathews pseudo : Bool) (ksrc tsrc : Bytes) : Option String :=
  match readFile "stockholm" ksrc, readFile "stockholm" tsrc with
  | some kas, some tas =>
    if kas.isEmpty then none else
    (compareFiles mathews pseudo kas tas
      (EaselModel.Miniapps.padLeft 20 "" ++ "   " ++ EaselModel.Miniapps.padLeft 17 "[sensitivity]" ++ " " ++ EaselModel.Miniapps.padLeft 17 "[PPV]" ++ "\n", {})).map fun (txt, t) => txt ++ summary t
  | _, _ => none

/-! ## lemmas -/

/-- under the strict rule a position contributes to `kcorrect` exactly when it contributes to `tcorrect` -/
theorem strict_pointwise (len : Nat) (kct tct : List Nat) (pos : Nat) :
    (opens kct pos && pairOk false len kct tct pos) = (opens tct pos && pairOk false len tct kct pos) := by
  simp only [opens, pairOk, Bool.false_eq_true, if_false]
  generalize kct.getD pos 0 = a
  generalize tct.getD pos 0 = b
  by_cases h : b = a
  · subst h; rfl
  · have h' : ¬ a = b := fun e => h e.symm
    have e1 : (b == a) = false := by simpa using h
    have e2 : (a == b) = false := by simpa using h'
    rw [e1, e2, Bool.and_false, Bool.and_false]

theorem comparePairs_strict_symm (len : Nat) (kct tct : List Nat) :
    (comparePairs false len kct tct).kcorrect = (comparePairs false len kct tct).tcorrect := by
  simp only [comparePairs]
  congr 1
  funext pos
  exact strict_pointwise len kct tct pos

theorem comparePairs_le (m : Bool) (len : Nat) (kct tct : List Nat) :
    (comparePairs m len kct tct).kcorrect ≤ (comparePairs m len kct tct).kpairs ∧
    (comparePairs m len kct tct).tcorrect ≤ (comparePairs m len kct tct).tpairs := by
  simp only [comparePairs]
  constructor <;> apply List.countP_mono_left <;> intro x _ hx <;> simp at hx ⊢ <;> exact hx.1

/-- a structure compared with itself: every pair is correct, under either rule -/
theorem comparePairs_self (m : Bool) (len : Nat) (ct : List Nat) :
    (comparePairs m len ct ct).kcorrect = (comparePairs m len ct ct).kpairs := by
  simp only [comparePairs]
  congr 1
  funext pos
  cases m <;> simp [pairOk]

/-- Mathews' rule only relaxes: what is correct under the strict rule stays correct under `-m` -/
theorem comparePairs_mathews_ge (len : Nat) (kct tct : List Nat) :
    (comparePairs false len kct tct).kcorrect ≤ (comparePairs true len kct tct).kcorrect := by
  simp only [comparePairs]
  apply List.countP_mono_left
  intro pos _ h
  simp only [pairOk, Bool.false_eq_true, if_false, Bool.and_eq_true] at h
  simp only [pairOk, if_true, Bool.and_eq_true, Bool.or_eq_true]
  exact ⟨h.1, Or.inl (Or.inl (Or.inl (Or.inl h.2)))⟩

end EaselModel.Miniapps.Ali
