import EaselModel.Sqio.DriverMsa
/-! Line-protocol driver for the C02 model: the shared sequence-file model (EaselModel/Sqio) + alignment files read as sequences
    (EaselModel/Sqio/MsaSeq on the C01 reader models); ops select the behaviour. -/
open EaselModel.Proto EaselModel.Sqio
def main : IO Unit := runDriver ({} : DS2) step2
