import EaselModel.Sqio.DriverLogic
import EaselModel.Sqio.AfetchModel
/-! Line-protocol driver for the C07 model: the shared sequence-file model (EaselModel/Sqio) for the sequence ops, and the
    esl-afetch model (Sqio/AfetchModel.lean over the C06 index model) for the alignment-database ops `adb`, `aget`, `ascan`. -/
open EaselModel.Proto EaselModel.Sqio

structure DS7 where
  base : DS := {}
  adb : List UInt8 := []                 -- the alignment database
  assi : Option (List UInt8) := none     -- the index file esl-afetch --index wrote
  deriving Inhabited

namespace AfetchDriver
open EaselModel EaselModel.Afetch

/-- the primary keys in index order with their offsets, read back from the index bytes through the C06 reader model -/
def listing (ssi : List UInt8) : String :=
  match Ssi.Ssi.open ssi.toArray with
  | .error e => s!"open-{e.name}"
  | .ok x =>
    let items := (List.range x.nprimary).map fun (i : Nat) =>
      match x.findNumber (Int.ofNat i) with
      | .ok (h, kb) => s!"{hexOrDash (Ssi.cstr kb)}:{h.roff}:{h.doff}:{h.len}"
      | .error e => e.name
    s!"nprim={x.nprimary} nalias={x.nsecondary} keys={String.intercalate "," items}"

def step (s : DS7) (ws : List String) : DS7 × String :=
  match ws with
  | "adb" :: _ =>
    match argHex? ws "hex" with
    | none => (s, "bad-op")
    | some db =>
      let fmt := if (arg? ws "fmt") == some "pfam" then 102 else fmtStockholm
      let s := { s with adb := db, assi := none }
      match scanDb db with
      | none => (s, "die")
      | some recs =>
        match createIndex [116, 46, 115, 116, 111] db fmt with
        | none => (s, "die")
        | some ssi =>
          let full := fullScan (Msafile.stockholmCfg none) ((Msafile.splitLines db).length + 1) (Msafile.splitLines db) []
          let agree := full == some (recs.map fun r => (r.name, r.acc))
          ({ s with assi := some ssi }, s!"ok nali={recs.length} {listing ssi} full={if agree then 1 else 0}")
  | "aget" :: _ =>
    match argHex? ws "key", s.assi with
    | some key, some ssi =>
      match onefetch s.adb ssi key with
      | .ok out => (s, s!"ok hex={hexOrDash out}")
      | .notfound => (s, "enotfound")
      | .fatal => (s, "fatal")
    | _, _ => (s, "bad-op")
  | "ascan" :: _ =>
    match argHex? ws "key", s.assi with
    | none, _ => (s, "bad-op")
    | _, none => (s, "bad-op")                -- no database indexed (the harness refuses too)
    | some key, some _ =>
      match scanDb s.adb with
      | none => (s, "readfail")
      | some recs =>
        match seqFind recs key with
        | some r => (s, s!"ok off={r.off} name={hexOrDash r.name} acc={match r.acc with | some a => hexOrDash a | none => "NULL"}")
        | none => (s, "notfound")
  | _ => (s, "bad-op")

end AfetchDriver

def step7 (s : DS7) (line : String) : DS7 × String :=
  let ws := words line
  match ws with
  | "adb" :: _ | "aget" :: _ | "ascan" :: _ => AfetchDriver.step s ws
  | _ => let (b, r) := step s.base line; ({ s with base := b }, r)

def main : IO Unit := runDriver ({} : DS7) step7
