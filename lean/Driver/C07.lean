import EaselModel.Sqio.DriverLogic
/-! Line-protocol driver for the C07 model: the shared sequence-file model (EaselModel/Sqio), ops select the behaviour. -/
open EaselModel.Proto EaselModel.Sqio
def main : IO Unit := runDriver ({} : DS) step
