import EaselModel.Sqio.DriverLogic
import EaselModel.Sqio.AfetchModel
/-! Line-protocol driver for the C07 model: the shared sequence-file model (EaselModel/Sqio) for the sequence ops, and the
    esl-afetch model (Sqio/AfetchModel.lean over the C06 index model) for the alignment-database ops `adb`, `aget`, `ascan`. -/
open EaselModel.Proto EaselModel.Sqio

structure DS7 where
  base : DS := {}
  adb : List UInt8 := []                 -- the alignment database
  assi : Option (List UInt8) := none     -- the index file esl-afetch --index wrote
  tssi : Option Ssi := none              -- the index `esl-sfetch --index` (run as a tool, op `toolcmd`) left on disk for the current file
  deriving Inhabited

namespace AfetchDriver
open EaselModel EaselModel.Afetch

/-- the primary keys in index order with their offsets, read back from the index bytes through the C06 reader model -/
def listing (ssi : List UInt8) : String :=
  match Ssi.Ssi.open ssi.toArray with
  | .error e => s!"open-{e.name}"
  | .ok x =>
    let items := (List.range x.nprimary).map fun (i : Nat) =>
      match x.findNumber (Int.ofNat i) with
      | .ok (h, kb) => s!"{hexOrDash (Ssi.cstr kb)}:{h.roff}:{h.doff}:{h.len}"
      | .error e => e.name
    s!"nprim={x.nprimary} nalias={x.nsecondary} keys={String.intercalate "," items}"

def step (s : DS7) (ws : List String) : DS7 × String :=
  match ws with
  | "adb" :: _ =>
    match argHex? ws "hex" with
    | none => (s, "bad-op")
    | some db =>
      let fmt := if (arg? ws "fmt") == some "pfam" then 102 else fmtStockholm
      let s := { s with adb := db, assi := none }
      match scanDb db with
      | none => (s, "die")
      | some recs =>
        match createIndex [116, 46, 115, 116, 111] db fmt with
        | none => (s, "die")
        | some ssi =>
          let full := fullScan (Msafile.stockholmCfg none) ((Msafile.splitLines db).length + 1) (Msafile.splitLines db) []
          let agree := full == some (recs.map fun r => (r.name, r.acc))
          ({ s with assi := some ssi }, s!"ok nali={recs.length} {listing ssi} full={if agree then 1 else 0}")
  | "aget" :: _ =>
    match argHex? ws "key", s.assi with
    | some key, some ssi =>
      match onefetch s.adb ssi key with
      | .ok out => (s, s!"ok hex={hexOrDash out}")
      | .notfound => (s, "enotfound")
      | .fatal => (s, "fatal")
    | _, _ => (s, "bad-op")
  | "ascan" :: _ =>
    match argHex? ws "key", s.assi with
    | none, _ => (s, "bad-op")
    | _, none => (s, "bad-op")                -- no database indexed (the harness refuses too)
    | some key, some _ =>
      match scanDb s.adb with
      | none => (s, "readfail")
      | some recs =>
        match seqFind recs key with
        | some r => (s, s!"ok off={r.off} name={hexOrDash r.name} acc={match r.acc with | some a => hexOrDash a | none => "NULL"}")
        | none => (s, "notfound")
  | _ => (s, "bad-op")

end AfetchDriver

/-! ## `toolcmd`: esl-sfetch run as a tool (its real `main()` in a child process), predicted from the model

A fresh text-mode handle on the current file (`--informat <fmt>`, the read-block size of the hook), the index the tool itself wrote
earlier (`--index`), then the tool's own paths: `onefetch` (Echo, or Read + reverse complement / rename + Write with `-r` / `-n`),
`onefetch_subseq` (`-c`; coordinates `from > to` and `-r` each reverse-complement, both cancel), `multifetch` (`-f`),
`multifetch_subseq` (`-C -f`). The session handle of the case is not touched. -/
namespace ToolDriver

def die (s : DS7) : DS7 × String := (s, "die")

def run (s : DS7) (ws : List String) : DS7 × String :=
  let fmt := (arg? ws "fmt").getD "fasta"
  let B := (argNat? ws "B").getD 4096
  let mode := (arg? ws "mode").getD "one"
  let rflag := (argNat? ws "r").getD 0 != 0
  let newname : Option Bytes := (argHex? ws "n").map List.toArray
  let (b1, r1) := EaselModel.Sqio.step { s.base with a := none, ssi := none, dead := false } s!"open fmt={fmt} abc=text B={B}"
  if !r1.startsWith "ok" then die s else
  -- main(): every retrieval mode opens the SSI index of a plain file first and ends with "Failed to open SSI index" without one
  if mode != "index" && s.tssi.isNone then die s else
  match mode with
  | "index" =>
    let (b2, r2) := EaselModel.Sqio.step b1 "index"
    if r2.startsWith "ok" then ({ s with tssi := b2.ssi }, r2) else ({ s with tssi := none }, "die")
  | "list" =>
    let (_, r2) := EaselModel.Sqio.step { b1 with ssi := s.tssi } s!"toolmulti text={(arg? ws "text").getD "-"}"
    if r2.startsWith "ok" then (s, r2) else die s
  | "sublist" =>
    match s.tssi with
    | none => die s
    | some _ =>
      let (_, r2) := EaselModel.Sqio.step { b1 with ssi := s.tssi } s!"toolmultisub text={(arg? ws "text").getD "-"}"
      if r2.startsWith "ok" then (s, r2) else die s
  | "sub" =>
    match s.tssi, b1.a, argHex? ws "key", argInt? ws "s", argInt? ws "e" with
    | some ssi, some a, some k, some gs, some ge =>
      let (st0, en, rc) := if ge != 0 && gs > ge then (ge, gs, true) else (gs, ge, false)
      let (_, sq, st) := fetchSubseq a ssi (freshSq 0) k.toArray st0 en
      if st != .ok then die s else
      let nm := match newname with
        | some n => n
        | none => k.toArray ++ #[47] ++ decBytes gs ++ #[45] ++ decBytes (if ge == 0 then sq.L else ge)
      let sq := { sq with name := nm }
      let (sq, st1, _) := if rc then revcomp sq else (sq, Status.ok, false)
      if st1 != .ok then die s else
      let (sq, st2, _) := if rflag then revcomp sq else (sq, Status.ok, false)
      if st2 != .ok then die s else
      (s, s!"ok hex={hexOrDash (writeFasta sq)}")
    | _, _, _, _, _ => die s
  | _ =>   -- "one"
    if !rflag && newname.isNone then
      let (_, r2) := EaselModel.Sqio.step { b1 with ssi := s.tssi } s!"toolfetch key={(arg? ws "key").getD "-"}"
      if r2.startsWith "ok" then (s, r2) else die s
    else
      match b1.a, argHex? ws "key" with
      | some a, some k =>
        let found : Option Sq :=
          match s.tssi with
          | some ssi =>
            match ssi.findName k.toArray with
            | none => none
            | some e =>
              if e.roff < 0 then none else
              let (a, st) := position a e.roff.toNat
              if st != .ok then none else
              let (_, sq, st) := read a (freshSq 0)
              if st != .ok then none else some sq
          | none => (scanFetchLoop (s.base.file.size + 2) a k.toArray).map (·.2)
        match found with
        | none => die s
        | some sq =>
          let (sq, st1, _) := if rflag then revcomp sq else (sq, Status.ok, false)
          if st1 != .ok then die s else
          let sq := match newname with | some n => { sq with name := n } | none => sq
          (s, s!"ok hex={hexOrDash (writeFasta sq)}")
      | _, _ => die s

end ToolDriver

def step7 (s : DS7) (line : String) : DS7 × String :=
  let ws := words line
  match ws with
  | "adb" :: _ | "aget" :: _ | "ascan" :: _ => AfetchDriver.step s ws
  | "toolcmd" :: _ => if s.base.unmodelled then (s, "unmodelled") else ToolDriver.run s ws
  | "file" :: _ => let (b, r) := step s.base line; ({ s with base := b, tssi := none }, r)
  | _ => let (b, r) := step s.base line; ({ s with base := b }, r)

def main : IO Unit := runDriver ({} : DS7) step7
