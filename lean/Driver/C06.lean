import EaselModel.Core.Proto
import EaselModel.Ssi.Model
/-! Line-protocol driver for the C06 model (esl_ssi.c). Same ops and answers as harness/h_ssi.c. -/
open EaselModel EaselModel.Proto EaselModel.Ssi

structure S where
  ns   : Option NewSsi := none
  file : Option Bytes := none        -- the index file on disk
  ssi  : Option Ssi := none
  tmp  : Bool := false               -- a tmp file of the external sort exists

def fnvBytes (bs : Bytes) : UInt64 :=
  bs.foldl (fun h b => (h ^^^ b.toUInt64) * (0x100000001b3 : UInt64)) (0xcbf29ce484222325 : UInt64)

def hex64 (x : UInt64) : String :=
  let s := (Nat.toDigits 16 x.toNat)
  String.ofList (List.replicate (16 - s.length) '0' ++ s)

def stName : Option St → String
  | none => "ok"
  | some e => e.name

def showHit (h : Hit) : String := s!"fh={h.fh} r={toSigned h.roff} d={toSigned h.doff} L={toSigned h.len}"

def showOpen (x : Ssi) : String :=
  s!"ok flags={x.flags} offsz={x.offsz} nfiles={x.nfiles} nprimary={x.nprimary} nsecondary={x.nsecondary} flen={x.flen} plen={x.plen} slen={x.slen} frec={x.frecsize} prec={x.precsize} srec={x.srecsize} foff={toSigned x.foffset} poff={toSigned x.poffset} soff={toSigned x.soffset}"

def HEXLIMIT : Nat := 1500

def step (s : S) (line : String) : S × String :=
  let ws := words line
  match ws with
  | "new" :: _ =>
    -- esl_newssi_Open: with allow_overwrite FALSE an existing index or tmp file gives eslEOVERWRITE and nothing is touched;
    -- otherwise the index file is created empty (fopen "w")
    match argNat? ws "ow" with
    | none => ({ s with ns := some {}, file := some [], ssi := none, tmp := false }, "ok")
    | some ow =>
      let pre := (argNat? ws "pre").getD 0
      let file0 : Option Bytes := if pre = 1 then some [111, 108, 100] else none
      let tmp0 := pre = 2 || pre = 3
      if ow = 0 ∧ pre ≠ 0 then
        ({ s with ns := none, file := file0, ssi := none, tmp := tmp0 },
         s!"eoverwrite file={if file0.isSome then 1 else 0} n={(file0.getD []).length} tmp={if tmp0 then 1 else 0}")
      else
        ({ s with ns := some {}, file := some [], ssi := none, tmp := tmp0 }, s!"ok file=1 n=0 tmp={if tmp0 then 1 else 0}")
  | "closens" :: _ =>
    match s.ns with
    | some ns =>
      -- esl_newssi_Close: removes the tmp files iff the index went external; the (empty) index file stays
      let tmp := if ns.external then false else s.tmp
      ({ s with ns := none, tmp := tmp }, s!"ok file={if s.file.isSome then 1 else 0} n={(s.file.getD []).length} tmp={if tmp then 1 else 0}")
    | none => (s, "bad-op")
  | "addfile" :: _ =>
    match s.ns, argHex? ws "name", argNat? ws "fmt" with
    | some ns, some name, some fmt =>
      match ns.addFile name fmt with
      | .ok (ns, fh) => ({ s with ns := some ns }, s!"ok fh={fh}")
      | .error e => (s, e.name)
    | _, _, _ => (s, "bad-op")
  | "setsubseq" :: _ =>
    match s.ns, argNat? ws "fh", argNat? ws "bpl", argNat? ws "rpl" with
    | some ns, some fh, some bpl, some rpl =>
      match ns.setSubseq fh bpl rpl with
      | .ok ns => ({ s with ns := some ns }, "ok")
      | .error e => (s, e.name)
    | _, _, _, _ => (s, "bad-op")
  | "addkey" :: _ =>
    match s.ns, argHex? ws "k", argNat? ws "fh", argNat? ws "r", argNat? ws "d", argNat? ws "L" with
    | some ns, some k, some fh, some r, some d, some l =>
      match ns.addKey k fh r d l with
      | .ok ns => ({ s with ns := some ns }, "ok")
      | .error e => (s, e.name)
    | _, _, _, _, _, _ => (s, "bad-op")
  | "addalias" :: _ =>
    match s.ns, argHex? ws "a", argHex? ws "k" with
    | some ns, some a, some k =>
      match ns.addAlias a k with
      | .ok ns => ({ s with ns := some ns }, "ok")
      | .error e => (s, e.name)
    | _, _, _ => (s, "bad-op")
  | "external" :: _ =>
    match s.ns with
    | some ns => ({ s with ns := some { ns with maxRam := 0 } }, "ok")
    | none => (s, "bad-op")
  | "maxram" :: _ =>
    match s.ns, argInt? ws "m" with
    | some ns, some m => ({ s with ns := some { ns with maxRam := m } }, "ok")
    | _, _ => (s, "bad-op")
  | "isext" :: _ =>
    match s.ns with
    | some ns => (s, s!"ok ext={if ns.external then 1 else 0}")
    | none => (s, "bad-op")
  | "write" :: _ =>
    match s.ns with
    | some ns =>
      -- nosort=1: sort(1) cannot be run. Only the external path calls it: system() fails, eslESYS, index removed.
      let sortFails := (argNat? ws "nosort").getD 0 ≠ 0 && ns.external && !ns.written &&
                       !(decide (ns.nsecondary > 0 ∧ ns.slen = 0)) && ns.flen ≠ 0
      let (ns1, st, file1) := if sortFails then (ns, some St.esys, (none : Option Bytes)) else ns.write s.file
      -- twice=1: esl_newssi_Write is called a second time before Close
      let twice := (argNat? ws "twice").getD 0 ≠ 0
      let (_, st2, file) := if twice then ns1.write file1 else (ns1, (none : Option St), file1)
      let again := if twice then s!" again={stName st2}" else ""
      let bytes := file.getD []
      let hx := if bytes.length ≤ HEXLIMIT then " hex=" ++ hexOrDash bytes else ""
      let tmp := if ns.external then false else s.tmp      -- Close removes the tmp files iff external
      ({ s with ns := none, file := file, tmp := tmp },
       s!"{stName st} file={if file.isSome then 1 else 0} tmp={if tmp then 1 else 0} n={bytes.length} h={hex64 (fnvBytes bytes)}{hx}{again}")
    | none => (s, "bad-op")
  | "openraw" :: _ =>
    match argHex? ws "hex" with
    | some b =>
      match Ssi.open b.toArray with
      | .error e => ({ s with file := some b, ssi := none }, e.name)
      | .ok x => ({ s with file := some b, ssi := some x }, showOpen x)
    | none => (s, "bad-op")
  | "open" :: _ =>
    match s.file with
    | none => ({ s with ssi := none }, "enotfound")
    | some b =>
      match Ssi.open b.toArray with
      | .error e => ({ s with ssi := none }, e.name)
      | .ok x => ({ s with ssi := some x }, showOpen x)
  | "find" :: _ =>
    match s.ssi, argHex? ws "k" with
    | some x, some k =>
      match x.findName k with
      | .ok h => (s, "ok " ++ showHit h)
      | .error e => (s, e.name)
    | _, _ => (s, "bad-op")
  | "findq" :: _ =>
    match s.ssi, argHex? ws "k" with
    | some x, some k =>
      match x.findName k with
      | .ok h => (s, s!"ok fh={h.fh} r={toSigned h.roff}")
      | .error e => (s, e.name)
    | _, _ => (s, "bad-op")
  | "findnumq" :: _ =>
    match s.ssi, argInt? ws "i" with
    | some x, some i =>
      match x.findNumber i with
      | .ok _ => (s, "ok")
      | .error e => (s, e.name)
    | _, _ => (s, "bad-op")
  | "findnum" :: _ =>
    match s.ssi, argInt? ws "i" with
    | some x, some i =>
      match x.findNumber i with
      | .ok (h, buf) => (s, "ok " ++ showHit h ++ " key=" ++ hexOrDash (cstr buf))
      | .error e => (s, e.name)
    | _, _ => (s, "bad-op")
  | "subseq" :: _ =>
    match s.ssi, argHex? ws "k", argInt? ws "start" with
    | some x, some k, some st =>
      match x.findSubseq k st with
      | .ok r => (s, s!"ok fh={r.hit.fh} r={toSigned r.hit.roff} d={toSigned r.doff} L={toSigned r.hit.len} actual={toSigned r.actual}")
      | .error e => (s, e.name)
    | _, _, _ => (s, "bad-op")
  | "fileinfo" :: _ =>
    match s.ssi, argNat? ws "fh" with
    | some x, some fh =>
      match x.fileInfo fh with
      | .ok f => (s, s!"ok name={hexOrDash (cstr f.name)} fmt={if f.format ≥ 2147483648 then (f.format : Int) - 4294967296 else f.format} flags={f.flags} bpl={f.bpl} rpl={f.rpl}")
      | .error e => (s, e.name)
    | _, _ => (s, "bad-op")
  | "close" :: _ => ({ s with ssi := none }, "ok")
  | _ => (s, "bad-op")

def main : IO Unit := runDriver ({} : S) step
