import EaselModel.Core.Proto
import EaselModel.Gencode.Model
import EaselModel.Gencode.Translate
import EaselModel.Gencode.History
import EaselModel.Generated.Gencode
/-! Line-protocol driver for the C17 model (same ops as harness/h_gencode.c). -/
open EaselModel EaselModel.Proto EaselModel.Alphabet EaselModel.Gencode

def hx (l : List Nat) : String := hexOrDash (l.map UInt8.ofNat)

def argBytes (ws : List String) (k : String) : List Nat :=
  match argHex? ws k with
  | some b => b.map (·.toNat)
  | none => []

instance : Inhabited Alphabet := ⟨{ type := 0, K := 0, Kp := 0, sym := [], inmap := [], degen := [], ndegen := [], complement := none }⟩

def NTD : Alphabet := (Alphabet.createDna).getD default
def NTR : Alphabet := (Alphabet.createRna).getD default
def AA : Alphabet := (Alphabet.createAmino).getD default


def makeCode (NT : Alphabet) (ws : List String) : Option Gencode := do
  let id := (argInt? ws "id").getD 1
  let g ← setTable EaselModel.Generated.Gencode.tables id
  match arg? ws "init" with
  | some "any" => some (setInitiatorAny AA g)
  | some "aug" => some (setInitiatorOnlyAUG NT g)
  | _ => some g

def byteOfInt (t : Int) : Nat := (t % 256).toNat

def tripletsLine (NT : Alphabet) (g : Gencode) : String := Id.run do
  let Kp := NT.Kp
  let mut tr : Array UInt8 := #[]
  let mut ini : Array UInt8 := #[]
  let mut fault := false
  for a in [0:Kp] do
    for b in [0:Kp] do
      for c in [0:Kp] do
        match getTranslation NT AA g a b c, isInitiator NT g a b c with
        | some t, some i =>
          tr := tr.push (UInt8.ofNat (byteOfInt t))
          ini := ini.push (UInt8.ofNat (byteOfInt i))
        | _, _ => fault := true
  if fault then return "fault"
  return s!"ok tr={hexOrDash tr.toList} in={hexOrDash ini.toList}"

def orfStr (o : Orf) : String := s!" {orfName o}:{o.frame}:{o.start}:{o.stop}:{o.aa.length}:{hx o.aa}:{hx (strBytes (orfDesc "seq" "a desc" o))}"

def orfStrX (source desc : String) (o : Orf) : String :=
  s!" {orfName o}:{o.start}:{o.stop}:{o.aa.length}:{hx o.aa}:{hx (strBytes (orfDesc source desc o))}"

def bytesToString (l : List Nat) : String := String.ofList (l.map fun b => Char.ofNat b)

/-- `xlate`: the main loops of esl-translate.c over the sequences of a file, set up as its `main()` does -/
def xlate (NT : Alphabet) (ws : List String) : String :=
  let flag (k : String) : Bool := (argNat? ws k).getD 0 ≠ 0
  let o : Opts := { crick := flag "crick", watson := flag "watson", optm := flag "m", optM := flag "M", l := (argInt? ws "l").getD 20 }
  if o.optm && o.optM then "bad-options" else
  let wc := workstateCreate o
  match codeForOpts NT AA EaselModel.Generated.Gencode.tables ((argInt? ws "id").getD 1) o with
  | none => "enotfound"
  | some g =>
    let n := (argNat? ws "n").getD 0
    let windowed := flag "W"
    let asText := flag "out"
    let rec go (fuel i : Nat) (w : Work) (acc : String) : Option (Work × String) :=
      match fuel with
      | 0 => some (w, acc)
      | fuel + 1 =>
        let name := (arg? ws s!"name{i}").getD "x"
        let desc := bytesToString (argBytes ws s!"desc{i}")
        let (st, dsq) := NT.digitize (argBytes ws s!"dna{i}")
        if st ≠ .ok then none else
        let d := (dsq.drop 1).take (dsq.length - 2)
        match (if windowed then byWindows NT AA g wc 4092 w d else bySequence NT AA g wc w d) with
        | none => none
        | some w' =>
          let news := (w'.c.out.take (w'.c.out.length - w.c.out.length)).reverse
          go fuel (i + 1) w' (acc ++ String.join (news.map fun o =>
            if asText then hexOfBytes ((fastaOrf AA name desc o).map UInt8.ofNat) else orfStrX name desc o))
    match go n 0 {} "" with
    | none => "fault"
    | some (w, acc) =>
      let b (x : Bool) : Nat := if x then 1 else 0
      if asText then s!"ok w={b wc.doWatson} c={b wc.doCrick} u={b wc.usingInit} l={wc.minlen} f=1 text={if acc.isEmpty then "-" else acc}"
      else s!"ok w={b wc.doWatson} c={b wc.doCrick} u={b wc.usingInit} l={wc.minlen} f=1 n={w.c.out.length}" ++ acc

/-- `hist`: a history of calls on one object -/
def hist (NT : Alphabet) (ws : List String) : String :=
  let tabs := EaselModel.Generated.Gencode.tables
  match setTable tabs 1 with
  | none => "bad-op"
  | some g0 =>
    let toks := ((arg? ws "ops").getD "").splitOn "," |>.filter (· ≠ "")
    let ops : List (HOp × String) := toks.map fun t =>
      if t.startsWith "s" then (HOp.set (((t.drop 1).toString).toInt?.getD 0), "enotfound")
      else if t == "a" then (HOp.any, "ok")
      else if t == "u" then (HOp.aug, "ok")
      else (HOp.read (argBytes ws t), "eformat")
    let (_, out) := ops.foldl (fun (acc : Gencode × String) (p : HOp × String) =>
      let r := hstep NT AA tabs acc.1 p.1
      let g := r.1
      (g, acc.2 ++ s!" {if r.2 then "ok" else p.2}:{g.translTable}:{hx (strBytes g.desc)}:{hx g.basic}:{hx g.isInit}")) (g0, "ok")
    out

def step (s : Unit) (line : String) : Unit × String :=
  let ws := words line
  match ws with
  | [] => (s, "bad-op")
  | op :: _ =>
  let NT := if arg? ws "nt" == some "rna" then NTR else NTD
  if op == "ntables" then
    let ids := ((List.range 302).map (fun (i : Nat) => Int.ofNat i - 2)).filter fun id => (setTable EaselModel.Generated.Gencode.tables id).isSome
    (s, "ok ids=" ++ ",".intercalate (ids.map toString))
  else if op == "decode" then
    match decodeDigicodon NT ((argInt? ws "d").getD 0) with
    | some l => (s, s!"ok {hx l}")
    | none => (s, "fault")
  else if op == "alttable" then
    (s, s!"ok {hx (strBytes (dumpAltCodeTable EaselModel.Generated.Gencode.tables))}")
  else if op == "xlate" then (s, xlate NT ws)
  else if op == "hist" then (s, hist NT ws)
  else if op == "read" || op == "readm" then
    match setTable EaselModel.Generated.Gencode.tables 1 with
    | none => (s, "bad-op")
    | some g1 =>
      match read NT AA g1 (argBytes ws "hex") with
      | none => (s, "eformat")
      | some g => (s, s!"ok id={g.translTable} desc={hx (strBytes g.desc)} basic={hx g.basic} init={hx g.isInit}")
  else
  match makeCode NT ws with
  | none => (s, "enotfound")
  | some g =>
  if op == "table" then
    (s, s!"ok id={g.translTable} desc={hx (strBytes g.desc)} basic={hx g.basic} init={hx g.isInit}")
  else if op == "triplets" then (s, tripletsLine NT g)
  else if op == "codon" then
    let a := (argNat? ws "a").getD 0; let b := (argNat? ws "b").getD 0; let c := (argNat? ws "c").getD 0
    match getTranslation NT AA g a b c, isInitiator NT g a b c with
    | some t, some i => (s, s!"ok aa={t} init={i}")
    | _, _ => (s, "fault")
  else if op == "compare" then
    let NT2 := if arg? ws "nt2" == some "rna" then NTR else NTD
    match setTable EaselModel.Generated.Gencode.tables ((argInt? ws "id2").getD 1) with
    | none => (s, "enotfound")
    | some g2 =>
      let g2 := match arg? ws "init2" with
        | some "any" => setInitiatorAny AA g2
        | some "aug" => setInitiatorOnlyAUG NT2 g2
        | _ => g2
      match compare NT.type AA.type NT2.type AA.type g g2 ((argNat? ws "meta").getD 0 ≠ 0) with
      | some true => (s, "ok same")
      | some false => (s, "ok differ")
      | none => (s, "fault")
  else if op == "write" then
    match write NT AA g ((argNat? ws "comment").getD 0 ≠ 0) with
    | some bytes => (s, s!"ok {hx bytes}")
    | none => (s, "fault")
  else if op == "readwrite" then
    match write NT AA g ((argNat? ws "comment").getD 0 ≠ 0), setTable EaselModel.Generated.Gencode.tables 1 with
    | some bytes, some g1 =>
      match read NT AA g1 bytes with
      | none => (s, "eformat msg")
      | some g2 =>
        let same := g2.basic == g.basic && g2.isInit == g.isInit.map (fun f => if f ≠ 0 then 1 else 0)
        (s, s!"ok {if same then "same" else "DIFFERENT"} id={g2.translTable} desc={hx (strBytes g2.desc)}")
    | _, _ => (s, "fault")
  else if op == "orfs" then
    let txt := (argBytes ws "dna").takeWhile (· ≠ 0)
    let (st, dsq) := NT.digitize txt
    if st ≠ .ok then (s, "bad-op") else
    let d := (dsq.drop 1).take (dsq.length - 2)
    let L := d.length
    let cuts := match arg? ws "cuts" with
      | some "-" => [L]
      | some cs => (cs.splitOn ",").filterMap String.toNat?
      | none => [L]
    if cuts.foldl (· + ·) 0 ≠ L || cuts.headD 0 < 2 && (arg? ws "cuts").isSome && arg? ws "cuts" ≠ some "-" then (s, "bad-op") else
    let usingN := (argNat? ws "using").getD 0
    let cfg : Cfg := { usingInit := usingN ≠ 0, minlen := (argInt? ws "minlen").getD 20 }
    let strand := (arg? ws "strand").getD "b"
    let w : Work := {}
    let r : Option Work := do
      if L < 3 then some w else
      let w ← if strand ≠ "c" && strand ≠ "n" then runStrand NT AA g cfg w false d cuts else some w
      if strand ≠ "w" && strand ≠ "n" then
        -- reverse strand in reading order = reversed complemented codes (C08 `revcomp_spec`: = esl_abc_revcomp)
        let comp := NT.complement.getD []
        let rc := d.reverse.map fun x => comp.getD x 255
        runStrand NT AA g cfg w true rc cuts
      else some w
    match r with
    | none => (s, "fault")
    | some w => (s, s!"ok n={w.c.out.length}" ++ String.join (w.c.out.reverse.map orfStr))
  else (s, "bad-op")

def main : IO Unit := runDriver () step
