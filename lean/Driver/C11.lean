import EaselModel.Core.Proto
import EaselModel.Stats.Histogram
import EaselModel.Stats.Fit
import EaselModel.Stats.FitCG
import EaselModel.Stats.Rootfinder
import EaselModel.Stats.MinTrace
import EaselModel.Stats.HistExpect
import EaselModel.Stats.FitGev
import EaselModel.Stats.FitSxpBinned
import EaselModel.Stats.Format
/-! Line-protocol driver for the C11 model (histogram + maximum-likelihood fits) over `Float`. -/
open EaselModel EaselModel.Proto EaselModel.Stats

structure S where
  h : Option (Hist Float) := none
  xs : Array Float := #[]
  e : Expect Float := Expect.init

def hex64 (x : UInt64) : String :=
  let s := (Nat.toDigits 16 x.toNat)
  String.ofList (List.replicate (16 - s.length) '0' ++ s)

def fb (x : Float) : String := hex64 x.toBits

def parseHex (w : String) : Option Nat :=
  w.toList.foldl (fun acc c => acc.bind fun a => (hexVal c).map fun d => a * 16 + d) (some 0)

def parseBits (w : String) : Option Float := (parseHex w).map fun n => Float.ofBits (UInt64.ofNat n)

def parseBitsList (s : String) : Array Float :=
  if s == "-" then #[] else
  (s.splitOn ",").foldl (fun acc w => match parseBits w with | some f => acc.push f | none => acc) #[]

def argF (ws : List String) (k : String) : Option Float := (arg? ws k).bind parseBits

def fnv (h : UInt64) (x : UInt64) : UInt64 := (h ^^^ x) * (0x100000001b3 : UInt64)

def hashF (xs : Array Float) (lo : Nat) : UInt64 := Id.run do
  let mut h : UInt64 := 0xcbf29ce484222325
  for i in [lo:xs.size] do
    h := fnv h xs[i]!.toBits
  return h

def dsName : Dataset → String
  | .complete => "complete" | .virtualCensored => "virtual" | .trueCensored => "true"

def b01 (b : Bool) : String := if b then "1" else "0"

def obsStr (obs : Array Nat) : String := Id.run do
  let mut parts : Array String := #[]
  for i in [0:obs.size] do
    let c := obs[i]!
    if c != 0 then parts := parts.push s!"{i}:{c}"
  return if parts.isEmpty then "-" else ",".intercalate parts.toList

def dump (h : Hist Float) : String :=
  s!"ok nb={h.nb} bmin={fb h.bmin} bmax={fb h.bmax} w={fb h.w} imin={h.imin} imax={h.imax} xmin={fb h.xmin} xmax={fb h.xmax} " ++
  s!"n={h.n} nc={h.nc} no={h.no} z={h.z} cmin={h.cmin} phi={fb h.phi} full={b01 h.isFull} done={b01 h.isDone} " ++
  s!"rounded={b01 h.isRounded} ds={dsName h.datasetIs} obs={obsStr h.obs}"

def tailStr (h : Hist Float) (mid : Nat) : String :=
  let nt := h.n - mid
  let first := if nt > 0 then fb (h.x.getD mid 0.0) else "-"
  let last := if nt > 0 then fb (h.x.getD (h.n - 1) 0.0) else "-"
  s!"ok n={nt} z={mid} first={first} last={last} hash={hex64 (hashF h.x mid)}"

def stLetter : St → Char
  | .ok => 'o' | .einval => 'i' | .erange => 'r' | .emem => 'm' | .enoresult => 'n' | .enohalt => 'h'

def fitOut : FitRes Float → String
  | .fault => "fault"
  | .hang => "fault hang"
  | .res st ps => st.name ++ ps.foldl (fun acc p => acc ++ " " ++ fb p) ""


def bitsList (xs : Array Float) : String := if xs.isEmpty then "-" else ",".intercalate (xs.toList.map fb)

def minCfgOf (ws : List String) (n : Nat) : MinCfg Float :=
  if (arg? ws "cfg").getD "null" != "create" then MinCfg.null else
  let c : MinCfg Float := MinCfg.create n
  let c := match argNat? ws "maxit" with | some k => { c with maxIter := k } | none => c
  let c := match argNat? ws "brackmax" with | some k => { c with brackMaxIter := k } | none => c
  let c := match argF ws "cgrtol" with | some v => { c with cgRtol := v } | none => c
  let c := match argF ws "cgatol" with | some v => { c with cgAtol := v } | none => c
  let c := match argF ws "brtol" with | some v => { c with brentRtol := v } | none => c
  let c := match argF ws "batol" with | some v => { c with brentAtol := v } | none => c
  let c := match argF ws "dstep" with | some v => { c with derivStep := v } | none => c
  match arg? ws "u" with
  | some us =>
    let u := parseBitsList us
    { c with u := some ((Array.range n).map fun i => if i < u.size then u[i]! else 1.0) }
  | none => c

def stepRoot (ws : List String) : String :=
  let fam := (arg? ws "fam").getD ""
  let c := parseBitsList ((arg? ws "c").getD "-")
  let reps := min ((argNat? ws "reps").getD 1) 3
  let cfg0 : RootCfg Float := if (arg? ws "meth") == some "newton" || (argNat? ws "fdf").getD 0 != 0 then RootCfg.defaultFDF else RootCfg.default
  let cfg := match argF ws "abstol" with | some v => { cfg0 with absTol := v } | none => cfg0
  let cfg := match argF ws "reltol" with | some v => { cfg with relTol := v } | none => cfg
  let cfg := match argF ws "restol" with | some v => { cfg with residTol := v } | none => cfg
  let cfg := match argInt? ws "maxit" with | some v => { cfg with maxIter := v } | none => cfg
  match rootFamily fam c, arg? ws "meth" with
  | some fdf, some "bis" =>
    let xl := (argF ws "xl").getD 0.0; let xr := (argF ws "xr").getD 0.0
    let (_, parts) := (List.range reps).foldl (fun (acc : Int × List String) _ =>
      let r := rootBisection cfg (fun x => (fdf x).1) acc.1 xl xr
      (r.iter, acc.2 ++ [s!"{r.st.name} x={fb r.x} iter={r.iter} xl={fb r.xl} xr={fb r.xr}"])) (0, [])
    " | ".intercalate parts
  | some fdf, some "newton" =>
    let g := (argF ws "guess").getD 0.0
    let (_, _, parts) := (List.range reps).foldl (fun (acc : Int × Float × List String) _ =>
      let r := rootNewton cfg fdf acc.1 acc.2.1 g
      (r.iter, r.xl, acc.2.2 ++ [s!"{r.st.name} x={fb r.x} iter={r.iter} x0={fb r.xl}"])) (0, 0.0, [])
    " | ".intercalate parts
  | _, _ => "bad-op"

def natList (l : List Nat) : String := if l.isEmpty then "-" else ",".intercalate (l.map toString)

def hashList (l : List Float) : UInt64 := l.foldl (fun h x => fnv h x.toBits) 0xcbf29ce484222325

def monoList : List Float → Bool
  | a :: b :: t => decide (b ≤ a) && monoList (b :: t)
  | _ => true

def stepMin (ws : List String) (op : String) (xs : Array Float) : String :=
  let p := parseBitsList ((arg? ws "p").getD "-")
  let x0 := parseBitsList ((arg? ws (if op == "cgd" then "x0" else "ori")).getD "-")
  let fam := (arg? ws "fam").getD ""
  let famO : Option ((Array Float → Float) × Option (Array Float → Array Float)) :=
    match objFamily (α := Float) fam p with
    | some r => some r
    | none => (nllFamily fam xs p).map fun f => (f, none)
  match famO with
  | none => "bad-op"
  | some (f, g) =>
    if x0.size < 1 then "bad-op" else
    let cfg := minCfgOf ws x0.size
    if op == "cgd" then
      let df := if (argNat? ws "grad").getD 0 != 0 then g else none
      let (r, tr) := cgdT cfg f df x0
      match r.1 with
      | .hang => "fault hang"
      | .res st x fx =>
        let base := s!"{st.name} fx={fb fx} x=" ++ (if st == .ok || st == .enohalt then bitsList x else "-")
        if (argNat? ws "nodat").getD 0 != 0 || !(st == .ok || st == .enohalt) then base else
        let fxs := f x0 :: tr.rows.map (·.fx)
        base ++ s!" it={tr.rows.length} nf0={tr.nfunc0} mono={b01 (monoList fxs)} hash={hex64 (hashList fxs)}" ++
          s!" bn={natList (tr.rows.map (·.brackN))} rn={natList (tr.rows.map (·.brentN))} nf={natList (tr.rows.map (·.nfunc))}"
    else
      let d := parseBitsList ((arg? ws "d").getD "-")
      if d.size != x0.size then "bad-op" else
      let fline (t : Float) : Float := f (pointAt x0 d t)
      if op == "bracket" then
        match bracketCG cfg fline (f x0) ((argF ws "first").getD 0.0) with
        | none => "enoresult"
        | some b => s!"ok ax={fb b.ax} bx={fb b.bx} cx={fb b.cx} fa={fb b.fa} fb={fb b.fb} fc={fb b.fc}"
      else
        match brentCG cfg fline ((argF ws "a").getD 0.0) ((argF ws "b").getD 0.0) with
        | none => "fault hang"
        | some (x, fx) => s!"ok x={fb x} fx={fb fx}"

def stepH (s : S) (ws : List String) (h : Hist Float) : S × String :=
  match ws with
  | "hadd" :: _ =>
    let xs := parseBitsList ((arg? ws "xs").getD "-")
    let rec go (i : Nat) (fuel : Nat) (h : Hist Float) (acc : List Char) : Option (Hist Float) × List Char :=
      match fuel with
      | 0 => (some h, acc)
      | fuel+1 =>
        if i < xs.size then
          match h.add xs[i]! with
          | .fault => (none, acc)
          | .val (st, h') => go (i+1) fuel h' (stLetter st :: acc)
        else (some h, acc)
    match go 0 (xs.size + 1) h [] with
    | (some h', acc) => ({ s with h := some h' }, "st=" ++ String.ofList acc.reverse)
    | (none, _) => (s, "fault")
  | "hscore" :: _ =>
    match argF ws "x" with
    | some x => let (st, b) := h.score2bin x; (s, s!"{st.name} b={b} lb={fb (h.lbound b)}")
    | none => (s, "bad-op")
  | "hdump" :: _ => (s, dump h)
  | "hrank" :: _ =>
    match argInt? ws "r" with
    | some r =>
      match h.getRank r with
      | .fault => (s, "fault")
      | .val (st, h', v) => ({ s with h := some h' }, if st == .ok then s!"ok {fb v}" else st.name)
    | none => (s, "bad-op")
  | "htail" :: _ =>
    match argF ws "phi" with
    | some phi =>
      match h.getTail phi with
      | .fault => (s, "fault")
      | .val (st, h', mid) => ({ s with h := some h' }, if st == .ok then tailStr h' mid else st.name)
    | none => (s, "bad-op")
  | "htailmass" :: _ =>
    match argF ws "p" with
    | some p =>
      let (st, h', k) := h.getTailByMass p
      ({ s with h := some h' }, if st == .ok then tailStr h' (h'.n - k) else st.name)
    | none => (s, "bad-op")
  | "hdata" :: _ =>
    let (st, h') := h.getData
    ({ s with h := some h' }, if st == .ok then tailStr h' 0 else st.name)
  | "hcens" :: _ =>
    match argInt? ws "z", argF ws "phi" with
    | some z, some phi => let (st, h') := h.declareCensoring z phi; ({ s with h := some h' }, st.name)
    | _, _ => (s, "bad-op")
  | "hround" :: _ => ({ s with h := some h.declareRounding }, "ok")
  | "hsettail" :: _ =>
    match argF ws "phi" with
    | some phi =>
      match h.setTail phi with
      | .fault => (s, "fault")
      | .val (st, h', m) => ({ s with h := some h' }, if st == .ok then s!"ok mass={fb m}" else st.name)
    | none => (s, "bad-op")
  | "hsettailmass" :: _ =>
    match argF ws "p" with
    | some p =>
      match h.setTailByMass p with
      | .fault => (s, "fault")
      | .val (st, h', m) => ({ s with h := some h' }, if st == .ok then s!"ok mass={fb m}" else st.name)
    | none => (s, "bad-op")
  | "hexpect" :: _ =>
    match cdfFamily (α := Float) ((arg? ws "cdf").getD "") (parseBitsList ((arg? ws "c").getD "-")) with
    | none => (s, "bad-op")
    | some cdf => let (h', e') := h.setExpect s.e cdf; ({ s with h := some h', e := e' }, "ok")
  | "hexptail" :: _ =>
    match cdfFamily (α := Float) ((arg? ws "cdf").getD "") (parseBitsList ((arg? ws "c").getD "-")) with
    | none => (s, "bad-op")
    | some cdf =>
      let (st, h', e') := h.setExpectedTail s.e ((argF ws "base").getD 0.0) ((argF ws "pmass").getD 0.0) cdf
      ({ s with h := some h', e := e' }, st.name)
  | "hexpdump" :: _ =>
    match s.e.expect with
    | none => (s, s!"ok null emin={s.e.emin} tailfit={b01 s.e.isTailfit} done={b01 h.isDone}")
    | some ex =>
      let hh := ex.foldl (fun acc v => fnv acc (if v != v then (0x7ff8000000000000 : UInt64) else v.toBits)) 0xcbf29ce484222325
      let npos := ex.foldl (fun acc v => if v > 0.0 then acc + 1 else acc) 0
      (s, s!"ok nb={h.nb} emin={s.e.emin} tailfit={b01 s.e.isTailfit} done={b01 h.isDone} tailbase={fb s.e.tailbase} tailmass={fb s.e.tailmass} npos={npos} hash={hex64 hh}")
  | "hgood" :: _ =>
    match h.goodness s.e ((argInt? ws "nfitted").getD 0) with
    | .fault => (s, "fault")
    | .val (g, _) => (s, if g.st == .einval then "einval" else s!"{g.st.name} nbins={g.nbins} G={fb g.g} Gp={fb g.gp} X2={fb g.x2} X2p={fb g.x2p}")
  | "hplot" :: _ =>
    match h.plotObserved with
    | .fault => (s, "fault")
    | .val rows =>
      let sum := rows.foldl (fun acc r => acc + r.2) 0
      let txt := match h.plotText with | some t => hex64 (fnvText t) | none => "-"
      match s.e.expect with
      | none => (s, s!"ok sets=1 rows1={rows.length + 1} rows2=0 sum={sum} txt={txt}")
      | some ex => (s, s!"ok sets=2 rows1={rows.length + 1} rows2={(plotExpected ex).length} sum={sum} txt={txt}")
  | "hplotsurv" :: _ =>
    match h.plotSurvival with
    | .fault => (s, "fault")
    | .val (first, rows) =>
      let r1 := rows.length + (if first then 1 else 0)
      let cum := match rows.getLast? with | some r => r.2 | none => 0
      let cumS := if h.nc > 0 && h.nc ≤ 10000 then (if r1 == 0 then "0" else toString cum) else "-"
      match s.e.expect with
      | none => (s, s!"ok sets=1 rows1={r1} rows2=0 cum={cumS}")
      | some ex => (s, s!"ok sets=2 rows1={r1} rows2={(survExpected ex).length} cum={cumS}")
  | "hplotqq" :: _ =>
    match h.plotQQ s.e with
    | .fault => (s, "fault")
    | .val rows =>
      let cum := match rows.getLast? with | some r => r.2 | none => 0
      let cumS := if !s.e.isTailfit && h.nc > 0 && h.nc ≤ 10000 && rows.length > 0 then toString cum else "-"
      (s, s!"ok sets=2 rows1={rows.length} rows2=2 cum={cumS}")
  | "hexpfit" :: _ => (s, fitOut (expFitCompleteBinned h))
  | "hgamfit" :: _ => (s, fitOut (gamFitCompleteBinned h))
  | "hweifit" :: _ => (s, fitOut (weiFitCompleteBinned h s.e.isTailfit))
  | "hsxpfit" :: _ => (s, fitOut (sxpFitCompleteBinned h s.e.isTailfit))
  | _ => (s, "bad-op")

def step (s : S) (line : String) : S × String :=
  let ws := words line
  match ws with
  | "hnew" :: _ =>
    match argF ws "bmin", argF ws "bmax", argF ws "w" with
    | some bmin, some bmax, some w =>
      let r := if (argNat? ws "full").getD 0 == 1 then Hist.createFull bmin bmax w else Hist.create bmin bmax w
      match r with
      | .fault => ({ s with h := none, e := Expect.init }, "fault")
      | .val none => ({ s with h := none, e := Expect.init }, "null")
      | .val (some h) => ({ s with h := some h, e := Expect.init }, s!"ok nb={h.nb}")
    | _, _, _ => (s, "bad-op")
  | "sample" :: _ => (s, "unmodelled")
  | "root" :: _ => (s, stepRoot ws)
  | "cgd" :: _ => (s, stepMin ws "cgd" s.xs)
  | "bracket" :: _ => (s, stepMin ws "bracket" s.xs)
  | "brent" :: _ => (s, stepMin ws "brent" s.xs)
  | "data" :: _ =>
    let xs := parseBitsList ((arg? ws "xs").getD "-")
    ({ s with xs := xs }, s!"ok n={xs.size}")
  | "sxpcdf" :: _ =>
    (s, s!"ok {fb (sxpCdf ((argF ws "x").getD 0.0) ((argF ws "mu").getD 0.0) ((argF ws "lambda").getD 0.0) ((argF ws "tau").getD 0.0))}")
  | "gevobj" :: _ =>
    let p := parseBitsList ((arg? ws "p").getD "-")
    if p.size != 3 then (s, "bad-op") else
    let cens : Option (Int × Float) := if (argInt? ws "cens").getD 0 != 0 then some ((argInt? ws "z").getD 0, (argF ws "a").getD 0.0) else none
    let g := gevGrad s.xs cens p
    (s, s!"ok f={fb (gevFunc s.xs cens p)} g0={fb (g.getD 0 0.0)} g1={fb (g.getD 1 0.0)} g2={fb (g.getD 2 0.0)}")
  | "fitcount" :: _ =>
    let c := parseBitsList ((arg? ws "cs").getD "-")
    if c.size < 1 then (s, "bad-op") else
    match (arg? ws "kind").getD "" with
    | "lognormal" => (s, fitOut (lognormalFitCountHistogram c))
    | "gamma" => (s, fitOut (gamFitCountHistogram c ((argF ws "a").getD 0.0)))
    | _ => (s, "bad-op")
  | "fit" :: _ =>
    let xs := s.xs
    let kind := (arg? ws "kind").getD ""
    let a := (argF ws "a").getD 0.0
    let b := (argF ws "b").getD 0.0
    let z := (argInt? ws "z").getD 0
    (s, match runFit kind xs a b z with
        | some r => fitOut r
        | none => match runFitCG kind xs a with
          | some r => fitOut r
          | none =>
            if kind == "gamma" then fitOut (gamFitComplete xs a)
            else if kind == "gev" then fitOut (gevFitComplete xs)
            else if kind == "gevcens" then fitOut (gevFitCensored xs z a)
            else "unmodelled")
  | op :: _ =>
    if op.startsWith "h" then
      match s.h with
      | some h => stepH s ws h
      | none => (s, "nohist")
    else (s, "bad-op")
  | [] => (s, "bad-op")

def main : IO Unit := runDriver ({} : S) step
