import EaselModel.Core.Proto
import EaselModel.Getopts.Model
import EaselModel.Getopts.WfCheck
import EaselModel.Getopts.Alloc
import EaselModel.Getopts.Help
import EaselModel.Getopts.Round
import EaselModel.Getopts.RealRound
import EaselModel.Getopts.DumpText
/-! Line-protocol driver for the C14 model (same ops as harness/h_getopts.c). -/
open EaselModel EaselModel.Proto EaselModel.Getopts

structure S where
  table : List Opt := []
  helps : List (Option Str × Nat) := []     -- help string and docgroup tag of each row (only `esl_opt_DisplayHelp` reads them)
  g : Option GC := none      -- the object with its allocation layer (`Alloc.lean`); the queries read its erasure
  dead : Bool := false      -- the model predicted a crash of the C code: nothing more is answered

def strOfBytes (bs : List UInt8) : Str := bs.map (fun b => Char.ofNat b.toNat)
def bytesOfStr (s : Str) : List UInt8 := s.map (fun c => UInt8.ofNat c.toNat)

/-- `~` = NULL, `-` = empty, else hex -/
def field (ws : List String) (key : String) : Option Str :=
  match arg? ws key with
  | none => none
  | some "~" => none
  | some v => (bytesOfHex v).map strOfBytes

def hexWord (w : String) : Str := ((bytesOfHex w).getD []).map (fun b => Char.ofNat b.toNat)

def statusName : Status → String
  | .ok => "ok"
  | .esyntax => "esyntax"
  | .einval => "einval"

def report (s : S) (r : RC) : S × String :=
  match r with
  | .fault => ({ s with dead := true }, "fault")
  | .done g st m => ({ s with g := some g }, statusName st ++ (if m then " msg" else " nomsg"))

def valRepr : Val → String
  | .null => "~"
  | .one => "1"
  | .str s => hexOrDash (bytesOfStr s)

def b01 (b : Bool) : String := if b then "1" else "0"

def typed (g : G) (i : Nat) : String :=
  let o := g.opt i
  let v := g.valOf i
  match o.type with
  | 0 => "b" ++ b01 (!v.isNull)
  | 1 => match v with
    | .str s => "i" ++ toString (atoi s)
    | _ => "i~"
  | 2 => match v with
    | .str s => "x" ++ (atof s).canon
    | _ => "x~"
  | 3 => match v with
    | .str s => "c" ++ toString ((s.getD 0 '\x00').toNat)
    | _ => "c~"
  | 4 | 5 | 6 => match v with
    | .str s => "s" ++ toString s.length
    | _ => "s-1"
  | _ => "t?"

def dump (g : G) : String :=
  let n := argNumber g
  let args := (List.range (n + 1).toNat).map fun (k : Nat) =>
    match getArg g ((k : Int) + 1) with
    | none => "~"
    | some a => hexOrDash (bytesOfStr a)
  let opts := (List.range g.opts.length).map fun i =>
    -- the stored value is shown by index; the query calls go by NAME (`get_optidx_exactly`: the first option of that
    -- name — the same index unless the table has duplicate names)
    let j := (optidxExactly g.opts (g.opt i).name).getD i
    (if (g.opt i).type == 0 then (if (g.valOf i).isNull then "~" else "1") else valRepr (g.valOf i)) ++ "/" ++ toString (g.setter j) ++ "/" ++ b01 (isDefault g j) ++ b01 (isOn g j) ++ b01 (isUsed g j)
      ++ "/" ++ typed g j
  let a0 := (if (getArg g 0).isSome then "x" else "~") ++ (if (getArg g (-1)).isSome then "x" else "~")
  "ok argn=" ++ toString n ++ " args=" ++ ",".intercalate args ++ " a0=" ++ a0 ++ " opts=" ++ ";".intercalate opts

def step (s : S) (line : String) : S × String :=
  if s.dead then (s, "fault") else
  let ws := words line
  match ws with
  | "opt" :: _ =>
    if s.g.isSome then (s, "bad-op") else
    match field ws "name", argNat? ws "type" with
    | some name, some t =>
      let o : Opt := { name := name, type := t, defval := field ws "def", envvar := field ws "env", range := field ws "range",
                       toggle := field ws "tog", required := field ws "req", incompat := field ws "inc" }
      let h : Option Str := if (arg? ws "help").isSome then field ws "help" else some "help".toList
      ({ s with table := s.table ++ [o], helps := s.helps ++ [(h, (argNat? ws "grp").getD 0)] }, "ok")
    | _, _ => (s, "bad-op")
  | "defapp" :: _ =>
    let argv := match arg? ws "w" with
      | none => []
      | some "" => []
      | some v => (v.splitOn ",").map hexWord
    if s.table.isEmpty || argv.isEmpty then (s, "bad-op") else
    (match createDefaultApp s.table ((argInt? ws "nargs").getD (-1)) argv with
      | none => ({ s with dead := true }, "fault")
      | some .exitParse => (s, "exit1 parse")
      | some .exitHelp => (s, "exit0 help")
      | some .exitNargs => (s, "exit1 nargs")
      | some (.returned g) => (s, "returned argn=" ++ toString (argNumber g)))
  | "realrange" :: _ =>
    let v := (field ws "v").getD []
    if realArgAccepted v (field ws "r") then (s, "ok bits=" ++ hex16 (atofBits v)) else (s, "esyntax msg")
  | "atof" :: _ =>
    let v := (field ws "s").getD []
    (s, "isreal=" ++ b01 (isReal v) ++ " bits=" ++ hex16 (atofBits v))
  | "create" :: _ =>
    if s.g.isSome || s.table.isEmpty then (s, "bad-op") else
    match createC s.table with
    | some g =>
      -- the table must lie in the class the theorems (`WF`) and the generator's conventions (`wfStrictB`) assume
      -- `create raw=1`: a deliberately ill-formed table (what Create does with it is `IllFormed.lean`)
      ({ s with g := some g }, if wfStrictB s.table || (arg? ws "raw").isSome then "ok" else "ok-table-outside-wfStrict")
    | none => (s, "einval")
  | op :: _ =>
    match s.g with
    | none => (s, "nog")
    | some g =>
      match op with
      | "cmdline" =>
        let argv := match arg? ws "w" with
          | none => []
          | some "" => []
          | some v => (v.splitOn ",").map hexWord
        report s (processCmdlineC g argv)
      | "spoof" => report s (processSpoofC g ((field ws "s").getD []))
      | "env" =>
        let pairs : List (Str × Str) := match arg? ws "v" with
          | none => []
          | some "" => []
          | some v => (v.splitOn ",").filterMap fun p =>
              match p.splitOn ":" with
              | [a, b] => some (hexWord a, hexWord b)
              | _ => none
        -- later assignments of the same name win (setenv overwrite)
        let env : Str → Option Str := fun name => (pairs.reverse.find? (fun p => p.1 == name)).map (·.2)
        report s (processEnvironmentC g env)
      | "cfg" => report s (processConfigfileC g ((field ws "s").getD []))
      | "verify" =>
        let (st, m) := verifyConfig g.abs
        (s, statusName st ++ (if m then " msg" else " nomsg"))
      | "help" =>
        let rows : List HelpRow := (s.table.zip s.helps).map fun (o, h) =>
          { name := o.name, type := o.type, help := h.1, defval := o.defval, range := o.range, tag := h.2 }
        (match displayHelp rows ((argNat? ws "grp").getD 0) ((argNat? ws "indent").getD 0) ((argNat? ws "width").getD 80) with
          | some lines => (s, "ok " ++ hexOrDash (bytesOfStr (lines.flatMap (fun l => l ++ ['\n']))))
          | none => (s, "einval -"))
      | "dumptext" =>
        (match dumpText g.abs with
          | some t => (s, "ok " ++ hexOrDash (bytesOfStr t))
          | none => ({ s with dead := true }, "fault"))
      | "spoofcmd" =>
        (match spoofCmdline g.abs with
          | some t => (s, "ok " ++ hexOrDash (bytesOfStr t))
          | none => ({ s with dead := true }, "fault"))
      | "dump" =>
        -- a getter that would run off an unterminated block is a crash of the C code
        if !g.readable then ({ s with dead := true }, "fault")
        else (s, dump g.abs ++ " valloc=" ++ ",".intercalate (g.valloc.map toString))
      | "reuse" => ({ s with g := some (reuseC g) }, "ok")
      | _ => (s, "bad-op")
  | [] => (s, "bad-op")

def main : IO Unit := runDriver ({} : S) step
