import EaselModel.Core.Proto
import EaselModel.Msafile.Basic
import EaselModel.Msafile.AbcTables
import EaselModel.Msafile.Afa
import EaselModel.Msafile.Dump
import EaselModel.Msafile.Digitize
/-! Line-protocol driver for the C03 model: `rt fmt=… abc=… <msa fields>`: build, write, read back, re-write. -/
open EaselModel.Proto EaselModel.Msafile

def abcOf (s : String) : Option (Option Abc) :=
  if s == "text" then some none
  else if s == "amino" then some (some abcAmino)
  else if s == "dna" then some (some abcDna)
  else if s == "rna" then some (some abcRna)
  else none

/-- what the harness prints after `bytes=`: declared-format read, second read, re-write -/
def roundTrip (write : Msa → Bytes) (read : List Bytes → Res Msa × List Bytes) (m : Msa) : String :=
  let b := write m
  let pre := "build=ok m=" ++ m.dump ++ " wr=ok bytes=" ++ hexOrDash b ++ " open=ok"
  match read (splitLines b) with
  | (.ok m2, rest) =>
    let r2 := match (read rest).1 with
      | .ok _ => "ok" | .eof => "eof" | .eformat _ => "eformat" | .fault => "fault" | .exc => "exc"
    pre ++ resToken (.ok m2) ++ " rd2=" ++ r2 ++ " rw=" ++ (if write m2 == b then "same" else "diff")
  | (r, _) => pre ++ resToken r

def rtOp (ws : List String) : String :=
  match arg? ws "fmt", abcOf ((arg? ws "abc").getD "text") with
  | some fmt, some abc =>
    let m0 := msaOfFields ws
    let m? : Option Msa := match abc with
      | none => some m0
      | some a => m0.digitize a
    match m? with
    | none => "build=einval"
    | some m =>
      if fmt == "afa" then roundTrip (afaWrite abc) (afaRead (afaCfg abc)) m
      else "unmodelled"
  | _, _ => "unmodelled"

def step (s : Unit) (line : String) : Unit × String :=
  let ws := words line
  match ws with
  | "rt" :: _ => (s, rtOp ws)
  | _ => (s, "unmodelled")

def main : IO Unit := runDriver () step
