import EaselModel.Core.Proto
import EaselModel.Msafile.Basic
import EaselModel.Msafile.AbcTables
import EaselModel.Msafile.Afa
import EaselModel.Msafile.Dump
import EaselModel.Msafile.Digitize
import EaselModel.Msafile.Write
import EaselModel.Msafile.A2m
import EaselModel.Msafile.Clustal
import EaselModel.Msafile.Psiblast
import EaselModel.Msafile.Phylip
import EaselModel.Msafile.Selex
import EaselModel.Msafile.Stockholm
/-! Line-protocol driver for the C03 model: `rt fmt=… abc=… <msa fields>`: build, write, read back, re-write. -/
open EaselModel.Proto EaselModel.Msafile

def abcOf (s : String) : Option (Option Abc) :=
  if s == "text" then some none
  else if s == "amino" then some (some abcAmino)
  else if s == "dna" then some (some abcDna)
  else if s == "rna" then some (some abcRna)
  else none

/-- what the harness prints after `bytes=`: declared-format read, second read, re-write -/
def roundTrip (write : Msa → Bytes) (read : List Bytes → Res Msa × List Bytes) (m : Msa) : String :=
  let b := write m
  let pre := "build=ok m=" ++ m.dump ++ " wr=ok bytes=" ++ hexOrDash b ++ " open=ok"
  match read (splitLines b) with
  | (.ok m2, rest) =>
    let r2 := match (read rest).1 with
      | .ok _ => "ok" | .eof => "eof" | .eformat _ => "eformat" | .fault => "fault" | .exc => "exc"
    pre ++ resToken (.ok m2) ++ " rd2=" ++ r2 ++ " rw=" ++ (if write m2 == b then "same" else "diff")
  | (r, _) => pre ++ resToken r

/-- Stockholm/Pfam: the reader model does not carry the numeric value of weights and cut-offs, so re-writing the re-read
    alignment cannot be predicted when they are present: the answer then stops after `rd2=` -/
def roundTripSto (write : Msa → Bytes) (read : List Bytes → Res Msa × List Bytes) (m : Msa) : String :=
  let full := roundTrip write read m
  if m.hasw || m.cutoff.any Option.isSome then
    match full.splitOn " rw=" with
    | pre :: _ => pre
    | [] => full
  else full

/-- formats whose reader is not modelled yet: the answer stops after `bytes=` -/
def writeOnly (write : Msa → Bytes) (m : Msa) : String :=
  "build=ok m=" ++ m.dump ++ " wr=ok bytes=" ++ hexOrDash (write m)

/-- `printf("%.2f")` / `printf("%.1f")` alone (op `fmt d=<16 hex> f=<8 hex>`), for the differential test of `fmtF2`/`fmtF1` -/
def fmtOp (ws : List String) : String :=
  let d := parseHex64 ((arg? ws "d").getD "0")
  let f := UInt32.ofNat (parseHex64 ((arg? ws "f").getD "0")).toNat
  "f2=" ++ hexOrDash (fmtF2 d) ++ " f1=" ++ hexOrDash (fmtF1 f)

def rtOp (ws : List String) : String :=
  match arg? ws "fmt", abcOf ((arg? ws "abc").getD "text") with
  | some fmt, some abc =>
    let m0 := msaOfFields ws
    let m? : Option Msa := match abc with
      | none => some m0
      | some a => m0.digitize a
    match m? with
    | none => "build=einval"
    | some m =>
      if fmt == "afa" then roundTrip (afaWrite abc) (afaRead (afaCfg abc)) m
      else if fmt == "a2m" then roundTrip (a2mWrite abc) (a2mRead (a2mCfg abc)) m
      else if fmt == "psiblast" then roundTrip (psiblastWrite abc) (psiblastRead (psiblastCfg abc)) m
      else if fmt == "clustal" then roundTrip (clustalWrite false abc) (clustalRead false (clustalCfg abc)) m
      else if fmt == "clustallike" then roundTrip (clustalWrite true abc) (clustalRead true (clustalCfg abc)) m
      else if fmt == "phylip" || fmt == "phylips" then
        -- `via=direct nw=… rpl=…`: `esl_msafile_phylip_Write` with an ESL_MSAFILE_FMTDATA, read back with `fmtd.namewidth = nw`
        let seq := fmt == "phylips"
        if (arg? ws "via") == some "direct" && ((arg? ws "nw").isSome || (arg? ws "rpl").isSome) then
          let nw := (argNat? ws "nw").getD 0
          let rpl := (argNat? ws "rpl").getD 0
          roundTrip (phylipWriteW nw rpl seq abc) (phylipReadW nw seq (phylipCfg abc)) m
        else roundTrip (phylipWrite seq abc) (phylipRead seq (phylipCfg abc)) m
      else if fmt == "stockholm" then roundTripSto (stockholmWrite false abc) (stockholmRead (stockholmCfg abc)) m
      else if fmt == "pfam" then roundTripSto (stockholmWrite true abc) (stockholmRead (stockholmCfg abc)) m
      else if fmt == "selex" then roundTrip (selexWrite abc) (selexRead (selexCfg abc)) m
      else "unmodelled"
  | _, _ => "unmodelled"

/-- `reformat fmt=… abc=… hex=…`: read the first alignment, write it in the same format, read the written bytes back, compare -/
def reformatWith (write : Msa → Bytes) (read : List Bytes → Res Msa × List Bytes) (lines : List Bytes) : String :=
  match (read lines).1 with
  | .ok m =>
    let pre := "open=ok" ++ resToken (.ok m) ++ " wr=ok open2=ok"
    match (read (splitLines (write m))).1 with
    | .ok m2 => pre ++ " rd2=ok same=" ++ (if m2.dump == m.dump then "yes" else "no")
    | .eof => pre ++ " rd2=eof"
    | .eformat _ => pre ++ " rd2=eformat:msg"
    | .fault => pre ++ " fault"
    | .exc => pre ++ " exc"
  | r => "open=ok" ++ resToken r

def reformatOp (ws : List String) : String :=
  match arg? ws "fmt", abcOf ((arg? ws "abc").getD "text"), argHex? ws "hex" with
  | some fmt, some abc, some bytes =>
    let lines := splitLines bytes
    if fmt == "afa" then reformatWith (afaWrite abc) (afaRead (afaCfg abc)) lines
    else if fmt == "a2m" then reformatWith (a2mWrite abc) (a2mRead (a2mCfg abc)) lines
    else if fmt == "psiblast" then reformatWith (psiblastWrite abc) (psiblastRead (psiblastCfg abc)) lines
    else if fmt == "clustal" then reformatWith (clustalWrite false abc) (clustalRead false (clustalCfg abc)) lines
    else if fmt == "clustallike" then reformatWith (clustalWrite true abc) (clustalRead true (clustalCfg abc)) lines
    else if fmt == "phylip" then reformatWith (phylipWrite false abc) (phylipRead false (phylipCfg abc)) lines
    else if fmt == "phylips" then reformatWith (phylipWrite true abc) (phylipRead true (phylipCfg abc)) lines
    else if fmt == "selex" then reformatWith (selexWrite abc) (selexRead (selexCfg abc)) lines
    else if fmt == "stockholm" then reformatWith (stockholmWrite false abc) (stockholmRead (stockholmCfg abc)) lines
    else if fmt == "pfam" then reformatWith (stockholmWrite true abc) (stockholmRead (stockholmCfg abc)) lines
    else "unmodelled"
  | _, _, _ => "unmodelled"

def step (s : Unit) (line : String) : Unit × String :=
  let ws := words line
  match ws with
  | "rt" :: _ => (s, rtOp ws)
  | "fmt" :: _ => (s, fmtOp ws)
  | "reformat" :: _ => (s, reformatOp ws)
  | _ => (s, "unmodelled")

def main : IO Unit := runDriver () step
