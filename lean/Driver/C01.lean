import EaselModel.Core.Proto
import EaselModel.Msafile.Basic
import EaselModel.Msafile.AbcTables
import EaselModel.Msafile.Afa
import EaselModel.Msafile.A2m
import EaselModel.Msafile.Clustal
import EaselModel.Msafile.Psiblast
import EaselModel.Msafile.Phylip
import EaselModel.Msafile.Selex
import EaselModel.Msafile.Stockholm
import EaselModel.Msafile.Dump
import EaselModel.Msafile.Guess
import EaselModel.Msafile.StoNum
import EaselModel.Msafile.OpenByName
import EaselModel.Msafile.OpenGz
/-! Line-protocol driver for the C01 model: `parse fmt=… abc=… src=… ps=… [sfx=…] hex=…`.  The page size is irrelevant to the
    model (it sits on the abstract line reader); the source only decides whether the buffer has a file name
    (`esl_msafile_Open`: `h_msafile_<pid>.<sfx>`; memory and streams have none), which format autodetection looks at.
    Everything goes through `openModel` (= `msafile_OpenBuffer`): declared or autodetected format, text mode, supplied or
    guessed alphabet; then the resolved reader is run until a non-OK outcome. -/
open EaselModel.Proto EaselModel.Msafile

def fmtSelOf (s : String) : Option FmtSel :=
  if s == "auto" then some .auto
  else if s == "afa" then some (.decl .afa)
  else if s == "a2m" then some (.decl .a2m)
  else if s == "clustal" then some (.decl .clustal)
  else if s == "clustallike" then some (.decl .clustallike)
  else if s == "psiblast" then some (.decl .psiblast)
  else if s == "phylip" then some (.decl .phylip)
  else if s == "phylips" then some (.decl .phylips)
  else if s == "selex" then some (.decl .selex)
  else if s == "stockholm" then some (.decl .stockholm)
  else if s == "pfam" then some (.decl .pfam)
  else none

def fmtName (f : Fmt) : String :=
  match f with
  | .stockholm => "stockholm" | .pfam => "pfam" | .a2m => "a2m" | .psiblast => "psiblast" | .selex => "selex"
  | .afa => "afa" | .clustal => "clustal" | .clustallike => "clustallike" | .phylip => "phylip" | .phylips => "phylips"

def abcSelOf (s : String) : Option AbcSel :=
  if s == "text" then some .text
  else if s == "amino" then some (.given .amino)
  else if s == "dna" then some (.given .dna)
  else if s == "rna" then some (.given .rna)
  else if s == "guess" then some .guess
  else none

def abcName (a : Option AbcType) : String :=
  match a with
  | none => "text"
  | some .amino => "amino"
  | some .dna => "dna"
  | some .rna => "rna"

/-- `bf->filename` as the harness makes it: only `esl_msafile_Open` (file, slurped file, mmap) has one -/
def fileNameOf (ws : List String) : Option Bytes :=
  let src := (arg? ws "src").getD "mem"
  if src == "named" then                  -- `h_msafile_<pid><tail>`: digits hold no '.' and no '/', so `0` stands for the pid
    some ([104, 95, 109, 115, 97, 102, 105, 108, 101, 95, 48] ++ ((argHex? ws "tail").getD []))
  else if src == "file" || src == "allfile" || src == "mmap" then
    some ([104, 95, 109, 115, 97, 102, 105, 108, 101, 95, 48, 46] ++ ((arg? ws "sfx").getD "dat").toUTF8.toList)
  else none

def parseOp (ws : List String) : String :=
  match (arg? ws "fmt").bind fmtSelOf, abcSelOf ((arg? ws "abc").getD "text"), argHex? ws "hex" with
  | some fs, some as, some bytes =>
    let lines := splitLines bytes
    match openModelW ((argNat? ws "nw").getD 0) fs as (fileNameOf ws) lines with      -- `nw=`: ESL_MSAFILE_FMTDATA.namewidth given to esl_msafile_Open*
    | .enoformat => "open=enoformat"
    | .enoalphabet => "open=enoalphabet"
    | .fault => "fault"
    | .ok o => "open=ok fmt=" ++ fmtName o.fmt ++ " abc=" ++ abcName o.abc ++ readAll o.readV 64 lines
  | _, _, _ => "unmodelled"

/-- coverage probe (model side only; the harness has no such op): which deep checks say what -/
def probeOp (ws : List String) : String :=
  match argHex? ws "hex" with
  | some bytes =>
    let lines := splitLines bytes
    let first := match lines.dropWhile isBlankLine with
      | [] => "none"
      | p :: _ => match fmtByFirstLine p with
        | .stockholm => "stockholm" | .afa => "afa" | .clustal => "clustal" | .clustallike => "clustallike" | .phylip => "phylip" | .unknown => "unknown"
    let ilv := match checkInterleaved lines with
      | none => "none"
      | some (nb, w) => toString nb ++ "," ++ toString w
    let su := match checkSeqUnknown lines with
      | .ok w => "ok," ++ toString w
      | .fail => "fail"
      | .fault => "fault"
    "first=" ++ first ++ " ilv=" ++ ilv ++ " sk=" ++ toString (checkSeqKnown 10 lines) ++ " su=" ++ su ++ " slx=" ++ toString (checkSelex lines)
  | none => "unmodelled"

/-- `openerr what=<missing|dir|envmissing|envfile> fmt= abc= [sfx=] [hex=]`: `esl_msafile_Open` by name.  The harness names the file
    `h_msafile_<pid>.<sfx>` (in a directory reached through the environment list for `envfile`): only the suffix matters to the model. -/
def openErrOp (ws : List String) : String :=
  match (arg? ws "fmt").bind fmtSelOf, abcSelOf ((arg? ws "abc").getD "text") with
  | some fs, some as =>
    let what := (arg? ws "what").getD "missing"
    let path : Bytes := [104, 95, 109, 115, 97, 102, 105, 108, 101, 95, 48, 46] ++ ((arg? ws "sfx").getD "dat").toUTF8.toList
    let bytes := (argHex? ws "hex").getD []
    if what == "gz" then
      -- `h_msafile_<pid>.<sfx>.gz` through `gzip -dc`: `unz=` = what gzip delivers (absent: the command fails)
      let g : GzKind := match argHex? ws "unz" with
        | some u => .bytes u
        | none => .failed
      match openGz 0 fs as (path ++ bGz) g with
      | .efail _ => "open=fail"
      | .opened .enoformat => "open=enoformat"
      | .opened .enoalphabet => "open=enoalphabet"
      | .opened .fault => "fault"
      | .opened (.ok o) => "open=ok fmt=" ++ fmtName o.fmt ++ " abc=" ++ abcName o.abc ++ readAll o.readV 64 (splitLines ((argHex? ws "unz").getD []))
    else
    let pk : PathKind := if what == "envfile" then .file path bytes else if what == "dir" then .directory else .missing
    match openByName 0 fs as pk with
    | .enotfound _ => "open=enotfound"
    | .opened .enoformat => "open=enoformat"
    | .opened .enoalphabet => "open=enoalphabet"
    | .opened .fault => "fault"
    | .opened (.ok o) => "open=ok fmt=" ++ fmtName o.fmt ++ " abc=" ++ abcName o.abc ++ readAll o.readV 64 (splitLines bytes)
  | _, _ => "unmodelled"

def step (s : Unit) (line : String) : Unit × String :=
  let ws := words line
  match ws with
  | "parse" :: _ => (s, parseOp ws)
  | "probe" :: _ => (s, probeOp ws)
  | "openerr" :: _ => (s, openErrOp ws)
  | _ => (s, "unmodelled")

def main : IO Unit := runDriver () step
