import EaselModel.Core.Proto
import EaselModel.Msafile.Basic
import EaselModel.Msafile.AbcTables
import EaselModel.Msafile.Afa
import EaselModel.Msafile.A2m
import EaselModel.Msafile.Clustal
import EaselModel.Msafile.Psiblast
import EaselModel.Msafile.Phylip
import EaselModel.Msafile.Selex
import EaselModel.Msafile.Stockholm
import EaselModel.Msafile.Dump
/-! Line-protocol driver for the C01 model: `parse fmt=… abc=… src=… ps=… hex=…` (source and page size are irrelevant
    to the model: it sits on the abstract line reader).  Formats / modes without a model answer `unmodelled`. -/
open EaselModel.Proto EaselModel.Msafile

def abcOf (s : String) : Option (Option Abc) :=
  if s == "text" then some none
  else if s == "amino" then some (some abcAmino)
  else if s == "dna" then some (some abcDna)
  else if s == "rna" then some (some abcRna)
  else none

def abcName (a : Option Abc) : String :=
  match a with
  | none => "text"
  | some x => if x.type == 3 then "amino" else if x.type == 2 then "dna" else "rna"

def parseOp (ws : List String) : String :=
  match arg? ws "fmt", abcOf ((arg? ws "abc").getD "text"), argHex? ws "hex" with
  | some fmt, some abc, some bytes =>
    let lines := splitLines bytes
    if fmt == "afa" then
      "open=ok fmt=afa abc=" ++ abcName abc ++ readAll (afaRead (afaCfg abc)) 64 lines
    else if fmt == "a2m" then
      "open=ok fmt=a2m abc=" ++ abcName abc ++ readAll (a2mRead (a2mCfg abc)) 64 lines
    else if fmt == "clustal" then
      "open=ok fmt=clustal abc=" ++ abcName abc ++ readAll (clustalRead false (clustalCfg abc)) 64 lines
    else if fmt == "clustallike" then
      "open=ok fmt=clustallike abc=" ++ abcName abc ++ readAll (clustalRead true (clustalCfg abc)) 64 lines
    else if fmt == "psiblast" then
      "open=ok fmt=psiblast abc=" ++ abcName abc ++ readAll (psiblastRead (psiblastCfg abc)) 64 lines
    else if fmt == "phylip" then
      "open=ok fmt=phylip abc=" ++ abcName abc ++ readAll (phylipRead false (phylipCfg abc)) 64 lines
    else if fmt == "phylips" then
      "open=ok fmt=phylips abc=" ++ abcName abc ++ readAll (phylipRead true (phylipCfg abc)) 64 lines
    else if fmt == "selex" then
      "open=ok fmt=selex abc=" ++ abcName abc ++ readAll (selexRead (selexCfg abc)) 64 lines
    else if fmt == "stockholm" || fmt == "pfam" then
      "open=ok fmt=" ++ fmt ++ " abc=" ++ abcName abc ++ readAll (stockholmRead (stockholmCfg abc)) 64 lines
    else "unmodelled"
  | _, _, _ => "unmodelled"

def step (s : Unit) (line : String) : Unit × String :=
  let ws := words line
  match ws with
  | "parse" :: _ => (s, parseOp ws)
  | _ => (s, "unmodelled")

def main : IO Unit := runDriver () step
