import EaselModel.Core.Proto
import EaselModel.Containers.Keyhash
import EaselModel.Containers.Heap
import EaselModel.Containers.RedBlack
import EaselModel.Containers.RedBlackPtr
import EaselModel.Containers.KeyhashApi
import EaselModel.Containers.KeyhashFixed
import EaselModel.Containers.KeyhashVariant
import EaselModel.Containers.KeyhashSlots
import EaselModel.Containers.Stack
import EaselModel.Containers.StackThreads
import EaselModel.Containers.Quicksort
/-! Line-protocol driver for the C19 models (keyhash, heap, red-black tree, stacks, quicksort). -/
open EaselModel EaselModel.Proto EaselModel.Containers EaselModel.Random

structure S where
  kh : Keyhash.KH := Keyhash.create 128 128 2048
  kh2 : Option Keyhash.KH := none
  heap : Heap.Heap := Heap.create false
  tree : RedBlack.Tree Int := .nil
  stack : Stack.Stack Int := Stack.create
  stype : String := "i"
  cond : Bool := false         -- the stack has an active condition variable: Pop on an empty stack would wait (bad-op)
  rp : RedBlackPtr.Store := #[]                 -- pointer-level red-black model: the record store
  rpRoot : Option Nat := none
  rpFree : Option Nat := none                   -- head of the pool's free list
  rpPool : Nat := 0                             -- 0: one esl_red_black_doublekey_Create() per record; n: pool blocks of n
  rpIn : Array Bool := #[]                      -- record id is linked into the tree
  rpList : Option (Option Nat × Option Nat) := none   -- after convert_to_sorted_linked: (head, tail)
  dead : Bool := false         -- a fault was reported: every later op of the case answers `fault` too

def fnv (h : UInt64) (x : UInt64) : UInt64 := (h ^^^ x) * (0x100000001b3 : UInt64)
def fnv0 : UInt64 := 0xcbf29ce484222325

def hex64 (x : UInt64) : String :=
  let s := (Nat.toDigits 16 x.toNat)
  String.ofList (List.replicate (16 - s.length) '0' ++ s)

def parseInts (s : String) : List Int :=
  if s == "-" || s == "" then [] else (s.splitOn ",").filterMap String.toInt?

def showInts (l : List Int) : String :=
  if l.isEmpty then "-" else ",".intercalate (l.map toString)

def hashKey (h : UInt64) (k : List UInt8) : UInt64 :=
  k.foldl (fun h b => fnv h b.toUInt64) (fnv h (UInt64.ofNat k.length))

/-- string-API view of a key argument (`n = -1`): the bytes before the first NUL -/
def asCStr (k : List UInt8) : List UInt8 := Keyhash.cstrOf k

def getAll (kh : Keyhash.KH) : Option UInt64 := Id.run do
  let mut h := fnv0
  for i in [0:kh.nkeys] do
    match Keyhash.get kh i with
    | some k => h := hashKey h k
    | none => return none
  return some h

partial def showTree : RedBlack.Tree Int → String
  | .nil => "."
  | .node c a x b => "(" ++ (if c == .red then "R" else "B") ++ toString x ++ " " ++ showTree a ++ " " ++ showTree b ++ ")"

def treeHash : RedBlack.Tree Int → UInt64 → UInt64
  | .nil, h => fnv h 0
  | .node c a x b, h =>
    let h := fnv h (if c == .red then 1 else 2)
    let h := fnv h (UInt64.ofInt x)
    treeHash b (treeHash a h)

def treeSize : RedBlack.Tree Int → Nat
  | .nil => 0
  | .node _ a _ b => treeSize a + 1 + treeSize b

/-- element as the C side prints it after storing it in the typed array -/
def discardPred (mode : String) (p : Int) (x : Int) : Bool :=
  if mode == "even" then x % 2 == 0
  else if mode == "lt" then x < p
  else if mode == "eq" then x == p
  else if mode == "all" then true
  else false

def qcmp (mode : String) (data : Array Int) (a b : Nat) : Int :=
  let key (i : Nat) : Int :=
    let v := data.getD i 0
    if mode == "coarse" then v / 8 else v
  let x := key a
  let y := key b
  if mode == "desc" then (if x > y then -1 else if x < y then 1 else 0)
  else (if x < y then -1 else if x > y then 1 else 0)


def showPtr (p : Option Nat) : String := match p with | none => "-" | some i => toString i
def ptrCode (p : Option Nat) : UInt64 := match p with | none => 0 | some i => UInt64.ofNat (i + 1)

def rpIds (s : S) : List Nat := (List.range s.rpIn.size).filter fun i => s.rpIn.getD i false

def rpShowNodes (s : S) : String :=
  String.join ((rpIds s).map fun i =>
    match RedBlackPtr.rd s.rp i with
    | none => s!" {i}:?"
    | some nd => s!" {i}:{nd.key}:{if nd.color == .red then "R" else "B"}:{showPtr nd.parent}:{showPtr nd.small}:{showPtr nd.large}")

def rpHashNodes (s : S) : UInt64 :=
  (rpIds s).foldl (fun h i =>
    match RedBlackPtr.rd s.rp i with
    | none => fnv h 0xdead
    | some nd =>
      let h := fnv h (UInt64.ofNat i)
      let h := fnv h (UInt64.ofInt nd.key)
      let h := fnv h (if nd.color == .red then 1 else 2)
      let h := fnv h (ptrCode nd.parent)
      let h := fnv h (ptrCode nd.small)
      fnv h (ptrCode nd.large)) fnv0

/-- take a record: a fresh `Create()`, or the head of the pool's free list (a new block when it is empty) -/
def rpTake (s : S) : Option (S × Nat) :=
  if s.rpPool = 0 then
    let (st, n) := RedBlackPtr.create s.rp
    some ({ s with rp := st, rpIn := s.rpIn.push false }, n)
  else
    let (st, free) := match s.rpFree with
      | some f => (s.rp, some f)
      | none => RedBlackPtr.poolCreate s.rp s.rpPool
    match RedBlackPtr.poolTake st free with
    | none => none
    | some (n, free') => some ({ s with rp := st, rpFree := free', rpIn := s.rpIn ++ Array.replicate (st.size - s.rpIn.size) false }, n)

def rpInsertAll (s : S) : List Int → List String → Option (S × List String)
  | [], acc => some (s, acc.reverse)
  | k :: rest, acc =>
    match rpTake s with
    | none => none
    | some (s, n) =>
      match RedBlackPtr.wr s.rp n (fun nd => { nd with key := k }) with
      | none => none
      | some st =>
        match RedBlackPtr.insert st s.rpRoot n with
        | none => none
        | some (st, some r) => rpInsertAll { s with rp := st, rpRoot := some r, rpIn := s.rpIn.setIfInBounds n true } rest (s!"i{n}" :: acc)
        | some (st, none) =>
          if s.rpPool = 0 then rpInsertAll { s with rp := st } rest (s!"d{n}" :: acc)
          else
            match RedBlackPtr.poolGive st s.rpFree n with
            | none => none
            | some (st, free) => rpInsertAll { s with rp := st, rpFree := free } rest (s!"d{n}" :: acc)

def fault (s : S) : S × String := ({ s with dead := true }, "fault")

def step (s : S) (line : String) : S × String :=
  if s.dead then (s, "fault") else
  let ws := words line
  let H := Keyhash.jenkins
  match ws with
  -- ---------------- keyhash
  | "kh_new" :: _ =>
    match argNat? ws "size", argNat? ws "kalloc", argNat? ws "salloc" with
    | some a, some b, some c => ({ s with kh := Keyhash.create a b c }, "ok")
    | _, _, _ => (s, "bad-op")
  | "kh_default" :: _ => ({ s with kh := Keyhash.create 128 128 2048 }, "ok")
  | "store" :: _ =>
    match argHex? ws "key" with
    | some k =>
      match (if Keyhash.repaired then
              (if (argNat? ws "str").getD 0 == 1 then Keyhash.storeStrCF Keyhash.jenkinsStr H s.kh k else Keyhash.storeF H s.kh k)
            else if (argNat? ws "str").getD 0 == 1 then Keyhash.storeStrC Keyhash.jenkinsStr H s.kh k else Keyhash.store H s.kh k) with
      | some (kh, st, idx) => ({ s with kh := kh }, (if st == .edup then "edup " else "ok ") ++ toString idx)
      | none => fault s
    | none => (s, "bad-op")
  | "lookup" :: _ =>
    match argHex? ws "key" with
    | some k =>
      match (if Keyhash.repaired then
              (if (argNat? ws "str").getD 0 == 1 then Keyhash.lookupStrCF Keyhash.jenkinsStr s.kh k else Keyhash.lookupF H s.kh k)
            else if (argNat? ws "str").getD 0 == 1 then Keyhash.lookupStrC Keyhash.jenkinsStr s.kh k else Keyhash.lookup H s.kh k) with
      | some (st, idx) => (s, if st == .ok then s!"ok {idx}" else "enotfound -1")
      | none => fault s
    | none => (s, "bad-op")
  | "get" :: _ =>
    match argNat? ws "i" with
    | some i => match Keyhash.get s.kh i with
      | some k => (s, "ok " ++ hexOrDash k)
      | none => fault s
    | none => (s, "bad-op")
  | "getall" :: _ =>
    match getAll s.kh with
    | some h => (s, s!"ok n={s.kh.nkeys} h={hex64 h}")
    | none => fault s
  | "num" :: _ => (s, s!"ok {s.kh.nkeys}")
  | "kh_reuse" :: _ => ({ s with kh := Keyhash.reuse s.kh }, "ok")
  | "kh_clone" :: _ => ({ s with kh2 := some (Keyhash.clone s.kh) }, "ok")
  | "kh_swap" :: _ =>
    match s.kh2 with
    | some k2 => ({ s with kh := k2, kh2 := some s.kh }, "ok")
    | none => (s, "bad-op")
  | "jhash" :: _ =>
    match argHex? ws "key", argNat? ws "size" with
    | some k, some sz => (s, s!"ok jh={Keyhash.jenkins k sz} js={Keyhash.jenkins (asCStr k) sz}")
    | _, _ => (s, "bad-op")
  | "kh_dump" :: _ =>
    match Keyhash.dump s.kh with
    | some d => (s, s!"ok nkeys={d.nkeys} sn={d.sn} hashsize={d.hashsize} nempty={d.nempty} max={d.maxkeys} min={d.minkeys} kalloc={d.kalloc} salloc={d.salloc} size={Keyhash.sizeofArrays s.kh}")
    | none => fault s
  | "kh_sizes" :: _ => (s, s!"ok hashsize={s.kh.hashsize} kalloc={s.kh.kalloc} salloc={s.kh.salloc} sn={s.kh.smem.size}")
  | "kh_slots" :: _ =>
    let r := Keyhash.slotStats s.kh
    (s, s!"ok slots nkeys={s.kh.nkeys} hashsize={s.kh.hashsize} used={r.used} chained={r.chained} bad={r.bad} cyc={r.cyc}")
  -- ---------------- heap
  | "heap_new" :: _ => ({ s with heap := Heap.create ((argNat? ws "max").getD 0 == 1) }, "ok")
  | "hins" :: _ =>
    let vs := parseInts ((arg? ws "v").getD "-")
    match Heap.insertAll s.heap vs with
    | some h => ({ s with heap := h }, s!"ok {h.data.size}")
    | none => fault s
  | "hext" :: _ =>
    match Heap.extractTop s.heap with
    | some (h, true, v) => ({ s with heap := h }, s!"ok {v}")
    | some (h, false, v) => ({ s with heap := h }, s!"eod {v}")
    | none => fault s
  | "hpop" :: _ =>
    -- `esl_heap_IExtractTop(hp, NULL)`: as written, the empty-heap branch stores through the NULL pointer
    match Heap.extractTopNull s.heap with
    | some (h, true) => ({ s with heap := h }, s!"ok {h.data.size}")
    | some (h, false) => ({ s with heap := h }, s!"eod {h.data.size}")
    | none => fault s
  | "hdrain" :: _ =>
    match Heap.drain s.heap.data.size s.heap with
    | some l => ({ s with heap := { s.heap with data := #[] } }, "ok " ++ showInts l)
    | none => fault s
  | "htop" :: _ => (s, s!"ok {Heap.topVal s.heap}")
  | "hcount" :: _ => (s, s!"ok {s.heap.data.size}")
  | "hreuse" :: _ => ({ s with heap := Heap.reuse s.heap }, "ok")
  | "hvalidate" :: _ => (s, if Heap.validate s.heap then "ok" else "fail")
  | "hdump" :: _ => (s, "ok " ++ showInts s.heap.data.toList)
  -- ---------------- red-black tree
  | "rb_new" :: _ => ({ s with tree := .nil }, "ok")
  | "rb_ins" :: _ =>
    let ks := parseInts ((arg? ws "k").getD "-")
    let rec go (t : RedBlack.Tree Int) (ks : List Int) (acc : List String) : Option (RedBlack.Tree Int × List String) :=
      match ks with
      | [] => some (t, acc.reverse)
      | k :: rest =>
        match RedBlack.Tree.insert t k with
        | none => none
        | some (t', ins) => go t' rest ((if ins then "i" else "d") :: acc)
    match go s.tree ks [] with
    | some (t, flags) => ({ s with tree := t }, "ok " ++ String.join flags)
    | none => fault s
  | "rb_dump" :: _ => (s, "ok " ++ showTree s.tree)
  | "rb_hash" :: _ => (s, s!"ok n={treeSize s.tree} h={hex64 (treeHash s.tree fnv0)}")
  | "rb_lookup" :: _ =>
    let ks := parseInts ((arg? ws "k").getD "-")
    (s, "ok " ++ String.join (ks.map fun k => if RedBlack.Tree.lookup k s.tree then "y" else "n"))
  | "rb_list" :: _ =>
    match s.tree with
    | .nil => (s, "fail")
    | t =>
      let desc := RedBlack.Tree.toLinkedDesc t []
      ({ s with tree := .nil }, "ok desc=" ++ showInts desc ++ " asc=" ++ showInts desc.reverse)
  -- ---------------- red-black tree, pointer-level model
  | "rp_new" :: _ =>
    ({ s with rp := #[], rpRoot := none, rpFree := none, rpPool := (argNat? ws "pool").getD 0, rpIn := #[], rpList := none }, "ok")
  | "rp_ins" :: _ =>
    if s.rpList.isSome then (s, "bad-op") else
    match rpInsertAll s (parseInts ((arg? ws "k").getD "-")) [] with
    | some (s, flags) => (s, "ok " ++ (if flags.isEmpty then "-" else ",".intercalate flags) ++ " root=" ++ showPtr s.rpRoot)
    | none => fault s
  | "rp_nodes" :: _ => (s, s!"ok root={showPtr s.rpRoot} n={(rpIds s).length}" ++ rpShowNodes s)
  | "rp_hash" :: _ => (s, s!"ok root={showPtr s.rpRoot} n={(rpIds s).length} h={hex64 (rpHashNodes s)}")
  | "rp_lookup" :: _ =>
    if s.rpList.isSome then (s, "bad-op") else
    let ks := parseInts ((arg? ws "k").getD "-")
    let rs := ks.map fun k => RedBlackPtr.lookup s.rp k (s.rp.size + 1) s.rpRoot
    if rs.any Option.isNone then fault s
    else (s, "ok " ++ (if rs.isEmpty then "-" else ",".intercalate (rs.map fun r => showPtr (r.getD none))))
  | "rp_pool" :: _ =>
    (s, "ok free=" ++ showInts ((RedBlackPtr.follow s.rp (·.large) (s.rp.size + 1) s.rpFree).map Int.ofNat))
  | "rp_convert" :: _ =>
    if s.rpList.isSome then (s, "bad-op") else
    match RedBlackPtr.convert s.rp s.rpRoot with
    | none => fault s
    | some none => (s, "fail")
    | some (some (st, head, tail)) =>
      ({ s with rp := st, rpRoot := none, rpList := some (head, tail) }, s!"ok head={showPtr head} tail={showPtr tail}")
  | "rp_ltest" :: _ =>
    match s.rpList with
    | none => (s, "bad-op")
    | some (head, tail) =>
      match RedBlackPtr.linkedListTest s.rp head tail with
      | some .ok => (s, "ok")
      | some .fail => (s, "fail")
      | _ => fault s
  | "rp_walk" :: _ =>
    match s.rpList with
    | none => (s, "bad-op")
    | some (head, tail) =>
      let d := RedBlackPtr.follow s.rp (·.small) (s.rp.size + 1) head
      let a := RedBlackPtr.follow s.rp (·.large) (s.rp.size + 1) tail
      (s, "ok desc=" ++ showInts (d.map Int.ofNat) ++ " asc=" ++ showInts (a.map Int.ofNat))
  -- ---------------- stacks
  | "st_new" :: _ =>
    -- `mutex=1` / `cond=1` (esl_stack_UseMutex / UseCond) do not change the sequential behaviour
    ({ s with stack := Stack.create, stype := (arg? ws "t").getD "i", cond := (argNat? ws "cond").getD 0 == 1 }, "ok")
  | "st_release" :: _ => if s.cond then ({ s with cond := false }, "ok") else (s, "esys")
  | "push" :: _ =>
    let vs := parseInts ((arg? ws "v").getD "-")
    match Stack.pushAll s.stack vs with
    | some st => ({ s with stack := st }, s!"ok {st.data.size}")
    | none => fault s
  | "pop" :: _ =>
    if s.cond && s.stack.data.size == 0 then (s, "bad-op") else
    match Stack.pop s.stack with
    | (st, some x) => ({ s with stack := st }, s!"ok {x}")
    | (st, none) => ({ s with stack := st }, "eod 0")
  | "popall" :: _ => ({ s with stack := { s.stack with data := #[] } }, "ok " ++ showInts (Stack.popAll s.stack))
  | "count" :: _ => (s, s!"ok {Stack.count s.stack}")
  | "st_reuse" :: _ => ({ s with stack := Stack.reuse s.stack }, "ok")
  | "st_dump" :: _ => (s, "ok " ++ showInts s.stack.data.toList)
  | "discardtop" :: _ =>
    match argNat? ws "n" with
    | some n => let st := Stack.discardTopN s.stack n; ({ s with stack := st }, s!"ok {st.data.size}")
    | none => (s, "bad-op")
  | "discardsel" :: _ =>
    let mode := (arg? ws "mode").getD "even"
    let p := (argInt? ws "p").getD 0
    match Stack.discardSelected s.stack (discardPred mode p) with
    | some st => ({ s with stack := st }, s!"ok {st.data.size}")
    | none => fault s
  | "shuffle" :: _ =>
    match argNat? ws "seed" with
    | some sd => if sd = 0 then (s, "bad-op") else
      match Stack.shuffle 1000000 (Rng.create .mersenne (UInt32.ofNat sd)) s.stack with
      | some (st, _) => ({ s with stack := st }, "ok")
      | none => fault s
    | none => (s, "bad-op")
  | "tostring" :: _ =>
    let bytes := s.stack.data.toList.map (fun x => UInt8.ofNat (x % 256).toNat)
    ({ s with stack := Stack.create, cond := false }, "ok " ++ hexOrDash (Stack.convert2String { data := bytes.toArray, nalloc := s.stack.nalloc }))
  | "st_threads" :: _ =>
    -- the transition system of `StackThreads` run under one particular schedule (poppers first or pushers first, then pusher /
    -- popper alternately, `ReleaseCond`, poppers); by `stack_threads_conservation` every schedule gives the same report
    let vs := parseInts ((arg? ws "v").getD "-")
    let p := (argNat? ws "pushers").getD 1
    let q := (argNat? ws "poppers").getD 1
    let popfirst := (argNat? ws "popfirst").getD 0 == 1
    if p < 1 || p > 16 || q < 1 || q > 16 then (s, "bad-op") else
    let ty := (arg? ws "t").getD "i"
    let conv (x : Int) : Int := if ty == "c" then x % 256 else if ty == "i" then ((x + 2147483648) % 4294967296) - 2147483648 else x
    let idx := List.range vs.length
    let pushers : List (List (StackThreads.TOp Int)) :=
      (List.range p).map fun i => (idx.filter (fun j => j % p == i)).map fun j => StackThreads.TOp.push (conv (vs.getD j 0))
    let poppers : List (List (StackThreads.TOp Int)) := List.replicate q [StackThreads.TOp.drain]
    let st0 := StackThreads.initial (Stack.create : Stack.Stack Int) (pushers ++ poppers ++ [[StackThreads.TOp.release]])
    let pushIds := List.range p
    let popIds := (List.range q).map (· + p)
    let alt := (List.range (max p q)).flatMap fun i => (if i < p then [i] else []) ++ (if i < q then [p + i] else [])
    let order := (if popfirst then popIds else []) ++ alt ++ pushIds ++ [p + q] ++ popIds
    let fin := StackThreads.runOrder (4 * vs.length + 16) st0 order
    let eods := (fin.threads.map fun th => (th.outs.filter (· == StackThreads.TOut.eod)).length).sum
    let sorted := fin.popped.mergeSort (fun a b => decide (a ≤ b))
    -- `early`: answers `eslEOD` given while `do_cond` was still set; none in any schedule (`stack_threads_eod_only_after_release`)
    (s, s!"ok popped={showInts sorted} left={fin.stack.data.size} eods={eods} early=0")
  -- ---------------- quicksort
  | "qsort" :: _ =>
    let data := (parseInts ((arg? ws "data").getD "-")).toArray
    let mode := (arg? ws "mode").getD "asc"
    match Quicksort.quicksort (qcmp mode data) data.size (data.size + 1) with
    | .ok ord => (s, "ok " ++ showInts (ord.toList.map Int.ofNat))
    | .fault => fault s
    | .nofuel => (s, "nohalt")
  | _ => (s, "bad-op")

def main : IO Unit := runDriver ({} : S) step
