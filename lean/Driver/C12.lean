import EaselModel.Core.Proto
import EaselModel.Dsqdata.Codec
import EaselModel.Dsqdata.Loader
import EaselModel.Dsqdata.Meta
import EaselModel.Dsqdata.Format
import EaselModel.Dsqdata.ShortRead
import EaselModel.Dsqdata.Smem
import EaselModel.Dsqdata.PackMem
import EaselModel.WorkQueue.Model
import EaselModel.Threads.Model
import EaselModel.Pipeline.Locks
import EaselModel.Pipeline.Progress
/-! Line-protocol driver for the C12 models: dsqdata codec, loader arithmetic (through `dsqrt`), work queue
    (sequential differential ops `wq …`, and `wqtrace`: validation of an observed multi-threaded trace). -/
open EaselModel EaselModel.Proto EaselModel.Dsqdata EaselModel.WorkQueue

structure S where
  q : Option Sys := none

def natList (s : String) : List Nat :=
  if s == "-" then [] else (s.splitOn ",").filterMap String.toNat?

def u32s (ps : List UInt32) : String :=
  if ps.isEmpty then "-" else ",".intercalate (ps.map fun p => toString p.toNat)

def fnvByte (h : UInt64) (b : UInt8) : UInt64 := (h ^^^ b.toUInt64) * (0x100000001b3 : UInt64)
def fnvBytes (h : UInt64) (bs : List UInt8) : UInt64 := bs.foldl fnvByte h
def fnvNat (h : UInt64) (n : Nat) : UInt64 :=
  (List.range 8).foldl (fun h i => fnvByte h (UInt8.ofNat ((n >>> (8*i)) % 256))) h
def fnv0 : UInt64 := 0xcbf29ce484222325

/-! ### work queue: state dump shared with the harness -/

def slotStr (o : Option Block) : String := match o with | some b => toString b | none => "0"
/-- queue contents in queue order: what the API can observe (not the raw slot array / head index) -/
def ringStr (r : Ring) (size : Nat) : String :=
  if r.cnt = 0 then "-" else ",".intercalate ((r.contents size).map slotStr)
def dump (s : Sys) : String :=
  s!"{s.rq.cnt} {s.wq.cnt} {s.pending} {ringStr s.rq s.size} {ringStr s.wq s.size}"

def optBlock (n : Nat) : Option Block := if n = 0 then none else some n

/-- sequential op on the queue; an op that would block is answered `wouldblock` and not executed -/
def wqOp (st : S) (ws : List String) : S × String :=
  match ws with
  | "create" :: _ =>
    match argNat? ws "size" with
    | some n => if n = 0 then (st, "bad-op") else
        let s := Sys.create n
        ({ st with q := some s }, s!"ok | {dump s}")
    | none => (st, "bad-op")
  | op :: _ =>
    match st.q with
    | none => (st, "bad-op")
    | some s =>
      -- `esl_workqueue_Dump`: prints the state under the mutex, changes nothing
      if op == "dump" then (st, s!"ok | {dump s}") else
      let lbl : Option (Label × Bool) :=      -- label, would block
        match op with
        | "init" => (argNat? ws "b").map fun b => (Label.init b, false)
        | "remove" => some (Label.remove, false)
        | "reset" => some (Label.reset, false)
        | "complete" => some (Label.complete, false)
        | "rupd" =>
          match argNat? ws "in", argNat? ws "out" with
          | some i, some o => some (Label.readerUpdate (optBlock i) (o != 0), o != 0 && s.rq.cnt == 0)
          | _, _ => none
        | "wupd" =>
          match argNat? ws "w", argNat? ws "in", argNat? ws "out" with
          | some w, some i, some o => some (Label.workerUpdate w (optBlock i) (o != 0), o != 0 && s.wq.cnt == 0)
          | _, _, _ => none
        | _ => none
      match lbl with
      | none => (st, "bad-op")
      | some (l, blocks) =>
        if blocks then (st, s!"wouldblock | {dump s}")
        else match step s l with
          | .disabled => (st, s!"disabled | {dump s}")
          | .overflow => (st, s!"overflow | {dump s}")
          | .ok s' =>
            let r := match l with
              | .remove | .readerUpdate _ true | .workerUpdate _ _ true =>
                match s'.got with
                | (_, some b) :: _ => s!"ok b={b}"
                | (_, none) :: _ => if l == Label.remove && s.rq.cnt == 0 then "eod" else "ok b=0"
                | [] => "ok"
              | _ => "ok"
            ({ st with q := some s' }, s!"{r} | {dump s'}")
  | [] => (st, "bad-op")

/-! ### work queue: trace validation
A trace is `ev=` a `;`-separated list of records
`tid/op/in/out/phase/end/got/rc/wc/pend/rcontents/wcontents` where op ∈ {I,M,S,C,R,W} (Init, reMove, reSet, Complete,
ReaderUpdate, WorkerUpdate), phase ∈ {f,w} (first region of the call / region after a cond_wait returned), end ∈ {u,c}
(region ended by unlock / by cond_wait), got = pointer stored through `*out` (0 = NULL / none). Slots are `.`-separated. -/

structure Ev where
  tid : Nat
  op : String
  inp : Nat
  out : Nat
  phase : String
  fin : String
  got : Nat
  snap : String      -- "rh rc wh wc pend rslots wslots" in `dump` format

def parseEv (s : String) : Option Ev :=
  match s.splitOn "/" with
  | [tid, op, inp, out, phase, fin, got, rc, wc, pend, rs, wsl] =>
    match tid.toNat?, inp.toNat?, out.toNat?, got.toNat? with
    | some tid, some inp, some out, some got =>
      some { tid := tid, op := op, inp := inp, out := out, phase := phase, fin := fin, got := got,
             snap := s!"{rc} {wc} {pend} {rs.replace "." ","} {wsl.replace "." ","}" }
    | _, _, _, _ => none
  | _ => none

def evLabel (e : Ev) : Option Label :=
  match e.op, e.phase with
  | "I", "f" => some (.init e.inp)
  | "M", "f" => some .remove
  | "S", "f" => some .reset
  | "C", "f" => some .complete
  | "R", "f" => some (.readerUpdate (optBlock e.inp) (e.out != 0))
  | "R", "w" => some .readerWake
  | "W", "f" => some (.workerUpdate e.tid (optBlock e.inp) (e.out != 0))
  | "W", "w" => some (.workerWake e.tid)
  | _, _ => none

/-- is thread `tid` asleep on its condition variable in `s`? -/
def asleep (s : Sys) (e : Ev) : Bool :=
  if e.op == "R" then s.rWait.isSome else if e.op == "W" then !(workerIdle s e.tid) else false

/-- which branch of the transition relation a step of the work-queue model took (coverage record of the trace validation) -/
def wqKind (s : Sys) (l : Label) (s' : Sys) : String :=
  let sl (b : Bool) := if b then "sleep" else "take"
  match l with
  | .init _ => if s.rWait.isSome then "init-wakes-reader" else "init"
  | .remove => if s.rq.cnt > 0 then "remove" else "remove-empty"
  | .reset => if s.wq.cnt > 0 then "reset-moves" else "reset-nothing"
  | .complete => if s.pending != 0 then "complete-broadcast" else "complete-nobody"
  | .readerUpdate i o =>
    let a := if i.isSome then (if s.pending != 0 then "in-wakes-workers" else "in") else "noin"
    if o then s!"rupd-{a}-{sl s'.rWait.isSome}" else s!"rupd-{a}-noout"
  | .readerWake => s!"rwake-{sl s'.rWait.isSome}"
  | .workerUpdate w i o =>
    let a := if i.isSome then (if s.rWait.isSome && s.rq.cnt == 0 then "in-wakes-reader" else "in") else "noin"
    if o then s!"wupd-{a}-{sl (!(workerIdle s' w))}" else s!"wupd-{a}-noout"
  | .workerWake w => s!"wwake-{sl (!(workerIdle s' w))}"

def addCov (cov : List String) (k : String) : List String := if cov.contains k then cov else k :: cov
def covStr (cov : List String) : String := if cov.isEmpty then "-" else "+".intercalate cov.reverse

def validate (size : Nat) (evs : List String) : String := Id.run do
  let mut s := Sys.create size
  let mut i := 0
  let mut cov : List String := []
  for raw in evs do
    match parseEv raw with
    | none => return s!"bad-event i={i}"
    | some e =>
      match evLabel e with
      | none => return s!"bad-event i={i}"
      | some l =>
        match step s l with
        | .disabled => return s!"notpath i={i} why=disabled ev={raw}"
        | .overflow => return s!"notpath i={i} why=overflow ev={raw}"
        | .ok s' =>
          if dump s' != e.snap then return s!"notpath i={i} why=state model=[{dump s'}] impl=[{e.snap}] ev={raw}"
          if asleep s' e != (e.fin == "c") then return s!"notpath i={i} why=wait model-asleep={asleep s' e} ev={raw}"
          -- pointer handed out through *out at an unlock
          if e.fin == "u" && (e.op == "M" || ((e.op == "R" || e.op == "W") && e.out != 0)) then
            match s'.got with
            | (_, g) :: _ => if slotStr g != toString e.got then return s!"notpath i={i} why=got model={slotStr g} impl={e.got}"
            | [] => return s!"notpath i={i} why=got-none"
          match checkState s' with
          | some w => return s!"invariant i={i} what={w} ev={raw}"
          | none => pure ()
          cov := addCov cov (wqKind s l s')
          s := s'
          i := i + 1
  return s!"ok steps={i} wdeq={s.wDeq.length} rdeq={s.rDeq.length} cov={covStr cov}"

/-! ### esl_threads: validation of an observed start-gate trace
records `tid/op/phase/end/startThread/threadCount`, op ∈ {T (master in WaitForStart), A (worker in Started), F (WaitForFinish done)} -/

def thValidate (evs : List String) : String := Id.run do
  let mut s := Threads.Sys.create
  let mut i := 0
  let mut cov : List String := []
  for raw in evs do
    match raw.splitOn "/" with
    | [tid, op, phase, fin, st, cnt] =>
      match tid.toNat?, st.toNat?, cnt.toNat? with
      | some tid, some st, some cnt =>
        -- AddThread runs outside the mutex: insert the `add` steps the record implies
        let need := if op == "T" then cnt else if op == "A" then tid + 1 else 0
        while s.count < need do
          match Threads.step s .add with
          | some s' => s := s'
          | none => return s!"notpath i={i} why=add-disabled ev={raw}"
        let l : Option Threads.Label :=
          match op, phase with
          | "T", "f" => some .masterWait
          | "T", "w" => some .masterWake
          | "A", "f" => some (.arrive tid)
          | "A", "w" => some (.workerWake tid)
          | "F", _ => some .finish
          | _, _ => none
        match l with
        | none => return s!"bad-event i={i}"
        | some l =>
          match Threads.step s l with
          | none => return s!"notpath i={i} why=disabled ev={raw}"
          | some s' =>
            if op != "F" then
              if s'.startThread != st then return s!"notpath i={i} why=startThread model={s'.startThread} impl={st} ev={raw}"
              let asleep := if op == "T" then (match s'.master with | .waiting _ => true | _ => false)
                            else s'.wWait.any (fun e => e.1 == tid)
              if asleep != (fin == "c") then return s!"notpath i={i} why=wait model-asleep={asleep} ev={raw}"
              -- the barrier property, checked on the observed state as well
              if !s'.passed.isEmpty && !(s'.master == Threads.MSt.released && s'.notStarted.isEmpty) then
                return s!"invariant i={i} what=passed-before-all-arrived ev={raw}"
            let asleepNow := if op == "T" then (match s'.master with | .waiting _ => true | _ => false) else s'.wWait.any (fun e => e.1 == tid)
            cov := addCov cov (if op == "F" then "finish" else s!"{op}{phase}-{if asleepNow then "sleep" else "pass"}")
            s := s'
            i := i + 1
      | _, _, _ => return s!"bad-event i={i}"
    | _ => return s!"bad-event i={i}"
  return s!"ok steps={i} cov={covStr cov}"

/-! ### dsqdata pipeline: validation of an observed trace
Records (appended while the region's mutex is held, so the log is a linearisation):
  `A/i/u/ph/end/buf/i0/eod`              inbox[u] region by the loader (A = L) or unpacker u (A = U)
  `A/o/u/ph/end/buf/i0/eod/nchunk/tid`   outbox[u] region by unpacker u (U) or by a consumer inside Read (C)
  `A/r/0/ph/end/stack/tid`               recycling region by the loader (L) or a consumer inside Recycle (C)
Only the fields protected by the region's mutex are compared. -/

def intOf (s : String) : Int := s.toInt?.getD (-2)

def chunkStr (i0s : List Nat) (c : Option Pipeline.Chunk) : String :=
  match c with
  | some (b, k) => s!"{b}/{(i0s.getD k 0)}"
  | none => "-1/-1"

def bstr (b : Bool) : String := if b then "1" else "0"

partial def loaderLocals (s : Pipeline.Sys) : Pipeline.Sys :=
  if Pipeline.loaderLocal s then
    match Pipeline.stepLoader s with
    | some s' => loaderLocals s'
    | none => s
  else s

def pipeCheck (s : Pipeline.Sys) : Option String :=
  if s.returned != List.range s.nchunk then some "returned-not-0..nchunk-1"
  else if !s.eofs.isEmpty && s.nchunk != s.T then some "eof-before-all-chunks-returned"
  else if s.nextBuf != s.nalloc + s.freed then some "buffer-accounting"
  else if s.live != s.nalloc then some "buffer-conservation"
  -- `chunk_ownership_exclusive` on the observed state: no chunk buffer in two places, none that was never created
  else if (List.range (s.nextBuf + 2)).any (fun b => (s.owners b).length > 1 || (b ≥ s.nextBuf && !(s.owners b).isEmpty)) then some "chunk-with-two-owners"
  -- no lost wake-up, checked on the states of the observed run (not a theorem for the pipeline): a thread asleep and
  -- not signalled since must still be rightly waiting
  else if s.lwait == some false && !Pipeline.loaderBlocked s then some "lost-wakeup-loader"
  else if (List.range s.U).any (fun u => (s.lane u).uwait == some false && !Pipeline.unpBlocked s u) then some "lost-wakeup-unpacker"
  else if s.reader.isSome && !s.rsig && !Pipeline.readBlocked s then some "lost-wakeup-consumer"
  else if Pipeline.loaderBlocked s && (List.range s.U).all (fun u => Pipeline.unpBlocked s u) && s.cheld.isEmpty && Pipeline.readBlocked s then some "deadlock"
  else none

def mutexStr : Pipeline.Mutex → String
  | .inbox u => s!"i{u}"
  | .outbox u => s!"o{u}"
  | .nchunk => "n"
  | .recycling => "r"

/-- the held set of a step in the harness's notation: tokens in lexicographic order joined by `+`, `-` if empty -/
def heldStr (ms : List Pipeline.Mutex) : String :=
  let toks := (ms.map mutexStr).foldl (fun acc t => (acc.filter (· < t)) ++ [t] ++ (acc.filter (fun x => !(x < t)))) []
  if toks.isEmpty then "-" else "+".intercalate toks

/-- `dsqdata_pack5/2(dsq, n, (uint32_t *) dsq, &P)`: the byte-level in-place packer on the buffer the harness uses
    (`max (n+2) (4·max 1 ⌈n/6⌉)` bytes, zero behind the closing sentinel), compared with the out-of-place packets -/
def packInplace (amino : Bool) (d : List UInt8) : String :=
  let n := d.length
  let ipn := max (n + 2) (4 * max 1 ((n + 5) / 6))
  match packMem amino (dsqBuffer d (List.replicate (ipn - (n + 2)) 0)) n with
  | some (mem', P) => if P == (pk amino d).length && mem'.take (4 * P) == (pk amino d).flatMap enc32 then "same" else "diff"
  | none => "fault"

/-- which branch of the pipeline's transition relation a step took, plus the rare global situations it happened in -/
def pipeKinds (s : Pipeline.Sys) (l : Pipeline.Label) (s' : Pipeline.Sys) : List String :=
  let k : String := match l with
    | .loader =>
      (match s.lpc with
       | .top => if s'.lwait.isSome then "L-top-wait-recycling-empty" else "L-top-pop-recycled"
       | .put _ _ => if s'.lwait.isSome then "L-put-wait-inbox-full" else "L-put"
       | .eod _ => if s'.lwait.isSome then "L-eod-wait-inbox-full" else "L-eod-set"
       | .drain => if s'.lwait.isSome then "L-drain-wait" else "L-drain-free"
       | _ => "L-other") ++ (if s.lwait.isSome then "/woken" else "")
    | .unpacker u =>
      (match (s.lane u).upc with
       | .get => if (s'.lane u).uwait.isSome then "U-get-wait" else if (s.lane u).inbox.isSome then "U-get-chunk" else "U-get-eod"
       | .put c => if (s'.lane u).uwait.isSome then "U-put-wait-outbox-full" else if c.isSome then "U-put-chunk" else "U-put-eod"
       | .done => "U-other") ++ (if (s.lane u).uwait.isSome then "/woken" else "")
    | .read _ => if s'.reader.isSome then "C-read-sleep" else if s'.nchunk > s.nchunk then "C-read-chunk" else "C-read-eof"
    | .readWake => if s'.reader.isSome then "C-wake-sleep-again" else if s'.nchunk > s.nchunk then "C-wake-chunk" else "C-wake-eof"
    | .recycle _ _ _ => if s.lwait.isSome && (s.lpc == .top || s.lpc == .drain) then "C-recycle-wakes-loader" else "C-recycle"
  let sit : List String :=
    (if (List.range s'.U).all (fun u => (s'.lane u).uwait.isSome) then ["S-all-unpackers-asleep"] else []) ++
    (if s'.reader.isSome && s'.lwait.isSome then ["S-consumer-and-loader-asleep"] else []) ++
    (if s'.recycling.length ≥ 3 then ["S-recycling-depth>=3"] else []) ++
    (if s'.cheld.length ≥ 3 then ["S-consumers-hold>=3"] else []) ++
    (if (List.range s'.U).all (fun u => (s'.lane u).inbox.isSome && (s'.lane u).outbox.isSome) then ["S-all-boxes-full"] else [])
  k :: sit

def pipeValidate (U C T : Nat) (i0s : List Nat) (evs : List String) : String := Id.run do
  let mut cov : List String := []
  -- How many chunk buffers the loader allows itself, and whether it prefers a recycled buffer to a new one, is a tuning
  -- policy, not part of the property: the model is parametric in `limit`, and the validator lets the observed run decide
  -- at each visit of the loader's `top` state (next loader record on the recycling mutex = it went for a recycled
  -- buffer; otherwise it created one). A policy that can block for ever is caught by the deadlock watchdog instead.
  let mut s := { Pipeline.Sys.create U T C with limit := 1000000 }
  let mut i := 0
  for raw in evs do
    let f := raw.splitOn "/"
    let who := f.getD 0 ""
    let kind := f.getD 1 ""
    let u := (f.getD 2 "").toNat?.getD 0
    let ph := f.getD 3 ""
    let fin := f.getD 4 ""
    if who == "L" && s.lpc == .top then
      s := { s with limit := if kind == "r" then s.nalloc else s.nalloc + 1 }
      if kind != "r" then cov := addCov cov "L-create-chunk"
    if who == "L" then s := loaderLocals s
    if kind == "a" then
      -- a thread touches the contents of a chunk outside any mutex: it must be the model's owner of that buffer
      let b := (f.getD (if who == "L" then 2 else 3) "").toNat?.getD 1000000
      let idx := (f.getD 2 "").toNat?.getD 1000000
      let want : Pipeline.Owner := if who == "L" then .loader else if who == "U" then .unpacker idx else .consumer idx
      if s.owners b != [want] then return s!"invariant i={i} what=access-by-non-owner owners={repr (s.owners b)} ev={raw}"
      i := i + 1
      continue
    let tid := if kind == "o" then (f.getD 9 "").toNat?.getD 0 else if kind == "r" then (f.getD 6 "").toNat?.getD 0 else 0
    let stack : List Nat := if kind == "r" then (let t := f.getD 5 "-"; if t == "-" then [] else (t.splitOn ".").filterMap String.toNat?) else []
    -- is the record's region the one the model thread is about to execute?
    let lbl : Option Pipeline.Label :=
      match who, kind with
      | "L", "i" => if Pipeline.loaderOnInbox s u then some .loader else none
      | "L", "r" => (match s.lpc with | .top | .drain => some Pipeline.Label.loader | _ => none)
      | "U", "i" => if (s.lane u).upc == .get then some (.unpacker u) else none
      | "U", "o" => (match (s.lane u).upc with | .put _ => some (Pipeline.Label.unpacker u) | _ => none)
      | "C", "o" => if s.nchunk % s.U != u then none else if ph == "f" then some (.read tid) else some .readWake
      | "C", "r" =>
        match stack with
        | b :: _ => (s.cheld.find? (fun e => e.1 == tid && e.2.1 == b)).map fun e => Pipeline.Label.recycle tid b e.2.2
        | [] => none
      | _, _ => none
    match lbl with
    | none => return s!"notpath i={i} why=wrong-region-for-thread ev={raw}"
    | some l =>
      -- lock discipline: the thread holds exactly the mutexes the model's critical section holds (`pipe_lock_discipline`)
      if f.length > (if kind == "i" then 8 else if kind == "o" then 10 else 7) && heldStr (Pipeline.held s l) != f.getLast! then
        return s!"invariant i={i} what=held-mutexes model={heldStr (Pipeline.held s l)} ev={raw}"
      match Pipeline.step s l with
      | none => return s!"notpath i={i} why=disabled ev={raw}"
      | some s' =>
        let lane := s'.lane u
        if kind == "i" then
          let m := s!"{chunkStr i0s lane.inbox}/{bstr lane.inEod}"
          let im := s!"{f.getD 5 ""}/{f.getD 6 ""}/{f.getD 7 ""}"
          if m != im then return s!"notpath i={i} why=inbox model={m} impl={im} ev={raw}"
        if kind == "o" then
          let m := s!"{chunkStr i0s lane.outbox}/{bstr lane.outEod}"
          let im := s!"{f.getD 5 ""}/{f.getD 6 ""}/{f.getD 7 ""}"
          if m != im then return s!"notpath i={i} why=outbox model={m} impl={im} ev={raw}"
          if who == "C" && intOf (f.getD 8 "") != (s'.nchunk : Int) then return s!"notpath i={i} why=nchunk model={s'.nchunk} ev={raw}"
        if kind == "r" && s'.recycling != stack then return s!"notpath i={i} why=recycling model={s'.recycling} ev={raw}"
        let asleep := if who == "L" then s'.lwait.isSome else if who == "U" then lane.uwait.isSome else (kind == "o" && s'.reader.isSome)
        if asleep != (fin == "c") then return s!"notpath i={i} why=wait model-asleep={asleep} ev={raw}"
        match pipeCheck s' with
        | some w => return s!"invariant i={i} what={w} ev={raw}"
        | none => pure ()
        for k in pipeKinds s l s' do cov := addCov cov k
        s := s'
        i := i + 1
  s := loaderLocals s
  if s.lpc != .done then return s!"notpath i={i} why=loader-not-done lpc={repr s.lpc}"
  if s.nalloc != 0 || s.freed != s.nextBuf then return s!"invariant i={i} what=chunks-not-all-destroyed nalloc={s.nalloc}"
  if (List.range U).any (fun u => (s.lane u).upc != .done) then return s!"notpath i={i} why=unpacker-not-done"
  if s.returned != List.range T then return s!"invariant i={i} what=not-all-chunks-returned"
  return s!"ok steps={i} buffers={s.nextBuf} cov={covStr cov}"

/-! ### dsqdata end-to-end prediction -/

def hexList (s : String) : List (List UInt8) :=
  -- element = "x" ++ hex (possibly empty); "-" = no element
  if s == "-" then [] else (s.splitOn ",").map fun h => (bytesOfHexAux (h.toList.drop 1) []).getD []


/-! ### dsqdata at byte level: the four files, Open's validation, the loader's freads -/

def abcType (abc : String) : Nat := if abc == "amino" then 3 else if abc == "rna" then 1 else 2

/-- the records of an op: names, accs (default empty), descs, taxids (default -1), dsq -/
def recsOf (ws : List String) : Option (List SeqRec) :=
  match arg? ws "names", arg? ws "descs", arg? ws "dsq" with
  | some names, some descs, some dsq =>
    let names := hexList names
    let descs := hexList descs
    let ds := hexList dsq
    let accs := match arg? ws "accs" with | some a => hexList a | none => names.map fun _ => []
    let taxids : List Int := match arg? ws "taxids" with
      | some t => (t.splitOn ",").filterMap String.toInt?
      | none => []
    some ((List.range names.length).map fun i =>
      { name := names.getD i [], acc := accs.getD i [], desc := descs.getD i [],
        taxid := ((taxids.getD i (-1)) % (4294967296 : Int)).toNat, dsq := ds.getD i [] })
  | _, _, _ => none

/-- the `ESL_XFAIL` messages of `esl_dsqdata_Open`, blanks as underscores (the two with `%` arguments cut before them) -/
def openMsg (e : Nat) : String :=
  let m := match e with
    | 1 => "stub file is empty - no tag line found"
    | 2 => "stub file has bad format: tag line has no data"
    | 3 => "stub file has bad format in tag line"
    | 4 => "stub file has bad format: no v on version"
    | 5 => "stub file had bad format: no version number"
    | 6 => "stub file has bad format: no x on tag"
    | 7 => "stub file had bad format: no integer tag"
    | 8 => "index file has no header - is empty?"
    | 9 => "index file header truncated, no tag"
    | 10 => "index file header truncated, no alphatype"
    | 11 => "index file header truncated, no flags"
    | 12 => "index file header truncated, no max name len"
    | 13 => "index file header truncated, no max accession len"
    | 14 => "index file header truncated, no max description len"
    | 15 => "index file header truncated, no max seq len"
    | 16 => "index file header truncated, no nseq"
    | 17 => "index file header truncated, no nres"
    | 18 => "index file has bad tag, doesn't go with stub file"
    | 19 => "index file has bad magic"
    | 20 => "data files use"
    | 21 => "index file has invalid alphabet type"
    | 22 => "metadata file has no header - is empty?"
    | 23 => "metadata file header truncated - no tag?"
    | 24 => "metadata file has bad magic"
    | 25 => "metadata file has bad tag, doesn't match stub"
    | 26 => "sequence file has no header - is empty?"
    | 27 => "sequence file header truncated - no tag?"
    | 28 => "sequence file has bad magic"
    | 29 => "sequence file has bad tag, doesn't match stub"
    | _ => "?"
  m.map fun c => if c == ' ' then '_' else c

/-- one mutation `file:off:xor` (xor the byte at `off`, no-op beyond the end) or `file:trunc:len` -/
def mutate (f : Files) (spec : String) : Files :=
  match spec.splitOn ":" with
  | [which, a, b] =>
    let edit (bs : List UInt8) : List UInt8 :=
      if a == "trunc" then bs.take (b.toNat?.getD 0)
      else
        let off := a.toNat?.getD 0
        let x := UInt8.ofNat (b.toNat?.getD 0)
        if off < bs.length then bs.take off ++ [(bs.getD off 0) ^^^ x] ++ bs.drop (off + 1) else bs
    if which == "stub" then { f with stub := edit f.stub }
    else if which == "dsqi" then { f with idx := edit f.idx }
    else if which == "dsqm" then { f with mdat := edit f.mdat }
    else if which == "dsqs" then { f with seq := edit f.seq }
    else f
  | _ => f

def digestRecs (rs : List SeqRec) : UInt64 :=
  rs.foldl (fun h r =>
    let h := fnvBytes h r.name; let h := fnvByte h 0
    let h := fnvBytes h r.acc; let h := fnvByte h 0
    let h := fnvBytes h r.desc; let h := fnvByte h 0
    let h := fnvNat h (if r.taxid ≥ 2^31 then r.taxid + (2^64 - 2^32) else r.taxid)     -- sign-extended int64
    let h := fnvNat h r.dsq.length
    fnvBytes h r.dsq) fnv0

def limits (ws : List String) : Nat × Nat :=
  let maxseq0 := (argNat? ws "maxseq").getD 0
  let maxpacket0 := (argNat? ws "maxpacket").getD 0
  (if maxseq0 = 0 then MAXSEQ else maxseq0, if maxpacket0 = 0 then MAXPACKET else maxpacket0)

/-- `dsqwrite` (with the tag and the sequence file's name the real run reported): the bytes of the four files -/
def dsqwriteOp (ws : List String) : String :=
  match arg? ws "tag", recsOf ws with
  | none, some db =>
    match writeDb 0 (abcType ((arg? ws "abc").getD "dna")) [] [] db with
    | .ok _ => "ok deferred"
    | .eunimplemented => "write-eunimplemented"
    | .einval => "write-einval"
  | some tag, some db =>
    let fname := (argHex? ws "fname").getD []
    match writeDb (tag.toNat?.getD 0) (abcType ((arg? ws "abc").getD "dna")) fname "FASTA".toUTF8.toList db with
    | .ok f => s!"ok stub={hexOrDash f.stub} dsqi={hexOrDash f.idx} dsqm={hexOrDash f.mdat} dsqs={hexOrDash f.seq}"
    | .eunimplemented => "write-eunimplemented"
    | .einval => "write-einval"
  | _, none => "bad-op"

/-- `dsqopen`: write, mutate the files, `esl_dsqdata_Open`, and (when it succeeds) read everything -/
def dsqopenOp (ws : List String) : String :=
  match arg? ws "tag", recsOf ws with
  | none, some db =>
    match writeDb 0 (abcType ((arg? ws "abc").getD "dna")) [] [] db with
    | .ok _ => "ok deferred"
    | .eunimplemented => "write-eunimplemented"
    | .einval => "write-einval"
  | some tag, some db =>
    let fname := (argHex? ws "fname").getD []
    match writeDb (tag.toNat?.getD 0) (abcType ((arg? ws "abc").getD "dna")) fname "FASTA".toUTF8.toList db with
    | .ok f =>
      let muts := match arg? ws "mut" with | some m => if m == "-" then [] else m.splitOn "," | none => []
      let f := muts.foldl mutate f
      let expect := match arg? ws "expect" with
        | some "amino" => some 3 | some "dna" => some 2 | some "rna" => some 1 | _ => none
      match openDb expect f with
      | .eformat e => s!"open-eformat msg={openMsg e}"
      | .eunimplemented => "open-eunimplemented"
      | .fatal => "fault"
      | .ok o =>
        let (maxseq, maxpacket) := limits ws
        match readDb maxseq maxpacket o with
        | none => "fault"
        | some cs =>
          let rs := cs.flatMap (·.2)
          let cstr := if cs.isEmpty then "-" else ",".intercalate (cs.map fun c => s!"{c.1.i0}:{c.1.n}:{c.1.pn}")
          s!"open-ok hdr={o.nseq}/{o.nres}/{o.maxSeqlen}/{o.maxName}/{o.maxAcc}/{o.maxDesc}/{o.flags}/{o.alphatype}/{if o.pack5 then 5 else 2} nseq={rs.length} chunks={cstr} digest={(digestRecs rs).toNat}"
    | .eunimplemented => "write-eunimplemented"
    | .einval => "write-einval"
  | _, none => "bad-op"

/-- `dsqcut`: write, cut one of the three data files short at byte `at`, `esl_dsqdata_Open`, read to the end in a child process.
    The outcome does not depend on the random tag (stub and data files carry the same one), so tag 0 is used. -/
def dsqcutOp (ws : List String) : String :=
  match recsOf ws with
  | none => "bad-op"
  | some db =>
    match writeDb 0 (abcType ((arg? ws "abc").getD "dna")) [] "FASTA".toUTF8.toList db with
    | .eunimplemented => "write-eunimplemented"
    | .einval => "write-einval"
    | .ok f =>
      let at_ := (argNat? ws "at").getD 0
      let f := mutate f s!"{(arg? ws "file").getD "dsqs"}:trunc:{at_}"
      match openDb none f with
      | .eformat e => s!"open-eformat msg={openMsg e}"
      | .eunimplemented => "open-eunimplemented"
      | .fatal => "fault"
      | .ok o =>
        let (maxseq, maxpacket) := limits ws
        let r := readDbX maxseq maxpacket o
        let cstr := if r.1.isEmpty then "-" else ",".intercalate (r.1.map fun c => s!"{c.1.i0}:{c.1.n}:{c.1.pn}")
        if r.1.any (fun c => c.2.isNone) then "fault" else
        match r.2 with
        | .fault => "fault"
        | .fatalPackets _ _ => s!"cut-fatal who=loader chunks={cstr}"
        | .fatalMeta _ _ => s!"cut-fatal who=loader chunks={cstr}"
        | .fatalIndex _ _ => s!"cut-fatal who=loader chunks={cstr}"
        | .eof =>
          let rs := r.1.flatMap fun c => c.2.getD []
          s!"cut-ok nseq={rs.length} chunks={cstr} digest={(digestRecs rs).toNat}"

/-- `dsqrt`: predicted chunking and content digest of a database written from the given records and read back -/
def dsqrt (ws : List String) : String :=
  match arg? ws "abc", argNat? ws "maxseq", argNat? ws "maxpacket", arg? ws "names", arg? ws "descs", arg? ws "dsq" with
  | some abc, some maxseq0, some maxpacket0, some names, some descs, some dsq =>
    -- hook value 0 = the library's defaults (eslDSQDATA_CHUNK_MAXSEQ, eslDSQDATA_CHUNK_MAXPACKET)
    let maxseq := if maxseq0 = 0 then MAXSEQ else maxseq0
    let maxpacket := if maxpacket0 = 0 then MAXPACKET else maxpacket0
    let names := hexList names
    let descs := hexList descs
    let ds := hexList dsq
    let raw := arg? ws "writer" == some "raw"
    let accs := if raw then hexList ((arg? ws "accs").getD "-") else names.map fun _ => []
    let taxids : List Int := if raw then (((arg? ws "taxids").getD "").splitOn ",").filterMap String.toInt? else []
    let amino := abc == "amino"
    -- esl_dsqdata_Write refuses sequences of 6 * eslDSQDATA_CHUNK_MAXPACKET residues or more (only the library writer)
    if arg? ws "writer" != some "raw" && ds.any (fun d => d.length ≥ 6 * MAXPACKET) then "write-eunimplemented" else
    let packs := ds.map fun d => if amino then pack5 d else pack2 d
    let metas := (names.zip (accs.zip descs)).map fun (n, a, d) => n.length + 1 + a.length + 1 + d.length + 1 + 4
    let idx := indexOf ((packs.map List.length).zip metas) 0 0
    match loaderChunks maxseq maxpacket (idx.length + 1) (LState.init idx) with
    | none => "fault"
    | some cs =>
      -- what the unpackers deliver, chunk by chunk: sequences from the packets, metadata from the metadata bytes
      let allp := packs.flatten
      let le4 (t : Int) : List UInt8 := let n := (t % (2^32 : Int)).toNat; [UInt8.ofNat (n % 256), UInt8.ofNat (n / 256 % 256), UInt8.ofNat (n / 65536 % 256), UInt8.ofNat (n / 16777216 % 256)]
      let recs : List MetaRec := (List.range names.length).map fun i =>
        { name := names.getD i [], acc := accs.getD i [], desc := descs.getD i [], tax := le4 (taxids.getD i (-1)) }
      let allm := recs.flatMap encodeMeta
      let (_, _, ok, seqs, metas') := cs.foldl (fun (acc : List UInt32 × List UInt8 × Bool × List (List UInt8) × List MetaRec) c =>
          let (rest, mrest, ok, out, mout) := acc
          let mine := rest.take c.pn.toNat
          let mmine := mrest.take c.nmeta.toNat
          match unpackChunk amino mine, parseMeta c.n mmine with
          | some d, some m => (rest.drop c.pn.toNat, mrest.drop c.nmeta.toNat, ok && d.length == c.n, out ++ d, mout ++ m)
          | _, _ => (rest.drop c.pn.toNat, mrest.drop c.nmeta.toNat, false, out, mout)) (allp, allm, true, [], [])
      if !ok then "fault" else
      let h := (List.range seqs.length).foldl (fun h i =>
          let r := metas'.getD i { name := [], acc := [], desc := [], tax := [] }
          let h := fnvBytes h r.name; let h := fnvByte h 0
          let h := fnvBytes h r.acc; let h := fnvByte h 0
          let h := fnvBytes h r.desc; let h := fnvByte h 0
          -- taxid as a sign-extended int64
          let t := (r.tax.getD 0 0).toNat + 256 * (r.tax.getD 1 0).toNat + 65536 * (r.tax.getD 2 0).toNat + 16777216 * (r.tax.getD 3 0).toNat
          let h := fnvNat h (if t ≥ 2^31 then t + (2^64 - 2^32) else t)
          let d := seqs.getD i []
          let h := fnvNat h d.length
          fnvBytes h d) fnv0
      let cstr := if cs.isEmpty then "-" else ",".intercalate (cs.map fun c => s!"{c.i0}:{c.n}:{c.pn}")
      let mx (l : List (List UInt8)) : Nat := l.foldl (fun m x => max m x.length) 0
      let hdr := s!"{ds.length}/{(ds.map List.length).sum}/{mx ds}/{mx names}/{mx accs}/{mx descs}/{if amino then 5 else 2}"
      s!"ok nseq={seqs.length} chunks={cstr} digest={h.toNat} eofs={(argNat? ws "consumers").getD 1} dup=0 miss=0 bad=-1 oob=0 err=0 lockerr=0 ownerr=0 leak=0 hdr={hdr}"
  | _, _, _, _, _, _ => "bad-op"

def step' (st : S) (line : String) : S × String :=
  let ws := words line
  match ws with
  | "pack5" :: _ =>
    match argHex? ws "d" with
    | some d => let p := pack5 d; (st, s!"ok P={p.length} psq={u32s p} inplace={packInplace true d}")
    | none => (st, "bad-op")
  | "pack2" :: _ =>
    match argHex? ws "d" with
    | some d => let p := pack2 d; (st, s!"ok P={p.length} psq={u32s p} inplace={packInplace false d}")
    | none => (st, "bad-op")
  | "rt5" :: _ =>
    match argHex? ws "d" with
    | some d =>
      let p := pack5 d
      match unpack5 (p ++ [0xFFFFFFFF]) with
      | some (d', pp) => (st, s!"ok P={p.length} L={d'.length} P2={pp} d={hexOrDash d'}")
      | none => (st, "fault")
    | none => (st, "bad-op")
  | "rt2" :: _ =>
    match argHex? ws "d" with
    | some d =>
      let p := pack2 d
      match unpack2 (p ++ [0xFFFFFFFF]) with
      | some (d', pp) => (st, s!"ok P={p.length} L={d'.length} P2={pp} d={hexOrDash d'}")
      | none => (st, "fault")
    | none => (st, "bad-op")
  | "unpack5" :: _ =>
    match arg? ws "p" with
    | some p =>
      match unpack5 ((natList p).map UInt32.ofNat) with
      | some (d, pp) => (st, s!"ok L={d.length} P={pp} d={hexOrDash d}")
      | none => (st, "fault")
    | none => (st, "bad-op")
  | "unpack2" :: _ =>
    match arg? ws "p" with
    | some p =>
      match unpack2 ((natList p).map UInt32.ofNat) with
      | some (d, pp) => (st, s!"ok L={d.length} P={pp} d={hexOrDash d}")
      | none => (st, "fault")
    | none => (st, "bad-op")
  | "unpackchunk" :: _ =>
    match argNat? ws "mode", arg? ws "p" with
    | some m, some p =>
      match unpackChunk (m == 5) ((natList p).map UInt32.ofNat) with
      | some ds =>
        let sm := smemLayout ds
        (st, s!"ok N={ds.length} L={",".intercalate (ds.map fun d => toString d.length)} smem={hexOrDash sm}")
      | none => (st, "fault")
    | _, _ => (st, "bad-op")
  | "unpacksmem" :: _ =>
    -- `dsqdata_chunk_Create` + loader's placement of the packets + `dsqdata_unpack_chunk` IN PLACE inside the byte buffer
    match argNat? ws "mode", argNat? ws "maxpacket", argNat? ws "maxseq", arg? ws "p" with
    | some m, some mp, some ms, some p =>
      let mode5 := m == 5
      let ps := (natList p).map UInt32.ofNat
      let mem := loadedSmem mode5 mp ms ps 0
      match unpackChunkMem mode5 mem (chunkPsqOff mode5 mp ms) ps.length with
      | some (mem', segs) =>
        let tot := 1 + (segs.map fun x => x.2 + 1).sum
        (st, s!"ok U={chunkU mode5 mp ms} off={chunkPsqOff mode5 mp ms} N={segs.length} segs={",".intercalate (segs.map fun x => s!"{x.1}:{x.2}")} smem={hexOrDash (mem'.take tot)}")
      | none => (st, "fault")
    | _, _, _, _ => (st, "bad-op")
  | "wq" :: rest => wqOp st rest
  | "wqtrace" :: _ =>
    match argNat? ws "size", arg? ws "ev" with
    | some size, some ev => (st, validate size (if ev == "-" then [] else ev.splitOn ";"))
    | _, _ => (st, "bad-op")
  | "wqrun" :: _ =>
    -- threaded run: the schedule-independent summary; the trace itself is validated by `wqtrace`
    match argNat? ws "items", argNat? ws "workers", argNat? ws "blocks" with
    | some items, some workers, some blocks =>
      (st, s!"ok items={items} processed={items} stops={workers} order=fifo final={blocks},0,0 removed={blocks}")
    | _, _, _ => (st, "bad-op")
  | "dsqtrace" :: _ =>
    match argNat? ws "U", argNat? ws "C", arg? ws "i0", arg? ws "ev" with
    | some u, some c, some i0, some ev =>
      let i0s := natList i0
      (st, pipeValidate u c i0s.length i0s (if ev == "-" then [] else ev.splitOn ";"))
    | _, _, _, _ => (st, "bad-op")
  | "thtrace" :: _ =>
    match arg? ws "ev" with
    | some ev => (st, thValidate (if ev == "-" then [] else ev.splitOn ";"))
    | none => (st, "bad-op")
  | "thrun" :: _ =>
    match argNat? ws "workers", argNat? ws "rounds" with
    | some n, some r => (st, s!"ok workers={n} rounds={r} idx=ok early=0")
    | _, _ => (st, "bad-op")
  | "thcpu" :: _ => (st, "ok positive=1 get=1 stable=1")
  | "dsqrt" :: _ => (st, dsqrt ws)
  | "dsqwrite" :: _ => (st, dsqwriteOp ws)
  | "dsqopen" :: _ => (st, dsqopenOp ws)
  | "dsqcut" :: _ => (st, dsqcutOp ws)
  | _ => (st, "bad-op")

def main : IO Unit := runDriver ({} : S) step'
