import EaselModel.Core.Proto
import EaselModel.Shuffle.Model
import EaselModel.Shuffle.FloatLaws
/-! Line-protocol driver for the C18 model (shufflers of esl_randomseq.c / esl_msashuffle.c / esl_vectorops.c). -/
open EaselModel EaselModel.Proto EaselModel.Random EaselModel.Shuffle

structure S where
  r : Option Rng := none
  r64 : Option Rng64 := none

def hexA (a : Bytes) : String := hexOrDash a.toList

def argBytes (ws : List String) (k : String) : Option Bytes := (argHex? ws k).map (·.toArray)

def commaFields (s : String) : List String := if s == "" then [] else s.splitOn ","

def hexRows (ws : List String) (k : String) : Option (Array Bytes) :=
  match arg? ws k with
  | none => none
  | some v => (commaFields v).foldl (fun acc f => acc.bind fun a => (bytesOfHex f).map fun b => a.push b.toArray) (some #[])

def parseHexNat (w : String) : Option Nat :=
  w.toList.foldl (fun acc c => acc.bind fun a => (hexVal c).map fun d => a * 16 + d) (some 0)

def bitsList64 (s : String) : List Float :=
  (commaFields s).filterMap fun w => (parseHexNat w).map fun n => Float.ofBits (UInt64.ofNat n)

def bitsList32 (s : String) : List Float :=
  (commaFields s).filterMap fun w => (parseHexNat w).map fun n => (Float32.ofBits (UInt32.ofNat n)).toFloat

def withSent (a : Bytes) : Bytes := #[255] ++ a ++ #[255]

def showSeq : SeqResult → String
  | .ok out => "ok " ++ hexA out
  | .einval => "einval"
  | .einconceivable => "einconceivable"
  | .nohalt => "nohalt"
  | .fatal => "fatal"

def showRows (rows : Array Bytes) : String :=
  if rows.isEmpty then "ok -" else "ok " ++ ",".intercalate (rows.toList.map hexA)

def gapText (c : UInt8) : Bool := c == 45 || c == 95 || c == 46   -- '-', '_', '.' : inmap == K in every standard alphabet

/-- `dst` of an out-of-place call is filled with 0x77 by the harness -/
def fill (n : Nat) : Bytes := Array.replicate n 0x77

/-- the result storage of a shuffler call as the harness passes it: the input itself, or `n` cells of 0x77 -/
def outOf (ip : Bool) (n : Nat) : Out UInt8 := if ip then .inPlace else .separate (fill n)

def step (s : S) (line : String) : S × String :=
  let ws := words line
  let ipn := (argNat? ws "ip").getD 0        -- QRNA: 0 separate, 1 both in place, 2 only xs == x, 3 only ys == y
  let ip := ipn == 1
  match ws with
  | [] => (s, "bad-op")
  | op :: _ =>
    if op == "seed64" then
      match argNat? ws "s" with
      | some sd => if sd = 0 then (s, "bad-op") else ({ s with r64 := some (Rng64.create (UInt64.ofNat sd)) }, "ok")
      | none => (s, "bad-op")
    else if op == "poke64" then
      match s.r64 with
      | some r => ({ s with r64 := some (r.pokeRaw (UInt64.ofNat ((argNat? ws "raw").getD 0))) }, "ok")
      | none => (s, "bad-op")
    else if op == "peek64" then
      match s.r64 with
      | some r => let (x, r') := r.next; ({ s with r64 := some r' }, s!"ok {x}")
      | none => (s, "bad-op")
    else if op == "dshuffle64" || op == "fshuffle64" || op == "ishuffle64" || op == "lshuffle64" then
      match s.r64 with
      | some r =>
        let v : Array Int := (if (arg? ws "v").getD "-" == "-" then [] else (commaFields ((arg? ws "v").getD "")).filterMap String.toInt?).toArray
        let (o, r') := vecShuffle64 v r
        ({ s with r64 := some r' }, if o.isEmpty then "ok -" else "ok " ++ ",".intercalate (o.toList.map toString))
      | none => (s, "bad-op")
    else if op == "abcinfo" then
      -- the alphabet constants this driver hard-codes, compared with the real alphabet object on every run
      let amino := (arg? ws "abc").getD "dna" == "amino"
      let K : Nat := if amino then 20 else 4
      let Kp : Nat := if amino then 29 else 18
      let gapchars := ((List.range 128).filter (fun c => c ≥ 1 && gapText (UInt8.ofNat c))).map UInt8.ofNat
      let xisgap := String.join ((List.range Kp).map fun c => if c == K then "1" else "0")
      (s, s!"ok K={K} Kp={Kp} gapchars={hexOrDash gapchars} xisgap={xisgap} gap={K} nonres={Kp-2} missing={Kp-1}")
    else if op == "seed" || op == "seedfast" then
      match argNat? ws "s" with
      | some sd => if sd = 0 then (s, "bad-op") else
          ({ s with r := some (Rng.create (if op == "seed" then .mersenne else .fast) (UInt32.ofNat sd)) }, "ok")
      | none => (s, "bad-op")
    else
    match s.r with
    | none => (s, "bad-op")
    | some r =>
      let fin (res : String) (r' : Rng) : S × String := ({ s with r := some r' }, res)
      if op == "peek" then let (x, r') := r.next; fin s!"ok {x}" r'
      else if op == "poke" && r.kind != .mersenne then (s, "bad-op")
      else if op == "poke" then
        -- force the next pre-tempering state word (generator states that seeds make astronomically rare)
        let r1 := if r.st.mti ≥ 624 then (r.next).2 else r
        let raw := UInt32.ofNat ((argNat? ws "raw").getD 0)
        -- n > 1 (round 6b): the next n words, as far as the current table reaches
        let n := (argNat? ws "n").getD 1
        let mt := (List.range n).foldl (fun (mt : Array UInt32) j => if r1.st.mti + j < 624 then mt.setIfInBounds (r1.st.mti + j) raw else mt) r1.st.mt
        fin "ok" { r1 with st := { r1.st with mt := mt } }
      else if op == "fplaws" then
        -- support-only monitor of the trusted binary64 facts (FloatLaws.lean): replay on a copy of the generator, state NOT advanced
        let ofop := (arg? ws "of").getD ""
        let showC (c : LawCount) : String := s!"ok checked={c.checked} bad={c.bad}"
        if ofop == "cmarkov0" || ofop == "cmarkov1" then
          match argBytes ws "s" with
          | some a =>
            if a.any (fun c => !isAlpha c) then (s, "einval")
            else if ofop == "cmarkov0" then (s, showC (lawsMarkov0 26 (textCodes a) r))
            else if a.size ≤ 2 then (s, showC {}) else (s, showC (lawsMarkov1 26 (textCodes a) r))
          | none => (s, "bad-op")
        else if ofop == "xmarkov0" || ofop == "xmarkov1" then
          match argBytes ws "s", argNat? ws "K" with
          | some a, some K =>
            let codes := digitalCodes (withSent a) a.size
            if codes.any (fun c => c ≥ K) then (s, "einval")
            else if ofop == "xmarkov0" then (s, showC (lawsMarkov0 K codes r))
            else if a.size ≤ 2 then (s, showC {}) else (s, showC (lawsMarkov1 K codes r))
          | _, _ => (s, "bad-op")
        else if ofop == "iid" || ofop == "fiid" || ofop == "xiid" || ofop == "xfiid" then
          let pv := (arg? ws "p").getD "none"
          if pv == "none" then (s, showC {}) else
          let p := if ofop == "fiid" || ofop == "xfiid" then bitsList32 pv else bitsList64 pv
          (s, showC (lawsIid p ((argNat? ws "L").getD 0) r {}))
        else (s, "bad-op")
      else if op == "sample" then
        match rsqSample ((argNat? ws "flag").getD 0) ((argNat? ws "L").getD 0) r with
        | (some o, r') => fin ("ok " ++ hexA (o.map UInt8.ofNat)) r'
        | (none, r') => fin "einval" r'
      else if op == "sampledirty" then
        let L := (argNat? ws "L").getD 0
        let pv := (arg? ws "p").getD "none"
        let amino := (arg? ws "abc").getD "dna" == "amino"
        let (p, r1) : List Float × Rng := if pv == "none" then
            let (pa, r1) := dirtyP (if amino then 20 else 4) (if amino then 29 else 18) r; (pa.toList, r1)
          else (bitsList64 pv, r)
        let (o, r') := iidLoop p L r1 #[]
        let showP : String := if pv == "none" && (argNat? ws "ret").getD 0 == 1 then
            " p=" ++ ",".intercalate (p.map fun x => String.ofList (Nat.toDigits 16 x.toBits.toNat)) else ""
        match o with
        | some codes => fin ("ok " ++ hexA (ofCodesDigital codes) ++ showP) r'
        | none => fin "fatal" r'
      else if op == "cshuffle" then
        match argBytes ws "s" with
        | some a => let (o, r') := cShuffleOut a (outOf ip a.size) r; fin ("ok " ++ hexA o) r'
        | none => (s, "bad-op")
      else if op == "xshuffle" then
        match argBytes ws "s" with
        | some a => let (o, r') := xShuffleOut (withSent a) a.size (outOf ip (a.size + 2)) r; fin ("ok " ++ hexA o) r'
        | none => (s, "bad-op")
      else if op == "cshuffledp" then
        match argBytes ws "s" with
        | some a => let (o, r') := cShuffleDP a r; fin (showSeq o) r'
        | none => (s, "bad-op")
      else if op == "xshuffledp" then
        match argBytes ws "s", argNat? ws "K" with
        | some a, some K => let (o, r') := xShuffleDP (withSent a) a.size K r; fin (showSeq o) r'
        | _, _ => (s, "bad-op")
      else if op == "ckmers" then
        match argBytes ws "s", argNat? ws "k" with
        | some a, some k => if k = 0 then (s, "bad-op") else let (o, r') := shuffleKmersOut 0 a a.size k (outOf ip a.size) r; fin ("ok " ++ hexA o) r'
        | _, _ => (s, "bad-op")
      else if op == "xkmers" then
        match argBytes ws "s", argNat? ws "k" with
        | some a, some k => if k = 0 then (s, "bad-op") else let (o, r') := shuffleKmersOut 1 (withSent a) a.size k (outOf ip (a.size + 2)) r; fin ("ok " ++ hexA o) r'
        | _, _ => (s, "bad-op")
      else if op == "cwindows" then
        match argBytes ws "s", argNat? ws "w" with
        | some a, some w => if w = 0 then (s, "bad-op") else let (o, r') := cShuffleWindowsOut a w (outOf ip a.size) r; fin ("ok " ++ hexA o) r'
        | _, _ => (s, "bad-op")
      else if op == "xwindows" then
        match argBytes ws "s", argNat? ws "w" with
        | some a, some w => if w = 0 then (s, "bad-op") else let (o, r') := xShuffleWindowsOut (withSent a) a.size w (outOf ip (a.size + 2)) r; fin ("ok " ++ hexA o) r'
        | _, _ => (s, "bad-op")
      else if op == "creverse" then
        match argBytes ws "s" with
        | some a => (s, "ok " ++ hexA (reverse ip a (if ip then a else fill a.size) 0 a.size))
        | none => (s, "bad-op")
      else if op == "xreverse" then
        match argBytes ws "s" with
        | some a =>
          let d := withSent a
          let o := reverse ip d (if ip then d else fill d.size) 1 a.size
          -- rev[0] = rev[L+1] = eslDSQ_SENTINEL
          (s, "ok " ++ hexA ((o.setIfInBounds 0 255).setIfInBounds (a.size + 1) 255))
        | none => (s, "bad-op")
      else if op == "cmarkov0" then
        match argBytes ws "s" with
        | some a => let (o, r') := cMarkov0 Float a r; fin (showSeq o) r'
        | none => (s, "bad-op")
      else if op == "cmarkov1" then
        match argBytes ws "s" with
        | some a => let (o, r') := cMarkov1 Float a r; fin (showSeq o) r'
        | none => (s, "bad-op")
      else if op == "xmarkov0" then
        match argBytes ws "s", argNat? ws "K" with
        | some a, some K => let (o, r') := xMarkov0 Float (withSent a) a.size K r; fin (showSeq o) r'
        | _, _ => (s, "bad-op")
      else if op == "xmarkov1" then
        match argBytes ws "s", argNat? ws "K" with
        | some a, some K => let (o, r') := xMarkov1 Float (withSent a) a.size K r; fin (showSeq o) r'
        | _, _ => (s, "bad-op")
      else if op == "iid" || op == "fiid" || op == "xiid" || op == "xfiid" then
        let isf := op == "fiid" || op == "xfiid"
        let isx := op == "xiid" || op == "xfiid"
        let L := (argNat? ws "L").getD 0
        let pv := (arg? ws "p").getD "none"
        if pv == "none" then
          if isx then
            let K := (argNat? ws "K").getD 4
            let (o, r') := iidUniform K L r #[]
            fin ("ok " ++ hexA (ofCodesDigital o)) r'
          else (s, "bad-op")
        else
          let p := if isf then bitsList32 pv else bitsList64 pv
          let (o, r') := iidLoop p L r #[]
          match o with
          | none => fin "fatal" r'
          | some codes =>
            if isx then fin ("ok " ++ hexA (ofCodesDigital codes)) r'
            else
              match argBytes ws "abc" with
              | some abc => fin ("ok " ++ hexA (codes.map fun i => abc.getD i 0)) r'
              | none => (s, "bad-op")
      else if op == "ishuffle" || op == "ireverse" || op == "dshuffle" || op == "fshuffle" || op == "lshuffle" ||
              op == "dreverse" || op == "freverse" || op == "lreverse" || op == "vcreverse" then
        let v : Array Int := (if (arg? ws "v").getD "-" == "-" then [] else (commaFields ((arg? ws "v").getD "")).filterMap String.toInt?).toArray
        let showV (o : Array Int) : String := if o.isEmpty then "ok -" else "ok " ++ ",".intercalate (o.toList.map toString)
        if op == "ishuffle" || op == "dshuffle" || op == "fshuffle" || op == "lshuffle" then let (o, r') := cShuffle v r; fin (showV o) r'
        else (s, showV (reverse ip v (if ip then v else Array.replicate v.size (if op == "vcreverse" then 0x77 else -777)) 0 v.size))
      else if (op == "msashuffle" || op == "bootstrap") && (argNat? ws "mixed").getD 0 == 1 then (s, "einval")
      else if op == "msashuffle" || op == "bootstrap" then
        match hexRows ws "rows" with
        | some rows =>
          let dig := (argNat? ws "dig").getD 0 == 1
          let alen := (rows.getD 0 #[]).size
          let base := if dig then 1 else 0
          let rows := if dig then rows.map withSent else rows
          if op == "msashuffle" then
            let (o, r') := msaShuffleOut base rows alen (if ip then none else some (rows.map fun row => fill row.size)) r; fin (showRows o) r'
          else
            -- fresh bootsample rows: 0x77 fill; the digital branch writes both sentinels, the text branch the NUL
            let boot := rows.map (fun row => if dig then (fill row.size).setIfInBounds 0 255 |>.setIfInBounds (alen+1) 255 else fill row.size)
            let (o, r') := bootstrap base alen rows boot r; fin (showRows o) r'
        | none => (s, "bad-op")
      else if op == "vshuffle" then
        match hexRows ws "rows" with
        | some rows =>
          let gap : UInt8 := if (arg? ws "abc").getD "dna" == "amino" then 20 else 4
          let alen := (rows.getD 0 #[]).size
          let rows := rows.map withSent
          -- fresh=1: <shuf> is a newly created alignment (0x77 everywhere) instead of a clone of <msa>
          let fresh := (argNat? ws "fresh").getD 0 == 1 && !ip
          let (o, r') := vShuffle gap ip alen rows (if fresh then rows.map (fun row => fill row.size) else rows) r; fin (showRows o) r'
        | none => (s, "bad-op")
      else if op == "permute" then
        let nseq := (commaFields ((arg? ws "rows").getD "")).length
        let get (k : String) : Option (Array String) :=
          match arg? ws k with
          | none => none
          | some v => if v == "none" then none else let f := commaFields v; if f.length == nseq then some f.toArray else none
        let keys := ["rows", "names", "wgt", "sqlen", "acc", "desc", "ss", "sa", "pp", "gs", "gr"]
        -- the length arrays exist iff the annotation does (harness fills sslen[i]=1000+i, salen 2000+i, pplen 3000+i); a partially present second GS tag
        let lens (k : String) (b : Nat) : Option (Array String) := (get k).map fun _ => ((List.range nseq).map fun i => toString (b + i)).toArray
        let gs2 : Option (Array String) := match get "gs2" with
          | some a => if a.any (· != "~") then some a else none
          | none => none
        let gr2 : Option (Array String) := match get "gr2" with
          | some a => if a.any (· != "~") then some a else none
          | none => none
        let arrays : Array (Array String) := ((keys.filterMap get) ++ [lens "ss" 1000, lens "sa" 2000, lens "pp" 3000, gs2, gr2].filterMap id).toArray
        let (o, r') := permuteSeqOrder arrays nseq r
        let rowStr (i : Nat) : String := "/".intercalate (o.toList.map fun a => a.getD i "?")
        -- the name index rebuilt at the end (model: `rebuildIndex` / `indexLookup`); `names` is the second per-sequence array
        let names' : List String := (o.getD 1 #[]).toList
        let keysIdx := rebuildIndex names'
        let idxStr : String :=
          if (argNat? ws "idx").getD 1 == 0 then "none"
          else if nseq == 0 then "-"
          else ",".intercalate (names'.map fun nm => match indexLookup keysIdx nm with | some k => toString k | none => "x")
        fin ("ok " ++ (if nseq == 0 then "-" else ";".intercalate ((List.range nseq).map rowStr)) ++ " index=" ++ idxStr) r'
      else if op == "cqrna" || op == "xqrna" then
        match argBytes ws "x", argBytes ws "y" with
        | some x, some y =>
          let showP : PairResult → String
            | .ok xs ys => "ok " ++ hexA xs ++ "," ++ hexA ys
            | .einval => "einval"
            | .emem => "emem"
          if op == "cqrna" then
            let (o, r') := qrnaCall gapText x y (outOf (ipn == 1 || ipn == 2) x.size) (outOf (ipn == 1 || ipn == 3) y.size) 0 r
            fin (showP o) r'
          else
            let gap : UInt8 := if (arg? ws "abc").getD "dna" == "amino" then 20 else 4
            let (o, r') := qrnaCall (fun c => c == gap) (withSent x) (withSent y)
              (outOf (ipn == 1 || ipn == 2) (x.size + 2)) (outOf (ipn == 1 || ipn == 3) (y.size + 2)) 1 r
            fin (showP o) r'
        | _, _ => (s, "bad-op")
      else (s, "bad-op")

def main : IO Unit := runDriver ({} : S) step
