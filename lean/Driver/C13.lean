import EaselModel.Core.Proto
import EaselModel.Miniapps.Tools
/-! Line-protocol driver for the C13 reference functions: predicts the complete stdout of a tool invocation
    (`rc=0 out=<hex>`) or answers `nopred` when the invocation is outside the reference's domain. -/
open EaselModel EaselModel.Proto EaselModel.Miniapps

structure S where
  files : List (String × Option (List Char)) := []
  last : Option (List Char) := none

def bytesToChars (b : List UInt8) : List Char := b.map fun x => Char.ofNat x.toNat
def charsToBytes (c : List Char) : List UInt8 := c.map fun x => UInt8.ofNat x.toNat

def splitNul (b : List UInt8) : List String :=
  (bytesToChars b |>.splitOn (Char.ofNat 0)).map String.ofList

def lookupFile (s : S) (n : String) : Option (List Char) :=
  match s.files.find? (fun p => p.1 == n) with
  | some (_, some c) => some c
  | _ => none

def step (s : S) (line : String) : S × String :=
  let ws := words line
  match ws with
  | "file" :: _ =>
    match arg? ws "name", argHex? ws "hex" with
    | some n, some b => ({ s with files := (n, some (bytesToChars b)) :: s.files }, "ok")
    | _, _ => (s, "bad-op")
  | "save" :: _ =>
    match arg? ws "name" with
    | some n => ({ s with files := (n, s.last) :: s.files }, "ok")
    | none => (s, "bad-op")
  | "run" :: _ =>
    match arg? ws "tool", arg? ws "args" with
    | some tool, some ah =>
      let argv := if ah == "-" then [] else match bytesOfHex ah with
        | some b => splitNul b
        | none => []
      if (arg? ws "stdin").isSome then ({ s with last := none }, "nopred") else
      match runToolFull tool argv (lookupFile s) with
      | some (out, written) =>
        -- `esl-sfetch --index f` leaves `f.ssi` behind: later fetches of the case may rely on it
        let files := match tool, argv with
          | "esl-sfetch", ["--index", f] => (f ++ ".ssi", some []) :: s.files
          | "easel", "index" :: rest => ((rest.getLast?.getD "") ++ ".ssi", some []) :: s.files
          | _, _ => written.map (fun p => (p.1, some p.2)) ++ s.files
        ({ s with last := some out.toList, files := files }, "rc=0 out=" ++ hexOrDash (charsToBytes out.toList))
      | none =>
        -- an index the reference cannot describe may have been written: later fetches from that file are not predicted
        let files := if argv.contains "--index" then ((argv.getLast?.getD "") ++ ".ssi.unknown", some []) :: s.files else s.files
        ({ s with last := none, files := files }, "nopred")
    | _, _ => (s, "bad-op")
  | "cat" :: _ =>
    match arg? ws "name" with
    | some n =>
      match lookupFile s n with
      | some c => (s, "ok " ++ hexOrDash (charsToBytes c))
      | none => (s, "nopred")
    | none => (s, "bad-op")
  | _ => (s, "bad-op")

def main : IO Unit := runDriver ({} : S) step
