import EaselModel.Core.Proto
import EaselModel.Simd.Intrinsics
import EaselModel.Simd.Bytes
import EaselModel.Simd.Lane32
import EaselModel.Generated.SimdHelpers
import EaselModel.Generated.SimdLogExp
import EaselModel.Vec.Model
import EaselModel.Vec.Mat
import EaselModel.Vec.CSem
import EaselModel.Generated.VectorOps
/-! Line-protocol driver for the C20 model: SIMD helpers (generated), raw intrinsics (semantics table),
    esl_sse_logf/expf (generated lane functions on the hardware float instance), vector routines (hand model). -/
open EaselModel EaselModel.Proto EaselModel.Simd EaselModel.Vec

/-! ## byte codecs -/
def leNat (bs : List UInt8) : Nat := bs.foldr (fun b acc => b.toNat + 256 * acc) 0
def natLE (k : Nat) (x : Nat) : List UInt8 := (List.range k).map fun i => UInt8.ofNat (x / 256 ^ i % 256)

def chunks (k : Nat) (bs : List UInt8) : List (List UInt8) :=
  let a := bs.toArray
  (List.range (a.size / k)).map fun i => (a.extract (i * k) (i * k + k)).toList

def vecW (w n : Nat) (bs : List UInt8) : Vector (BitVec w) n :=
  let a := bs.toArray
  Vector.ofFn fun i => BitVec.ofNat w (leNat (a.extract (i.val * (w / 8)) (i.val * (w / 8) + w / 8)).toList)
def bytesW {w n : Nat} (v : Vector (BitVec w) n) : List UInt8 := v.toList.flatMap fun x => natLE (w / 8) x.toNat

def doubles (bs : List UInt8) : List Float := (chunks 8 bs).map fun c => Float.ofBits (UInt64.ofNat (leNat c))
def floats (bs : List UInt8) : List Float32 := (chunks 4 bs).map fun c => Float32.ofBits (UInt32.ofNat (leNat c))
def ints (k : Nat) (bs : List UInt8) : List Int := (chunks k bs).map fun c =>
  let u := leNat c; if u < 2 ^ (8 * k - 1) then (u : Int) else (u : Int) - (2 ^ (8 * k) : Nat)
def dbytes (v : List Float) : List UInt8 := v.flatMap fun x => natLE 8 x.toBits.toNat
def fbytes (v : List Float32) : List UInt8 := v.flatMap fun x => natLE 4 x.toBits.toNat
def ibytes (k : Nat) (v : List Int) : List UInt8 := v.flatMap fun x => natLE k (x % ((2 ^ (8 * k) : Nat) : Int)).toNat

def hexPad (digits : Nat) (x : Nat) : String :=
  let s := Nat.toDigits 16 x
  String.ofList (List.replicate (digits - s.length) '0' ++ s)
def dbits (x : Float) : String := hexPad 16 x.toBits.toNat
def fbits (x : Float32) : String := hexPad 8 x.toBits.toNat

def hexNat? (s : String) : Option Nat :=
  s.toList.foldl (fun acc c => acc.bind fun a => (hexVal c).map fun d => a * 16 + d) (some 0)

def canonBytesF (bs : List UInt8) : List UInt8 :=
  (chunks 4 bs).flatMap fun c => natLE 4 (canonNaN (UInt32.ofNat (leNat c))).toNat

/-! ## helpers -/
def opSimd (ws : List String) : String :=
  match arg? ws "f" with
  | none => "bad-op"
  | some f =>
    let args := ["a", "b", "m"].filterMap fun k => argHex? ws k
    match Gen.dispatch f args with
    | none => "bad-op"
    | some out =>
      let out := if (f.splitOn "hsum").length > 1 then canonBytesF out else out
      "ok " ++ hexOrDash out

/-! ## raw intrinsics against the table -/
def opIntr (ws : List String) : String :=
  let f := (arg? ws "f").getD ""
  let w := (argNat? ws "w").getD 8
  let imm := (argNat? ws "imm").getD 0
  let k := (argNat? ws "k").getD 0
  let ab := (argHex? ws "a").getD []
  let bb := (argHex? ws "b").getD []
  let mb := (argHex? ws "m").getD []
  let nbytes := if f.startsWith "_mm512_" then 64 else if f.startsWith "_mm256_" then 32 else 16
  let n := nbytes * 8 / w
  let L := 128 / w
  let B := w / 8
  let a : Vector (BitVec w) n := vecW w n ab
  let b : Vector (BitVec w) n := vecW w n bb
  let okv (v : Vector (BitVec w) n) : String := "ok " ++ hexOrDash (bytesW v)
  let okn (x : Nat) : String := "ok " ++ hexOrDash (natLE 4 x)
  let af : Vector UInt32 (nbytes / 4) := vecF (nbytes / 4) ab
  let bf : Vector UInt32 (nbytes / 4) := vecF (nbytes / 4) bb
  let mf : Vector UInt32 (nbytes / 4) := vecF (nbytes / 4) mb
  let okf (v : Vector UInt32 (nbytes / 4)) : String := "ok " ++ hexOrDash (bytesF v)
  -- a scalar extraction of `g` bits at index `imm`, cut to the `w`-bit lane of the helper's view = lane `imm * g / w` of that view
  let extr (g : Nat) : String :=
    if w ≤ g && (imm * g) % w == 0 then "ok " ++ hexOrDash (natLE (w / 8) (extract 0 a (imm * g / w)).toNat) else "bad-op"
  match f with
  | "_mm_srli_si128" | "_mm256_srli_si256" => if imm % B == 0 then okv (bsrli L B 0 a imm) else "bad-op"
  | "_mm_slli_si128" => if imm % B == 0 then okv (bslli L B 0 a imm) else "bad-op"
  | "_mm_shuffle_epi32" | "_mm256_shuffle_epi32" => okv (shuffle32 L 0 a imm)
  | "_mm_shufflelo_epi16" | "_mm256_shufflelo_epi16" => if w ≤ 16 then okv (shufflelo16 L 0 a imm) else "bad-op"
  | "_mm_shuffle_ps" | "_mm512_shuffle_ps" => okv (shuffle_ps L 0 a b imm)
  | "_mm_srli_epi16" => if w < 16 && imm % w == 0 && imm < 16 then okv (srl_group (16 / w) 0 a (imm / w)) else "bad-op"
  | "_mm_srli_epi32" => if w < 32 && imm % w == 0 && imm < 32 then okv (srl_group (32 / w) 0 a (imm / w)) else "bad-op"
  | "_mm256_permute2x128_si256" => okv (permute2x128 L 0 a b imm)
  | "_mm_alignr_epi8" | "_mm256_alignr_epi8" | "_mm512_alignr_epi8" => if imm % B == 0 then okv (alignr L B 0 a b imm) else "bad-op"
  | "_mm512_shuffle_f32x4" => okv (shuffle_x4 L 0 a b imm)
  | "_mm512_maskz_shuffle_i32x4" => okv (maskz_shuffle_x4 L 0 k a b imm)
  | "_mm512_extracti32x8_epi32" | "_mm512_extractf32x8_ps" =>
      "ok " ++ hexOrDash (bytesW (extract_half (m := n / 2) 0 a imm))
  | "_mm_move_ss" => okv (move_ss (32 / w) 0 a b)
  | "_mm_extract_epi16" | "_mm256_extract_epi16" => extr 16
  | "_mm_cvtsi128_si32" | "_mm256_extract_epi32" => extr 32
  | "_mm256_extract_epi8" => extr 8
  | "_mm_store_ss" => if w == 32 then "ok " ++ hexOrDash (natLE 4 (extract 0 a 0).toNat) else "bad-op"
  | "_mm_setzero_ps" | "_mm_setzero_si128" => okv (Vector.ofFn fun _ => 0)
  | "_mm_set1_ps" | "_mm_set1_epi32" => if w == 32 then okv (Vector.ofFn fun _ => extract 0 a 0) else "bad-op"
  | "_mm_castps_si128" | "_mm_castsi128_ps" => okv a
  | "_mm_max_epu8" | "_mm256_max_epu8" => if w == 8 then okv (max_epu a b) else "bad-op"
  | "_mm_max_epi8" | "_mm256_max_epi8" => if w == 8 then okv (max_epi a b) else "bad-op"
  | "_mm_max_epi16" | "_mm256_max_epi16" => if w == 16 then okv (max_epi a b) else "bad-op"
  | "_mm_or_si128" | "_mm256_or_si256" | "_mm512_or_si512" => okv (or_si a b)
  | "_mm_xor_si128" => okv (xor_si a b)
  | "_mm_and_si128" => okv (and_si a b)
  | "_mm_cmpeq_epi8" => if w == 8 then okv (cmpeq_epi a b) else "bad-op"
  | "_mm_cmpgt_epi16" | "_mm256_cmpgt_epi16" => if w == 16 then okv (cmpgt_epi a b) else "bad-op"
  | "_mm_movemask_epi8" | "_mm256_movemask_epi8" => okn (movemask_epi8 B a)
  | "_mm_movemask_ps" => okn (movemask_ps F32.ops af)
  | "_mm_max_ps" => okf (max_ps F32.ops af bf)
  | "_mm_min_ps" => okf (min_ps F32.ops af bf)
  | "_mm_cmpgt_ps" => okf (cmpgt_ps F32.ops af bf)
  | "_mm_blendv_ps" => okf (blendv_ps F32.ops af bf mf)
  | "_mm_add_ps" | "_mm256_add_ps" | "_mm512_add_ps" => "ok " ++ hexOrDash (canonBytesF (bytesF (add_ps F32.ops af bf)))
  | _ => "bad-op"

/-! ## lane-wise 32-bit intrinsics (table Lane32.lean, hardware instance) -/
def opLane32 (ws : List String) : String :=
  let f := (arg? ws "f").getD ""
  let imm := (argNat? ws "imm").getD 0
  let as := (chunks 4 ((argHex? ws "a").getD [])).map fun c => UInt32.ofNat (leNat c)
  let bs := (chunks 4 ((argHex? ws "b").getD [])).map fun c => UInt32.ofNat (leNat c)
  let L := Lane32Ops.hw
  let un (g : UInt32 → UInt32) : String := "ok " ++ hexOrDash (as.flatMap fun a => natLE 4 (g a).toNat)
  let bin (g : UInt32 → UInt32 → UInt32) : String :=
    "ok " ++ hexOrDash ((List.zip as (bs ++ List.replicate 4 0)).flatMap fun ab => natLE 4 (g ab.1 ab.2).toNat)
  match f with
  | "_mm_cvttps_epi32" => un L.cvttps_epi32
  | "_mm_cvtepi32_ps" => un L.cvtepi32_ps
  | "_mm_cmplt_ps" => bin L.cmplt_ps
  | "_mm_cmpgt_ps" => bin L.cmpgt_ps
  | "_mm_cmple_ps" => bin L.cmple_ps
  | "_mm_cmpeq_epi32" => bin L.cmpeq_epi32
  | "_mm_sub_epi32" => bin L.sub_epi32
  | "_mm_add_epi32" => bin L.add_epi32
  | "_mm_and_ps" => bin L.and32
  | "_mm_or_ps" => bin L.or32
  | "_mm_andnot_ps" => bin L.andnot32
  | "_mm_sub_ps" => bin fun a b => canonNaN (L.sub_ps a b)
  | "_mm_mul_ps" => bin fun a b => canonNaN (L.mul_ps a b)
  | "_mm_add_ps" => bin fun a b => canonNaN (L.add_ps a b)
  | "_mm_srli_epi32" => un fun a => L.srli_epi32 a imm
  | "_mm_slli_epi32" => un fun a => L.slli_epi32 a imm
  | _ => "bad-op"

/-! ## logf / expf -/
def opLogExp (isLog : Bool) (ws : List String) : String :=
  let xs := (chunks 4 ((argHex? ws "x").getD [])).map fun c => UInt32.ofNat (leNat c)
  let f := if isLog then Gen.esl_sse_logf_lane Lane32Ops.hw else Gen.esl_sse_expf_lane Lane32Ops.hw
  let lib (u : UInt32) : UInt32 := if isLog then (Float32.log (Float32.ofBits u)).toBits else (Float32.exp (Float32.ofBits u)).toBits
  let res := xs.flatMap fun u => natLE 4 (canonNaN (f u)).toNat
  let ref := xs.flatMap fun u => natLE 4 (canonNaN (lib u)).toNat
  "ok " ++ hexOrDash res ++ " ref=" ++ hexOrDash ref

/-! ## vector routines -/
def stat (b : Bool) : String := if b then "ok ok nomsg" else "ok fail msg"
/-- the same status when the caller passes `errbuf == NULL` (op argument `e=0`) -/
def statE (ws : List String) (s : String) : String :=
  if (argNat? ws "e").getD 1 == 0 then (if s == "ok ok nomsg" then "ok ok null" else if s == "ok fail msg" then "ok fail null" else s) else s

def opVecD (op : String) (x y : List Float) (s : Float) (m : Nat) : String :=
  let sc (o : Option Float) : String := match o with | some r => "ok " ++ dbits r | none => "fault"
  let vc (o : Option (List Float)) : String := match o with | some r => "ok " ++ hexOrDash (dbytes r) | none => "fault"
  match op with
  | "Sum" => sc (some (sum x))
  | "Dot" => sc (some (dot x y))
  | "Max" => sc (vmax x)
  | "MatMax" => if m = 0 then "bad-op" else sc (vmax x)
  | "MatScale" => if m = 0 then "bad-op" else vc (some (scale x s))
  | "Min" => sc (vmin x)
  | "ArgMax" => s!"ok {argmax x}"
  | "ArgMin" => s!"ok {argmin x}"
  | "SortIncreasing" => vc (some (sortIncreasing x))
  | "SortDecreasing" => vc (some (sortDecreasing x))
  | "Reverse" | "ReverseInPlace" => vc (some (reverse x))
  | "Set" => vc (some (x.map fun _ => s))
  | "Copy" => vc (some x)
  | "Swap" => vc (some (y ++ x))
  | "Scale" => vc (some (scale x s))
  | "Increment" => vc (some (increment x s))
  | "Add" => vc (some (add x y))
  | "AddScaled" => vc (some (addScaled x y s))
  | "Norm" => vc (some (norm x))
  | "LogNorm" => vc (logNorm x)
  | "Log2Norm" => vc (log2Norm x)
  | "Log" => vc (some (vlog x))
  | "Exp" => vc (some (vexp x))
  | "Log2" => vc (some (vlog2 x))
  | "Exp2" => vc (some (vexp2 x))
  | "LogSum" => sc (logSum x)
  | "Log2Sum" => sc (log2Sum x)
  | "Entropy" => sc (some (entropy x))
  | "RelEntropy" => sc (some ((relEntropyGo x y (VNum.ofNat 0)).getD VInf.inf))
  | "CDF" | "CDFInPlace" => vc (cdf x)
  | "Validate" => stat (validate x s)
  | "LogValidate" => stat (logValidate x s)
  | "Log2Validate" => stat (log2Validate x s)
  | _ => "bad-op"

def opVecF (op : String) (x y : List Float32) (s : Float32) (m : Nat) : String :=
  let sc (o : Option Float32) : String := match o with | some r => "ok " ++ fbits r | none => "fault"
  let vc (o : Option (List Float32)) : String := match o with | some r => "ok " ++ hexOrDash (fbytes r) | none => "fault"
  match op with
  | "Sum" => sc (some (sum x))
  | "Dot" => sc (some (dot x y))
  | "Max" => sc (vmax x)
  | "MatMax" => if m = 0 then "bad-op" else sc (vmax x)
  | "MatScale" => if m = 0 then "bad-op" else vc (some (scale x s))
  | "Min" => sc (vmin x)
  | "ArgMax" => s!"ok {argmax x}"
  | "ArgMin" => s!"ok {argmin x}"
  | "SortIncreasing" => vc (some (sortIncreasing x))
  | "SortDecreasing" => vc (some (sortDecreasing x))
  | "Reverse" | "ReverseInPlace" => vc (some (reverse x))
  | "Set" => vc (some (x.map fun _ => s))
  | "Copy" => vc (some x)
  | "Swap" => vc (some (y ++ x))
  | "Scale" => vc (some (scale x s))
  | "Increment" => vc (some (increment x s))
  | "Add" => vc (some (add x y))
  | "AddScaled" => vc (some (addScaled x y s))
  | "Norm" => vc (some (norm x))
  | "LogNorm" => vc (logNorm x)
  | "Log2Norm" => vc (log2Norm x)
  | "Log" => vc (some (vlog x))
  | "Exp" => vc (some (vexp x))
  | "Log2" => vc (some (vlog2 x))
  | "Exp2" => vc (some (vexp2 x))
  | "LogSum" => sc (logSum x)
  | "Log2Sum" => sc (log2Sum x)
  | "Entropy" => sc (some (entropy x))
  | "RelEntropy" => sc (some ((relEntropyGo x y (VNum.ofNat 0)).getD VInf.inf))
  | "CDF" | "CDFInPlace" => vc (cdf x)
  | "Validate" => stat (validate x s)
  | "LogValidate" => stat (logValidate x s)
  | "Log2Validate" => stat (log2Validate x s)
  | _ => "bad-op"

def opVecI (k : Nat) (op : String) (x y : List Int) (m : Nat) (c : Int) : String :=
  let sc (o : Option Int) : String := match o with | some r => s!"ok {r}" | none => "fault"
  match op with
  | "Sum" => sc (some (isum x))
  | "Dot" => sc (some (idot x y))
  | "Max" => sc (vmax x)
  | "MatMax" => if m = 0 then "bad-op" else sc (vmax x)
  | "Min" => sc (vmin x)
  | "ArgMax" => s!"ok {argmax x}"
  | "ArgMin" => s!"ok {argmin x}"
  | "SortIncreasing" => "ok " ++ hexOrDash (ibytes k (sortIncreasing x))
  | "SortDecreasing" => "ok " ++ hexOrDash (ibytes k (sortDecreasing x))
  | "Reverse" | "ReverseInPlace" => "ok " ++ hexOrDash (ibytes k (reverse x))
  | "Set" => "ok " ++ hexOrDash (ibytes k (x.map fun _ => c))
  | "Copy" => "ok " ++ hexOrDash (ibytes k x)
  | "Swap" => "ok " ++ hexOrDash (ibytes k (y ++ x))
  | "Scale" => "ok " ++ hexOrDash (ibytes k (x.map (· * c)))
  | "MatScale" => if m = 0 then "bad-op" else "ok " ++ hexOrDash (ibytes k (x.map (· * c)))
  | "Increment" => "ok " ++ hexOrDash (ibytes k (x.map (· + c)))
  | "Add" => "ok " ++ hexOrDash (ibytes k (List.zipWith (· + ·) x y))
  | "AddScaled" => "ok " ++ hexOrDash (ibytes k (List.zipWith (fun a b => a + b * c) x y))
  | _ => "bad-op"

/-! ## vector routines REGENERATED from esl_vectorops.c / esl_matrixops.c (`Generated/VectorOps.lean`): one generic path for the
    five element types; the generated `dispatch` maps the C function's name to its translation -/
structure Codec (α : Type) where
  width : Nat
  dec : List UInt8 → α
  enc : α → List UInt8
  scal : α → String
  /-- the scalar argument of the op line (`s=` bit pattern for D/F, `k=` decimal for I/L) -/
  ofArg : List String → α

def codecD : Codec Float := ⟨8, fun c => Float.ofBits (UInt64.ofNat (leNat c)), fun x => natLE 8 x.toBits.toNat, dbits,
  fun ws => Float.ofBits (UInt64.ofNat (((arg? ws "s").bind hexNat?).getD 0))⟩
def codecF : Codec Float32 := ⟨4, fun c => Float32.ofBits (UInt32.ofNat (leNat c)), fun x => natLE 4 x.toBits.toNat, fbits,
  fun ws => Float32.ofBits (UInt32.ofNat (((arg? ws "s").bind hexNat?).getD 0))⟩
def codecI : Codec Int32 := ⟨4, fun c => (UInt32.ofNat (leNat c)).toInt32, fun x => natLE 4 x.toUInt32.toNat, fun x => toString x.toInt,
  fun ws => Int32.ofInt ((argInt? ws "k").getD 1)⟩
def codecL : Codec Int64 := ⟨8, fun c => (UInt64.ofNat (leNat c)).toInt64, fun x => natLE 8 x.toUInt64.toNat, fun x => toString x.toInt,
  fun ws => Int64.ofInt ((argInt? ws "k").getD 1)⟩
def codecW : Codec UInt16 := ⟨2, fun c => UInt16.ofNat (leNat c), fun x => natLE 2 x.toNat, fun x => toString x.toNat, fun _ => 0⟩
def codecB : Codec UInt8 := ⟨1, fun c => UInt8.ofNat (leNat c), fun x => [x], fun x => toString x.toNat, fun _ => 0⟩

/-- `none` = this op is not one of the regenerated routines (the caller falls back to the hand model) -/
def opVecGen {α : Type} [CElem α] (cd : Codec α) (T : String) (op : String) (ws : List String) : Option String :=
  let x : Array α := ((chunks cd.width ((argHex? ws "x").getD [])).map cd.dec).toArray
  let hasY := (arg? ws "y").isSome
  let y : Array α := ((chunks cd.width ((argHex? ws "y").getD [])).map cd.dec).toArray
  let len : Int := x.size
  let n : Int := match argInt? ws "n" with | some k => if k < len && k ≥ 0 then k else len | none => len
  let c := cd.ofArg ws
  let M : Int := ((argNat? ws "m").getD 1 : Nat)
  let dest : Array α := Array.replicate x.size c
  let first (a : Array α) : List UInt8 := (a.extract 0 n.toNat).toList.flatMap cd.enc
  let fmt (r : Option (Option (Res α))) : Option String :=
    match r with
    | none => none
    | some none => some "fault"
    | some (some r) =>
      match r.e, r.i with
      | some e, _ => some ("ok " ++ cd.scal e)
      | none, some i => some s!"ok {i}"
      | none, none => some ("ok " ++ hexOrDash (r.arrs.flatMap first))
  if hasY && y.size != x.size then some "bad-op" else
  let v := "esl_vec_" ++ T ++ op
  match op with
  | "Set" | "Scale" | "Increment" => fmt (Gen.dispatch v [x] [n] [c])
  | "Add" => fmt (Gen.dispatch v [x, y] [n] [])
  | "AddScaled" => fmt (Gen.dispatch v [x, y] [n] [c])
  | "Sum" | "Max" | "Min" | "ArgMax" | "ArgMin" | "SortIncreasing" | "SortDecreasing" => fmt (Gen.dispatch v [x] [n] [])
  | "Dot" | "Swap" | "Compare" => fmt (Gen.dispatch v [x, y] [n] [])
  | "MatCompare" => if M = 0 then some "bad-op" else fmt (Gen.dispatch ("esl_mat_" ++ T ++ "Compare") [x, y] [M, Int.tdiv n M] [])
  | "Copy" | "Reverse" => fmt (Gen.dispatch v [x, dest] [n] [])
  | "CDF" => fmt (Gen.dispatch v [x, dest] [n] [])
  | "CDFInPlace" => fmt (Gen.dispatch ("esl_vec_" ++ T ++ "CDF_inplace") [x] [n] [])
  | "ReverseInPlace" => fmt (Gen.dispatch ("esl_vec_" ++ T ++ "Reverse_inplace") [x] [n] [])
  | "MatMax" => if M = 0 then some "bad-op" else fmt (Gen.dispatch ("esl_mat_" ++ T ++ "Max") [x] [M, Int.tdiv n M] [])
  | "MatScale" => if M = 0 then some "bad-op" else fmt (Gen.dispatch ("esl_mat_" ++ T ++ "Scale") [x] [M, Int.tdiv n M] [c])
  | "MatSet" => if M = 0 then some "bad-op" else fmt (Gen.dispatch ("esl_mat_" ++ T ++ "Set") [x] [M, Int.tdiv n M] [c])
  | "MatCopy" => if M = 0 then some "bad-op" else fmt (Gen.dispatch ("esl_mat_" ++ T ++ "Copy") [x, dest] [M, Int.tdiv n M] [])
  | _ => none

/-- `esl_vec_{D,F}Compare`, `esl_mat_{D,F}Compare` as regenerated (they need the floating-point class `VCmp`, so they are not in the
    generic `dispatch`) -/
def opCompareF {α : Type} [VCmp α] (cd : Codec α) (isF mat : Bool) (ws : List String) : String :=
  let x : Array α := ((chunks cd.width ((argHex? ws "x").getD [])).map cd.dec).toArray
  let y : Array α := ((chunks cd.width ((argHex? ws "y").getD [])).map cd.dec).toArray
  let len : Int := x.size
  let n : Int := match argInt? ws "n" with | some k => if k < len && k ≥ 0 then k else len | none => len
  let M : Int := ((argNat? ws "m").getD 1 : Nat)
  let tol := cd.ofArg ws
  if y.size != x.size || M = 0 then "bad-op" else
  let r := match isF, mat with
    | false, false => Gen.esl_vec_DCompare x y n tol
    | true, false => Gen.esl_vec_FCompare x y n tol
    | false, true => Gen.esl_mat_DCompare x y M (Int.tdiv n M) tol
    | true, true => Gen.esl_mat_FCompare x y M (Int.tdiv n M) tol
  match r with | some i => s!"ok {i}" | none => "fault"

/-- the probability / log-space routines over `double` as REGENERATED from esl_vectorops.c (they need the class `VInf`: not in the generic
    `dispatch`); `none` = not one of them -/
def opVecDGen (op : String) (ws : List String) : Option String :=
  let x : Array Float := ((chunks 8 ((argHex? ws "x").getD [])).map codecD.dec).toArray
  let len : Int := x.size
  let n : Int := match argInt? ws "n" with | some k => if k < len && k ≥ 0 then k else len | none => len
  let vc (o : Option (Array Float)) : Option String :=
    some (match o with | some r => "ok " ++ hexOrDash ((r.extract 0 n.toNat).toList.flatMap codecD.enc) | none => "fault")
  let sc (o : Option Float) : Option String := some (match o with | some r => "ok " ++ dbits r | none => "fault")
  match op with
  | "Norm" => vc (Gen.esl_vec_DNorm x n)
  | "Log" => vc (Gen.esl_vec_DLog x n)
  | "Log2" => vc (Gen.esl_vec_DLog2 x n)
  | "Exp" => vc (Gen.esl_vec_DExp x n)
  | "Exp2" => vc (Gen.esl_vec_DExp2 x n)
  | "LogSum" => sc (Gen.esl_vec_DLogSum x n)
  | "Log2Sum" => sc (Gen.esl_vec_DLog2Sum x n)
  | "LogNorm" => vc (Gen.esl_vec_DLogNorm x n)
  | "Log2Norm" => vc (Gen.esl_vec_DLog2Norm x n)
  | "Entropy" => sc (Gen.esl_vec_DEntropy x n)
  | "RelEntropy" =>
    let y : Array Float := ((chunks 8 ((argHex? ws "y").getD [])).map codecD.dec).toArray
    if y.size != x.size then some "bad-op" else sc (Gen.esl_vec_DRelEntropy x y n)
  | "Validate" => some (match Gen.esl_vec_DValidate x n (codecD.ofArg ws) with | some r => stat (r == 0) | none => "fault")
  | "LogValidate" => some (match Gen.esl_vec_DLogValidate x n (codecD.ofArg ws) with | some r => stat (r == 0) | none => "fault")
  | "Log2Validate" => some (match Gen.esl_vec_DLog2Validate x n (codecD.ofArg ws) with | some r => stat (r == 0) | none => "fault")
  | _ => none

/-- the same routines over `float` as REGENERATED (binary32 cells, the double sub-expressions of the C text at `Float`: `VMix Float32 Float`) -/
def opVecFGen (op : String) (ws : List String) : Option String :=
  let x : Array Float32 := ((chunks 4 ((argHex? ws "x").getD [])).map codecF.dec).toArray
  let len : Int := x.size
  let n : Int := match argInt? ws "n" with | some k => if k < len && k ≥ 0 then k else len | none => len
  let vc (o : Option (Array Float32)) : Option String :=
    some (match o with | some r => "ok " ++ hexOrDash ((r.extract 0 n.toNat).toList.flatMap codecF.enc) | none => "fault")
  let sc (o : Option Float32) : Option String := some (match o with | some r => "ok " ++ fbits r | none => "fault")
  match op with
  | "Norm" => vc (Gen.esl_vec_FNorm x n)
  | "Log" => vc (Gen.esl_vec_FLog x n)
  | "Log2" => vc (Gen.esl_vec_FLog2 x n)
  | "Exp" => vc (Gen.esl_vec_FExp x n)
  | "Exp2" => vc (Gen.esl_vec_FExp2 x n)
  | "LogSum" => sc (Gen.esl_vec_FLogSum x n)
  | "Log2Sum" => sc (Gen.esl_vec_FLog2Sum x n)
  | "LogNorm" => vc (Gen.esl_vec_FLogNorm x n)
  | "Log2Norm" => vc (Gen.esl_vec_FLog2Norm x n)
  | "Entropy" => sc (Gen.esl_vec_FEntropy x n)
  | "RelEntropy" =>
    let y : Array Float32 := ((chunks 4 ((argHex? ws "y").getD [])).map codecF.dec).toArray
    if y.size != x.size then some "bad-op" else sc (Gen.esl_vec_FRelEntropy x y n)
  | "Validate" => some (match Gen.esl_vec_FValidate x n (codecF.ofArg ws) with | some r => stat (r == 0) | none => "fault")
  | "LogValidate" => some (match Gen.esl_vec_FLogValidate x n (codecF.ofArg ws) with | some r => stat (r == 0) | none => "fault")
  | "Log2Validate" => some (match Gen.esl_vec_FLog2Validate x n (codecF.ofArg ws) with | some r => stat (r == 0) | none => "fault")
  | _ => none

/-- both models of a routine must agree (the regenerated one and the hand model that carries the real-number theorems) -/
def agree (g h : String) : String := if g == h then g else "model-mismatch gen=[" ++ g ++ "] hand=[" ++ h ++ "]"

def opVec (ws : List String) : String :=
  match arg? ws "op" with
  | none => "bad-op"
  | some full =>
    let T := full.toList.headD ' '
    let op := (full.drop 1).toString
    let xb := (argHex? ws "x").getD []
    let yb := (argHex? ws "y").getD []
    let sbits := ((arg? ws "s").bind hexNat?).getD 0
    let m := (argNat? ws "m").getD 1
    let hasY := (arg? ws "y").isSome
    if T == 'D' && (op == "Compare" || op == "MatCompare") then opCompareF codecD false (op == "MatCompare") ws else
    if T == 'F' && (op == "Compare" || op == "MatCompare") then opCompareF codecF true (op == "MatCompare") ws else
    let nPre (k : Nat) : Nat := match argInt? ws "n" with | some j => if j < (k : Int) && j ≥ 0 then j.toNat else k | none => k
    let gen : Option String := match T with
      | 'D' => match opVecDGen op ws with
               | some g => some (statE ws (agree g (opVecD op ((doubles xb).take (nPre (xb.length / 8))) ((doubles yb).take (nPre (xb.length / 8))) (Float.ofBits (UInt64.ofNat sbits)) m)))
               | none =>
                 if op == "CDF" || op == "CDFInPlace" then
                   (opVecGen codecD "D" op ws).map fun g => agree g (opVecD op ((doubles xb).take (nPre (xb.length / 8))) [] 0 m)
                 else opVecGen codecD "D" op ws
      | 'F' => match opVecFGen op ws with
               | some g => some (statE ws (agree g (opVecF op ((floats xb).take (nPre (xb.length / 4))) ((floats yb).take (nPre (xb.length / 4))) (Float32.ofBits (UInt32.ofNat sbits)) m)))
               | none =>
               if op == "CDF" || op == "CDFInPlace" then
                 (opVecGen codecF "F" op ws).map fun g => agree g (opVecF op ((floats xb).take (nPre (xb.length / 4))) [] 0 m)
               else opVecGen codecF "F" op ws
      | 'I' => opVecGen codecI "I" op ws
      | 'L' => if op.startsWith "Mat" then some "bad-op" else opVecGen codecL "L" op ws
      | 'W' => if op == "Copy" || op == "MatCopy" then opVecGen codecW "W" op ws else some "bad-op"
      | 'B' => if op == "Copy" || op == "MatCopy" then opVecGen codecB "B" op ws else some "bad-op"
      | 'C' => if op == "Reverse" || op == "ReverseInPlace" then opVecGen codecB "C" op ws else some "bad-op"
      | _ => none
    if let some r := gen then r else
    match T with
    | 'D' => if hasY && yb.length / 8 != xb.length / 8 then "bad-op" else
             statE ws (opVecD op (doubles xb) (doubles yb) (Float.ofBits (UInt64.ofNat sbits)) m)
    | 'F' => if hasY && yb.length / 4 != xb.length / 4 then "bad-op" else
             statE ws (opVecF op (floats xb) (floats yb) (Float32.ofBits (UInt32.ofNat sbits)) m)
    | 'I' => if hasY && yb.length / 4 != xb.length / 4 then "bad-op" else opVecI 4 op (ints 4 xb) (ints 4 yb) m ((argInt? ws "k").getD 1)
    | 'L' => if hasY && yb.length / 8 != xb.length / 8 then "bad-op" else
             if op == "MatMax" || op == "MatScale" then "bad-op" else opVecI 8 op (ints 8 xb) (ints 8 yb) m ((argInt? ws "k").getD 1)
    | 'W' | 'B' => if op == "Copy" then "ok " ++ hexOrDash xb else "bad-op"
    | _ => "bad-op"

/-! ## matrices -/
def opMat (ws : List String) : String :=
  match arg? ws "op" with
  | none => "bad-op"
  | some full =>
    let T := full.toList.headD ' '
    let op := (full.drop 1).toString
    let M := (argNat? ws "m").getD 1
    let N := (argNat? ws "n").getD 1
    let M2 := (argNat? ws "m2").getD 1
    let N2 := (argNat? ws "n2").getD 1
    let elem := match T with | 'D' => 8 | 'F' => 4 | 'I' => 4 | _ => 1
    if M < 1 || N < 1 || M2 < 1 || N2 < 1 then "bad-op" else
    if op == "Sizeof" then s!"ok {Mat.sizeof elem M N}" else
    match argHex? ws "x" with
    | none => "bad-op"
    | some xb =>
      let cells := chunks elem xb
      let flat (o : Option (List (List UInt8))) : String := match o with | some l => "ok " ++ hexOrDash l.flatten | none => "fault"
      if op == "Set" then
        match T with
        | 'D' => "ok " ++ hexOrDash ((List.replicate (M * N) (natLE 8 (Float.ofBits (UInt64.ofNat (((arg? ws "s").bind hexNat?).getD 0))).toBits.toNat)).flatten)
        | 'F' => "ok " ++ hexOrDash ((List.replicate (M * N) (natLE 4 (Float32.ofBits (UInt32.ofNat (((arg? ws "s").bind hexNat?).getD 0))).toBits.toNat)).flatten)
        | 'I' => "ok " ++ hexOrDash (ibytes 4 (List.replicate (M * N) ((argInt? ws "k").getD 1)))
        | _ => "bad-op"
      else if cells.length != M * N then "bad-op"
      else if T == 'C' && op != "Rows" && op != "GrowTo" then "bad-op"
      else match op with
      | "Rows" => flat (Mat.writeRows M N cells [] (List.replicate (M * N) []))
      | "Clone" | "Copy" => flat (Mat.readRows M N cells [])
      | "GrowTo" =>
        let kept := Mat.growKept M N M2 N2 cells
        let probe := (List.range (M2 * N2)).map fun k => [UInt8.ofNat (k % 100)]
        let ok := (Mat.writeRows M2 N2 probe [] (List.replicate (M2 * N2) [])) == some probe
        "ok kept=" ++ hexOrDash kept.flatten ++ " rows=" ++ (if ok then "rowmajor" else "BROKEN")
      | _ => "bad-op"

/-! ## qsort comparators: sign of the three-way comparison (the model's `VOrd.lt` both ways) -/
def cmp3 {α : Type} [VOrd α] (a b : α) : Int := if VOrd.lt a b then -1 else if VOrd.lt b a then 1 else 0
def opCmp (ws : List String) : String :=
  let op := (arg? ws "op").getD ""
  let ua := ((arg? ws "a").bind hexNat?).getD 0
  let ub := ((arg? ws "b").bind hexNat?).getD 0
  let T := op.toList.headD ' '
  let inc := (op.drop 1).toString == "Increasing"
  let sgn (x : Int) : String := s!"ok {if inc then x else -x}"
  let toI (k : Nat) (u : Nat) : Int := if u < 2 ^ (8 * k - 1) then (u : Int) else (u : Int) - (2 ^ (8 * k) : Nat)
  let sg (x : Int) : String := s!"ok {if x < 0 then (-1 : Int) else if x > 0 then 1 else 0}"
  match T, inc with      -- the comparators as REGENERATED from esl_vectorops.c
  | 'D', true => sg (Gen.qsort_DIncreasing (Float.ofBits (UInt64.ofNat ua)) (Float.ofBits (UInt64.ofNat ub)))
  | 'D', false => sg (Gen.qsort_DDecreasing (Float.ofBits (UInt64.ofNat ua)) (Float.ofBits (UInt64.ofNat ub)))
  | 'F', true => sg (Gen.qsort_FIncreasing (Float32.ofBits (UInt32.ofNat ua)) (Float32.ofBits (UInt32.ofNat ub)))
  | 'F', false => sg (Gen.qsort_FDecreasing (Float32.ofBits (UInt32.ofNat ua)) (Float32.ofBits (UInt32.ofNat ub)))
  | 'I', true => sg (Gen.qsort_IIncreasing (UInt32.ofNat ua).toInt32 (UInt32.ofNat ub).toInt32)
  | 'I', false => sg (Gen.qsort_IDecreasing (UInt32.ofNat ua).toInt32 (UInt32.ofNat ub).toInt32)
  | 'L', true => sg (Gen.qsort_LIncreasing (UInt64.ofNat ua).toInt64 (UInt64.ofNat ub).toInt64)
  | 'L', false => sg (Gen.qsort_LDecreasing (UInt64.ofNat ua).toInt64 (UInt64.ofNat ub).toInt64)
  | _, _ => "bad-op"

/-! ## esl_{D,F}Compare_old (easel.c; hand model `Vec.compareOld`) and the conversion routines -/
def opCmpOld (ws : List String) : String :=
  let ua := ((arg? ws "a").bind hexNat?).getD 0
  let ub := ((arg? ws "b").bind hexNat?).getD 0
  let us := ((arg? ws "s").bind hexNat?).getD 0
  match arg? ws "op" with
  | some "D" => s!"ok {compareOldStatus (Float.ofBits (UInt64.ofNat ua)) (Float.ofBits (UInt64.ofNat ub)) (Float.ofBits (UInt64.ofNat us))}"
  | some "F" => s!"ok {compareOldStatus (Float32.ofBits (UInt32.ofNat ua)) (Float32.ofBits (UInt32.ofNat ub)) (Float32.ofBits (UInt32.ofNat us))}"
  | _ => "bad-op"

def opCvt (ws : List String) : String :=
  let xb := (argHex? ws "x").getD []
  let i32 (bs : List UInt8) : List Int32 := (chunks 4 bs).map fun c => (UInt32.ofNat (leNat c)).toInt32
  -- the conversion routines as REGENERATED from esl_vectorops.c, and the hand model: both run, they must agree
  let gf (o : Option (Array Float32)) : String := match o with | some r => "ok " ++ hexOrDash (fbytes r.toList) | none => "fault"
  let gd (o : Option (Array Float)) : String := match o with | some r => "ok " ++ hexOrDash (dbytes r.toList) | none => "fault"
  match arg? ws "op" with
  | some "D2F" => let v := (doubles xb).toArray
                  agree (gf (Gen.esl_vec_D2F v v.size (Array.replicate v.size (0 : Float32)))) ("ok " ++ hexOrDash (fbytes (d2f (doubles xb))))
  | some "F2D" => let v := (floats xb).toArray
                  agree (gd (Gen.esl_vec_F2D v v.size (Array.replicate v.size (0 : Float)))) ("ok " ++ hexOrDash (dbytes (f2d (floats xb))))
  | some "I2F" => let v := (i32 xb).toArray
                  agree (gf (Gen.esl_vec_I2F v v.size (Array.replicate v.size (0 : Float32)))) ("ok " ++ hexOrDash (fbytes (i2f (i32 xb))))
  | some "I2D" => let v := (i32 xb).toArray
                  agree (gd (Gen.esl_vec_I2D v v.size (Array.replicate v.size (0 : Float)))) ("ok " ++ hexOrDash (dbytes (i2d (i32 xb))))
  | _ => "bad-op"

def step (s : Unit) (line : String) : Unit × String :=
  let ws := words line
  match ws with
  | "cpu" :: _ => (s, "ok sse=1 avx=1 avx512=1")
  | "simd" :: _ => (s, opSimd ws)
  | "intr" :: _ => (s, opIntr ws)
  | "lane32" :: _ => (s, opLane32 ws)
  | "logf" :: _ => (s, opLogExp true ws)
  | "expf" :: _ => (s, opLogExp false ws)
  | "vec" :: _ => (s, opVec ws)
  | "mat" :: _ => (s, opMat ws)
  | "cmp" :: _ => (s, opCmp ws)
  | "cmpold" :: _ => (s, opCmpOld ws)
  | "cvt" :: _ => (s, opCvt ws)
  | _ => (s, "bad-op")

def main : IO Unit := runDriver () step
