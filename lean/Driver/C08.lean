import EaselModel.Core.Proto
/-! Line-protocol driver for the C08 model (stub: answers bad-op until the model lands). -/
open EaselModel.Proto
def main : IO Unit := runDriver () (fun s _ => (s, "bad-op"))
