import EaselModel.Core.Proto
import EaselModel.Alphabet.Model
import EaselModel.Alphabet.SqModel
import EaselModel.Alphabet.GuessModel
import EaselModel.Alphabet.TypeModel
import EaselModel.Alphabet.Sq2Model
import EaselModel.Alphabet.Model3
import EaselModel.Alphabet.ObjModel
import EaselModel.Alphabet.CopyReuseModel
import EaselModel.Generated.AlphabetsAux
/-! Line-protocol driver for the C08 model (same ops as harness/h_alphabet.c). -/
open EaselModel EaselModel.Proto EaselModel.Alphabet

structure S where
  a : Option Alphabet := none
  d : Option (List Nat) := none     -- whole dsq array incl. sentinels
  L : Nat := 0
  t : Option (List Nat) := none

def hx (l : List Nat) : String := hexOrDash (l.map UInt8.ofNat)

def argBytes (ws : List String) (k : String) : List Nat :=
  match argHex? ws k with
  | some b => b.map (·.toNat)
  | none => []

def cstr (l : List Nat) : List Nat := l.takeWhile (· ≠ 0)

def hex64 (x : UInt64) : String :=
  let s := (Nat.toDigits 16 x.toNat)
  String.ofList (List.replicate (16 - s.length) '0' ++ s)
def hex32 (x : UInt32) : String :=
  let s := (Nat.toDigits 16 x.toNat)
  String.ofList (List.replicate (8 - s.length) '0' ++ s)

def parseHexNat (w : String) : Option Nat :=
  w.toList.foldl (fun acc c => acc.bind fun a => (hexVal c).map fun d => a * 16 + d) (some 0)

def parseDList (s : String) : List Float :=
  if s == "-" then [] else
  (s.splitOn ",").filterMap fun w => (parseHexNat w).map fun n => Float.ofBits (UInt64.ofNat n)
def parseFList (s : String) : List Float32 :=
  if s == "-" then [] else
  (s.splitOn ",").filterMap fun w => (parseHexNat w).map fun n => Float32.ofBits (UInt32.ofNat n)
def parseIList (s : String) : List Int :=
  if s == "-" then [] else (s.splitOn ",").filterMap String.toInt?

def dnum (x : Float) : String := if x.isNaN then "nan" else hex64 x.toBits
def fnum (x : Float32) : String := if x.isNaN then "nan" else hex32 x.toBits

instance : Alphabet.ScoreNum Float where
  zero := 0.0
  add := (· + ·)
  sub := (· - ·)
  mul := (· * ·)
  div := (· / ·)
  ofNat := Float.ofNat

instance : Alphabet.ScoreNum Float32 where
  zero := 0.0
  add := (· + ·)
  sub := (· - ·)
  mul := (· * ·)
  div := (· / ·)
  ofNat := Float32.ofNat

def dump (a : Alphabet) : String :=
  s!"ok type={a.type} K={a.K} Kp={a.Kp} sym={hx a.sym} inmap={hx a.inmap} degen={hx a.degen.flatten} " ++
  s!"ndegen={",".intercalate (a.ndegen.map toString)} comp=" ++
  (match a.complement with | some c => hx c | none => "null")

def outDsq (pre : String) (d : Option (List Nat)) : String :=
  pre ++ " dsq=" ++ (match d with | some d => hx d | none => "null")

/-- `(int)(result ± 0.5)` of esl_abc_IAvgScore: float result promoted to double, truncation toward zero -/
def roundI (r : Float32) : Int :=
  let d := r.toFloat
  if d < 0 then (d - 0.5).toInt64.toInt else (d + 0.5).toInt64.toInt

instance : IntScore Float32 where
  ofInt := Float32.ofInt
  roundHalf := roundI

/-- does the tree's `esl_sq_Copy` validate the text before digitising it? (mirrors the code under check) -/
def sqCopyGuard : Bool := true

/-- does the tree's `esl_sq_GetFromMSA` allocate a NULL `sq->ss` to the exact SS-line length? (mirrors the code under check) -/
def getFromMSAExactSs : Bool := false

def doDigitize (s : S) (a : Alphabet) (txt : List Nat) : S × String :=
  let (st, d) := a.digitize (cstr txt)
  ({ s with d := some d, L := d.length - 2 }, outDsq s!"st={st.name}" (some d))

/-- answer of the two GuessAlphabet models (binary64 tests / integer tests); a disagreement inside the range where the
    integer form is claimed exact is reported (and then differs from the implementation's line) -/
def guessLine (ct : List Int) (f : Bool × Nat) (z : Nat) : String :=
  let inrange := ct.all fun v => decide (-1099511627776 < v) && decide (v < 1099511627776)
  if inrange && z != f.2 then s!"model-split float={f.2} int={z}"
  else s!"{if f.1 then "ok" else "enoalphabet"} type={f.2}"

/-- the alphabet-independent ops (type codes) -/
def stepNoAbc (ws : List String) (op : String) : Option String :=
  if op == "enctype" then
    let txt := match argHex? ws "hex" with | some b => b.map (·.toNat) | none => []
    some s!"ok {AbcType.encodeType (cstr txt)}"
  else if op == "enctypemem" then
    let txt := match argHex? ws "hex" with | some b => b.map (·.toNat) | none => []
    some s!"ok {AbcType.encodeTypeMem txt}"
  else if op == "dectype" then
    match AbcType.decodeType ((argInt? ws "t").getD 0) with
    | some n => some s!"ok {hx n}"
    | none => some "exception einval null"
  else if op == "valtype" then
    some (if AbcType.validateType ((argInt? ws "t").getD 0) then "ok" else "fail")
  else none

/-- `esl_msa_GuessAlphabet` needs no alphabet -/
def stepMsa (ws : List String) (op : String) : Option String :=
  if op == "msaguess" then
    let rows := ((arg? ws "rows").getD "").splitOn ","
    let rows := rows.map fun r => if r == "-" || r == "" then ([] : List Nat) else
      ((bytesOfHex r).getD []).map (·.toNat)
    if rows.any (fun r => r.length ≠ (rows.headD []).length || r.contains 0) then some "bad-op" else
    let strict := Generated.AlphabetsAux.msaMixedProbe == 0
    match Guess.msaGuessV strict (fun ct => (Guess.guessAlphabet ct).2) rows, Guess.msaGuessV strict Guess.guessZ rows with
    | some f, some z => some (if z != f then s!"model-split float={f.2} int={z.2}" else s!"{if f.1 then "ok" else "enoalphabet"} type={f.2}")
    | _, _ => some "fault"
  else none

def step (s : S) (line : String) : S × String :=
  let ws := words line
  match ws with
  | [] => (s, "bad-op")
  | op :: _ =>
  match (stepNoAbc ws op).orElse (fun _ => stepMsa ws op) with
  | some r => (s, r)
  | none =>
  if op == "abc" then
    let r := match arg? ws "type" with
      | some "dna" => some Alphabet.createDna | some "rna" => some Alphabet.createRna
      | some "amino" => some Alphabet.createAmino | some "coins" => some Alphabet.createCoins
      | some "dice" => some Alphabet.createDice | _ => none
    match r with
    | none => (s, "bad-op")
    | some none => ({ s with a := none }, "null")
    | some (some a) => ({ s with a := some a }, dump a)
  else if op == "custom" then
    let sym := argBytes ws "sym"
    let K := (argNat? ws "K").getD 1
    let Kp := (argNat? ws "Kp").getD sym.length
    match Alphabet.createCustom (cstr sym) K Kp with
    | none => ({ s with a := none }, "null")
    | some a => ({ s with a := some a }, dump a)
  else
  match s.a with
  | none => (s, "bad-op")
  | some a =>
  if op == "dump" then (s, dump a)
  else if op == "equiv" then
    let (st, a') := a.setEquiv ((argNat? ws "s").getD 0) ((argNat? ws "c").getD 0)
    ({ s with a := some a' }, st.name)
  else if op == "caseins" then
    let (st, a') := a.setCaseInsensitive
    ({ s with a := some a' }, st.name)
  else if op == "degen" then
    let (st, a') := a.setDegeneracy ((argNat? ws "c").getD 0) (cstr (argBytes ws "ds"))
    ({ s with a := some a' }, st.name)
  else if op == "ignored" then
    ({ s with a := some (a.setIgnored (cstr (argBytes ws "chars"))) }, "ok")
  else if op == "digitize" || op == "createdsq" then doDigitize s a (argBytes ws "hex")
  else if op == "redigitize" then
    match s.t with
    | none => (s, "bad-op")
    | some t => doDigitize s a t
  else if op == "textize" then
    match s.d with
    | none => (s, "bad-op")
    | some d =>
      match a.textize d s.L with
      | some t => ({ s with t := some t }, s!"ok {hx t} nul=1")
      | none => (s, "fault")
  else if op == "textizen" then
    match s.d, argNat? ws "off", argNat? ws "L" with
    | some d, some off, some L =>
      if off > s.L + 1 then (s, "bad-op") else
      match a.textizeN d off L 0 [] with
      | some w => (s, s!"ok {hx (w ++ List.replicate (L + 1 - w.length) 170)}")
      | none => (s, "fault")
    | _, _, _ => (s, "bad-op")
  else if op == "dsqnull" then ({ s with d := none, L := 0 }, "ok")
  else if op == "dsqcat" then
    let txt := argBytes ws "hex"
    let inmap := match argHex? ws "map" with
      | some m => if m.length = 128 then m.map (·.toNat) else a.inmap.set 0 a.unknown
      | none => a.inmap.set 0 a.unknown
    let Lk := if arg? ws "L" == some "unknown" then none else some s.L
    let txt := if arg? ws "n" == some "unknown" then cstr txt else txt
    match Alphabet.dsqcat inmap s.d Lk txt with
    | none => (s, "fault")
    | some (.error e) => ({ s with d := none, L := 0 }, s!"exception {e.name}")
    | some (.ok (st, d', L')) => ({ s with d := d', L := L' }, outDsq s!"st={st.name} L={L'}" d')
  else if op == "revcomp" then
    match s.d with
    | none => (s, "bad-op")
    | some d =>
      let n := (argNat? ws "n").getD s.L
      if n > s.L then (s, "bad-op") else
      match a.revcomp d n with
      | .error e => (s, s!"exception {e.name}")
      | .ok none => (s, "fault")
      | .ok (some d') => ({ s with d := some d' }, outDsq "st=ok" (some d'))
  else if op == "dsqlen" then
    match s.d with
    | none => (s, "bad-op")
    | some d => match Alphabet.dsqlen d with | some n => (s, s!"ok {n}") | none => (s, "fault")
  else if op == "dsqrlen" then
    match s.d with
    | none => (s, "bad-op")
    | some d => match a.dsqrlen d with | some n => (s, s!"ok {n}") | none => (s, "fault")
  else if op == "degen2x" then
    match s.d with
    | none => (s, "bad-op")
    | some d => match a.convertDegen2X d with
      | some d' => ({ s with d := some d' }, outDsq "st=ok" (some d'))
      | none => (s, "fault")
  else if op == "cdealign" then
    match s.d with
    | none => (s, "bad-op")
    | some d =>
      let t := argBytes ws "s"
      if t.length ≠ s.L then (s, "bad-op") else
      match a.cDealign t d with
      | some (t', n) => (s, s!"ok rlen={n} s={hx (cstr t')}")
      | none => (s, "fault")
  else if op == "xdealign" then
    match s.d with
    | none => (s, "bad-op")
    | some d =>
      let x := argBytes ws "x"
      if x.length ≠ s.L + 2 then (s, "bad-op") else
      match a.xDealign x d with
      | some (x', n) => (s, s!"ok rlen={n} x={hx x'}")
      | none => (s, "fault")
  else if op == "davg" then
    match a.avgScore ((argNat? ws "x").getD 0) (parseDList ((arg? ws "sc").getD "-")) with
    | some r => (s, s!"ok {dnum r}") | none => (s, "fault")
  else if op == "dexpect" then
    match a.expectScore ((argNat? ws "x").getD 0) (parseDList ((arg? ws "sc").getD "-")) (parseDList ((arg? ws "p").getD "-")) with
    | some r => (s, s!"ok {dnum r}") | none => (s, "fault")
  else if op == "dcount" then
    let wt := match (arg? ws "wt").bind parseHexNat with | some n => Float.ofBits (UInt64.ofNat n) | none => 0.0
    match a.count (parseDList ((arg? ws "sc").getD "-")) ((argNat? ws "x").getD 0) wt with
    | some ct => (s, "ok " ++ ",".intercalate (ct.map dnum)) | none => (s, "fault")
  else if op == "favg" then
    match a.avgScore ((argNat? ws "x").getD 0) (parseFList ((arg? ws "sc").getD "-")) with
    | some r => (s, s!"ok {fnum r}") | none => (s, "fault")
  else if op == "fexpect" then
    match a.expectScore ((argNat? ws "x").getD 0) (parseFList ((arg? ws "sc").getD "-")) (parseFList ((arg? ws "p").getD "-")) with
    | some r => (s, s!"ok {fnum r}") | none => (s, "fault")
  else if op == "fcount" then
    let wt := match (arg? ws "wt").bind parseHexNat with | some n => Float32.ofBits (UInt32.ofNat n) | none => 0.0
    match a.count (parseFList ((arg? ws "sc").getD "-")) ((argNat? ws "x").getD 0) wt with
    | some ct => (s, "ok " ++ ",".intercalate (ct.map fnum)) | none => (s, "fault")
  else if op == "iavg" then
    match Alphabet.iAvgScore Float32 a ((argNat? ws "x").getD 0) (parseIList ((arg? ws "sc").getD "-")) with
    | some r => (s, s!"ok {r}") | none => (s, "fault")
  else if op == "iexpect" then
    match Alphabet.iExpectScore a ((argNat? ws "x").getD 0) (parseIList ((arg? ws "sc").getD "-")) (parseFList ((arg? ws "p").getD "-")) with
    | some r => (s, s!"ok {r}") | none => (s, "fault")
  else if op == "dscvec" then
    let sc := parseDList ((arg? ws "sc").getD "-")
    if sc.length ≠ a.Kp then (s, "bad-op") else
    match a.avgScVec sc with
    | some r => (s, "ok " ++ ",".intercalate (r.map dnum)) | none => (s, "fault")
  else if op == "dexpvec" then
    let sc := parseDList ((arg? ws "sc").getD "-")
    if sc.length ≠ a.Kp then (s, "bad-op") else
    match a.expectScVec sc (parseDList ((arg? ws "p").getD "-")) with
    | some r => (s, "ok " ++ ",".intercalate (r.map dnum)) | none => (s, "fault")
  else if op == "fscvec" then
    let sc := parseFList ((arg? ws "sc").getD "-")
    if sc.length ≠ a.Kp then (s, "bad-op") else
    match a.avgScVec sc with
    | some r => (s, "ok " ++ ",".intercalate (r.map fnum)) | none => (s, "fault")
  else if op == "fexpvec" then
    let sc := parseFList ((arg? ws "sc").getD "-")
    if sc.length ≠ a.Kp then (s, "bad-op") else
    match a.expectScVec sc (parseFList ((arg? ws "p").getD "-")) with
    | some r => (s, "ok " ++ ",".intercalate (r.map fnum)) | none => (s, "fault")
  else if op == "iscvec" || op == "iexpvec" then
    let sc := parseIList ((arg? ws "sc").getD "-")
    if sc.length ≠ a.Kp then (s, "bad-op") else
    let r := if op == "iscvec" then Alphabet.iAvgScVec Float32 a sc else Alphabet.iExpectScVec a sc (parseFList ((arg? ws "p").getD "-"))
    match r with
    | some r => (s, "ok " ++ ",".intercalate (r.map toString)) | none => (s, "fault")
  else if op == "guess" then
    let ct := parseIList ((arg? ws "ct").getD "-")
    (s, guessLine ct (Guess.guessAlphabet ct) (Guess.guessZ ct))
  else if op == "sqxadd" then
    let codes := argBytes ws "codes"
    match (Sq.addAll Sq.xAddResidue Sq.createDigital codes).bind (fun g => Sq.xAddResidue g SENTINEL) with
    | none => (s, "fault")
    | some g =>
      let ck := Sq.checksumDigital ((g.buf.drop 1).take g.n)
      let pre := s!"ok n={g.n} salloc={g.salloc} ck={hex32 ck} dsq={hx g.buf}"
      let start := (argInt? ws "start").getD 1
      let L := (argInt? ws "L").getD g.n
      let f0 : List Float32 := List.replicate a.K 0.0
      match Sq.countResidues a g.buf g.n start L f0 with
      | some none => (s, "fault")
      | r =>
        let (crs, f) := match r with | some (some f) => ("ok", f) | _ => ("erange", f0)
        match a.convertDegen2X g.buf with
        | none => (s, "fault")
        | some d2 => (s, pre ++ s!" cr={crs} f={",".intercalate (f.map fnum)} d2x=ok dsq2={hx d2}")
  else if op == "sqcadd" then
    let txt := argBytes ws "hex"
    match (Sq.addAll Sq.cAddResidue Sq.createText txt).bind (fun g => Sq.cAddResidue g 0) with
    | none => (s, "fault")
    | some g => (s, s!"ok n={g.n} salloc={g.salloc} ck={hex32 (Sq.checksumText (g.buf.take g.n))} seq={hx g.buf} d2x=exception-einval")
  else if op == "sqguess" then
    let txt := argBytes ws "hex"
    if cstr txt ≠ txt then (s, "bad-op") else
    (s, guessLine (Guess.sqCount txt (List.replicate 26 0) 0) (Guess.sqGuess txt) (Guess.sqGuessZ txt))
  else if op == "validateseq" then
    let txt := argBytes ws "hex"
    let (st, msg) := Alphabet.validateSeqMsg (if (argNat? ws "noabc").getD 0 ≠ 0 then none else some a) txt
    (s, s!"{st.name} {hx (cstr msg)}")
  else if op == "match" then
    let p := (arg? ws "p").map parseDList
    match a.matchProb ((argNat? ws "x").getD 0) ((argNat? ws "y").getD 0) p with
    | some r => (s, s!"ok {dnum r}") | none => (s, "fault")
  else if op == "sqroundtrip" then
    let txt := argBytes ws "hex"
    if cstr txt ≠ txt then (s, "bad-op") else
    let ss := (argHex? ws "ss").map fun b => b.map (·.toNat)
    if (match ss with | some v => v.length ≠ txt.length || v.contains 0 | none => false) then (s, "bad-op") else
    (s, Sq.roundtripLine a txt ((argNat? ws "rc").getD 0 ≠ 0) hx ss ((argNat? ws "retry").getD 0 ≠ 0))
  else if op == "sqobj" then
    -- one ESL_SQ with ss / xr markup driven through a script of Digitize / Textize / ReverseComplement / Grow / GrowTo / Copy
    let digital := arg? ws "init" == some "digital"
    let viaAdd := arg? ws "via" == some "add"
    let res := argBytes ws "hex"
    let bad := if digital then res.any (· == 255) else res.any (· == 0)
    let ss := (argHex? ws "ss").map fun b => b.map (·.toNat)
    let xr : List (List Nat) := match arg? ws "xr" with
      | none => []
      | some w => (w.splitOn ",").map fun h => ((bytesOfHex h).getD []).map (·.toNat)
    let okLen := fun (v : List Nat) => v.length == res.length && !v.contains 0
    if bad || (match ss with | some v => !okLen v | none => false) || xr.any (fun v => !okLen v) then (s, "bad-op") else
    match Sq.mkObj digital viaAdd res ss xr with
    | none => (s, "fault")
    | some o =>
      let toks := ((arg? ws "script").getD "").splitOn "," |>.filter (fun t => t ≠ "" && t ≠ "-")
      match Sq.SqObj.script2 (Generated.AlphabetsAux.sqCopyReusedProbe == 0) a o none toks [] with
      | none => (s, "fault")
      | some (ws', o', P) => (s, " ".intercalate (ws' ++ [o'.line hx] ++ (match P with | some p => ["|| P:", p.line hx] | none => [])))
  else if op == "sqrevtext" then
    let txt := argBytes ws "hex"
    if cstr txt ≠ txt then (s, "bad-op") else
    let (st, t) := Sq.revcompText txt
    (s, s!"{st.name} seq={hx t}")
  else if op == "sqccount" then
    let txt := argBytes ws "hex"
    if cstr txt ≠ txt then (s, "bad-op") else
    let f0 : List Float32 := List.replicate a.K 0.0
    match Sq.countResiduesText a txt ((argInt? ws "start").getD 0) ((argInt? ws "L").getD txt.length) f0 with
    | some none => (s, "fault")
    | some (some f) => (s, s!"ok f={",".intercalate (f.map fnum)}")
    | none => (s, s!"erange f={",".intercalate (f0.map fnum)}")
  else if op == "sqget2" then
    -- two successive esl_sq_GetFromMSA calls into the same ESL_SQ, esl_sq_Reuse in between
    let ssS := fun (x : Option (List Nat)) => match x with | some v => hx v | none => "null"
    let digital := arg? ws "mode" == some "digital"
    let r1 := argBytes ws "row1"; let r2 := argBytes ws "row2"
    let s1 := (argHex? ws "ss1").map fun b => b.map (·.toNat)
    let s2 := (argHex? ws "ss2").map fun b => b.map (·.toNat)
    let badss := fun (x : Option (List Nat)) (r : List Nat) => match x with | some v => v.length ≠ r.length || v.contains 0 | none => false
    if badss s1 r1 || badss s2 r2 || r1.isEmpty || r2.isEmpty then (s, "bad-op") else
    if digital && (r1 ++ r2).any (· ≥ a.Kp) then (s, "bad-op") else
    if !digital && (r1 ++ r2).contains 0 then (s, "bad-op") else
    let get := fun (r : List Nat) (ss old : Option (List Nat)) =>
      if digital then Sq.getDigital a (SENTINEL :: r ++ [SENTINEL]) ss old else Sq.getText r ss old
    -- allocation side: esl_sq_Create / esl_sq_CreateDigital start with salloc = 256 and no ss buffer
    if (Sq.getAllocRun getFromMSAExactSs (if digital then 2 else 1) { salloc := Sq.eslSQ_SEQCHUNK, ssCap := none }
          [(r1.length, s1.isSome), (r2.length, s2.isSome)]).isNone then (s, "fault") else
    match get r1 s1 none with
    | none => (s, "fault")
    | some f1 =>
      match get r2 s2 (Sq.reuseSs f1.ss) with
      | none => (s, "fault")
      | some f2 => (s, s!"ok n1={f1.n} seq1={hx f1.seq} ss1={ssS f1.ss} n2={f2.n} seq2={hx f2.seq} ss2={ssS f2.ss}")
  else if op == "sqfetch" then
    let ss := (argHex? ws "ss").map fun b => b.map (·.toNat)
    let ssS := fun (x : Option (List Nat)) => match x with | some v => hx v | none => "null"
    let digital := arg? ws "mode" == some "digital"
    let row := argBytes ws "row"
    if (match ss with | some v => v.length ≠ row.length || v.contains 0 | none => false) then (s, "bad-op") else
    if digital then
      if row.any (· ≥ a.Kp) then (s, "bad-op") else
      match Sq.fetchDigital a (SENTINEL :: row ++ [SENTINEL]) ss with
      | none => (s, "fault")
      | some f => (s, s!"ok n={f.n} seq={hx f.seq} ss={ssS f.ss}")
    else
      if row.contains 0 then (s, "bad-op") else
      match Sq.fetchText row ss with
      | none => (s, "fault")
      | some f => (s, s!"ok n={f.n} seq={hx f.seq} ss={ssS f.ss}")
  else if op == "sqcopy" then
    let bytes := argBytes ws "hex"
    let toDig := arg? ws "to" == some "digital"
    let other := (argNat? ws "other").getD 0 ≠ 0
    let src : Option (Sum (List Nat) (List Nat × Nat)) :=
      if arg? ws "from" == some "digital" then (if bytes.contains 255 then none else some (.inr (SENTINEL :: bytes ++ [SENTINEL], bytes.length)))
      else (if cstr bytes ≠ bytes then none else some (.inl bytes))
    match src with
    | none => (s, "bad-op")
    | some src =>
      match Sq.sqCopy sqCopyGuard a src toDig (!other) with
      | none => (s, "fault")
      | some (.error e) => (s, s!"exception {e.name}")
      | some (.ok (st, c)) =>
        let body := if toDig then (c.buf.drop 1).takeWhile (· ≠ SENTINEL) else c.buf
        (s, s!"st={st.name} n={c.n} len={body.length} body={hx body} valid={if c.consistent toDig then "ok" else "fail"}")
  else if op == "dsqcpy" then
    match s.d with
    | none => (s, "bad-op")
    | some d => match Alphabet.dsqcpy d s.L with
      | some c => (s, s!"ok dup={hx c}")
      | none => (s, "fault")
  else if op == "dsqdup" then
    let Lk := if arg? ws "L" == some "unknown" then none else some s.L
    match Alphabet.dsqdup s.d Lk with
    | none => (s, "fault")
    | some none => (s, "ok dup=null")
    | some (some c) => (s, s!"ok dup={hx c}")
  else (s, "bad-op")

def main : IO Unit := runDriver ({} : S) step
