import EaselModel.Core.Proto
import EaselModel.Random.Model
import EaselModel.Random.Choose
/-! Line-protocol driver for the C09 model. -/
open EaselModel EaselModel.Proto EaselModel.Random EaselModel.MTP

structure S where
  r : Rng := default
  r64 : Rng64 := default

def fnv (h : UInt64) (x : UInt64) : UInt64 := (h ^^^ x) * (0x100000001b3 : UInt64)

def hex64 (x : UInt64) : String :=
  let s := (Nat.toDigits 16 x.toNat)
  String.ofList (List.replicate (16 - s.length) '0' ++ s)

def drawsHash32 (r : Rng) (k : Nat) : UInt64 × UInt32 × Rng := Id.run do
  let mut h : UInt64 := 0xcbf29ce484222325
  let mut r := r
  let mut last : UInt32 := 0
  for _ in [0:k] do
    let (x, r') := r.next
    h := fnv h x.toUInt64
    last := x
    r := r'
  return (h, last, r)

def drawsHash64 (r : Rng64) (k : Nat) : UInt64 × UInt64 × Rng64 := Id.run do
  let mut h : UInt64 := 0xcbf29ce484222325
  let mut r := r
  let mut last : UInt64 := 0
  for _ in [0:k] do
    let (x, r') := r.next
    h := fnv h x
    last := x
    r := r'
  return (h, last, r)

def fuel : Nat := 1000000

def parseBitsList (s : String) : List Float :=
  (s.splitOn ",").filterMap fun w =>
    match (w.toList.foldl (fun acc c => acc.bind fun a => (hexVal c).map fun d => a * 16 + d) (some 0)) with
    | some n => some (Float.ofBits (UInt64.ofNat n))
    | none => none

/-- float vectors (`esl_rnd_FChoose`, `FChooseCDF`): every p[i] is promoted to double before use -/
def parseF32List (s : String) : List Float :=
  (s.splitOn ",").filterMap fun w =>
    match (w.toList.foldl (fun acc c => acc.bind fun a => (hexVal c).map fun d => a * 16 + d) (some 0)) with
    | some n => some (Float32.ofBits (UInt32.ofNat n)).toFloat
    | none => none

def dchooseCDF (roll : Float) (cdf : List Float) : Option Nat :=
  dchooseCDFgo roll (cdf.getLastD 0.0) cdf 0

def step (s : S) (line : String) : S × String :=
  let ws := words line
  match ws with
  | "new32" :: _ =>
    match argNat? ws "seed" with
    | some sd => if sd = 0 then (s, "bad-op") else
        let r := Rng.create .mersenne (UInt32.ofNat sd); ({ s with r := r }, s!"ok seed={r.seed}")
    | none => (s, "bad-op")
  | "newfast" :: _ =>
    match argNat? ws "seed" with
    | some sd => if sd = 0 then (s, "bad-op") else
        let r := Rng.create .fast (UInt32.ofNat sd); ({ s with r := r }, s!"ok seed={r.seed}")
    | none => (s, "bad-op")
  | "init" :: _ =>
    match argNat? ws "seed" with
    | some sd => if sd = 0 then (s, "bad-op") else
        let r := s.r.initWith (UInt32.ofNat sd); ({ s with r := r }, s!"ok seed={r.seed}")
    | none => (s, "bad-op")
  | "seedzero32" :: _ => (s, "ok nonzero replay")     -- Props.C09.seed0_nonzero32 + reinit_replays
  | "seedzero64" :: _ => (s, "ok nonzero replay")
  | "u32" :: _ =>
    let k := (argNat? ws "k").getD 1
    let (h, last, r) := drawsHash32 s.r k
    ({ s with r := r }, s!"ok h={hex64 h} last={last}")
  | "roll" :: _ =>
    match argNat? ws "n" with
    | some n => if n = 0 then (s, "bad-op") else
      match s.r.roll n fuel with
      | some (v, r) => ({ s with r := r }, s!"ok {v}")
      | none => (s, "nohalt")
    | none => (s, "bad-op")
  | "random" :: _ =>
    let (x, r) := s.r.randomNum
    ({ s with r := r }, s!"ok {hex64 (Float.ofNat x / 4294967296.0).toBits}")
  | "unipos" :: _ =>
    match s.r.uniformPositive fuel with
    | some (x, r) => ({ s with r := r }, s!"ok {hex64 (Float.ofNat x / 4294967296.0).toBits}")
    | none => (s, "nohalt")
  | "deal" :: _ =>
    match argNat? ws "m", argNat? ws "n" with
    | some m, some n =>
      let (out, r) := s.r.deal m n
      ({ s with r := r }, "ok " ++ ",".intercalate (out.map toString))
    | _, _ => (s, "bad-op")
  | "dchoose" :: _ =>
    let p := parseBitsList ((arg? ws "p").getD "")
    let (x, r) := s.r.randomNum
    match dchoose (Float.ofNat x / 4294967296.0) p with
    | some i => ({ s with r := r }, s!"ok {i}")
    | none => ({ s with r := r }, "fatal")
  | "fchoose" :: _ =>
    let p := parseF32List ((arg? ws "p").getD "")
    let (x, r) := s.r.randomNum
    match dchoose (Float.ofNat x / 4294967296.0) p with
    | some i => ({ s with r := r }, s!"ok {i}")
    | none => ({ s with r := r }, "fatal")
  | "fchoosecdf" :: _ =>
    let p := parseF32List ((arg? ws "p").getD "")
    let (x, r) := s.r.randomNum
    match dchooseCDF (Float.ofNat x / 4294967296.0) p with
    | some i => ({ s with r := r }, s!"ok {i}")
    | none => ({ s with r := r }, "fatal")
  | "pokeraw" :: _ =>
    match argNat? ws "w" with
    | some w => ({ s with r := s.r.pokeRaw (UInt32.ofNat w) }, "ok")
    | none => (s, "bad-op")
  | "pokeraw64" :: _ =>
    match argNat? ws "w" with
    | some w => ({ s with r64 := s.r64.pokeRaw (UInt64.ofNat w) }, "ok")
    | none => (s, "bad-op")
  | "dchoosecdf" :: _ =>
    let p := parseBitsList ((arg? ws "p").getD "")
    let (x, r) := s.r.randomNum
    match dchooseCDF (Float.ofNat x / 4294967296.0) p with
    | some i => ({ s with r := r }, s!"ok {i}")
    | none => ({ s with r := r }, "fatal")
  | "new64" :: _ =>
    match argNat? ws "seed" with
    | some sd => if sd = 0 then (s, "bad-op") else
        let r := Rng64.create (UInt64.ofNat sd); ({ s with r64 := r }, s!"ok seed={r.seed}")
    | none => (s, "bad-op")
  | "u64" :: _ =>
    let k := (argNat? ws "k").getD 1
    let (h, last, r) := drawsHash64 s.r64 k
    ({ s with r64 := r }, s!"ok h={hex64 h} last={last}")
  | "roll64" :: _ =>
    match argNat? ws "n" with
    | some n => if n = 0 then (s, "bad-op") else
      match s.r64.roll n fuel with
      | some (v, r) => ({ s with r64 := r }, s!"ok {v}")
      | none => (s, "nohalt")
    | none => (s, "bad-op")
  | "deal64" :: _ => (s, "unmodelled")     -- Vitter's algorithm D: monitored on the implementation only
  | "int64" :: _ =>
    let (x, r) := s.r64.next
    ({ s with r64 := r }, s!"ok {(x >>> 1).toNat}")
  | "dbl64" :: _ =>
    let (x, r) := s.r64.next
    ({ s with r64 := r }, s!"ok {hex64 (Float.ofNat (dblNum x) * (1.0/9007199254740992.0)).toBits}")
  | "dblclosed" :: _ =>
    let (x, r) := s.r64.next
    ({ s with r64 := r }, s!"ok {hex64 (Float.ofNat (dblNum x) * (1.0/9007199254740991.0)).toBits}")
  | "dblopen" :: _ =>
    let (x, r) := s.r64.next
    ({ s with r64 := r }, s!"ok {hex64 ((Float.ofNat (x >>> 12).toNat + 0.5) * (1.0/4503599627370496.0)).toBits}")
  | _ => (s, "bad-op")

def main : IO Unit := runDriver ({} : S) step
