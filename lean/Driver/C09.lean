import EaselModel.Core.Proto
import EaselModel.Random.Model
import EaselModel.Random.Choose
import EaselModel.Random.Deal64
import EaselModel.Random.DealF
import EaselModel.Random.Samplers
import EaselModel.Random.Dump
import EaselModel.Generated.RandTables
/-! Line-protocol driver for the C09 model. -/
open EaselModel EaselModel.Proto EaselModel.Random EaselModel.MTP

structure S where
  r : Rng := default
  r64 : Rng64 := default
  env : Option Env := none      -- `env t= p= c=`: what time(), getpid(), clock() answer for the rest of the case

def fnv (h : UInt64) (x : UInt64) : UInt64 := (h ^^^ x) * (0x100000001b3 : UInt64)

def hex64 (x : UInt64) : String :=
  let s := (Nat.toDigits 16 x.toNat)
  String.ofList (List.replicate (16 - s.length) '0' ++ s)

def drawsHash32 (r : Rng) (k : Nat) : UInt64 × UInt32 × Rng := Id.run do
  let mut h : UInt64 := 0xcbf29ce484222325
  let mut r := r
  let mut last : UInt32 := 0
  for _ in [0:k] do
    let (x, r') := r.next
    h := fnv h x.toUInt64
    last := x
    r := r'
  return (h, last, r)

def drawsHash64 (r : Rng64) (k : Nat) : UInt64 × UInt64 × Rng64 := Id.run do
  let mut h : UInt64 := 0xcbf29ce484222325
  let mut r := r
  let mut last : UInt64 := 0
  for _ in [0:k] do
    let (x, r') := r.next
    h := fnv h x
    last := x
    r := r'
  return (h, last, r)

/-- `k` successive raw words -/
def wordsN {σ α : Type} (next : σ → α × σ) (s : σ) : Nat → List α → List α × σ
  | 0, acc => (acc.reverse, s)
  | k+1, acc => let p := next s; wordsN next p.2 k (p.1 :: acc)

def fuel : Nat := 1000000

def parseBitsList (s : String) : List Float :=
  (s.splitOn ",").filterMap fun w =>
    match (w.toList.foldl (fun acc c => acc.bind fun a => (hexVal c).map fun d => a * 16 + d) (some 0)) with
    | some n => some (Float.ofBits (UInt64.ofNat n))
    | none => none

/-- float vectors (`esl_rnd_FChoose`, `FChooseCDF`): every p[i] is promoted to double before use -/
def parseF32List (s : String) : List Float :=
  (s.splitOn ",").filterMap fun w =>
    match (w.toList.foldl (fun acc c => acc.bind fun a => (hexVal c).map fun d => a * 16 + d) (some 0)) with
    | some n => some (Float32.ofBits (UInt32.ofNat n)).toFloat
    | none => none

def dchooseCDF (roll : Float) (cdf : List Float) : Option Nat :=
  dchooseCDFgo roll (cdf.getLastD 0.0) cdf 0

/-- test hook `pokeraw64 w= off=`: overwrite the table word `off` draws ahead (drawing first while that word lies beyond
    the table, exactly as the harness does) -/
def poke64Adv (off : Nat) (r : Rng64) : Nat → Rng64
  | 0 => r
  | f+1 => if r.st.mti + off ≥ 312 then poke64Adv off (r.next).2 f else r

def poke64At (r : Rng64) (w : UInt64) (off : Nat) : Rng64 :=
  let r1 := poke64Adv off r 400
  { r1 with st := { r1.st with mt := r1.st.mt.setIfInBounds (r1.st.mti + off) w } }

/-- answer of a sampler op: the new generator state and the printed value, or `nohalt` / `fault` -/
def sres {α : Type} (s : S) (r : SRes (α × Rng)) (pr : α → String) : S × String :=
  match r with
  | .ok (x, r') => ({ s with r := r' }, pr x)
  | .nofuel => (s, "nohalt")
  | .fault => (s, "fault")

/-- the answer of a `Dump` op: length, number of lines and FNV-1a hash of the text -/
def dumpAnswer (t : Option String) : String :=
  match t with
  | none => "fault"
  | some txt =>
    let bs := txt.toUTF8
    let h := bs.foldl (fun h b => fnv h b.toUInt64) (0xcbf29ce484222325 : UInt64)
    let nl := bs.foldl (fun n b => if b = 10 then n + 1 else n) 0
    s!"ok len={bs.size} lines={nl} h={hex64 h}"

/-- seed 0 is driven only under a controlled environment (`env` op) -/
def withSeed (s : S) (sd : Nat) (f : Env → S × String) : S × String :=
  match s.env with
  | some e => f e
  | none => if sd = 0 then (s, "bad-op") else f (0, 0, 0)

def step (s : S) (line : String) : S × String :=
  let ws := words line
  match ws with
  | "env" :: _ =>
    ({ s with env := some (UInt32.ofNat ((argNat? ws "t").getD 0), UInt32.ofNat ((argNat? ws "p").getD 0),
                           UInt32.ofNat ((argNat? ws "c").getD 0)) }, "ok")
  | "new32" :: _ =>
    match argNat? ws "seed" with
    | some sd => withSeed s (sd % 4294967296) fun e =>
        let r := Rng.createEnv .mersenne (UInt32.ofNat sd) e; ({ s with r := r }, s!"ok seed={r.seed}")
    | none => (s, "bad-op")
  | "newfast" :: _ =>
    match argNat? ws "seed" with
    | some sd => withSeed s (sd % 4294967296) fun e =>
        let r := Rng.createEnv .fast (UInt32.ofNat sd) e; ({ s with r := r }, s!"ok seed={r.seed}")
    | none => (s, "bad-op")
  | "newtime" :: _ =>
    withSeed s 0 fun e => let r := Rng.createTimeseeded e; ({ s with r := r }, s!"ok seed={r.seed}")
  | "init" :: _ =>
    match argNat? ws "seed" with
    | some sd => withSeed s (sd % 4294967296) fun e =>
        let r := s.r.initEnv (UInt32.ofNat sd) e; ({ s with r := r }, s!"ok seed={r.seed}")
    | none => (s, "bad-op")
  | "init64" :: _ =>
    match argNat? ws "seed" with
    | some sd => withSeed s sd fun e =>
        let r := s.r64.initEnv (UInt64.ofNat sd) e; ({ s with r64 := r }, s!"ok seed={r.seed}")
    | none => (s, "bad-op")
  | "dump32" :: _ => (s, dumpAnswer s.r.dump)
  | "dump64" :: _ => (s, dumpAnswer s.r64.dump)
  | "pos32" :: _ =>
    match s.r.kind with
    | .mersenne => (s, s!"ok mti={s.r.st.mti}")
    | .fast => (s, s!"ok x={s.r.x}")
  | "pos64" :: _ => (s, s!"ok mti={s.r64.st.mti}")
  | "seedzero32" :: _ => (s, "ok nonzero replay")     -- Props.C09.seed0_nonzero32 + reinit_replays
  | "seedzero64" :: _ => (s, "ok nonzero replay")
  | "u32" :: _ =>
    let k := (argNat? ws "k").getD 1
    let (h, last, r) := drawsHash32 s.r k
    ({ s with r := r }, s!"ok h={hex64 h} last={last}")
  | "w32" :: _ =>
    let k := (argNat? ws "k").getD 1
    if k > 2000 then (s, "bad-op") else
    let (xs, r) := wordsN Rng.next s.r k []
    ({ s with r := r }, "ok " ++ ",".intercalate (xs.map fun x => toString x.toNat))
  | "w64" :: _ =>
    let k := (argNat? ws "k").getD 1
    if k > 2000 then (s, "bad-op") else
    let (xs, r) := wordsN Rng64.next s.r64 k []
    ({ s with r64 := r }, "ok " ++ ",".intercalate (xs.map fun x => toString x.toNat))
  | "roll" :: _ =>
    match argNat? ws "n" with
    | some n => if n = 0 then (s, "bad-op") else
      match s.r.roll n fuel with
      | some (v, r) => ({ s with r := r }, s!"ok {v}")
      | none => (s, "nohalt")
    | none => (s, "bad-op")
  | "random" :: _ =>
    let (x, r) := s.r.randomNum
    ({ s with r := r }, s!"ok {hex64 (Float.ofNat x / 4294967296.0).toBits}")
  | "unipos" :: _ =>
    match s.r.uniformPositive fuel with
    | some (x, r) => ({ s with r := r }, s!"ok {hex64 (Float.ofNat x / 4294967296.0).toBits}")
    | none => (s, "nohalt")
  | "deal" :: _ =>
    match argNat? ws "m", argNat? ws "n" with
    | some m, some n =>
      let (out, r) := dealF (F := Float) Rng.next m n s.r      -- the binary64 test `(double)(n-j) * esl_random() < (double)(m-i)`
      ({ s with r := r }, "ok " ++ ",".intercalate (out.map toString))
    | _, _ => (s, "bad-op")
  | "dchoose" :: _ =>
    let p := parseBitsList ((arg? ws "p").getD "")
    let (x, r) := s.r.randomNum
    match dchoose (Float.ofNat x / 4294967296.0) p with
    | some i => ({ s with r := r }, s!"ok {i}")
    | none => ({ s with r := r }, "fatal")
  | "fchoose" :: _ =>
    let p := parseF32List ((arg? ws "p").getD "")
    let (x, r) := s.r.randomNum
    match dchoose (Float.ofNat x / 4294967296.0) p with
    | some i => ({ s with r := r }, s!"ok {i}")
    | none => ({ s with r := r }, "fatal")
  | "fchoosecdf" :: _ =>
    let p := parseF32List ((arg? ws "p").getD "")
    let (x, r) := s.r.randomNum
    match dchooseCDF (Float.ofNat x / 4294967296.0) p with
    | some i => ({ s with r := r }, s!"ok {i}")
    | none => ({ s with r := r }, "fatal")
  | "pokeraw" :: _ =>
    match argNat? ws "w" with
    | some w => ({ s with r := s.r.pokeRaw (UInt32.ofNat w) }, "ok")
    | none => (s, "bad-op")
  | "pokeraw64" :: _ =>
    match argNat? ws "w" with
    | some w => ({ s with r64 := poke64At s.r64 (UInt64.ofNat w) ((argNat? ws "off").getD 0) }, "ok")
    | none => (s, "bad-op")
  | "dchoosecdf" :: _ =>
    let p := parseBitsList ((arg? ws "p").getD "")
    let (x, r) := s.r.randomNum
    match dchooseCDF (Float.ofNat x / 4294967296.0) p with
    | some i => ({ s with r := r }, s!"ok {i}")
    | none => ({ s with r := r }, "fatal")
  | "new64" :: _ =>
    match argNat? ws "seed" with
    | some sd => withSeed s sd fun e =>
        let r := Rng64.createEnv (UInt64.ofNat sd) e; ({ s with r64 := r }, s!"ok seed={r.seed}")
    | none => (s, "bad-op")
  | "u64" :: _ =>
    let k := (argNat? ws "k").getD 1
    let (h, last, r) := drawsHash64 s.r64 k
    ({ s with r64 := r }, s!"ok h={hex64 h} last={last}")
  | "roll64" :: _ =>
    match argNat? ws "n" with
    | some n => if n = 0 then (s, "bad-op") else
      match s.r64.roll n fuel with
      | some (v, r) => ({ s with r64 := r }, s!"ok {v}")
      | none => (s, "nohalt")
    | none => (s, "bad-op")
  | "deal64" :: _ =>                       -- Vitter's method D + method A, binary64 through the `Float` instance of `VOps`
    match argNat? ws "m", argNat? ws "n" with
    | some m, some n =>
      match s.r64.deal64 m n fuel with
      | some (out, r) => ({ s with r64 := r }, "ok " ++ ",".intercalate (out.map toString))
      | none => (s, "nohalt")
    | _, _ => (s, "bad-op")
  | "int64" :: _ =>
    let (x, r) := s.r64.next
    ({ s with r64 := r }, s!"ok {(x >>> 1).toNat}")
  | "dbl64" :: _ =>
    let (x, r) := s.r64.next
    ({ s with r64 := r }, s!"ok {hex64 (Float.ofNat (dblNum x) * (1.0/9007199254740992.0)).toBits}")
  | "dblclosed" :: _ =>
    let (x, r) := s.r64.next
    ({ s with r64 := r }, s!"ok {hex64 (Float.ofNat (dblNum x) * (1.0/9007199254740991.0)).toBits}")
  | "dblopen" :: _ =>
    let (x, r) := s.r64.next
    ({ s with r64 := r }, s!"ok {hex64 ((Float.ofNat (x >>> 12).toNat + 0.5) * (1.0/4503599627370496.0)).toBits}")
  | "gauss" :: _ =>
    match parseBitsList ((arg? ws "mean").getD ""), parseBitsList ((arg? ws "sd").getD "") with
    | [mean], [sd] => sres s (gaussian Rng.next fuel fuel Generated.RandTables.gaussTables mean sd s.r) fun x => s!"ok {hex64 x.toBits}"
    | _, _ => (s, "bad-op")
  | "gamma" :: _ =>
    match parseBitsList ((arg? ws "a").getD "") with
    | [a] => sres s (gamma Rng.next fuel fuel a s.r) fun x => s!"ok {hex64 x.toBits}"
    | _ => (s, "bad-op")
  | "dirichlet" :: _ =>
    let alpha : List Float := match arg? ws "alpha" with
      | some al => parseBitsList al
      | none => List.replicate ((argNat? ws "k").getD 1) 1.0        -- alpha = NULL
    sres s (dirichlet Rng.next fuel fuel alpha s.r) fun p => "ok " ++ ",".intercalate (p.map fun x => hex64 x.toBits)
  | "mem" :: _ =>
    sres s (rndMem Rng.next fuel ((argNat? ws "n").getD 0) [] s.r) fun bs => "ok " ++ hexOrDash (bs.map UInt8.ofNat)
  | "floatstr" :: _ =>
    sres s (floatString Rng.next fuel s.r) fun cs => "ok " ++ String.ofList cs
  | _ => (s, "bad-op")

def main : IO Unit := runDriver ({} : S) step
