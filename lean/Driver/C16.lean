import EaselModel.Core.Proto
import EaselModel.Random.Model
import EaselModel.Weights.Model
import EaselModel.Weights.Adv
import EaselModel.Weights.Deal64
import EaselModel.Weights.Tree
import EaselModel.Weights.Engine
import EaselModel.Weights.TreeOps
import EaselModel.Weights.SymfracRule
import EaselModel.Weights.Distance
/-! Line-protocol driver for the C16 model (`Float` instance of `EaselModel.Weights`). Mirrors harness/h_weights.c. -/
open EaselModel EaselModel.Proto EaselModel.Weights EaselModel.Random

structure S where
  mode : Nat := 0                -- 0 text, 1 amino, 2 dna, 3 rna
  rows : Array Row := #[]
  rf : Option Row := none

def S.abc (s : S) : Abc := if s.mode == 1 then Abc.amino else Abc.dna
def S.m (s : S) : Mode := if s.mode == 0 then Mode.text else Mode.digital s.abc
def S.alen (s : S) : Nat := match s.rows[0]? with | some r => r.length | none => 0

def hex64 (x : UInt64) : String :=
  let d := Nat.toDigits 16 x.toNat
  String.ofList (List.replicate (16 - d.length) '0' ++ d)

def fbits (x : Float) : String := hex64 x.toBits

def parseHexNat (w : String) : Option Nat :=
  w.toList.foldl (fun acc c => acc.bind fun a => (hexVal c).map fun d => a * 16 + d) (some 0)

def argBits (ws : List String) (k : String) : Float :=
  match (arg? ws k).bind parseHexNat with
  | some n => Float.ofBits (UInt64.ofNat n)
  | none => Float.ofBits 0

def argF32 (ws : List String) (k : String) (dflt : Float32) : Float32 :=
  match (arg? ws k).bind parseHexNat with
  | some n => Float32.ofBits (UInt32.ofNat n)
  | none => dflt

def half32 : Float32 := Float32.ofBits 0x3f000000

def dlist (xs : List Float) : String := if xs.isEmpty then "-" else ",".intercalate (xs.map fbits)
def nlist (xs : List Nat) : String := if xs.isEmpty then "-" else ",".intercalate (xs.map toString)

/-- `(int) ceil( fragthresh * (float) msa->alen )` -/
def minspanOf (ft : Float32) (alen : Nat) : Int := ((ft * Float32.ofNat alen).toFloat.ceil).toInt64.toInt

/-- the consensus-column test, in the form the working tree has it (`Weights/SymfracRule.lean`, regenerated every run):
    `((float) ct[apos][K] / (float) tot) < symfrac`, or `tot > 0 && ((float) (tot - ct[apos][K]) / (float) tot) >= symfrac` -/
def ruleOf (sf : Float32) (gap tot : Nat) : Bool :=
  if symfracResidueForm then decide (tot > 0) && Float32.ofNat (tot - gap) / Float32.ofNat tot ≥ sf
  else Float32.ofNat gap / Float32.ofNat tot < sf

def sortAsc (xs : List Nat) : List Nat := (xs.toArray.qsort (· < ·)).toList

def weightsLine (s : S) (w : List Float) : String := s!"ok hw={if s.rows.size == 1 then 0 else 1} w={dlist w}"

/-- `esl_DCompare_old(a, b, tol) == eslOK` -/
def dcompareOld (tol a b : Float) : Bool :=
  if a.isInf && b.isInf then true
  else if a.isNaN && b.isNaN then true
  else if !a.isFinite || !b.isFinite then false
  else if a == b then true
  else if a.abs == 0.0 && b.abs ≤ tol then true
  else if b.abs == 0.0 && a.abs ≤ tol then true
  else if 2.0 * (a - b).abs / (a + b).abs ≤ tol then true
  else false

/-- the literal `0.0001` of esl_tree_VerifyUltrametric as gcc rounds it -/
def tol1e4 : Float := Float.ofBits 0x3F1A36E2EB1C432D

def vuName : VU → String
  | .ok => "ok" | .fail => "fail" | .oops => "einconceivable"

def ilist (xs : List Int) : String := if xs.isEmpty then "-" else ",".intercalate (xs.map toString)

/-- `(double) k * -log(esl_rnd_UniformPositive(r))` -/
def expDraw (k : Nat) (r : Rng) : Option (Float × Rng) :=
  (r.uniformPositive 1000).map fun (x, r') => (Float.ofNat k * (-(Float.log (Float.ofNat x / 4294967296.0))), r')

/-- the draws `esl_tree_Simulate(r, N, …)` makes: (d, bidx) for nactive = 2..N-1, then the final d -/
def simDraws (N : Nat) : Nat → Nat → Rng → List (Float × Nat) → Option (List (Float × Nat) × Float × Rng)
  | 0, _, _, _ => none
  | fuel + 1, nactive, r, acc =>
    if nactive < N then
      match expDraw nactive r with
      | none => none
      | some (d, r1) =>
        match r1.roll nactive 1000 with
        | none => none
        | some (b, r2) => simDraws N fuel (nactive + 1) r2 ((d, b) :: acc)
    else (expDraw N r).map fun (d, r') => (acc.reverse, d, r')

def treeOfMx (ws : List String) (key : String) (n : Nat) (d : Nat → Nat → Float) : Option (Link × KState Float) :=
  let lk := (argNat? ws key).getD 0
  if lk > 3 then none else
  let L : Link := if lk == 0 then .upgma else if lk == 1 then .wpgma else if lk == 2 then .single else .complete
  some (L, linkTree (α := Float) L n d)

def S.jc (s : S) : JCMode := if s.mode == 0 then JCMode.text else JCMode.digital s.abc

def pmLine (r : Option (Float × Nat × Nat)) : String :=
  match r with
  | some (p, nm, n) => s!"ok {fbits p} {nm} {n}"
  | none => s!"einval {fbits 0.0} 0 0"

def jcLine (r : JCResult Float) : String :=
  match r with
  | .einval => "einval 7ff0000000000000 7ff0000000000000"
  | .edivzero => "edivzero 7ff0000000000000 7ff0000000000000"
  | .saturated => "ok 7ff0000000000000 7ff0000000000000"
  | .ok d v => s!"ok {fbits d} {fbits v}"

/-- `ESL_MSAWEIGHT_CFG` from the op's arguments (defaults = `esl_msaweight_cfg_Create`) -/
def cfgOf (ws : List String) (alen : Nat) : WCfg :=
  { minspan := minspanOf (argF32 ws "ft" half32) alen
    rule := ruleOf (argF32 ws "sf" half32)
    ignoreRf := (argNat? ws "irf").getD 0 != 0
    allowSamp := (argNat? ws "as").getD 1 != 0
    sampthresh := (argInt? ws "st").getD 50000
    nsamp := (argNat? ws "ns").getD 10000
    maxfrag := (argInt? ws "mf").getD 5000 }

/-- `esl_rand64_Create(cfg->seed)` + `esl_rand64_Deal` -/
def dealOf (ws : List String) (m n : Nat) : List Nat :=
  (deal64 (Rng64.create (UInt64.ofNat ((argNat? ws "seed").getD 42))) m n).1

def step (s : S) (line : String) : S × String :=
  let ws := words line
  let rows := s.rows.toList
  let ready := s.rows.size ≥ 1
  match ws with
  | "abc" :: _ =>
    match arg? ws "t" with
    | some "text" => ({ mode := 0 }, "ok")
    | some "amino" => ({ mode := 1 }, "ok")
    | some "dna" => ({ mode := 2 }, "ok")
    | some "rna" => ({ mode := 3 }, "ok")
    | _ => (s, "bad-op")
  | "clear" :: _ => ({ s with rows := #[], rf := none }, "ok")
  | "row" :: _ =>
    match argHex? ws "h" with
    | some b =>
      if b.length < 1 || (s.rows.size > 0 && b.length != s.alen) then (s, "bad-op")
      else if (s.mode == 0 && b.any (· == 0)) || (s.mode != 0 && b.any (fun c => c.toNat ≥ s.abc.Kp)) then (s, "bad-op")
      else ({ s with rows := s.rows.push b }, s!"ok {s.rows.size + 1}")
    | none => (s, "bad-op")
  | "rf" :: _ =>
    match argHex? ws "h" with
    | some b =>
      if s.rows.size == 0 || b.length != s.alen || b.any (fun c => c == 0) then (s, "bad-op")
      else ({ s with rf := some b }, "ok")
    | none => (s, "bad-op")
  | "pairid" :: _ =>
    match argNat? ws "i", argNat? ws "j" with
    | some i, some j =>
      if !ready || i ≥ s.rows.size || j ≥ s.rows.size then (s, "bad-op") else
      -- opt=<mask>: unrequested outputs keep the harness's initial values (-1., -1, -1)
      let opt := (argNat? ws "opt").getD 7
      let fp := fun (p : Float) => if opt % 2 == 1 then fbits p else fbits (-1.0)
      let fi := fun (bit : Nat) (v : Nat) => if (opt / bit) % 2 == 1 then toString v else "-1"
      match pairId (α := Float) s.m (rows.getD i []) (rows.getD j []) with
      | some (p, nid, n) => (s, s!"ok {fp p} {fi 2 nid} {fi 4 n}")
      | none => (s, s!"einval {fp 0.0} {fi 2 0} {fi 4 0}")
    | _, _ => (s, "bad-op")
  | "pairstr" :: _ =>
    match argHex? ws "a", argHex? ws "b" with
    | some a, some b =>
      let bad := fun (r : Row) => (s.mode == 0 && r.any (· == 0)) || (s.mode != 0 && r.any (fun c => c.toNat ≥ s.abc.Kp))
      if bad a || bad b then (s, "bad-op") else
      match pairId (α := Float) s.m a b with
      | some (p, nid, n) => (s, s!"ok {fbits p} {nid} {n}")
      | none => (s, s!"einval {fbits 0.0} 0 0")
    | _, _ => (s, "bad-op")
  | "pairidmx" :: _ =>
    if !ready then (s, "bad-op") else
    (s, "ok " ++ ",".intercalate ((pairIdMx (α := Float) s.m rows).map dlist))
  | "diffmx" :: _ =>
    if !ready then (s, "bad-op") else
    (s, "ok " ++ dlist (diffMx (α := Float) s.m rows).toList)
  | "slink" :: _ =>
    if !ready then (s, "bad-op") else
    let cl := msaSingleLinkage s.m (argBits ws "maxid") rows
    let asg := assignment cl rows.length
    let pre := (argNat? ws "pre").getD 0
    -- modes=<c><nin><nc>: 0 = not requested, 1 = allocated by the callee, 2 = provided by the caller (pre=0..3: 111 221 011 101)
    let md := ((arg? ws "modes").getD (["111", "221", "011", "101"].getD pre "111")).toList
    let dg := fun (k : Nat) => (md.getD k '9').toNat - 48
    if md.length != 3 || dg 0 > 2 || dg 1 > 2 || dg 2 > 1 then (s, "bad-op") else
    let cm := dg 0; let nm := dg 1; let ncm := dg 2
    let sizes := nlist (clusterSizes asg cl.length)
    -- the number of clusters is known to the caller from *opt_nc, else from the assignments, else from its own sentinel-filled array
    let ninS := if nm == 0 then "-" else if ncm == 1 || cm != 0 || nm == 2 then sizes else "?"
    (s, s!"ok nc={if ncm == 1 then toString cl.length else "-"} c={if cm == 0 then "-" else nlist asg} nin={ninS}")
  | "cluster" :: _ =>
    match argNat? ws "n", arg? ws "adj" with
    | some n, some adj =>
      let m := adj.toList.toArray
      if n < 1 || m.size != n * n then (s, "bad-op") else
      let cl := singleLinkage (fun v w => m.getD (v * n + w) '0' == '1') n
      (s, s!"ok nc={cl.length} c={nlist (assignment cl n)}")
    | _, _ => (s, "bad-op")
  | "qsort" :: _ =>
    match arg? ws "w" with
    | some w =>
      let ds := (w.splitOn ",").map fun t => match parseHexNat t with
        | some n => Float.ofBits (UInt64.ofNat n) | none => 0.0
      (s, "ok " ++ nlist (quicksort (cmpDecreasing ds) ds.length))
    | none => (s, "bad-op")
  | "pb" :: _ =>
    if !ready then (s, "bad-op") else
    if s.mode == 0 then (s, weightsLine s (pbText (α := Float) rows))
    else (s, weightsLine s (pbDigital (α := Float) s.abc (ruleOf half32) (minspanOf half32 s.alen) s.rf rows))
  | "multi" :: _ =>
    match arg? ws "seq" with
    | some q =>
      if !ready || q.isEmpty || q.toList.any (fun c => c != 'p' && c != 'g' && c != 'b') then (s, "bad-op") else
      -- every weighting routine overwrites all of msa->wgt[]: only the last call matters
      match q.toList.getLast? with
      | some 'p' =>
        if s.mode == 0 then (s, weightsLine s (pbText (α := Float) rows))
        else (s, weightsLine s (pbDigital (α := Float) s.abc (ruleOf half32) (minspanOf half32 s.alen) s.rf rows))
      | some 'g' => (s, weightsLine s (gsc (α := Float) s.m rows))
      | _ => (s, weightsLine s (blosum s.m (argBits ws "maxid") rows))
    | none => (s, "bad-op")
  | "pbadv" :: _ =>
    if !ready || s.mode == 0 then (s, "bad-op") else
    let cfg := cfgOf ws s.alen
    if cfg.nsamp < 1 then (s, "bad-op") else
    if rows.length == 1 then
      (s, s!"ok hw=0 rf=0 all=0 allcols=0 samp=0 nfrag=0 rej=0 snfrag=0 ncons=0 cons=- w={dlist [1.0]}")
    else
    let ci := pbConsensusAdv s.abc cfg (dealOf ws) s.rf rows
    let w := pbDigitalWith (α := Float) s.abc cfg.minspan ci.cols rows
    let b := fun (x : Bool) => if x then 1 else 0
    (s, s!"ok hw=1 rf={b ci.byRf} all={b ci.byAll} allcols={b ci.allCols} samp={b ci.bySample} nfrag={nFragments s.abc cfg.minspan rows} rej={b ci.rejected} snfrag={ci.sampNfrag} ncons={ci.cols.length} cons={nlist (ci.cols.map (· + 1))} w={dlist w}")
  | "pairmatch" :: _ =>
    match argNat? ws "i", argNat? ws "j" with
    | some i, some j =>
      if !ready || i ≥ s.rows.size || j ≥ s.rows.size then (s, "bad-op") else
      let opt := (argNat? ws "opt").getD 7
      let fp := fun (p : Float) => if opt % 2 == 1 then fbits p else fbits (-1.0)
      let fi := fun (bit : Nat) (v : Nat) => if (opt / bit) % 2 == 1 then toString v else "-1"
      match pairMatch (α := Float) s.m (rows.getD i []) (rows.getD j []) with
      | some (p, nm, n) => (s, s!"ok {fp p} {fi 2 nm} {fi 4 n}")
      | none => (s, s!"einval {fp 0.0} {fi 2 0} {fi 4 0}")
    | _, _ => (s, "bad-op")
  | "jc" :: _ =>
    match argNat? ws "i", argNat? ws "j" with
    | some i, some j =>
      let K := if s.mode == 0 then (argNat? ws "k").getD 4 else s.abc.K
      if !ready || i ≥ s.rows.size || j ≥ s.rows.size || K < 2 then (s, "bad-op") else
      let opt := (argNat? ws "opt").getD 3
      let ln := jcLine (jukesCantor s.jc K (rows.getD i []) (rows.getD j []))
      let m1 := fbits (-1.0)
      match ln.splitOn " " with
      | [st, d, v] => (s, s!"{st} {if opt % 2 == 1 then d else m1} {if (opt / 2) % 2 == 1 then v else m1}")
      | _ => (s, ln)
    | _, _ => (s, "bad-op")
  | "distpair" :: _ =>
    match argHex? ws "a", argHex? ws "b" with
    | some a, some b =>
      let bad := fun (r : Row) => (s.mode == 0 && r.any (· == 0)) || (s.mode != 0 && r.any (fun c => c.toNat ≥ s.abc.Kp))
      let K := if s.mode == 0 then (argNat? ws "k").getD 4 else s.abc.K
      if bad a || bad b || K < 2 then (s, "bad-op") else
      (s, pmLine (pairMatch (α := Float) s.m a b) ++ " / " ++ jcLine (jukesCantor s.jc K a b))
    | _, _ => (s, "bad-op")
  | "avgid" :: _ | "avgmatch" :: _ =>
    match argNat? ws "max" with
    | some maxc =>
      if !ready || maxc < 1 then (s, "bad-op") else
      let n := rows.length
      let sampled := if n ≤ 1 || exhaustive n maxc then [] else samplePairs n maxc (Rng.create .mersenne 42) []
      if ws.head? == some "avgid" then (s, s!"ok {fbits (averageId (α := Float) s.m rows maxc sampled)}")
      else (s, s!"ok {fbits (averageMatch (α := Float) s.m rows maxc sampled)}")
    | none => (s, "bad-op")
  | "jcmx" :: _ =>
    let K := if s.mode == 0 then (argNat? ws "k").getD 4 else s.abc.K
    if !ready || K < 2 then (s, "bad-op") else
    match jukesCantorMx (α := Float) s.jc K rows with
    | .error .einval => (s, "einval")
    | .error _ => (s, "edivzero")
    | .ok mx =>
      let inf := Float.ofBits 0x7ff0000000000000
      let dv := fun (r : JCResult Float) => match r with | .ok d v => (d, v) | _ => (inf, inf)
      let opt := (argNat? ws "opt").getD 3
      (s, s!"ok d={if opt % 2 == 1 then dlist (mx.flatMap fun row => row.map fun r => (dv r).1) else "-"} v={if (opt / 2) % 2 == 1 then dlist (mx.flatMap fun row => row.map fun r => (dv r).2) else "-"}")
  | "avgconn" :: _ | "avgsub" :: _ =>
    match argNat? ws "max" with
    | some maxc =>
      if !ready || maxc < 1 || s.mode == 0 then (s, "bad-op") else
      let th := argBits ws "th"
      let sub := ws.head? == some "avgsub"
      let V : Option (List Nat) :=
        if !sub then some (List.range rows.length)
        else match arg? ws "v" with
          | some "-" => some []
          | some v => (v.splitOn ",").mapM String.toNat?
          | none => none
      match V with
      | none => (s, "bad-op")
      | some V =>
        if V.any (· ≥ rows.length) then (s, "bad-op") else
        let n := V.length
        let sampled := if n ≤ 1 || exhaustive n maxc then [] else samplePairs n maxc (Rng.create .mersenne 42) []
        let r := avgSubsetConnectivity (α := Float) (pid s.m) rows V maxc th sampled
        (s, s!"ok {fbits r.1} {fbits r.2}")
    | none => (s, "bad-op")
  | "ragged" :: _ =>      -- the matrix / averaging routines on sequences that need not be aligned: statuses, NULL outputs, averages
    match arg? ws "seqs", argNat? ws "max" with
    | some sq, some maxc =>
      let parse := fun (t : String) => if t == "-" then some ([] : Row) else
        (parseHexNat t).bind fun _ => if t.length % 2 != 0 then none else
          some ((List.range (t.length / 2)).map fun i =>
            UInt8.ofNat (((hexVal (t.toList.getD (2 * i) '0')).getD 0) * 16 + ((hexVal (t.toList.getD (2 * i + 1) '0')).getD 0)))
      match (sq.splitOn ",").mapM parse with
      | none => (s, "bad-op")
      | some rws =>
        let bad := fun (r : Row) => (s.mode == 0 && r.any (· == 0)) || (s.mode != 0 && r.any (fun c => c.toNat ≥ s.abc.Kp))
        let K := if s.mode == 0 then (argNat? ws "k").getD 4 else s.abc.K
        if rws.isEmpty || maxc < 1 || K < 2 || rws.any bad then (s, "bad-op") else
        let n := rws.length
        let sampled := if n ≤ 1 || exhaustive n maxc then [] else samplePairs n maxc (Rng.create .mersenne 42) []
        let vis := visitedPairs n maxc sampled
        let mxSt := if unalignedVisited rws (allPairs n) then "einval" else "ok"
        let jcSt := match jcMxError (α := Float) s.jc K rws with
          | some .einval => "einval" | some _ => "edivzero" | none => "ok"
        let avgBad := unalignedVisited rws vis
        let z := fbits 0.0
        -- Average{Id,Match} in the sampling branch on unaligned input: eslEINVAL, output 0, as in the exhaustive branch (640fa96)
        let skip := false
        let avgid := if skip then "skip" else if avgBad then s!"einval:{z}" else s!"ok:{fbits (averageId (α := Float) s.m rws maxc sampled)}"
        let avgm := if skip then "skip" else if avgBad then s!"einval:{z}" else s!"ok:{fbits (averageMatch (α := Float) s.m rws maxc sampled)}"
        let conn := if s.mode == 0 then "-" else if avgBad then s!"einval:{z}:{z}" else
          let r := avgConnectivity (α := Float) (pid s.m) rws maxc (argBits ws "th") sampled
          s!"ok:{fbits r.1}:{fbits r.2}"
        (s, s!"ok pidmx={mxSt} diffmx={mxSt} jcmx={jcSt} avgid={avgid} avgmatch={avgm} conn={conn}")
    | _, _ => (s, "bad-op")
  | "upgma" :: _ =>
    match argNat? ws "n", arg? ws "d" with
    | some n, some dl =>
      let ds := ((dl.splitOn ",").map fun t => match parseHexNat t with
        | some v => Float.ofBits (UInt64.ofNat v) | none => 0.0).toArray
      if n < 2 || ds.size != n * (n - 1) / 2 then (s, "bad-op") else
      -- upper triangle, row-major: entry (x, y), x < y, sits at x*n - x*(x+1)/2 + (y - x - 1)
      let d := fun (x y : Nat) => ds.getD (x * n - x * (x + 1) / 2 + (y - x - 1)) 0.0
      let lk := (argNat? ws "link").getD 0
      if lk > 3 then (s, "bad-op") else
      let L : Link := if lk == 0 then .upgma else if lk == 1 then .wpgma else if lk == 2 then .single else .complete
      let st := linkTree (α := Float) L n d
      let t := toCTree n st
      let il := fun (xs : List Int) => ",".intercalate (xs.map toString)
      let valid := wellFormedB n st.nodes.reverse && st.nodes.all fun nd => !(nd.l < 0.0) && !(nd.r < 0.0)
      (s, s!"ok valid={if valid then 1 else 0} N={n} lt={if L.isLinkage then 1 else 0} left={il t.left} right={il t.right} parent={il t.parent} ld={dlist t.ld} rd={dlist t.rd} tp={il t.taxaparent} cs={nlist t.cladesize}")
    | _, _ => (s, "bad-op")
  | "treeops" :: _ =>
    match argNat? ws "n", arg? ws "d" with
    | some n, some dl =>
      let ds := ((dl.splitOn ",").map fun t => match parseHexNat t with
        | some v => Float.ofBits (UInt64.ofNat v) | none => 0.0).toArray
      if n < 2 || ds.size != n * (n - 1) / 2 then (s, "bad-op") else
      let d := fun (x y : Nat) => ds.getD (x * n - x * (x + 1) / 2 + (y - x - 1)) 0.0
      match treeOfMx ws "link" n d, treeOfMx ws "link2" n d with
      | some (_, st), some (_, st2) =>
        let t := ETree.ofCTree n (toCTree n st)
        let t2 := ETree.ofCTree n (toCTree n st2)
        let cmp := dcompareOld tol1e4
        let st3 := fun (b : Bool) => if b then "ok" else "fail"
        let dm := match eToDistanceMatrix t with
          | some l => dlist l | none => "loop"
        let (tr, tpr, _) := eRenumber t (some (eTaxaParents t))
        let valid := wellFormedB n st.nodes.reverse && st.nodes.all fun nd => !(nd.l < 0.0) && !(nd.r < 0.0)
        (s, s!"ok vu={vuName (eVerifyUltrametric t cmp)} dm={dm} dmsym=1 cs={nlist (eCladesizes t).toList} cmpself={st3 (eCompare t t)} cmp={st3 (eCompare t t2)} rn=ok left={ilist tr.left.toList} right={ilist tr.right.toList} parent={ilist tr.parent.toList} ld={dlist tr.ld.toList} rd={dlist tr.rd.toList} tp={ilist ((tpr.getD #[]).toList)} valid={if valid then 1 else 0} vu2={vuName (eVerifyUltrametric tr cmp)} cmp2={st3 (eCompare t2 tr)} l2={ilist t2.left.toList} r2={ilist t2.right.toList}")
      | _, _ => (s, "bad-op")
    | _, _ => (s, "bad-op")
  | "simulate" :: _ =>
    match argNat? ws "n" with
    | some n =>
      let seed := (argNat? ws "seed").getD 42
      if n < 2 || n > 4096 || seed == 0 || seed ≥ 4294967296 then (s, "bad-op") else
      match simDraws n (n + 1) 2 (Rng.create .mersenne (UInt32.ofNat seed)) [] with
      | none => (s, "no-halt")
      | some (draws, dlast, r') =>
        let t := eSimulate (α := Float) n draws dlast
        let cmp := dcompareOld tol1e4
        let (tr, _, _) := eRenumber t none
        (s, s!"ok next={r'.next.1.toNat} left={ilist t.left.toList} right={ilist t.right.toList} parent={ilist t.parent.toList} ld={dlist t.ld.toList} rd={dlist t.rd.toList} tp={ilist (eTaxaParents t).toList} cs={nlist (eCladesizes t).toList} valid=1 vu={vuName (eVerifyUltrametric t cmp)} rn=ok rleft={ilist tr.left.toList} rright={ilist tr.right.toList} rparent={ilist tr.parent.toList} cmp={if eCompare t tr then "ok" else "fail"}")
    | none => (s, "bad-op")
  | "deal64" :: _ =>
    match argNat? ws "m", argNat? ws "n" with
    | some m, some n => if m < 1 || m > n then (s, "bad-op") else (s, "ok " ++ nlist (dealOf ws m n))
    | _, _ => (s, "bad-op")
  | "blosum" :: _ =>
    if !ready then (s, "bad-op") else (s, weightsLine s (blosum s.m (argBits ws "maxid") rows))
  | "gsc" :: _ =>
    if !ready then (s, "bad-op") else (s, weightsLine s (gsc (α := Float) s.m rows))
  | "idfilter" :: _ =>
    if !ready then (s, "bad-op") else
    let maxid := argBits ws "maxid"
    let kept :=
      if s.mode == 0 then idFilterText maxid rows
      else
        let ms := minspanOf half32 s.alen
        let cols := filterConsensus s.abc (ruleOf half32) ms s.rf rows s.alen
        idFilterDigital s.abc maxid (rows.map fun r => Float.ofNat (conscover s.abc cols r)) rows
    (s, s!"ok same=1 kept={nlist (sortAsc kept)}")
  | "idfilteradv" :: _ =>
    if !ready || s.mode == 0 then (s, "bad-op") else
    let maxid := argBits ws "maxid"
    let cfg := cfgOf ws s.alen
    let pref := (argNat? ws "pref").getD 1
    let seed := (argNat? ws "seed").getD 42
    let n := rows.length
    if pref < 1 || pref > 3 || cfg.nsamp < 1 then (s, "bad-op") else
    let fp : FilterPref :=
      if pref == 1 then .conscover
      else if pref == 2 then
        .random ((List.range n).foldl (fun (acc : List Nat × Rng64) _ =>
            let (x, r) := acc.2.next
            (acc.1 ++ [dblNum x], r)) ([], Rng64.create (UInt64.ofNat seed))).1
      else .origorder
    (s, s!"ok same=1 kept={nlist (sortAsc (idFilterAdv (α := Float) s.abc cfg (dealOf ws) fp maxid s.rf rows))}")
  | _ => (s, "bad-op")

def main : IO Unit := runDriver ({} : S) step
