import EaselModel.Core.Proto
import EaselModel.Msa.Model
import EaselModel.Msa.Model2
import EaselModel.Msa.Model3
import EaselModel.Msa.Sample
import EaselModel.Msa.Expand
import EaselModel.Msa.AbcTables
/-! Line-protocol driver for the C15 model (alignment transformations, WUSS). Mirrors harness/h_msaops.c. -/
open EaselModel EaselModel.Proto EaselModel.Msa

structure S where
  a : Option Msa := none
  b : Option Msa := none
  q : Option Sq := none

def hexN (width : Nat) (x : Nat) : String :=
  let s := Nat.toDigits 16 x
  String.ofList (List.replicate (width - s.length) '0' ++ s)

/-- NULL -> ~, "" -> -, else hex -/
def oStr : Option Bytes → String
  | none => "~"
  | some [] => "-"
  | some b => hexOfBytes b

def argStr? (ws : List String) (key : String) : Option Bytes :=
  match arg? ws key with
  | none => none
  | some "~" => none
  | some v => bytesOfHex v

def abcOf (s : String) : Option Abc :=
  if s == "rna" then some Gen.rnaAbc else if s == "dna" then some Gen.dnaAbc else if s == "amino" then some Gen.aminoAbc else none

def abcName : Option Abc → String
  | none => "none"
  | some a => if a.type == 1 then "rna" else if a.type == 2 then "dna" else if a.type == 3 then "amino" else "other"

def stName : St → String
  | .ok => "ok" | .einval => "einval" | .eincompat => "eincompat" | .esyntax => "esyntax" | .efail => "fail"
  | .einconceivable => "einconceivable" | .fault => "fault"

def werrName : WErr → String
  | .einval => "einval exception" | .einconceivable => "einconceivable exception" | .efail => "fail exception"
  | .esyntax => "esyntax" | .fault => "fault" | .einvalLetters _ => "einval exception"

def resLine (r : Res) : String := if r.exc then stName r.st ++ " exception" else stName r.st

def dumpMsa (m : Msa) : String := Id.run do
  let mut s := s!"ok nseq={m.nseq} alen={m.alen} flags={m.flags} abc={abcName m.abc}"
  s := s ++ " name=" ++ oStr m.name ++ " desc=" ++ oStr m.desc ++ " acc=" ++ oStr m.acc ++ " au=" ++ oStr m.au
  s := s ++ " ss_cons=" ++ oStr m.ss_cons ++ " sa_cons=" ++ oStr m.sa_cons ++ " pp_cons=" ++ oStr m.pp_cons
  s := s ++ " rf=" ++ oStr m.rf ++ " mm=" ++ oStr m.mm
  s := s ++ " cutoff=" ++ ",".intercalate (m.cutoff.map fun c => hexN 8 c.toNat)
  s := s ++ " cutset=" ++ ",".intercalate (m.cutset.map fun c => if c then "1" else "0")
  for i in [0:m.nseq] do
    let row := m.rows.getD i []
    let rowS := if m.isDigital then (if row.isEmpty then "-" else hexOfBytes row) else oStr (some row)
    s := s ++ " sq=" ++ oStr (some (m.sqname.getD i [])) ++ "," ++ hexN 16 (m.wgt.getD i 0).toNat ++ "," ++ rowS
    s := s ++ "," ++ oStr (m.sqacc.getD i none) ++ "," ++ oStr (m.sqdesc.getD i none)
    s := s ++ "," ++ oStr (m.ss.getD i none) ++ "," ++ oStr (m.sa.getD i none) ++ "," ++ oStr (m.pp.getD i none)
  for c in m.comment do s := s ++ " comment=" ++ oStr (some c)
  for t in m.gf do s := s ++ " gf=" ++ oStr (some t.1) ++ "," ++ oStr (some t.2)
  for t in m.gs do
    s := s ++ " gs=" ++ oStr (some t.1)
    for i in [0:m.nseq] do s := s ++ "," ++ oStr (t.2.getD i none)
  for t in m.gc do s := s ++ " gc=" ++ oStr (some t.1) ++ "," ++ oStr (some t.2)
  for t in m.gr do
    s := s ++ " gr=" ++ oStr (some t.1)
    for i in [0:m.nseq] do s := s ++ "," ++ oStr (t.2.getD i none)
  return s

def parseMask (s : String) : List Bool := if s == "-" then [] else s.toList.map (· == '1')

/-- with `cyc=1` the pattern is repeated cyclically (or cut) to exactly `need` flags -/
def maskFor (ws : List String) (s : String) (need : Nat) : List Bool :=
  let pat := parseMask s
  if (argNat? ws "cyc").getD 0 != 0 then
    (List.range need).map fun i => if pat.isEmpty then false else pat.getD (i % pat.length) false
  else pat

def parseCt (s : String) : List Nat :=
  if s == "-" then [0] else 0 :: (s.splitOn ",").map (fun w => w.toNat?.getD 0)

def ctLine (ct : List Nat) : String :=
  if ct.length ≤ 1 then "-" else ",".intercalate ((ct.drop 1).map toString)

def setOpt (l : List (Option Bytes)) (i : Nat) (v : Option Bytes) : List (Option Bytes) :=
  match v with
  | none => l
  | some b => l.set i (some b)

def orElse' (new old : Option Bytes) : Option Bytes := match new with | some b => some b | none => old

def minspanOf (tbits : Nat) (alen : Nat) : Int :=
  ((Float32.ofBits (UInt32.ofNat tbits) * Float32.ofNat alen).toFloat.ceil.toInt64).toInt

/-- output of the `grow` op: every slot of every per-sequence array after the expansions -/
def growLine (g : Grow) : String := Id.run do
  let optS := fun (a : Option (List (Option Bytes × Nat))) (i : Nat) =>
    match a with | none => "." | some l => oStr (l.getD i (none, 0)).1 ++ ":" ++ toString (l.getD i (none, 0)).2
  let optA := fun (a : Option (List (Option Bytes))) (i : Nat) => match a with | none => "." | some l => oStr (l.getD i none)
  let mut s := s!"ok sqalloc={g.sqalloc}"
  for i in [0:g.sqalloc] do
    s := s ++ " sl=" ++ oStr (g.sqname.getD i none) ++ "," ++ hexN 16 (g.wgt.getD i 0).toNat ++ "," ++ toString (g.sqlen.getD i 0)
      ++ "," ++ oStr (g.rows.getD i none) ++ "," ++ optS g.ss i ++ "," ++ optS g.sa i ++ "," ++ optS g.pp i
      ++ "," ++ optA g.sqacc i ++ "," ++ optA g.sqdesc i
  for t in g.gs do
    s := s ++ " gs=" ++ oStr (some t.1) ++ "".intercalate ((List.range g.sqalloc).map fun i => "," ++ oStr (t.2.getD i none))
  for t in g.gr do
    s := s ++ " gr=" ++ oStr (some t.1) ++ "".intercalate ((List.range g.sqalloc).map fun i => "," ++ oStr (t.2.getD i none))
  return s

/-- the growable alignment the harness builds before it calls `esl_msa_Expand` -/
def growInit (n named opt acc desc ngs ngr : Nat) (hasAcc hasDesc : Bool) : Grow :=
  let g := Grow.create n
  let g := { g with sqname := (List.range n).map fun i => if i < named then some (s!"q{i}").toUTF8.toList else none }
  let blank : Option (List (Option Bytes × Nat)) := some (List.replicate n (none, 0))
  let g := { g with ss := if opt % 2 == 1 then blank else none, sa := if opt / 2 % 2 == 1 then blank else none,
                    pp := if opt / 4 % 2 == 1 then blank else none }
  let g := if hasAcc then { g with sqacc := some ((List.replicate n none).set acc (some [0x41, 0x43])) } else g
  let g := if hasDesc then { g with sqdesc := some ((List.replicate n none).set desc (some [0x64])) } else g
  let g := { g with gs := (List.range ngs).map fun t => ((s!"T{t}").toUTF8.toList, (List.replicate n none).set (t % n) (some [0x76])) }
  { g with gr := (List.range ngr).map fun t => ((s!"R{t}").toUTF8.toList, (List.replicate n none).set (t % n) (some [0x78])) }

def exceptSs : Except WErr Bytes → String
  | .ok ss => "ok ss=" ++ oStr (some ss)
  | .error e => werrName e

/-- `esl_DCompare_old(a, b, tol)` in binary64 -/
def dCompareOld (a b tol : Float) : Bool :=
  if a.isInf && b.isInf then true
  else if a.isNaN && b.isNaN then true
  else if !a.isFinite || !b.isFinite then false
  else if a == b then true
  else if a.abs == 0.0 && b.abs <= tol then true
  else if b.abs == 0.0 && a.abs <= tol then true
  else 2.0 * (a - b).abs / (a + b).abs <= tol

/-- `esl_FCompare_old(a, b, tol)`: `a-b`, `a+b` in binary32, everything else promoted to binary64 -/
def fCompareOld (a b tol : Float32) : Bool :=
  if a.isInf && b.isInf then true
  else if a.isNaN && b.isNaN then true
  else if !a.isFinite || !b.isFinite then false
  else if a == b then true
  else if a.toFloat.abs == 0.0 && b.toFloat.abs <= tol.toFloat then true
  else if b.toFloat.abs == 0.0 && a.toFloat.abs <= tol.toFloat then true
  else 2.0 * (a - b).toFloat.abs / (a + b).toFloat.abs <= tol.toFloat

def dcmpBits (x y : UInt64) : Bool := dCompareOld (Float.ofBits x) (Float.ofBits y) 0.001
def fcmpBits (x y : UInt32) : Bool := fCompareOld (Float32.ofBits x) (Float32.ofBits y) (0.01 : Float).toFloat32

def f32Arith : CArith Float Float32 :=
  { zero := 0.0, ofW := fun w => w.toFloat32, add := fun a b => a + b,
    divNat := fun a n => a / Float32.ofNat n, gt := fun a b => decide (a > b) }

def floatArith (symfrac : Float) : WArith Float :=
  { zero := 0.0, add := (· + ·), isCons := fun r tot => r > 0.0 && r / tot >= symfrac }

def cmpName : St → String
  | .ok => "ok" | .efail => "fail" | .fault => "fault" | s => stName s

def hashName : HashSt → String
  | .ok => "ok" | .edup => "edup" | .efail => "fail"

def clrField (m : Msa) (f : String) : Option Msa :=
  if f == "name" then some { m with name := none } else if f == "desc" then some { m with desc := none }
  else if f == "acc" then some { m with acc := none } else if f == "au" then some { m with au := none }
  else if f == "ss_cons" then some { m with ss_cons := none } else if f == "sa_cons" then some { m with sa_cons := none }
  else if f == "pp_cons" then some { m with pp_cons := none } else if f == "rf" then some { m with rf := none }
  else if f == "mm" then some { m with mm := none } else none

def sqLine (digital : Bool) (f : Fetched) : String :=
  let seqS := if digital then (if f.seq.isEmpty then "-" else hexOfBytes f.seq) else oStr (some f.seq)
  let l := "ok name=" ++ oStr (some f.name) ++ " acc=" ++ oStr (some f.acc) ++ " desc=" ++ oStr (some f.desc)
    ++ " src=" ++ oStr (some f.source) ++ s!" n={f.seq.length} L={f.seq.length} seq=" ++ seqS ++ " ss=" ++ oStr f.ss
  f.xr.foldl (fun acc t => acc ++ " xr=" ++ oStr (some t.1) ++ "," ++ oStr (some t.2)) l ++ " pad=ok"

def sqResLine (r : SqRes) : String := if r.exc then stName r.st ++ " exception" else stName r.st

def step (s : S) (line : String) : S × String :=
  let ws := words line
  let which : Option Msa := if arg? ws "w" == some "b" then s.b else s.a
  match ws with
  | "new" :: _ =>
    ({ s with a := some (Msa.create ((argNat? ws "nseq").getD 1) ((argNat? ws "alen").getD 0)) }, "ok")
  | "sq" :: _ =>
    match s.a, argNat? ws "i" with
    | some m, some i =>
      if i ≥ m.nseq then (s, "bad-op") else
      let m := match argStr? ws "name" with | some n => { m with sqname := m.sqname.set i n } | none => m
      let m := match argStr? ws "seq" with
        | some r => if r.length == m.alen then { m with rows := m.rows.set i r } else m
        | none => m
      let m := match arg? ws "wgt" with
        | some w => { m with wgt := m.wgt.set i (UInt64.ofNat ((w.toList.foldl (fun acc c => acc * 16 + (hexVal c).getD 0) 0))) }
        | none => m
      let m := { m with sqacc := setOpt m.sqacc i (argStr? ws "acc"), sqdesc := setOpt m.sqdesc i (argStr? ws "desc"),
                        ss := setOpt m.ss i (argStr? ws "ss"), sa := setOpt m.sa i (argStr? ws "sa"),
                        pp := setOpt m.pp i (argStr? ws "pp") }
      ({ s with a := some m }, "ok")
    | _, _ => (s, "bad-op")
  | "col" :: _ =>
    match s.a with
    | some m =>
      let m := { m with name := orElse' (argStr? ws "name") m.name, desc := orElse' (argStr? ws "desc") m.desc,
                        acc := orElse' (argStr? ws "acc") m.acc, au := orElse' (argStr? ws "au") m.au,
                        ss_cons := orElse' (argStr? ws "ss_cons") m.ss_cons, sa_cons := orElse' (argStr? ws "sa_cons") m.sa_cons,
                        pp_cons := orElse' (argStr? ws "pp_cons") m.pp_cons, rf := orElse' (argStr? ws "rf") m.rf,
                        mm := orElse' (argStr? ws "mm") m.mm,
                        flags := if (argNat? ws "haswgts").getD 0 != 0 then m.flags ||| flagHasWgts else m.flags }
      ({ s with a := some m }, "ok")
    | none => (s, "bad-op")
  | "setstr" :: _ | "fmtstr" :: _ =>
    let fld : Option StrField := match arg? ws "f" with
      | some "name" => some .name | some "desc" => some .desc | some "acc" => some .acc | some "au" => some .au
      | some "sqname" => some .sqname | some "sqacc" => some .sqacc | some "sqdesc" => some .sqdesc | _ => none
    match s.a, fld with
    | some m, some f =>
      let idx := (argInt? ws "i").getD 0
      let v := argStr? ws "v"
      if idx < 0 then (s, "bad-op") else
      if ws.head? == some "setstr" then
        let n := (argInt? ws "n").getD (-1)
        if n > (v.getD []).length then (s, "bad-op") else
        let r := setStr m f idx v n
        ({ s with a := some r.msa }, resLine r)
      else
        let r := formatStr m f idx (v.map fun b => fmtSD b ((argInt? ws "k").getD 0))
        ({ s with a := some r.msa }, resLine r)
    | _, _ => (s, "bad-op")
  | "cut" :: _ =>
    match s.a, argNat? ws "i", arg? ws "v" with
    | some m, some k, some v =>
      if k ≥ 6 then (s, "bad-op") else
      let bits := v.toList.foldl (fun acc c => acc * 16 + (hexVal c).getD 0) 0
      ({ s with a := some { m with cutoff := m.cutoff.set k (UInt32.ofNat bits), cutset := m.cutset.set k true } }, "ok")
    | _, _, _ => (s, "bad-op")
  | "comment" :: _ =>
    match s.a, argStr? ws "v" with
    | some m, some v => ({ s with a := some (addComment m v) }, "ok")
    | _, _ => (s, "bad-op")
  | "gf" :: _ =>
    match s.a, argStr? ws "tag", argStr? ws "v" with
    | some m, some t, some v => ({ s with a := some (addGF m t v) }, "ok")
    | _, _, _ => (s, "bad-op")
  | "gs" :: _ =>
    match s.a, argStr? ws "tag", argStr? ws "v", argNat? ws "i" with
    | some m, some t, some v, some i =>
      if i ≥ m.nseq then (s, "bad-op") else ({ s with a := some { m with gs := addGS m.nseq m.gs t i v } }, "ok")
    | _, _, _, _ => (s, "bad-op")
  | "gc" :: _ =>
    match s.a, argStr? ws "tag", argStr? ws "v" with
    | some m, some t, some v => ({ s with a := some { m with gc := appendGC m.gc t v } }, "ok")
    | _, _, _ => (s, "bad-op")
  | "gr" :: _ =>
    match s.a, argStr? ws "tag", argStr? ws "v", argNat? ws "i" with
    | some m, some t, some v, some i =>
      if i ≥ m.nseq then (s, "bad-op") else ({ s with a := some { m with gr := appendGR m.nseq m.gr t i v } }, "ok")
    | _, _, _, _ => (s, "bad-op")
  | "dump" :: _ =>
    match which with
    | some m => (s, dumpMsa m)
    | none => (s, "nomsa")
  | "validate" :: _ =>
    match which with
    | some m => (s, if validate m then "ok" else "fail")
    | none => (s, "nomsa")
  | "fetch" :: _ =>
    match which with
    | none => (s, "nomsa")
    | some m =>
      match (if ((argInt? ws "i").getD 0) < 0 then none else fetchFromMSA m ((argInt? ws "i").getD 0).toNat) with
      | none => (s, "eod")
      | some f =>
        let s := if (argNat? ws "keep").getD 0 != 0 then { s with q := some (sqOfFetch m f) } else s
        (s, sqLine m.isDigital f)
  | "sqdump" :: _ =>
    match s.q with
    | none => (s, "nosq")
    | some q => (s, sqLine q.abc.isSome q.f ++ s!" abc={abcName q.abc} start={q.start} end={q.stop}")
  | "sqdigitize" :: _ =>
    match s.q, (arg? ws "abc").bind abcOf with
    | some q, some a => let r := sqDigitize a q; ({ s with q := some r.sq }, sqResLine r)
    | _, _ => (s, "bad-op")
  | "sqtextize" :: _ =>
    match s.q with
    | some q => let r := sqTextize q; ({ s with q := some r.sq }, sqResLine r)
    | none => (s, "bad-op")
  | "sqrevcomp" :: _ =>
    match s.q with
    | some q => let r := sqReverseComplement q; ({ s with q := some r.sq }, sqResLine r)
    | none => (s, "bad-op")
  | "sqdegen2x" :: _ =>
    match s.q with
    | some q => let r := sqConvertDegen2X q; ({ s with q := some r.sq }, sqResLine r)
    | none => (s, "bad-op")
  | "swap" :: _ => if s.b.isNone then (s, "noswap") else ({ s with a := s.b, b := s.a }, "ok")
  | "sample" :: _ =>
    match (arg? ws "abc").bind abcOf, argNat? ws "seed", argNat? ws "maxn", argNat? ws "maxa" with
    | some a, some seed, some maxn, some maxa =>
      if seed == 0 || seed ≥ 4294967296 || maxn == 0 || maxa == 0 then (s, "bad-op") else
      match sampleMsa EaselModel.Random.Rng.next 100000 a maxn maxa (EaselModel.Random.Rng.create .mersenne (UInt32.ofNat seed)) with
      | .ok (m, _) => ({ s with a := some m }, "ok")
      | _ => (s, "nofuel")
    | _, _, _, _ => (s, "bad-op")
  | "grow" :: _ =>
    match argNat? ws "n", argNat? ws "k" with
    | some n, some k =>
      let acc := argInt? ws "acc" |>.getD (-1)
      let desc := argInt? ws "desc" |>.getD (-1)
      if n == 0 || n > 64 || k > 5 || acc ≥ n || desc ≥ n then (s, "bad-op") else
      let g := growInit n (min ((argNat? ws "named").getD 0) n) ((argNat? ws "opt").getD 0) acc.toNat desc.toNat
        (min ((argNat? ws "gs").getD 0) 8) (min ((argNat? ws "gr").getD 0) 8) (acc ≥ 0) (desc ≥ 0)
      (s, growLine (expandN k g))
    | _, _ => (s, "bad-op")
  | "expand" :: _ =>
    match s.a with
    | some _ => (s, "einval exception")      -- alen != -1: "that MSA is not growable"; nothing changes
    | none => (s, "bad-op")
  | "digitize" :: _ =>
    match s.a, (arg? ws "abc").bind abcOf with
    | some m, some a => let r := digitize a m; ({ s with a := some r.msa }, resLine r)
    | _, _ => (s, "bad-op")
  | "textize" :: _ =>
    match s.a with
    | some m => let r := textize m; ({ s with a := some r.msa }, resLine r)
    | none => (s, "bad-op")
  | "colsubset" :: _ =>
    match s.a, arg? ws "mask" with
    | some m, some mk =>
      let mask := maskFor ws mk m.alen
      if mask.length != m.alen then (s, "bad-op") else
      let r := columnSubset m mask; ({ s with a := some r.msa }, resLine r)
    | _, _ => (s, "bad-op")
  | "rbb" :: _ =>
    match s.a, arg? ws "mask" with
    | some m, some mk =>
      let mask := maskFor ws mk m.alen
      if mask.length != m.alen then (s, "bad-op") else
      let r := removeBrokenBasepairs m mask; ({ s with a := some r.msa }, resLine r)
    | _, _ => (s, "bad-op")
  | "minimgaps" :: _ =>
    match s.a, argStr? ws "gaps" with
    | some m, some g => let r := minimGaps m g ((argNat? ws "rf").getD 0 != 0); ({ s with a := some r.msa }, resLine r)
    | _, _ => (s, "bad-op")
  | "minimgapstext" :: _ =>
    match s.a, argStr? ws "gaps" with
    | some m, some g =>
      let r := minimGapsText m g ((argNat? ws "rf").getD 0 != 0) ((argNat? ws "fix").getD 0 != 0)
      ({ s with a := some r.msa }, resLine r)
    | _, _ => (s, "bad-op")
  | "nogaps" :: _ =>
    match s.a, argStr? ws "gaps" with
    | some m, some g => let r := noGaps m g; ({ s with a := some r.msa }, resLine r)
    | _, _ => (s, "bad-op")
  | "nogapstext" :: _ =>
    match s.a, argStr? ws "gaps" with
    | some m, some g => let r := noGapsText m g ((argNat? ws "fix").getD 0 != 0); ({ s with a := some r.msa }, resLine r)
    | _, _ => (s, "bad-op")
  | "seqsubset" :: _ =>
    match s.a, arg? ws "mask" with
    | some m, some mk =>
      let mask := maskFor ws mk m.nseq
      if mask.length != m.nseq then (s, "bad-op") else
      match sequenceSubset m mask with
      | .ok b => ({ s with b := some b }, "ok")
      | .error (st, exc) => ({ s with b := none }, resLine { msa := m, st := st, exc := exc })
    | _, _ => (s, "bad-op")
  | "clone" :: _ =>
    match s.a with
    | some m => ({ s with b := some (clone m) }, "ok")
    | none => (s, "bad-op")
  | "copy" :: _ =>
    match s.a with
    | some m => ({ s with b := some (clone m) }, "ok")
    | none => (s, "bad-op")
  | "revcomp" :: _ =>
    match s.a with
    | some m => let r := reverseComplement m; ({ s with a := some r.msa }, resLine r)
    | none => (s, "bad-op")
  | "flushleft" :: _ =>
    match s.a with
    | some m => if !m.isDigital then (s, "bad-op") else
      let r := flushLeftInsertsIP m; ({ s with a := some r.msa }, resLine r)
    | none => (s, "bad-op")
  | "markfrag" :: _ =>
    match s.a, arg? ws "t" with
    | some m, some t =>
      let bits := t.toList.foldl (fun acc c => acc * 16 + (hexVal c).getD 0) 0
      let fr := markFragments m (minspanOf bits m.alen)
      (s, "ok frag=" ++ String.ofList (fr.map fun b => if b then '1' else '0'))
    | _, _ => (s, "bad-op")
  | "markfragold" :: _ =>
    match s.a, arg? ws "t" with
    | some m, some t =>
      let bits := t.toList.foldl (fun acc c => acc * 16 + (hexVal c).getD 0) 0
      let thr := Float.ofBits (UInt64.ofNat bits)
      let m' := markFragmentsOld m (fun rlen => Float.ofNat rlen ≤ thr * Float.ofNat m.alen)
      ({ s with a := some m' }, "ok")
    | _, _ => (s, "bad-op")
  | "clr" :: _ =>
    match s.a, (arg? ws "f") with
    | some m, some f => (match clrField m f with | some m' => ({ s with a := some m' }, "ok") | none => (s, "bad-op"))
    | _, _ => (s, "bad-op")
  | "clrcut" :: _ =>
    match s.a, argNat? ws "i" with
    | some m, some k => if k ≥ 6 then (s, "bad-op") else ({ s with a := some { m with cutset := m.cutset.set k false } }, "ok")
    | _, _ => (s, "bad-op")
  | "compare" :: _ =>
    match s.a, s.b with
    | some a, some b => (s, cmpName (compare dcmpBits fcmpBits a b) ++ " repinv=ok")
    | _, _ => (s, "bad-op")
  | "cmpmand" :: _ =>
    match s.a, s.b with
    | some a, some b => (s, cmpName (compareMandatory dcmpBits a b) ++ " repinv=ok")
    | _, _ => (s, "bad-op")
  | "cmpopt" :: _ =>
    match s.a, s.b with
    | some a, some b => if a.nseq != b.nseq then (s, "bad-op") else (s, cmpName (compareOptional fcmpBits a b) ++ " repinv=ok")
    | _, _ => (s, "bad-op")
  | "checksum" :: _ =>
    match which with
    | some m => (s, "ok sum=" ++ hexN 8 (checksum m).toNat)
    | none => (s, "nomsa")
  | "hash" :: _ =>
    match which with
    | some m => (s, hashName (hashNames m))
    | none => (s, "nomsa")
  | "uniq" :: _ =>
    match which with
    | some m => (s, hashName (checkUniqueNames m))
    | none => (s, "nomsa")
  | "degen2x" :: _ =>
    match s.a with
    | some m => let r := convertDegen2X m; ({ s with a := some r.msa }, resLine r)
    | none => (s, "bad-op")
  | "symconvert" :: _ =>
    match s.a, argStr? ws "old", argStr? ws "new" with
    | some m, some o, some n => let r := symConvert m o n; ({ s with a := some r.msa }, resLine r)
    | _, _, _ => (s, "bad-op")
  | "defwgts" :: _ =>
    match s.a with
    | some m => ({ s with a := some (setDefaultWeights m) }, "ok")
    | none => (s, "bad-op")
  | "reasonablerf" :: _ =>
    match s.a, arg? ws "symfrac" with
    | some m, some t =>
      let bits := t.toList.foldl (fun acc c => acc * 16 + (hexVal c).getD 0) 0
      if (argNat? ws "cons").getD 0 == 1 then
        -- `abc=`: a caller-supplied alphabet hung on a TEXT alignment for the duration of the call
        let abc := if m.isDigital then m.abc else (match arg? ws "abc" with | some nm => abcOf nm | none => none)
        match reasonableRFConsX (floatArith (Float.ofBits (UInt64.ofNat bits))) f32Arith m abc (m.wgt.map Float.ofBits) with
        | .ok rf => (s, "ok ss=" ++ oStr (some rf))
        | .einval => (s, "einval exception")
        | .fault => (s, "fault")
      else
      match reasonableRF (floatArith (Float.ofBits (UInt64.ofNat bits))) m (m.wgt.map Float.ofBits) with
      | some rf => (s, "ok ss=" ++ oStr (some rf))
      | none => (s, "fault")
    | _, _ => (s, "bad-op")
  | "wuss2ct" :: _ =>
    match argStr? ws "ss" with
    | some ss => (s, match wuss2ct ss with | some ct => "ok ct=" ++ ctLine ct | none => "esyntax")
    | none => (s, "bad-op")
  | "ct2wuss" :: _ =>
    match arg? ws "ct" with
    | some c => (s, exceptSs (ct2wuss (parseCt c)))
    | none => (s, "bad-op")
  | "ct2simple" :: _ =>
    match arg? ws "ct" with
    | some c => (s, exceptSs (ct2simplewuss (parseCt c)))
    | none => (s, "bad-op")
  | "roundtrip" :: _ =>
    match argStr? ws "ss" with
    | some ss =>
      match wuss2ct ss with
      | none => (s, "esyntax")
      | some ct =>
        let l := "ok ct=" ++ ctLine ct
        match ct2wuss ct with
        | .error .fault => (s, "fault")
        | .error e => (s, l ++ " " ++ werrName e)
        | .ok s2 =>
          let l := l ++ " ok ss=" ++ oStr (some s2)
          match wuss2ct s2 with
          | none => (s, l ++ " esyntax")
          | some ct2 => (s, l ++ " ok ct=" ++ ctLine ct2)
    | none => (s, "bad-op")
  | "wuss2kh" :: _ =>
    match argStr? ws "ss" with | some ss => (s, "ok ss=" ++ oStr (some (wuss2kh ss))) | none => (s, "bad-op")
  | "kh2wuss" :: _ =>
    match argStr? ws "ss" with | some ss => (s, "ok ss=" ++ oStr (some (kh2wuss ss))) | none => (s, "bad-op")
  | "nopseudo" :: _ =>
    match argStr? ws "ss" with | some ss => (s, "ok ss=" ++ oStr (some (wussNopseudo ss))) | none => (s, "bad-op")
  | "wussrev" :: _ =>
    match argStr? ws "ss" with | some ss => (s, "ok ss=" ++ oStr (some (wussReverse ss))) | none => (s, "bad-op")
  | "wussfull" :: _ =>
    match argStr? ws "ss" with | some ss => (s, exceptSs (wussFull ss)) | none => (s, "bad-op")
  | "rbbss" :: _ =>
    match argStr? ws "ss", arg? ws "mask" with
    | some ss, some mk =>
      let mask := parseMask mk
      if mask.length != ss.length then (s, "bad-op") else
      match removeBrokenFromSS ss mask with
      | .ok s2 => (s, "ok ss=" ++ oStr (some s2))
      | .error .fault => (s, "fault")
      | .error e => (s, werrName e ++ " ss=" ++ oStr (some (ssAfterError e ss)))
    | _, _ => (s, "bad-op")
  | _ => (s, "bad-op")

def main : IO Unit := runDriver ({} : S) step
