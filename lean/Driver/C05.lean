import EaselModel.Core.Proto
import EaselModel.Buffer.Model
/-! Line-protocol driver for the C05 model (esl_buffer.c).

  open mode=<string|stream|pipe|file|allfile|mmap> ps=<pagesize> hex=<input bytes>
  getline | fetchline | fetchlinestr | gettoken sep=<hex> | fetchtoken sep=<hex> | fetchtokenstr sep=<hex>
  read k=<n> | get | set k=<nused> | getoffset | setoffset o=<n> | setanchor o=<n> | setstable o=<n> | raise o=<n>

  answer: `<status> <hex bytes> n=<count> off=<offset after the op>[ z=1][ moved=1]` -/
open EaselModel.Proto EaselModel.Buffer

def stName : St → String
  | .ok => "ok" | .eof => "eof" | .eol => "eol" | .einval => "einval"
  | .einconceivable => "einconceivable" | .fault => "fault"

def parseMode (s : String) : Option Mode :=
  if s == "string" then some .string else if s == "stream" then some .stream
  else if s == "pipe" then some .cmdpipe else if s == "file" then some .file
  else if s == "allfile" then some .allfile else if s == "mmap" then some .mmap else none

def parseOp (ws : List String) : Option Op :=
  match ws.head? with
  | some "getline" => some .getLine
  | some "fetchline" => some .fetchLine
  | some "fetchlinestr" => some .fetchLineStr
  | some "gettoken" => (argHex? ws "sep").map .getToken
  | some "fetchtoken" => (argHex? ws "sep").map .fetchToken
  | some "fetchtokenstr" => (argHex? ws "sep").map .fetchTokenStr
  | some "read" => (argNat? ws "k").map .read
  | some "get" => some .get
  | some "set" => (argNat? ws "k").map .set
  | some "getoffset" => some .getOffset
  | some "setoffset" => (argNat? ws "o").map .setOffset
  | some "setanchor" => (argNat? ws "o").map .setAnchor
  | some "setstable" => (argNat? ws "o").map .setStableAnchor
  | some "raise" => (argNat? ws "o").map .raiseAnchor
  | _ => none

def fmt (o : Out) (s : Sess) : String :=
  if o.st == .fault then "fault" else
  stName o.st ++ " " ++ hexOrDash o.bytes ++ " n=" ++ toString o.n ++ " off=" ++ toString s.b.offset
    ++ (if o.z then " z=1" else "") ++ (if s.moved then " moved=1" else "")

def stepLine (st : Option Sess) (line : String) : Option Sess × String :=
  let ws := words line
  if ws.head? == some "open" then
    match (arg? ws "mode").bind parseMode, argNat? ws "ps", argHex? ws "hex" with
    | some m, some ps, some src =>
      let s : Sess := { b := openBuf m ps src }
      (some s, fmt { st := .ok } s)
    | _, _, _ => (st, "bad-op")
  else
    match st, parseOp ws with
    | some s, some op =>
      let (o, s') := s.step op
      (some s', fmt o s')
    | _, _ => (st, "bad-op")

def main : IO Unit := runDriver (none : Option Sess) stepLine
