import EaselModel.Core.Proto
import EaselModel.Buffer.Model
import EaselModel.Buffer.SpecHist
import EaselModel.Buffer.Safe
import EaselModel.Buffer.MemSpecStep
import EaselModel.Buffer.MemDriver  -- round4-mem
import EaselModel.Buffer.OpenDriver -- round4-open
/-! Line-protocol driver for the C05 model (esl_buffer.c).

  open mode=<string|stream|pipe|file|allfile|mmap|auto|open> ps=<pagesize> hex=<input bytes>
  getline | fetchline | fetchlinestr | gettoken sep=<hex> | fetchtoken sep=<hex> | fetchtokenstr sep=<hex>
  read k=<n> | get | set k=<nused> | getoffset | setoffset o=<n> | setanchor o=<n> | setstable o=<n> | raise o=<n>
  tryset k= | trysetoffset o= | trysetanchor o= | trysetstable o=   (histories OUTSIDE the API contract: the op is executed
      only if it respects the caller duty `CallerOk` (only `tryset` can fail it: Set beyond the exposed bytes) in the current state of this side — the harness evaluates the same
      predicate on the real ESL_BUFFER —, otherwise the answer is `unsafe` and nothing happens; from the first try-op on
      the `spec=`/`valid=` side channel is dropped: outside the contract the specification is `Total`, not `specStep`)

  answer: `<status> <hex bytes> n=<count> off=<offset after the op>[ z=1][ moved=1] spec=<status>,<hex>,<off> valid=<0|1>`
  (after the first try-op, on a whole-input buffer: ` mspec=<status>,<hex>,<off>` = the observation `memStep` prescribes)
  where `spec=` is the observation `specStep` prescribes and `valid=` says whether the op is inside the API contract
  `Valid ps` in the specification state reached so far (both are about the specification, not the model). -/
open EaselModel.Proto EaselModel.Buffer

def stName : St → String
  | .ok => "ok" | .eof => "eof" | .eol => "eol" | .einval => "einval"
  | .einconceivable => "einconceivable" | .fault => "fault"

def parseMode (s : String) : Option Mode :=
  if s == "string" || s == "cstring" then some .string else if s == "stream" then some .stream
  else if s == "pipe" || s == "pipe0" then some .cmdpipe else if s == "file" then some .file
  else if s == "allfile" then some .allfile else if s == "mmap" then some .mmap
  -- natural paths of esl_buffer_OpenFile / esl_buffer_Open on a file of at most eslBUFFER_SLURPSIZE bytes: slurped
  else if s == "auto" || s == "open" then some .allfile else none

def parseOp (ws : List String) : Option Op :=
  match ws.head? with
  -- the same calls with NULL for the optional results
  | some "getline0" => some .getLine
  | some "fetchline0" => some .fetchLine
  | some "fetchlinestr0" => some .fetchLineStr
  | some "gettoken0" => (argHex? ws "sep").map .getToken
  | some "fetchtoken0" => (argHex? ws "sep").map .fetchToken
  | some "fetchtokenstr0" => (argHex? ws "sep").map .fetchTokenStr
  | some "getline" => some .getLine
  | some "fetchline" => some .fetchLine
  | some "fetchlinestr" => some .fetchLineStr
  | some "gettoken" => (argHex? ws "sep").map .getToken
  | some "fetchtoken" => (argHex? ws "sep").map .fetchToken
  | some "fetchtokenstr" => (argHex? ws "sep").map .fetchTokenStr
  | some "read" => (argNat? ws "k").map .read
  | some "get" => some .get
  | some "set" => (argNat? ws "k").map .set
  | some "getoffset" => some .getOffset
  | some "setoffset" => (argNat? ws "o").map .setOffset
  | some "setanchor" => (argNat? ws "o").map .setAnchor
  | some "setstable" => (argNat? ws "o").map .setStableAnchor
  | some "raise" => (argNat? ws "o").map .raiseAnchor
  | some "tryset" => (argNat? ws "k").map .set
  | some "trysetoffset" => (argNat? ws "o").map .setOffset
  | some "trysetanchor" => (argNat? ws "o").map .setAnchor
  | some "trysetstable" => (argNat? ws "o").map .setStableAnchor
  | _ => none

def fmt (o : Out) (s : Sess) : String :=
  if o.st == .fault then "fault" else
  stName o.st ++ " " ++ hexOrDash o.bytes ++ " n=" ++ toString o.n ++ " off=" ++ toString s.b.offset
    ++ " a=" ++ (match s.b.hasfp, s.b.anchor with
        | true, some a => toString (s.b.base + a) ++ "/" ++ toString s.b.nanchor
        | _, _ => "-")
    ++ (if o.z then " z=1" else "") ++ (if s.moved then " moved=1" else "")

structure DState where
  s : Sess
  a : AState
  P : Nat
  wild : Bool := false

def stepLine (st : Option DState) (line : String) : Option DState × String :=
  let ws := words line
  match EaselModel.Buffer.Mem.memLine ws with   -- round4-mem
  | some ans => (st, ans)                       -- round4-mem
  | none =>
  if ws.head? == some "open" then
    match (arg? ws "mode").bind parseMode, argNat? ws "ps", argHex? ws "hex" with
    | some m, some ps0, some unit =>
      -- ps=0: no override, the library's default page size; rep=k: the input is the hex unit repeated k times
      let ps := if ps0 = 0 then 4096 else ps0
      let src := match argNat? ws "rep" with
        | some k => (List.replicate k unit).flatten
        | none => unit
      let s : Sess := { b := openBuf m ps src }
      -- wild=1: a history outside the API contract from the start (no `spec=`/`valid=` side channel; `mspec=` on whole-input buffers)
      (some { s := s, a := AState.init src, P := if ps0 = 0 then 512 else ps0, wild := (argNat? ws "wild") == some 1 }, fmt { st := .ok } s)
    | _, _, _ => (st, "bad-op")
  else if ws.head? == some "fsopen" then -- round4-open
    match EaselModel.Buffer.OpenDriver.openLine ws with -- round4-open
    | some (ans, some (b, src, P)) => (some { s := { b := b }, a := AState.init src, P := P }, ans) -- round4-open
    | some (ans, none) => (none, ans) -- round4-open
    | none => (st, "bad-op") -- round4-open
  else if ws.head? == some "window" then
    -- where the window stands (compared exactly: ties the shift/release policy of buffer_refill, e.g. that RaiseAnchor clears bf->stable)
    match st with
    | some d => (st, "ok base=" ++ toString d.s.b.base ++ " n=" ++ toString d.s.b.n)
    | none => (st, "bad-op")
  else if ws.head? == some "checkstable" then
    -- harness-side probe (reads through the pointers handed out under the stable anchor); nothing to do on the model
    (st, "ok")
  else if ws.head? == some "openfail" then
    -- documented failures of the openers (constant answers; see h_buffer.c)
    match arg? ws "kind" with
    | some "file" | some "open" | some "pipe" | some "dir" | some "opendir" => (st, "enotfound bf=1 msg=1 unset=1")
    | some "cmd" => (st, "fail bf=1 msg=1 unset=1")
    | _ => (st, "bad-op")
  else
    match st, parseOp ws with
    | some d, some op =>
      let isTry := (ws.head?.getD "").startsWith "try"
      if isTry && !callerOkB d.s op then
        (some { d with s := { d.s with lastp := none }, a := { d.a with lastp := none }, wild := true }, "unsafe")
      else
      let d := if isTry then { d with wild := true } else d
      let (o0, s0) := d.s.step op
      -- with NULL result pointers nothing is handed out
      let null := (ws.head?.getD "").endsWith "0"
      let (o, s') := if null then (({ st := o0.st } : Out), { s0 with lastp := none }) else (o0, s0)
      let v := validB d.P d.a op
      let (so, a') := specStep d.a op
      let a' := if null then { a' with lastp := none } else a'
      if d.wild && !d.s.b.hasfp then
        -- outside the contract on a whole-input buffer the specification is the total function `memStep` (theorem history_memory_exact)
        let (mo, ma) := memStep d.a op
        let ma := if null then { ma with lastp := none } else ma
        (some { d with s := s', a := ma },
         fmt o s' ++ " mspec=" ++ stName mo.st ++ "," ++ hexOrDash (if null then [] else mo.bytes) ++ "," ++ toString mo.off)
      else
      if d.wild then (some { d with s := s', a := a' }, fmt o s') else
      (some { d with s := s', a := a' },
       fmt o s' ++ " spec=" ++ stName so.st ++ "," ++ hexOrDash (if null then [] else so.bytes) ++ "," ++ toString so.off
         ++ " valid=" ++ (if v then "1" else "0"))
    | _, _ => (st, "bad-op")

def main : IO Unit := runDriver (none : Option DState) stepLine
