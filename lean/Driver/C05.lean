import EaselModel.Core.Proto
import EaselModel.Buffer.Model
import EaselModel.Buffer.SpecHist
/-! Line-protocol driver for the C05 model (esl_buffer.c).

  open mode=<string|stream|pipe|file|allfile|mmap|auto|open> ps=<pagesize> hex=<input bytes>
  getline | fetchline | fetchlinestr | gettoken sep=<hex> | fetchtoken sep=<hex> | fetchtokenstr sep=<hex>
  read k=<n> | get | set k=<nused> | getoffset | setoffset o=<n> | setanchor o=<n> | setstable o=<n> | raise o=<n>

  answer: `<status> <hex bytes> n=<count> off=<offset after the op>[ z=1][ moved=1] spec=<status>,<hex>,<off> valid=<0|1>`
  where `spec=` is the observation `specStep` prescribes and `valid=` says whether the op is inside the API contract
  `Valid ps` in the specification state reached so far (both are about the specification, not the model). -/
open EaselModel.Proto EaselModel.Buffer

def stName : St → String
  | .ok => "ok" | .eof => "eof" | .eol => "eol" | .einval => "einval"
  | .einconceivable => "einconceivable" | .fault => "fault"

def parseMode (s : String) : Option Mode :=
  if s == "string" then some .string else if s == "stream" then some .stream
  else if s == "pipe" then some .cmdpipe else if s == "file" then some .file
  else if s == "allfile" then some .allfile else if s == "mmap" then some .mmap
  -- natural paths of esl_buffer_OpenFile / esl_buffer_Open on a file of at most eslBUFFER_SLURPSIZE bytes: slurped
  else if s == "auto" || s == "open" then some .allfile else none

def parseOp (ws : List String) : Option Op :=
  match ws.head? with
  | some "getline" => some .getLine
  | some "fetchline" => some .fetchLine
  | some "fetchlinestr" => some .fetchLineStr
  | some "gettoken" => (argHex? ws "sep").map .getToken
  | some "fetchtoken" => (argHex? ws "sep").map .fetchToken
  | some "fetchtokenstr" => (argHex? ws "sep").map .fetchTokenStr
  | some "read" => (argNat? ws "k").map .read
  | some "get" => some .get
  | some "set" => (argNat? ws "k").map .set
  | some "getoffset" => some .getOffset
  | some "setoffset" => (argNat? ws "o").map .setOffset
  | some "setanchor" => (argNat? ws "o").map .setAnchor
  | some "setstable" => (argNat? ws "o").map .setStableAnchor
  | some "raise" => (argNat? ws "o").map .raiseAnchor
  | _ => none

def fmt (o : Out) (s : Sess) : String :=
  if o.st == .fault then "fault" else
  stName o.st ++ " " ++ hexOrDash o.bytes ++ " n=" ++ toString o.n ++ " off=" ++ toString s.b.offset
    ++ (if o.z then " z=1" else "") ++ (if s.moved then " moved=1" else "")

structure DState where
  s : Sess
  a : AState
  P : Nat

def stepLine (st : Option DState) (line : String) : Option DState × String :=
  let ws := words line
  if ws.head? == some "open" then
    match (arg? ws "mode").bind parseMode, argNat? ws "ps", argHex? ws "hex" with
    | some m, some ps, some src =>
      let s : Sess := { b := openBuf m ps src }
      (some { s := s, a := AState.init src, P := ps }, fmt { st := .ok } s)
    | _, _, _ => (st, "bad-op")
  else
    match st, parseOp ws with
    | some d, some op =>
      let (o, s') := d.s.step op
      let v := validB d.P d.a op
      let (so, a') := specStep d.a op
      (some { d with s := s', a := a' },
       fmt o s' ++ " spec=" ++ stName so.st ++ "," ++ hexOrDash so.bytes ++ "," ++ toString so.off
         ++ " valid=" ++ (if v then "1" else "0"))
    | _, _ => (st, "bad-op")

def main : IO Unit := runDriver (none : Option DState) stepLine
