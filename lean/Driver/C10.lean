import EaselModel.Core.Proto
import EaselModel.Random.Model
import EaselModel.Dist.FloatInst
import EaselModel.Generated.Dist
import EaselModel.Dist.Mix
import EaselModel.Dist.Bisect
import EaselModel.Dist.BisectCarrier
/-! Line-protocol driver for the C10 model: runs the TRANSLATED functions at `Float` — since round 3 including the
    mixtures (`esl_hxp_*`, `esl_mixgev_*`, `esl_vec_DLogSum/DMax/DMin`), the four bracketing + bisection inverses (fuel
    `Bisect.defaultFuel` per loop; `hang` = exhausted) and the generic-API wrappers.  Hand-modelled remain: the special
    functions (`Dist/Special.lean`, `erfcSun`) and the component choice of the mixture samplers (`Mix.dchoose`); `esl_gam_Sample`
    is translated since round 6 (stream of variates as `Nat → Float`).
    `f fn=<name> a=<bits>,<bits>,…`            → `ok <bits> b=<n>` (`b` = which `return` of the translated function was reached)
    `f2 fn=<g>,<f> a=<x>,<params…>`             → `ok <bits of g(f(x,params),params)>`
    `sample fn=<name> seed=<n> k=<draws> a=…`  → `ok <bits>,…` (k successive samples from a fresh MT19937 generator)
    `vec fn=<DMax|DMin|DLogSum> v=<bits>,…`     → `ok <bits>` (the translated `esl_vec_D*` on `v`, `n = |v|`)
    `bracketlim mu=<bits> q=<bits>`             → `ok <k>,<x2>,<absorb>,<r>`: `BisectCarrier.reachInf`, the point reached, carrier
                                                   fact (A) there, and `esl_hxp_invcdf 1.0 {mu, q, λ=1}` — all at `Float` -/
open EaselModel EaselModel.Proto EaselModel.Random EaselModel.Dist

def hex64 (x : UInt64) : String :=
  let s := (Nat.toDigits 16 x.toNat)
  String.ofList (List.replicate (16 - s.length) '0' ++ s)

def parseBits (w : String) : Option Float :=
  (w.toList.foldl (fun acc c => acc.bind fun a => (hexVal c).map fun d => a * 16 + d) (some 0)).map
    fun n => Float.ofBits (UInt64.ofNat n)

def parseBitsList (s : String) : Option (List Float) :=
  if s == "-" then some [] else (s.splitOn ",").mapM parseBits

def fuel : Nat := 1000000

def sampleLoop (name : String) (args : List Float) : Nat → Rng → List String → Option (List String)
  | 0, _, acc => some acc.reverse
  | k+1, r, acc =>
    match r.uniformPositive fuel with
    | none => none
    | some (x, r') =>
      match Gen.dispatch name ((Float.ofNat x / 4294967296.0) :: args) with
      | none => none
      | some v => sampleLoop name args k r' (hex64 v.toBits :: acc)

def uniLoop : Nat → Rng → List String → Option (List String)
  | 0, _, acc => some acc.reverse
  | k+1, r, acc =>
    match r.uniformPositive fuel with
    | none => none
    | some (x, r') => uniLoop k r' (hex64 (Float.ofNat x / 4294967296.0).toBits :: acc)

def argBits? (ws : List String) (k : String) : Option Float := (arg? ws k).bind parseBits
def argList? (ws : List String) (k : String) : Option (List Float) := (arg? ws k).bind parseBitsList

/-- the parameter structure of a mixture op (`wrk` = the K-vector `esl_hyperexp_Create` / `esl_mixgev_Create` allocate) -/
def hxpOf (ws : List String) : Option (Gen.ESL_HYPEREXP Float) :=
  match argBits? ws "mu", argList? ws "q", argList? ws "l" with
  | some mu, some q, some l =>
    if q.length != l.length || q.isEmpty then none else
    some { mu := mu, K := q.length, q := q, lambda := l, wrk := List.replicate q.length 0.0 }
  | _, _, _ => none

def mixgevOf (ws : List String) : Option (Gen.ESL_MIXGEV Float) :=
  match argList? ws "q", argList? ws "mu", argList? ws "l", argList? ws "al" with
  | some q, some mu, some l, some al =>
    if q.length != l.length || q.length != mu.length || q.length != al.length || q.isEmpty then none else
    some { K := q.length, q := q, mu := mu, lambda := l, alpha := al, wrk := List.replicate q.length 0.0 }
  | _, _, _, _ => none

/-- the TRANSLATED `esl_hxp_*` / `esl_mixgev_*` (and their generic-API wrappers), by name;
    outer `none` = ill-formed op, inner `none` = fuel exhausted -/
def mixEval (ws : List String) (fn : String) (x : Float) : Option (Option Float) :=
  let fuel := Bisect.defaultFuel
  match arg? ws "fam" with
  | some "hxp" =>
    (hxpOf ws).bind fun h =>
      match fn with
      | "pdf" => some (some (Gen.esl_hxp_pdf x h)) | "logpdf" => some (some (Gen.esl_hxp_logpdf x h))
      | "cdf" => some (some (Gen.esl_hxp_cdf x h)) | "logcdf" => some (some (Gen.esl_hxp_logcdf x h))
      | "surv" => some (some (Gen.esl_hxp_surv x h)) | "logsurv" => some (some (Gen.esl_hxp_logsurv x h))
      | "invcdf" => some (Gen.esl_hxp_invcdf fuel x h)
      | "generic_pdf" => some (some (Gen.esl_hxp_generic_pdf x h)) | "generic_cdf" => some (some (Gen.esl_hxp_generic_cdf x h))
      | "generic_surv" => some (some (Gen.esl_hxp_generic_surv x h)) | "generic_invcdf" => some (Gen.esl_hxp_generic_invcdf fuel x h)
      | _ => none
  | some "mixgev" =>
    (mixgevOf ws).bind fun mg =>
      match fn with
      | "pdf" => some (some (Gen.esl_mixgev_pdf x mg)) | "logpdf" => some (some (Gen.esl_mixgev_logpdf x mg))
      | "cdf" => some (some (Gen.esl_mixgev_cdf x mg)) | "logcdf" => some (some (Gen.esl_mixgev_logcdf x mg))
      | "surv" => some (some (Gen.esl_mixgev_surv x mg)) | "logsurv" => some (some (Gen.esl_mixgev_logsurv x mg))
      | "invcdf" => some (Gen.esl_mixgev_invcdf fuel x mg)
      | "generic_pdf" => some (some (Gen.esl_mixgev_generic_pdf x mg)) | "generic_cdf" => some (some (Gen.esl_mixgev_generic_cdf x mg))
      | "generic_surv" => some (some (Gen.esl_mixgev_generic_surv x mg)) | "generic_invcdf" => some (Gen.esl_mixgev_generic_invcdf fuel x mg)
      | _ => none
  | _ => none

/-- `esl_hxp_Sample` / `esl_mixgev_Sample` on the real generator: `k = DChoose(r, q)` (hand model `Mix.dchoose`), the
    positive uniform deviate `u`, then the TRANSLATED `esl_hxp_Sample u h k` / `esl_mixgev_Sample u g k` -/
def mixSampleLoop (ws : List String) : Nat → Rng → List String → Option (List String)
  | 0, _, acc => some acc.reverse
  | n+1, r, acc =>
    let (x0, r1) := r.randomNum
    let roll := Float.ofNat x0 / 4294967296.0
    match argList? ws "q" with
    | none => none
    | some q =>
      match Mix.dchoose roll q, r1.uniformPositive fuel with
      | some k, some (xu, r2) =>
        let u := Float.ofNat xu / 4294967296.0
        let v : Option Float :=
          match arg? ws "fam" with
          | some "hxp" =>
            (hxpOf ws).bind fun h => if k < h.K then some (Gen.esl_hxp_Sample u h k) else none
          | some "mixgev" =>
            (mixgevOf ws).bind fun g => if k < g.K then some (Gen.esl_mixgev_Sample u g k) else none
          | _ => none
        match v with
        | some v => mixSampleLoop ws n r2 (hex64 v.toBits :: acc)
        | none => none
      | _, _ => none

def step (s : Unit) (line : String) : Unit × String :=
  let ws := words line
  match ws with
  | "f" :: _ =>
    match arg? ws "fn", (arg? ws "a").bind parseBitsList with
    | some fn, some a =>
      match fn, a with
      | "esl_stats_erfc", [x] => (s, s!"ok {hex64 (Num.erfc x).toBits}")
      | "esl_stats_LogGamma", [x] => (s, s!"ok {hex64 (Num.logGamma x).toBits}")
      | "esl_stats_IncGammaP", [a, x] => (s, s!"ok {hex64 (Num.incGammaP a x).toBits}")
      | "esl_stats_IncGammaQ", [a, x] => (s, s!"ok {hex64 (Num.incGammaQ a x).toBits}")
      | _, _ =>
      match Gen.dispatch fn a with
      | some v =>
        -- ` b=<n>`: the number of the `return` reached (branch monitor twin generated with the function; the plug-in strips
        -- it before comparing and accounts the L0 monitors' coverage per branch)
        match Gen.dispatchLeaf fn a with
        | some b => (s, s!"ok {hex64 v.toBits} b={b}")
        | none => (s, s!"ok {hex64 v.toBits}")
      | none =>
        -- loop-containing functions (fuel) and the generic-API wrappers over a parameter vector, all TRANSLATED
        match Gen.dispatchP Bisect.defaultFuel fn a with
        | some (some v) => (s, s!"ok {hex64 v.toBits}")
        | some none => (s, "hang")
        | none => (s, "unmodelled")
    | _, _ => (s, "bad-op")
  | "f2" :: _ =>
    match (arg? ws "fn").map (·.splitOn ","), (arg? ws "a").bind parseBitsList with
    | some [g, f], some (x :: ps) =>
      match (Gen.dispatch f (x :: ps)).bind fun r => Gen.dispatch g (r :: ps) with
      | some v => (s, s!"ok {hex64 v.toBits}")
      | none => (s, "unmodelled")
    | _, _ => (s, "bad-op")
  | "unipos" :: _ =>
    match argNat? ws "seed", argNat? ws "k" with
    | some sd, some k =>
      if sd = 0 then (s, "bad-op") else
      match uniLoop k (Rng.create .mersenne (UInt32.ofNat sd)) [] with
      | some vs => (s, "ok " ++ ",".intercalate vs)
      | none => (s, "bad-op")
    | _, _ => (s, "bad-op")
  | "sample" :: _ =>
    match arg? ws "fn", (arg? ws "a").bind parseBitsList, argNat? ws "seed", argNat? ws "k" with
    | some fn, some a, some sd, some k =>
      if fn == "esl_sxp_Sample" || fn == "esl_gam_Sample" || fn == "esl_lognormal_Sample" then (s, "unmodelled") else
      if sd = 0 then (s, "bad-op") else
      match sampleLoop fn a k (Rng.create .mersenne (UInt32.ofNat sd)) [] with
      | some vs => (s, "ok " ++ ",".intercalate vs)
      | none => (s, "bad-op")
    | _, _, _, _ => (s, "bad-op")
  | "mix" :: _ =>
    match arg? ws "fn", argBits? ws "x" with
    | some fn, some x =>
      match mixEval ws fn x with
      | some (some v) => (s, s!"ok {hex64 v.toBits}")
      | some none => (s, "hang")
      | none => (s, "bad-op")
    | _, _ => (s, "bad-op")
  | "sampleof" :: _ =>
    -- the TRANSLATED sampler applied to the primitive variate `u` (uniform / Gamma / Gaussian) the generator yields
    match arg? ws "fn", argBits? ws "u", (arg? ws "a").bind parseBitsList with
    | some fn, some u, some a =>
      if fn == "esl_gam_Sample" then (s, "bad-op") else
      match Gen.dispatch fn (u :: a) with
      | some v =>
        -- followed by the arguments the translated sampler hands to its primitive draw (e.g. the shape `1/tau` of the Gamma variate)
        let extra := match Gen.dispatchDraw fn a with
          | some l => String.join (l.map fun (d : Float) => "," ++ hex64 d.toBits)
          | none => ""
        (s, s!"ok {hex64 v.toBits}{extra}")
      | none => (s, "unmodelled")
    | _, _, _ => (s, "bad-op")
  | "mixsampleof" :: _ =>
    match argNat? ws "k", argBits? ws "u" with
    | some k, some u =>
      match arg? ws "fam" with
      | some "hxp" => match hxpOf ws with
        | some h => if k < h.K then (s, s!"ok {hex64 (Gen.esl_hxp_Sample u h k).toBits}") else (s, "bad-op")
        | none => (s, "bad-op")
      | some "mixgev" => match mixgevOf ws with
        | some g => if k < g.K then (s, s!"ok {hex64 (Gen.esl_mixgev_Sample u g k).toBits}") else (s, "bad-op")
        | none => (s, "bad-op")
      | _ => (s, "bad-op")
    | _, _ => (s, "bad-op")
  | "gamsample" :: _ =>
    match argList? ws "t", (arg? ws "a").bind parseBitsList with
    | some ts, some [mu, lambda, tau] =>
      -- round 6: the TRANSLATED `esl_gam_Sample` on the stream `ts` (fuel = its length: `none` = the C loop would draw again);
      -- second value: the argument the translated function hands to `esl_rnd_Gamma(r, ·)`
      match Gen.esl_gam_Sample ts.length (fun i => ts.getD i 0.0) mu lambda tau, Gen.esl_gam_Sample_draw mu lambda tau with
      | some v, [shape] => (s, s!"ok {hex64 v.toBits},{hex64 shape.toBits}")
      | none, _ => (s, "hang")
      | _, _ => (s, "bad-op")
    | _, _ => (s, "bad-op")
  | "bracketlim" :: _ =>
    -- the carrier facts (R), (A) of `BisectCarrier.invcdfRightLim_above_sup` evaluated at binary64, and its conclusion
    match argBits? ws "mu", argBits? ws "q" with
    | some mu, some q =>
      let fl := Bisect.defaultFuel
      match BisectCarrier.reachInf mu (fl + 1) (mu + 1.0) with
      | none => (s, "hang")
      | some k =>
        let x2 := BisectCarrier.tripled mu (k + 1) (mu + 1.0)
        let absorb : Float := if x2 ≤ (mu + x2) / 2.0 then 1.0 else 0.0
        let h : Gen.ESL_HYPEREXP Float := { mu := mu, K := 1, q := [q], lambda := [1.0], wrk := [0.0] }
        match Gen.esl_hxp_invcdf (fl + 1) 1.0 h with
        | none => (s, "hang")
        | some r => (s, s!"ok {hex64 (Float.ofNat k).toBits},{hex64 x2.toBits},{hex64 absorb.toBits},{hex64 r.toBits}")
    | _, _ => (s, "bad-op")
  | "vec" :: _ =>
    match arg? ws "fn", argList? ws "v" with
    | some fn, some v =>
      if v.isEmpty then (s, "bad-op") else
      match fn with
      | "DMax" => (s, s!"ok {hex64 (Gen.esl_vec_DMax v v.length).toBits}")
      | "DMin" => (s, s!"ok {hex64 (Gen.esl_vec_DMin v v.length).toBits}")
      | "DLogSum" => (s, s!"ok {hex64 (Gen.esl_vec_DLogSum v v.length).toBits}")
      | _ => (s, "bad-op")
    | _, _ => (s, "bad-op")
  | "mixsample" :: _ =>
    match argNat? ws "seed", argNat? ws "k" with
    | some sd, some k =>
      if sd = 0 then (s, "bad-op") else
      match mixSampleLoop ws k (Rng.create .mersenne (UInt32.ofNat sd)) [] with
      | some vs => (s, "ok " ++ ",".intercalate vs)
      | none => (s, "bad-op")
    | _, _ => (s, "bad-op")
  | _ => (s, "bad-op")

def main : IO Unit := runDriver () step
