import EaselModel.Core.Proto
import EaselModel.Random.Model
import EaselModel.Dist.FloatInst
import EaselModel.Generated.Dist
import EaselModel.Dist.Mix
import EaselModel.Dist.Bisect
/-! Line-protocol driver for the C10 model: runs the TRANSLATED functions at `Float`.
    `f fn=<name> a=<bits>,<bits>,…`            → `ok <bits>`
    `f2 fn=<g>,<f> a=<x>,<params…>`             → `ok <bits of g(f(x,params),params)>`
    `sample fn=<name> seed=<n> k=<draws> a=…`  → `ok <bits>,…` (k successive samples from a fresh MT19937 generator) -/
open EaselModel EaselModel.Proto EaselModel.Random EaselModel.Dist

def hex64 (x : UInt64) : String :=
  let s := (Nat.toDigits 16 x.toNat)
  String.ofList (List.replicate (16 - s.length) '0' ++ s)

def parseBits (w : String) : Option Float :=
  (w.toList.foldl (fun acc c => acc.bind fun a => (hexVal c).map fun d => a * 16 + d) (some 0)).map
    fun n => Float.ofBits (UInt64.ofNat n)

def parseBitsList (s : String) : Option (List Float) :=
  if s == "-" then some [] else (s.splitOn ",").mapM parseBits

def fuel : Nat := 1000000

def sampleLoop (name : String) (args : List Float) : Nat → Rng → List String → Option (List String)
  | 0, _, acc => some acc.reverse
  | k+1, r, acc =>
    match r.uniformPositive fuel with
    | none => none
    | some (x, r') =>
      match Gen.dispatch name ((Float.ofNat x / 4294967296.0) :: args) with
      | none => none
      | some v => sampleLoop name args k r' (hex64 v.toBits :: acc)

def uniLoop : Nat → Rng → List String → Option (List String)
  | 0, _, acc => some acc.reverse
  | k+1, r, acc =>
    match r.uniformPositive fuel with
    | none => none
    | some (x, r') => uniLoop k r' (hex64 (Float.ofNat x / 4294967296.0).toBits :: acc)

def argBits? (ws : List String) (k : String) : Option Float := (arg? ws k).bind parseBits
def argList? (ws : List String) (k : String) : Option (List Float) := (arg? ws k).bind parseBitsList

/-- the six x-functions of a mixture, by name -/
def mixEval (ws : List String) (fn : String) (x : Float) : Option Float :=
  match arg? ws "fam" with
  | some "hxp" =>
    match argBits? ws "mu", argList? ws "q", argList? ws "l" with
    | some mu, some q, some l =>
      if q.length != l.length || q.isEmpty then none else
      let qs := q.zip l
      match fn with
      | "pdf" => some (Mix.hxp_pdf x mu qs) | "logpdf" => some (Mix.hxp_logpdf x mu qs)
      | "cdf" => some (Mix.hxp_cdf x mu qs) | "logcdf" => some (Mix.hxp_logcdf x mu qs)
      | "surv" => some (Mix.hxp_surv x mu qs) | "logsurv" => some (Mix.hxp_logsurv x mu qs)
      | _ => none
    | _, _, _ => none
  | some "mixgev" =>
    match argList? ws "q", argList? ws "mu", argList? ws "l", argList? ws "al" with
    | some q, some mu, some l, some al =>
      if q.length != l.length || q.length != mu.length || q.length != al.length || q.isEmpty then none else
      let qs := q.zip (mu.zip (l.zip al))
      match fn with
      | "pdf" => some (Mix.mixgev_pdf x qs) | "logpdf" => some (Mix.mixgev_logpdf x qs)
      | "cdf" => some (Mix.mixgev_cdf x qs) | "logcdf" => some (Mix.mixgev_logcdf x qs)
      | "surv" => some (Mix.mixgev_surv x qs) | "logsurv" => some (Mix.mixgev_logsurv x qs)
      | _ => none
    | _, _, _, _ => none
  | _ => none

/-- `esl_hxp_invcdf` / `esl_mixgev_invcdf` (outer `none` = ill-formed op, inner `none` = fuel exhausted) -/
def mixInv (ws : List String) (p : Float) : Option (Option Float) :=
  match arg? ws "fam" with
  | some "hxp" =>
    match argBits? ws "mu", argList? ws "q", argList? ws "l" with
    | some mu, some q, some l =>
      if q.length != l.length || q.isEmpty then none else
      some (Bisect.invcdfRight (fun x => Mix.hxp_cdf x mu (q.zip l)) p mu)
    | _, _, _ => none
  | some "mixgev" =>
    match argList? ws "q", argList? ws "mu", argList? ws "l", argList? ws "al" with
    | some q, some mu, some l, some al =>
      if q.length != l.length || q.length != mu.length || q.length != al.length || q.isEmpty then none else
      some (Bisect.invcdfMix (fun x => Mix.mixgev_cdf x (q.zip (mu.zip (l.zip al)))) p (Bisect.dmin mu))
    | _, _, _, _ => none
  | _ => none

/-- `esl_hxp_Sample` / `esl_mixgev_Sample`: `k = DChoose(r, q)`, then the component's `Sample(r, …)` -/
def mixSampleLoop (ws : List String) : Nat → Rng → List String → Option (List String)
  | 0, _, acc => some acc.reverse
  | n+1, r, acc =>
    let (x0, r1) := r.randomNum
    let roll := Float.ofNat x0 / 4294967296.0
    match argList? ws "q" with
    | none => none
    | some q =>
      match Mix.dchoose roll q, r1.uniformPositive fuel with
      | some k, some (xu, r2) =>
        let u := Float.ofNat xu / 4294967296.0
        let v : Option Float :=
          match arg? ws "fam" with
          | some "hxp" =>
            match argBits? ws "mu", argList? ws "l" with
            | some mu, some l => (l[k]?).map fun lk => Gen.esl_exp_Sample u mu lk
            | _, _ => none
          | some "mixgev" =>
            match argList? ws "mu", argList? ws "l", argList? ws "al" with
            | some mu, some l, some al =>
              match mu[k]?, l[k]?, al[k]? with
              | some m, some lk, some ak => some (Gen.esl_gev_Sample u m lk ak)
              | _, _, _ => none
            | _, _, _ => none
          | _ => none
        match v with
        | some v => mixSampleLoop ws n r2 (hex64 v.toBits :: acc)
        | none => none
      | _, _ => none

/-- the generic-API wrappers `esl_<d>_generic_<f>(x, params)` forward to `esl_<d>_<f>(x, params[0], …)`: that is their spec -/
def ungeneric (fn : String) : String := fn.replace "_generic_" "_"

def step (s : Unit) (line : String) : Unit × String :=
  let ws := words line
  match ws with
  | "f" :: _ =>
    match arg? ws "fn", (arg? ws "a").bind parseBitsList with
    | some fn, some a =>
      match ungeneric fn, a with
      | "esl_sxp_invcdf", [p, mu, l, t] =>
        (s, match Bisect.invcdfRight (fun x => Gen.esl_sxp_cdf x mu l t) p mu with | some v => s!"ok {hex64 v.toBits}" | none => "hang")
      | "esl_gam_invcdf", [p, mu, l, t] =>
        (s, match Bisect.invcdfGam (fun x => Gen.esl_gam_cdf x mu l t) p mu l t with | some v => s!"ok {hex64 v.toBits}" | none => "hang")
      | "esl_stats_erfc", [x] => (s, s!"ok {hex64 (Num.erfc x).toBits}")
      | "esl_stats_LogGamma", [x] => (s, s!"ok {hex64 (Num.logGamma x).toBits}")
      | "esl_stats_IncGammaP", [a, x] => (s, s!"ok {hex64 (Num.incGammaP a x).toBits}")
      | "esl_stats_IncGammaQ", [a, x] => (s, s!"ok {hex64 (Num.incGammaQ a x).toBits}")
      | _, _ =>
      match Gen.dispatch (ungeneric fn) a with
      | some v => (s, s!"ok {hex64 v.toBits}")
      | none => (s, "unmodelled")
    | _, _ => (s, "bad-op")
  | "f2" :: _ =>
    match (arg? ws "fn").map (·.splitOn ","), (arg? ws "a").bind parseBitsList with
    | some [g, f], some (x :: ps) =>
      match (Gen.dispatch f (x :: ps)).bind fun r => Gen.dispatch g (r :: ps) with
      | some v => (s, s!"ok {hex64 v.toBits}")
      | none => (s, "unmodelled")
    | _, _ => (s, "bad-op")
  | "unipos" :: _ =>
    match argNat? ws "seed", argNat? ws "k" with
    | some sd, some k =>
      if sd = 0 then (s, "bad-op") else
      match uniLoop k (Rng.create .mersenne (UInt32.ofNat sd)) [] with
      | some vs => (s, "ok " ++ ",".intercalate vs)
      | none => (s, "bad-op")
    | _, _ => (s, "bad-op")
  | "sample" :: _ =>
    match arg? ws "fn", (arg? ws "a").bind parseBitsList, argNat? ws "seed", argNat? ws "k" with
    | some fn, some a, some sd, some k =>
      if fn == "esl_sxp_Sample" || fn == "esl_gam_Sample" || fn == "esl_lognormal_Sample" then (s, "unmodelled") else
      if sd = 0 then (s, "bad-op") else
      match sampleLoop fn a k (Rng.create .mersenne (UInt32.ofNat sd)) [] with
      | some vs => (s, "ok " ++ ",".intercalate vs)
      | none => (s, "bad-op")
    | _, _, _, _ => (s, "bad-op")
  | "mix" :: _ =>
    match arg? ws "fn", argBits? ws "x" with
    | some "invcdf", some p | some "generic_invcdf", some p =>
      match mixInv ws p with
      | some (some v) => (s, s!"ok {hex64 v.toBits}")
      | some none => (s, "hang")
      | none => (s, "bad-op")
    | some fn, some x =>
      match mixEval ws (fn.replace "generic_" "") x with
      | some v => (s, s!"ok {hex64 v.toBits}")
      | none => (s, "bad-op")
    | _, _ => (s, "bad-op")
  | "mixsample" :: _ =>
    match argNat? ws "seed", argNat? ws "k" with
    | some sd, some k =>
      if sd = 0 then (s, "bad-op") else
      match mixSampleLoop ws k (Rng.create .mersenne (UInt32.ofNat sd)) [] with
      | some vs => (s, "ok " ++ ",".intercalate vs)
      | none => (s, "bad-op")
    | _, _ => (s, "bad-op")
  | _ => (s, "bad-op")

def main : IO Unit := runDriver () step
