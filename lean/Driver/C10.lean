import EaselModel.Core.Proto
import EaselModel.Random.Model
import EaselModel.Dist.FloatInst
import EaselModel.Generated.Dist
/-! Line-protocol driver for the C10 model: runs the TRANSLATED functions at `Float`.
    `f fn=<name> a=<bits>,<bits>,…`            → `ok <bits>`
    `f2 fn=<g>,<f> a=<x>,<params…>`             → `ok <bits of g(f(x,params),params)>`
    `sample fn=<name> seed=<n> k=<draws> a=…`  → `ok <bits>,…` (k successive samples from a fresh MT19937 generator) -/
open EaselModel EaselModel.Proto EaselModel.Random EaselModel.Dist

def hex64 (x : UInt64) : String :=
  let s := (Nat.toDigits 16 x.toNat)
  String.ofList (List.replicate (16 - s.length) '0' ++ s)

def parseBits (w : String) : Option Float :=
  (w.toList.foldl (fun acc c => acc.bind fun a => (hexVal c).map fun d => a * 16 + d) (some 0)).map
    fun n => Float.ofBits (UInt64.ofNat n)

def parseBitsList (s : String) : Option (List Float) :=
  if s == "-" then some [] else (s.splitOn ",").mapM parseBits

def fuel : Nat := 1000000

def sampleLoop (name : String) (args : List Float) : Nat → Rng → List String → Option (List String)
  | 0, _, acc => some acc.reverse
  | k+1, r, acc =>
    match r.uniformPositive fuel with
    | none => none
    | some (x, r') =>
      match Gen.dispatch name ((Float.ofNat x / 4294967296.0) :: args) with
      | none => none
      | some v => sampleLoop name args k r' (hex64 v.toBits :: acc)

def uniLoop : Nat → Rng → List String → Option (List String)
  | 0, _, acc => some acc.reverse
  | k+1, r, acc =>
    match r.uniformPositive fuel with
    | none => none
    | some (x, r') => uniLoop k r' (hex64 (Float.ofNat x / 4294967296.0).toBits :: acc)

def step (s : Unit) (line : String) : Unit × String :=
  let ws := words line
  match ws with
  | "f" :: _ =>
    match arg? ws "fn", (arg? ws "a").bind parseBitsList with
    | some fn, some a =>
      match fn, a with
      | "esl_stats_erfc", [x] => (s, s!"ok {hex64 (Num.erfc x).toBits}")
      | "esl_stats_LogGamma", [x] => (s, s!"ok {hex64 (Num.logGamma x).toBits}")
      | "esl_stats_IncGammaP", [a, x] => (s, s!"ok {hex64 (Num.incGammaP a x).toBits}")
      | "esl_stats_IncGammaQ", [a, x] => (s, s!"ok {hex64 (Num.incGammaQ a x).toBits}")
      | _, _ =>
      match Gen.dispatch fn a with
      | some v => (s, s!"ok {hex64 v.toBits}")
      | none => (s, "unmodelled")
    | _, _ => (s, "bad-op")
  | "f2" :: _ =>
    match (arg? ws "fn").map (·.splitOn ","), (arg? ws "a").bind parseBitsList with
    | some [g, f], some (x :: ps) =>
      match (Gen.dispatch f (x :: ps)).bind fun r => Gen.dispatch g (r :: ps) with
      | some v => (s, s!"ok {hex64 v.toBits}")
      | none => (s, "unmodelled")
    | _, _ => (s, "bad-op")
  | "unipos" :: _ =>
    match argNat? ws "seed", argNat? ws "k" with
    | some sd, some k =>
      if sd = 0 then (s, "bad-op") else
      match uniLoop k (Rng.create .mersenne (UInt32.ofNat sd)) [] with
      | some vs => (s, "ok " ++ ",".intercalate vs)
      | none => (s, "bad-op")
    | _, _ => (s, "bad-op")
  | "sample" :: _ =>
    match arg? ws "fn", (arg? ws "a").bind parseBitsList, argNat? ws "seed", argNat? ws "k" with
    | some fn, some a, some sd, some k =>
      if sd = 0 then (s, "bad-op") else
      match sampleLoop fn a k (Rng.create .mersenne (UInt32.ofNat sd)) [] with
      | some vs => (s, "ok " ++ ",".intercalate vs)
      | none => (s, "bad-op")
    | _, _, _, _ => (s, "bad-op")
  | "mix" :: _ => (s, "unmodelled")
  | "mixsample" :: _ => (s, "unmodelled")
  | _ => (s, "bad-op")

def main : IO Unit := runDriver () step
