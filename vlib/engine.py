"""Generic check engine for the Easel Lean-4 verification framework (see DESIGN.md §2.4).

A property plug-in (props/cXX.py) exposes a module-level object SPEC (instance of Prop below).
The engine
  1. copies /repo's working tree to scratch and builds a sanitizer build of libeasel + the harness,
  2. regenerates translated / table Lean files from that copy,
  3. builds the Lean proof obligations and audits axioms / forbidden constructs,
  4. runs the correspondence (same op lines through the C harness and the Lean driver, diff),
  5. runs property monitors on the implementation outputs,
  6. decides the verdict, writes evidence and (on violation) a replay file.
"""
import os, sys, json, time, subprocess, shutil, hashlib, random, re, fcntl, tempfile, atexit, signal

VERIF = os.path.dirname(os.path.dirname(os.path.abspath(__file__)))
REPO = os.environ.get("VERIF_REPO", "/repo")
LEAN = os.path.join(VERIF, "lean")
EVID = os.environ.get("VERIF_EVIDENCE_DIR", os.path.join(VERIF, "evidence"))   # seeded-mutation runs write elsewhere
SCRATCH_ROOT = os.environ.get("VERIF_SCRATCH", os.environ.get("TMPDIR_VERIF", "/var/tmp"))
CACHE = os.path.join(SCRATCH_ROOT, "easel-verif-cache-v2")   # v2: pruned by age; older engine copies prune "easel-verif-cache" by count
NPROC = os.cpu_count() or 4

SAN_FLAGS = ["-O1", "-g", "-ffp-contract=off", "-fno-omit-frame-pointer",
             "-fsanitize=address,undefined", "-fno-sanitize-recover=all", "-DEASEL_VERIF"]
PLAIN_FLAGS = ["-O1", "-g", "-ffp-contract=off", "-DEASEL_VERIF"]
SIMD = {"esl_sse.c": ["-msse4.1"], "esl_avx.c": ["-mavx2"],
        "esl_avx512.c": ["-mavx512f", "-mavx512dq", "-mavx512bw"]}

FORBIDDEN = re.compile(r"\bsorry\b|\badmit\b|^\s*axiom\s|native_decide|bv_decide|implemented_by|\bunsafe\s|maxHeartbeats\s+0")
OK_AXIOMS = {"propext", "Classical.choice", "Quot.sound"}


def log(*a):
    print("[verif]", *a, file=sys.stderr, flush=True)


def sh(cmd, cwd=None, timeout=None, env=None, input=None, check=False):
    p = subprocess.run(cmd, cwd=cwd, timeout=timeout, env=env, input=input,
                       stdout=subprocess.PIPE, stderr=subprocess.PIPE, text=True, errors="replace")
    if check and p.returncode != 0:
        raise RuntimeError("command failed: %s\n%s\n%s" % (cmd, p.stdout[-3000:], p.stderr[-3000:]))
    return p


class Failure:
    """One thing that went wrong. kind: 'monitor' (property fails on the implementation, concrete input),
    'fault' (sanitizer abort / crash / internal exception of the implementation on a concrete input),
    'diverge' (model and implementation differ), 'obligation' (a Lean proof obligation no longer checks)."""
    def __init__(self, kind, what, case=None, key=None, detail=None):
        self.kind, self.what, self.case, self.key, self.detail = kind, what, case, key, detail

    def to_json(self):
        return {"kind": self.kind, "what": self.what, "key": self.key,
                "case": self.case, "detail": self.detail}


class Prop:
    """Base class of a property plug-in. Override what is needed."""
    id = "C00"
    level = "proof"
    lean_modules = []          # modules that carry the proof obligations (Props.Cxx, Audit.Cxx)
    lean_exe = None            # name of lean_exe driver
    theorems = []              # fully qualified names, audited with #print axioms
    harness = None             # C file under /verif/harness
    harness_includes_c = []    # repo .c files #included by the harness itself (not taken from libeasel.a)
    harness_flags = []
    sanitize = True
    claimed = False            # listed in MANIFEST.checks by tools/mkmanifest.py when True
    technique = "Lean 4 proof + differential correspondence"
    level_text = ""
    level_note = ""
    na_reason = None
    diverge_is_violation = False   # True when every op is a deterministic function the model specifies exactly
    trusted_base = []
    assumptions = []
    rule = ""
    quick_budget_s = 60
    thorough_budget_s = 600

    def generated(self, ctx):
        """Return {relative_path_under_lean: content} regenerated from ctx.src (the scratch copy of /repo)."""
        return {}

    def corpus(self, ctx):
        return []

    def cases(self, ctx):
        """Yield cases: dict(name=str, ops=[str,...]) ; random choices only from ctx.rng"""
        return []

    def canonical(self, line):
        return line

    def nontrivial(self, case, impl_out):
        return any(l.startswith("ok") or " ok" in l for l in impl_out)

    def monitor(self, ctx, case, impl_out):
        """Property monitor on implementation output. Return None or a Failure(kind='monitor')."""
        return None

    def compare(self, ctx, case, impl_out, model_out):
        """Return None if outputs correspond, else (index, impl_line, model_line)."""
        n = max(len(impl_out), len(model_out))
        for i in range(n):
            a = self.canonical(impl_out[i]) if i < len(impl_out) else "<missing>"
            b = self.canonical(model_out[i]) if i < len(model_out) else "<missing>"
            if a != b:
                return (i, a, b)
        return None

    def fault_key(self, case, summary):
        """Known-finding key for a process death (sanitizer abort / signal / hang) on this case, or None.
        Lets a plug-in tolerate exactly one recorded death site (tool + call site) without a case-level known_key."""
        return (case or {}).get("known_key")

    def extra_checks(self, ctx):
        """Additional obligations (e.g. table dumps, translator cross-execution). Return list of Failures."""
        return []

    def extra_evidence(self, ctx):
        return {}


class Ctx:
    def __init__(self, prop, tier, seed):
        self.prop, self.tier, self.seed = prop, tier, seed
        self.rng = random.Random((hash_str(prop.id) ^ (seed * 0x9E3779B1)) & 0xFFFFFFFF)
        self.work = tempfile.mkdtemp(prefix="easel-verif.%s." % prop.id, dir=SCRATCH_ROOT)
        atexit.register(shutil.rmtree, self.work, True)
        self.src = None        # scratch copy of repo sources
        self.lib = None        # sanitized libeasel.a
        self.harness_exe = None
        self.driver_exe = None
        self.stats = {}
        self.t0 = time.time()

    def budget(self):
        return self.prop.quick_budget_s if self.tier == "quick" else self.prop.thorough_budget_s

    def elapsed(self):
        return time.time() - self.t0


def hash_str(s):
    return int(hashlib.sha256(s.encode()).hexdigest()[:8], 16)


# ----------------------------------------------------------------------------------------------
# 1. scratch copy + sanitizer build of the library
# ----------------------------------------------------------------------------------------------
def tree_hash(flags):
    h = hashlib.sha256()
    h.update(" ".join(flags).encode())
    for d in ("", "miniapps"):
        base = os.path.join(REPO, d)
        for fn in sorted(os.listdir(base)):
            if fn.endswith((".c", ".h")):
                h.update(fn.encode())
                with open(os.path.join(base, fn), "rb") as f:
                    h.update(f.read())
    return h.hexdigest()[:20]


def copy_sources(dst):
    os.makedirs(dst, exist_ok=True)
    for fn in os.listdir(REPO):
        if fn.endswith((".c", ".h")):
            shutil.copy2(os.path.join(REPO, fn), os.path.join(dst, fn))
    os.makedirs(os.path.join(dst, "miniapps"), exist_ok=True)
    for fn in os.listdir(os.path.join(REPO, "miniapps")):
        if fn.endswith((".c", ".h")):
            shutil.copy2(os.path.join(REPO, "miniapps", fn), os.path.join(dst, "miniapps", fn))
    for d in ("formats", "esl_msa_testfiles"):
        s = os.path.join(REPO, d)
        if os.path.isdir(s):
            shutil.copytree(s, os.path.join(dst, d), dirs_exist_ok=True)
    if not os.path.exists(os.path.join(dst, "esl_config.h")):
        # configure has not been run in /repo: derive a config header
        p = sh(["sh", "-c", "cd %s && ./configure >/dev/null 2>&1 && cp esl_config.h decoy_config.h %s/" % (REPO, dst)])
        if not os.path.exists(os.path.join(dst, "esl_config.h")):
            raise RuntimeError("no esl_config.h and configure failed")


def lib_objects(src):
    objs = []
    for fn in sorted(os.listdir(src)):
        if fn.endswith(".c") and (fn.startswith("esl_") or fn == "easel.c"):
            objs.append(fn)
    return objs


def build_lib(sanitize=True):
    """Build (or fetch from the content-addressed cache) a scratch copy of the repo's sources plus libeasel.a.
    The cache key is a hash of every .c/.h in the working tree, so an edited tree is always rebuilt."""
    flags = SAN_FLAGS if sanitize else PLAIN_FLAGS
    key = tree_hash(flags)
    os.makedirs(CACHE, exist_ok=True)
    d = os.path.join(CACHE, key)
    lock = open(os.path.join(CACHE, ".lock"), "w")
    fcntl.flock(lock, fcntl.LOCK_EX)
    try:
        if os.path.exists(os.path.join(d, "libeasel.a")) and os.path.exists(os.path.join(d, ".done")):
            os.utime(d)
            return d
        shutil.rmtree(d, ignore_errors=True)
        # prune cache entries not used for 3 hours (a running check touches its entry when it starts; pruning by age
        # instead of by count avoids removing the tree under a concurrently running check), and cap the total at 40
        now = time.time()
        ents = sorted([e for e in os.listdir(CACHE) if not e.startswith(".")],
                      key=lambda e: os.path.getmtime(os.path.join(CACHE, e)))
        for k, e in enumerate(ents):
            if now - os.path.getmtime(os.path.join(CACHE, e)) > 3 * 3600 or len(ents) - k > 40:
                shutil.rmtree(os.path.join(CACHE, e), ignore_errors=True)
        t = time.time()
        copy_sources(d)
        procs = []
        objs = []
        for fn in lib_objects(d):
            o = fn[:-2] + ".o"
            objs.append(o)
            cmd = ["gcc", "-I.", "-pthread"] + flags + SIMD.get(fn, []) + ["-c", fn, "-o", o]
            procs.append((fn, cmd))
        run_parallel(procs, d)
        sh(["ar", "rcs", "libeasel.a"] + objs, cwd=d, check=True)
        for o in objs:
            os.unlink(os.path.join(d, o))
        open(os.path.join(d, ".done"), "w").write(key)
        log("built %s libeasel.a in %.1fs (%s)" % ("sanitized" if sanitize else "plain", time.time() - t, key))
        return d
    finally:
        fcntl.flock(lock, fcntl.LOCK_UN)
        lock.close()


def run_parallel(named_cmds, cwd, jobs=NPROC):
    pending = list(named_cmds)
    running = []
    errors = []
    while pending or running:
        while pending and len(running) < jobs:
            name, cmd = pending.pop(0)
            running.append((name, cmd, subprocess.Popen(cmd, cwd=cwd, stdout=subprocess.PIPE,
                                                        stderr=subprocess.STDOUT, text=True, errors="replace")))
        still = []
        for name, cmd, p in running:
            if p.poll() is None:
                still.append((name, cmd, p))
            else:
                out = p.stdout.read()
                if p.returncode != 0:
                    errors.append("%s: %s\n%s" % (name, " ".join(cmd), out[-4000:]))
        running = still
        if running:
            time.sleep(0.02)
    if errors:
        raise RuntimeError("compile failed:\n" + "\n".join(errors))


def build_harness(ctx):
    prop = ctx.prop
    if not prop.harness:
        return None
    flags = SAN_FLAGS if prop.sanitize else PLAIN_FLAGS
    exe = os.path.join(ctx.work, "harness_" + prop.id)
    srcs = prop.harness if isinstance(prop.harness, (list, tuple)) else [prop.harness]
    cmd = ["gcc", "-I" + ctx.src, "-I" + os.path.join(VERIF, "harness"), "-pthread"] + flags + list(prop.harness_flags)
    cmd += [os.path.join(VERIF, "harness", s) for s in srcs]
    cmd += ["-o", exe, os.path.join(ctx.src, "libeasel.a"), "-lm", "-lpthread"]
    t = time.time()
    p = sh(cmd, cwd=ctx.src)
    if p.returncode != 0:
        raise HarnessBuildError(p.stdout[-3000:] + p.stderr[-6000:])
    ctx.stats["harness_build_s"] = round(time.time() - t, 1)
    return exe


class HarnessBuildError(Exception):
    pass


# ----------------------------------------------------------------------------------------------
# 2/3. Lean: regenerate, build, audit
# ----------------------------------------------------------------------------------------------
class LakeLock:
    def __enter__(self):
        self.f = open(os.path.join(LEAN, ".lake.lock"), "w")
        fcntl.flock(self.f, fcntl.LOCK_EX)
        return self

    def __exit__(self, *a):
        fcntl.flock(self.f, fcntl.LOCK_UN)
        self.f.close()


def write_if_changed(path, content):
    try:
        if open(path).read() == content:
            return False
    except FileNotFoundError:
        pass
    os.makedirs(os.path.dirname(path), exist_ok=True)
    with open(path, "w") as f:
        f.write(content)
    return True


def lean_source_files(modules):
    """Transitive closure of project-local imports of the given modules -> list of file paths."""
    seen, todo, files = set(), list(modules), []
    while todo:
        m = todo.pop()
        if m in seen:
            continue
        seen.add(m)
        p = os.path.join(LEAN, m.replace(".", "/") + ".lean")
        if not os.path.exists(p):
            continue
        files.append(p)
        for line in open(p):
            mm = re.match(r"\s*(?:public\s+)?import\s+([\w.]+)", line)
            if mm and (mm.group(1).startswith("EaselModel") or mm.group(1).startswith("Driver") or mm.group(1).startswith("Audit")):
                todo.append(mm.group(1))
    return files


def strip_comments(text):
    # remove block comments (nested) and line comments
    out, i, depth = [], 0, 0
    while i < len(text):
        if text.startswith("/-", i):
            depth += 1; i += 2; continue
        if depth and text.startswith("-/", i):
            depth -= 1; i += 2; continue
        if depth:
            if text[i] == "\n":
                out.append("\n")
            i += 1; continue
        if text.startswith("--", i):
            while i < len(text) and text[i] != "\n":
                i += 1
            continue
        out.append(text[i]); i += 1
    return "".join(out)


def grep_forbidden(files):
    hits = []
    for p in files:
        txt = strip_comments(open(p).read())
        # string literals may legitimately contain the words (e.g. messages); drop them
        txt = re.sub(r'"(?:\\.|[^"\\])*"', '""', txt)
        for n, line in enumerate(txt.split("\n"), 1):
            if FORBIDDEN.search(line):
                hits.append("%s:%d: %s" % (os.path.relpath(p, LEAN), n, line.strip()[:120]))
    return hits


def lean_obligations(ctx):
    """Regenerate, build, audit. Returns (n_obligations, n_discharged, failures, info)."""
    prop = ctx.prop
    failures = []
    info = {}
    try:
        gen = prop.generated(ctx)
    except Exception as e:  # translator failure = failed obligation
        gen = {}
        failures.append(Failure("obligation", "translator failed: %s" % e, key="translator"))
    with LakeLock():
        for rel, content in gen.items():
            if write_if_changed(os.path.join(LEAN, rel), content):
                log("regenerated", rel)
        targets = list(prop.lean_modules) + ([prop.lean_exe] if prop.lean_exe else [])
        t = time.time()
        p = sh(["lake", "build"] + targets, cwd=LEAN, timeout=3600)
        info["lake_build_s"] = round(time.time() - t, 1)
        build_ok = p.returncode == 0
        if not build_ok:
            errs = [l for l in (p.stdout + p.stderr).split("\n") if "error" in l][:12]
            broken = broken_declarations(errs)
            failures.append(Failure("obligation", "lake build failed: proof obligations that no longer check: %s" %
                                    (", ".join(broken) if broken else "(see errors)"), key="lake-build",
                                    detail={"unchecked_declarations": broken, "errors": errs,
                                            "tail": (p.stdout + p.stderr)[-3000:]}))
        # axiom audit
        audited = {}
        if build_ok and prop.theorems:
            af = os.path.join(ctx.work, "audit.lean")
            mods = [m for m in prop.lean_modules if ".Props." in m or m.startswith("EaselModel")]
            with open(af, "w") as f:
                for m in mods:
                    f.write("import %s\n" % m)
                for th in prop.theorems:
                    f.write("#print axioms %s\n" % th)
            pa = sh(["lake", "env", "lean", af], cwd=LEAN, timeout=1800)
            txt = pa.stdout + pa.stderr
            audited = parse_axioms(txt)
            for th in prop.theorems:
                if th not in audited:
                    failures.append(Failure("obligation", "theorem %s missing or not checkable" % th,
                                            key="thm:" + th, detail=txt[-1500:]))
                else:
                    bad = [a for a in audited[th] if a not in OK_AXIOMS]
                    if bad:
                        failures.append(Failure("obligation", "theorem %s depends on axioms %s" % (th, bad), key="axioms:" + th))
        if ctx.tier == "thorough" and build_ok:
            for m in prop.lean_modules:
                if ".Props." in m:
                    pc = sh(["lake", "env", "leanchecker", m], cwd=LEAN, timeout=3600)
                    info.setdefault("leanchecker", {})[m] = pc.returncode
                    if pc.returncode != 0:
                        failures.append(Failure("obligation", "leanchecker rejected %s" % m, key="leanchecker:" + m,
                                                detail=(pc.stdout + pc.stderr)[-1500:]))
        if prop.lean_exe and build_ok:
            ctx.driver_exe = os.path.join(LEAN, ".lake", "build", "bin", prop.lean_exe)
            # private copy so that a concurrent rebuild cannot disturb this run
            priv = os.path.join(ctx.work, prop.lean_exe)
            shutil.copy2(ctx.driver_exe, priv)
            ctx.driver_exe = priv
    files = lean_source_files(list(prop.lean_modules) + (["Driver." + prop.id] if prop.lean_exe else []))
    hits = grep_forbidden(files)
    for h in hits:
        failures.append(Failure("obligation", "forbidden construct: " + h, key="forbidden"))
    info["lean_files"] = len(files)
    info["lean_lines"] = sum(len(open(f).read().split("\n")) for f in files)
    info["axioms"] = audited if prop.theorems else {}
    n_obl = len(prop.theorems) + 2  # each theorem's axiom audit (+ existence) + build + forbidden-construct grep
    n_bad = len({f.key for f in failures})
    return n_obl, max(0, n_obl - n_bad), failures, info


def broken_declarations(err_lines):
    """Map 'error: File.lean:LINE:COL' to the enclosing theorem / lemma / def name in that file."""
    out = []
    for l in err_lines:
        m = re.search(r"error: ([\w/.]+\.lean):(\d+):\d+", l)
        if not m:
            continue
        path = os.path.join(LEAN, m.group(1))
        try:
            src = open(path).read().split("\n")
        except OSError:
            continue
        ns = ""
        name = None
        for i in range(min(int(m.group(2)), len(src)) - 1, -1, -1):
            mm = re.match(r"\s*(?:private |protected |noncomputable |@\[[^\]]*\]\s*)*(theorem|lemma|def|instance|example)\s+([\w.'«»]+)?", src[i])
            if mm:
                name = "%s %s (%s:%s)" % (mm.group(1), mm.group(2) or "", m.group(1), m.group(2)); break
        if name and name not in out:
            out.append(name)
    return out


def parse_axioms(txt):
    res = {}
    for m in re.finditer(r"'([^\s]+?)' depends on axioms: \[([^\]]*)\]", txt, re.S):
        res[m.group(1)] = [a.strip() for a in m.group(2).replace("\n", " ").split(",") if a.strip()]
    for m in re.finditer(r"'([^\s]+?)' does not depend on any axioms", txt):
        res[m.group(1)] = []
    return res


# ----------------------------------------------------------------------------------------------
# 4. correspondence: run cases through both sides
# ----------------------------------------------------------------------------------------------
def run_side(exe, cases, env=None, timeout_per_batch=300, sanitizer=False, cwd=None):
    """Feed cases (list of dict(name, ops)) to a line-protocol process. Each case is sent as
         case <idx>\n op...\n end\n
       and the process answers  case <idx> / one line per op / end.
       A process death inside a case yields outcome lines + 'fault <summary>' for that case; the rest is re-run.
       Returns list (per case) of output line lists."""
    results = [None] * len(cases)
    start = 0
    hangs = 0
    e = dict(os.environ)
    e["ASAN_OPTIONS"] = "detect_leaks=1:abort_on_error=0:exitcode=99:allocator_may_return_null=1:max_allocation_size_mb=2048"
    e["UBSAN_OPTIONS"] = "print_stacktrace=1:halt_on_error=1:exitcode=98"
    e["LSAN_OPTIONS"] = "exitcode=97"
    if env:
        e.update(env)
    while start < len(cases):
        lines = []
        for i in range(start, len(cases)):
            lines.append("case %d" % i)
            lines.extend(cases[i]["ops"])
            lines.append("end")
        inp = "\n".join(lines) + "\n"
        try:
            p = subprocess.run([exe], input=inp, stdout=subprocess.PIPE, stderr=subprocess.PIPE, text=True,
                               errors="replace", timeout=timeout_per_batch, env=e, cwd=cwd)
            out, err, rc = p.stdout, p.stderr, p.returncode
        except subprocess.TimeoutExpired as te:
            out = te.stdout.decode(errors="replace") if isinstance(te.stdout, bytes) else (te.stdout or "")
            err, rc = "timeout", -999
        cur, curlines, done_upto = None, [], start - 1
        for l in out.split("\n"):
            if l.startswith("case "):
                cur = int(l.split()[1]); curlines = []
            elif l == "end" and cur is not None:
                results[cur] = curlines; done_upto = cur; cur = None
            elif cur is not None:
                curlines.append(l)
        if done_upto >= len(cases) - 1:
            if rc != 0:
                # all cases answered but exit status non-zero: leak report or late failure
                summ = summarize_sanitizer(err, rc)
                results[len(cases) - 1] = results[len(cases) - 1] + ["atexit " + summ]
            break
        # died inside case done_upto+1
        bad = done_upto + 1
        if cur == bad:
            partial = [x for x in curlines if x != ""]
        else:
            partial = []
        results[bad] = partial + ["fault " + summarize_sanitizer(err, rc)]
        start = bad + 1
        deaths = sum(1 for r in results if r and r[-1].startswith("fault "))
        if rc == -999:
            hangs += 1
        if hangs >= 1 or deaths >= 40:
            # a tree that hangs repeatedly or dies on most inputs: the verdict is already clear; do not pay a process
            # restart (or the full timeout) for every remaining case
            break
    return results


def summarize_sanitizer(err, rc):
    if rc == -999:
        return "hang"
    m = re.search(r"ERROR: AddressSanitizer: ([\w-]+)", err)
    if m:
        fr = re.findall(r"#\d+ 0x[0-9a-f]+ in (\w+)", err)
        where = next((f for f in fr if f.startswith(("esl_", "sq", "msa", "buffer", "stockholm", "selex", "phylip", "clustal", "a2m", "afa", "psiblast")) ), fr[0] if fr else "?")
        return "asan:%s@%s" % (m.group(1), where)
    if "LeakSanitizer" in err:
        return "lsan:leak"
    m = re.search(r"runtime error: ([^\n]+)", err)
    if m:
        return "ubsan:" + re.sub(r"0x[0-9a-f]+", "ADDR", m.group(1))[:80].replace(" ", "_")
    if rc < 0:
        return "signal:%d" % (-rc)
    m = re.search(r"Fatal exception[^\n]*", err)
    if m:
        return "exception:" + m.group(0)[:80].replace(" ", "_")
    return "exit:%d:%s" % (rc, err.strip().split("\n")[-1][:80].replace(" ", "_") if err.strip() else "")


def correspondence(ctx, cases, batch=400):
    prop = ctx.prop
    fails = []
    n_eval = 0
    distinct = set()
    samples = []
    impl_all, model_all = [], []
    for b in range(0, len(cases), batch):
        chunk = cases[b:b + batch]
        impl = run_side(ctx.harness_exe, chunk, sanitizer=True, cwd=ctx.work) if ctx.harness_exe else [None] * len(chunk)
        model = run_side(ctx.driver_exe, chunk, cwd=ctx.work) if ctx.driver_exe else [None] * len(chunk)
        for c, io, mo in zip(chunk, impl, model):
            n_eval += 1
            if io is None:
                continue
            io = [l for l in io if l != ""]
            if mo is not None:
                mo = [l for l in mo if l != ""]
            faults = [l for l in io if l.startswith(("fault ", "atexit "))]
            if faults and not getattr(prop, "fault_is_output", False):
                fails.append(Failure("fault", "implementation died: " + faults[0], case=c, detail={"impl": io[-5:]},
                                     key=prop.fault_key(c, faults[0])))
            # a monitor / comparison that cannot digest the implementation's answer (exception inside the plug-in) is a
            # finding about THIS case, not a crash of the check: the answer is outside what the protocol and the model allow
            try:
                mf = prop.monitor(ctx, c, io)
            except Exception as e:
                mf = Failure("monitor", "the monitor could not interpret the implementation's answer (%s: %s)"
                             % (type(e).__name__, str(e)[:160]), detail={"impl": io[-6:]})
            if mf is not None:
                mf.case = c
                fails.append(mf)
            if mo is not None:
                try:
                    d = prop.compare(ctx, c, io, mo)
                except Exception as e:
                    d = (0, "compare raised %s: %s" % (type(e).__name__, str(e)[:160]), "")
                if d is not None:
                    fails.append(Failure("diverge", "model and implementation differ at op %d" % d[0], case=c,
                                         detail={"op_index": d[0], "impl": d[1], "model": d[2]}))
            if prop.nontrivial(c, io):
                distinct.add(hashlib.sha1("\n".join(io).encode()).hexdigest())
            if len(samples) < 3 and prop.nontrivial(c, io):
                samples.append({"name": c.get("name"), "ops": c["ops"][:12], "impl": io[:12]})
        if len(fails) > 50:
            break
        if any(f.kind == "fault" and "hang" in f.what for f in fails):
            break       # a hanging tree: the verdict is clear, every further batch would cost a timeout
    return n_eval, len(distinct), samples, fails


# ----------------------------------------------------------------------------------------------
# 5/6. verdict, known findings, evidence
# ----------------------------------------------------------------------------------------------
def load_known():
    """known_findings.json (+ optional per-property fragments known_findings.d/*.json), committed, never written at run time"""
    out = []
    p = os.path.join(VERIF, "known_findings.json")
    if os.path.exists(p):
        out += json.load(open(p)).get("findings", [])
    d = os.path.join(VERIF, "known_findings.d")
    if os.path.isdir(d):
        for fn in sorted(os.listdir(d)):
            if fn.endswith(".json"):
                out += json.load(open(os.path.join(d, fn))).get("findings", [])
    return out


def shrink_case(ctx, case, still_fails, max_steps=200):
    """ddmin over op lines (keeps the first line if the plug-in marks it sticky)."""
    ops = list(case["ops"])
    sticky = case.get("sticky", 0)
    n = 2
    steps = 0
    while len(ops) - sticky >= 2 and steps < max_steps:
        body = ops[sticky:]
        chunk = max(1, len(body) // n)
        reduced = False
        for i in range(0, len(body), chunk):
            cand = ops[:sticky] + body[:i] + body[i + chunk:]
            steps += 1
            if len(cand) > sticky and still_fails(dict(case, ops=cand)):
                ops = cand; n = max(n - 1, 2); reduced = True
                break
        if not reduced:
            if chunk == 1:
                break
            n = min(n * 2, len(body))
    return dict(case, ops=ops)


def write_replay(ctx, failure, extra=None):
    os.makedirs(os.path.join(VERIF, "replays"), exist_ok=True)
    path = os.path.join(VERIF, "replays", "%s-seed%d-%s.json" % (ctx.prop.id, ctx.seed, ctx.tier))
    doc = {"property": ctx.prop.id, "tier": ctx.tier, "seed": ctx.seed, "failure": failure.to_json(),
           "how_to_replay": "python3 /verif/check.py %s --replay %s" % (ctx.prop.id, path)}
    if extra:
        doc.update(extra)
    with open(path, "w") as f:
        json.dump(doc, f, indent=1)
    return path


def run_check(prop, tier, seed, replay=None):
    ctx = Ctx(prop, tier, seed)
    known = [k for k in load_known() if k["property"] == prop.id]
    t0 = time.time()
    all_fail = []
    obl_fail = []
    info = {}
    # 1. build
    harness_err = None
    try:
        ctx.src = build_lib(prop.sanitize)
        ctx.harness_exe = build_harness(ctx)
    except HarnessBuildError as e:
        harness_err = str(e)
        all_fail.append(Failure("obligation", "harness does not compile against the working tree", key="harness-build",
                                detail=harness_err[-2000:]))
    except RuntimeError as e:
        all_fail.append(Failure("obligation", "library does not compile with sanitizers: %s" % str(e)[-1500:], key="lib-build"))
    # 2/3. lean
    n_obl, n_dis, lf, linfo = lean_obligations(ctx)
    info.update(linfo)
    obl_fail.extend(lf)
    # extra obligations (table dumps, bit-exact translator runs ...)
    if ctx.src:
        try:
            ef = prop.extra_checks(ctx) or []
        except Exception as e:
            ef = [Failure("obligation", "extra check crashed: %r" % e, key="extra")]
        for f in ef:
            (obl_fail if f.kind == "obligation" else all_fail).append(f)
    # 4/5. correspondence + monitors
    n_eval = n_dist = 0
    samples = []
    if replay:
        doc = json.load(open(replay))
        cases = [doc["failure"]["case"]] if doc.get("failure", {}).get("case") else []
    else:
        cases = list(prop.corpus(ctx)) + list(prop.cases(ctx))
    if ctx.harness_exe and cases:
        t = time.time()
        n_eval, n_dist, samples, cf = correspondence(ctx, cases)
        info["correspondence_s"] = round(time.time() - t, 1)
        all_fail.extend(cf)
    all_fail = obl_fail + all_fail
    # classify against known findings
    known_keys = {k["key"]: k for k in known if k.get("status") == "known"}
    reported_known = set()
    violations = []
    for f in all_fail:
        k = f.key or (f.case or {}).get("known_key")
        if k and k in known_keys:
            reported_known.add(k)
        else:
            violations.append(f)
    # known witnesses that are declared in the plug-in and expected to reproduce print KNOWN-FINDING
    for k in known_keys.values():
        if k["key"] in reported_known or k.get("always_report", True):
            print("KNOWN-FINDING: property=%s %s" % (prop.id, k["what"]))
    rc = 0
    vpath = None
    if violations:
        rc = 1
        concrete = [f for f in violations if f.kind in ("monitor", "fault")
                    or (f.kind == "diverge" and getattr(prop, "diverge_is_violation", False))]
        if concrete:
            f = concrete[0]
            if f.case and ctx.harness_exe and len(f.case.get("ops", [])) > 2 and "hang" not in (f.what or ""):
                try:
                    f.case = shrink_case(ctx, f.case, lambda c: case_still_fails(ctx, c, f))
                except Exception as e:
                    log("shrink failed", e)
            vpath = write_replay(ctx, f, {"other_failures": [x.to_json() for x in violations[1:6]]})
            print("VIOLATION property=%s replay=%s" % (prop.id, vpath))
        else:
            f = violations[0]
            vpath = write_replay(ctx, f, {"no_failing_input_found": True,
                                          "unchecked": [x.what for x in violations[:10]],
                                          "other_failures": [x.to_json() for x in violations[1:6]]})
            print("VIOLATION property=%s replay=%s no-failing-input-found" % (prop.id, vpath))
    # evidence
    n_obl_total = n_obl
    n_dis_total = n_obl - len({f.key for f in obl_fail})
    ev = {
        "property_id": prop.id, "tier": tier, "seed": seed, "level": prop.level,
        "coverage": {
            "obligations": n_obl_total, "discharged": max(0, n_dis_total),
            "checker_cmd": "cd /verif/lean && lake build %s && lake env lean <audit: #print axioms of %d theorems>%s" % (
                " ".join(prop.lean_modules), len(prop.theorems), " && lake env leanchecker <Props modules>" if tier == "thorough" else ""),
            "trusted_base": ["Lean 4.33 kernel", "axioms: propext, Classical.choice, Quot.sound only (audited per theorem this run)"] + list(prop.trusted_base),
            "theorems": list(prop.theorems),
            "axioms_per_theorem": info.get("axioms", {}),
            "evaluations": n_eval, "distinct_nontrivial": n_dist,
            "traces_validated_against_impl": n_eval,
            "rule": prop.rule, "samples": samples if samples else [{"obligation": t} for t in prop.theorems[:3]],
            "lean": {k: v for k, v in info.items() if k != "axioms"},
            "failures": [f.to_json() for f in all_fail[:10]],
        },
        "assumptions": list(prop.assumptions),
        "wall_s": round(time.time() - t0, 1),
        "violations": len(violations),
    }
    try:
        ev["coverage"].update(prop.extra_evidence(ctx) or {})
    except Exception as e:
        log("extra_evidence failed", e)
    ev["coverage"].update(ctx.stats)
    os.makedirs(EVID, exist_ok=True)
    with open(os.path.join(EVID, prop.id + ".json"), "w") as f:
        json.dump(ev, f, indent=1, default=str)
    log("%s %s seed=%d: obligations %d/%d, cases %d (distinct non-trivial %d), violations %d, %.1fs" % (
        prop.id, tier, seed, max(0, n_dis_total), n_obl_total, n_eval, n_dist, len(violations), time.time() - t0))
    return rc


def regenerate_only(prop):
    """Rewrite the translated / table Lean files of a property from REPO's current working tree (no build, no run).
    Used by setup.py and after a check was run against another tree (VERIF_REPO), so that lean/EaselModel/Generated
    always reflects /repo when nothing else is going on."""
    if type(prop).generated is Prop.generated:
        return []
    ctx = Ctx(prop, "quick", 1)
    ctx.src = build_lib(prop.sanitize)
    gen = prop.generated(ctx)
    changed = []
    with LakeLock():
        for rel, content in gen.items():
            if write_if_changed(os.path.join(LEAN, rel), content):
                changed.append(rel)
    return changed


def case_still_fails(ctx, case, f):
    impl = run_side(ctx.harness_exe, [case], cwd=ctx.work)[0] or []
    impl = [l for l in impl if l != ""]
    if f.kind == "fault":
        return any(l.startswith("fault ") for l in impl)
    if f.kind == "diverge":
        if not ctx.driver_exe:
            return False
        model = [l for l in (run_side(ctx.driver_exe, [case], cwd=ctx.work)[0] or []) if l != ""]
        if any(l.startswith(("fault ", "atexit ")) for l in impl) or any(l == "bad-op" for l in model + impl):
            return False      # shrinking must not turn a divergence into an ill-formed case
        return ctx.prop.compare(ctx, case, impl, model) is not None
    m = ctx.prop.monitor(ctx, case, impl)
    # hold the failure fixed while shrinking: the same monitor message (up to its first 24 characters), not any failure
    return m is not None and (m.what or "")[:24] == (f.what or "")[:24]
