#!/usr/bin/env python3
"""Entry point: python3 /verif/check.py <Cxx> [--tier quick|thorough] [--replay file]
Exit 0: property held on everything explored. Exit 1 + 'VIOLATION property=<id> replay=<path>' otherwise."""
import sys, os, argparse, importlib
sys.path.insert(0, os.path.dirname(os.path.abspath(__file__)))
from vlib import engine

def main():
    ap = argparse.ArgumentParser()
    ap.add_argument("prop")
    ap.add_argument("--tier", default=os.environ.get("VERIF_TIER", "quick"), choices=["quick", "thorough"])
    ap.add_argument("--replay", default=None)
    a = ap.parse_args()
    seed = int(os.environ.get("VERIF_SEED", "1"))
    mod = importlib.import_module("props." + a.prop.lower())
    rc = engine.run_check(mod.SPEC, a.tier, seed, a.replay)
    sys.exit(rc)

if __name__ == "__main__":
    main()
