#!/bin/sh
# seedtake.sh <Cxx-s>: take a finished seeded change from /tmp/seed/<id>/_seed into /verif/seeded/<id>, confirm it
# (tools/seeded.py verify) and drop the seeder's worktree.
id=$1; src=/tmp/seed/$id; dst=/verif/seeded/$id
[ -f $src/_seed/patch.diff ] || { echo "no patch in $src/_seed"; exit 2; }
mkdir -p $dst; cp $src/_seed/patch.diff $src/_seed/meta.json $dst/; cp $src/_seed/demo.* $dst/ 2>/dev/null
for f in $src/_seed/*; do case $(basename $f) in patch.diff|meta.json|demo.*) ;; *) [ -f $f ] && [ $(stat -c %s $f) -lt 200000 ] && cp $f $dst/ ;; esac; done
git -C /repo worktree remove --force $src 2>/dev/null; rm -rf $src $src-clean; git -C /repo worktree prune
python3 /verif/tools/seeded.py verify $dst | python3 -c "import json,sys; d=json.load(sys.stdin); print({k:v for k,v in d.items() if not k.endswith('tail')})"
