#!/usr/bin/env python3
"""Seeded breaking changes (written by independent sub-agents that never saw /verif).

  seeded.py verify <dir>   confirm in a scratch worktree: patch applies and compiles, the 87-test suite still passes,
                           the demonstration fails with the patch and passes without it
  seeded.py run <dir> [--tier quick] [--props C01,C02]
                           apply patch to /repo, run the check(s) of the property it breaks, undo the patch; record
                           the outcome in <dir>/result.json
  seeded.py runall         run every /verif/seeded/*/ and print a table

A seeded dir holds: patch.diff, demo.sh (usage: demo.sh <tree>; exit 0 = property holds, non-zero = broken; may compile
demo.c next to it against <tree>/libeasel.a), meta.json {property, needs, what_was_run}.
"""
import os, sys, json, subprocess, shutil, tempfile, time, argparse
ROOT = os.path.dirname(os.path.dirname(os.path.abspath(__file__)))
REPO = "/repo"


def sh(cmd, cwd=None, timeout=3600):
    p = subprocess.run(cmd, cwd=cwd, shell=isinstance(cmd, str), stdout=subprocess.PIPE, stderr=subprocess.STDOUT,
                       text=True, errors="replace", timeout=timeout)
    return p.returncode, p.stdout


def make_tree(dst):
    """git worktree of /repo's HEAD plus the (ignored) configure/build products, so that make is incremental"""
    rc, out = sh(["git", "-C", REPO, "worktree", "add", "--detach", dst, os.environ.get("SEED_BASE", "HEAD")])
    if rc != 0:
        raise RuntimeError(out)
    sh("cp -an %s/. %s/" % (REPO, dst))


def drop_tree(dst):
    sh(["git", "-C", REPO, "worktree", "remove", "--force", dst])
    shutil.rmtree(dst, ignore_errors=True)
    sh(["git", "-C", REPO, "worktree", "prune"])


def verify(d):
    d = os.path.abspath(d)
    res = {}
    base = tempfile.mkdtemp(prefix="seedverify.", dir="/var/tmp")
    t_clean, t_mut = os.path.join(base, "clean"), os.path.join(base, "mut")
    try:
        make_tree(t_clean); make_tree(t_mut)
        rc, out = sh(["git", "apply", os.path.join(d, "patch.diff")], cwd=t_mut)
        res["applies"] = rc == 0
        if rc != 0:
            res["apply_output"] = out[-2000:]
            return res
        for t in (t_clean, t_mut):
            rc, out = sh("make -j16 2>&1 | tail -20", cwd=t)
        rc, out = sh("make -j16 && make check", cwd=t_mut, timeout=3600)
        res["compiles"] = "Error" not in out.split("make check")[0] if False else (rc == 0 or "exercises" in out)
        res["suite_passes"] = "All 87 exercises at level <= 2 passed." in out
        if not res["suite_passes"]:
            res["suite_tail"] = out[-1500:]
        rc1, out1 = sh(["sh", os.path.join(d, "demo.sh"), t_clean], cwd=d, timeout=900)
        rc2, out2 = sh(["sh", os.path.join(d, "demo.sh"), t_mut], cwd=d, timeout=900)
        res["demo_passes_on_clean"] = rc1 == 0
        res["demo_fails_on_mutant"] = rc2 != 0
        res["demo_clean_tail"] = out1[-600:]
        res["demo_mutant_tail"] = out2[-600:]
        res["confirmed"] = bool(res["applies"] and res["suite_passes"] and res["demo_passes_on_clean"] and res["demo_fails_on_mutant"])
        return res
    finally:
        drop_tree(t_clean); drop_tree(t_mut)
        shutil.rmtree(base, ignore_errors=True)


def run(d, tier="quick", props=None, inplace=False):
    """Run the check(s) of the broken property against the patched tree.
    Default: a scratch worktree of /repo's HEAD with the patch applied, selected through VERIF_REPO (so that checks of
    other properties running concurrently never see the mutant). --inplace: git -C /repo apply … checkout -- . as the
    task brief describes (only when nothing else is running)."""
    d = os.path.abspath(d)
    meta = json.load(open(os.path.join(d, "meta.json")))
    props = props or [meta["property"]]
    env = dict(os.environ)
    tree = None
    if inplace:
        rc, out = sh(["git", "-C", REPO, "status", "--porcelain", "--untracked-files=no"])
        if out.strip():
            raise RuntimeError("/repo has uncommitted changes; refusing to apply a seeded patch:\n" + out)
        rc, out = sh(["git", "-C", REPO, "apply", os.path.join(d, "patch.diff")])
    else:
        tree = tempfile.mkdtemp(prefix="seedrun.", dir="/var/tmp")
        os.rmdir(tree)
        make_tree(tree)
        rc, out = sh(["git", "apply", os.path.join(d, "patch.diff")], cwd=tree)
        env["VERIF_REPO"] = tree
        env["VERIF_EVIDENCE_DIR"] = os.path.join(d, "evidence-on-mutant")   # never overwrite /verif/evidence with a mutant's run
    if rc != 0:
        if tree: drop_tree(tree)
        return {"applied": False, "output": out[-1500:]}
    res = {"applied": True, "mode": "inplace" if inplace else "scratch-worktree", "checks": {}}
    try:
        for p in props:
            t = time.time()
            pr = subprocess.run(["python3", os.path.join(ROOT, "check.py"), p, "--tier", tier], cwd=ROOT, env=env,
                                stdout=subprocess.PIPE, stderr=subprocess.STDOUT, text=True, errors="replace", timeout=7200)
            rc, out = pr.returncode, pr.stdout
            vl = [l for l in out.split("\n") if l.startswith("VIOLATION")]
            res["checks"][p] = {"exit": rc, "violation_line": vl[0] if vl else None, "wall_s": round(time.time() - t, 1),
                                "tail": out[-800:]}
    finally:
        if inplace:
            sh(["git", "-C", REPO, "checkout", "--", "."])
        else:
            drop_tree(tree)
    res["detected"] = any(c["exit"] == 1 and c["violation_line"] for c in res["checks"].values())
    json.dump(res, open(os.path.join(d, "result.json"), "w"), indent=1)
    # the run regenerated lean/EaselModel/Generated from the mutant: put /repo's version back
    sh(["python3", "-c", "import sys; sys.path.insert(0, %r); import importlib; from vlib import engine\n"
        "for p in %r: engine.regenerate_only(importlib.import_module('props.' + p.lower()).SPEC)" % (ROOT, props)], cwd=ROOT)
    return res


def main():
    ap = argparse.ArgumentParser()
    ap.add_argument("cmd", choices=["verify", "run", "runall"])
    ap.add_argument("dir", nargs="?")
    ap.add_argument("--tier", default="quick")
    ap.add_argument("--props", default=None)
    ap.add_argument("--inplace", action="store_true")
    a = ap.parse_args()
    if a.cmd == "verify":
        r = verify(a.dir)
        json.dump(r, open(os.path.join(a.dir, "verify.json"), "w"), indent=1)
        print(json.dumps(r, indent=1))
    elif a.cmd == "run":
        r = run(a.dir, a.tier, a.props.split(",") if a.props else None, a.inplace)
        print(json.dumps({k: v for k, v in r.items() if k != "checks"} | {"checks": {p: {kk: vv for kk, vv in c.items() if kk != "tail"} for p, c in r.get("checks", {}).items()}}, indent=1))
    else:
        sd = os.path.join(ROOT, "seeded")
        for n in sorted(os.listdir(sd)):
            dd = os.path.join(sd, n)
            if os.path.exists(os.path.join(dd, "patch.diff")):
                r = run(dd, a.tier)
                print("%-28s detected=%s %s" % (n, r.get("detected"), {p: c["exit"] for p, c in r.get("checks", {}).items()}))


if __name__ == "__main__":
    main()
