#!/usr/bin/env python3
"""Run every claimed check (MANIFEST.checks) sequentially in /verif against /repo; print one summary line each."""
import json, subprocess, sys, os, time
ROOT = os.path.dirname(os.path.dirname(os.path.abspath(__file__)))
tier = sys.argv[1] if len(sys.argv) > 1 else "quick"
man = json.load(open(os.path.join(ROOT, "MANIFEST.json")))
bad = 0
for c in man["checks"]:
    t = time.time()
    p = subprocess.run(["python3", os.path.join(ROOT, "check.py"), c["property_id"], "--tier", tier], cwd=ROOT,
                       stdout=subprocess.PIPE, stderr=subprocess.STDOUT, text=True)
    last = [l for l in p.stdout.strip().split("\n") if l.startswith(("[verif] C", "VIOLATION"))]
    print("%s exit=%d %.0fs %s" % (c["property_id"], p.returncode, time.time() - t, " | ".join(last[-2:])), flush=True)
    bad += p.returncode != 0
sys.exit(1 if bad else 0)
