#!/usr/bin/env python3
# recfix.py <property> <key> <commit> : append a 'fixed' record to /verif/known_findings.json using the commit subject
import json, sys, subprocess
prop, key, commit = sys.argv[1:4]
subj = subprocess.check_output(["git","-C","/repo","log","-1","--format=%s",commit], text=True).strip()
what = subj[len("fix: "):] if subj.startswith("fix: ") else subj
p="/verif/known_findings.json"; d=json.load(open(p))
if any(f.get("commit")==commit for f in d["findings"]): sys.exit(0)
d["findings"].append({"property":prop,"key":key,"status":"fixed","commit":commit,"what":what,"record":"fixed: property=%s %s %s"%(prop,commit,what)})
json.dump(d,open(p,"w"),indent=1); print("recorded",commit)
