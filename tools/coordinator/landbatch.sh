#!/bin/sh
# landbatch.sh base1 base2 ... : each base has base.patch + base.msg in /var/tmp/fixes-proposed. One scratch tree with all patches, one make check; then commit each separately.
cd /var/tmp/fixes-proposed
t=/var/tmp/landbatch.$$
git -C /repo worktree add --detach $t HEAD >/dev/null 2>&1 || exit 2
cp -an /repo/. $t/ 2>/dev/null
good=""
for b in "$@"; do
  if (cd $t && (git apply --check $PWD/../fixes-proposed/$b.patch 2>/dev/null || git apply --check /var/tmp/fixes-proposed/$b.patch 2>/dev/null)); then (cd $t && git apply /var/tmp/fixes-proposed/$b.patch 2>/dev/null); good="$good $b";
  elif (cd $t && patch -p1 --dry-run < /var/tmp/fixes-proposed/$b.patch >/dev/null 2>&1); then (cd $t && patch -p1 < /var/tmp/fixes-proposed/$b.patch >/dev/null); good="$good $b";
  else echo "DOES NOT APPLY: $b"; fi
done
(cd $t && make -j16 > $t.make.log 2>&1; make check > $t.check.log 2>&1)
if grep -q "All 87 exercises at level <= 2 passed." $t.check.log; then ok=1; else ok=0; fi
git -C /repo worktree remove --force $t; rm -rf $t; git -C /repo worktree prune
if [ $ok = 1 ]; then
  for b in $good; do
    cd /repo; (git apply /var/tmp/fixes-proposed/$b.patch 2>/dev/null || patch -p1 < /var/tmp/fixes-proposed/$b.patch >/dev/null) && git commit -q -a -F /var/tmp/fixes-proposed/$b.msg && echo "LANDED $(git log -1 --format=%h) $b"
  done
  cd /repo && make -j16 >/dev/null 2>&1
else echo "SUITE FAILED with: $good"; tail -15 $t.check.log; fi
rm -f $t.make.log $t.check.log
