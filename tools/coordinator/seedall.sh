#!/bin/sh
# seedall.sh <k> <N> <listfile>: worker k of N; runs every N-th id of listfile against its own copy /var/tmp/vpost.<k> of /verif
k=$1; N=$2; list=$3
copy=/var/tmp/vpost.$k
i=0
for id in $(cat $list); do
  i=$((i+1)); [ $((i % N)) -eq $((k % N)) ] || continue
  if [ ! -f /verif/seeded/$id/verify.json ] && [ -d /tmp/seed/$id/_seed ]; then sh /verif/tools/seedtake.sh $id > /var/tmp/seedq.done/$id.take 2>&1; fi
  [ -f /verif/seeded/$id/patch.diff ] || continue
  mkdir -p $copy/seeded/$id; rsync -a /verif/seeded/$id/ $copy/seeded/$id/
  python3 $copy/tools/seeded.py run $copy/seeded/$id > /var/tmp/seedq.done/$id.post 2>&1
  cp $copy/seeded/$id/result.json /verif/seeded/$id/result.json 2>/dev/null
  echo "$id done $(date +%H:%M)" >> /var/tmp/seedall.log
done
echo "worker $k finished $(date +%H:%M)" >> /var/tmp/seedall.log
