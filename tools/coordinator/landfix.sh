#!/bin/sh
# landfix.sh <patch> <msgfile> <property> <key> : verify in a scratch worktree (apply, make, make check 87/87), then commit to /repo
p=$1; m=$2; prop=$3; key=$4
t=/var/tmp/landfix.$$
git -C /repo worktree add --detach $t HEAD >/dev/null 2>&1 || exit 2
cp -an /repo/. $t/ 2>/dev/null
cd $t
if ! git apply --check $p 2>/dev/null; then
  if git apply --check -p0 $p 2>/dev/null; then PL=-p0; else echo "PATCH DOES NOT APPLY"; cd /; git -C /repo worktree remove --force $t; exit 3; fi
fi
git apply $PL $p
make -j16 > $t.make.log 2>&1
make check > $t.check.log 2>&1
if grep -q "All 87 exercises at level <= 2 passed." $t.check.log; then ok=1; else ok=0; fi
git diff > $t.diff
cd /; git -C /repo worktree remove --force $t; rm -rf $t; git -C /repo worktree prune
if [ $ok = 1 ]; then
  cd /repo && git apply $t.diff && git commit -q -a -F $m && make -j16 > /dev/null 2>&1
  echo "LANDED $(git -C /repo log -1 --format=%h) $prop $key"
else
  echo "SUITE FAILED"; tail -15 $t.check.log
fi
rm -f $t.make.log $t.check.log $t.diff
