#!/bin/sh
# queue worker: for each id in /var/tmp/seedq: verify (if not yet), then run the pre-round checks on it
while true; do
  for f in /var/tmp/seedq/*; do
    [ -e "$f" ] || continue
    id=$(basename $f)
    if [ ! -f /verif/seeded/$id/verify.json ]; then sh /verif/tools/seedtake.sh $id > /var/tmp/seedq.done/$id.take 2>&1; fi
    mkdir -p /var/tmp/verif-pre/seeded/$id; rsync -a /verif/seeded/$id/ /var/tmp/verif-pre/seeded/$id/
    SEED_BASE=0c757a4 python3 /var/tmp/verif-pre/tools/seeded.py run /var/tmp/verif-pre/seeded/$id > /var/tmp/seedq.done/$id.run 2>&1
    cp /var/tmp/verif-pre/seeded/$id/result.json /verif/seeded/$id/result.json 2>/dev/null
    rm -f $f
  done
  sleep 20
done
