#!/usr/bin/env python3
"""Regenerate the tables of DESIGN.md §11.1 (fix: commits) and §11.3 (seeded changes) from known_findings.json and seeded/*/."""
import json, os, glob, re
ROOT = os.path.dirname(os.path.dirname(os.path.abspath(__file__)))
d = json.load(open(os.path.join(ROOT, "known_findings.json")))
rows = ["| commit | property | defect (failing input) |", "|--------|----------|------------------------|"]
for f in d["findings"]:
    if f.get("status") == "fixed":
        rows.append("| %s | %s | %s |" % (f.get("commit", ""), f["property"], f["what"].replace("|", "\\|")))
fix_tbl = "\n".join(rows)
known = []
for fn in [os.path.join(ROOT, "known_findings.json")] + sorted(glob.glob(os.path.join(ROOT, "known_findings.d", "*.json"))):
    for f in json.load(open(fn)).get("findings", []):
        if f.get("status") == "known":
            known.append("| %s | `%s` | %s |" % (f["property"], f["key"], f["what"].replace("|", "\\|")[:400]))
known_tbl = "\n".join(["| property | key | what fails |", "|---|---|---|"] + known)
rows = ["| seeded change | breaks | what it needs to manifest | confirmed (suite 87/87, demo) | caught by quick check (checks as committed now) | checks as they were BEFORE the change was written (waves f, g) |", "|---|---|---|---|---|---|"]
for sd in sorted(glob.glob(os.path.join(ROOT, "seeded", "*"))):
    if not os.path.exists(os.path.join(sd, "meta.json")):
        continue
    m = json.load(open(os.path.join(sd, "meta.json")))
    v = json.load(open(os.path.join(sd, "verify.json"))) if os.path.exists(os.path.join(sd, "verify.json")) else {}
    r = json.load(open(os.path.join(sd, "result.json"))) if os.path.exists(os.path.join(sd, "result.json")) else {}
    caught = "; ".join("%s: %s" % (p, "VIOLATION" + (" (no-failing-input-found)" if c.get("violation_line") and "no-failing" in c["violation_line"] else "") if c["exit"] == 1 else "missed") for p, c in r.get("checks", {}).items()) or "not run yet"
    pre = ""
    pp = os.path.join(sd, "result_pre_round6.json")
    if os.path.exists(pp):
        rp = json.load(open(pp))
        pre = "; ".join("%s: %s" % (p_, "VIOLATION" + (" (no-failing-input-found)" if c.get("violation_line") and "no-failing" in c["violation_line"] else "") if c["exit"] == 1 and c.get("violation_line") else ("check crashed (exit 1, no VIOLATION line)" if c["exit"] == 1 else "missed")) for p_, c in rp.get("checks", {}).items())
    rows.append("| %s | %s | %s | %s | %s | %s |" % (os.path.basename(sd), m.get("property"), str(m.get("needs", ""))[:260].replace("|", "\\|").replace("\n", " "), "yes" if v.get("confirmed") else "?", caught, pre))
seed_tbl = "\n".join(rows)
p = os.path.join(ROOT, "DESIGN.md")
s = open(p).read()
def sub(name, body):
    global s
    a, b = "<!-- %s:begin -->" % name, "<!-- %s:end -->" % name
    if a in s:
        s = s[:s.index(a) + len(a)] + "\n" + body + "\n" + s[s.index(b):]
    else:
        raise SystemExit("marker %s missing" % name)
sub("fixes", fix_tbl); sub("known", known_tbl); sub("seeded", seed_tbl)
open(p, "w").write(s)
print("DESIGN.md tables regenerated")
