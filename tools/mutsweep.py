#!/usr/bin/env python3
"""Automatic single-site mutation sweep (support tool; not part of any verdict).

  mutsweep.py <Cxx> <file>:<first>-<last> [<file>:<first>-<last> ...] [--max N] [--jobs J] [--out dir]

For each mutable site in the given line ranges of /repo's sources: copy /repo to a scratch tree, apply ONE mutation,
run `check.py Cxx --tier quick` against it (VERIF_REPO / VERIF_SCRATCH / VERIF_EVIDENCE_DIR point into the scratch area,
so /verif/evidence and the shared build cache are untouched) and record killed / survived / does-not-compile.
Survivors are written to <out>/survivors.txt with the diff line, for a human to classify (equivalent vs. gap).
"""
import os, re, sys, json, shutil, subprocess, argparse, random, concurrent.futures as cf
ROOT = os.path.dirname(os.path.dirname(os.path.abspath(__file__)))
REPO = "/repo"

RULES = [
    (r"<=", "<"), (r"(?<![<-])<(?![<=])", "<="), (r">=", ">"), (r"(?<![>-])>(?![>=])", ">="),
    (r"==", "!="), (r"!=", "=="), (r"&&", "||"), (r"\|\|", "&&"),
    (r"\+\+", "--"), (r"(?<!-)--(?!-)", "++"),
    (r"(?<![\w.])(\d+)(?![\w.])", "INC"), (r"(?<![\w.])(\d+)(?![\w.])", "DEC"),
    (r"\+ 1\b", "+ 0"), (r"- 1\b", "- 0"), (r"\+1\b", "+0"), (r"-1\b", "-0"),
    (r"0x([0-9a-fA-F]+)(U?L?L?)", "HEXFLIP"),
]


def mutants_of_line(line):
    code = line.split("/*")[0].split("//")[0]
    if not code.strip() or code.strip().startswith(("#", "*", "ESL_DASSERT")):
        return []
    out = []
    for pat, rep in RULES:
        for m in re.finditer(pat, code):
            if rep == "INC":
                new = str(int(m.group(1)) + 1)
            elif rep == "DEC":
                if int(m.group(1)) == 0: continue
                new = str(int(m.group(1)) - 1)
            elif rep == "HEXFLIP":
                v = int(m.group(1), 16); new = "0x%x%s" % (v ^ (1 << (v.bit_length() // 2)), m.group(2))
            else:
                new = rep
            mutated = line[:m.start()] + new + line[m.end():]
            if mutated != line:
                out.append(mutated)
    # statement deletion for simple statements
    s = code.strip()
    if re.match(r"^[\w\->\[\]\.\*\(\) ]+(\+\+|--|[-+*/|&^]?=[^=]).*;$", s) and "return" not in s and not s.startswith(("int ", "double ", "float ", "uint", "char ", "static ")):
        out.append(re.sub(r"\S.*", "; /* deleted */", line, count=1))
    return out


def run_one(job):
    idx, prop, fn, lineno, newline, outdir = job
    tree = os.path.join(outdir, "t%05d" % idx)
    shutil.rmtree(tree, ignore_errors=True)
    os.makedirs(tree)
    for f in os.listdir(REPO):
        if f.endswith((".c", ".h")):
            shutil.copy2(os.path.join(REPO, f), tree)
    for d in ("miniapps", "formats", "esl_msa_testfiles"):
        if os.path.isdir(os.path.join(REPO, d)):
            shutil.copytree(os.path.join(REPO, d), os.path.join(tree, d), ignore=shutil.ignore_patterns("*.o", "esl-*[!c]"))
    p = os.path.join(tree, fn)
    lines = open(p).read().split("\n")
    old = lines[lineno - 1]
    lines[lineno - 1] = newline
    open(p, "w").write("\n".join(lines))
    env = dict(os.environ, VERIF_REPO=tree, VERIF_SCRATCH=os.path.join(outdir, "scratch"),
               VERIF_EVIDENCE_DIR=os.path.join(outdir, "ev"))
    os.makedirs(env["VERIF_SCRATCH"], exist_ok=True)
    pr = subprocess.run(["python3", os.path.join(ROOT, "check.py"), prop, "--tier", "quick"], cwd=ROOT, env=env,
                        stdout=subprocess.PIPE, stderr=subprocess.STDOUT, text=True, errors="replace")
    out = pr.stdout
    if "does not compile" in out or "lib-build" in out:
        verdict = "nocompile"
    elif pr.returncode == 1 and "VIOLATION" in out:
        verdict = "killed"
    elif pr.returncode == 0:
        verdict = "survived"
    else:
        verdict = "error"
    shutil.rmtree(tree, ignore_errors=True)
    return {"idx": idx, "file": fn, "line": lineno, "old": old.strip(), "new": newline.strip(), "verdict": verdict}


def main():
    ap = argparse.ArgumentParser()
    ap.add_argument("prop"); ap.add_argument("ranges", nargs="+")
    ap.add_argument("--max", type=int, default=200); ap.add_argument("--jobs", type=int, default=3)
    ap.add_argument("--out", default=None); ap.add_argument("--seed", type=int, default=1)
    a = ap.parse_args()
    outdir = a.out or "/var/tmp/mutsweep-%s" % a.prop
    os.makedirs(outdir, exist_ok=True)
    sites = []
    for r in a.ranges:
        fn, rng = r.split(":"); lo, hi = map(int, rng.split("-"))
        lines = open(os.path.join(REPO, fn)).read().split("\n")
        for n in range(lo, min(hi, len(lines)) + 1):
            for m in mutants_of_line(lines[n - 1]):
                sites.append((fn, n, m))
    random.Random(a.seed).shuffle(sites)
    sites = sites[:a.max]
    jobs = [(i, a.prop, fn, n, m, outdir) for i, (fn, n, m) in enumerate(sites)]
    res = []
    with cf.ThreadPoolExecutor(a.jobs) as ex:
        for r in ex.map(run_one, jobs):
            res.append(r)
            print("%(verdict)-9s %(file)s:%(line)d  %(old)s  =>  %(new)s" % r, flush=True)
    json.dump(res, open(os.path.join(outdir, "results.json"), "w"), indent=1)
    with open(os.path.join(outdir, "survivors.txt"), "w") as f:
        for r in res:
            if r["verdict"] == "survived":
                f.write("%(file)s:%(line)d\n   - %(old)s\n   + %(new)s\n" % r)
    k = sum(r["verdict"] == "killed" for r in res); s = sum(r["verdict"] == "survived" for r in res)
    print("mutants %d: killed %d, survived %d, nocompile %d, error %d" % (len(res), k, s,
          sum(r["verdict"] == "nocompile" for r in res), sum(r["verdict"] == "error" for r in res)))
    shutil.rmtree(os.path.join(outdir, "scratch"), ignore_errors=True)


if __name__ == "__main__":
    main()
