#!/usr/bin/env python3
"""seedprep.py <Cxx> <suffix>: make /tmp/seed/<Cxx>-<suffix>, a scratch git worktree of /repo's HEAD with the build
products copied in, holding PROPERTY.txt (the property record only) and PRIOR.txt (one-line summaries of earlier seeded
changes for that property, so that a new one is different). Nothing from /verif's checks goes in."""
import os, sys, json, subprocess, glob
ROOT = os.path.dirname(os.path.dirname(os.path.abspath(__file__)))
pid, suf = sys.argv[1], sys.argv[2]
dst = "/tmp/seed/%s-%s" % (pid, suf)
os.makedirs("/tmp/seed", exist_ok=True)
subprocess.check_call(["git", "-C", "/repo", "worktree", "add", "--detach", dst, "HEAD"], stdout=subprocess.DEVNULL)
subprocess.call("cp -an /repo/. %s/" % dst, shell=True)
for l in open(os.path.join(ROOT, "properties.jsonl")):
    d = json.loads(l)
    if d["id"] == pid:
        open(os.path.join(dst, "PROPERTY.txt"), "w").write(json.dumps(d, indent=1) + "\n")
prior = []
for m in sorted(glob.glob(os.path.join(ROOT, "seeded", pid + "-*", "meta.json"))):
    try:
        prior.append("- " + json.load(open(m)).get("summary", "")[:400].replace("\n", " "))
    except Exception:
        pass
open(os.path.join(dst, "PRIOR.txt"), "w").write("\n".join(prior) + "\n")
os.makedirs(os.path.join(dst, "_seed"), exist_ok=True)
print(dst)
