#!/usr/bin/env python3
"""Rebuild DESIGN.md §12 ("As built, per property") from the builders' final reports: for each heading `### Cxx …` in §12 the body is
replaced by the newest reports/round*/Cxx.md (its first line is the heading), when one exists; sections without a report are kept."""
import os, re, glob
ROOT = os.path.dirname(os.path.dirname(os.path.abspath(__file__)))
p = os.path.join(ROOT, "DESIGN.md")
s = open(p).read()
a = s.index("## 12. As built, per property")
b = s.index("## Appendix A.")
head, body, tail = s[:a], s[a:b], s[b:]
parts = re.split(r"(?m)^(?=### )", body)
intro, secs = parts[0], parts[1:]
def sec12_text(path):
    """a report may be the bare section-12 entry (round 4) or a full report whose LAST '### Cxx' heading starts the entry (round 6)"""
    t = open(path).read().strip()
    hs = [m.start() for m in re.finditer(r"(?m)^### C\d\d", t)]
    if hs:
        t = t[hs[-1]:]
    return t.strip() + "\n\n"


latest = {}
for rd in sorted(glob.glob(os.path.join(ROOT, "reports", "round*"))):
    for f in glob.glob(os.path.join(rd, "C*.md")):
        latest[os.path.basename(f)[:-3]] = f
used = set()
out = [intro]
for sec in secs:
    m = re.match(r"### (C\d\d)", sec)
    ids = re.findall(r"C\d\d", sec.split("\n", 1)[0])
    rep = [i for i in ids if i in latest]
    if m and ids and ids[0] in latest:
        txt = sec12_text(latest[ids[0]])
        if not txt.startswith("### "):
            txt = sec.split("\n", 1)[0] + "\n" + txt
        out.append(txt); used.add(ids[0])
        for i in ids[1:]:
            if i not in latest: used.add(i)
    else:
        out.append(sec)
        for i in rep:
            pass
# reports for properties that share a combined heading (C02/C04/C07, C01/C03) are appended after the combined section
extra = [k for k in sorted(latest) if k not in used]
if extra:
    sep = "---------------------------------------------------------------------------\n"
    last = out[-1]
    if last.rstrip().endswith("-" * 20):
        out[-1] = last[:last.rstrip().rfind("\n") + 1]
    else:
        sep = ""
    for k in extra:
        txt = sec12_text(latest[k])
        out.append(txt)
    out.append("---------------------------------------------------------------------------\n\n" if sep else "")
open(p, "w").write(head + "".join(out) + tail)
print("§12 rebuilt; replaced:", sorted(used), "appended:", extra)
