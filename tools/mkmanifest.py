#!/usr/bin/env python3
"""Regenerate MANIFEST.json from the property plug-ins (props/cXX.py with SPEC.claimed = True)."""
import os, sys, json, importlib, glob
ROOT = os.path.dirname(os.path.dirname(os.path.abspath(__file__)))
sys.path.insert(0, ROOT)
ids = [json.loads(l)["id"] for l in open(os.path.join(ROOT, "properties.jsonl"))]
man = json.load(open(os.path.join(ROOT, "MANIFEST.json")))
checks, na = [], []
for i in ids:
    p = os.path.join(ROOT, "props", i.lower() + ".py")
    spec = None
    if os.path.exists(p):
        spec = importlib.import_module("props." + i.lower()).SPEC
    if spec is not None and getattr(spec, "claimed", False):
        checks.append({
            "property_id": i,
            "quick_cmd": "python3 /verif/check.py %s --tier quick" % i,
            "thorough_cmd": "python3 /verif/check.py %s --tier thorough" % i,
            "evidence_file": "/verif/evidence/%s.json" % i,
            "replay_cmd_template": "python3 /verif/check.py %s --replay {path}" % i,
            "engine": "lean4-proof+correspondence",
            "level_claimed": {"category": "proof", "text": spec.level_text, "design_ref": "DESIGN.md §5 " + i},
            "level_note": spec.level_note,
            "technique": spec.technique,
        })
    else:
        reason = getattr(spec, "na_reason", None) or "check not built yet in this round: the Lean model, theorems and correspondence for this property are not in place, so nothing is claimed (technique applies; see DESIGN.md §5 %s)" % i
        na.append({"property_id": i, "reason": reason})
man["checks"] = checks
man["not_applicable"] = na
man["setup_cmd"] = "python3 /verif/setup.py"
man["engines"] = [{"name": "lean4-proof+correspondence", "path": "/verif/check.py",
                   "serves_properties": [c["property_id"] for c in checks],
                   "kind_free_text": "Lean 4 theorems about an executable model (lake build + #print axioms audit + forbidden-construct grep) tied to /repo's working tree by regeneration (translators) and/or a differential correspondence run against an ASan/UBSan build, with property monitors for the failing-input search"}]
json.dump(man, open(os.path.join(ROOT, "MANIFEST.json"), "w"), indent=1)
print("claimed:", [c["property_id"] for c in checks])
