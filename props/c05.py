"""C05 — the input buffer behaves as bytes + cursor in every mode and history.
Model: lean/EaselModel/Buffer/*, theorems: Props/C05.lean, driver: Driver/C05.lean, harness: h_buffer.c"""
from vlib.engine import Prop, Failure

MODES = ["string", "stream", "pipe", "file", "allfile", "mmap"]
VARIANTS = ["cstring", "pipe0"]   # OpenMem(p, -1) on a NUL-free input; OpenPipe(NULL, complete command)
NATURAL = ["auto", "open"]     # esl_buffer_OpenFile / esl_buffer_Open without forcing: mode chosen from the file size (slurped here)
PAGES = [1, 2, 3, 4, 5, 7, 8, 16, 64, 512, 4096, 1024, 8192]   # the last two: appended (wild cases use PAGES[:9])
K_STABLE = "C05:stable-anchor:realloc-in-refill"
K_MEMEND = "C05:setoffset:beyond-end-in-memory"
K_AHEAD = "C05:anchor:ahead-of-cursor"
K_READ0 = "C05:read:zero-bytes-null-mem"


def hx(b):
    return b.hex() if b else "-"


class Spec:
    """The abstract specification 'bytes + cursor' (python copy of EaselModel/Buffer/Spec.lean), used as the oracle
    of the monitor and to generate valid histories. The anchor bookkeeping is the code's, in absolute offsets."""
    def __init__(self, src):
        self.src, self.cur = src, 0
        self.anchor, self.nanch = None, 0
        self.lastp = None            # offset of the pointer handed out by the last Get* call
        self.x = False               # extended contract ValidHistX (HistoryX.lean; streams and pipes read in pages): SetOffset beyond the end, ahead of the cursor

    def issep(self, sep, c):
        return c == 0 or c in sep

    def line(self):
        s, c = self.src, self.cur
        if c >= len(s): return ("eof", b"", c)
        i = s.find(b"\n", c)
        if i < 0: return ("ok", s[c:], len(s))
        e = i - 1 if (i > c and s[i - 1] == 13) else i
        return ("ok", s[c:e], i + 1)

    def token(self, sep):
        s, c = self.src, self.cur
        while c < len(s) and self.issep(sep, s[c]): c += 1
        if c == len(s): return ("eof", b"", c, None)
        if s[c] == 10: return ("eol", b"", c + 1, None)
        if s[c] == 13 and c + 1 < len(s) and s[c + 1] == 10: return ("eol", b"", c + 2, None)
        e = c + 1
        while e < len(s) and not self.issep(sep, s[e]) and s[e] != 10: e += 1
        if e < len(s) and s[e] == 10 and s[e - 1] == 13: e -= 1
        c2 = e
        while c2 < len(s) and self.issep(sep, s[c2]): c2 += 1
        return ("ok", s[c:e], c2, c)

    def brk(self, t):
        """aBrk of SpecHist.lean: the bracket SetAnchor(t)..RaiseAnchor(t) of a line/token call removes an anchor ahead of t"""
        if self.anchor is not None and self.anchor > t: self.anchor, self.nanch = None, 0

    # validity of positioning ops (mode independent part of the API contract)
    def anchor_ok(self, o):
        return o <= self.cur and (o == self.cur or (self.anchor is not None and o >= self.anchor))

    def setoffset_ok(self, o):
        # a byte of the input; or, while an anchor is set, also the position just after the last byte (legal since 70e58ff)
        inrange = o < len(self.src) or (o == len(self.src) and self.anchor is not None)
        return inrange and (o >= self.cur or (self.anchor is not None and o >= self.anchor))

    def apply(self, op):
        """returns dict(st=, bytes=, n=, off=, kind=) expected for a valid op, or None if the op is outside the contract"""
        w = op.split()
        kv = dict(x.split("=", 1) for x in w[1:] if "=" in x)
        name = w[0]
        null = name.endswith("0")          # the call with NULL result pointers: same effect, nothing handed out
        if null: name = name[:-1]
        lastp, self.lastp = self.lastp, None
        r = None
        if name in ("getline", "fetchline", "fetchlinestr"):
            st, b, nxt = self.line()
            self.brk(self.cur)
            if st == "ok" and name == "getline": self.lastp = self.cur
            self.cur = nxt
            r = dict(st=st, bytes=b, n=len(b), z=(name == "fetchlinestr" and st == "ok"))
        elif name in ("gettoken", "fetchtoken", "fetchtokenstr"):
            sep = bytes.fromhex(kv["sep"]) if kv["sep"] != "-" else b""
            st, b, nxt, start = self.token(sep)
            if st == "ok": self.brk(start)
            if st == "ok" and name == "gettoken": self.lastp = start
            self.cur = nxt
            r = dict(st=st, bytes=b, n=len(b), z=(name == "fetchtokenstr" and st == "ok"), tok=True)
        elif name == "read":
            k = int(kv["k"])
            if len(self.src) - self.cur < k: r = dict(st="eof", bytes=b"", n=0, read=k)
            else:
                r = dict(st="ok", bytes=self.src[self.cur:self.cur + k], n=k, read=k); self.cur += k
        elif name == "get":
            if self.cur < len(self.src):
                r = dict(st="ok", get=True); self.lastp = self.cur
            else: r = dict(st="eof", bytes=b"", n=0)
        elif name == "set":
            if lastp is not None: self.cur = lastp + int(kv["k"])
            r = dict(st="ok", bytes=b"", n=0)
        elif name == "getoffset":
            r = dict(st="ok", bytes=b"", n=0)
        elif name == "setoffset":
            o = int(kv["o"])
            if self.x and o > len(self.src) and o > self.cur and (self.x is True or self.anchor is not None):   # x = "anchored": class ValidHistXA (every paged opener, FILE included)
                # specStepX: eslEINVAL, the stream has been read to its end, the cursor stands there, anchors kept
                self.cur = max(self.cur, len(self.src))
                r = dict(st="einval", bytes=b"", n=0)
            elif not self.setoffset_ok(o): return None
            else:
                self.cur = o
                r = dict(st="ok", bytes=b"", n=0)
        elif name in ("setanchor", "setstable"):
            o = int(kv["o"])
            if not self.anchor_ok(o): return None
            if self.anchor is None or o < self.anchor: self.anchor, self.nanch = o, 1
            elif o == self.anchor: self.nanch += 1
            r = dict(st="ok", bytes=b"", n=0)
        elif name == "raise":
            o = int(kv["o"])
            if self.anchor is not None and o == self.anchor:
                self.nanch -= 1
                if self.nanch == 0: self.anchor = None
            r = dict(st="ok", bytes=b"", n=0)
        else:
            return None
        r["off"] = self.cur
        if null:
            r["bytes"], r["n"], r["z"] = b"", 0, False
            self.lastp = None
        return r


def mem_apply(sp, op):
    """python copy of `memStep` (EaselModel/Buffer/MemSpecStep.lean): the TOTAL specification of a whole-input buffer (anchors are no-ops,
    SetOffset anywhere up to the end, eslEINVAL beyond it); returns the expected dict, or "unsafe" for a tryset outside CallerOk"""
    w = op.split(); name = w[0]
    kv = dict(x.split("=", 1) for x in w[1:] if "=" in x)
    if name.startswith("try"): name = name[3:]
    if name in ("setanchor", "setstable", "raise"):
        sp.lastp = None
        return dict(st="ok", bytes=b"", n=0, off=sp.cur)
    if name == "setoffset":
        sp.lastp = None
        o = int(kv["o"])
        if o > len(sp.src): return dict(st="einval", bytes=b"", n=0, off=sp.cur)
        sp.cur = o
        return dict(st="ok", bytes=b"", n=0, off=o)
    if name == "set" and sp.lastp is not None and sp.lastp + int(kv["k"]) > len(sp.src):
        sp.lastp = None
        return "unsafe"
    return sp.apply(" ".join([name] + w[1:]))


def is_mem_case(case):
    src, ps_eff, ps, mode = case_cfg(case["ops"][0])
    return mode in ("string", "cstring", "allfile", "mmap", "auto", "open") or (mode in ("pipe", "pipe0") and len(src) < ps_eff)


def case_cfg(open_line):
    """(src, page size in force, lower bound of the page size, mode) of a case's `open` line"""
    if open_line.startswith("fsopen"): return open_case_cfg(open_line)   # round4-open
    kv = dict(x.split("=", 1) for x in open_line.split()[1:] if "=" in x)
    src = (bytes.fromhex(kv["hex"]) if kv["hex"] != "-" else b"") * int(kv.get("rep", "1"))
    ps = int(kv["ps"])
    return src, (ps if ps > 0 else 4096), (ps if ps > 0 else 512), kv["mode"]


def parse_out(l):
    w = l.split()
    d = {"st": w[0], "hex": w[1] if len(w) > 1 else "-"}
    for x in w[2:]:
        if "=" in x:
            k, v = x.split("=", 1); d[k] = v
    return d


# BEGIN round4-mem
# ---- esl_mem.c string/number helpers (stateless ops; model lean/EaselModel/Buffer/Mem.lean, protocol MemDriver.lean) ----
MEM_THEOREMS = ["EaselModel.Props.C05." + t for t in (
    "strtoi32_spec", "strtoi64_spec", "strtoi_spec_any_width", "strtoi_eq_specRes", "memspn_spec", "memcspn_spec", "memtok_spec",
    "memtok_split_meaning", "memtok_eol_iff", "memstrcmp_spec", "memstrpfx_spec", "memstr_case_spec", "memstrcontains_spec", "memstrdup_spec", "memIsReal_spec", "memIsReal_no_fault", "memIsRealL_spec", "memIsRealL_no_fault", "memIsRealL_sound")]
MEM_LEVEL_TEXT = ("esl_mem.c helpers (round 4): esl_mem_strtoi32/64/strtoi satisfy Mem.StrtoiSpec for every byte string and base (EINVAL/EFORMAT/ERANGE/OK each by an iff on an "
                  "independent parse, nc and val in every case, no fault: no out-of-bounds read, no signed overflow); esl_memspn/memcspn = longest prefix in/not in the C-string set; "
                  "esl_memtok = takeWhile/dropWhile cut (EOL iff only delimiters; pieces concatenate to the input; *p/*n as left by the code); esl_memstrcmp/strpfx/strcontains (+_case) = "
                  "equality/prefix/infix with the C string incl. the NULL conventions; esl_memstrdup/strcpy = bytes + NUL; esl_mem_IsReal (since fix 8112354, model Mem.memIsRealL) = Mem.isRealSpecL: a number must start right after the blanks and one sign (memIsRealL_spec, memIsRealL_sound), never faults; memIsReal_spec is the regression theorem about the function before the fix. "
                  "Model tied to the working tree by ~5000 exact stateless ops per run on exactly sized blocks (ASan+UBSan), python oracle of the specification as monitor.")
MEM_ASSUMPTIONS = ["esl_mem.c: `int` is 32 bits (esl_mem_strtoi is checked against the int32 model); line lengths < 2^31 (nc is an int); <ctype.h> in the C locale (glibc tables, bytes >= 0x80 in no class); "
                   "esl_mem_strtof/esl_memtod/esl_memtof (floating point) are not modelled; esl_mem_IsReal (repaired, 8112354) is specified as isRealSpecL: sound for its header (whatever it accepts starts with a number that atof() converts) but deliberately tolerant of bytes attached to the END of the number (\"1x\", Pfam's \"25.00;\"), and it refuses inf/nan and \"10.0 foo\", which atof() converts"]
MEM_TRUSTED = ["hand model EaselModel/Buffer/Mem.lean of the esl_mem.c helpers, tied by exact differential run of stateless ops (h_buffer.c: mem_op, exactly sized malloc blocks, ASan+UBSan)",
               "python re-statement of the strtoi/memspn/memtok/memstr* specifications used by the monitor (props/c05.py: mem_spec)"]
MEM_WS = b" \t\n\v\f\r"
MEM_BASES = [0] + list(range(2, 37))
MEM_BADBASES = [-1, 1, 37, -16, 100]
MEM_DIG = "0123456789abcdefghijklmnopqrstuvwxyz"


def mem_cstr(b):
    i = b.find(b"\x00")
    return b if i < 0 else b[:i]


def mem_spec_strtoi(p, base, bits):
    """independent re-statement of the specification of esl_mem_strtoi{32,64,}: the answer line"""
    if base < 0 or base == 1 or base > 36: return "einval nc=untouched val=untouched"
    lo, hi = -(1 << (bits - 1)), (1 << (bits - 1)) - 1
    i = 0
    while i < len(p) and p[i] in MEM_WS: i += 1
    neg = p[i:i + 1] == b"-"
    if neg: i += 1
    nd = 0
    if base in (0, 16) and p[i:i + 2] == b"0x": i, base = i + 2, 16
    elif base == 0 and p[i:i + 1] == b"0": i, base, nd = i + 1, 8, 1
    elif base == 0: base = 10
    v = 0
    while i < len(p):
        c = p[i]
        d = c - 48 if 48 <= c <= 57 else c - 55 if 65 <= c <= 90 else c - 87 if 97 <= c <= 122 else 99
        if d >= base: break
        v, i, nd = v * base + d, i + 1, nd + 1
        if (-v if neg else v) < lo: return "erange nc=%d val=%d" % (i, lo)
        if (-v if neg else v) > hi: return "erange nc=%d val=%d" % (i, hi)
    if nd == 0: return "eformat nc=0 val=0"
    return "ok nc=%d val=%d" % (i, -v if neg else v)


def mem_spec(op):
    """expected answer line of a mem op by the python oracle (None: no oracle for it)"""
    w = op.split()
    kv = dict(x.split("=", 1) for x in w[1:] if "=" in x)
    def hb(k):
        v = kv.get(k)
        return None if v == "null" else b"" if v == "-" else bytes.fromhex(v)
    name = w[0]
    p = hb("hex")
    if name in ("strtoi32", "strtoi"): return mem_spec_strtoi(p, int(kv["base"]), 32)
    if name == "strtoi64": return mem_spec_strtoi(p, int(kv["base"]), 64)
    if name in ("memspn", "memcspn"):
        st = mem_cstr(hb("set")); k = 0
        while k < len(p) and ((p[k] == 0 or p[k] in st) == (name == "memspn")): k += 1
        return "n=%d" % k
    if name == "memtok":
        d = mem_cstr(hb("delim")); isd = lambda c: c == 0 or c in d
        so = 0
        while so < len(p) and isd(p[so]): so += 1
        xo = so
        while xo < len(p) and not isd(p[xo]): xo += 1
        eo = xo
        while eo < len(p) and isd(p[eo]): eo += 1
        if so == len(p): return "eol tok=null at=0 off=0 n=%d" % len(p)
        return "ok tok=%s at=%d off=%d n=%d" % (hx(p[so:xo]), so, eo, len(p) - eo)
    if name == "memnewline":
        i = p.find(b"\n")
        if i < 0: return "ok nline=%d nterm=0" % len(p)
        if i > 0 and p[i - 1] == 13: return "ok nline=%d nterm=2" % (i - 1)
        return "ok nline=%d nterm=1" % i
    if name in ("memstrcmp", "memstrpfx", "memstrcontains", "memstrcmp_case", "memstrpfx_case"):
        s = hb("s")
        up = lambda b: bytes((c - 32 if 97 <= c <= 122 else c) for c in b)
        if name.startswith("memstrcmp") and p is None: return "r=%d" % (s is None or mem_cstr(s) == b"")
        if p is None or s is None: return "r=0"
        s = mem_cstr(s)
        if name.endswith("_case"): p, s = up(p), up(s)
        if name.startswith("memstrcmp"): return "r=%d" % (p == s)
        if name.startswith("memstrpfx"): return "r=%d" % p.startswith(s)
        return "r=%d" % (len(p) > 0 and s in p)       # the code answers FALSE on an empty line, even for the empty string
    if name == "memisreal":
        # what the code accepts (Mem.isRealSpec), stated without a scan: blanks, optional sign, a blank-free body with a digit,
        # at most one '.', at most one e/E, no '.' after the e/E (any other byte of the body is passed over), blanks
        if not p: return "r=0"
        r = p.lstrip(MEM_WS)
        if r[:1] in (b"-", b"+"): r = r[1:]
        j = 0
        while j < len(r) and r[j] not in MEM_WS: j += 1
        body, tail = r[:j], r[j:]
        es = [k for k, c in enumerate(body) if c in b"eE"]
        ok = (tail.strip(MEM_WS) == b"" and any(48 <= c <= 57 for c in body) and body.count(b".") <= 1 and len(es) <= 1
              and not (es and b"." in body[es[0]:]))
        if MEM_STATE["isreal_start"]:
            # fix C05-mem-isreal-garbage (round 6): the number must start right after the blanks and the sign (digit, or '.' + digit)
            ok = ok and (48 <= (r[:1] or b"x")[0] <= 57 or (r[:1] == b"." and 48 <= (r[1:2] or b"x")[0] <= 57))
        if MEM_STATE["isreal_strict"]:
            # the repaired code: only digits, '.', 'e'/'E', and a sign directly after the e/E
            for k, c in enumerate(body):
                if 48 <= c <= 57 or c in b".eE": continue
                if c in b"+-" and es and k == es[0] + 1: continue
                ok = False
        return "r=%d" % ok
    if name == "memstrdup": return "ok null" if p is None else "ok " + hx(p + b"\x00")
    if name == "memstrcpy": return "ok " + hx(p + b"\x00")
    return None


def mem_num(rng, bits=None):
    """one boundary-rich numeric text (bytes) and a base"""
    base = rng.choice(MEM_BASES) if rng.random() < 0.93 else rng.choice(MEM_BADBASES)
    b = base if 2 <= base <= 36 else rng.choice([8, 10, 16])
    bits = bits or rng.choice([32, 32, 64])
    hi = (1 << (bits - 1)) - 1
    r = rng.random()
    if r < 0.45:
        v = rng.choice([hi, hi + 1, hi + 2, hi - 1, hi // b, hi // b + 1, (hi + 1) // b, hi * b, (hi + 1) * b - 1, (hi // b) * b, (hi // b) * b + b - 1,
                        hi - rng.randrange(0, 40), hi + rng.randrange(0, 40), (1 << 31) - 1, 1 << 31, (1 << 31) + 1, (1 << 63) - 1, 1 << 63, (1 << 63) + 1, (1 << 32), (1 << 64)])
    elif r < 0.6: v = rng.choice([0, 0, 1, 7, 8, 9, 10, 15, 16, 35, 36, rng.randrange(0, 1000)])
    elif r < 0.8: v = rng.randrange(0, 1 << rng.randrange(1, 70))
    else: v = rng.randrange(0, 1 << rng.randrange(60, 200))
    ds = ""
    while True:
        ds = MEM_DIG[v % b] + ds; v //= b
        if v == 0: break
    ds = "".join(c.upper() if rng.random() < 0.3 else c for c in ds)
    if rng.random() < 0.15: ds = "0" * rng.randrange(1, 40) + ds
    if rng.random() < 0.06: ds = ""
    ws = bytes(rng.choice(MEM_WS) for _ in range(rng.choice([0, 0, 0, 1, 1, 2, 6])))
    sign = rng.choice([b"", b"", b"-", b"-", b"-", b"+", b"--", b"- "]) if rng.random() < 0.9 else b""
    pfx = rng.choice([b"", b"", b"", b"0x", b"0x", b"0X", b"0", b"00", b"0x0x", b"x"]) if (base in (0, 16) or rng.random() < 0.15) else b""
    tail = rng.choice([b"", b"", b"", b" ", b"\n", b"z", b"Z", b"g", b"G", b"8", b"9", b"a", b".5", b"\x00", b"\x001", b"\xff", b"\x80\xb1", b"_", b"@", b"[", b"`", b"{", b"/", b":", b"-1", b" 12"])
    s = ws + sign + pfx + ds.encode() + tail
    if rng.random() < 0.04: s = rng.choice([b"", b"-", b"0x", b"0X", b"-0x", b"0", b"-0", b" ", b"0xg", b"0x-1", b"-0x1f", b"\xb1", b"\x00", b"+1", b" \t\n\v\f\r7", b"08", b"0x8", b"0b1", b"\x1c1", b"\xa01"])
    return s, base


def mem_rand_bytes(rng, alpha, n):
    return bytes(rng.choice(alpha) for _ in range(n))


def mem_gen_op(rng):
    r = rng.random()
    if r < 0.5:
        s, base = mem_num(rng)
        return "%s hex=%s base=%d" % (rng.choice(["strtoi32", "strtoi32", "strtoi64", "strtoi64", "strtoi"]), hx(s), base)
    sets = [b"", b" ", b" \t", b" \t\r\n", b",;", b"a", b"ab", b"\xff", b"\x80 \xfe", b" \x00\t", b"\x00", b"ab\x00c", b"\n", b"abcdefgh"]
    if r < 0.68:
        st = rng.choice(sets) if rng.random() < 0.8 else mem_rand_bytes(rng, range(256), rng.randrange(0, 5))
        alpha = list(st) * 3 + list(b"ab \t,x\x00\xff\x80\n") if rng.random() < 0.8 else list(range(256))
        p = mem_rand_bytes(rng, alpha, rng.choice([0, 0, 1, 2, 3, 5, 8, 13, 40]))
        name = rng.choice(["memspn", "memcspn", "memtok", "memtok"])
        return "%s hex=%s %s=%s" % (name, hx(p), "delim" if name == "memtok" else "set", hx(st))
    if r < 0.72:
        p = mem_rand_bytes(rng, b"ab\r\n\n\r ", rng.choice([0, 1, 2, 3, 5, 9, 30]))
        return "memnewline hex=" + hx(p)
    if r < 0.93:
        name = rng.choice(["memstrcmp", "memstrpfx", "memstrcontains", "memstrcontains", "memstrcmp_case", "memstrpfx_case"])
        alpha = rng.choice([b"ab", b"abAB", b"aA\x00", b"ab\xe1\xc1", b"abc@`[{"])
        s = mem_rand_bytes(rng, alpha, rng.choice([0, 1, 1, 2, 3, 4, 6]))
        q = rng.random()
        if q < 0.25: p = s
        elif q < 0.4: p = s + mem_rand_bytes(rng, alpha, rng.randrange(0, 4))
        elif q < 0.55: p = mem_rand_bytes(rng, alpha, rng.randrange(0, 5)) + s + mem_rand_bytes(rng, alpha, rng.randrange(0, 3))
        elif q < 0.65: p = s[:-1] if s else s
        elif q < 0.75: p = bytes((c ^ 32 if 65 <= (c & ~32) <= 90 and rng.random() < 0.5 else c) for c in s)
        else: p = mem_rand_bytes(rng, alpha, rng.choice([0, 1, 2, 3, 5, 9]))
        ph = "null" if rng.random() < 0.04 else hx(p)
        sh = "null" if rng.random() < 0.04 else hx(s)
        return "%s hex=%s s=%s" % (name, ph, sh)
    if r < 0.96:
        p = mem_rand_bytes(rng, b"ab\x00\xff ", rng.choice([0, 1, 2, 5, 17]))
        return rng.choice(["memstrdup hex=" + hx(p), "memstrcpy hex=" + hx(p), "memstrdup hex=null"])
    p = mem_rand_bytes(rng, rng.choice([b"0123456789.eE-+ \t", b"12.e- x\xff\x00", b"1.e \n", b"12e"]), rng.choice([0, 1, 2, 3, 5, 8]))
    return "memisreal hex=" + ("null" if rng.random() < 0.05 else hx(p))


def mem_case(name, ops):
    return {"name": name, "ops": ops, "sticky": 0, "mem": True, "nomonitor": True}


def mem_corpus():
    out = []
    # genuine defect (model kept faithful to the code): esl_mem_IsReal passes over any byte that is not a digit, '.', 'e', 'E' or a blank
    if not MEM_STATE["isreal_start"]:
        out.append(dict(mem_case("known-isreal-garbage", ["memisreal hex=" + hx(b"1x"), "memisreal hex=" + hx(b"abc1"), "memisreal hex=" + hx(b"--1")]), known_key=K_ISREAL))
    else:
        # regression (fix C05-mem-isreal-garbage): nothing but blanks and one sign may precede the number; what is attached to its end is
        # tolerated as atof() does ("25.00;" on a Pfam #=GF GA line)
        out.append(mem_case("reg-isreal-garbage", ["memisreal hex=" + hx(t) for t in (b"1x", b"abc1", b"--1", b"+-1", b"e5", b"x.5", b".e1", b".", b"-.", b" -.5 ", b"25.00;", b".5", b"5.", b"+5.e3", b" \t-1", b"- 1")]))
    fixed = [b"", b"-", b"0x", b"0X1", b"0", b"-0", b"00", b"08", b"0x8", b"0xg", b"-0x1f", b"0x1F", b" 0x", b"2147483647", b"2147483648", b"-2147483648", b"-2147483649",
             b"9223372036854775807", b"9223372036854775808", b"-9223372036854775808", b"-9223372036854775809", b" \t\n\v\f\r42z", b"+1", b"7fffffff", b"80000000",
             b"-80000000", b"-80000001", b"zz", b"ZZ", b"\xb1", b"1\x002", b"12 34", b"0x7fffffff", b"0x80000000", b"017777777777", b"020000000000", b"-020000000000", b"-020000000001"]
    for fn in ("strtoi32", "strtoi64", "strtoi"):
        for base in [0, 2, 8, 10, 16, 36, -1, 1, 37]:
            out.append(mem_case("mem-%s-b%d" % (fn, base), ["%s hex=%s base=%d" % (fn, hx(t), base) for t in fixed]))
    # every base: its largest in-range and smallest out-of-range magnitude, both signs, both widths
    for bits, fn in ((32, "strtoi32"), (64, "strtoi64"), (32, "strtoi")):
        ops = []
        for b in range(2, 37):
            for v in ((1 << (bits - 1)) - 1, 1 << (bits - 1), (1 << (bits - 1)) + 1):
                ds = ""
                while v: ds, v = MEM_DIG[v % b] + ds, v // b
                ops += ["%s hex=%s base=%d" % (fn, hx(ds.encode()), b), "%s hex=%s base=%d" % (fn, hx(b"-" + ds.upper().encode()), b)]
        out.append(mem_case("mem-%s-limits" % fn, ops))
    lines = [b"", b" ", b"a", b"  a", b"a  ", b" ab  cd ", b"ab", b"\x00a\x00", b" \xffa", b"a,b", b",,", b"a\x00b"]
    dl = [b" ", b"", b" ,", b"\xff", b" \x00,", b"a"]
    out.append(mem_case("mem-tok", ["%s hex=%s %s=%s" % (f, hx(l), "delim" if f == "memtok" else "set", hx(d)) for l in lines for d in dl for f in ("memtok", "memspn", "memcspn")]))
    out.append(mem_case("mem-newline", ["memnewline hex=" + hx(l) for l in (b"", b"\n", b"\r", b"\r\n", b"a", b"a\n", b"a\r\n", b"a\rb\n", b"\n\r\n", b"ab\r\r\nc", b"a\r")]))
    ss = [b"", b"a", b"ab", b"AB", b"aB", b"ba", b"a\x00b", b"\x00", b"\xe1", b"\xc1", b"@", b"`"]
    out.append(mem_case("mem-str", ["%s hex=%s s=%s" % (f, ("null" if l is None else hx(l)), ("null" if t is None else hx(t)))
                                   for f in ("memstrcmp", "memstrpfx", "memstrcontains", "memstrcmp_case", "memstrpfx_case")
                                   for l in ss + [None, b"xab", b"aab", b"abab"] for t in ss + [None]]))
    out.append(mem_case("mem-dup", ["memstrdup hex=null", "memstrdup hex=-", "memstrcpy hex=-", "memstrdup hex=6100ff", "memstrcpy hex=6100ff"] +
                        ["memisreal hex=" + ("null" if l is None else hx(l)) for l in (None, b"", b" ", b"1", b" -1.5e3 ", b"1x", b"1e-5", b"e", b".", b"1.2.3", b"1e2e3", b"1e.5", b"1 2", b"+", b"x1", b"\xff1")]))
    return out


def mem_cases(rng, quick):
    ncases = 44 if quick else 600
    return [mem_case("mem%d" % i, [mem_gen_op(rng) for _ in range(50)]) for i in range(ncases)]


K_ISREAL = "C05:mem:isreal-accepts-garbage"
MEM_STATE = {"isreal_strict": False, "isreal_start": True}


def mem_generated(ctx):
    """Until round 6 the model of esl_mem_IsReal followed the working tree (regenerated MemConsts.lean). Since fix 8112354 the repaired function IS the
    model (MemConsts.lean is a fixed file: isRealStart = true): a tree without the start test diverges from it on 'abc1', '--1', 'e5' (corpus case
    reg-isreal-garbage and the generated numeric texts with leading garbage) and is reported with that input."""
    return {}


def mem_isreal_documented(b):
    """esl_mem_IsReal's header: TRUE iff the bytes are 'convertible to a floating point real number by the rules of atof()' (the string
    version esl_str_IsReal: strtod converts and only whitespace is left); inf/nan are not accepted by the mem version"""
    try:
        t = b.decode("ascii").strip(" \t\n\v\f\r")
        if not t or any(c in t for c in "_nNiIxX"): return False
        float(t); return True
    except Exception:
        return False


def mem_monitor(case, out):
    """the implementation's answers against the python oracle of the specification"""
    for i, (op, l) in enumerate(zip(case["ops"], out)):
        if l.startswith(("fault", "atexit")): return None       # reported by the engine as a fault
        if case.get("known_key") == K_ISREAL and op.startswith("memisreal") and "hex=null" not in op:
            # known finding, reported on its witness only: the code (and the model, which mirrors it) passes over garbage bytes
            w = dict(x.split("=", 1) for x in op.split()[1:])
            b = bytes.fromhex(w["hex"]) if w["hex"] != "-" else b""
            if l.strip() == "r=1" and not mem_isreal_documented(b):
                return Failure("monitor", "op %d: esl_mem_IsReal(%r) answered TRUE; its header says TRUE iff the bytes are a real number by the rules of atof()" % (i, b), key=K_ISREAL)
        want = mem_spec(op)
        if want is not None and l.strip() != want:
            return Failure("monitor", "op %d %r answered %r, the specification says %r" % (i, op[:120], l[:80], want[:80]))
    return None


def mem_stats(cases):
    """input distribution of the mem ops of a run (for the evidence file)"""
    ops, bases, maxlen = {}, {}, 0
    for c in cases:
        if not c.get("mem"): continue
        for o in c["ops"]:
            w = o.split(); ops[w[0]] = ops.get(w[0], 0) + 1
            for x in w[1:]:
                if x.startswith("base="): bases[x[5:]] = bases.get(x[5:], 0) + 1
                if x.startswith("hex=") and x != "hex=null" and x != "hex=-": maxlen = max(maxlen, len(x[4:]) // 2)
    return {"cases": sum(1 for c in cases if c.get("mem")), "ops": ops, "bases": bases, "max_line_bytes": maxlen}


def mem_nontrivial(out):
    return sum(1 for l in out if l.startswith(("ok nc=", "ok tok=", "erange", "r=1"))) >= 1
# END round4-mem


# BEGIN round4-open
# esl_buffer_Open / OpenFile / OpenPipe / Close: decision logic over a file system given as a parameter
# (model lean/EaselModel/Buffer/OpenFile.lean, driver op `fsopen` in OpenDriver.lean, harness block round4-open)
import re as _re, gzip as _gzip, os as _os
K_GZ = "C05:open:gz-suffix-indexes-filename"
OPEN_THEOREMS = ["EaselModel.Props.C05." + t for t in (
    "open_finds_iff", "open_not_found", "open_uses_first", "splitColon_spec", "openFile_mode_spec", "openFile_pagesize_clamp", "openFile_not_found",
    "openPipe_spec", "open_semantics_mode_independent", "open_gz_semantics", "close_releases_exactly_once", "openers_release_exactly_once",
    "asStr_nul_terminated", "asStr_strlen_iff", "open_cwd_never_faults", "open_gz_fault_iff", "open_gz_fault_witness", "open_gz_env_never_recognised",
    "open_fixed_never_faults", "open_fixed_gz_iff_suffix")]
OPEN_STATE = {"uses_path": False, "slurp": 4194304, "page": 4096}


def _open_parse_src(src):
    """constants and the two decisive source lines of the opening logic, out of the working tree; raises if a pattern is gone"""
    h = open(_os.path.join(src, "esl_buffer.h")).read()
    c = open(_os.path.join(src, "esl_buffer.c")).read()
    def need(pat, text, what):
        m = _re.search(pat, text)
        if not m: raise RuntimeError("open_generated: pattern not found in the working tree: " + what)
        return m
    page = int(need(r"#define\s+eslBUFFER_PAGESIZE\s+(\d+)", h, "#define eslBUFFER_PAGESIZE").group(1))
    slurp = int(need(r"#define\s+eslBUFFER_SLURPSIZE\s+(\d+)", h, "#define eslBUFFER_SLURPSIZE").group(1))
    m = need(r"if \(bf->pagesize < (\d+)\)\s+bf->pagesize = (\d+);", c, "lower clamp of bf->pagesize")
    if m.group(1) != m.group(2): raise RuntimeError("open_generated: lower clamp of bf->pagesize is not a clamp")
    lo = int(m.group(1))
    m = need(r"if \(bf->pagesize > (\d+)\)\s+bf->pagesize = (\d+);", c, "upper clamp of bf->pagesize")
    if m.group(1) != m.group(2): raise RuntimeError("open_generated: upper clamp of bf->pagesize is not a clamp")
    hi = int(m.group(1))
    need(r"if\s+\(filesize != -1 && filesize <= eslBUFFER_SLURPSIZE\)\s*\n\s*\{ if \(\(status = buffer_init_file_slurped\(bf, filesize\)\)", c, "slurp test of esl_buffer_OpenFile")
    need(r"else if \(filesize > eslBUFFER_SLURPSIZE\)\s*\n\s*\{ if \(\(status = buffer_init_file_mmap\(bf, filesize\)\)", c, "mmap test of esl_buffer_OpenFile")
    need(r"bf->pagesize\s*=\s*fileinfo\.st_blksize;", c, "bf->pagesize = st_blksize")
    need(r"n = strlen\(path\);", c, "n = strlen(path) in esl_buffer_Open")
    m = need(r"if \(n > 3 && strcmp\((filename|path)\+n-3, \"\.gz\"\) == 0\)", c, ".gz test of esl_buffer_Open")
    return dict(page=page, slurp=slurp, lo=lo, hi=hi, uses_path=(m.group(1) == "path"))


def _open_sync(ctx):
    """follow the working tree (fixed / unfixed .gz test, thresholds); a tree whose patterns are gone has already failed the
    obligation `generated`: the cases are then generated for the last known text"""
    if ctx is None: return
    try: OPEN_STATE.update({k: v for k, v in _open_parse_src(ctx.src).items() if k in OPEN_STATE})
    except Exception: pass


def open_generated(ctx):
    k = _open_parse_src(ctx.src)
    OPEN_STATE.update(uses_path=k["uses_path"], slurp=k["slurp"], page=k["page"])
    txt = """/-! GENERATED by props/c05.py `open_generated` from esl_buffer.h / esl_buffer.c of the working tree — do not edit.
    Constants of the opening logic of esl_buffer.c. -/
namespace EaselModel.Buffer.OpenConsts

/-- `#define eslBUFFER_PAGESIZE` (esl_buffer.h) -/
def pageSize : Nat := %d
/-- `#define eslBUFFER_SLURPSIZE` (esl_buffer.h) -/
def slurpSize : Nat := %d
/-- `if (bf->pagesize < LO) bf->pagesize = LO;` (esl_buffer_OpenFile) -/
def clampLo : Nat := %d
/-- `if (bf->pagesize > HI) bf->pagesize = HI;` (esl_buffer_OpenFile) -/
def clampHi : Nat := %d
/-- the `.gz` test of esl_buffer_Open is `strcmp(path+n-3, ".gz")` (true) or `strcmp(filename+n-3, ".gz")` (false) -/
def gzTestUsesPath : Bool := %s

end EaselModel.Buffer.OpenConsts
""" % (k["page"], k["slurp"], k["lo"], k["hi"], "true" if k["uses_path"] else "false")
    return {"EaselModel/Buffer/OpenConsts.lean": txt}


def open_line(name, envk, dirs, ps, files):
    """files: list of (path, unit, rep, plain-or-None)"""
    ents = []
    for (path, unit, rep, plain) in files:
        e = path.hex() + ":" + hx(unit) + ("*%d" % rep if rep != 1 else "")
        if plain is not None: e += ":" + hx(plain)
        ents.append(e)
    return "fsopen name=%s env=%d dirs=%s ps=%d files=%s%s" % (name.hex(), envk, hx(dirs), ps, ",".join(ents) if ents else "-", " retire=1" if BUF_STATE["retire"] else "")


def open_parse(line):
    kv = dict(x.split("=", 1) for x in line.split()[1:] if "=" in x)
    unhex = lambda t: b"" if t == "-" else bytes.fromhex(t)
    fs = {}
    if kv["files"] != "-":
        for e in kv["files"].split(","):
            parts = e.split(":")
            u = parts[1].split("*")
            path = unhex(parts[0])
            if path not in fs:      # List.lookup: the first entry wins
                fs[path] = (unhex(u[0]), int(u[1]) if len(u) > 1 else 1, unhex(parts[2]) if len(parts) > 2 else None)
    return dict(name=unhex(kv["name"]), envk=int(kv["env"]), dirs=unhex(kv["dirs"]), ps=int(kv["ps"]), fs=fs)


def open_oracle(line):
    """python copy of the decision logic of esl_buffer_Open (independent oracle of the monitor)"""
    q = open_parse(line)
    name, fs = q["name"], q["fs"]
    path, via = None, None
    if name in fs: path, via = name, "cwd"
    elif q["envk"] == 2:
        for i, d in enumerate(q["dirs"].split(b":")):
            if d + b"/" + name in fs:
                path, via = d + b"/" + name, "env%d" % i
                break
    if path is None: return dict(st="enotfound", via="none")
    n = len(path)
    s = path if OPEN_STATE["uses_path"] else name
    isgz = False
    if n > 3:
        if n - 3 > len(s): return dict(st="fault", via=via, path=path)
        isgz = s[n - 3:] == b".gz"
    unit, rep, plain = fs[path]
    if isgz:
        ps = q["ps"] if q["ps"] > 0 else OPEN_STATE["page"]
        out, ok = (plain, True) if plain is not None else (b"", False)
        if len(out) < ps:
            if not ok: return dict(st="fail", via=via, path=path)
            return dict(st="ok", via=via, path=path, src=out, mode="pipe", mode_is="allfile", ps=ps, gz=True)
        return dict(st="ok", via=via, path=path, src=out, mode="pipe", mode_is="pipe", ps=ps, gz=True)
    ps = q["ps"] if q["ps"] > 0 else 4096        # st_blksize of the scratch file system (as for the existing `open ps=0`)
    size = len(unit) * rep
    m = "allfile" if size <= OPEN_STATE["slurp"] else "mmap"
    return dict(st="ok", via=via, path=path, src=unit * rep, mode=m, mode_is=m, ps=ps, gz=False)


def open_case_cfg(line):
    r = open_oracle(line)
    ps0 = open_parse(line)["ps"]
    if r["st"] != "ok": return b"", 4096, 512, "allfile"
    return r["src"], r["ps"], (ps0 if ps0 > 0 else 512), r["mode"]


def open_monitor(prop, case, out):
    """the implementation's answer to `fsopen` against the python oracle; NotImplemented = go on with the ordinary monitor"""
    line = case["ops"][0]
    if not line.startswith("fsopen"): return NotImplemented
    if not out or out[0].startswith(("fault", "atexit")): return None          # a death is reported by the engine
    r = open_oracle(line)
    got = out[0]
    if r["st"] == "fault":
        return Failure("monitor", "esl_buffer_Open reads filename[%d] of a %d byte string (found through the directory list) and answered %r" % (len(r["path"]) - 3, len(open_parse(line)["name"]), got[:60]), key=case.get("known_key"))
    if r["st"] != "ok":
        want = "%s bf=1 msg=1 unset=1" % r["st"]
        if got != want: return Failure("monitor", "esl_buffer_Open: answered %r, documented result is %r (status, live buffer in UNSET state with a message)" % (got[:80], want))
        return None
    f = dict(x.split("=", 1) for x in got.split() if "=" in x)
    if not got.startswith("ok ") or f.get("mode") != r["mode_is"] or f.get("file") != hx(r["path"]) or f.get("ps") != str(r["ps"]):
        return Failure("monitor", "esl_buffer_Open: answered %r; the file to open is %r (found: %s), mode %s, page size %d" % (got[:120], r["path"], r["via"], r["mode_is"], r["ps"]))
    return NotImplemented


def open_mk(prop, name, line, ops, **kw):
    r = open_oracle(line)
    d = dict(name=name, ops=[line] + (ops if r["st"] == "ok" else []), sticky=1, mode="fsopen", ps=open_parse(line)["ps"], **kw)
    if r["st"] != "ok": d["nomonitor"] = True
    return d


def _gz(plain): return _gzip.compress(plain, mtime=0)


import shutil as _shutil
HAVE_GZIP = _shutil.which("gzip") is not None


def _open_drop_gz(cases):
    """without a gzip executable the `gzip -dc` pipe is not 'delivers the bytes': leave out the cases that go through it"""
    if HAVE_GZIP: return cases
    return [c for c in cases if not (open_oracle(c["ops"][0]).get("gz"))]


def open_corpus(prop, ctx=None):
    return _open_drop_gz(_open_corpus(prop, ctx))


def open_cases(prop, rng, quick, ctx=None):
    return _open_drop_gz(_open_cases(prop, rng, quick, ctx))


def _open_corpus(prop, ctx=None):
    if _os.environ.get("C05_NO_OPEN"): return []          # timing aid: the check without the fsopen cases
    _open_sync(ctx)
    out = []
    T = b"ab cd\nef\r\ngh"
    G = _gz(T)
    lineops = ["getline", "gettoken sep=20", "fetchlinestr", "fetchtokenstr sep=20", "getline", "get"]
    def F(path, content, plain=None, rep=1): return (path, content, rep, plain)
    # the search: cwd, 1st/2nd/last directory, several (first wins), nowhere; variable NULL / unset / empty / with empty elements
    out.append(open_mk(prop, "open-cwd", open_line(b"f", 0, b"", 0, [F(b"f", T)]), lineops))
    out.append(open_mk(prop, "open-cwd-beats-env", open_line(b"f", 2, b"a:b", 0, [F(b"a/f", b"wrong\n"), F(b"f", T)]), lineops))
    out.append(open_mk(prop, "open-env-first", open_line(b"f", 2, b"a:b", 0, [F(b"a/f", T)]), lineops))
    out.append(open_mk(prop, "open-env-second", open_line(b"f", 2, b"a:b", 3, [F(b"b/f", T), F(b"a/g", b"x")]), lineops))
    out.append(open_mk(prop, "open-env-last", open_line(b"f", 2, b"nonexistent:a::b:d2", 2, [F(b"d2/f", T)]), lineops))
    out.append(open_mk(prop, "open-env-first-wins", open_line(b"f", 2, b"a:b:d1", 0, [F(b"d1/f", b"third\n"), F(b"b/f", T), F(b"x/f", b"no\n")]), lineops))
    out.append(open_mk(prop, "open-env-parent", open_line(b"f", 2, b"..", 0, [F(b"../f", T)]), lineops))
    out.append(open_mk(prop, "open-env-noslash-normalisation", open_line(b"f", 2, b"x:b/", 0, [F(b"b//f", T)]), lineops))
    out.append(open_mk(prop, "open-name-with-dir", open_line(b"s/f", 2, b"a", 0, [F(b"a/s/f", T)]), lineops))
    for envk, dirs, nm in ((0, b"a", "null"), (1, b"a", "unset"), (2, b"", "empty"), (2, b":", "colon"), (2, b"b:d1", "elsewhere")):
        out.append(open_mk(prop, "open-notfound-" + nm, open_line(b"f", envk, dirs, 0, [F(b"a/f", T)]), []))
    out.append(open_mk(prop, "open-notfound-nofiles", open_line(b"f", 2, b"a", 0, []), []))
    out.append(open_mk(prop, "open-empty-file", open_line(b"f", 0, b"", 0, [F(b"f", b"")]), ["getline", "get", "getoffset"]))
    # .gz: in the current directory (path = filename) the suffix test is sound
    for ps in (0, 1, 4, 64):
        out.append(open_mk(prop, "open-gz-cwd.%d" % ps, open_line(b"a.gz", 0, b"", ps, [F(b"a.gz", G, T)]), lineops))
    out.append(open_mk(prop, "open-gz-cwd-subdir", open_line(b"s/t.gz", 0, b"", 4, [F(b"s/t.gz", G, T)]), lineops))
    out.append(open_mk(prop, "open-gz-cwd-garbage", open_line(b"a.gz", 0, b"", 0, [F(b"a.gz", b"this is not a gzip stream\n")]), []))
    out.append(open_mk(prop, "open-gz-cwd-empty-plain", open_line(b"a.gz", 0, b"", 0, [F(b"a.gz", _gz(b""), b"")]), ["getline", "get"]))
    out.append(open_mk(prop, "open-dotgz-3chars", open_line(b".gz", 0, b"", 0, [F(b".gz", T)]), lineops))          # n = 3: not a gzip name
    out.append(open_mk(prop, "open-notgz-GZ", open_line(b"a.GZ", 0, b"", 0, [F(b"a.GZ", T)]), lineops))
    out.append(open_mk(prop, "open-notgz-gzx", open_line(b"a.gzx", 0, b"", 0, [F(b"a.gzx", T)]), lineops))
    # .gz found through the directory list, directory names of 1 and 2 bytes: the read stays inside <filename>, never ".gz"
    if not OPEN_STATE["uses_path"]:
        out.append(open_mk(prop, "open-gz-env-dir1", open_line(b"a.gz", 2, b"a", 0, [F(b"a/a.gz", G, T)]), ["getline", "get"]))
        out.append(open_mk(prop, "open-gz-env-dir2", open_line(b"a.gz", 2, b"d1", 0, [F(b"d1/a.gz", G, T)]), ["getline", "get"]))
        out.append(open_mk(prop, "open-gz-env-dotgz", open_line(b".gz", 2, b"a", 0, [F(b"a/.gz", G, T)]), ["getline", "get"]))
    # mode threshold through the natural path: eslBUFFER_SLURPSIZE bytes are slurped, one more is mmap'ed
    S = OPEN_STATE["slurp"]
    u64 = (b"seq0007  " + b"ACGT" * 16)[:62] + b"\r\n"
    assert len(u64) == 64
    if S % 64 == 0:
        out.append(open_mk(prop, "open-big-slurpsize", open_line(b"big", 0, b"", 0, [F(b"big", u64, rep=S // 64)]), ["getline", "gettoken sep=20", "setoffset o=%d" % (S - 64), "getline", "getline", "getoffset"]))
    for k in (5, 3, 7, 11, 13):
        if (S + 1) % k == 0:
            u = (b"ACGTACGTACGTACGT"[:k - 1] + b"\n")
            out.append(open_mk(prop, "open-big-slurpsize+1", open_line(b"big", 0, b"", 0, [F(b"big", u, rep=(S + 1) // k)]), ["getline", "setoffset o=%d" % (S + 1 - k), "getline", "getline", "getoffset"]))
            break
    # known finding: found through a directory of >= 3 bytes, strcmp(filename+n-3, ".gz") starts behind the terminator of <filename>
    if not OPEN_STATE["uses_path"]:
        out.append(dict(open_mk(prop, "known-open-gz-suffix", open_line(b"a.gz", 2, b"dir", 0, [F(b"dir/a.gz", G, T)]), []), known_key=K_GZ))
    else:
        out.append(open_mk(prop, "reg-open-gz-suffix", open_line(b"a.gz", 2, b"dir", 0, [F(b"dir/a.gz", G, T)]), lineops))
    return out


OPEN_NAMES = [b"f", b"f", b"seq.fa", b"a.gz", b"a.gz", b".gz", b"x.gz", b"data.sto.gz", b"ab", b"abc", b"gz", b"q.GZ", b"s/t.gz", b"s/u", b"z.gzz", b"b.gz"]
OPEN_SHORT = [b"a", b"b", b"d1", b"d2", b"..", b"x", b"b/"]       # <= 2 bytes: the suffix read stays inside <filename>
OPEN_LONG = [b"dir", b"../e", b"../..", b"d1/x", b"nonexistent", b"long/er/dir", b"a/b", b"d2/"]


def _open_cases(prop, rng, quick, ctx=None):
    if _os.environ.get("C05_NO_OPEN"): return []
    _open_sync(ctx)
    fixed = OPEN_STATE["uses_path"]
    out = []
    st = prop.stats.setdefault("open", {"cases": 0, "shape": {}, "status": {}, "via": {}, "gz_pipe": 0, "env": {}})
    n = 220 if quick else 3000
    for i in range(n):
        name = rng.choice(OPEN_NAMES)
        shape = rng.choice(["cwd", "cwd", "first", "second", "last", "several", "several", "nowhere", "cwd+env"])
        envk = 2 if shape not in ("cwd", "nowhere") else rng.choice([0, 1, 2, 2])
        # directory list: distinct names, no two spellings of one directory
        pool = list(OPEN_SHORT + (OPEN_LONG if True else []))
        rng.shuffle(pool)
        pool = [d for j, d in enumerate(pool) if d.rstrip(b"/") not in [e.rstrip(b"/") for e in pool[:j]]]
        dl = pool[:rng.choice([1, 2, 3, 4])]
        src = prop.gen_input(rng) if rng.random() < 0.8 else prop.gen_edge_input(rng, rng.choice([1, 2, 4, 8]))
        if len(src) > 3000: src = src[:3000]
        isgzname = name.endswith(b".gz")
        def content(b):
            """(raw, plain): names ending in .gz mostly hold a real gzip stream"""
            if isgzname and rng.random() < 0.85: return (_gz(b), b)
            return (b, None)
        files, hit = [], []
        if shape in ("cwd", "cwd+env"): hit.append(None)
        if shape in ("first", "cwd+env"): hit.append(0)
        if shape == "second": hit.append(min(1, len(dl) - 1))
        if shape == "last": hit.append(len(dl) - 1)
        if shape == "several":
            k0 = rng.randrange(len(dl))
            hit += [k for k in range(k0, len(dl)) if k == k0 or rng.random() < 0.6]
        envhits = [k for k in hit if k is not None]
        if envhits and None not in hit and not fixed:
            # known region C05:open:gz-suffix-indexes-filename: the directory that wins must be at most 2 bytes long
            k0 = min(envhits)
            if len(dl[k0]) > 2:
                shorts = [d for d in OPEN_SHORT if d.rstrip(b"/") not in [e.rstrip(b"/") for e in dl]]
                dl[k0] = rng.choice(shorts)
        first = True
        for k in hit:
            raw, plain = content(src if first else b"decoy %d\n" % (k or 0))
            first = False
            files.append(((name if k is None else dl[k] + b"/" + name), raw, 1, plain))
        # decoys: other names here and there
        for _ in range(rng.randrange(0, 3)):
            other = rng.choice([b"g", b"other.gz", name + b"x", b"s/v"])
            d = rng.choice([None] + dl)
            files.append(((other if d is None else d + b"/" + other), b"decoy\n", 1, None))
        # the variable: the list, sometimes with empty elements / leading / trailing colon
        parts = list(dl)
        if rng.random() < 0.35:
            for _ in range(rng.randrange(1, 3)): parts.insert(rng.randrange(len(parts) + 1), b"")
        dirs = b":".join(parts)
        if envk == 2 and shape in ("cwd", "nowhere") and rng.random() < 0.3: dirs = rng.choice([b"", b":", b"::"])
        rng.shuffle(files)
        seen, uniq = set(), []
        for f in files:
            if f[0] not in seen: seen.add(f[0]); uniq.append(f)
        ps = rng.choice([0, 0, 0, 1, 2, 3, 4, 7, 16, 64, 4096])
        line = open_line(name, envk, dirs, ps, uniq)
        r = open_oracle(line)
        if r["st"] == "fault": continue        # cannot happen (see above); never feed the known region
        ops = []
        if r["st"] == "ok":
            ops = prop.gen_history(rng, r["src"], ps if ps > 0 else 512, rng.choice([3, 8, 20, 40]), stable=(BUF_STATE["retire"] and rng.random() < 0.4))
            for o in ops: prop.stats["ops"][o.split()[0]] = prop.stats["ops"].get(o.split()[0], 0) + 1
        out.append(open_mk(prop, "fsopen%d.%s" % (i, shape), line, ops))
        st["cases"] += 1
        st["shape"][shape] = st["shape"].get(shape, 0) + 1
        st["status"][r["st"]] = st["status"].get(r["st"], 0) + 1
        st["via"][r.get("via")] = st["via"].get(r.get("via"), 0) + 1
        st["env"][envk] = st["env"].get(envk, 0) + 1
        if r.get("gz"): st["gz_pipe"] += 1
    return out
# END round4-open


# round 6: does buffer_refill() keep handed-out pointers alive under a stable anchor (fix C05-stable-anchor-keep-oldmem)?
BUF_STATE = {"retire": True}


def buf_generated(ctx):
    """Until fix 188d0b6 landed the model of buffer_refill followed the working tree (regenerated BufConsts.lean). Now the repaired code IS the model
    (BufConsts.lean is a fixed file: stableRetire = true, and Props/C05.lean proves `stable_repair_in_model` from it): on a tree where buffer_refill
    moves or frees the window under a stable anchor the harness, which re-reads every pointer handed out after every operation (open ... retire=1),
    dies under ASan or reports stale bytes - a concrete failing history."""
    return {}


class C05(Prop):
    id = "C05"
    lean_modules = ["EaselModel.Props.C05"]
    lean_exe = "c05_driver"
    harness = "h_buffer.c"
    theorems = ["EaselModel.Props.C05." + t for t in (
        "open_wf", "refill_wf", "refill_guarantee", "getLine_refines", "fetchLine_refines", "read_refines",
        "getToken_refines", "fetchToken_refines", "lines_partition", "getLine_keeps_anchor", "countline_pagesize_independent",
        "history_spec", "history_mode_independent", "history_no_fault", "reread_under_anchor", "step_simulates", "get_prefix", "readLines_eq_specLines", "get_all_in_memory", "stable_ptr_valid_quiet", "open_quiet",
        "stable_repair_in_model", "stable_ptr_valid", "stable_growth_bounded", "refill_without_flag", "stable_ptr_valid_step", "stable_ptr_valid_history", "stable_anchor_establishes", "stable_ptr_valid_partial", "stable_ptr_valid_fails_at",
        # round 3: the API contract discharged
        "step_total", "history_total", "history_total_no_fault", "history_total_no_set", "error_only_outside_contract", "contract_implies_callerOk", "callerOk_decidable", "spec_bracket", "history_memory_exact", "history_memory_mode_independent",
        "unsafe_set_beyond_window", "fixed_setoffset_beyond_end_in_memory", "fixed_anchor_ahead_of_cursor", "fixed_rewind_before_anchor",
        "stable_ptr_valid_iff", "plain_anchor_no_promise", "setoffset_beyond_end_deterministic", "history_spec_x", "history_x_pagesize_independent", "mode_fixed", "history_spec_xa", "history_xa_mode_independent", "retired_never_freed_under_stable", "retired_freed_exactly_once")]
    theorems = theorems + MEM_THEOREMS   # round4-mem
    theorems = theorems + OPEN_THEOREMS   # round4-open
    claimed = True
    level_text = ("Theorems (no bound on input, page size >= 1, or history length): every opener yields a well-formed window; buffer_refill preserves it and restores the page guarantee; "
                  "GetLine/FetchLine/FetchLineAsStr, GetToken/FetchToken/FetchTokenAsStr, Read each refine the abstract 'bytes + cursor' specification; "
                  "history_spec: for all 6 modes and every history of the 14 operations within the API contract, the (status, bytes, offset) sequence of the model equals the specification's; "
                  "history_mode_independent; history_no_fault (no out-of-bounds access, only OK/EOF/EOL); lines + terminators partition the input; re-read under an anchor (the very end of the input included); "
                  "readLines_eq_specLines: reading any input line by line on any opener yields exactly specLines src; get_prefix/get_all_in_memory; "
                  "stable_ptr_valid_quiet: pointers stay valid in the whole-input modes and on an exhausted stream. "
                  "Round 6: stable_ptr_valid (a refill under bf->stable never moves or frees a handed-out byte: same memgen, old window a prefix of the new one), stable_ptr_valid_history (along every history of the other 13 operations, any arguments, "
                  "until the last anchor is raised), stable_anchor_establishes, stable_growth_bounded (allocation doubles: retired blocks sum to less than the live one); memIsRealL_spec/_sound (esl_mem_IsReal after fix 8112354); setoffset_beyond_end_deterministic (outside the contract but one outcome for every page size: SetOffset beyond the end of a paged input = eslEINVAL, cursor at the end, simulation continues); history_spec_x / history_x_pagesize_independent: history_spec for the larger class ValidHistX (contract, or SetOffset beyond the end ahead of the cursor, anywhere in the history) on streams and pipes; history_spec_xa / history_xa_mode_independent (round 6b): the same on every paged opener, FILE included, while an anchor is set; retired_never_freed_under_stable / retired_freed_exactly_once (the blocks behind bf->mem and bf->retired: nothing freed under bf->stable, every block freed exactly once by Close, for every sequence of refills); mode_fixed. "
                  "Round 4: history_total / history_total_no_fault for EVERY history on which the code defines the outcome (hypothesis CallerOk: no Set beyond the exposed bytes; anchors ahead of the cursor and rewinds before the anchor included; "
                  "the window invariant and the simulation relation no longer assume anchor <= cursor); history_memory_exact: in the whole-input modes every history equals the total specification memRun; "
                  "esl_buffer_Open/OpenFile/OpenPipe/Close: open_finds_iff (cwd first, then the first listed directory), openFile_mode_spec (mode = function of size and threshold), open_semantics_mode_independent, close_releases_exactly_once, asStr_nul_terminated. "
                  "The hand-written model is tied to the working tree by an exact differential run (6 modes x 11 page sizes, histories <= 200 ops, ASan+UBSan) and the implementation is "
                  "monitored against the specification per operation; any difference is a concrete failing (input, mode, page size, history).")
    level_note = ("The clause 'pointers handed out under a stable anchor stay valid until it is raised' is proved in full for the repaired buffer_refill (fix C05-stable-anchor-keep-oldmem: "
                  "stable_ptr_valid for every refill, stable_ptr_valid_step / stable_ptr_valid_history for every operation and every history, no contract hypothesis; the model follows the working tree through the "
                  "regenerated constant BufConsts.stableRetire, and on a tree WITHOUT the repair the same theorems are vacuous and stable_ptr_valid_partial + stable_ptr_valid_fails_at + stable_ptr_valid_iff say exactly when the code keeps the promise: "
                  "known finding C05:stable-anchor:realloc-in-refill is reported only on such a tree). Tie of that clause: under a stable anchor the harness re-reads EVERY pointer handed out after EVERY operation (ASan: use-after-free; stale bytes). Trusted: Lean kernel + propext/Classical.choice/Quot.sound; model fidelity is checked (not proved) by the differential run; "
                  "fread/popen/mmap deliver the bytes; allocation never fails. history_spec/history_mode_independent (exact equality with the deterministic specification) are stated under the API contract "
                  "Valid (anchors at/before the cursor, SetOffset to a byte of the input ahead of the cursor or at/after the active anchor, Set within one guaranteed page) because outside it the outcome is window dependent by design "
                  "(a rewind succeeds iff the target is still loaded); history_total covers ALL histories on which the code defines the outcome (every argument of every call; anchors ahead of the cursor and rewinds before the anchor included), "
                  "hypothesis CallerOk = no Set(p, nused) beyond the exposed bytes, which the documentation leaves undefined and the code does not check (unsafe_set_beyond_window).")
    diverge_is_violation = True    # on valid histories the model is proved equal to the specification (history_spec)
    quick_budget_s = 60
    technique = ("Lean 4 proof (window invariant + refinement of the hand-written model of esl_buffer.c to the abstract 'bytes + cursor' specification) "
                 "+ exact differential correspondence of the executable model with the ASan/UBSan-built esl_buffer.c in six opening modes x eleven page sizes, "
                 "+ per-operation monitor of the implementation against the abstract specification")
    trusted_base = ["hand model EaselModel/Buffer/Model.lean of esl_buffer.c + esl_memnewline, tied by exact differential run (h_buffer.c, ASan+UBSan build of the working tree, hook H1)",
                    "Lean compiler/runtime for the executable driver", "gcc, glibc fread/fmemopen/popen/mmap deliver the bytes",
                    "python copy of the abstract specification (props/c05.py: Spec) used by the monitor"]
    assumptions = ["fread(k) returns min(k, remaining) bytes and sets the EOF flag on a short count; no I/O errors; allocation never fails (eslEMEM/eslESYS paths not modelled)",
                   "UNDEFINED BY DOCUMENTATION 1 (excluded by the decidable predicate CallerOk, Buffer/Safe.lean): esl_buffer_Set(bf, p, nused) with p + nused beyond the n bytes that the immediately preceding Get/GetLine/GetToken exposed at p",
                   "UNDEFINED BY DOCUMENTATION 2 (not expressible in the model, never done by the harness): esl_buffer_Set with a pointer p that is not the one returned by the immediately preceding Get/GetLine/GetToken call (stale or foreign pointer)",
                   "UNDEFINED BY DOCUMENTATION 3 (C-level preconditions, not modelled): bf == NULL or already closed; sep == NULL in the token calls; a Read destination smaller than nbytes; using a returned pointer after the next buffer call without a stable anchor",
                   "UNDEFINED BY DOCUMENTATION 4: esl_buffer_RaiseAnchor(offset) outside the window or before the active anchor trips ESL_DASSERT1 in a debug build (eslDEBUGLEVEL >= 1); the model is the non-debug build, where it is a defined no-op",
                   "every other call of the 14 operations is total in the model exactly as in the code (compared exactly on contract-violating histories): SetAnchor/SetStableAnchor outside the window and SetOffset beyond the end or to an unloaded unprotected offset answer eslEINVAL; anchors ahead of the cursor and rewinds before the anchor are handled (b86a62d)",
                   "history_spec / history_mode_independent keep the API contract Valid as hypothesis: outside it results legitimately depend on what is loaded (page size, mode); history_total (no contract) describes them by the relation Total",
                   "esl_buffer_Open/OpenFile/OpenPipe/Close decision logic is modelled over a parameter file system (finite map path -> bytes) and environment (OpenFile.lean) and tied with real temp files + setenv (op fsopen); "
                   "mmap/popen/gzip/fstat themselves are OS behaviour, modelled as 'delivers the bytes' (gunzip is a parameter); '-' (stdin) is modelled but not tied (stdin is the harness's protocol channel); "
                   "the st_blksize clamp is tied only at the sandbox's block size (4096), otherwise held by the regenerated constants (OpenConsts.lean); allocation/popen/fstat failures not modelled",
                   "repaired this round (fix: commits; the witnesses stay in the corpus as regression cases): Read of 0 bytes on an empty slurped file, esl_buffer_Open .gz suffix test, esl_mem_IsReal leading garbage, buffer_refill under a stable anchor; "
                   "the model of the last two follows the working tree (regenerated MemConsts.isRealStart / BufConsts.stableRetire): on a tree without them the known findings C05:mem:isreal-accepts-garbage / C05:stable-anchor:realloc-in-refill are reported on their witnesses",
                   "stable anchors (repaired code): the model keeps `bf->stable` (Buf.stab) and the growth policy max(n+pagesize, 2*balloc); the retired-block list (bf->retired, freed by the first refill after the anchor is gone and by Close) is modelled as allocator state beside the window "
                   "(Buffer/Retired.lean: refillH = what buffer_refill called in state b does to the allocator; theorems retired_never_freed_under_stable, retired_freed_exactly_once for every sequence of refills in any states); "
                   "that allocator model is tied to the tree by ASan (double free, use after free) and LeakSanitizer on every case, not by the exact comparison"]
    level_text = level_text + " " + MEM_LEVEL_TEXT; assumptions = assumptions + MEM_ASSUMPTIONS; trusted_base = trusted_base + MEM_TRUSTED   # round4-mem
    rule = ("case = one opening (mode, page size, input bytes) + a history of <= 200 operations; three families: (1) histories valid under the API contract, generated by simulating the abstract specification, "
            "the same (input, history) run under 3 configurations and monitored per operation against the python copy of the specification; (2) 'wild' histories with arbitrary arguments (rewinds with/without anchor, offsets at/after the end, "
            "anchors anywhere incl. ahead of the cursor, Set up to and beyond the exposed bytes - the latter answered 'unsafe' by both sides), compared exactly and, in the whole-input modes, monitored against the total specification memStep; "
            "(3) fsopen cases: a real directory tree + environment variable, esl_buffer_Open's choice compared with the model, followed by a valid history; plus stateless esl_mem ops (50 per case) against model and python oracle; "
            "non-trivial = at least one operation returned bytes; distinct by implementation output trace")

    def generated(self, ctx): return {**open_generated(ctx), **mem_generated(ctx), **buf_generated(ctx)}   # round4-open, round4-mem, round 6

    # ------------------------------------------------------------------ inputs
    def gen_edge_input(self, rng, ps):
        """inputs built around the page size: line/terminator/separator runs that end exactly at, one before, one after a page edge"""
        out = []
        for _ in range(rng.randrange(1, 12)):
            L = max(0, rng.choice([ps - 2, ps - 1, ps, ps + 1, 2 * ps - 1, 2 * ps, 3 * ps + 1, rng.randrange(0, 4 * ps + 2)]))
            kind = rng.random()
            if kind < 0.35: body = bytes(rng.choice(b"abcXYZ019") for _ in range(L))
            elif kind < 0.55: body = bytes(rng.choice(b"ab ") for _ in range(L))
            elif kind < 0.7: body = b" " * L
            elif kind < 0.8: body = (b"tok" + b" " * L)[:max(L, 1)]
            elif kind < 0.9: body = bytes(rng.choice(b"a\r") for _ in range(L))
            else: body = bytes(rng.choice(b"a\x00 ") for _ in range(L))
            t = rng.random()
            out.append(body + (b"\r\n" if t < 0.5 else b"\n" if t < 0.85 else b"\r" if t < 0.9 else b"" if t < 0.93 else b"\n\n\r\n"))
        s = b"".join(out)
        if rng.random() < 0.3: s = s.rstrip(b"\r\n")
        return s

    def gen_input(self, rng, big=False):
        r = rng.random()
        if r < 0.03: return b""
        words = [b"a", b"bc", b"seq1", b"ACGT", b"12.5", b"x" * rng.randrange(1, 40), b"\x00", b"t\x00u", b"\r", b"q\rq", b"#=GC"]
        seps = [b" ", b" ", b"\t", b"  ", b" \t ", b","]
        out = []
        nlines = rng.randrange(1, 40 if not big else 400)
        for _ in range(nlines):
            k = rng.random()
            if k < 0.12: line = b""
            elif k < 0.2: line = b" " * rng.randrange(1, 6)
            elif k < 0.28: line = bytes(rng.choice(b"ACGTacgt-.") for _ in range(rng.randrange(20, 300 if not big else 3000)))
            elif k < 0.33: line = bytes(rng.randrange(256) for _ in range(rng.randrange(1, 30)))
            else:
                line = b""
                if rng.random() < 0.2: line += rng.choice(seps)
                for i in range(rng.randrange(1, 7)):
                    if i: line += rng.choice(seps)
                    line += rng.choice(words)
                if rng.random() < 0.3: line += rng.choice(seps)
            t = rng.random()
            out.append(line + (b"\n" if t < 0.55 else b"\r\n" if t < 0.9 else b"\r" if t < 0.93 else b"\n\r" if t < 0.96 else b"\r\r\n"))
        s = b"".join(out)
        if rng.random() < 0.25:          # no final newline
            s = s.rstrip(b"\r\n") if rng.random() < 0.5 else s[:-1]
        return s

    SEPS = [b" ", b" \t", b" \t\r\n", b",", b" ,", b"\n", b"\r", b"", b" \t\n"]

    def gen_history(self, rng, src, minps, nops, tokens=True, readmax=None, stable=True, beyond=False):
        """valid history (list of op lines) by simulating the abstract spec; beyond=True: the larger class ValidHistX"""
        sp = Spec(src)
        sp.x = beyond
        ops = []
        myanch = []          # offsets the history has anchored and not yet raised
        style = rng.choice(["lines", "tokens", "mixed", "mixed", "binary", "anchors"])
        for _ in range(nops):
            r = rng.random()
            cand = None
            if style == "lines": pick = "line" if r < 0.8 else "misc"
            elif style == "tokens": pick = "token" if r < 0.8 else "misc"
            elif style == "binary": pick = "read" if r < 0.5 else "raw" if r < 0.75 else "misc"
            elif style == "anchors": pick = "pos" if r < 0.45 else "line" if r < 0.7 else "token" if r < 0.85 else "misc"
            else: pick = rng.choice(["line", "token", "read", "raw", "pos", "misc"])
            if pick == "token" and not tokens: pick = "line"
            if pick == "misc": pick = rng.choice(["line", "token" if tokens else "line", "read", "raw", "pos", "off"])
            if pick == "line": cand = rng.choice(["getline", "getline", "fetchline", "fetchlinestr"]) + ("0" if rng.random() < 0.12 else "")
            elif pick == "token":
                cand = rng.choice(["gettoken", "gettoken", "fetchtoken", "fetchtokenstr"]) + ("0" if rng.random() < 0.12 else "") + " sep=" + hx(rng.choice(self.SEPS))
            elif pick == "read":
                rem = len(src) - sp.cur
                k = rng.choice([0, 1, 1, 2, 3, 4, 8, rng.randrange(0, 20), rem, rem + 1, max(0, rem - 1), rng.randrange(0, rem + 2)])
                if readmax is not None: k = min(k, readmax)
                cand = "read k=%d" % k
            elif pick == "raw":
                if sp.lastp is not None and rng.random() < 0.7:
                    # Set right after a pointer-returning call: stay inside what every configuration has in its window
                    lim = min(minps, len(src) - sp.lastp)
                    cand = "set k=%d" % rng.choice([0, 0, lim, rng.randrange(0, lim + 1)])
                else: cand = rng.choice(["get", "get", "set k=0"])
            elif pick == "off": cand = "getoffset"
            elif pick == "pos":
                q = rng.random()
                if q < 0.3:
                    o = sp.cur if (sp.anchor is None or rng.random() < 0.6) else rng.randrange(sp.anchor, sp.cur + 1)
                    cand = ("setstable" if (stable and rng.random() < 0.3) else "setanchor") + " o=%d" % o
                    myanch.append(o)
                elif q < 0.55 and myanch:
                    o = myanch.pop(rng.randrange(len(myanch)) if rng.random() < 0.3 else -1)
                    cand = "raise o=%d" % o
                elif q < 0.9:
                    lo = sp.anchor if sp.anchor is not None else sp.cur
                    hi = len(src) - 1 if sp.anchor is None else len(src)
                    if lo <= hi:
                        o = rng.choice([lo, sp.cur, hi, rng.randrange(lo, hi + 1), rng.randrange(lo, min(hi, sp.cur + 40) + 1)])
                        if sp.setoffset_ok(o): cand = "setoffset o=%d" % o
                if cand is None: cand = "getoffset"
            if beyond and rng.random() < (0.08 if beyond is True else 0.2) and (beyond is True or sp.anchor is not None):
                cand = "setoffset o=%d" % (len(src) + rng.choice([1, 1, 2, rng.randrange(1, 5000)]))
            if sp.apply(cand) is None:
                raise AssertionError("generator produced an op outside the contract: " + cand)
            ops.append(cand)
        return ops

    def configs(self, rng, src, k, minps=1):
        out = []
        for _ in range(k):
            m = rng.choice(MODES) if rng.random() < 0.85 else rng.choice(NATURAL + VARIANTS)
            if m == "mmap" and len(src) == 0: m = "allfile"
            if m == "cstring" and 0 in src: m = "string"
            ps = rng.choice([p for p in PAGES if p >= minps]) if rng.random() < 0.95 else 0     # 0 = no override: the library's default page size
            out.append((m, ps))
        return out

    @staticmethod
    def stable_block_ops(src):
        """a reader that collects a block under a stable anchor, twice (offsets from the python specification)"""
        sp, ops = Spec(src), []
        def do(op): ops.append(op); sp.apply(op)
        do("getline"); o1 = sp.cur; do("setstable o=%d" % o1)
        for _ in range(20): do("getline")
        for _ in range(6): do("gettoken sep=20")
        do("raise o=%d" % o1); do("getline"); o2 = sp.cur; do("setstable o=%d" % o2)
        for _ in range(10): do("getline")
        do("get"); do("raise o=%d" % o2); do("getline")
        return ops

    def mk(self, name, src, m, ps, ops, rep=1, **kw):
        return dict(name=name, ops=["open mode=%s ps=%d hex=%s%s%s%s" % (m, ps, hx(src), " rep=%d" % rep if rep != 1 else "", " wild=1" if kw.get("wild") else "", " retire=1" if BUF_STATE["retire"] else "")] + ops, sticky=1, mode=m, ps=ps, **kw)

    def corpus(self, ctx):
        """regression inputs of the three defects repaired in esl_buffer.c (cafe6fe, a12f75c) and the witness of the known finding"""
        out = []
        for m in MODES + NATURAL:
            for ps in (1, 2, 3, 4):
                out.append(self.mk("reg-eol-then-getline.%s.%d" % (m, ps), b"   \nabc\n", m, ps, ["gettoken sep=20", "getline", "getline", "get"]))
                out.append(self.mk("reg-cr-at-window-edge.%s.%d" % (m, ps), b"  \r\nb\n", m, ps, ["gettoken sep=20", "gettoken sep=20", "gettoken sep=20", "gettoken sep=20"]))
                out.append(self.mk("reg-crlf-after-token.%s.%d" % (m, ps), b"a  \r\nb  \r", m, ps, ["fetchtoken sep=20", "fetchtoken sep=20", "fetchtokenstr sep=20", "gettoken sep=20", "gettoken sep=20"]))
                out.append(self.mk("reg-read-multipage.%s.%d" % (m, ps), b"0123456789", m, ps, ["read k=7", "read k=4", "read k=3", "read k=1"]))
                out.append(self.mk("reg-setoffset-end.%s.%d" % (m, ps), b"ab\ncd", m, ps, ["setanchor o=0", "getline", "getline", "setoffset o=3", "getline", "raise o=0"]))
        # allocation-size coincidence under a stable anchor: after the rebase exactly one page is free behind the loaded bytes (n + pagesize == balloc),
        # so the next refill must NOT reallocate (stable_ptr_valid_iff, right-hand side `n + pagesize <= balloc`); `moved=` is compared exactly
        for m in ("stream", "pipe", "file"):
            for ps in (2, 3, 4, 8, 16):
                # ps bytes for the Read, then ONE line that ends with the input after 2*ps-1 more bytes: the refill inside GetLine reads a short page
                # (end of file) into the free page, and no later refill can reallocate - so `moved` must stay off until the anchor is raised
                body = b"x" * ps + b"y" * (2 * ps - 2) + b"\n"
                out.append(self.mk("stable-room.%s.%d" % (m, ps), body, m, ps,
                                   ["setanchor o=0", "read k=%d" % ps, "raise o=0", "setstable o=%d" % ps, "get", "getline", "getline", "raise o=%d" % ps, "getline"]))
        # boundary lengths: inputs of 1-3 bytes in every way of opening them, with and without page-size override
        tiny = [b"a", b"\n", b"\r", b" ", b"a\n", b"\r\n", b"ab", b"a ", b"a\r\n", b"\n\n", b"a\nb"]
        tops = [["getline", "getline", "get"], ["gettoken sep=20", "gettoken sep=20", "gettoken sep=20"], ["read k=1", "read k=1", "read k=1", "read k=1"],
                ["get", "set k=1", "get", "getoffset"], ["fetchlinestr", "fetchtokenstr sep=20", "fetchline"],
                ["setanchor o=0", "fetchline", "setoffset o=0", "fetchtoken sep=20", "raise o=0", "getline"]]
        for t in tiny:
            for m in MODES + NATURAL + VARIANTS:
                if m == "cstring" and 0 in t: continue
                for ps in (1, 2, 0):
                    for k, o in enumerate(tops):
                        out.append(self.mk("tiny-%s.%s.%d.%d" % (t.hex(), m, ps, k), t, m, ps, o))
        # a file larger than eslBUFFER_SLURPSIZE through the natural paths: esl_buffer_OpenFile/Open choose mmap by themselves
        unit = b"seq%04d  ACGTACGTACGTACGTACGTACGTACGTACGTACGTACGTACGTACGT \r\n" % 7
        rep = 4194304 // len(unit) + 400
        L = len(unit) * rep
        bigops = ["getline", "gettoken sep=20", "gettoken sep=20", "gettoken sep=20", "setoffset o=%d" % (L - 3 * len(unit) + 5), "getline", "read k=100", "getoffset",
                  "fetchline", "fetchline", "getline", "get"]
        for m in NATURAL:
            out.append(self.mk("big-natural-mmap." + m, unit, m, 0, bigops, rep=rep))
        for kind in ("file", "open", "pipe", "cmd", "dir", "opendir"):   # dir/opendir: fix 5d94071, a directory is refused with eslENOTFOUND + message
            out.append(dict(self.mk("openfail-" + kind, b"abc\n", "allfile", 4, ["openfail kind=" + kind, "getline"]), nomonitor=True))
        # known finding: the pointer handed out by `get` under the stable anchor is read again (`checkstable`) after the refill of `getline`
        # has reallocated the window: heap-use-after-free under ASan as long as the defect is in the tree (reported only then)
        if not BUF_STATE["retire"]:
            out.append(dict(self.mk("known-stable-realloc", b"ab\ncd\nef\n", "stream", 2, ["setstable o=0", "get", "getline", "checkstable", "raise o=0"]), known_key=K_STABLE, nomonitor=True))
        else:
            # regression (fix C05-stable-anchor-keep-oldmem): the former witness, and whole blocks of lines/tokens collected under a stable anchor on
            # every paged opener with page sizes 1..64 (what the SELEX/PHYLIP readers do) - the harness re-reads every pointer after every operation
            out.append(dict(self.mk("reg-stable-realloc", b"ab\ncd\nef\n", "stream", 2, ["setstable o=0", "get", "getline", "checkstable", "raise o=0"]), nomonitor=True))
            blk = b"".join(b"seq%02d  ACGUACGUAC%s\n" % (i, b"GU" * (i % 5)) for i in range(40))
            # the window position is compared exactly (`window`): after the last anchor is raised the stream must move on again (bf->stable cleared,
            # shift resumes), and before it the window must stay put
            for m in ("stream", "pipe", "file"):
                for ps in (1, 2, 5, 16, 64):
                    blk2 = blk * 5        # 200 lines: after the last raise the reader goes on far beyond what the doubled allocation holds
                    ops = self.stable_block_ops(blk2)
                    k1 = next(i for i, o in enumerate(ops) if o.startswith("raise"))
                    ops = ops[:k1] + ["window"] + ops[k1:k1 + 1] + ["getline", "getline", "window"] + ops[k1 + 1:] + ["getline"] * 150 + ["window"]
                    out.append(self.mk("reg-stable-release.%s.%d" % (m, ps), blk2, m, ps, ops, nomonitor=True))
            for m in ("stream", "pipe", "file"):
                for ps in (1, 2, 3, 7, 16, 17, 32, 33, 64, 65, 128, 129):
                    out.append(self.mk("reg-stable-block.%s.%d" % (m, ps), blk, m, ps, self.stable_block_ops(blk)))
        # regression (fix a854b4d): Read of 0 bytes on an empty input (slurped file: bf->mem == NULL) was memcpy(p, NULL, 0) (UBSan)
        for m in MODES:
            if m != "mmap": out.append(self.mk("reg-read0-null-mem." + m, b"", m, 4, ["read k=0", "getoffset", "read k=0", "read k=1", "get"]))
        # ---- outside the API contract: one scripted history per outcome of `Total` (exact model = implementation) ...
        W = b"ab\ncd\nef\ngh\n"
        for m in ("stream", "pipe", "file"):
            for ps in (1, 2, 3, 4):
                out.append(self.mk("total-rewind-refused.%s.%d" % (m, ps), W, m, ps, ["read k=9", "setanchor o=9", "trysetoffset o=1", "getoffset", "trysetanchor o=2", "trysetstable o=1", "raise o=9", "getline"], nomonitor=True, wild=True))
                out.append(self.mk("total-beyond-end.%s.%d" % (m, ps), W, m, ps, ["read k=2", "trysetoffset o=13", "getoffset", "get", "getline", "trysetoffset o=12", "trysetoffset o=3", "getline"], nomonitor=True, wild=True))
                out.append(self.mk("total-beyond-end-anchored.%s.%d" % (m, ps), W, m, ps, ["read k=2", "setanchor o=2", "trysetoffset o=40", "getoffset", "trysetoffset o=3", "getline", "trysetoffset o=12", "trysetoffset o=2", "raise o=2", "getline"], nomonitor=True, wild=True))
                out.append(self.mk("total-lower-anchor.%s.%d" % (m, ps), W, m, ps, ["setanchor o=0", "read k=7", "setanchor o=5", "setanchor o=5", "trysetanchor o=3", "trysetanchor o=3", "raise o=5", "raise o=3", "trysetoffset o=4", "raise o=3", "getline"], nomonitor=True, wild=True))
                out.append(self.mk("total-inwindow-rewind.%s.%d" % (m, ps), W * 3, m, max(ps, 2) * 8, ["read k=7", "trysetoffset o=3", "getline", "trysetoffset o=0", "getline", "trysetanchor o=1", "raise o=1"], nomonitor=True, wild=True))
                out.append(self.mk("total-set-in-window.%s.%d" % (m, ps), W * 3, m, ps * 8, ["get", "tryset k=%d" % (ps * 8), "getoffset", "get", "tryset k=%d" % (ps * 8 + 1), "getline", "tryset k=4", "getoffset"], nomonitor=True, wild=True))
        for m in ("string", "allfile", "mmap", "cstring"):
            out.append(self.mk("total-memory-anywhere." + m, W, m, 2, ["read k=9", "setanchor o=9", "trysetoffset o=1", "trysetanchor o=11", "trysetstable o=40", "getline", "trysetoffset o=12", "getline", "trysetoffset o=13", "trysetoffset o=0", "get", "tryset k=12", "get", "tryset k=1"], nomonitor=True, wild=True))
        # ... and what happens when a residual duty is violated (theorems unsafe_*): the documented-caller-error one stops before the
        # out-of-bounds read; the two that the documentation does not put on the caller are known findings (the real code dies under ASan)
        out.append(self.mk("unsafe-set-beyond-window", W, "stream", 2, ["get", "set k=5", "getoffset", "get", "getline"], nomonitor=True))
        # regression inputs of the two defects found by the total statement and repaired in /repo (4515997, b86a62d): exact comparison
        for m in ("string", "allfile", "mmap", "cstring", "auto", "open"):
            out.append(self.mk("reg-setoffset-beyond-end-in-memory." + m, b"ab", m, 4, ["setoffset o=3", "getline", "setoffset o=2", "getline", "setoffset o=40", "getoffset"], nomonitor=True))
        for m in ("stream", "pipe", "file"):
            for ps in (1, 2, 3, 4):
                out.append(self.mk("reg-anchor-ahead-of-cursor.%s.%d" % (m, ps), W, m, ps, ["setanchor o=%d" % min(ps, 2), "read k=1", "get", "getline", "getline", "raise o=%d" % min(ps, 2), "getline"], nomonitor=True))
                out.append(self.mk("reg-stable-anchor-ahead-of-cursor.%s.%d" % (m, ps), W, m, ps, ["setstable o=%d" % min(ps, 2), "get", "read k=5", "getline", "raise o=%d" % min(ps, 2), "getline"], nomonitor=True))
                out.append(self.mk("reg-rewind-before-anchor.%s.%d" % (m, ps), W, m, ps, ["setanchor o=0", "read k=3", "raise o=0", "setanchor o=3", "setoffset o=2", "read k=6", "getoffset", "raise o=3", "getline"], nomonitor=True))
        out += mem_corpus()   # round4-mem
        out += open_corpus(self, ctx)   # round4-open
        return out

    def gen_wild(self, rng, src, nops, raw=False):
        """histories OUTSIDE the API contract: every positioning call is a `try…` op with an arbitrary target (rewinds with and
        without anchor, offsets at/after the end, anchors left/right of the window or ahead of the cursor, Set beyond the
        guaranteed page). Both sides execute it unless it violates CallerOk (only tryset can: Set beyond the exposed bytes) in their own current state
        (else `unsafe`); model = implementation is compared exactly (statuses eslEINVAL/eslOK, offsets, anchor records),
        and the theorem `history_total` says what the model does on every such history."""
        L = len(src)
        ops = []
        hot = [0, L, max(0, L - 1), L + 1, L + 7]
        for _ in range(nops):
            r = rng.random()
            near = rng.choice(hot)
            o = rng.choice([near, max(0, near - 1), near + 1, max(0, near - rng.randrange(0, 9)), near + rng.randrange(0, 9), rng.randrange(0, L + 3)])
            if r < 0.30:
                ops.append(rng.choice(["getline", "fetchline", "gettoken sep=20", "fetchtoken sep=2009", "read k=%d" % rng.randrange(0, 9),
                                       "read k=%d" % rng.randrange(0, 40), "get", "getoffset", "getline", "gettoken sep=20"]))
            elif r < 0.60: ops.append("trysetoffset o=%d" % o)
            elif r < 0.75: ops.append(rng.choice(["trysetanchor", "trysetanchor", "trysetstable"]) + " o=%d" % o)
            elif r < 0.87: ops.append("raise o=%d" % o)
            elif r < 0.93:
                ops.append(rng.choice(["get", "getline", "gettoken sep=20"]))
                ops.append("tryset k=%d" % rng.choice([0, 1, 2, 3, 5, 9, 17, rng.randrange(0, 70)]))
            else: ops.append("getoffset")
            hot.append(o)
            if len(hot) > 12: hot.pop(5)
        if raw:
            # the same positioning calls without the try- prefix (since round 4 they are inside history_total either way); Set stays gated
            ops = [o[3:] if o.startswith(("trysetoffset", "trysetanchor", "trysetstable")) else o for o in ops]
        return ops

    def cases(self, ctx):
        rng = ctx.rng
        quick = ctx.tier == "quick"
        nin = 500 if quick else 8000
        out = []
        self.stats = {"inputs": 0, "input_bytes_max": 0, "ops": {}, "modes": {}, "pages": {}, "wild_cases": 0, "edge_inputs": 0}
        for i in range(nin):
            big = rng.random() < 0.04
            k = 3
            edge = (not big) and rng.random() < 0.35
            if edge:
                eps = rng.choice([1, 2, 3, 4, 5, 7, 8, 16])
                src = self.gen_edge_input(rng, eps)
                cfgs = [(rng.choice(MODES[:4]), eps)] + self.configs(rng, src, k - 1)
                cfgs = [(("allfile" if (m == "mmap" and len(src) == 0) else m), ps) for m, ps in cfgs]
                self.stats["edge_inputs"] += 1
            else:
                src = self.gen_input(rng, big)
                cfgs = self.configs(rng, src, k, minps=64 if big else 1)
            minps = min((ps if ps > 0 else 512) for _, ps in cfgs)
            nops = rng.choice([5, 20, 60, 200]) if not big else 200
            ops = self.gen_history(rng, src, minps, nops, tokens=True, readmax=None, stable=(rng.random() < (0.5 if BUF_STATE["retire"] else 0.15)))
            self.stats["inputs"] += 1
            self.stats["input_bytes_max"] = max(self.stats["input_bytes_max"], len(src))
            for o in ops: self.stats["ops"][o.split()[0]] = self.stats["ops"].get(o.split()[0], 0) + len(cfgs)
            for j, (m, ps) in enumerate(cfgs):
                self.stats["modes"][m] = self.stats["modes"].get(m, 0) + 1
                self.stats["pages"][ps] = self.stats["pages"].get(ps, 0) + 1
                out.append(self.mk("g%d.%s.%d" % (i, m, ps), src, m, ps, ops))
            if rng.random() < 0.5 and not big:
                wsrc = src if (len(src) <= 300 and rng.random() < 0.7) else self.gen_edge_input(rng, rng.choice([1, 2, 3, 4, 8]))[:rng.choice([12, 40, 200])]
                wops = self.gen_wild(rng, wsrc, rng.choice([5, 30, 80]), raw=(rng.random() < 0.35))
                for _ in range(2):
                    m, ps = rng.choice(["stream", "file", "pipe", "string", "allfile", "mmap", "file", "stream"]), rng.choice(PAGES[:9])
                    if m == "mmap" and len(wsrc) == 0: m = "allfile"
                    out.append(self.mk("wild%d.%s.%d" % (i, m, ps), wsrc, m, ps, wops, nomonitor=True, wild=True))
                    self.stats["wild_cases"] += 1
                    for o in wops: self.stats["ops"][o.split()[0]] = self.stats["ops"].get(o.split()[0], 0) + 1
        # round 6: the larger class ValidHistX (history_spec_x): streams and pipes read in pages, SetOffset beyond the end anywhere in the history;
        # monitored per operation against the extended python specification (Spec.x), compared exactly with the model
        self.stats["xhist_cases"] = 0
        for i in range(60 if quick else 800):
            xsrc = self.gen_input(rng, False) if rng.random() < 0.7 else self.gen_edge_input(rng, rng.choice([1, 2, 3, 4, 8, 16]))
            xps = rng.choice([1, 2, 3, 4, 5, 7, 8, 16, 17, 32, 33, 64, 65, 128, 129, 512])
            xm = rng.choice(["stream", "stream", "pipe", "file", "file"])
            if xm == "pipe" and len(xsrc) < xps: xm = "stream"          # a short pipe is a whole-input buffer (eslEINVAL, nothing changes)
            # round 6b: a paged FILE only while an anchor is set (history_spec_xa; without one it repositions with fseeko: Total.beyond_end_seek)
            xkind = "anchored" if (xm == "file" or rng.random() < 0.25) else True
            xops = self.gen_history(rng, xsrc, xps, rng.choice([5, 20, 60]), tokens=True, readmax=None, stable=(rng.random() < 0.3), beyond=xkind)
            out.append(self.mk("xhist%d.%s.%d" % (i, xm, xps), xsrc, xm, xps, xops, xhist=xkind))
            self.stats["xhist_cases"] += 1
        out += open_cases(self, rng, quick, ctx)   # round4-open
        out += mem_cases(rng, quick); self.stats["mem"] = mem_stats(out)   # round4-mem
        return out

    def extra_evidence(self, ctx):
        st = getattr(self, "stats", None)
        return {"input_distribution": st} if st else {}

    # ------------------------------------------------------------------ comparison / monitors
    def canonical(self, line):
        if line.startswith("fault"): return "fault"
        return " ".join(w for w in line.split() if not w.startswith(("moved=", "stale=", "spec=", "mspec=", "valid=")))

    def compare(self, ctx, case, impl_out, model_out):
        """model = implementation (exact), and — on the driver's side channel — the Lean specification `specStep` prescribes
        what the python oracle `Spec` prescribes, and every generated op is inside the Lean contract `Valid ps`"""
        ops = case["ops"]
        n = max(len(impl_out), len(model_out))
        src0 = b"" if case.get("mem") else case_cfg(ops[0])[0]   # round4-mem
        stable_seen = stable_over = False
        for i in range(n):
            a = self.canonical(impl_out[i]) if i < len(impl_out) else "<missing>"
            b = self.canonical(model_out[i]) if i < len(model_out) else "<missing>"
            if a != b and 0 < i < len(ops) and ops[i] == "get" and a.split()[:1] == b.split()[:1] and a.split()[-1:] == b.split()[-1:] and case.get("ps", 0) == 0:
                continue      # without a page-size override how much Get exposes depends on st_blksize (the monitor checks prefix + page guarantee); with the override the window is compared exactly
            if a != b: return (i, a, b)
            # the window was reallocated/moved since the stable anchor was set: exact (ASan's realloc always moves the block), which ties
            # stable_ptr_valid_iff to the code; not on wild histories, where a stable anchor ahead of the cursor makes a memmove (same block) count in the model
            # (only during the FIRST stable-anchor episode of a case: the allocation history before and inside it does not depend on how a
            # repaired buffer_refill() would grow the window under a stable anchor, cf. /var/tmp/fixes-proposed/C05-stable-anchor-keep-oldmem.patch)
            if not BUF_STATE["retire"] and not case.get("wild") and not case.get("mem") and i < len(impl_out) and i < len(model_out) and not stable_over:
                ma, mb = "moved=1" in impl_out[i].split(), "moved=1" in model_out[i].split()
                if ma != mb: return (i, "implementation: window %s since the stable anchor was set" % ("moved" if ma else "not moved"), "model: %s" % ("moved" if mb else "not moved"))
                if 0 < i < len(ops) and ops[i].startswith("setstable") and b.startswith("ok") and " a=-" not in b: stable_seen = True
                elif stable_seen and " a=-" in b: stable_over = True
        if case.get("wild") and is_mem_case(case):
            # outside the contract on a whole-input buffer: the Lean specification `memStep` prescribes what the python copy prescribes
            sp = Spec(src0)
            for i, (op, l) in enumerate(zip(ops[1:], model_out[1:]), 1):
                exp = mem_apply(sp, op)
                f = dict(x.split("=", 1) for x in l.split() if "=" in x)
                if exp == "unsafe" or exp is None or "mspec" not in f: continue
                want = "%s,%s,%d" % (exp["st"], "-" if exp.get("get") else hx(exp["bytes"]), exp["off"])
                if f["mspec"] != want: return (i, "python-memStep " + want, "lean-memStep " + f["mspec"])
            return None
        if case.get("nomonitor") or case.get("xhist"): return None     # xhist: the Lean side channel prints specStep/Valid, not specStepX (history_spec_x)
        sp = Spec(src0)
        for i, (op, l) in enumerate(zip(ops[1:], model_out[1:]), 1):
            exp = sp.apply(op)
            f = dict(x.split("=", 1) for x in l.split() if "=" in x)
            if exp is None or "spec" not in f: return None
            want = "%s,%s,%d" % (exp["st"], "-" if exp.get("get") else hx(exp["bytes"]), exp["off"])
            if f["spec"] != want: return (i, "python-spec " + want, "lean-spec " + f["spec"])
            if f.get("valid") != "1": return (i, "generated op inside the contract", "lean: Valid fails for " + op)
        return None

    def nontrivial(self, case, out):
        if case.get("mem"): return mem_nontrivial(out)   # round4-mem
        return len(out) >= 3 and sum(1 for l in out if l.startswith("ok") and " n=0 " not in l) >= 1

    WILD_ST = ("ok", "eof", "eol", "einval", "unsafe")

    def monitor(self, ctx, case, out):
        if case.get("mem"): return mem_monitor(case, out)   # round4-mem
        r4 = open_monitor(self, case, out)        # round4-open
        if r4 is not NotImplemented: return r4    # round4-open
        if case.get("wild") and is_mem_case(case):
            # whole-input buffer, any history: the implementation against the TOTAL specification memStep (theorem history_memory_exact)
            src = case_cfg(case["ops"][0])[0]
            sp = Spec(src)
            for i, (op, l) in enumerate(zip(case["ops"][1:], out[1:]), 1):
                if l.startswith(("fault", "atexit")): return None
                exp = mem_apply(sp, op)
                where = "op %d %r (whole-input mode %s, %d input bytes, history outside the API contract)" % (i, op, case.get("mode"), len(src))
                if exp == "unsafe":
                    if l.strip() != "unsafe": return Failure("monitor", where + ": harness executed a Set beyond the exposed bytes: " + l[:60])
                    continue
                if exp is None: return None
                got = parse_out(l)
                if got["st"] != exp["st"]:
                    return Failure("monitor", where + ": status %s, the total specification says %s" % (got["st"], exp["st"]))
                if int(got.get("off", -1)) != exp["off"]:
                    return Failure("monitor", where + ": offset %s afterwards, the total specification says %d" % (got.get("off"), exp["off"]))
                if got.get("a", "-") != "-":
                    return Failure("monitor", where + ": anchor record %s in a whole-input buffer (anchors are documented no-ops)" % got["a"])
                if exp.get("get"):
                    b = bytes.fromhex(got["hex"]) if got["hex"] != "-" else b""
                    if b != src[sp.cur:]: return Failure("monitor", where + ": Get exposes %d bytes, the whole rest of the input is %d" % (len(b), len(src) - sp.cur))
                elif op.split()[0].endswith("0"): pass
                elif got["hex"] != hx(exp["bytes"]) or int(got.get("n", -1)) != exp["n"]:
                    return Failure("monitor", where + ": returned %s n=%s, the total specification says %s n=%d" % (got["hex"][:80], got.get("n"), hx(exp["bytes"])[:80], exp["n"]))
            return None
        if case.get("wild"):
            # outside the contract: only the documented statuses (eslEINVAL for a refused SetOffset/SetAnchor), never an internal error
            for i, (op, l) in enumerate(zip(case["ops"][1:], out[1:]), 1):
                if l.startswith(("fault", "atexit")): return None
                if l.split()[0] not in self.WILD_ST:
                    return Failure("monitor", "op %d %r outside the API contract but inside CallerOk answered %r (documented: eslOK/eslEOF/eslEOL/eslEINVAL)" % (i, op, l[:60]))
            return None
        if case.get("nomonitor"): return None
        ops = case["ops"]
        src, ps_eff, ps, mode = case_cfg(ops[0])
        streaming = mode in ("stream", "file") or (mode in ("pipe", "pipe0") and len(src) >= ps_eff)
        if not out or not out[0].startswith("ok"):
            return Failure("monitor", "open of %d bytes in mode %s failed: %r" % (len(src), mode, out[:1]))
        sp = Spec(src)
        sp.x = case.get("xhist") or False
        known = None        # first failure that is a known finding: remembered, the specification is re-synchronised, monitoring goes on
        for i, (op, l) in enumerate(zip(ops[1:], out[1:]), 1):
            if l.startswith(("fault", "atexit")): return known    # reported by the engine as a fault
            before = sp.cur
            exp = sp.apply(op)
            if exp is None: return known                           # outside the contract: nothing to say from here on
            got = parse_out(l)
            name = op.split()[0]
            where = "op %d %r (mode %s, page %d, %d input bytes)" % (i, op, mode, ps, len(src))
            kf = None
            if "stale" in got:
                return Failure("monitor", where + ": bytes behind a pointer handed out under a stable anchor changed")
            if got["st"] != exp["st"]:
                return Failure("monitor", where + ": status %s, specification says %s" % (got["st"], exp["st"]))
            wanta = ("%d/%d" % (sp.anchor, sp.nanch)) if (streaming and sp.anchor is not None) else "-"
            if "a" in got and got["a"] != wanta:
                return Failure("monitor", where + ": anchor record %s afterwards, specification says %s (an anchor that is not released keeps the stream in memory)" % (got["a"], wanta))
            if int(got.get("off", -1)) != exp["off"]:
                return Failure("monitor", where + ": offset %s afterwards, specification says %d" % (got.get("off"), exp["off"]))
            if exp.get("get"):
                b = bytes.fromhex(got["hex"]) if got["hex"] != "-" else b""
                rem = len(src) - sp.cur
                need = min(ps, rem) if streaming else rem
                if src[sp.cur:sp.cur + len(b)] != b or int(got["n"]) != len(b) or len(b) < 1:
                    return Failure("monitor", where + ": Get returned %d bytes %s" % (len(b), got["hex"][:60]))
                if len(b) < need:
                    return Failure("monitor", where + ": Get returned %d bytes, page guarantee is %d" % (len(b), need))
            else:
                if got["hex"] != hx(exp["bytes"]) or int(got.get("n", -1)) != exp["n"]:
                    return Failure("monitor", where + ": returned %s n=%s, specification says %s n=%d" % (got["hex"][:80], got.get("n"), hx(exp["bytes"])[:80], exp["n"]))
                if exp.get("z") and got.get("z") != "1":
                    return Failure("monitor", where + ": string result is not NUL-terminated")
            if kf is not None: known = known or kf
        return known

SPEC = C05()
